(* BatchProofs.v — C27: within one commit (and across the commits a WriteBatch is split into) the
   LATER call on a key@version is the one the memtable ends up holding. *)
From Verif Require Import Bytes BytesProofs Keys C20Proofs Consts Spec Lsm Compact Iter Sys SysProofs MergeProofs CompactProofs.
From Coq Require Import ZifyN ZifyNat ZifyBool.
Open Scope N_scope.

Definition kv_match (k : bytes) (v : N) (e : entry) : bool := bytes_eqb (e_key e) k && (e_ver e =? v).
Definition find_kv (s : src) (k : bytes) (v : N) : option entry := find (kv_match k v) s.

(* last element of l satisfying f *)
Fixpoint last_match {A} (f : A -> bool) (l : list A) : option A :=
  match l with
  | [] => None
  | x :: r => match last_match f r with Some y => Some y | None => if f x then Some x else None end
  end.

Lemma kv_match_cmp_eq k v a b : kv_match k v a = true -> kv_match k v b = true -> ent_cmp a b = Eq.
Proof.
  unfold kv_match. rewrite !andb_true_iff, !N.eqb_eq, !bytes_eqb_eq. intros [A1 A2] [B1 B2].
  unfold ent_cmp. apply key_order_eq. split; congruence.
Qed.

Lemma cmp_eq_kv_match k v a b : ent_cmp a b = Eq -> kv_match k v a = kv_match k v b.
Proof. intros H. apply ent_cmp_eq in H. destruct H as [H1 H2]. unfold kv_match. now rewrite H1, H2. Qed.

(* skl.Put on the model: the entry found under key@version afterwards *)
Lemma mt_put_find s e k v :
  find_kv (mt_put s e) k v = if kv_match k v e then Some e else find_kv s k v.
Proof.
  unfold find_kv. induction s as [|x s IH]; cbn [mt_put find].
  - destruct (kv_match k v e); reflexivity.
  - destruct (ent_cmp e x) eqn:C; cbn [find].
    + rewrite (cmp_eq_kv_match k v e x C). destruct (kv_match k v x); reflexivity.
    + reflexivity.
    + rewrite IH. destruct (kv_match k v x) eqn:Mx; destruct (kv_match k v e) eqn:Me; auto.
      rewrite (kv_match_cmp_eq k v e x Me Mx) in C. discriminate.
Qed.

Lemma last_match_app {A} (f : A -> bool) a b :
  last_match f (a ++ b) = match last_match f b with Some y => Some y | None => last_match f a end.
Proof.
  induction a as [|x a IH]; cbn [app last_match].
  - destruct (last_match f b); reflexivity.
  - rewrite IH. destruct (last_match f b); reflexivity.
Qed.

(* applying a list of entries in order: the last one with that key@version wins *)
Theorem apply_later_wins L s k v :
  find_kv (fold_left mt_put L s) k v =
  match last_match (kv_match k v) L with Some e => Some e | None => find_kv s k v end.
Proof.
  revert s. induction L as [|e L IH]; intros s; cbn [fold_left last_match]; auto.
  rewrite IH. destruct (last_match (kv_match k v) L); auto.
  rewrite mt_put_find. destruct (kv_match k v e); reflexivity.
Qed.

(* ---- a transaction's calls on one key ---- *)
Definition kseq (x : txn) (k : bytes) : list entry :=
  filter (fun e => bytes_eqb (e_key e) k) (x_dups x)
  ++ match klookup (x_pend x) k with Some e => [e] | None => [] end.

(* the pending map has one slot per key, whose entry carries that key *)
Definition pend_ok (x : txn) : Prop :=
  NoDup (map fst (x_pend x)) /\ forall kk e, In (kk, e) (x_pend x) -> e_key e = kk.

Lemma klookup_in l k e : klookup l k = Some e -> exists kk, In (kk, e) l /\ kk = k.
Proof.
  induction l as [|[j b] l IH]; cbn; [discriminate|].
  destruct (bytes_eqb j k) eqn:E.
  - intros [= ->]. apply bytes_eqb_eq in E. exists j. split; [now left|auto].
  - intros H. destruct (IH H) as (kk & A & B). exists kk. split; [now right|auto].
Qed.

Lemma kupdate_keys l k e :
  map fst (kupdate l k e) = if existsb (fun j => bytes_eqb j k) (map fst l) then map fst l else map fst l ++ [k].
Proof.
  induction l as [|[j b] l IH]; cbn; auto.
  destruct (bytes_eqb j k) eqn:E; cbn.
  - apply bytes_eqb_eq in E. now subst.
  - now rewrite IH; destruct (existsb _ _).
Qed.

Lemma existsb_false_notin (l : list bytes) k : existsb (fun j => bytes_eqb j k) l = false -> ~ In k l.
Proof.
  intros H Hin. assert (E: existsb (fun j => bytes_eqb j k) l = true).
  { apply existsb_exists. exists k. split; auto. apply bytes_eqb_refl. }
  congruence.
Qed.

Lemma kupdate_nodup l k e : NoDup (map fst l) -> NoDup (map fst (kupdate l k e)).
Proof.
  intros H. rewrite kupdate_keys. destruct (existsb _ _) eqn:E; auto.
  apply existsb_false_notin in E. clear -H E. induction (map fst l) as [|y r IH]; cbn.
  - constructor; [intros []|constructor].
  - inversion H; subst. constructor.
    + intros Hin. apply in_app_or in Hin. destruct Hin as [Hin|[->|[]]]; auto. apply E. now left.
    + apply IH; auto. intros Hk. apply E. now right.
Qed.

Lemma kupdate_pairs l k e kk a :
  In (kk, a) (kupdate l k e) -> (kk = k /\ a = e) \/ In (kk, a) l.
Proof.
  induction l as [|[j b] l IH]; cbn.
  - intros [[= <- <-]|[]]. left. auto.
  - destruct (bytes_eqb j k) eqn:E.
    + intros [[= <- <-]|H]; [left; auto|right; now right].
    + intros [H|H]; [right; now left|]. destruct (IH H); auto.
Qed.

Lemma txn_modify_pend_ok x e : pend_ok x -> pend_ok (snd (txn_modify x e)).
Proof.
  intros [Hn Hk]. unfold pend_ok. rewrite txn_modify_pend.
  destruct (fst (txn_modify x e) =? 0); [|split; auto].
  split; [now apply kupdate_nodup|].
  intros kk a Hin. apply kupdate_pairs in Hin. destruct Hin as [[-> ->]|Hin]; auto.
Qed.

Lemma klookup_some_in_keys l k e : klookup l k = Some e -> In k (map fst l).
Proof.
  induction l as [|[j b0] l IHl]; cbn; [discriminate|].
  destruct (bytes_eqb j k) eqn:E; [apply bytes_eqb_eq in E; now left|right; auto].
Qed.

(* under pend_ok, the pending entries with user key k are exactly the looked-up one *)
Lemma pend_filter_key l k :
  NoDup (map fst l) -> (forall kk e, In (kk, e) l -> e_key e = kk) ->
  filter (fun e => bytes_eqb (e_key e) k) (map snd l) =
  match klookup l k with Some e => [e] | None => [] end.
Proof.
  induction l as [|[j b] l IH]; intros Hn Hk; cbn [map filter klookup snd]; auto.
  cbn [map fst] in Hn. inversion Hn as [|? ? Hj Hn']; subst.
  assert (Hb: e_key b = j) by (apply Hk; now left).
  assert (Hk': forall kk e, In (kk, e) l -> e_key e = kk) by (intros; apply Hk; now right).
  rewrite Hb. destruct (bytes_eqb j k) eqn:E.
  - apply bytes_eqb_eq in E. subst j. f_equal.
    (* no other entry with key k *)
    assert (Hnone: klookup l k = None).
    { destruct (klookup l k) as [e0|] eqn:L; auto. exfalso. apply Hj.
      rewrite E. eapply klookup_some_in_keys; eauto. }
    rewrite IH by assumption. now rewrite Hnone.
  - now apply IH.
Qed.

(* ---- the version an entry is stored at ---- *)
Definition sver (ts : N) (e : entry) : N := e_ver (stamp ts e).
Definition last_sv (ts v : N) (l : list entry) : option entry := last_match (fun e => sver ts e =? v) l.

Lemma stamp_key ts e : e_key (stamp ts e) = e_key e.
Proof. unfold stamp. destruct (e_ver e =? 0); reflexivity. Qed.

(* accepted calls of a transaction, in call order *)
Fixpoint accepted_calls (x : txn) (es : list entry) : list entry :=
  match es with
  | [] => []
  | e :: r => let '(c, x') := txn_modify x e in
              (if c =? 0 then [e] else []) ++ accepted_calls x' r
  end.

Lemma txn_modify_rejected x e : negb (fst (txn_modify x e) =? 0) = true -> snd (txn_modify x e) = x.
Proof.
  unfold txn_modify. destruct (x_update x); [|reflexivity]. destruct (x_done x); [reflexivity|].
  destruct (e_key e) as [|b0 k0] eqn:Ek; [reflexivity|].
  destruct (is_prefix c_badgerPrefix (b0 :: k0)); [reflexivity|]. cbn. discriminate.
Qed.

Lemma txn_modify_dups x e :
  fst (txn_modify x e) = 0 ->
  x_dups (snd (txn_modify x e)) =
  match klookup (x_pend x) (e_key e) with
  | Some old => if e_ver old =? e_ver e then x_dups x else x_dups x ++ [old]
  | None => x_dups x
  end.
Proof.
  unfold txn_modify. destruct (x_update x); [|cbn; discriminate]. destruct (x_done x); [cbn; discriminate|].
  destruct (e_key e) as [|b0 k0] eqn:Ek; [cbn; discriminate|].
  destruct (is_prefix c_badgerPrefix (b0 :: k0)); [cbn; discriminate|]. intros _. reflexivity.
Qed.

Lemma filter_app_single {A} (f : A -> bool) l a : filter f (l ++ [a]) = filter f l ++ (if f a then [a] else []).
Proof. rewrite filter_app. cbn. destruct (f a); reflexivity. Qed.

(* one accepted call: the key's sequence grows by the call, except that a pending entry of the
   same version is replaced (it is no longer the last one of its version anyway) *)
Lemma last_sv_modify x e k ts v :
  pend_ok x -> fst (txn_modify x e) = 0 ->
  last_sv ts v (kseq (snd (txn_modify x e)) k) =
  last_sv ts v (kseq x k ++ (if bytes_eqb (e_key e) k then [e] else [])).
Proof.
  intros [Hn Hk] Hacc. unfold kseq. rewrite txn_modify_pend, Hacc, N.eqb_refl, (txn_modify_dups x e Hacc).
  destruct (bytes_eqb (e_key e) k) eqn:Ek.
  - apply bytes_eqb_eq in Ek. subst k. rewrite klookup_kupdate_same.
    destruct (klookup (x_pend x) (e_key e)) as [old|] eqn:L.
    + destruct (klookup_in _ _ _ L) as (kk & Hin & ->). pose proof (Hk _ _ Hin) as Hold.
      destruct (e_ver old =? e_ver e) eqn:Ev.
      * (* replaced *)
        apply N.eqb_eq in Ev. unfold last_sv. rewrite <- !app_assoc, !last_match_app. cbn [last_match app].
        assert (Es: sver ts old = sver ts e).
        { unfold sver, stamp. rewrite Ev. destruct (e_ver e =? 0); cbn; auto. }
        rewrite Es. destruct (sver ts e =? v); reflexivity.
      * rewrite filter_app_single, Hold, bytes_eqb_refl. now rewrite <- !app_assoc.
    + now rewrite app_nil_r.
  - rewrite klookup_kupdate_other by assumption. rewrite app_nil_r.
    destruct (klookup (x_pend x) (e_key e)) as [old|] eqn:L; auto.
    destruct (e_ver old =? e_ver e); auto.
    destruct (klookup_in _ _ _ L) as (kk & Hin & ->). pose proof (Hk _ _ Hin) as Hold.
    rewrite filter_app_single, Hold, Ek. now rewrite app_nil_r.
Qed.

Lemma last_sv_app ts v a b :
  last_sv ts v (a ++ b) = match last_sv ts v b with Some y => Some y | None => last_sv ts v a end.
Proof. apply last_match_app. Qed.

Lemma modifies_pend_ok x es : pend_ok x -> pend_ok (modifies x es).
Proof.
  revert x. induction es as [|e es IH]; intros x H; cbn [modifies]; auto.
  apply IH. now apply txn_modify_pend_ok.
Qed.

(* all calls of the transaction: the key's sequence = initial sequence ++ accepted calls on k,
   as far as "last entry stored at version v" is concerned *)
Lemma last_sv_modifies x es k ts v :
  pend_ok x ->
  last_sv ts v (kseq (modifies x es) k) =
  last_sv ts v (kseq x k ++ filter (fun e => bytes_eqb (e_key e) k) (accepted_calls x es)).
Proof.
  revert x. induction es as [|e es IH]; intros x Hok; cbn [modifies accepted_calls].
  - now rewrite app_nil_r.
  - destruct (txn_modify x e) as [c x'] eqn:E. cbn [snd].
    assert (Hx': x' = snd (txn_modify x e)) by now rewrite E.
    rewrite IH by (rewrite Hx'; now apply txn_modify_pend_ok).
    destruct (c =? 0) eqn:Ec.
    + apply N.eqb_eq in Ec. subst c. rewrite filter_app. cbn [filter app].
      rewrite !last_sv_app. rewrite Hx', (last_sv_modify x e k ts v Hok) by now rewrite E.
      rewrite last_sv_app. destruct (bytes_eqb (e_key e) k); cbn [last_sv last_match app filter];
        fold (last_sv ts v);
        repeat match goal with
               | |- context [match last_sv ts v ?l with _ => _ end] => destruct (last_sv ts v l)
               | |- context [if ?b then _ else _] => destruct b
               end; reflexivity.
    + cbn [app]. rewrite Hx', txn_modify_rejected by (rewrite E; cbn; now rewrite Ec). reflexivity.
Qed.

(* ---- from the key's sequence to what commitAndSend emits ---- *)
Lemma last_match_filter {A} (f g : A -> bool) l :
  last_match (fun a => g a && f a) l = last_match f (filter g l).
Proof.
  induction l as [|x l IH]; cbn [last_match filter]; auto.
  destruct (g x) eqn:G; cbn [last_match]; rewrite IH; cbn [andb]; destruct (last_match f (filter g l)); reflexivity.
Qed.

Lemma last_match_map {A B} (h : A -> B) (f : B -> bool) l :
  last_match f (map h l) = option_map h (last_match (fun a => f (h a)) l).
Proof.
  induction l as [|x l IH]; cbn [last_match map option_map]; auto.
  rewrite IH. destruct (last_match (fun a => f (h a)) l); cbn; auto. destruct (f (h x)); reflexivity.
Qed.

Lemma last_match_ext {A} (f g : A -> bool) l : (forall a, f a = g a) -> last_match f l = last_match g l.
Proof. intros H. induction l as [|x l IH]; cbn; auto. now rewrite IH, H. Qed.

Lemma filter_map_stamp ts k l :
  filter (fun e => bytes_eqb (e_key e) k) (map (stamp ts) l) =
  map (stamp ts) (filter (fun e => bytes_eqb (e_key e) k) l).
Proof.
  induction l as [|x l IH]; cbn [map filter]; auto. rewrite stamp_key, IH.
  destruct (bytes_eqb (e_key x) k); reflexivity.
Qed.

Lemma commit_entries_key x ts k :
  pend_ok x ->
  filter (fun e => bytes_eqb (e_key e) k) (commit_entries x ts) = map (stamp ts) (kseq x k).
Proof.
  intros [Hn Hk]. unfold commit_entries, kseq. rewrite filter_app, map_app, filter_map_stamp. f_equal.
  replace (map (fun ke => stamp ts (snd ke)) (x_pend x)) with (map (stamp ts) (map snd (x_pend x)))
    by now rewrite map_map.
  rewrite filter_map_stamp, pend_filter_key by assumption.
  destruct (klookup (x_pend x) k); reflexivity.
Qed.

(* Theorem (C27): after the transaction's entries went into the memtable, the entry stored under
   key@version is the LAST accepted call on that key whose stored version is that version *)
Theorem commit_later_call_wins x0 es ts s k v :
  pend_ok x0 -> x_pend x0 = [] -> x_dups x0 = [] ->
  let x := modifies x0 es in
  find_kv (fold_left mt_put (commit_entries x ts) s) k v =
  match last_match (fun e => kv_match k v (stamp ts e)) (accepted_calls x0 es) with
  | Some e => Some (stamp ts e)
  | None => find_kv s k v
  end.
Proof.
  intros Hok Hp Hd x. rewrite apply_later_wins.
  assert (Hx: pend_ok x) by now apply modifies_pend_ok.
  assert (E1: last_match (kv_match k v) (commit_entries x ts) = option_map (stamp ts) (last_sv ts v (kseq x k))).
  { unfold kv_match. rewrite last_match_filter, (commit_entries_key x ts k Hx), last_match_map.
    unfold last_sv, sver. reflexivity. }
  assert (E2: last_match (fun e => kv_match k v (stamp ts e)) (accepted_calls x0 es)
              = last_sv ts v (filter (fun e => bytes_eqb (e_key e) k) (accepted_calls x0 es))).
  { unfold last_sv, sver. rewrite <- last_match_filter. apply last_match_ext.
    intros a. unfold kv_match. now rewrite stamp_key. }
  rewrite E1, E2. unfold x. rewrite (last_sv_modifies x0 es k ts v Hok).
  unfold kseq at 1. rewrite Hp, Hd. cbn [filter klookup app].
  generalize (last_sv ts v (filter (fun e => bytes_eqb (e_key e) k) (accepted_calls x0 es))).
  intros r. destruct r; reflexivity.
Qed.
