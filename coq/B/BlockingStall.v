(* BlockingStall.v — C38: the level-0 stall loop against "compactors stopped".

   levels.go addLevel0Table: `for !s.levels[0].tryAddLevel0Table(t) { for numTables() >=
   NumLevelZeroTablesStall { time.Sleep(10ms) } }` — the caller waits for the event "a compactor
   removes a table from level 0", which only a RUNNING compactor performs (K0_finishL0 /
   KO_finishL0 of Blocking.v; Flatten, outside the LTS, performs it itself).  Callers of
   addLevel0Table (through db.go handleMemTableFlush):
     * the flushMemtable goroutine (F_add) — for memtables rotated by ensureRoomForWrite and for
       the memtable Close pushes (C_mt: db.close() pushes db.mt to flushChan, closes it, waits for
       the flusher and only THEN signals the compactors: C_waitf sets csig);
     * DropPrefix itself, under db.lock (D_flushmt) — after prepareToDrop (writes blocked, writer
       stopped, flusher stopped: stopMemoryFlush waits for it, so db.imm is empty and only db.mt
       is left) and BEFORE `db.stopCompactions(); defer db.startCompactions()`;
     * DropAll never calls it: dropAll() stops the compactors right after prepareToDrop and then
       throws the memtables away (D_skipmt has no level-0 guard).
   compactors are stopped by db.stopCompactions (closers.compactors.SignalAndWait(): D_stopc sets
   csig, D_waitc waits for all_exited) and by Close (C_waitf/C_waitc); startCompactions = D_restart.

   This file adds NO transition to Blocking.step: every resource involved is already there.  It
   defines (1) the predicates of the statement "whoever waits in the stall loop can be served by
   the compactors alone", (2) the compactor-only path that serves it, and (3) the SAME LTS with
   DropPrefix's `stopCompactions` moved in front of its memtable flush (`step_early`), whose
   reachable deadlock is the documentation of why the order in the code matters. *)
From Coq Require Import List Arith Bool.
Import ListNotations.
From Verif Require Import Blocking.

Definition is_fbuild (x : flst) : bool := match x with FBuild => true | _ => false end.
Definition is_dflushmt (x : dph) : bool := match x with DFlushMt => true | _ => false end.
Definition mt_nonempty (x : mst) : bool := match x with MtSome | MtFull => true | _ => false end.

(* a thread sits in addLevel0Table's stall loop *)
Definition flusher_stalled (c : cfg) (s : st) : bool := is_fbuild (fl s) && (cS c <=? l0 s).
Definition drop_stalled (c : cfg) (s : st) : bool :=
  is_dflushmt (drp s) && dkind s && mt_nonempty (mt s) && (cS c <=? l0 s).
Definition stall_wait (c : cfg) (s : st) : bool := flusher_stalled c s || drop_stalled c s.

(* every compactor goroutine is in its loop: no stop signalled, none has returned *)
Definition compactors_run (s : st) : bool :=
  negb (csig s) && negb (is_cexit (c0 s)) && (oexit s =? 0).

(* transitions of the compactor goroutines that need nobody else *)
Definition compactor_lab (l : lab) : bool :=
  match l with
  | K0_startL0 | K0_finishL0 _ | K0_finishLi | KO_startL0 | KO_finishL0 _ | KO_finishLi _ => true
  | _ => false
  end.

(* the compactors make room in level 0 on their own: finish the level-0 compaction that runs,
   or finish what blocks L0->Lbase, let worker 0 pick level 0 and finish *)
Definition resolve_path (s : st) : list lab :=
  if is_cl0 (c0 s) then [K0_finishL0 1]
  else if negb (ol0 s =? 0) then [KO_finishL0 1]
  else (match c0 s with CLi _ => [K0_finishLi] | _ => [] end)
       ++ repeat (KO_finishLi true) (olib s) ++ [K0_startL0; K0_finishL0 1].

(* ---- the LTS with DropPrefix's stopCompactions moved before its memtable flush ----
   coded order   : D_view -> DFlushMt -(D_flushmt)-> DStopC -(D_stopc)-> DWaitC -(D_waitc)-> DDo
   reordered     : D_view -> DStopC -(D_stopc)-> DWaitC -(D_waitc)-> DFlushMt -(D_flushmt)-> DDo
   DropAll (dkind = false) is untouched; guards and effects of every label are those of `step`. *)
Definition early_next (s : st) (l : lab) (s' : st) : st :=
  if dkind s then
    match l with
    | D_view => set_drp DStopC s'
    | D_waitc => set_drp DFlushMt s'
    | D_flushmt => set_drp DDo s'
    | _ => s'
    end
  else s'.

Definition step_early (strict : bool) (c : cfg) (s : st) (l : lab) : option st :=
  match step strict c s l with
  | Some s' => Some (early_next s l s')
  | None => None
  end.

Fixpoint exec_early (strict : bool) (c : cfg) (s : st) (ls : list lab) : option st :=
  match ls with
  | [] => Some s
  | l :: r => match step_early strict c s l with Some s' => exec_early strict c s' r | None => None end
  end.

Inductive reach_early (strict : bool) (c : cfg) : st -> Prop :=
  | reach_early_init : reach_early strict c (init c)
  | reach_early_step : forall s l s', reach_early strict c s -> step_early strict c s l = Some s' ->
      reach_early strict c s'.

(* level 0 at the stall limit with the compactors idle (they have not had a run yet: after Open
   each waits a random delay of up to 1 s; in general: they are behind), a non-empty memtable *)
Definition sched_l0_full : list lab :=
  one_commit ++ [J_write true; J_done]
  ++ one_commit ++ [J_rotate; J_write true; J_done; F_take; F_add]
  ++ one_commit ++ [J_rotate; J_write false; J_done; F_take; F_add].

(* DropPrefix up to the View of filterPrefixesToDrop (writes blocked, writer and flusher stopped) *)
Definition drop_to_view : list lab :=
  [E_drop true; D_sig; W_sig; W_default; W_final; J_done; D_waitw; D_default; J_done;
   D_stopf; F_exit; D_waitf; D_view].

(* reordered DropPrefix: the compactors are stopped, then the flush finds level 0 full *)
Definition sched_early_hang : list lab :=
  sched_l0_full ++ drop_to_view ++ [D_stopc; K0_exit; KO_exit; D_waitc].

(* coded DropPrefix from the same state: the flush waits, a compactor makes room, the flush goes
   through, only then are the compactors stopped *)
Definition sched_coded_ok : list lab :=
  sched_l0_full ++ drop_to_view
  ++ [K0_startL0; K0_finishL0 1; D_flushmt; D_stopc; K0_exit; KO_exit; D_waitc; D_do 0; D_restart].
