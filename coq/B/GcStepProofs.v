(* GcStepProofs.v — the invariant along histories: every label of the model preserves Inv
   (under the stated admissibility conditions), every GC label leaves every read at or above
   the discard timestamp unchanged; items of open transactions. *)
From Verif Require Import Bytes BytesProofs Keys C20Proofs Consts Spec Lsm Compact Iter Sys
  LsmProofs CompactProofs GetProofs MergeProofs C12Proofs Gc GcProofs GcInvProofs.
From Coq Require Import ZifyN ZifyNat ZifyBool Sorting.Sorted.
Open Scope N_scope.

(* ---- admissibility: what the theorems assume about the interleaved labels ---- *)
Definition commit_ts (y : sys) (cts : N) : N := if s_managed y then cts else s_next y.

(* a commit writes versions that are new for their keys (normal mode: the commit timestamp is
   above every version; managed mode: the caller's contract, finding F10), and does not write
   the same key@version twice with different content *)
Definition adm_commit (s : xsys) (t cts : N) (ord : list (bytes * N)) : Prop :=
  forall x, lookup (s_txns (x_sys s)) t = Some x ->
    fresh_entries (x_db s) (order_by ord (commit_entries x (commit_ts (x_sys s) cts))).

(* a compaction (as computed by the model from the label): the result is well formed, contains
   only entries of the old tree, every lookup at or above its discard timestamp is won by the
   entry that won it before (same-key@version precedence: finding F8 violates this), and a key
   waiting in wb is still found at or above its version (findings F23 / F26 violate this
   although the #2286 clamp holds) *)
Definition adm_compact (s : xsys) (c : compaction) : Prop :=
  let d := x_db s in
  let d' := mkLsm (l_mt d) (l_imm d) (apply_compaction (l_levels d) c) in
  lsm_wf d' /\ (forall x, In x (all_entries d') -> In x (all_entries d))
  /\ keeps_winners d d' (c_discard c) /\ keeps_pending d' (x_gc s).

Definition admissible (s : xsys) (o : xop) : Prop :=
  match o with
  | Base (Commit t cts _) => adm_commit s t cts []
  | CommitV t cts _ ord => adm_commit s t cts ord
  | Base (Compact c _) => adm_compact s c
  | Base (SetNow n) => s_now (x_sys s) <= n
  | _ => True
  end.

(* ---- the base labels that do not touch tree, value log or clock ---- *)
Lemma step_quiet y o y' : step y o = Ok y' ->
  match o with
  | Flush id => s_db y' = flush_oldest (rotate (s_db y)) id /\ s_now y' = s_now y
  | SetNow n => s_db y' = s_db y /\ s_now y' = n
  | Commit _ _ _ | Compact _ _ => True
  | _ => s_db y' = s_db y /\ s_now y' = s_now y
  end.
Proof.
  destruct o; cbn [step]; auto.
  - destruct (s_managed y || (rts =? s_next y - 1)); [|discriminate]. intros [= <-]. auto.
  - destruct (lookup (s_txns y) t) as [x|]; [|discriminate].
    destruct (txn_modify x e) as [r' x']. destruct (r' =? r); [|discriminate]. intros [= <-]. auto.
  - destruct (lookup (s_txns y) t) as [x|]; [|discriminate].
    destruct (txn_get y x k) as [r' x']. destruct (getres_eqb r' r); [|discriminate]. intros [= <-]. auto.
  - destruct (lookup (s_txns y) t) as [x|]; [|discriminate].
    destruct (entries_eqb (txn_iterate y x o seek) items); [|discriminate]. intros [= <-]. auto.
  - destruct (lookup (s_txns y) t) as [x|]; [|discriminate]. intros [= <-]. auto.
  - intros [= <-]. auto.
  - intros [= <-]. auto.
  - intros [= <-]. auto.
  - destruct (dump_eqb (l_levels (s_db y)) levels); [|discriminate]. intros [= <-]. auto.
  - destruct (max_version (s_db y) =? v); [|discriminate]. intros [= <-]. auto.
Qed.

Lemma txn_commit_db y t x cts r ts y1 : txn_commit y t x cts = (r, ts, y1) ->
  s_now y1 = s_now y /\
  ((s_db y1 = s_db y /\ (x_pend x = [] \/ r <> 0)) \/
   (x_pend x <> [] /\ r = 0 /\ ts = commit_ts y cts)).
Proof.
  unfold txn_commit, commit_ts. destruct (x_pend x) as [|p ps] eqn:P.
  - intros [= <- <- <-]. cbn. auto.
  - destruct (x_done x). { intros [= <- <- <-]. split; auto. left. split; auto. right. discriminate. }
    destruct (s_detect y && has_conflict y x).
    { intros [= <- <- <-]. cbn. split; auto. left. split; auto. right. discriminate. }
    intros [= <- <- <-]. cbn. split; auto. right. split; [discriminate|]. auto.
Qed.

Lemma inv_same s s' :
  x_db s' = x_db s -> x_v s' = x_v s -> x_gc s' = x_gc s -> x_todel s' = x_todel s ->
  has_iters s' = has_iters s -> x_dmax s' = x_dmax s -> s_now (x_sys s') = s_now (x_sys s) ->
  inv s -> inv s'.
Proof. unfold inv. intros -> -> -> -> -> -> ->. auto. Qed.

Lemma commit_step_inv s t cts r ord s' tg :
  inv s -> adm_commit s t cts ord -> commit_step s t cts r ord = XOk s' tg -> inv s'.
Proof.
  unfold commit_step, adm_commit. intros I A.
  destruct (lookup (s_txns (x_sys s)) t) as [x|] eqn:L; [|discriminate]. specialize (A x eq_refl).
  unfold xcommit. destruct (txn_commit (x_sys s) t x cts) as [[r' ts] y1] eqn:T.
  destruct (txn_commit_db _ _ _ _ _ _ _ T) as [Hnow Hc].
  destruct (x_pend x) as [|p ps] eqn:P.
  - destruct ((r' =? r) && (negb (r' =? 0) || (ts =? 0) || (ts =? cts))); [|discriminate].
    intros [= <- _]. destruct Hc as [[Hdb _]|[Hne _]]; [|congruence].
    eapply inv_same; eauto.
  - destruct (r' =? 0) eqn:R0.
    + destruct (write_req (x_v s) (order_by ord (commit_entries x ts))) as [v' pes] eqn:W.
      destruct ((r' =? r) && (negb (r' =? 0) || (ts =? 0) || (ts =? cts))); [|discriminate].
      intros [= <- _]. destruct Hc as [[_ [Hc|Hc]]|(_ & _ & Hts)]; [discriminate|apply N.eqb_eq in R0; congruence|].
      subst ts. unfold inv. cbn. rewrite Hnow.
      eapply commit_inv; eauto.
    + destruct ((r' =? r) && (negb (r' =? 0) || (ts =? 0) || (ts =? cts))); [|discriminate].
      intros [= <- _]. destruct Hc as [[Hdb _]|(_ & Hr & _)]; [|subst r'; discriminate].
      eapply inv_same; eauto.
Qed.

Ltac simpl_inv := unfold inv, has_iters, x_db, set_sys, set_v, set_gc, set_dmax, set_db;
  cbn [x_sys x_v x_gc x_todel x_iters x_items x_dmax s_db s_now].

Lemma base_step_inv s o s' tg :
  inv s -> admissible s (Base o) -> base_step s o = XOk s' tg -> inv s'.
Proof.
  intros I A. unfold base_step.
  destruct o; cbn [admissible] in A.
  - (* Begin *) destruct (step (x_sys s) (Begin t upd rts)) as [y'|] eqn:S; [|discriminate].
    intros [= <- _]. destruct (step_quiet _ _ _ S). eapply inv_same; eauto.
  - destruct (step (x_sys s) (Modify t e r)) as [y'|] eqn:S; [|discriminate].
    intros [= <- _]. destruct (step_quiet _ _ _ S). eapply inv_same; eauto.
  - (* Get *)
    destruct (lookup (s_txns (x_sys s)) t) as [x|]; [|discriminate].
    destruct (txn_get (x_sys s) x k) as [r' x'].
    destruct (getres_eqb (getres_view (x_v s) r') r); [|discriminate].
    intros [= <- _]. eapply inv_same; eauto.
  - (* Iterate *)
    destruct (lookup (s_txns (x_sys s)) t) as [x|]; [|discriminate].
    destruct (entries_eqb (map (view (x_v s)) (txn_iterate (x_sys s) x o seek)) items); [|discriminate].
    intros [= <- _]. eapply inv_same; eauto.
  - (* Commit *) now apply commit_step_inv.
  - destruct (step (x_sys s) (Discard t)) as [y'|] eqn:S; [|discriminate].
    intros [= <- _]. destruct (step_quiet _ _ _ S). eapply inv_same; eauto.
  - (* Flush *)
    destruct (step (x_sys s) (Flush id)) as [y'|] eqn:S; [|discriminate].
    intros [= <- _]. destruct (step_quiet _ _ _ S) as [Hdb Hnow].
    assert (Hf: match (match l_mt (s_db (x_sys s)) with [] => x_iters s | e0 :: m0 => freeze_iters (e0 :: m0) (x_iters s) end) with
                | [] => false | _ :: _ => true end
                = match x_iters s with [] => false | _ :: _ => true end).
    { destruct (l_mt (s_db (x_sys s))); auto. destruct (x_iters s); reflexivity. }
    simpl_inv. rewrite Hf, Hdb, Hnow. now apply flush_inv.
  - (* Compact *)
    destruct A as (Hwf' & Hsub & HP & HC).
    destruct (negb (pick_check (l_levels (s_db (x_sys s))) c =? 0)); [discriminate|].
    destruct (match the_clamp s with Some cl => cl <? c_discard c | None => false end); [discriminate|].
    destruct (s_managed (x_sys s) && _); [discriminate|].
    destruct (entries_eqb _ out); [|discriminate].
    destruct (sorted_by_smallest _ || _); [|discriminate].
    intros [= <- _]. simpl_inv. eapply reshape_inv; eauto.
  - destruct (step (x_sys s) (SetDiscard ts)) as [y'|] eqn:S; [|discriminate].
    intros [= <- _]. destruct (step_quiet _ _ _ S). eapply inv_same; eauto.
  - (* SetNow *)
    destruct (step (x_sys s) (SetNow n)) as [y'|] eqn:S; [|discriminate].
    intros [= <- _]. destruct (step_quiet _ _ _ S) as [Hdb Hnow].
    simpl_inv. rewrite Hdb, Hnow. eapply now_inv; eauto.
  - (* Dump *)
    destruct (dump_eqb _ levels); [|discriminate]. intros [= <- _]. exact I.
  - destruct (step (x_sys s) (MaxVersion v)) as [y'|] eqn:S; [|discriminate].
    intros [= <- _]. destruct (step_quiet _ _ _ S). eapply inv_same; eauto.
Qed.

Lemma close_iter_inv s i : inv s -> inv (close_iter s i).
Proof.
  intros I. unfold close_iter.
  destruct (filter (fun p => negb (fst p =? i)) (x_iters s)) as [|p ps] eqn:F.
  - (* the last iterator: the pending files are deleted *)
    simpl_inv. apply (iters_inv _ _ _ _ (match x_iters s with [] => false | _ => true end)); [|now left].
    apply (remove_inv _ _ _ (x_todel s)); auto.
    + intros f Hf. split; [now apply (i_todel_lt _ _ _ _ _ _ _ I)|].
      now destruct (i_todel _ _ _ _ _ _ _ I f Hf).
    + intros f [].
  - simpl_inv. apply (iters_inv _ _ _ _ (match x_iters s with [] => false | _ => true end)); auto.
Qed.

Theorem xstep_inv s o s' tg : inv s -> admissible s o -> xstep s o = XOk s' tg -> inv s'.
Proof.
  intros I A. destruct o; cbn [xstep].
  - now apply base_step_inv.
  - now apply commit_step_inv.
  - (* GetHold *)
    destruct (lookup (s_txns (x_sys s)) t) as [x|]; [|discriminate].
    destruct (txn_get (x_sys s) x k) as [r' x'].
    destruct (getres_meta_eqb (x_v s) r' r); [|discriminate].
    intros [= <- _]. eapply inv_same; eauto.
  - (* ItemValue *)
    destruct (lookup (x_items s) h) as [e|]; [|discriminate].
    destruct (bytes_eqb _ val); [|discriminate]. intros [= <- _]. exact I.
  - (* ItOpen *)
    destruct (lookup (s_txns (x_sys s)) t) as [x|]; [|discriminate].
    intros [= <- _]. simpl_inv. apply (iters_inv _ _ _ _ (match x_iters s with [] => false | _ => true end)); auto.
    right. destruct (update (x_iters s) i (mkIt t o (s_db (x_sys s)) None)) eqn:U; auto.
    destruct (x_iters s) as [|[j a] r]; cbn in U; [discriminate|]. destruct (j =? i); discriminate.
  - (* ItRun *)
    destruct (lookup (x_iters s) i) as [it|]; [|discriminate].
    destruct (lookup (s_txns (x_sys s)) (it_txn it)) as [x|]; [|discriminate].
    destruct (entries_eqb _ items); [|discriminate]. intros [= <- _]. exact I.
  - (* ItClose *)
    destruct (lookup (x_iters s) i) as [it|]; [|discriminate].
    intros [= <- _]. now apply close_iter_inv.
  - (* GcStart *)
    destruct (x_gc s) as [g|] eqn:G; [discriminate|].
    destruct (existsb (N.eqb fid) (x_todel s)).
    { destruct (r =? 1); [|discriminate]. intros [= <- _]. exact I. }
    destruct (fid <? v_max (x_v s)) eqn:L; [|discriminate]. cbn [negb].
    destruct (file_present (x_v s) fid); [|discriminate]. cbn [negb].
    destruct (r =? 0); [|discriminate]. intros [= <- _].
    simpl_inv. unfold inv in I. rewrite G in I. apply gcstart_inv; auto. lia.
  - (* GcScan *)
    destruct (x_gc s) as [g|] eqn:G; [|discriminate].
    destruct (g_scanned g) eqn:Sc; [discriminate|].
    destruct (keys_eqb _ kept); [|discriminate]. intros [= <- _].
    simpl_inv. unfold inv in I. rewrite G in I.
    destruct (vfind (v_files (x_v s)) (g_fid g)) as [rs|] eqn:F.
    + now apply gcscan_inv.
    + (* no such file: nothing is kept *)
      cbn [gc_scan]. constructor; try (apply I). cbn.
      destruct (i_gc _ _ _ _ _ _ _ I) as (A1 & _). split; auto. split; [discriminate|]. intros _.
      split; [intros ? ? []|]. intros k ts e idx Hts Gd [Hp Hv]. exfalso.
      destruct (db_get_some _ _ _ _ (i_wf _ _ _ _ _ _ _ I) Gd) as (Ein & _).
      destruct (i_tree _ _ _ _ _ _ _ I e Ein Hp) as (f' & i' & r0 & B1 & B2 & _).
      unfold fread in B2. rewrite Hv, F in B2. discriminate.
  - (* GcWriteBack *)
    destruct (x_gc s) as [g|] eqn:G; [|discriminate].
    destruct (g_scanned g) eqn:Sc; [|discriminate]. cbn [negb].
    destruct (g_wb g) as [|p ps] eqn:Wb.
    + intros [= <- _]. exact I.
    + rewrite <- Wb. destruct (write_req (x_v s) (map snd (g_wb g))) as [v' pes] eqn:W.
      intros [= <- _]. simpl_inv. unfold inv in I. rewrite G in I.
      now destruct (writeback_inv _ _ _ _ _ _ _ _ _ I Sc W).
  - (* GcDelete *)
    destruct (x_gc s) as [g|] eqn:G; [|discriminate].
    destruct (g_scanned g) eqn:Sc; [|discriminate]. cbn [negb orb].
    destruct (g_wb g) as [|p ps] eqn:Wb; [|discriminate]. cbn [negb].
    destruct (file_present (x_v s) (g_fid g)); [|discriminate]. cbn [negb].
    unfold inv in *. rewrite G in I.
    destruct (i_gc _ _ _ _ _ _ _ I) as (A1 & _ & A3). destruct (A3 Sc) as [_ HJ].
    destruct (x_iters s) as [|q qs] eqn:Its.
    + destruct deferred; [discriminate|]. intros [= <- _]. simpl_inv. rewrite ?G, ?Its. unfold has_iters in I. rewrite ?Its in I.
      apply (remove_inv _ _ _ (x_todel s)); auto.
      intros f [<-|[]]. split; auto. intros k ts e idx Hts Gd Hp.
      destruct (HJ k ts e idx Hts Gd Hp) as [H|H]; auto. rewrite Wb in H. contradiction.
    + destruct deferred; [|discriminate]. intros [= <- _]. simpl_inv. rewrite ?G, ?Its. unfold has_iters in I. rewrite ?Its in I.
      apply defer_inv; auto.
  - (* GcEnd *)
    destruct (x_gc s) as [g|] eqn:G; [|discriminate]. intros [= <- _].
    simpl_inv. unfold inv in I. rewrite G in I. eapply gcend_inv; eauto.
  - (* PDump *)
    destruct (_ && _); [|discriminate]. intros [= <- _]. exact I.
Qed.

(* ------------------------------------------------------------------------------------ *)
(* GC labels do not change any read at or above the discard timestamp *)

Definition gc_label (o : xop) : bool :=
  match o with
  | GcStart _ _ | GcScan _ | GcWriteBack | GcDelete _ | GcEnd | ItOpen _ _ _ | ItClose _ => true
  | _ => false
  end.

Lemma gc_label_admissible s o : gc_label o = true -> admissible s o.
Proof. destruct o; cbn; auto; discriminate. Qed.

Lemma gc_label_gvis s o s' tg : inv s -> gc_label o = true -> xstep s o = XOk s' tg ->
  x_dmax s' = x_dmax s /\ s_now (x_sys s') = s_now (x_sys s) /\
  forall k ts, gvis (x_v s') (x_db s') (s_now (x_sys s)) k ts = gvis (x_v s) (x_db s) (s_now (x_sys s)) k ts.
Proof.
  intros I L. destruct o; try discriminate; cbn [xstep].
  - destruct (lookup (s_txns (x_sys s)) t) as [x|]; [|discriminate]. intros [= <- _]. auto.
  - destruct (lookup (x_iters s) i) as [it|]; [|discriminate]. intros [= <- _].
    unfold close_iter. destruct (filter _ (x_iters s)); auto.
  - destruct (x_gc s) as [g|]; [discriminate|].
    destruct (existsb (N.eqb fid) (x_todel s)). { destruct (r =? 1); [|discriminate]. intros [= <- _]. auto. }
    destruct (negb (fid <? v_max (x_v s))); [discriminate|].
    destruct (negb (file_present (x_v s) fid)); [discriminate|].
    destruct (r =? 0); [|discriminate]. intros [= <- _]. auto.
  - destruct (x_gc s) as [g|]; [|discriminate]. destruct (g_scanned g); [discriminate|].
    destruct (keys_eqb _ kept); [|discriminate]. intros [= <- _]. auto.
  - destruct (x_gc s) as [g|] eqn:G; [|discriminate].
    destruct (g_scanned g) eqn:Sc; [|discriminate]. cbn [negb].
    destruct (g_wb g) as [|p ps] eqn:Wb. { intros [= <- _]. auto. }
    rewrite <- Wb. destruct (write_req (x_v s) (map snd (g_wb g))) as [v' pes] eqn:W.
    intros [= <- _]. unfold inv in I. rewrite G in I.
    destruct (writeback_inv _ _ _ _ _ _ _ _ _ I Sc W) as [_ H]. split; auto.
  - destruct (x_gc s) as [g|]; [|discriminate].
    destruct (negb (g_scanned g) || _); [discriminate|].
    destruct (negb (file_present (x_v s) (g_fid g))); [discriminate|].
    destruct (x_iters s); destruct deferred; try discriminate; intros [= <- _]; auto.
  - destruct (x_gc s) as [g|]; [|discriminate]. intros [= <- _]. auto.
Qed.

Theorem gc_step_reads_unchanged s o s' tg :
  inv s -> gc_label o = true -> xstep s o = XOk s' tg ->
  forall k ts, x_dmax s <= ts -> vread s' k ts = vread s k ts.
Proof.
  intros I L X k ts Hts.
  pose proof (xstep_inv _ _ _ _ I (gc_label_admissible s o L) X) as I'.
  destruct (gc_label_gvis _ _ _ _ I L X) as (Hd & Hn & Hg).
  rewrite (vread_gvis s' k ts I') by (rewrite Hd; exact Hts).
  rewrite (vread_gvis s k ts I Hts). rewrite Hn. apply Hg.
Qed.

(* a key that is not visible stays invisible across a GC label: nothing is resurrected *)
Corollary gc_step_no_resurrection s o s' tg :
  inv s -> gc_label o = true -> xstep s o = XOk s' tg ->
  forall k ts, x_dmax s <= ts -> vread s k ts = None -> vread s' k ts = None.
Proof. intros I L X k ts Hts H. now rewrite (gc_step_reads_unchanged _ _ _ _ I L X k ts Hts). Qed.

(* ------------------------------------------------------------------------------------ *)
(* along histories *)

Fixpoint run_ok (s : xsys) (ops : list xop) : Prop :=
  match ops with
  | [] => True
  | o :: r => admissible s o /\ match xstep s o with XOk s' _ => run_ok s' r | XBad _ => True end
  end.

Lemma xexec_inv ops : forall s i tags s' tags',
  inv s -> run_ok s ops -> xexec s ops i tags = (None, s', tags') -> inv s'.
Proof.
  induction ops as [|o r IH]; intros s i tags s' tags' I R; cbn [xexec].
  - intros [= <- _]. exact I.
  - cbn [run_ok] in R. destruct R as [A R]. destruct (xstep s o) as [s1 tg|c] eqn:X; [|discriminate].
    apply IH; auto. eapply xstep_inv; eauto.
Qed.

Lemma init_inv managed detect nkeep nlevels next thr maxent :
  inv (init_x managed detect nkeep nlevels next thr maxent).
Proof.
  unfold inv, init_x, init_sys, init_v, has_iters, x_db. cbn [x_sys x_v x_gc x_todel x_iters x_dmax s_db s_now].
  assert (Hnil: all_entries (mkLsm [] [] (repeat [] nlevels)) = []).
  { unfold all_entries, all_srcs. cbn [l_mt l_imm l_levels rev app concat].
    generalize 0%nat. induction nlevels as [|n IHn]; intros lvl; cbn [repeat levels_srcs]; auto.
    rewrite concat_app, IHn. destruct lvl; reflexivity. }
  assert (Hget: forall k ts, db_get (mkLsm [] [] (repeat [] nlevels)) k ts = None).
  { intros k ts. rewrite db_get_newest, Hnil; [reflexivity|].
    split; [constructor|]. split; [constructor|]. cbn [l_levels].
    destruct nlevels as [|n]; cbn [repeat]; auto. split; [constructor|].
    clear. induction n as [|n IHn]; cbn [repeat]; constructor; auto. split; constructor. }
  constructor; cbn [v_files v_gone v_max].
  - split; [constructor|]. split; [constructor|]. cbn [l_levels].
    destruct nlevels as [|n]; cbn [repeat]; auto. split; [constructor|].
    clear. induction n as [|n IHn]; cbn [repeat]; constructor; auto. split; constructor.
  - intros e He. rewrite Hnil in He. contradiction.
  - intros a b Ha. rewrite Hnil in Ha. contradiction.
  - intros k ts e _ G. rewrite Hget in G. discriminate.
  - intros f rs H. cbn [vfind] in H. destruct (1 =? f) eqn:E; [|discriminate]. apply N.eqb_eq in E. lia.
  - intros f [].
  - intros f [].
  - intros f [].
  - exact Logic.I.
Qed.

(* C15, reads: in every history accepted by the model whose interleaved commits write fresh
   versions and whose compactions keep winners and pending keys (see `admissible`), every GC
   label — rewrite start, scan, write-back, file deletion now or deferred, end, iterator open /
   close — leaves every read at or above the discard timestamp unchanged, for all keys *)
Theorem gc_reads_unchanged_all_histories managed detect nkeep nlevels next thr maxent ops s tags o s' tg :
  run_ok (init_x managed detect nkeep nlevels next thr maxent) ops ->
  xexec (init_x managed detect nkeep nlevels next thr maxent) ops 0 [] = (None, s, tags) ->
  gc_label o = true -> xstep s o = XOk s' tg ->
  forall k ts, x_dmax s <= ts -> vread s' k ts = vread s k ts.
Proof.
  intros R X L S. eapply gc_step_reads_unchanged; eauto.
  eapply xexec_inv; eauto. apply init_inv.
Qed.

(* ------------------------------------------------------------------------------------ *)
(* items held by open transactions *)

(* the value log is monotone: files keep their records, deleted files stay deleted *)
Definition vmono (v v' : vstate) : Prop :=
  ext (v_files v) (v_files v') /\ (forall f, In f (v_gone v) -> In f (v_gone v')).

Lemma vmono_refl v : vmono v v.
Proof. split; [apply ext_refl|auto]. Qed.

Lemma vmono_trans a b c : vmono a b -> vmono b c -> vmono a c.
Proof. intros [A1 A2] [B1 B2]. split; [eapply ext_trans; eauto|auto]. Qed.

Lemma vmono_remove v fs : vmono v (remove_fids fs v).
Proof. split; [apply ext_refl|]. intros f Hf. cbn. apply in_or_app. now right. Qed.

Lemma xstep_vmono s o s' tg : inv s -> xstep s o = XOk s' tg -> vmono (x_v s) (x_v s').
Proof.
  intros I. pose proof (fresh_next_of_bound _ (i_bound _ _ _ _ _ _ _ I)) as Hfn.
  assert (Hc: forall t cts r ord, commit_step s t cts r ord = XOk s' tg -> vmono (x_v s) (x_v s')).
  { intros t cts r ord. unfold commit_step, xcommit.
    destruct (lookup (s_txns (x_sys s)) t) as [x|]; [|discriminate].
    destruct (txn_commit (x_sys s) t x cts) as [[r' ts] y1].
    destruct (x_pend x).
    - destruct (_ && _); [|discriminate]. intros [= <- _]. apply vmono_refl.
    - destruct (r' =? 0).
      + destruct (write_req (x_v s) _) as [v' pes] eqn:W. destruct (_ && _); [|discriminate].
        intros [= <- _]. cbn. destruct (write_req_ext _ _ _ _ Hfn W) as [A B]. split; auto. now rewrite B.
      + destruct (_ && _); [|discriminate]. intros [= <- _]. apply vmono_refl. }
  destruct o; cbn [xstep]; eauto.
  - (* Base *)
    unfold base_step. destruct o; eauto;
      try (destruct (step (x_sys s) _) as [y'|]; [|discriminate]; intros [= <- _]; apply vmono_refl).
    + destruct (lookup (s_txns (x_sys s)) t) as [x|]; [|discriminate].
      destruct (txn_get (x_sys s) x k) as [r' x']. destruct (getres_eqb _ r); [|discriminate].
      intros [= <- _]. apply vmono_refl.
    + destruct (lookup (s_txns (x_sys s)) t) as [x|]; [|discriminate].
      destruct (entries_eqb _ items); [|discriminate]. intros [= <- _]. apply vmono_refl.
    + destruct (negb _); [discriminate|]. destruct (match the_clamp s with Some _ => _ | None => _ end); [discriminate|].
      destruct (s_managed (x_sys s) && _); [discriminate|]. destruct (entries_eqb _ out); [|discriminate].
      destruct (_ || _); [|discriminate]. intros [= <- _]. apply vmono_refl.
    + destruct (dump_eqb _ levels); [|discriminate]. intros [= <- _]. apply vmono_refl.
  - destruct (lookup (s_txns (x_sys s)) t) as [x|]; [|discriminate].
    destruct (txn_get (x_sys s) x k) as [r' x']. destruct (getres_meta_eqb _ r' r); [|discriminate].
    intros [= <- _]. apply vmono_refl.
  - destruct (lookup (x_items s) h) as [e|]; [|discriminate]. destruct (bytes_eqb _ val); [|discriminate].
    intros [= <- _]. apply vmono_refl.
  - destruct (lookup (s_txns (x_sys s)) t) as [x|]; [|discriminate]. intros [= <- _]. apply vmono_refl.
  - destruct (lookup (x_iters s) i) as [it|]; [|discriminate].
    destruct (lookup (s_txns (x_sys s)) (it_txn it)) as [x|]; [|discriminate].
    destruct (entries_eqb _ items); [|discriminate]. intros [= <- _]. apply vmono_refl.
  - destruct (lookup (x_iters s) i) as [it|]; [|discriminate]. intros [= <- _].
    unfold close_iter. destruct (filter _ (x_iters s)); cbn; [apply vmono_remove|apply vmono_refl].
  - destruct (x_gc s) as [g|]; [discriminate|].
    destruct (existsb (N.eqb fid) (x_todel s)). { destruct (r =? 1); [|discriminate]. intros [= <- _]. apply vmono_refl. }
    destruct (negb (fid <? v_max (x_v s))); [discriminate|].
    destruct (negb (file_present (x_v s) fid)); [discriminate|].
    destruct (r =? 0); [|discriminate]. intros [= <- _]. apply vmono_refl.
  - destruct (x_gc s) as [g|]; [|discriminate]. destruct (g_scanned g); [discriminate|].
    destruct (keys_eqb _ kept); [|discriminate]. intros [= <- _]. apply vmono_refl.
  - destruct (x_gc s) as [g|]; [|discriminate]. destruct (negb (g_scanned g)); [discriminate|].
    destruct (g_wb g) as [|p ps] eqn:Wb. { intros [= <- _]. apply vmono_refl. }
    destruct (write_req (x_v s) _) as [v' pes] eqn:W. intros [= <- _]. cbn.
    destruct (write_req_ext _ _ _ _ Hfn W) as [A B]. split; auto. now rewrite B.
  - destruct (x_gc s) as [g|]; [|discriminate].
    destruct (negb (g_scanned g) || _); [discriminate|].
    destruct (negb (file_present (x_v s) (g_fid g))); [discriminate|].
    destruct (x_iters s); destruct deferred; try discriminate; intros [= <- _]; cbn;
      [apply vmono_remove|apply vmono_refl].
  - destruct (x_gc s) as [g|]; [|discriminate]. intros [= <- _]. apply vmono_refl.
  - destruct (_ && _); [|discriminate]. intros [= <- _]. apply vmono_refl.
Qed.

(* an entry still dereferences to the same thing as long as its file is not deleted *)
Lemma deref_vmono v v' e x :
  vmono v v' -> deref v e = Some x ->
  (forall fid, ptr_fid e = Some fid -> gone (v_gone v') fid = false) -> deref v' e = Some x.
Proof.
  intros [He Hg]. unfold deref, ptr_fid, read_ptr. destruct (is_ptr e); auto.
  destruct (e_val e) as [|fid [|idx [|? ?]]]; try discriminate. intros H Hl.
  rewrite (Hl fid eq_refl). destruct (gone (v_gone v) fid); [discriminate|].
  destruct (vfind (v_files v) fid) as [rs|] eqn:F; [|discriminate].
  destruct (He _ _ F) as [more ->].
  destruct (nth_error rs (N.to_nat idx)) as [r|] eqn:Nth; [|discriminate].
  now rewrite (nth_error_app_l _ more _ _ Nth).
Qed.

Lemma xexec_vmono ops : forall s i tags s' tags',
  inv s -> run_ok s ops -> xexec s ops i tags = (None, s', tags') -> vmono (x_v s) (x_v s').
Proof.
  induction ops as [|o r IH]; intros s i tags s' tags' I R; cbn [xexec].
  - intros [= <- _]. apply vmono_refl.
  - cbn [run_ok] in R. destruct R as [A R]. destruct (xstep s o) as [s1 tg|c] eqn:X; [|discriminate].
    intros H. eapply vmono_trans; [eapply xstep_vmono; eauto|].
    eapply IH; eauto. eapply xstep_inv; eauto.
Qed.

(* C15, open items (partial): whatever an item dereferenced to when it was obtained, it still
   dereferences to after any admissible history, PROVIDED its value-log file has not been
   deleted (e.g. the value is read before GC removes the file) *)
Theorem held_item_readable_while_file_exists s ops i tags s' tags' e x :
  inv s -> run_ok s ops -> xexec s ops i tags = (None, s', tags') ->
  deref (x_v s) e = Some x ->
  (forall fid, ptr_fid e = Some fid -> gone (v_gone (x_v s')) fid = false) ->
  deref (x_v s') e = Some x.
Proof. intros I R X D L. eapply deref_vmono; eauto. eapply xexec_vmono; eauto. Qed.

(* while an iterator is open no file is deleted (deleteLogFile is deferred to the last close) *)
Lemma xstep_iters_pin s o s' tg : xstep s o = XOk s' tg -> x_iters s' <> [] -> v_gone (x_v s') = v_gone (x_v s).
Proof.
  assert (Hc: forall t cts r ord, commit_step s t cts r ord = XOk s' tg -> v_gone (x_v s') = v_gone (x_v s)).
  { intros t cts r ord. unfold commit_step, xcommit.
    destruct (lookup (s_txns (x_sys s)) t) as [x|]; [|discriminate].
    destruct (txn_commit (x_sys s) t x cts) as [[r' ts] y1].
    destruct (x_pend x).
    - destruct (_ && _); [|discriminate]. now intros [= <- _].
    - destruct (r' =? 0).
      + unfold write_req. destruct (fold_left _ _ _) as [[vl cnt] out].
        destruct (v_maxent (x_v s) <? cnt); destruct (_ && _); try discriminate; now intros [= <- _].
      + destruct (_ && _); [|discriminate]. now intros [= <- _]. }
  destruct o; cbn [xstep]; eauto.
  - unfold base_step. destruct o; eauto;
      try (destruct (step (x_sys s) _) as [y'|]; [|discriminate]; now intros [= <- _]).
    + destruct (lookup (s_txns (x_sys s)) t) as [x|]; [|discriminate].
      destruct (txn_get (x_sys s) x k) as [r' x']. destruct (getres_eqb _ r); [|discriminate]. now intros [= <- _].
    + destruct (lookup (s_txns (x_sys s)) t) as [x|]; [|discriminate].
      destruct (entries_eqb _ items); [|discriminate]. now intros [= <- _].
    + destruct (negb _); [discriminate|]. destruct (match the_clamp s with Some _ => _ | None => _ end); [discriminate|].
      destruct (s_managed (x_sys s) && _); [discriminate|]. destruct (entries_eqb _ out); [|discriminate].
      destruct (_ || _); [|discriminate]. now intros [= <- _].
    + destruct (dump_eqb _ levels); [|discriminate]. now intros [= <- _].
  - destruct (lookup (s_txns (x_sys s)) t) as [x|]; [|discriminate].
    destruct (txn_get (x_sys s) x k) as [r' x']. destruct (getres_meta_eqb _ r' r); [|discriminate]. now intros [= <- _].
  - destruct (lookup (x_items s) h) as [e|]; [|discriminate]. destruct (bytes_eqb _ val); [|discriminate]. now intros [= <- _].
  - destruct (lookup (s_txns (x_sys s)) t) as [x|]; [|discriminate]. now intros [= <- _].
  - destruct (lookup (x_iters s) i) as [it|]; [|discriminate].
    destruct (lookup (s_txns (x_sys s)) (it_txn it)) as [x|]; [|discriminate].
    destruct (entries_eqb _ items); [|discriminate]. now intros [= <- _].
  - destruct (lookup (x_iters s) i) as [it|]; [|discriminate]. intros [= <- _].
    unfold close_iter. destruct (filter _ (x_iters s)); cbn; [congruence|auto].
  - destruct (x_gc s) as [g|]; [discriminate|].
    destruct (existsb (N.eqb fid) (x_todel s)). { destruct (r =? 1); [|discriminate]. now intros [= <- _]. }
    destruct (negb (fid <? v_max (x_v s))); [discriminate|].
    destruct (negb (file_present (x_v s) fid)); [discriminate|].
    destruct (r =? 0); [|discriminate]. now intros [= <- _].
  - destruct (x_gc s) as [g|]; [|discriminate]. destruct (g_scanned g); [discriminate|].
    destruct (keys_eqb _ kept); [|discriminate]. now intros [= <- _].
  - destruct (x_gc s) as [g|]; [|discriminate]. destruct (negb (g_scanned g)); [discriminate|].
    destruct (g_wb g) as [|p ps] eqn:Wb. { now intros [= <- _]. }
    unfold write_req. destruct (fold_left _ _ _) as [[vl cnt] out].
    destruct (v_maxent (x_v s) <? cnt); now intros [= <- _].
  - destruct (x_gc s) as [g|]; [|discriminate].
    destruct (negb (g_scanned g) || _); [discriminate|].
    destruct (negb (file_present (x_v s) (g_fid g))); [discriminate|].
    destruct (x_iters s) eqn:Its; destruct deferred; try discriminate; intros [= <- _]; cbn; auto.
    congruence.
  - destruct (x_gc s) as [g|]; [|discriminate]. now intros [= <- _].
  - destruct (_ && _); [|discriminate]. now intros [= <- _].
Qed.

(* some iterator is open in every state of the run (e.g. one iterator from beginning to end) *)
Fixpoint iters_open (s : xsys) (ops : list xop) : Prop :=
  x_iters s <> [] /\
  match ops with
  | [] => True
  | o :: r => match xstep s o with XOk s1 _ => iters_open s1 r | XBad _ => True end
  end.

Lemma iterator_pins_files ops : forall s i tags s' tags',
  iters_open s ops -> xexec s ops i tags = (None, s', tags') -> v_gone (x_v s') = v_gone (x_v s).
Proof.
  induction ops as [|o r IH]; intros s i tags s' tags' [Hne H]; cbn [xexec].
  - now intros [= <- _].
  - destruct (xstep s o) as [s1 tg|c] eqn:X; [|discriminate]. intros E.
    rewrite (IH _ _ _ _ _ H E). eapply xstep_iters_pin; eauto. destruct r; apply H.
Qed.

(* C15, open items (partial): everything that dereferences when an iterator is opened still
   dereferences, to the same entry, for as long as that iterator stays open — through any
   number of rewrites, whose file deletions are deferred *)
Theorem iterator_items_readable s ops i tags s' tags' e x :
  inv s -> run_ok s ops -> iters_open s ops -> xexec s ops i tags = (None, s', tags') ->
  deref (x_v s) e = Some x -> deref (x_v s') e = Some x.
Proof.
  intros I R O X D. destruct (xexec_vmono _ _ _ _ _ _ I R X) as [He _].
  eapply deref_stable; eauto. eapply iterator_pins_files; eauto.
Qed.

(* ------------------------------------------------------------------------------------ *)
(* the #2286 clamp, at the level of the compaction filter *)

(* the filter never drops a version above its discard timestamp *)
Lemma filter_keeps_above_discard p m e :
  cp_drop p = [] -> sorted m -> In e m -> cp_discard p < e_ver e -> In e (compact_filter p m).
Proof.
  intros Hd Hs Hin Hv. destruct (filter_class p Hd m Hs e Hin) as [H|[(mk & A & B & C & D)|((D & _) & _)]]; auto; lia.
Qed.

(* nor a live version that no marker at or below the discard timestamp shadows *)
Lemma filter_keeps_unshadowed p m e :
  cp_drop p = [] -> sorted m -> In e m ->
  (forall mk, In mk m -> e_key mk = e_key e -> e_ver e < e_ver mk -> cp_discard p < e_ver mk) ->
  deleted_or_expired e (cp_now p) = false ->
  In e (compact_filter p m).
Proof.
  intros Hd Hs Hin Hsh Hlive.
  destruct (filter_class p Hd m Hs e Hin) as [H|[(mk & A & B & C & D)|((_ & _ & D) & _)]]; auto.
  - specialize (Hsh mk A B C). lia.
  - congruence.
Qed.

(* the model only accepts a compaction label that respects the clamp of a rewrite in flight *)
Lemma compact_respects_clamp s c out s' tg g :
  xstep s (Base (Compact c out)) = XOk s' tg -> x_gc s = Some g -> 0 < g_clamp g ->
  c_discard c <= g_clamp g.
Proof.
  cbn [xstep]. unfold base_step, the_clamp. intros X G Hc. rewrite G in X.
  assert (E: (0 <? g_clamp g) = true) by lia. rewrite E in X.
  destruct (negb _); [discriminate|]. destruct (g_clamp g <? c_discard c) eqn:L; [discriminate|]. lia.
Qed.

(* #2286: while a rewrite is in flight (clamp = MaxVersion at its start), no version newer than
   the clamp — in particular no tombstone committed after the rewrite started — is dropped by a
   compaction *)
Theorem clamp_protects_newer_versions s c out s' tg g e :
  xstep s (Base (Compact c out)) = XOk s' tg -> x_gc s = Some g -> 0 < g_clamp g ->
  c_drop c = [] -> Forall sorted (compaction_inputs (l_levels (x_db s)) c) ->
  In e (merge_all (compaction_inputs (l_levels (x_db s)) c)) -> g_clamp g < e_ver e ->
  In e (compaction_output (l_levels (x_db s)) c).
Proof.
  intros X G Hc Hd Hs Hin Hv. pose proof (compact_respects_clamp _ _ _ _ _ _ X G Hc) as Hle.
  unfold compaction_output. apply filter_keeps_above_discard; auto.
  - now apply merge_all_sorted.
  - cbn [cp_discard]. lia.
Qed.
