(* TreeInvProofs.v — the tree invariant behind C12 / C01 (normal mode, sequential histories):
   structure (C14) + distinct table ids + distinct key@version + Mono (sources consulted earlier
   hold newer versions) + the shape of level 0, and the proof that it yields hypothesis (R) of
   Theorem A/C for every compaction inside the picker relation Sys.pick_check:
   a deletion marker dropped for lack of overlap hides nothing outside the compaction. *)
From Verif Require Import Bytes BytesProofs Keys C20Proofs Consts Spec Lsm LsmProofs Compact Iter Sys SysReopen.
From Verif Require Import EntOrderProofs ReopenReadProofs ReopenTsProofs LevelsWfProofs CompactWfProofs.
From Verif Require GetProofs MergeProofs C12Proofs InstallProofs.
From Verif Require Import CompactProofs.
From Coq Require Import ZifyN ZifyNat ZifyBool Sorted Permutation.
Open Scope N_scope.

(* ---- "X holds newer versions than Y" ---- *)
Definition newer (X Y : list entry) : Prop :=
  forall a b, In a X -> In b Y -> e_key a = e_key b -> e_ver b < e_ver a.
Definition tnewer (X Y : table) : Prop := newer (t_ents X) (t_ents Y).
Definition lvl_entries (l : list table) : list entry := concat (map t_ents l).

Lemma in_lvl_entries l x : In x (lvl_entries l) <-> exists t, In t l /\ In x (t_ents t).
Proof.
  unfold lvl_entries. rewrite in_concat. split.
  - intros (s & Hs & Hx). apply in_map_iff in Hs. destruct Hs as (t & <- & Ht). eauto.
  - intros (t & Ht & Hx). exists (t_ents t). split; auto. now apply in_map.
Qed.

(* precedence groups: the memtable, then level 0 (as a whole), level 1, ... *)
Definition Mono (d : lsm) : Prop :=
  (forall i, newer (l_mt d) (lvl_entries (nth i (l_levels d) []))) /\
  (forall i j, (i < j)%nat ->
     newer (lvl_entries (nth i (l_levels d) [])) (lvl_entries (nth j (l_levels d) []))).

(* level 0 = A ++ B: A is what the last L0->L0 compaction left (replaceTables sorts it by
   smallest key), B the tables flushed since, oldest first *)
Definition age_ordered (B : list table) : Prop := StronglySorted (fun x y => tnewer y x) B.
Definition L0Inv (l0 : list table) : Prop :=
  exists A B, l0 = A ++ B /\ sorted_by_smallest A = true /\ age_ordered B /\
              (forall a b, In a A -> In b B -> tnewer b a).

Definition TreeInv (d : lsm) : Prop :=
  l_imm d = [] /\ l_levels d <> [] /\ db_ok d /\ NoDup (all_ids (l_levels d)) /\
  nodup_kv (GetProofs.all_entries d) /\ Mono d /\ L0Inv (nth 0 (l_levels d) []).

(* ---- bridges to the definitions of GetProofs / CompactProofs ---- *)
Lemma ssorted_sorted s : ssorted s <-> sorted s.
Proof. reflexivity. Qed.

Lemma db_ok_lsm_wf d : db_ok d -> GetProofs.lsm_wf d.
Proof.
  unfold db_ok, GetProofs.lsm_wf. intros (H1 & H2 & H3). split; [exact H1|]. split; [exact H2|].
  destruct (l_levels d) as [|l0 rest] eqn:E; auto. split.
  - pose proof (H3 O) as H0. cbn in H0. rewrite Forall_forall in *. intros t Ht. apply (H0 t Ht).
  - apply Forall_forall. intros l Hl. destruct (In_nth _ _ [] Hl) as (i & _ & <-).
    pose proof (H3 (S i)) as Hi. cbn [nth lvl_ok] in Hi. destruct Hi as (A & B & _). split.
    + now apply level_concat_sorted.
    + rewrite Forall_forall in *. intros t Ht. apply (A t Ht).
Qed.

Lemma ssorted_nodup_kv s : ssorted s -> nodup_kv s.
Proof.
  induction s as [|x s IH]; intros Hs a b Ha Hb Ek Ev; [destruct Ha|].
  apply ssorted_cons_inv in Hs. destruct Hs as [Hs Hx]. rewrite Forall_forall in Hx.
  assert (Q: forall u v, In v s -> e_key u = e_key v -> e_ver u = e_ver v -> ~ elt u v).
  { intros u v _ E1 E2 L. unfold elt, ent_cmp, key_order in L. rewrite E1, lex_cmp_refl, E2, N.compare_refl in L.
    discriminate. }
  destruct Ha as [<-|Ha], Hb as [<-|Hb]; auto.
  - exfalso. apply (Q x b Hb Ek Ev). auto.
  - exfalso. apply (Q x a Ha (eq_sym Ek) (eq_sym Ev)). auto.
  - now apply IH.
Qed.

(* ---- small list facts ---- *)
Lemma app_eq_app {A} (x1 y1 x2 y2 : list A) :
  x1 ++ y1 = x2 ++ y2 ->
  exists l, (x1 = x2 ++ l /\ y2 = l ++ y1) \/ (x2 = x1 ++ l /\ y1 = l ++ y2).
Proof.
  revert x2. induction x1 as [|a x1 IH]; intros x2 H; cbn in H.
  - exists x2. right. auto.
  - destruct x2 as [|b x2]; cbn in H.
    + exists (a :: x1). left. auto.
    + inversion H as [[E1 E2]]. subst b. destruct (IH _ E2) as (l & [[-> ->]|[-> ->]]); exists l; [left|right]; auto.
Qed.

Lemma filter_all_true {A} (f : A -> bool) l : (forall x, In x l -> f x = true) -> filter f l = l.
Proof.
  induction l as [|x l IH]; intros H; cbn; auto. rewrite (H x (or_introl eq_refl)). f_equal.
  apply IH. intros y Hy. apply H. now right.
Qed.

Lemma filter_all_false {A} (f : A -> bool) l : (forall x, In x l -> f x = false) -> filter f l = [].
Proof.
  induction l as [|x l IH]; intros H; cbn; auto. rewrite (H x (or_introl eq_refl)).
  apply IH. intros y Hy. apply H. now right.
Qed.

(* selecting / dropping the ids of a prefix of a list with distinct ids *)
Lemma filter_prefix_ids (p r : list table) :
  NoDup (map t_id (p ++ r)) ->
  pick_tables (ids_of p) (p ++ r) = p /\ drop_tables (ids_of p) (p ++ r) = r.
Proof.
  intros Hn. unfold pick_tables, drop_tables. rewrite !filter_app.
  rewrite map_app in Hn.
  assert (Hp: forall t, In t p -> in_ids (ids_of p) t = true).
  { intros t Ht. apply in_ids_iff. unfold ids_of. now apply in_map. }
  assert (Hr: forall t, In t r -> in_ids (ids_of p) t = false).
  { intros t Ht. destruct (in_ids (ids_of p) t) eqn:E; auto. exfalso. apply in_ids_iff in E.
    eapply NoDup_app_disjoint; [exact Hn|exact E|now apply in_map]. }
  split.
  - rewrite (filter_all_true _ p Hp), (filter_all_false _ r Hr). apply app_nil_r.
  - rewrite (filter_all_false _ p), (filter_all_true _ r); auto.
    + intros t Ht. now rewrite (Hr t Ht).
    + intros t Ht. now rewrite (Hp t Ht).
Qed.

(* ---- the overlap chain of level 0 is a prefix, and it stops at a table outside its range ---- *)
Lemma l0_chain_spec l acc :
  exists p r, l = p ++ r /\ l0_chain l acc = acc ++ p /\
    (r = [] \/ exists t0 r' lo hi, r = t0 :: r' /\ user_range (acc ++ p) = Some (lo, hi)
                                   /\ table_overlaps lo hi t0 = false).
Proof.
  revert acc. induction l as [|t l IH]; intros acc; cbn [l0_chain].
  - exists [], []. split; [reflexivity|]. split; [now rewrite app_nil_r|now left].
  - destruct (user_range acc) as [[lo hi]|] eqn:U.
    + destruct (table_overlaps lo hi t) eqn:O.
      * destruct (IH (acc ++ [t])) as (p & r & -> & E & H). exists (t :: p), r.
        rewrite <- app_assoc in E, H. cbn [app] in E, H. auto.
      * exists [], (t :: l). split; [reflexivity|]. split; [now rewrite app_nil_r|]. right. exists t, l, lo, hi. rewrite app_nil_r. auto.
    + destruct (IH (acc ++ [t])) as (p & r & -> & E & H). exists (t :: p), r.
      rewrite <- app_assoc in E, H. cbn [app] in E, H. auto.
Qed.

(* sorted_by_smallest: every earlier table has a smaller-or-equal smallest user key *)
Definition sm_le (a b : table) : Prop :=
  forall x y, t_smallest a = Some x -> t_smallest b = Some y -> kle (e_key x) (e_key y).

Lemma sorted_by_smallest_strong l :
  Forall tbl_ok l -> sorted_by_smallest l = true -> StronglySorted sm_le l.
Proof.
  induction l as [|a l IH]; intros HF Hs; [constructor|].
  inversion HF as [|? ? Ha HF']; subst. destruct l as [|b r].
  - constructor; constructor.
  - rewrite sorted_by_smallest_cons in Hs. inversion HF' as [|? ? Hb _]; subst.
    destruct (tbl_ok_smallest _ Ha) as (x & Sx). destruct (tbl_ok_smallest _ Hb) as (y & Sy).
    rewrite Sx, Sy in Hs.
    assert (Hle: ent_cmp x y <> Gt) by (destruct (ent_cmp x y); congruence).
    assert (Hs': sorted_by_smallest (b :: r) = true) by (destruct (ent_cmp x y); congruence).
    pose proof (IH HF' Hs') as IHs. constructor; auto.
    inversion IHs as [|? ? _ Hbr]; subst. constructor.
    + intros x0 y0 E1 E2. rewrite Sx in E1. rewrite Sy in E2. inversion E1; inversion E2; subst.
      now apply not_gt_kle.
    + rewrite Forall_forall in *. intros t Ht x0 z E1 E2. rewrite Sx in E1. inversion E1; subst x0.
      eapply kle_trans; [apply (not_gt_kle _ _ Hle)|]. apply (Hbr t Ht y z Sy E2).
Qed.

(* tables of level 0 outside the chain, against tables of the chain *)
Lemma l0_outside_chain l0 X T :
  Forall tbl_ok l0 -> L0Inv l0 ->
  In X (l0_chain l0 []) -> In T l0 -> ~ In T (l0_chain l0 []) -> tnewer T X.
Proof.
  intros Hok (A & B & E & HsA & HB & HAB) HX HT HnT.
  destruct (l0_chain_spec l0 []) as (p & r & El & Ec & Hstop). cbn [app] in Ec, Hstop.
  rewrite Ec in HX, HnT. rewrite El in HT. apply in_app_iff in HT. destruct HT as [HT|HT]; [contradiction|].
  rewrite El in E. destruct (app_eq_app _ _ _ _ E) as (l & [[Ep Eb]|[Ea Er]]).
  - (* the chain covers A: T and what remains are in B *)
    assert (HTB: In T B) by (rewrite Eb; apply in_or_app; now right).
    rewrite Ep in HX. apply in_app_iff in HX. destruct HX as [HX|HX]; [now apply HAB|].
    unfold age_ordered in HB. rewrite Eb in HB. exact (StronglySorted_app_inv _ _ _ HB X T HX HT).
  - (* the chain stops inside A *)
    assert (HXA: In X A) by (rewrite Ea; apply in_or_app; now left).
    rewrite Er in HT. apply in_app_iff in HT. destruct HT as [HT|HT]; [|now apply HAB].
    (* T in A after the chain: no key in common *)
    intros a b Ha Hb Ek. exfalso.
    destruct Hstop as [->|(t0 & r' & lo & hi & Er' & Hur & Hov)]; [destruct l; [destruct HT|discriminate]|].
    assert (HokA: Forall tbl_ok A).
    { rewrite Forall_forall in *. intros t Ht. apply Hok. rewrite El, E. apply in_or_app. now left. }
    pose proof (sorted_by_smallest_strong A HokA HsA) as HS.
    assert (Hl: exists l', l = t0 :: l').
    { rewrite Er' in Er. destruct l as [|t1 l']; [destruct HT|]. cbn in Er. inversion Er. eauto. }
    destruct Hl as (l' & ->).
    rewrite Forall_forall in HokA.
    assert (Hok0: tbl_ok t0) by (apply HokA; rewrite Ea; apply in_or_app; right; now left).
    assert (HokT: tbl_ok T) by (apply HokA; rewrite Ea; apply in_or_app; now right).
    assert (HokX: tbl_ok X) by (apply HokA; auto).
    destruct (tbl_ok_smallest _ Hok0) as (s0 & Hs0). destruct (tbl_ok_smallest _ HokT) as (sT & HsT).
    destruct (tbl_ok_smallest _ HokX) as (sX & HsX).
    rewrite Ea in HS.
    (* hi < smallest key of t0 *)
    assert (Hpok: forall t, In t p -> tbl_ok t).
    { intros t Ht. apply HokA. rewrite Ea. apply in_or_app. now left. }
    assert (K0: klt hi (e_key s0)).
    { destruct (no_overlap_side _ _ _ Hok0 Hov) as [H|H]; [|apply H; now apply smallest_in].
      exfalso. pose proof (H s0 (smallest_in _ _ Hs0)) as K.
      destruct (user_range_bounds p lo hi X sX Hur HX (Hpok X HX) (smallest_in _ _ HsX)) as [B1 _].
      pose proof (StronglySorted_app_inv _ _ _ HS X t0 HX (or_introl eq_refl) sX s0 HsX Hs0) as K2.
      exact (klt_irrefl _ (klt_kle_trans _ _ _ K (kle_trans _ _ _ B1 K2))). }
    (* smallest key of t0 <= smallest key of T <= key of a *)
    assert (K1: kle (e_key s0) (e_key sT)).
    { destruct HT as [<-|HT]; [rewrite Hs0 in HsT; inversion HsT; apply kle_refl|].
      apply StronglySorted_subseq with (l:=t0 :: l') in HS.
      - inversion HS as [|? ? _ Hall]; subst. rewrite Forall_forall in Hall. apply (Hall T HT s0 sT Hs0 HsT).
      - apply (subseq_app [] p); [apply subseq_nil_l|apply subseq_refl]. }
    pose proof (smallest_kle T sT a HokT HsT Ha) as K2.
    destruct (user_range_bounds p lo hi X b Hur HX (Hpok X HX) Hb) as [_ B2].
    rewrite Ek in K2.
    exact (klt_irrefl _ (klt_kle_trans _ _ _ (kle_klt_trans _ _ _ B2 K0) (kle_trans _ _ _ K1 K2))).
Qed.

(* ---- what Sys.pick_check = 0 says, in full ---- *)
Lemma pick_facts2 ls c : pick_check ls c = 0 ->
  ids_of (top_of ls c) = c_top c /\ ids_of (bot_of ls c) = c_bot c /\ c_top c <> [] /\
  match c_this c, c_next c with
  | O, O => c_bot c = []
  | O, S n => (c_drop c = [] -> ids_of (l0_chain (nth 0 ls []) []) = c_top c) /\
              levels_between_empty ls 0 0 (S n) = true /\ range_pick ls c
  | S m, nx => (S m = nx /\ S (S m) = length ls) \/
               (nx = S (S m) /\ length (top_of ls c) = 1%nat /\ range_pick ls c)
  end.
Proof.
  unfold pick_check, range_pick, top_of, bot_of. cbn zeta.
  destruct (ids_eqb (ids_of (pick_tables (c_top c) (nth (c_this c) ls []))) (c_top c)) eqn:E1; cbn [negb]; [|discriminate].
  destruct (ids_eqb (ids_of (pick_tables (c_bot c) (nth (c_next c) ls []))) (c_bot c)) eqn:E2; cbn [negb]; [|discriminate].
  apply ids_eqb_eq in E1, E2.
  destruct (c_top c) as [|t0 tr] eqn:ET; [discriminate|].
  intros H. split; [exact E1|]. split; [exact E2|]. split; [discriminate|]. revert H.
  destruct (c_this c) as [|m] eqn:Et; destruct (c_next c) as [|n] eqn:En.
  - destruct (length (pick_tables (t0 :: tr) (nth 0 ls [])) <? 4)%nat; [discriminate|].
    destruct (c_bot c); [auto|discriminate].
  - destruct (c_drop c) as [|dp dr] eqn:Ed.
    + destruct (ids_eqb (ids_of (l0_chain (nth 0 ls []) [])) (t0 :: tr)) eqn:E0; cbn [negb]; [|discriminate].
      apply ids_eqb_eq in E0.
      destruct (levels_between_empty ls 0 0 (S n)); cbn [negb]; [|discriminate].
      destruct (user_range (pick_tables (t0 :: tr) (nth 0 ls []))) as [[lo hi]|] eqn:U; [|discriminate].
      destruct (ids_eqb (ids_of (overlapping lo hi (nth (S n) ls []))) (c_bot c)) eqn:E3; [|discriminate].
      apply ids_eqb_eq in E3. intros _. repeat split; auto. exists lo, hi. auto.
    + destruct (ids_eqb (ids_of (nth 0 ls [])) (t0 :: tr)); cbn [negb]; [|discriminate].
      destruct (levels_between_empty ls 0 0 (S n)); cbn [negb]; [|discriminate].
      destruct (user_range (pick_tables (t0 :: tr) (nth 0 ls []))) as [[lo hi]|] eqn:U; [|discriminate].
      destruct (ids_eqb (ids_of (overlapping lo hi (nth (S n) ls []))) (c_bot c)) eqn:E3; [|discriminate].
      apply ids_eqb_eq in E3. intros _. repeat split; auto; [discriminate|]. exists lo, hi. auto.
  - destruct (S m =? 0)%nat eqn:Q; [discriminate Q|]. cbn [negb].
    destruct (S (S m) =? 0)%nat eqn:Q2; [discriminate Q2|]. cbn [negb]. discriminate.
  - destruct (S m =? S n)%nat eqn:Q.
    + apply Nat.eqb_eq in Q. destruct (S (S m) =? length ls)%nat eqn:Q3; [|discriminate].
      apply Nat.eqb_eq in Q3. intros _. left. auto.
    + destruct (S (S m) =? S n)%nat eqn:Q2; cbn [negb]; [|discriminate]. apply Nat.eqb_eq in Q2.
      destruct (length (pick_tables (t0 :: tr) (nth (S m) ls [])) =? 1)%nat eqn:Q4; cbn [negb]; [|discriminate].
      apply Nat.eqb_eq in Q4.
      destruct (user_range (pick_tables (t0 :: tr) (nth (S m) ls []))) as [[lo hi]|] eqn:U; [|discriminate].
      destruct (ids_eqb (ids_of (overlapping lo hi (nth (S n) ls []))) (c_bot c)) eqn:E3; [|discriminate].
      apply ids_eqb_eq in E3. intros _. right. repeat split; auto. exists lo, hi. auto.
Qed.

Lemma levels_between_empty_spec ls lvl a b j :
  levels_between_empty ls lvl a b = true -> (a < lvl + j)%nat -> (lvl + j < b)%nat -> nth j ls [] = [].
Proof.
  revert lvl j. induction ls as [|l r IH]; intros lvl j H Ha Hb; [destruct j; reflexivity|].
  cbn [levels_between_empty] in H. apply andb_true_iff in H. destruct H as [H1 H2].
  destruct j as [|j]; cbn [nth].
  - rewrite Nat.add_0_r in Ha, Hb.
    assert (Q: ((a <? lvl)%nat && (lvl <? b)%nat)%bool = true).
    { apply andb_true_iff. split; apply Nat.ltb_lt; lia. }
    rewrite Q in H1. destruct l; [reflexivity|discriminate].
  - apply (IH (S lvl) j H2); lia.
Qed.

Lemma check_overlap_false lvl ls lev lo hi j t :
  check_overlap lvl ls lev lo hi = false -> (lev <= lvl + j)%nat -> In t (nth j ls []) ->
  table_overlaps lo hi t = false.
Proof.
  revert lvl j. induction ls as [|l r IH]; intros lvl j H Hl Ht; [destruct j; destruct Ht|].
  cbn [check_overlap] in H. apply orb_false_iff in H. destruct H as [H1 H2].
  destruct j as [|j]; cbn [nth] in Ht.
  - rewrite Nat.add_0_r in Hl. assert (Q: (lev <=? lvl)%nat = true) by (apply Nat.leb_le; lia).
    rewrite Q in H1. cbn [andb] in H1.
    destruct (table_overlaps lo hi t) eqn:O; auto.
    assert (existsb (table_overlaps lo hi) l = true); [|congruence].
    apply existsb_exists. eauto.
  - apply (IH (S lvl) j H2); [lia|auto].
Qed.

Lemma min_fold_some ts acc :
  (acc <> None \/ exists t, In t ts /\ t_smallest t <> None) -> fold_left min_step ts acc <> None.
Proof.
  revert acc. induction ts as [|t ts IH]; intros acc H; cbn [fold_left].
  - destruct H as [H|(t & [] & _)]; auto.
  - apply IH. destruct H as [H|(t' & [<-|Ht'] & Hs)].
    + left. unfold min_step. destruct (t_smallest t); auto. destruct acc; [|congruence].
      destruct (lex_cmp (e_key e) b); discriminate.
    + left. unfold min_step. destruct (t_smallest t); [|congruence]. destruct acc; [|discriminate].
      destruct (lex_cmp (e_key e) b); discriminate.
    + right. eauto.
Qed.

Lemma max_fold_some ts acc :
  (acc <> None \/ exists t, In t ts /\ t_biggest t <> None) -> fold_left max_step ts acc <> None.
Proof.
  revert acc. induction ts as [|t ts IH]; intros acc H; cbn [fold_left].
  - destruct H as [H|(t & [] & _)]; auto.
  - apply IH. destruct H as [H|(t' & [<-|Ht'] & Hs)].
    + left. unfold max_step. destruct (t_biggest t); auto. destruct acc; [|congruence].
      destruct (lex_cmp (e_key e) b); discriminate.
    + left. unfold max_step. destruct (t_biggest t); [|congruence]. destruct acc; [|discriminate].
      destruct (lex_cmp (e_key e) b); discriminate.
    + right. eauto.
Qed.

Lemma user_range_some ts X : In X ts -> tbl_ok X -> exists lo hi, user_range ts = Some (lo, hi).
Proof.
  intros HX Hok. unfold user_range. rewrite tables_min_key_fold, tables_max_key_fold.
  destruct (tbl_ok_smallest _ Hok) as (s & Hs). destruct (tbl_ok_biggest _ Hok) as (g & Hg).
  destruct (fold_left min_step ts None) as [lo|] eqn:E1.
  - destruct (fold_left max_step ts None) as [hi|] eqn:E2; [eauto|].
    exfalso. apply (max_fold_some ts None); auto. right. exists X. split; auto. congruence.
  - exfalso. apply (min_fold_some ts None); auto. right. exists X. split; auto. congruence.
Qed.

(* a table that does not intersect [lo, hi] shares no key with an entry inside [lo, hi] *)
Lemma no_overlap_no_key lo hi T o k :
  tbl_ok T -> table_overlaps lo hi T = false -> In o (t_ents T) -> kle lo k -> kle k hi -> e_key o <> k.
Proof.
  intros Hok Hov Ho K1 K2 E. subst k. destruct (no_overlap_side _ _ _ Hok Hov) as [H|H].
  - exact (klt_irrefl _ (klt_kle_trans _ _ _ (H o Ho) K1)).
  - exact (klt_irrefl _ (kle_klt_trans _ _ _ K2 (H o Ho))).
Qed.

Lemma lvl_tbl_ok ls i t : levels_ok ls -> In t (nth i ls []) -> tbl_ok t.
Proof.
  intros H Ht. pose proof (lvl_ok_tbl _ _ (H i)) as HF. rewrite Forall_forall in HF. auto.
Qed.

Lemma newer_levels d i j X T e o :
  Mono d -> (j < i)%nat -> In X (nth i (l_levels d) []) -> In T (nth j (l_levels d) []) ->
  In e (t_ents X) -> In o (t_ents T) -> e_key o = e_key e -> e_ver e < e_ver o.
Proof.
  intros [_ HM] Hji HX HT He Ho Ek. apply (HM j i Hji o e); auto; apply in_lvl_entries; eauto.
Qed.

(* ---- (R) ---- *)
Theorem R_holds d c :
  TreeInv d -> pick_check (l_levels d) c = 0 -> c_drop c = [] ->
  forall e, In e (concat (compaction_inputs (l_levels d) c)) ->
  compaction_overlap (l_levels d) c = false ->
  forall o, In o (InstallProofs.outside d c) -> e_key o = e_key e -> e_ver e < e_ver o.
Proof.
  intros (Himm & Hne & Hdb & Hnd & Hkv & HM & HL0) Hp Hd e He Hov o Ho Ek.
  set (ls := l_levels d) in *.
  destruct Hdb as (_ & _ & Hlv). fold ls in Hlv.
  destruct (pick_facts2 _ _ Hp) as (Etop & Ebot & Htne & Hcase).
  apply (InstallProofs.inputs_entries ls c e Hd) in He. destruct He as (X & HXp & HeX).
  unfold InstallProofs.outside in Ho. rewrite Himm in Ho. cbn [concat app] in Ho.
  apply in_app_iff in Ho. destruct Ho as [Ho|Ho].
  { (* the memtable is newer than every level *)
    destruct HM as [HM0 _].
    destruct HXp as [[HX _]|[HX _]]; [apply (HM0 (c_this c) o e)|apply (HM0 (c_next c) o e)]; auto;
      apply in_lvl_entries; eauto. }
  apply InstallProofs.rest_entries_in in Ho. destruct Ho as (T & (j & Hj & HT) & HTn & HoT). fold ls in HT.
  unfold InstallProofs.picked_ids in HTn.
  assert (HTtop: in_ids (c_top c) T = false /\ in_ids (c_bot c) T = false).
  { unfold in_ids in *. rewrite existsb_app in HTn. now apply orb_false_iff in HTn. }
  destruct HTtop as [HTt HTb].
  pose proof (lvl_tbl_ok ls j T Hlv HT) as HTok.
  (* same level >= 1: one table per key *)
  assert (SAME: forall i, i <> O -> In X (nth i ls []) -> j = i -> X <> T -> False).
  { intros i Hi HX -> Hne'. pose proof (Hlv i) as Hl. destruct i; [congruence|]. cbn [lvl_ok] in Hl.
    apply Hne'. eapply level_ok_one_table; eauto. }
  (* deeper than the output level: no overlap *)
  assert (DEEP: (c_next c < j)%nat -> c_this c <> c_next c \/ c_this c <> O -> False).
  { intros Hjn Hnot00. unfold compaction_overlap in Hov. fold ls in Hov.
    assert (Hov': match tables_min_key (top_of ls c ++ bot_of ls c), tables_max_key (top_of ls c ++ bot_of ls c) with
                  | Some lo, Some hi => check_overlap 0 ls (S (c_next c)) lo hi
                  | _, _ => false end = false).
    { unfold top_of, bot_of. destruct (c_this c); destruct (c_next c); try exact Hov.
      destruct Hnot00; congruence. }
    assert (HXin: In X (top_of ls c ++ bot_of ls c)).
    { apply in_or_app. unfold top_of, bot_of, pick_tables. rewrite !filter_In. tauto. }
    assert (HXok: tbl_ok X).
    { destruct HXp as [[HX _]|[HX _]]; eapply lvl_tbl_ok; eauto. }
    destruct (user_range_some _ X HXin HXok) as (lo & hi & Hur).
    pose proof Hur as Hur'. unfold user_range in Hur'.
    destruct (tables_min_key (top_of ls c ++ bot_of ls c)) as [lo'|]; [|discriminate].
    destruct (tables_max_key (top_of ls c ++ bot_of ls c)) as [hi'|]; [|discriminate].
    inversion Hur'; subst lo' hi'.
    assert (HTo: table_overlaps lo hi T = false).
    { apply (check_overlap_false 0 ls (S (c_next c)) lo hi j T Hov'); [lia|auto]. }
    destruct (user_range_bounds _ lo hi X e Hur HXin HXok HeX) as [B1 B2].
    exact (no_overlap_no_key lo hi T o (e_key e) HTok HTo HoT B1 B2 Ek). }
  (* unpicked table of the output level against an entry of a top table (adjacent levels) *)
  assert (RANGE: range_pick ls c -> In X (top_of ls c) -> j = c_next c -> c_next c <> O -> False).
  { intros (lo & hi & Hur & Hids) HXt -> Hn0.
    assert (Hl: level_ok (nth (c_next c) ls [])).
    { pose proof (Hlv (c_next c)) as H. destruct (c_next c); [congruence|exact H]. }
    destruct Hl as (_ & _ & Hnd').
    assert (Hsame: table_overlaps lo hi T = in_ids (c_bot c) T).
    { apply (filter_same_ids (nth (c_next c) ls [])); auto. fold (overlapping lo hi (nth (c_next c) ls [])).
      unfold ids_of in *. rewrite Hids. symmetry. exact Ebot. }
    rewrite HTb in Hsame.
    assert (HXok: tbl_ok X).
    { unfold top_of, pick_tables in HXt. apply filter_In in HXt. destruct HXt as [HXl _]. eapply lvl_tbl_ok; eauto. }
    destruct (user_range_bounds _ lo hi X e Hur HXt HXok HeX) as [B1 B2].
    exact (no_overlap_no_key lo hi T o (e_key e) HTok Hsame HoT B1 B2 Ek). }
  assert (HXtop: In X (nth (c_this c) ls []) -> in_ids (c_top c) X = true -> In X (top_of ls c)).
  { intros A B. unfold top_of, pick_tables. apply filter_In. auto. }
  destruct (c_this c) as [|m] eqn:Et; destruct (c_next c) as [|n] eqn:En.
  - (* L0 -> L0: the markers are kept *)
    unfold compaction_overlap in Hov. rewrite Et, En in Hov. discriminate.
  - (* L0 -> Lbase *)
    destruct Hcase as (Hchain & Hbetween & Hrange). specialize (Hchain Hd).
    destruct HXp as [[HX HXi]|[HX HXi]]; rewrite ?Et, ?En in HX.
    + (* e comes from a table of the chain *)
      destruct j as [|j].
      * (* another table of level 0 *)
        pose proof (Hlv O) as H0. cbn [lvl_ok] in H0.
        assert (Hn0: NoDup (map t_id (nth 0 ls []))).
        { destruct (l0_chain_spec (nth 0 ls []) []) as (p & r & El & _ & _).
          unfold all_ids in Hnd. fold ls in Hnd.
          destruct ls as [|l0 rest]; [congruence|]. cbn [concat nth] in *. rewrite map_app in Hnd.
          destruct (InstallProofs.nodup_app_inv _ _ Hnd) as (N1 & _ & _). exact N1. }
        destruct (l0_chain_spec (nth 0 ls []) []) as (p & r & El & Ec & _). cbn [app] in Ec.
        rewrite El in Hn0. destruct (filter_prefix_ids p r Hn0) as [Fp Fr].
        assert (Ect: c_top c = ids_of p) by (rewrite <- Hchain, Ec; reflexivity).
        assert (HXc: In X (l0_chain (nth 0 ls []) [])).
        { rewrite Ec. rewrite <- Fp. rewrite <- Ect, <- El. unfold pick_tables. apply filter_In. auto. }
        assert (HTc: ~ In T (l0_chain (nth 0 ls []) [])).
        { rewrite Ec. intros HTp. assert (in_ids (c_top c) T = true); [|congruence].
          rewrite Ect. apply in_ids_iff. unfold ids_of. now apply in_map. }
        apply (l0_outside_chain (nth 0 ls []) X T H0 HL0 HXc HT HTc o e); auto.
      * destruct (Nat.lt_trichotomy (S j) (S n)) as [Hlt|[Heq|Hgt]].
        -- (* strictly between level 0 and the base level: empty (NoSkip) *)
           rewrite (levels_between_empty_spec ls 0 0 (S n) (S j) Hbetween) in HT by lia. destruct HT.
        -- exfalso. apply RANGE; [exact Hrange|apply HXtop; auto|lia|discriminate].
        -- exfalso. apply DEEP; [lia|left; discriminate].
    + (* e comes from a table of the base level *)
      destruct (Nat.lt_trichotomy j (S n)) as [Hlt|[Heq|Hgt]].
      * eapply (newer_levels d (S n) j X T e o); eauto.
      * exfalso. apply (SAME (S n)); auto. intros ->. congruence.
      * exfalso. apply DEEP; [lia|left; discriminate].
  - (* this >= 1, next = 0: outside the picker relation *)
    exfalso. destruct Hcase as [[H _]|[H _]]; discriminate.
  - destruct Hcase as [[Hsame Hlast]|(Hnext & Hlen & Hrange)].
    + (* Lmax -> Lmax *)
      assert (HXl: In X (nth (S m) ls [])).
      { destruct HXp as [[HX _]|[HX _]]; rewrite ?Et, ?En in HX; auto. rewrite Hsame. exact HX. }
      assert (HXT: X <> T).
      { intros ->. destruct HXp as [[_ A]|[_ A]]; congruence. }
      destruct (Nat.lt_trichotomy j (S m)) as [Hlt|[Heq|Hgt]].
      * eapply (newer_levels d (S m) j X T e o); eauto.
      * exfalso. apply (SAME (S m)); auto.
      * fold ls in Hj. lia.
    + (* Li -> Li+1 *)
      inversion Hnext; subst n.
      destruct HXp as [[HX HXi]|[HX HXi]]; rewrite ?Et, ?En in HX.
      * destruct (Nat.lt_trichotomy j (S m)) as [Hlt|[Heq|Hgt]].
        -- eapply (newer_levels d (S m) j X T e o); eauto.
        -- exfalso. apply (SAME (S m)); auto. intros ->. congruence.
        -- destruct (Nat.eq_dec j (S (S m))) as [Ej|Ej].
           ++ exfalso. apply RANGE; [exact Hrange|apply HXtop; auto|lia|discriminate].
           ++ exfalso. apply DEEP; [lia|right; discriminate].
      * destruct (Nat.lt_trichotomy j (S (S m))) as [Hlt|[Heq|Hgt]].
        -- eapply (newer_levels d (S (S m)) j X T e o); eauto.
        -- exfalso. apply (SAME (S (S m))); auto. intros ->. congruence.
        -- exfalso. apply DEEP; [lia|right; discriminate].
Qed.
