(* SysStream.v — Stream / Backup runs as labels on top of the system model (Sys.v).
   A quiescent run is one label (`Run`): every producer reads the current tree at the current
   read timestamp.  A run interleaved with commits is a sequence of producer-level labels:
   `ProdBegin` (stream.go produceKVs: the producer's own read-only transaction is created; the
   label carries the observed readTs) and `ProdRange` (that producer iterates one key range,
   seeing the tree as it is at that point, at ITS read timestamp). *)
From Verif Require Import Bytes Keys Consts Spec Lsm Compact Iter Sys Corr Stream.
Open Scope N_scope.

Record srun := mkRun {
  r_prefix : bytes; r_since : N; r_kind : ktl_kind;
  r_reject : list bytes          (* ChooseKey = "key not in this list" *)
}.

Definition choose_of (cfg : srun) (e : entry) : bool :=
  negb (existsb (bytes_eqb (e_key e)) (r_reject cfg)).

Definition no_ban (k : bytes) : bool := false.

Definition cfg_range (cfg : srun) (now rts : N) (m : src) (rng : bytes * bytes) : list entry :=
  concat (produce_range (r_prefix cfg) (r_since cfg) now no_ban (r_kind cfg) (choose_of cfg) rts m rng).

Inductive xop :=
| Base (o : op)
(* quiescent run; outs = the non-empty per-range outputs in range order; ret = max version sent *)
| Run (cfg : srun) (rts : N) (splits : list bytes) (outs : list (list entry)) (ret : N)
| ProdBegin (p : N) (rts : N)
| ProdRange (p : N) (cfg : srun) (lo hi : bytes) (out : list entry).

Record xsys := mkX { x_sys : sys; x_prod : list (N * N) (* producer -> read ts *) }.

Definition nonempty {A} (l : list A) : bool := match l with [] => false | _ => true end.

Definition read_ts_ok (s : sys) (rts : N) : bool := s_managed s || (rts =? s_next s - 1).

(* the hypotheses of the Stream / Backup theorems, checked on every view a run reads:
   strictly increasing internal keys, no empty user key, versions >= 1 *)
Fixpoint view_okb (m : src) : bool :=
  match m with
  | [] => true
  | a :: r => (match e_key a with [] => false | _ => true end) && (0 <? e_ver a)
              && (match r with b :: _ => match ent_cmp a b with Lt => true | _ => false end | [] => true end)
              && view_okb r
  end.

(* codes: 1 observation differs, 2 unknown producer/txn, 7 split keys outside what Ranges
   guarantees, 8 the merged view is not a well-formed view *)
Definition xstep (x : xsys) (o : xop) : result * list (N * N) :=
  let s := x_sys x in
  match o with
  | Base b => (step s b, x_prod x)
  | Run cfg rts splits outs ret =>
      if negb (read_ts_ok s rts) then (Bad 1, x_prod x)
      else if negb (splits_ok (r_prefix cfg) splits) then (Bad 7, x_prod x)
      else if negb (view_okb (merged (s_db s))) then (Bad 8, x_prod x)
      else
        let res := filter nonempty (map (cfg_range cfg (s_now s) rts (merged (s_db s))) (ranges splits)) in
        if list_eqb entries_eqb res outs && (max_ver (concat res) =? ret) then (Ok s, x_prod x)
        else (Bad 1, x_prod x)
  | ProdBegin p rts =>
      if read_ts_ok s rts then (Ok s, update (x_prod x) p rts) else (Bad 1, x_prod x)
  | ProdRange p cfg lo hi out =>
      match lookup (x_prod x) p with
      | Some rts =>
          if entries_eqb (cfg_range cfg (s_now s) rts (merged (s_db s)) (lo, hi)) out
          then (Ok s, x_prod x) else (Bad 1, x_prod x)
      | None => (Bad 2, x_prod x)
      end
  end.

Fixpoint xexec (x : xsys) (ops : list xop) (i : N) : option (N * N) * xsys :=
  match ops with
  | [] => (None, x)
  | o :: r => match xstep x o with
              | (Ok s', pr) => xexec (mkX s' pr) r (i + 1)
              | (Bad code, _) => (Some (i, code), x)
              end
  end.

(* the outputs of the producer-level labels of a history, with their ranges, in order *)
Fixpoint range_outs (ops : list xop) : list ((bytes * bytes) * list entry) :=
  match ops with
  | [] => []
  | ProdRange _ _ l r out :: rest => ((l, r), out) :: range_outs rest
  | _ :: rest => range_outs rest
  end.
