(* TreeStepProofs.v — TreeInv is preserved by every label (normal mode), and each flush /
   compaction label preserves every Get at or above its discard timestamp. *)
From Verif Require Import Bytes BytesProofs Keys C20Proofs Consts Spec Lsm LsmProofs Compact Iter Sys SysReopen SysTree.
From Verif Require Import EntOrderProofs ReopenReadProofs ReopenTsProofs LevelsWfProofs CompactWfProofs.
From Verif Require GetProofs MergeProofs C12Proofs InstallProofs.
From Verif Require Import CompactProofs TreeInvProofs.
From Coq Require Import ZifyN ZifyNat ZifyBool Sorted Permutation.
Open Scope N_scope.

Lemma nodup_kv_sub U V : (forall x, In x V -> In x U) -> nodup_kv U -> nodup_kv V.
Proof. intros H Hn a b Ha Hb. apply Hn; auto. Qed.

Lemma all_entries_db_entries d x : In x (GetProofs.all_entries d) <-> In x (db_entries d).
Proof.
  rewrite C12Proofs.all_entries_in, in_db_entries, in_lv_entries. tauto.
Qed.

Lemma in_level_entries ls i x :
  In x (lvl_entries (nth i ls [])) -> In x (lv_entries ls).
Proof.
  intros H. apply in_lvl_entries in H. destruct H as (t & Ht & Hx).
  eapply level_table_entries; eauto.
Qed.

Lemma lv_entries_level ls x : In x (lv_entries ls) -> exists i, In x (lvl_entries (nth i ls [])).
Proof.
  intros H. apply in_lv_entries in H. destruct H as (l & t & Hl & Ht & Hx).
  destruct (In_nth _ _ [] Hl) as (i & _ & E). exists i. rewrite E. apply in_lvl_entries. eauto.
Qed.

(* ---- Commit: fresh, larger versions go to the memtable ---- *)
Lemma commit_preserves_tree d es ts :
  TreeInv d -> (forall e, In e es -> e_ver e = ts) ->
  (forall x, In x (db_entries d) -> e_ver x < ts) ->
  TreeInv (apply_entries d es).
Proof.
  intros (Himm & Hne & Hdb & Hnd & Hkv & HM & HL0) Hes Hbelow. destruct HM as [HM0 HM1].
  unfold TreeInv, apply_entries. cbn [l_mt l_imm l_levels].
  assert (Hdb': db_ok (apply_entries d es)) by now apply apply_entries_ok.
  split; [exact Himm|]. split; [exact Hne|]. split; [exact Hdb'|]. split; [exact Hnd|].
  split; [|split; [split|exact HL0]].
  - (* distinct key@version *)
    intros a b Ha Hb Ek Ev. apply C12Proofs.all_entries_in in Ha, Hb. cbn [l_mt l_imm l_levels] in Ha, Hb.
    assert (OLD: forall x, (exists s, In s (l_imm d) /\ In x s) \/
                   (exists l t, In l (l_levels d) /\ In t l /\ In x (t_ents t)) -> In x (db_entries d)).
    { intros x Hx. apply in_db_entries. rewrite in_lv_entries. tauto. }
    assert (MT: forall x, In x (fold_left mt_put es (l_mt d)) -> (In x es) \/ In x (db_entries d)).
    { intros x Hx. apply fold_mt_put_in in Hx. destruct Hx; auto. right. apply in_db_entries. auto. }
    destruct Ha as [Ha|Ha], Hb as [Hb|Hb].
    + destruct Hdb' as (Hs & _). cbn [apply_entries l_mt] in Hs. exact (ssorted_nodup_kv _ Hs a b Ha Hb Ek Ev).
    + apply OLD in Hb. destruct (MT _ Ha) as [Ha'|Ha'].
      * exfalso. specialize (Hes _ Ha'). specialize (Hbelow _ Hb). lia.
      * apply Hkv; auto; now apply all_entries_db_entries.
    + apply OLD in Ha. destruct (MT _ Hb) as [Hb'|Hb'].
      * exfalso. specialize (Hes _ Hb'). specialize (Hbelow _ Ha). lia.
      * apply Hkv; auto; now apply all_entries_db_entries.
    + apply OLD in Ha, Hb. apply Hkv; auto; now apply all_entries_db_entries.
  - (* the memtable stays the newest group *)
    intros i a b Ha Hb Ek. apply fold_mt_put_in in Ha. destruct Ha as [Ha|Ha].
    + rewrite (Hes _ Ha). apply Hbelow. apply in_db_entries. right. right. eapply in_level_entries; eauto.
    + apply (HM0 i a b); auto.
  - exact HM1.
Qed.

(* ---- Flush ---- *)
Lemma flush_shape d id :
  l_imm d = [] ->
  flush_oldest (rotate d) id =
  mkLsm [] [] (match l_mt d with [] => l_levels d | _ => add_l0 (l_levels d) (mkT id (l_mt d)) end).
Proof. intros H. unfold flush_oldest, rotate. cbn [l_imm l_mt l_levels]. rewrite H. reflexivity. Qed.

Lemma StronglySorted_snoc {A} (R : A -> A -> Prop) l x :
  StronglySorted R l -> (forall y, In y l -> R y x) -> StronglySorted R (l ++ [x]).
Proof.
  induction 1 as [|a l Hs IH Ha]; intros H; cbn; [repeat constructor|].
  constructor; [apply IH; intros y Hy; apply H; now right|].
  apply Forall_app. split; auto. constructor; auto. apply H. now left.
Qed.

Lemma flush_preserves_tree d id :
  TreeInv d -> (l_mt d <> [] -> ~ In id (all_ids (l_levels d))) ->
  TreeInv (flush_oldest (rotate d) id).
Proof.
  intros HT Hfresh. pose proof HT as (Himm & Hne & Hdb & Hnd & Hkv & HM & HL0). destruct HM as [HM0 HM1].
  assert (Hdb': db_ok (flush_oldest (rotate d) id)) by (apply flush_oldest_ok; now apply rotate_ok).
  assert (Hkv': nodup_kv (GetProofs.all_entries (flush_oldest (rotate d) id))).
  { eapply nodup_kv_sub; [|exact Hkv]. intros x Hx. now apply (C12Proofs.flush_same_entries d id x Hne). }
  rewrite (flush_shape d id Himm) in *.
  destruct (l_mt d) as [|e0 mt] eqn:Em.
  - (* nothing to flush *)
    unfold TreeInv. cbn [l_mt l_imm l_levels].
    split; [reflexivity|]. split; [exact Hne|]. split; [exact Hdb'|]. split; [exact Hnd|].
    split; [exact Hkv'|]. split; [split; [intros i a b []|exact HM1]|exact HL0].
  - specialize (Hfresh ltac:(discriminate)).
    destruct (l_levels d) as [|l0 rest] eqn:El; [congruence|]. cbn [add_l0] in *.
    set (T := mkT id (e0 :: mt)) in *.
    assert (HTnew: forall i, newer (t_ents T) (lvl_entries (nth i (l0 :: rest) []))) by (intros i; apply (HM0 i)).
    unfold TreeInv. cbn [l_mt l_imm l_levels nth].
    split; [reflexivity|]. split; [discriminate|]. split; [exact Hdb'|].
    split; [|split; [exact Hkv'|split; [split|]]].
    + (* ids *)
      unfold all_ids in *. cbn [concat] in *. rewrite <- app_assoc. cbn [app].
      eapply Permutation_NoDup; [|constructor; [exact Hfresh|exact Hnd]].
      change (id :: map t_id (l0 ++ concat rest)) with (map t_id (T :: l0 ++ concat rest)).
      apply Permutation_map. apply Permutation_middle.
    + intros i a b [].
    + (* level groups *)
      intros i j Hij a b Ha Hb Ek. destruct i as [|i].
      * destruct j as [|j]; [lia|]. cbn [nth] in *. apply in_lvl_entries in Ha. destruct Ha as (t & Ht & Ha).
        apply in_app_iff in Ht. destruct Ht as [Ht|[<-|[]]].
        -- apply (HM1 O (S j) Hij a b); auto. apply in_lvl_entries. eauto.
        -- apply (HTnew (S j) a b); auto.
      * destruct j as [|j]; [lia|]. cbn [nth] in *. apply (HM1 (S i) (S j) Hij a b); auto.
    + (* level 0 = A ++ (B ++ [T]) *)
      destruct HL0 as (A & B & E0 & HsA & HB & HAB). cbn [nth] in E0. exists A, (B ++ [T]).
      assert (HTl0: forall t, In t l0 -> tnewer T t).
      { intros t Ht a b Ha Hb. apply (HTnew O a b); auto. cbn [nth]. apply in_lvl_entries. eauto. }
      split; [rewrite E0; now rewrite app_assoc|]. split; [exact HsA|]. split.
      * apply StronglySorted_snoc; auto. intros y Hy. apply HTl0. rewrite E0. apply in_or_app. now right.
      * intros a b Ha Hb. apply in_app_iff in Hb. destruct Hb as [Hb|[<-|[]]]; [now apply HAB|].
        apply HTl0. rewrite E0. apply in_or_app. now left.
Qed.

(* ---- Compact: bookkeeping ---- *)
Lemma ids_nodup_iff l : ids_nodup l = true <-> NoDup l.
Proof.
  assert (E: ids_nodup l = nodup_ids l) by (induction l as [|x l IH]; cbn; [reflexivity|now rewrite IH]).
  rewrite E. apply nodup_ids_iff.
Qed.

Lemma layout_ok_facts ls c out :
  layout_ok ls c out = true ->
  InstallProofs.fresh_layout ls c /\ InstallProofs.layout_sum (c_layout c) = length out.
Proof.
  unfold layout_ok. rewrite !andb_true_iff. intros [[H1 H2] H3].
  apply Nat.eqb_eq in H1. rewrite InstallProofs.fold_layout_sum in H1. cbn in H1.
  apply ids_nodup_iff in H3. rewrite forallb_forall in H2. split; [|exact H1]. split; [|exact H3].
  intros i Hi Hin. apply in_map_iff in Hi. destruct Hi as (ic & <- & Hic).
  specialize (H2 _ Hic). apply andb_true_iff in H2. destruct H2 as [_ H2]. apply negb_true_iff in H2.
  assert (existsb (N.eqb (fst ic)) (all_ids ls) = true); [|congruence].
  apply existsb_exists. exists (fst ic). split; auto. apply N.eqb_refl.
Qed.

Lemma order_ok_nodup order nl : order_ok order nl = true -> NoDup order.
Proof. unfold order_ok. rewrite !andb_true_iff. intros [_ H]. now apply ids_nodup_iff. Qed.

Lemma NoDup_app_intro {A} (a b : list A) :
  NoDup a -> NoDup b -> (forall x, In x a -> In x b -> False) -> NoDup (a ++ b).
Proof.
  induction a as [|x a IH]; intros Ha Hb Hd; cbn; auto. inversion Ha as [|? ? Hx Ha']; subst.
  constructor.
  - intros Hin. apply in_app_iff in Hin. destruct Hin as [Hin|Hin]; [contradiction|]. apply (Hd x); auto. now left.
  - apply IH; auto. intros y Hy Hy'. apply (Hd y); auto. now right.
Qed.

(* distinct ids over the tree = distinct ids inside each level + no id on two levels *)
Lemma nodup_all_ids_iff ls :
  NoDup (all_ids ls) <->
  (forall i, NoDup (map t_id (nth i ls []))) /\
  (forall i j a b, i <> j -> In a (nth i ls []) -> In b (nth j ls []) -> t_id a <> t_id b).
Proof.
  unfold all_ids. induction ls as [|l r IH].
  - cbn. split; [intros _|intros _; constructor]. split.
    + intros i. destruct i; constructor.
    + intros i j a b _ Ha. destruct i; destruct Ha.
  - cbn [concat]. rewrite map_app. split.
    + intros Hn. destruct (InstallProofs.nodup_app_inv _ _ Hn) as (N1 & N2 & N3).
      apply IH in N2. destruct N2 as [I1 I2]. split.
      * intros i. destruct i; cbn [nth]; auto.
      * assert (Q: forall j b, In b (nth j r []) -> In (t_id b) (map t_id (concat r))).
        { intros j b Hb. apply in_map. apply in_concat. exists (nth j r []). split; auto.
          destruct (nth_in_or_default j r []) as [H|H]; auto. rewrite H in Hb. destruct Hb. }
        intros i j a b Hij Ha Hb E. destruct i as [|i], j as [|j]; cbn [nth] in *; try congruence.
        -- apply (N3 (t_id a)); [now apply in_map|]. rewrite E. eapply Q; eauto.
        -- apply (N3 (t_id b)); [now apply in_map|]. rewrite <- E. eapply Q; eauto.
        -- apply (I2 i j a b); auto.
    + intros [I1 I2]. apply NoDup_app_intro.
      * apply (I1 O).
      * apply IH. split; [intros i; apply (I1 (S i))|]. intros i j a b Hij. apply (I2 (S i) (S j)). congruence.
      * intros x Hx Hx'. apply in_map_iff in Hx, Hx'. destruct Hx as (a & <- & Ha). destruct Hx' as (b & E & Hb).
        apply in_concat in Hb. destruct Hb as (l' & Hl' & Hb). destruct (In_nth _ _ [] Hl') as (j & _ & <-).
        apply (I2 O (S j) a b); auto.
Qed.

(* where a table of the tree after the compaction comes from *)
Lemma after_member ls c n t :
  (c_this c < length ls)%nat -> (c_next c < length ls)%nat ->
  In t (nth n (apply_compaction ls c) []) ->
  (In t (nth n ls []) /\ (n = c_this c -> in_ids (c_top c) t = false)
                      /\ (n = c_next c -> in_ids (c_bot c) t = false))
  \/ (n = c_next c /\ In t (InstallProofs.new_tables ls c)).
Proof.
  intros Ht Hn. rewrite nth_apply_compaction. cbn zeta.
  assert (Lt: (c_this c <? length ls)%nat = true) by now apply Nat.ltb_lt.
  assert (Ln: (c_next c <? length ls)%nat = true) by now apply Nat.ltb_lt.
  rewrite Lt, Ln, !andb_true_r.
  assert (REO: forall t0, In t0 (reorder (c_order c)
                 (drop_tables (c_bot c) (nth (c_next c) ls []) ++ split_counts (compaction_output ls c) (c_layout c))) ->
               (In t0 (nth (c_next c) ls []) /\ in_ids (c_bot c) t0 = false) \/ In t0 (InstallProofs.new_tables ls c)).
  { intros t0 H. apply reorder_in in H. apply in_app_iff in H. destruct H as [H|H]; [left|now right].
    unfold drop_tables in H. apply filter_In in H. destruct H as [A B]. apply negb_true_iff in B. auto. }
  destruct (Nat.eqb_spec n (c_this c)) as [E1|E1].
  - subst n. intros H. unfold drop_tables in H at 1. apply filter_In in H. destruct H as [H Hnt]. apply negb_true_iff in Hnt.
    destruct (Nat.eqb_spec (c_this c) (c_next c)) as [E2|E2].
    + destruct (REO _ H) as [[A B]|A]; [left|right; auto].
      rewrite E2. repeat split; auto; try (intros _; rewrite <- E2 in *; exact Hnt).
    + left. repeat split; auto. intros E. congruence.
  - destruct (Nat.eqb_spec n (c_next c)) as [E2|E2].
    + subst n. intros H. destruct (REO _ H) as [[A B]|A]; [left|right; auto]. repeat split; auto. intros E. congruence.
    + intros H. left. repeat split; auto; intros E; congruence.
Qed.

(* ... and where an entry comes from *)
Lemma after_entry ls c n x :
  (c_this c < length ls)%nat -> (c_next c < length ls)%nat ->
  In x (lvl_entries (nth n (apply_compaction ls c) [])) ->
  (exists t, In t (nth n ls []) /\ (n = c_this c -> in_ids (c_top c) t = false)
             /\ (n = c_next c -> in_ids (c_bot c) t = false) /\ In x (t_ents t))
  \/ (n = c_next c /\ exists X, (In X (top_of ls c) \/ In X (bot_of ls c)) /\ In x (t_ents X)).
Proof.
  intros Ht Hn H. apply in_lvl_entries in H. destruct H as (t & Htl & Hx).
  destruct (after_member ls c n t Ht Hn Htl) as [(A & B & C)|[A B]].
  - left. exists t. auto.
  - right. split; auto. apply compaction_output_src. unfold InstallProofs.new_tables in B.
    eapply split_counts_in; eauto.
Qed.

Lemma apply_compaction_length ls c : length (apply_compaction ls c) = length ls.
Proof. unfold apply_compaction. now rewrite !CompactWfProofs.set_level_length. Qed.

Lemma pick_this_lt ls c : pick_check ls c = 0 -> (c_this c < length ls)%nat.
Proof.
  intros Hp. destruct (pick_facts2 _ _ Hp) as (Etop & _ & Hne & _).
  destruct (Nat.lt_ge_cases (c_this c) (length ls)) as [H|H]; auto. exfalso. apply Hne.
  rewrite <- Etop. unfold top_of. rewrite (nth_overflow ls [] H). reflexivity.
Qed.

Lemma pick_this_le_next ls c : pick_check ls c = 0 -> (c_this c <= c_next c)%nat.
Proof.
  intros Hp. destruct (pick_facts2 _ _ Hp) as (_ & _ & _ & H).
  destruct (c_this c), (c_next c); try lia; destruct H as [[H _]|[H _]]; lia.
Qed.

Lemma in_top_of ls c X : In X (top_of ls c) <-> In X (nth (c_this c) ls []) /\ in_ids (c_top c) X = true.
Proof. unfold top_of, pick_tables. apply filter_In. Qed.
Lemma in_bot_of ls c X : In X (bot_of ls c) <-> In X (nth (c_next c) ls []) /\ in_ids (c_bot c) X = true.
Proof. unfold bot_of, pick_tables. apply filter_In. Qed.

Lemma level0_nodup ls : NoDup (all_ids ls) -> NoDup (map t_id (nth 0 ls [])).
Proof. intros H. apply nodup_all_ids_iff in H. apply H. Qed.

(* L0 -> Lbase: the top tables are exactly the overlap chain, a prefix of level 0 *)
Lemma l0_top_chain ls c n :
  NoDup (all_ids ls) -> pick_check ls c = 0 -> c_drop c = [] -> c_this c = O -> c_next c = S n ->
  exists p r, nth 0 ls [] = p ++ r /\ l0_chain (nth 0 ls []) [] = p /\ c_top c = ids_of p /\
              top_of ls c = p /\ drop_tables (c_top c) (nth 0 ls []) = r.
Proof.
  intros Hnd Hp Hd Et En. destruct (pick_facts2 _ _ Hp) as (_ & _ & _ & Hcase). rewrite Et, En in Hcase.
  destruct Hcase as (Hchain & _ & _). specialize (Hchain Hd).
  destruct (l0_chain_spec (nth 0 ls []) []) as (p & r & El & Ec & _). cbn [app] in Ec.
  pose proof (level0_nodup ls Hnd) as Hn0. rewrite El in Hn0.
  destruct (filter_prefix_ids p r Hn0) as [Fp Fr].
  assert (Ect: c_top c = ids_of p) by (rewrite <- Hchain, Ec; reflexivity).
  exists p, r. repeat split; auto.
  - unfold top_of. rewrite Et, Ect, El. exact Fp.
  - rewrite Ect, El. exact Fr.
Qed.

(* a table left in the input level against a table that moved down *)
Lemma stays_newer_than_top d c t Y :
  TreeInv d -> pick_check (l_levels d) c = 0 -> c_drop c = [] -> (c_this c < c_next c)%nat ->
  In t (nth (c_this c) (l_levels d) []) -> in_ids (c_top c) t = false -> In Y (top_of (l_levels d) c) ->
  tnewer t Y.
Proof.
  intros (Himm & Hne & Hdb & Hnd & Hkv & HM & HL0) Hp Hd Hlt Ht Htn HY.
  destruct Hdb as (_ & _ & Hlv). set (ls := l_levels d) in *.
  apply in_top_of in HY. destruct HY as [HYl HYi].
  destruct (c_this c) as [|m] eqn:Et.
  - destruct (c_next c) as [|n] eqn:En; [lia|].
    destruct (l0_top_chain ls c n Hnd Hp Hd Et En) as (p & r & El & Ec & Ect & Etop & Edrop).
    apply (l0_outside_chain (nth 0 ls []) Y t (Hlv O) HL0); auto.
    + rewrite Ec, <- Etop. apply in_top_of. rewrite Et. auto.
    + rewrite Ec. intros Hin. assert (in_ids (c_top c) t = true); [|congruence].
      rewrite Ect. apply in_ids_iff. unfold ids_of. now apply in_map.
  - intros a b Ha Hb Ek. exfalso. pose proof (Hlv (S m)) as Hl. cbn [lvl_ok] in Hl.
    assert (t = Y) by (eapply level_ok_one_table; eauto). subst. congruence.
Qed.

Lemma sorted_by_smallest_tail a l : sorted_by_smallest (a :: l) = true -> sorted_by_smallest l = true.
Proof.
  destruct l as [|b r]; [reflexivity|]. rewrite sorted_by_smallest_cons.
  destruct (t_smallest a); [|discriminate]. destruct (t_smallest b); [|discriminate].
  destruct (ent_cmp e e0); auto; discriminate.
Qed.

Lemma sorted_by_smallest_suffix p l : sorted_by_smallest (p ++ l) = true -> sorted_by_smallest l = true.
Proof. induction p as [|a p IH]; cbn [app]; auto. intros H. apply IH. eapply sorted_by_smallest_tail; eauto. Qed.

Lemma L0Inv_suffix p r : L0Inv (p ++ r) -> L0Inv r.
Proof.
  intros (A & B & E & HsA & HB & HAB). destruct (app_eq_app _ _ _ _ E) as (l & [[Ep Er]|[Ea Eb]]).
  - (* p = A ++ l, B = l ++ r *)
    exists [], r. split; [reflexivity|]. split; [reflexivity|]. split; [|intros a b []].
    unfold age_ordered in *. rewrite Er in HB. eapply StronglySorted_subseq; [|exact HB].
    apply (subseq_app [] l); [apply subseq_nil_l|apply subseq_refl].
  - (* A = p ++ l, r = l ++ B *)
    exists l, B. split; [exact Eb|]. split; [rewrite Ea in HsA; eapply sorted_by_smallest_suffix; eauto|].
    split; auto. intros a b Ha Hb. apply HAB; auto. rewrite Ea. apply in_or_app. now right.
Qed.

Lemma sorted_by_smallest_short (l : list table) : (length l <= 1)%nat -> sorted_by_smallest l = true.
Proof. destruct l as [|a [|b r]]; cbn [length]; auto. lia. Qed.

(* ---- Compact: TreeInv is preserved ---- *)
Theorem compact_preserves_tree d c :
  let ls := l_levels d in
  TreeInv d -> pick_check ls c = 0 -> c_drop c = [] -> (c_next c < length ls)%nat ->
  compact_extra_check ls c = 0 ->
  layout_ok ls c (compaction_output ls c) = true ->
  order_ok (c_order c)
    (let nl := drop_tables (c_bot c) (nth (c_next c) ls []) ++ InstallProofs.new_tables ls c in
     if (c_this c =? c_next c)%nat then drop_tables (c_top c) nl else nl) = true ->
  (sorted_by_smallest (nth (c_next c) (apply_compaction ls c) []) = true \/
   (length (nth (c_next c) (apply_compaction ls c) []) <= 1)%nat) ->
  TreeInv (InstallProofs.tree_after d c).
Proof.
  cbn zeta. intros HT Hp Hd Hn Hx Hlay Hord Hsrt.
  pose proof HT as (Himm & Hne & Hdb & Hnd & Hkv & HM & HL0). destruct HM as [HM0 HM1].
  destruct Hdb as (Hmt & Himm' & Hlv).
  set (ls := l_levels d) in *.
  pose proof (pick_this_lt ls c Hp) as Ht. pose proof (pick_this_le_next ls c Hp) as Hle.
  destruct (pick_facts2 _ _ Hp) as (Etop & Ebot & Htne & Hcase).
  pose proof (apply_compaction_ok ls c Hlv Hp Hx Hsrt) as Hlv'.
  destruct (layout_ok_facts _ _ _ Hlay) as [[Hfresh Hlnd] Hsum].
  assert (HNEW: forall t, In t (InstallProofs.new_tables ls c) -> ~ In (t_id t) (all_ids ls)).
  { intros t Ht0. apply Hfresh. unfold InstallProofs.new_tables in Ht0.
    rewrite <- (InstallProofs.split_counts_ids (compaction_output ls c)). now apply in_map. }
  assert (HOLD: forall i t, In t (nth i ls []) -> In (t_id t) (all_ids ls)).
  { intros i t Hti. unfold all_ids. apply in_map. apply in_concat. exists (nth i ls []). split; auto.
    destruct (nth_in_or_default i ls []) as [H|H]; auto. rewrite H in Hti. destruct Hti. }
  pose proof (proj1 (nodup_all_ids_iff ls) Hnd) as [Hlevnd Hcross].
  unfold TreeInv, InstallProofs.tree_after. cbn [l_mt l_imm l_levels]. change (l_levels d) with ls.
  split; [exact Himm|]. split.
  { intros E. apply (f_equal (@length _)) in E. rewrite apply_compaction_length in E. cbn [length] in E.
    apply length_zero_iff_nil in E. contradiction. }
  split; [split; [exact Hmt|split; [exact Himm'|exact Hlv']]|].
  split.
  { (* table ids *)
    apply nodup_all_ids_iff. split.
    - intros i. rewrite nth_apply_compaction. cbn zeta.
      set (L' := reorder (c_order c) (drop_tables (c_bot c) (nth (c_next c) ls []) ++ split_counts (compaction_output ls c) (c_layout c))).
      assert (HL': NoDup (map t_id L')).
      { eapply NoDup_subseq; [apply reorder_ids_subseq|]. eapply order_ok_nodup; eauto. }
      assert (DR: forall ids l, NoDup (map t_id l) -> NoDup (map t_id (drop_tables ids l))).
      { intros ids l H. eapply NoDup_subseq; [apply subseq_map; apply subseq_filter|exact H]. }
      destruct ((i =? c_this c)%nat && (c_this c <? length ls)%nat)%bool.
      + apply DR. destruct ((c_this c =? c_next c)%nat && (c_next c <? length ls)%nat)%bool; auto.
      + destruct ((i =? c_next c)%nat && (c_next c <? length ls)%nat)%bool; auto.
    - intros i j a b Hij Ha Hb E.
      destruct (after_member ls c i a Ht Hn Ha) as [(A1 & _ & _)|[A1 A2]];
      destruct (after_member ls c j b Ht Hn Hb) as [(B1 & _ & _)|[B1 B2]].
      + apply (Hcross i j a b); auto.
      + apply (HNEW b B2). rewrite <- E. eapply HOLD; eauto.
      + apply (HNEW a A2). rewrite E. eapply HOLD; eauto.
      + congruence. }
  split.
  { (* distinct key@version: nothing new is stored *)
    eapply nodup_kv_sub; [|exact Hkv]. intros x H. apply all_entries_db_entries in H. apply all_entries_db_entries.
    apply in_db_entries in H. apply in_db_entries. cbn [l_mt l_imm l_levels] in H.
    destruct H as [H|[H|H]]; auto. right. right. eapply apply_compaction_entries; eauto. }
  (* origin of an entry of the new tree, by level of the OLD tree *)
  assert (ORG: forall n x, In x (lvl_entries (nth n (apply_compaction ls c) [])) ->
            exists m t, In t (nth m ls []) /\ In x (t_ents t) /\ (m <= n)%nat).
  { intros n x H. destruct (after_entry ls c n x Ht Hn H) as [(t & A & _ & _ & B)|(-> & X & [HX|HX] & B)].
    - exists n, t. auto.
    - apply in_top_of in HX. destruct HX as [HX _]. exists (c_this c), X. repeat split; auto.
    - apply in_bot_of in HX. destruct HX as [HX _]. exists (c_next c), X. repeat split; auto. }
  split; [split|].
  - (* the memtable is newer than every level *)
    intros i a b Ha Hb Ek. destruct (ORG i b Hb) as (m & t & A & B & _).
    apply (HM0 m a b); auto. apply in_lvl_entries. eauto.
  - (* level groups *)
    intros i j Hij a b Ha Hb Ek.
    destruct (after_entry ls c j b Ht Hn Hb) as [(tb & B1 & _ & _ & B2)|(Ej & Y & HY & B2)].
    + (* b stayed on level j: whatever a is, it comes from a level <= i *)
      destruct (ORG i a Ha) as (m & ta & A1 & A2 & A3).
      apply (HM1 m j ltac:(lia) a b); auto; apply in_lvl_entries; eauto.
    + (* b was moved into the output level j = next *)
      subst j.
      destruct (after_entry ls c i a Ht Hn Ha) as [(ta & A1 & A3 & _ & A2)|(Ei & _)]; [|lia].
      destruct HY as [HY|HY].
      * (* b comes from a top table (level this) *)
        pose proof HY as HY'. apply in_top_of in HY'. destruct HY' as [HYl HYi].
        destruct (Nat.lt_trichotomy i (c_this c)) as [Hlt|[Heq|Hgt]].
        -- apply (HM1 i (c_this c) Hlt a b); auto; apply in_lvl_entries; eauto.
        -- subst i. apply (stays_newer_than_top d c ta Y HT Hp Hd Hij A1 (A3 eq_refl) HY a b); auto.
        -- (* strictly between this and next: only L0 -> Lbase, where those levels are empty *)
           exfalso. destruct (c_this c) as [|m] eqn:Et; destruct (c_next c) as [|n] eqn:En; try lia.
           destruct Hcase as (_ & Hbetween & _).
           rewrite (levels_between_empty_spec ls 0 0 (S n) i Hbetween) in A1 by lia. destruct A1.
      * (* b comes from a bottom table (level next) *)
        apply in_bot_of in HY. destruct HY as [HYl _].
        apply (HM1 i (c_next c) Hij a b); auto; apply in_lvl_entries; eauto.
  - (* level 0 *)
    rewrite nth_apply_compaction. cbn zeta.
    assert (Lt: (c_this c <? length ls)%nat = true) by now apply Nat.ltb_lt.
    assert (Ln: (c_next c <? length ls)%nat = true) by now apply Nat.ltb_lt.
    rewrite Lt, Ln, !andb_true_r.
    destruct (c_this c) as [|m] eqn:Et; destruct (c_next c) as [|n] eqn:En; cbn [Nat.eqb].
    + (* L0 -> L0: the whole level was re-sorted *)
      rewrite nth_apply_compaction in Hsrt. cbn zeta in Hsrt. rewrite Et, En in Hsrt. cbn [Nat.eqb andb] in Hsrt.
      assert (Lt0: (0 <? length ls)%nat = true) by (apply Nat.ltb_lt; lia). rewrite Lt0 in Hsrt.
      eexists _, []. rewrite app_nil_r. split; [reflexivity|]. split.
      * destruct Hsrt as [H|H]; [exact H|now apply sorted_by_smallest_short].
      * split; [constructor|intros a b _ []].
    + (* L0 -> Lbase: a prefix of level 0 leaves *)
      destruct (l0_top_chain ls c n Hnd Hp Hd Et En) as (p & r & El & _ & _ & _ & Edrop).
      rewrite Edrop. apply (L0Inv_suffix p r). rewrite <- El. exact HL0.
    + exfalso. destruct Hcase as [[H _]|[H _]]; discriminate.
    + exact HL0.
Qed.

(* ---- the system-level invariant and its preservation by step_tree ---- *)
Definition SysInv (s : sys) : Prop := c11_inv s /\ TreeInv (s_db s).

Lemma step_strict_step s o s' : step_strict s o = Ok s' -> step s o = Ok s'.
Proof.
  unfold step_strict. destruct o; auto.
  - destruct (negb (id =? 0) && existsb (N.eqb id) (all_ids (l_levels (s_db s)))); [discriminate|auto].
  - cbn zeta. destruct (negb (pick_check (l_levels (s_db s)) c =? 0)); auto.
    destruct (negb (layout_ok _ _ _)); [discriminate|]. destruct (negb (order_ok _ _)); [discriminate|auto].
Qed.

Lemma step_tree_strict s o s' : step_tree s o = Ok s' -> step_strict s o = Ok s'.
Proof.
  unfold step_tree. destruct o; auto.
  - destruct (l_mt (s_db s)); auto. destruct (existsb (N.eqb id) (all_ids (l_levels (s_db s)))); [discriminate|auto].
  - cbn zeta. destruct (negb (pick_check (l_levels (s_db s)) c =? 0)); auto.
    destruct (negb (c_next c <? length (l_levels (s_db s)))%nat); [discriminate|].
    destruct (negb (compact_extra_check (l_levels (s_db s)) c =? 0)); [discriminate|auto].
Qed.

Lemma step_tree_step s o s' : step_tree s o = Ok s' -> step s o = Ok s'.
Proof. intros H. now apply step_strict_step, step_tree_strict. Qed.

(* everything a successful Compact label has passed *)
Lemma compact_checks s c out s' :
  step_tree s (Compact c out) = Ok s' ->
  let ls := l_levels (s_db s) in
  pick_check ls c = 0 /\ (c_next c < length ls)%nat /\ compact_extra_check ls c = 0 /\
  layout_ok ls c (compaction_output ls c) = true /\
  order_ok (c_order c)
    (let nl := drop_tables (c_bot c) (nth (c_next c) ls []) ++ InstallProofs.new_tables ls c in
     if (c_this c =? c_next c)%nat then drop_tables (c_top c) nl else nl) = true /\
  (sorted_by_smallest (nth (c_next c) (apply_compaction ls c) []) = true \/
   (length (nth (c_next c) (apply_compaction ls c) []) <= 1)%nat) /\
  s_db s' = InstallProofs.tree_after (s_db s) c.
Proof.
  cbn zeta. intros H. pose proof (step_tree_step _ _ _ H) as Hs. pose proof (step_tree_strict _ _ _ H) as Hst.
  unfold step_tree in H. cbn zeta in H. unfold step_strict in Hst. cbn zeta in Hst. cbn [step] in Hs.
  destruct (negb (pick_check (l_levels (s_db s)) c =? 0)) eqn:P; [discriminate|].
  apply negb_false_iff, N.eqb_eq in P.
  destruct (negb (c_next c <? length (l_levels (s_db s)))%nat) eqn:Q; [discriminate|].
  apply negb_false_iff, Nat.ltb_lt in Q.
  destruct (negb (compact_extra_check (l_levels (s_db s)) c =? 0)) eqn:X; [discriminate|].
  apply negb_false_iff, N.eqb_eq in X.
  destruct (negb (layout_ok _ _ _)) eqn:L; [discriminate|]. apply negb_false_iff in L.
  destruct (negb (order_ok _ _)) eqn:O; [discriminate|]. apply negb_false_iff in O.
  destruct (entries_eqb (compaction_output (l_levels (s_db s)) c) out); [|discriminate].
  match type of Hs with (if ?b then _ else _) = _ => destruct b eqn:Sb; [|discriminate] end.
  inversion Hs; subst s'. repeat split; auto.
  apply orb_true_iff in Sb. destruct Sb as [Sb|Sb]; [now left|right]. now apply Nat.leb_le in Sb.
Qed.

Lemma txn_commit_db2 s t x cts r ts s' :
  s_managed s = false -> txn_commit s t x cts = (r, ts, s') ->
  s_db s' = s_db s \/ s_db s' = apply_entries (s_db s) (commit_entries x (s_next s)).
Proof.
  intros Hm. unfold txn_commit. destruct (x_pend x); [intros [= <- <- <-]; auto|].
  destruct (x_done x); [intros [= <- <- <-]; auto|].
  destruct (s_detect s && has_conflict s x); intros [= <- <- <-]; auto. right. cbn [s_db]. now rewrite Hm.
Qed.

Lemma op_plain_unversioned o : op_plain o -> op_unversioned o.
Proof. destruct o; cbn; auto. Qed.

Theorem step_tree_preserves s o s' :
  SysInv s -> op_plain o -> step_tree s o = Ok s' -> SysInv s'.
Proof.
  intros [Hc HT] Ho H. pose proof (step_tree_step _ _ _ H) as Hs.
  split; [eapply step_preserves_c11; eauto; now apply op_plain_unversioned|].
  pose proof Hc as (Hm & Hb & Htx).
  destruct o; cbn [step] in Hs.
  - destruct (s_managed s || (rts =? s_next s - 1)); [|discriminate]. inversion Hs; subst. exact HT.
  - destruct (lookup (s_txns s) t); [|discriminate]. destruct (txn_modify t0 e) as [r' x'].
    destruct (r' =? r); [|discriminate]. inversion Hs; subst. exact HT.
  - destruct (lookup (s_txns s) t); [|discriminate]. destruct (txn_get s t0 k) as [r' x'].
    destruct (getres_eqb r' r); [|discriminate]. inversion Hs; subst. exact HT.
  - destruct (lookup (s_txns s) t); [|discriminate].
    destruct (entries_eqb (txn_iterate s t0 o seek) items); [|discriminate]. inversion Hs; subst. exact HT.
  - (* Commit *)
    destruct (lookup (s_txns s) t) as [x|] eqn:L; [|discriminate].
    destruct (txn_commit s t x cts) as [[r' ts] s1] eqn:C.
    destruct ((r' =? r) && (negb (r' =? 0) || (ts =? 0) || (ts =? cts))); [|discriminate]. inversion Hs; subst s1.
    destruct (txn_commit_db2 _ _ _ _ _ _ _ Hm C) as [E|E]; rewrite E; auto.
    apply (commit_preserves_tree (s_db s) _ (s_next s)); auto.
    + intros e He. eapply commit_entries_ver; eauto.
      eapply (lookup_Forall _ txn_unver); [|exact Htx|exact L]. auto.
  - destruct (lookup (s_txns s) t); [|discriminate]. inversion Hs; subst. exact HT.
  - (* Flush *)
    inversion Hs; subst s'. cbn [set_db s_db]. apply flush_preserves_tree; auto.
    intros Hmt Hin. unfold step_tree in H. destruct (l_mt (s_db s)); [congruence|].
    assert (E: existsb (N.eqb id) (all_ids (l_levels (s_db s))) = true).
    { apply existsb_exists. exists id. split; auto. apply N.eqb_refl. }
    rewrite E in H. discriminate.
  - (* Compact *)
    destruct (compact_checks _ _ _ _ H) as (P & Q & X & L & O & Sb & E). rewrite E.
    apply compact_preserves_tree; auto.
  - inversion Hs; subst. exact HT.
  - inversion Hs; subst. exact HT.
  - destruct (dump_eqb (l_levels (s_db s)) levels); [|discriminate]. inversion Hs; subst. exact HT.
  - destruct (max_version (s_db s) =? v); [|discriminate]. inversion Hs; subst. exact HT.
Qed.

(* ---- reads ---- *)
Lemma compaction_inputs_sorted ls c :
  levels_ok ls -> (c_next c = O -> c_bot c = []) -> Forall sorted (compaction_inputs ls c).
Proof.
  intros Hok Hb. unfold compaction_inputs. apply Forall_app. split.
  - assert (HT: Forall sorted (map t_ents (pick_tables (c_top c) (nth (c_this c) ls [])))).
    { apply Forall_forall. intros s Hs. apply in_map_iff in Hs. destruct Hs as (t & <- & Ht).
      unfold pick_tables in Ht. apply filter_In in Ht. destruct Ht as [Ht _].
      pose proof (lvl_ok_tbl _ _ (Hok (c_this c))) as HF. rewrite Forall_forall in HF. apply (HF _ Ht). }
    destruct (c_this c); auto. rewrite Forall_forall in *. intros s Hs. apply HT.
    apply in_map_iff in Hs. destruct Hs as (t & <- & Ht). apply in_map. now apply in_rev.
  - constructor; [|constructor]. destruct (c_next c) as [|n] eqn:En.
    + rewrite (Hb eq_refl). rewrite pick_tables_nil. constructor.
    + pose proof (Hok (S n)) as Hl. cbn [lvl_ok] in Hl.
      assert (Hs: subseq (filter (keep_table (c_drop c)) (pick_tables (c_bot c) (nth (S n) ls []))) (nth (S n) ls [])).
      { eapply subseq_trans; [apply subseq_filter|]. unfold pick_tables. apply subseq_filter. }
      destruct (level_ok_subseq _ _ Hs Hl) as (A & B & _). now apply level_concat_sorted.
Qed.

Lemma pick_wf_of ls c :
  pick_check ls c = 0 -> (c_next c < length ls)%nat -> InstallProofs.pick_wf ls c.
Proof.
  intros Hp Hn. destruct (pick_facts2 _ _ Hp) as (Etop & Ebot & _ & _).
  split; [now apply pick_this_lt|]. split; [exact Hn|]. split.
  - intros i Hi. rewrite <- Etop in Hi. unfold ids_of in Hi. apply in_map_iff in Hi. destruct Hi as (t & <- & Ht).
    apply in_top_of in Ht. apply in_map. tauto.
  - intros i Hi. rewrite <- Ebot in Hi. unfold ids_of in Hi. apply in_map_iff in Hi. destruct Hi as (t & <- & Ht).
    apply in_bot_of in Ht. apply in_map. tauto.
Qed.

(* C12, one compaction label: every Get at ts >= its discard timestamp is unchanged (also at
   any later wall-clock time), and the invariant is kept *)
Theorem compaction_step_preserves_reads s c out s' :
  SysInv s -> c_drop c = [] -> step_tree s (Compact c out) = Ok s' ->
  forall k ts now', c_discard c <= ts -> c_now c <= now' ->
  vis_of now' (db_get (s_db s') k ts) = vis_of now' (db_get (s_db s) k ts).
Proof.
  intros HI Hd H k ts now' Hts Hnow. pose proof HI as [Hc HT].
  assert (HI': SysInv s') by exact (step_tree_preserves s (Compact c out) s' HI Hd H).
  destruct (compact_checks _ _ _ _ H) as (P & Q & X & L & O & Sb & E).
  destruct HI' as [_ HT']. rewrite E in *.
  pose proof HT as (Himm & Hne & Hdb & Hnd & Hkv & HM & HL0).
  pose proof HT' as (_ & _ & Hdb' & _).
  destruct (layout_ok_facts _ _ _ L) as [Hfresh Hsum].
  apply InstallProofs.installed_compaction_preserves_get; auto.
  - now apply db_ok_lsm_wf.
  - now apply db_ok_lsm_wf.
  - now apply pick_wf_of.
  - destruct Hdb as (_ & _ & Hlv). apply compaction_inputs_sorted; auto. exact (pick_next0 _ c P).
  - intros e He _ Hov o Ho Ek. exact (R_holds (s_db s) c HT P Hd e He Hov o Ho Ek).
Qed.

Theorem flush_step_preserves_reads s id s' :
  SysInv s -> step_tree s (Flush id) = Ok s' ->
  forall k ts, db_get (s_db s') k ts = db_get (s_db s) k ts.
Proof.
  intros HI H k ts. assert (HI': SysInv s') by exact (step_tree_preserves s (Flush id) s' HI I H).
  pose proof (step_tree_step _ _ _ H) as Hs. cbn [step] in Hs. inversion Hs; subst s'. cbn [set_db s_db] in *.
  destruct HI as [_ (Himm & Hne & Hdb & Hnd & Hkv & _)]. destruct HI' as [_ (_ & _ & Hdb' & _)].
  apply C12Proofs.flush_preserves_get; auto; now apply db_ok_lsm_wf.
Qed.

(* ---- all histories ---- *)
Lemma nth_repeat_nil {A} i n : nth i (repeat (@nil A) n) [] = [].
Proof.
  destruct (nth_in_or_default i (repeat (@nil A) n) []) as [H|H]; auto. now apply repeat_spec in H.
Qed.

Lemma concat_repeat_nil {A} n : concat (repeat (@nil A) n) = [].
Proof. induction n; cbn; auto. Qed.

Lemma init_sys_inv detect nkeep nlevels next :
  (0 < nlevels)%nat -> SysInv (init_sys false detect nkeep nlevels next).
Proof.
  intros Hn. split; [apply init_c11|]. unfold init_sys, TreeInv. cbn [s_db l_mt l_imm l_levels].
  split; [reflexivity|]. split; [destruct nlevels; [lia|discriminate]|].
  split; [apply (init_db_ok false detect nkeep nlevels next)|].
  split; [unfold all_ids; rewrite concat_repeat_nil; constructor|].
  split.
  { intros a b Ha. apply C12Proofs.all_entries_in in Ha. cbn [l_mt l_imm l_levels] in Ha.
    destruct Ha as [[]|[(s0 & [] & _)|(l & t & Hl & Ht & _)]]. apply repeat_spec in Hl. subst l. destruct Ht. }
  split; [split|].
  - intros i a b [].
  - intros i j _ a b Ha. cbn [l_levels] in Ha. rewrite nth_repeat_nil in Ha. destruct Ha.
  - rewrite nth_repeat_nil. exists [], []. repeat split; auto; [constructor|intros a b []].
Qed.

Theorem exec_tree_inv ops s i :
  Forall op_plain ops -> SysInv s -> SysInv (snd (exec_tree s ops i)).
Proof.
  revert s i. induction ops as [|o ops IH]; intros s i HF HI; cbn [exec_tree snd]; auto.
  inversion HF; subst. destruct (step_tree s o) as [s1|code] eqn:S; cbn [snd]; auto.
  apply IH; auto. eapply step_tree_preserves; eauto.
Qed.

(* C12 over all histories: after any accepted prefix the invariant holds, and the next flush /
   compaction label preserves the reads *)
Theorem all_histories detect nkeep nlevels next pre o s' :
  (0 < nlevels)%nat -> Forall op_plain pre -> op_plain o ->
  let s := snd (exec_tree (init_sys false detect nkeep nlevels next) pre 0) in
  step_tree s o = Ok s' ->
  SysInv s /\ SysInv s' /\
  (forall id, o = Flush id -> forall k ts, db_get (s_db s') k ts = db_get (s_db s) k ts) /\
  (forall c out, o = Compact c out -> forall k ts now', c_discard c <= ts -> c_now c <= now' ->
     vis_of now' (db_get (s_db s') k ts) = vis_of now' (db_get (s_db s) k ts)).
Proof.
  cbn zeta. intros Hn Hpre Ho H.
  pose proof (exec_tree_inv pre _ 0 Hpre (init_sys_inv detect nkeep nlevels next Hn)) as HI.
  split; [exact HI|]. split; [eapply step_tree_preserves; eauto|]. split.
  - intros id ->. now apply (flush_step_preserves_reads _ id s' HI H).
  - intros c out ->. now apply (compaction_step_preserves_reads _ c out s' HI Ho H).
Qed.

(* the hypotheses are satisfiable: a history with a commit, a flush and an L0 -> L1 compaction *)
Definition ex_history : list op :=
  [Begin 0 true 0; Modify 0 (mkE [1] 0 0 0 0 [7]) 0; Commit 0 1 0; Flush 5;
   Compact (mkC 0 1 [5] [] 0 1 [] 0 [(6, 1)] [6]) [mkE [1] 1 0 0 0 [7]];
   Begin 1 true 1; Modify 1 (mkE [1] 0 1 0 0 []) 0; Commit 1 2 0; Flush 7;
   Compact (mkC 0 1 [7] [6] 2 1 [] 0 [] []) []].

Example ex_history_accepted :
  fst (exec_tree (init_sys false false 1 2 1) ex_history 0) = None /\ Forall op_plain ex_history.
Proof. split; [vm_compute; reflexivity|repeat constructor]. Qed.
