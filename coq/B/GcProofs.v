(* GcProofs.v — proofs about value placement and value-log GC (model: Gc.v).
   Part 1: meta bits, the value log only grows, dereferencing is stable while a file is not
   deleted, what a memtable Put does to every lookup. *)
From Verif Require Import Bytes BytesProofs Keys C20Proofs Consts Spec Lsm Compact Iter Sys
  LsmProofs CompactProofs GetProofs MergeProofs C12Proofs Gc.
From Coq Require Import ZifyN ZifyNat ZifyBool Sorting.Sorted.
Open Scope N_scope.

(* ------------------------------------------------------------------------------------ *)
(* meta bits *)

Lemma is_ptr_set m k v u x val : is_ptr (mkE k v (set_ptr_meta m) u x val) = true.
Proof.
  unfold is_ptr, has_bit, set_ptr_meta, c_bitValuePointer. cbn [e_meta].
  rewrite N.land_lor_distr_l. change (N.land 2 2) with 2.
  destruct (N.lor (N.land m 2) 2 =? 0) eqn:E; auto. apply N.eqb_eq in E.
  apply N.lor_eq_0_iff in E. destruct E as [_ E]. discriminate.
Qed.

Lemma is_ptr_clr m k v u x val : is_ptr (mkE k v (clr_ptr_meta m) u x val) = false.
Proof.
  unfold is_ptr, has_bit, clr_ptr_meta. cbn [e_meta]. now rewrite N.land_ldiff.
Qed.

Lemma clr_set m : clr_ptr_meta (set_ptr_meta m) = clr_ptr_meta m.
Proof.
  unfold clr_ptr_meta, set_ptr_meta. apply N.bits_inj. intros n.
  rewrite !N.ldiff_spec, N.lor_spec. destruct (N.testbit m n), (N.testbit c_bitValuePointer n); reflexivity.
Qed.

Lemma clr_clr m : clr_ptr_meta (clr_ptr_meta m) = clr_ptr_meta m.
Proof.
  unfold clr_ptr_meta. apply N.bits_inj. intros n.
  rewrite !N.ldiff_spec. destruct (N.testbit m n), (N.testbit c_bitValuePointer n); reflexivity.
Qed.

(* the delete bit is not the pointer bit *)
Lemma land_clr_1 m : N.land (clr_ptr_meta m) 1 = N.land m 1.
Proof.
  unfold clr_ptr_meta, c_bitValuePointer. apply N.bits_inj. intros n.
  rewrite !N.land_spec, N.ldiff_spec.
  destruct n as [|[p|p|]]; cbn; rewrite ?andb_false_r, ?andb_true_r; reflexivity.
Qed.

Lemma land_set_1 m : N.land (set_ptr_meta m) 1 = N.land m 1.
Proof.
  unfold set_ptr_meta, c_bitValuePointer. apply N.bits_inj. intros n.
  rewrite !N.land_spec, N.lor_spec.
  destruct n as [|[p|p|]]; cbn; rewrite ?andb_false_r, ?andb_true_r, ?orb_false_r; reflexivity.
Qed.

Lemma dead_clr e now val :
  deleted_or_expired (with_val e (clr_ptr_meta (e_meta e)) val) now = deleted_or_expired e now.
Proof.
  unfold deleted_or_expired, is_deleted, has_bit, with_val, c_bitDelete. cbn [e_meta e_exp].
  now rewrite land_clr_1.
Qed.

Lemma dead_set e now val :
  deleted_or_expired (with_val e (set_ptr_meta (e_meta e)) val) now = deleted_or_expired e now.
Proof.
  unfold deleted_or_expired, is_deleted, has_bit, with_val, c_bitDelete. cbn [e_meta e_exp].
  now rewrite land_set_1.
Qed.

(* deadness only depends on the cleared meta and the expiry *)
Lemma dead_by_clr a b now :
  clr_ptr_meta (e_meta a) = clr_ptr_meta (e_meta b) -> e_exp a = e_exp b ->
  deleted_or_expired a now = deleted_or_expired b now.
Proof.
  intros Hm Hx. unfold deleted_or_expired, is_deleted, has_bit, c_bitDelete.
  rewrite <- (land_clr_1 (e_meta a)), <- (land_clr_1 (e_meta b)), Hm, Hx. reflexivity.
Qed.

(* ------------------------------------------------------------------------------------ *)
(* the value log only grows *)

Lemma vfind_vset_same vl fid rs : vfind (vset vl fid rs) fid = Some rs.
Proof.
  induction vl as [|[f x] r IH]; cbn.
  - now rewrite N.eqb_refl.
  - destruct (f =? fid) eqn:E; cbn; [now rewrite N.eqb_refl|now rewrite E].
Qed.

Lemma vfind_vset_other vl fid rs g : g <> fid -> vfind (vset vl fid rs) g = vfind vl g.
Proof.
  intros Hne. induction vl as [|[f x] r IH]; cbn.
  - destruct (fid =? g) eqn:E; auto. apply N.eqb_eq in E. congruence.
  - destruct (f =? fid) eqn:E; cbn.
    + apply N.eqb_eq in E. subst f. destruct (fid =? g) eqn:E2; auto. apply N.eqb_eq in E2. congruence.
    + destruct (f =? g); auto.
Qed.

(* every file keeps its records; records are only appended *)
Definition ext (a b : vlog) : Prop :=
  forall fid rs, vfind a fid = Some rs -> exists more, vfind b fid = Some (rs ++ more).

Lemma ext_refl a : ext a a.
Proof. intros fid rs H. exists []. now rewrite app_nil_r. Qed.

Lemma ext_trans a b c : ext a b -> ext b c -> ext a c.
Proof.
  intros H1 H2 fid rs H. destruct (H1 _ _ H) as [m1 A]. destruct (H2 _ _ A) as [m2 B].
  exists (m1 ++ m2). now rewrite app_assoc.
Qed.

Lemma ext_vset_append vl fid more :
  ext vl (vset vl fid ((match vfind vl fid with Some r => r | None => [] end) ++ more)).
Proof.
  intros g rs' Hg. destruct (N.eq_dec g fid) as [->|Hne].
  - rewrite Hg. exists more. apply vfind_vset_same.
  - exists []. rewrite app_nil_r, vfind_vset_other by assumption. exact Hg.
Qed.

Lemma ext_vset_new vl fid : vfind vl fid = None -> ext vl (vset vl fid []).
Proof.
  intros Hn g rs Hg. destruct (N.eq_dec g fid) as [->|Hne]; [congruence|].
  exists []. rewrite app_nil_r, vfind_vset_other by assumption. exact Hg.
Qed.

Lemma place1_ext thr mf vl cnt out e vl' cnt' out' :
  place1 thr mf (vl, cnt, out) e = (vl', cnt', out') -> ext vl vl'.
Proof.
  unfold place1. destruct (to_vlog thr e).
  - intros [= <- _ _]. apply ext_vset_append.
  - intros [= <- _ _]. apply ext_refl.
Qed.

Lemma fold_place1_ext thr mf es vl cnt out vl' cnt' out' :
  fold_left (place1 thr mf) es (vl, cnt, out) = (vl', cnt', out') -> ext vl vl'.
Proof.
  revert vl cnt out. induction es as [|e es IH]; intros vl cnt out; cbn [fold_left].
  - intros [= <- _ _]. apply ext_refl.
  - destruct (place1 thr mf (vl, cnt, out) e) as [[vl1 cnt1] out1] eqn:P.
    intros H. eapply ext_trans; [eapply place1_ext; eauto|eapply IH; eauto].
Qed.

(* vset on a possibly existing file: only used for a fresh file id by write_req; in general
   the previous records of that file are replaced, so `ext` needs the file to be new or empty *)
Definition fresh_next (v : vstate) : Prop := vfind (v_files v) (v_max v + 1) = None.

Lemma vfind_place1_other thr mf vl cnt out e vl' cnt' out' g :
  place1 thr mf (vl, cnt, out) e = (vl', cnt', out') -> g <> mf -> vfind vl' g = vfind vl g.
Proof.
  unfold place1. destruct (to_vlog thr e); intros [= <- _ _] Hne; auto.
  now apply vfind_vset_other.
Qed.

Lemma vfind_fold_place1_other thr mf es vl cnt out vl' cnt' out' g :
  fold_left (place1 thr mf) es (vl, cnt, out) = (vl', cnt', out') -> g <> mf -> vfind vl' g = vfind vl g.
Proof.
  revert vl cnt out. induction es as [|e es IH]; intros vl cnt out; cbn [fold_left].
  - intros [= <- _ _] _. reflexivity.
  - destruct (place1 thr mf (vl, cnt, out) e) as [[vl1 cnt1] out1] eqn:P.
    intros H Hne. rewrite (IH _ _ _ H Hne). eapply vfind_place1_other; eauto.
Qed.

Lemma write_req_ext v es v' out :
  fresh_next v -> write_req v es = (v', out) -> ext (v_files v) (v_files v') /\ v_gone v' = v_gone v.
Proof.
  unfold write_req, fresh_next. intros Hf.
  destruct (fold_left (place1 (v_thr v) (v_max v)) es (v_files v, v_count v, [])) as [[vl cnt] o] eqn:F.
  pose proof (fold_place1_ext _ _ _ _ _ _ _ _ _ F) as He.
  destruct (v_maxent v <? cnt); intros [= <- _]; cbn [v_files v_gone]; split; auto.
  eapply ext_trans; [exact He|]. apply ext_vset_new.
  rewrite (vfind_fold_place1_other _ _ _ _ _ _ _ _ _ (v_max v + 1) F); [exact Hf|lia].
Qed.

(* ------------------------------------------------------------------------------------ *)
(* dereferencing is stable *)

Lemma nth_error_app_l {A} (l m : list A) n x : nth_error l n = Some x -> nth_error (l ++ m) n = Some x.
Proof.
  intros H. rewrite nth_error_app1; auto. apply nth_error_Some. congruence.
Qed.

Lemma read_ptr_stable v v' e r :
  ext (v_files v) (v_files v') -> v_gone v' = v_gone v ->
  read_ptr v e = Some r -> read_ptr v' e = Some r.
Proof.
  unfold read_ptr. intros He Hg. destruct (e_val e) as [|fid [|idx [|? ?]]]; try discriminate.
  rewrite Hg. destruct (gone (v_gone v) fid); [discriminate|].
  destruct (vfind (v_files v) fid) as [rs|] eqn:F; [|discriminate].
  destruct (He _ _ F) as [more ->]. apply nth_error_app_l.
Qed.

Lemma deref_stable v v' e x :
  ext (v_files v) (v_files v') -> v_gone v' = v_gone v ->
  deref v e = Some x -> deref v' e = Some x.
Proof.
  unfold deref. intros He Hg. destruct (is_ptr e); auto.
  destruct (read_ptr v e) as [r|] eqn:R; [|discriminate].
  now rewrite (read_ptr_stable _ _ _ _ He Hg R).
Qed.

(* the ghost view: the value log with no file deleted *)
Definition gv (v : vstate) : vstate := mkV (v_files v) [] (v_max v) (v_count v) (v_thr v) (v_maxent v).
Definition gderef (v : vstate) (e : entry) : option entry := deref (gv v) e.

Definition ptr_fid (e : entry) : option N :=
  if is_ptr e then match e_val e with [fid; _] => Some fid | _ => None end else None.

(* an entry whose file (if any) has not been deleted dereferences as in the ghost view *)
Definition file_live (v : vstate) (e : entry) : Prop :=
  forall fid, ptr_fid e = Some fid -> gone (v_gone v) fid = false.

Lemma deref_live v e : file_live v e -> deref v e = gderef v e.
Proof.
  unfold file_live, gderef, deref, ptr_fid, read_ptr, gv. cbn [v_files v_gone gone existsb].
  destruct (is_ptr e); auto. intros H.
  destruct (e_val e) as [|fid [|idx [|? ?]]]; auto.
  now rewrite (H fid eq_refl).
Qed.

Lemma gderef_stable v v' e x :
  ext (v_files v) (v_files v') -> gderef v e = Some x -> gderef v' e = Some x.
Proof. intros He. apply deref_stable; auto. Qed.

Lemma gderef_gone_irrelevant v fs e : gderef (remove_fids fs v) e = gderef v e.
Proof. reflexivity. Qed.

Lemma view_of_deref v e x : deref v e = Some x -> view v e = x.
Proof. unfold view. now intros ->. Qed.

(* deleting files that e does not point into does not change deref *)
Lemma deref_remove_other v fs e :
  (forall fid, ptr_fid e = Some fid -> ~ In fid fs) -> deref (remove_fids fs v) e = deref v e.
Proof.
  unfold deref, ptr_fid, read_ptr, remove_fids. cbn [v_files v_gone].
  destruct (is_ptr e); auto. intros H.
  destruct (e_val e) as [|fid [|idx [|? ?]]]; auto.
  assert (G: gone (fs ++ v_gone v) fid = gone (v_gone v) fid).
  { unfold gone. rewrite existsb_app.
    destruct (existsb (N.eqb fid) fs) eqn:E; auto.
    apply existsb_exists in E. destruct E as (y & Hy & Ey). apply N.eqb_eq in Ey. subst y.
    exfalso. apply (H fid eq_refl Hy). }
  now rewrite G.
Qed.

(* ------------------------------------------------------------------------------------ *)
(* a memtable Put and the lookups *)

Lemma newest_cons a U k ts :
  newest (a :: U) k ts = better (if cand k ts a then Some a else None) (newest U k ts).
Proof.
  change (a :: U) with ([a] ++ U). rewrite newest_app. unfold newest at 1. cbn [filter].
  destruct (cand k ts a); reflexivity.
Qed.

Definition le_ver (o : option entry) (e : entry) : bool :=
  match o with None => true | Some x => e_ver x <=? e_ver e end.

Lemma cand_same_kv a b k ts : e_key a = e_key b -> e_ver a = e_ver b -> cand k ts a = cand k ts b.
Proof. unfold cand. now intros -> ->. Qed.

Lemma ent_cmp_gt_ver e x k ts :
  ent_cmp e x = Gt -> cand k ts x = true -> cand k ts e = true -> e_ver e < e_ver x.
Proof.
  intros Hc Hx He. apply ent_cmp_gt_lt in Hc. apply lt_ent_same_key in Hc; auto.
  unfold cand in *. apply andb_true_iff in Hx, He. destruct Hx as [Hx _], He as [He _].
  apply bytes_eqb_eq in Hx, He. congruence.
Qed.

Lemma newest_mt_put mt e R k ts :
  newest (mt_put mt e ++ R) k ts =
  if cand k ts e && le_ver (newest (mt ++ R) k ts) e then Some e else newest (mt ++ R) k ts.
Proof.
  induction mt as [|x r IH]; cbn [mt_put app].
  - rewrite newest_cons. destruct (cand k ts e); cbn [andb]; [|now rewrite better_none_l].
    destruct (newest R k ts) as [o|]; cbn; auto.
    destruct (e_ver e <? e_ver o) eqn:E1; destruct (e_ver o <=? e_ver e) eqn:E2; auto; lia.
  - destruct (ent_cmp e x) eqn:C; cbn [app].
    + (* e overwrites x *)
      apply ent_cmp_eq in C. destruct C as [Ck Cv].
      rewrite !newest_cons, (cand_same_kv x e k ts) by congruence.
      destruct (cand k ts e); cbn [andb]; [|reflexivity].
      destruct (newest (r ++ R) k ts) as [o|]; cbn [better le_ver].
      * destruct (e_ver e <? e_ver o) eqn:E1; destruct (e_ver x <? e_ver o) eqn:E3; try lia; cbn [le_ver].
        -- destruct (e_ver o <=? e_ver e) eqn:E2; auto; lia.
        -- destruct (e_ver x <=? e_ver e) eqn:E2; auto; lia.
      * destruct (e_ver x <=? e_ver e) eqn:E2; auto; lia.
    + (* e goes in front *)
      rewrite newest_cons. set (o := newest (x :: r ++ R) k ts).
      destruct (cand k ts e); cbn [andb]; [|now rewrite better_none_l].
      destruct o as [o|]; cbn; auto.
      destruct (e_ver e <? e_ver o) eqn:E1; destruct (e_ver o <=? e_ver e) eqn:E2; auto; lia.
    + (* x stays in front *)
      rewrite !newest_cons, IH. set (o := newest (r ++ R) k ts).
      destruct (cand k ts x) eqn:Cx; [|now rewrite !better_none_l].
      destruct (cand k ts e) eqn:Ce; cbn [andb]; [|reflexivity].
      pose proof (ent_cmp_gt_ver _ _ _ _ C Cx Ce) as Hlt.
      destruct o as [o|]; cbn [le_ver better].
      * destruct (e_ver o <=? e_ver e) eqn:E2; cbn [better].
        -- assert (E3: (e_ver x <? e_ver e) = false) by lia. rewrite E3.
           assert (E4: (e_ver x <? e_ver o) = false) by lia. rewrite E4. cbn [le_ver].
           assert (E5: (e_ver x <=? e_ver e) = false) by lia. now rewrite E5.
        -- destruct (e_ver x <? e_ver o) eqn:E4; cbn [le_ver].
           ++ now rewrite E2.
           ++ assert (E5: (e_ver x <=? e_ver e) = false) by lia. now rewrite E5.
      * assert (E3: (e_ver x <? e_ver e) = false) by lia. rewrite E3.
        assert (E5: (e_ver x <=? e_ver e) = false) by lia. now rewrite E5.
Qed.

(* a Put keeps a memtable sorted *)
Lemma lt_ent_of_cmp a b : ent_cmp a b = Lt -> lt_ent a b.
Proof. auto. Qed.

Lemma mt_put_in s e x : In x (mt_put s e) -> x = e \/ In x s.
Proof.
  induction s as [|y r IH]; cbn; [intros [->|[]]; auto|].
  destruct (ent_cmp e y).
  - intros [->|H]; [now left|right; now right].
  - intros [->|H]; [now left|now right].
  - intros [->|H]; [right; now left|]. destruct (IH H); [now left|right; now right].
Qed.

Lemma lt_ent_eq_l a b c : ent_cmp a b = Eq -> lt_ent b c -> lt_ent a c.
Proof.
  intros E H. apply ent_cmp_eq in E. destruct E as [Ek Ev].
  unfold lt_ent, ent_cmp in *. now rewrite Ek, Ev.
Qed.

Lemma mt_put_sorted s e : sorted s -> sorted (mt_put s e).
Proof.
  induction s as [|y r IH]; intros Hs; cbn.
  - repeat constructor.
  - assert (Hr: sorted r) by now inversion Hs.
    assert (Hall: forall z, In z r -> lt_ent y z) by (intros z Hz; eapply sorted_cons_lt; eauto).
    destruct (ent_cmp e y) eqn:C.
    + constructor; [exact Hr|]. apply Forall_forall. intros z Hz. eapply lt_ent_eq_l; eauto.
    + constructor; [exact Hs|]. apply Forall_forall. intros z [<-|Hz]; [exact C|].
      eapply lt_ent_trans; [exact C|auto].
    + constructor; [now apply IH|]. apply Forall_forall. intros z Hz.
      destruct (mt_put_in _ _ _ Hz) as [->|Hz']; [now apply ent_cmp_gt_lt|auto].
Qed.

(* ------------------------------------------------------------------------------------ *)
(* several Puts: apply_entries *)

Definition win1 (k : bytes) (ts : N) (o : option entry) (e : entry) : option entry :=
  if cand k ts e && le_ver o e then Some e else o.

Definition rest_entries (d : lsm) : list entry := concat (rev (l_imm d) ++ levels_srcs 0 (l_levels d)).

Lemma all_entries_split d : all_entries d = l_mt d ++ rest_entries d.
Proof. reflexivity. Qed.

Lemma rest_entries_apply d es : rest_entries (apply_entries d es) = rest_entries d.
Proof. reflexivity. Qed.

Lemma newest_puts es : forall mt R k ts,
  newest (fold_left mt_put es mt ++ R) k ts = fold_left (win1 k ts) es (newest (mt ++ R) k ts).
Proof.
  induction es as [|e es IH]; intros mt R k ts; cbn [fold_left]; auto.
  rewrite IH, newest_mt_put. reflexivity.
Qed.

Lemma fold_mt_put_sorted es : forall mt, sorted mt -> sorted (fold_left mt_put es mt).
Proof. induction es as [|e es IH]; intros mt H; cbn; auto. apply IH. now apply mt_put_sorted. Qed.

Lemma apply_entries_wf d es : lsm_wf d -> lsm_wf (apply_entries d es).
Proof.
  intros (A & B & C). unfold apply_entries, lsm_wf. cbn [l_mt l_imm l_levels].
  split; [now apply fold_mt_put_sorted|]. split; assumption.
Qed.

Lemma db_get_puts d es k ts : lsm_wf d ->
  db_get (apply_entries d es) k ts = fold_left (win1 k ts) es (db_get d k ts).
Proof.
  intros Hwf. rewrite !db_get_newest by (auto using apply_entries_wf).
  rewrite !all_entries_split, rest_entries_apply. unfold apply_entries. cbn [l_mt].
  apply newest_puts.
Qed.

(* who can win after the Puts *)
Lemma fold_win1_result k ts es : forall o0 x,
  fold_left (win1 k ts) es o0 = Some x ->
  (In x es /\ cand k ts x = true /\ le_ver o0 x = true)
  \/ (o0 = Some x /\ forall e, In e es -> cand k ts e = true -> e_ver e < e_ver x).
Proof.
  induction es as [|e es IH]; intros o0 x; cbn [fold_left].
  - intros ->. right. split; auto. intros e [].
  - intros H. destruct (IH _ _ H) as [(A & B & C)|[A B]].
    + left. split; [now right|]. split; auto.
      unfold win1 in C. destruct (cand k ts e && le_ver o0 e) eqn:W; auto.
      apply andb_true_iff in W. destruct W as [_ W]. cbn [le_ver] in C.
      destruct o0 as [o|]; cbn [le_ver] in *; auto. lia.
    + unfold win1 in A. destruct (cand k ts e && le_ver o0 e) eqn:W.
      * inversion A; subst x. apply andb_true_iff in W. left. split; [now left|]. tauto.
      * right. split; auto. intros e' [<-|He'] Hc; auto.
        rewrite Hc in W. cbn [andb] in W. subst o0. cbn [le_ver] in W. lia.
Qed.

Lemma fold_win1_some k ts es : forall o, exists x, fold_left (win1 k ts) es (Some o) = Some x /\ e_ver o <= e_ver x.
Proof.
  induction es as [|e es IH]; intros o; cbn [fold_left].
  - exists o. split; auto. lia.
  - unfold win1 at 2. destruct (cand k ts e && le_ver (Some o) e) eqn:W.
    + destruct (IH e) as (x & A & B). exists x. split; auto.
      apply andb_true_iff in W. destruct W as [_ W]. cbn [le_ver] in W. lia.
    + apply IH.
Qed.

Lemma fold_win1_none k ts es :
  (forall e, In e es -> cand k ts e = false) -> forall o, fold_left (win1 k ts) es o = o.
Proof.
  induction es as [|e es IH]; intros H o; cbn [fold_left]; auto.
  unfold win1 at 2. rewrite (H e (or_introl eq_refl)). cbn [andb]. apply IH.
  intros e' He'. apply H. now right.
Qed.

(* ------------------------------------------------------------------------------------ *)
(* flush does not even reorder the entries *)

Lemma levels_srcs_add_l0 ls t :
  concat (levels_srcs 0 (add_l0 ls t)) = t_ents t ++ concat (levels_srcs 0 ls).
Proof.
  destruct ls as [|l0 rest]; cbn [add_l0 levels_srcs level_src].
  - cbn. now rewrite !app_nil_r.
  - rewrite rev_app_distr. cbn [rev app map concat]. reflexivity.
Qed.

Lemma flush_all_entries d id : all_entries (flush_oldest (rotate d) id) = all_entries d.
Proof.
  unfold all_entries, all_srcs, rotate, flush_oldest. cbn [l_mt l_imm l_levels].
  destruct (l_imm d) as [|m r]; cbn [app].
  - (* the memtable itself is flushed *)
    destruct (l_mt d) as [|e0 mt']; cbn [l_mt l_imm l_levels rev app concat]; auto.
    rewrite levels_srcs_add_l0. reflexivity.
  - destruct m as [|e0 m']; cbn [l_mt l_imm l_levels rev app concat].
    + rewrite rev_app_distr. cbn [rev app concat]. rewrite <- !app_assoc, !concat_app. cbn [concat app].
      reflexivity.
    + rewrite rev_app_distr. cbn [rev app concat]. rewrite !concat_app.
      rewrite levels_srcs_add_l0. cbn [concat app t_ents].
      now rewrite app_nil_r, <- !app_assoc.
Qed.

Lemma flush_db_get d id k ts :
  lsm_wf d -> lsm_wf (flush_oldest (rotate d) id) ->
  db_get (flush_oldest (rotate d) id) k ts = db_get d k ts.
Proof. intros A B. rewrite !db_get_newest by assumption. now rewrite flush_all_entries. Qed.

(* ------------------------------------------------------------------------------------ *)
(* placement: what write_req hands to the memtable *)

(* reading a record, ignoring deletions *)
Definition fread (vl : vlog) (e : entry) : option entry :=
  match e_val e with
  | [fid; idx] => match vfind vl fid with Some rs => nth_error rs (N.to_nat idx) | None => None end
  | _ => None
  end.

Lemma read_ptr_gv v e : read_ptr (gv v) e = fread (v_files v) e.
Proof. unfold read_ptr, fread, gv. cbn [v_files v_gone gone existsb]. reflexivity. Qed.

Lemma fread_stable vl vl' e r : ext vl vl' -> fread vl e = Some r -> fread vl' e = Some r.
Proof.
  unfold fread. intros He. destruct (e_val e) as [|fid [|idx [|? ?]]]; try discriminate.
  destruct (vfind vl fid) as [rs|] eqn:F; [|discriminate].
  destruct (He _ _ F) as [more ->]. apply nth_error_app_l.
Qed.

Definition norm (r : entry) : entry := with_val r (clr_ptr_meta (e_meta r)) (e_val r).

Definition rec_matches (e r : entry) : Prop :=
  e_key r = e_key e /\ e_ver r = e_ver e /\ e_umeta r = e_umeta e /\ e_exp r = e_exp e
  /\ clr_ptr_meta (e_meta r) = clr_ptr_meta (e_meta e).

Lemma norm_norm r : norm (norm r) = norm r.
Proof. unfold norm, with_val. cbn. now rewrite clr_clr. Qed.

Lemma gderef_of_rec v e r :
  is_ptr e = true -> fread (v_files v) e = Some r -> rec_matches e r -> gderef v e = Some (norm r).
Proof.
  intros Hp Hr (A & B & C & D & E). unfold gderef, deref. rewrite Hp, read_ptr_gv, Hr.
  unfold norm, with_val. now rewrite A, B, C, D, E.
Qed.

Lemma gderef_inline v e : is_ptr e = false -> gderef v e = Some e.
Proof. unfold gderef, deref. now intros ->. Qed.

Definition placed (vl : vlog) (mf : N) (e pe : entry) : Prop :=
  e_key pe = e_key e /\ e_ver pe = e_ver e /\
  clr_ptr_meta (e_meta pe) = clr_ptr_meta (e_meta e) /\ e_exp pe = e_exp e /\
  ((is_ptr pe = false /\ pe = norm e) \/
   (is_ptr pe = true /\ exists idx, e_val pe = [mf; idx] /\ fread vl pe = Some (norm e)
                                   /\ rec_matches pe (norm e))).

Lemma placed_ext vl vl' mf e pe : ext vl vl' -> placed vl mf e pe -> placed vl' mf e pe.
Proof.
  intros He (A & B & C & D & [E|(E & idx & F & G & H)]); repeat split; auto.
  right. split; auto. exists idx. split; auto. split; auto. eapply fread_stable; eauto.
Qed.

Lemma placed_gderef v mf e pe : placed (v_files v) mf e pe -> gderef v pe = Some (norm e).
Proof.
  intros (A & B & C & D & [[E ->]|(E & idx & F & G & H)]).
  - now apply gderef_inline.
  - rewrite (gderef_of_rec _ _ _ E G H). now rewrite norm_norm.
Qed.

Lemma place1_placed thr mf vl cnt out e vl' cnt' out' :
  place1 thr mf (vl, cnt, out) e = (vl', cnt', out') ->
  exists pe, out' = out ++ [pe] /\ placed vl' mf e pe.
Proof.
  unfold place1. destruct (to_vlog thr e).
  - intros [= <- _ <-]. eexists. split; [reflexivity|].
    unfold placed, with_val. cbn [e_key e_ver e_meta e_exp e_val].
    repeat split; auto; [apply clr_set|]. right. split; [apply is_ptr_set|].
    eexists. split; [reflexivity|]. split.
    + unfold fread. cbn [e_val]. rewrite vfind_vset_same, Nat2N.id.
      rewrite nth_error_app2 by lia. rewrite Nat.sub_diag. reflexivity.
    + unfold rec_matches, norm, with_val. cbn. repeat split; auto. now rewrite clr_clr, clr_set.
  - intros [= <- _ <-]. eexists. split; [reflexivity|].
    unfold placed, with_val. cbn [e_key e_ver e_meta e_exp e_val].
    repeat split; auto; [apply clr_clr|]. left. split; [apply is_ptr_clr|reflexivity].
Qed.

Lemma fold_place1_placed thr mf es : forall vl cnt out vl' cnt' out',
  fold_left (place1 thr mf) es (vl, cnt, out) = (vl', cnt', out') ->
  exists pes, out' = out ++ pes /\ Forall2 (placed vl' mf) es pes.
Proof.
  induction es as [|e es IH]; intros vl cnt out vl' cnt' out'; cbn [fold_left].
  - intros [= <- _ <-]. exists []. rewrite app_nil_r. split; auto.
  - destruct (place1 thr mf (vl, cnt, out) e) as [[vl1 cnt1] out1] eqn:P. intros H.
    destruct (place1_placed _ _ _ _ _ _ _ _ _ P) as (pe & -> & Hpe).
    destruct (IH _ _ _ _ _ _ H) as (pes & -> & Hpes).
    exists (pe :: pes). rewrite <- app_assoc. split; auto. constructor; auto.
    eapply placed_ext; [|exact Hpe]. eapply fold_place1_ext; eauto.
Qed.

Lemma Forall2_mono {A B} (P Q : A -> B -> Prop) l m :
  (forall a b, P a b -> Q a b) -> Forall2 P l m -> Forall2 Q l m.
Proof. intros H F. induction F; constructor; auto. Qed.

Lemma write_req_placed v es v' pes :
  fresh_next v -> write_req v es = (v', pes) ->
  Forall2 (placed (v_files v') (v_max v)) es pes.
Proof.
  unfold write_req, fresh_next. intros Hf.
  destruct (fold_left (place1 (v_thr v) (v_max v)) es (v_files v, v_count v, [])) as [[vl cnt] o] eqn:F.
  destruct (fold_place1_placed _ _ _ _ _ _ _ _ _ F) as (ps & -> & Hps). cbn [app].
  destruct (v_maxent v <? cnt); intros [= <- <-]; cbn [v_files]; auto.
  eapply Forall2_mono; [|exact Hps]. intros a b. apply placed_ext. apply ext_vset_new.
  rewrite (vfind_fold_place1_other _ _ _ _ _ _ _ _ _ (v_max v + 1) F); [exact Hf|lia].
Qed.

Lemma write_req_max v es v' pes :
  write_req v es = (v', pes) -> v_max v <= v_max v' /\ v_max v' <= v_max v + 1
  /\ (forall f rs, vfind (v_files v') f = Some rs -> f <= v_max v' \/ exists rs0, vfind (v_files v) f = Some rs0).
Proof.
  unfold write_req.
  destruct (fold_left (place1 (v_thr v) (v_max v)) es (v_files v, v_count v, [])) as [[vl cnt] o] eqn:F.
  assert (Hv: forall f rs, vfind vl f = Some rs -> f = v_max v \/ exists rs0, vfind (v_files v) f = Some rs0).
  { intros f rs Hf. destruct (N.eq_dec f (v_max v)) as [->|Hne]; auto. right.
    rewrite (vfind_fold_place1_other _ _ _ _ _ _ _ _ _ f F Hne) in Hf. eauto. }
  destruct (v_maxent v <? cnt); intros [= <- _]; cbn [v_max v_files]; repeat split; try lia.
  - intros f rs Hf. destruct (N.eq_dec f (v_max v + 1)) as [->|Hne]; [left; lia|].
    rewrite vfind_vset_other in Hf by assumption. destruct (Hv _ _ Hf) as [->|H]; [left; lia|auto].
  - intros f rs Hf. destruct (Hv _ _ Hf) as [->|H]; [left; lia|auto].
Qed.

(* ------------------------------------------------------------------------------------ *)
(* facts about lookups *)

Lemma cand_spec k ts e : cand k ts e = true <-> e_key e = k /\ e_ver e <= ts.
Proof. unfold cand. rewrite andb_true_iff, bytes_eqb_eq, N.leb_le. tauto. Qed.

Lemma db_get_some d k ts e : lsm_wf d -> db_get d k ts = Some e ->
  In e (all_entries d) /\ e_key e = k /\ e_ver e <= ts /\
  (forall x, In x (all_entries d) -> e_key x = k -> e_ver x <= ts -> e_ver x <= e_ver e).
Proof. intros Hwf H. rewrite db_get_newest in H by assumption. now apply newest_some. Qed.

Lemma db_get_exists d k ts x : lsm_wf d -> In x (all_entries d) -> e_key x = k -> e_ver x <= ts ->
  exists e, db_get d k ts = Some e /\ e_ver x <= e_ver e.
Proof.
  intros Hwf Hin Hk Hv. destruct (db_get d k ts) as [e|] eqn:E.
  - exists e. split; auto. apply (db_get_some _ _ _ _ Hwf) in E. destruct E as (_ & _ & _ & Hmax). auto.
  - exfalso. rewrite db_get_newest in E by assumption. eapply newest_none; eauto.
Qed.

Lemma newest_ver_le U k ts e : newest U k ts = Some e -> e_ver e <= ts /\ e_key e = k.
Proof. intros H. apply newest_some in H. tauto. Qed.

(* the winner of a lookup also wins the lookup at its own version *)
Lemma newest_own_version U k : forall ts e, newest U k ts = Some e -> newest U k (e_ver e) = Some e.
Proof.
  induction U as [|a U IH]; intros ts e; [discriminate|].
  rewrite !newest_cons. intros H.
  pose proof H as H0. rewrite <- newest_cons in H0. apply newest_ver_le in H0. destruct H0 as [Hle Hk].
  destruct (cand k ts a) eqn:Ca.
  - apply cand_spec in Ca. destruct Ca as [Cak Cav].
    destruct (newest U k ts) as [y|] eqn:N; cbn [better] in H.
    + destruct (e_ver a <? e_ver y) eqn:L; inversion H; subst e.
      * assert (C2: cand k (e_ver y) a = true) by (apply cand_spec; split; auto; lia).
        rewrite C2, (IH _ _ N). cbn [better]. now rewrite L.
      * assert (C2: cand k (e_ver a) a = true) by (apply cand_spec; split; auto; lia).
        rewrite C2. destruct (newest U k (e_ver a)) as [z|] eqn:N2; cbn [better]; auto.
        apply newest_ver_le in N2. destruct N2 as [N2 _].
        assert (E: (e_ver a <? e_ver z) = false) by lia. now rewrite E.
    + inversion H; subst e.
      assert (C2: cand k (e_ver a) a = true) by (apply cand_spec; split; auto; lia).
      rewrite C2. destruct (newest U k (e_ver a)) as [z|] eqn:N2; cbn [better]; auto.
      apply newest_ver_le in N2. destruct N2 as [N2 _].
      assert (E: (e_ver a <? e_ver z) = false) by lia. now rewrite E.
  - rewrite better_none_l in H.
    assert (C2: cand k (e_ver e) a = false).
    { destruct (cand k (e_ver e) a) eqn:C; auto. apply cand_spec in C. destruct C as [C1 C2].
      assert (C3: cand k ts a = true) by (apply cand_spec; split; auto; lia). congruence. }
    rewrite C2, better_none_l. eapply IH; eauto.
Qed.

Lemma db_get_own_version d k ts e : lsm_wf d -> db_get d k ts = Some e -> db_get d k (e_ver e) = Some e.
Proof. intros Hwf. rewrite !db_get_newest by assumption. apply newest_own_version. Qed.

Lemma fold_mt_put_in es : forall mt x, In x (fold_left mt_put es mt) -> In x es \/ In x mt.
Proof.
  induction es as [|e es IH]; intros mt x H; cbn [fold_left] in H; auto.
  destruct (IH _ _ H) as [A|A]; [left; now right|].
  destruct (mt_put_in _ _ _ A) as [->|B]; [left; now left|auto].
Qed.

Lemma apply_entries_in d es x :
  In x (all_entries (apply_entries d es)) -> In x es \/ In x (all_entries d).
Proof.
  rewrite !all_entries_split, rest_entries_apply. unfold apply_entries. cbn [l_mt].
  rewrite !in_app_iff. intros [H|H]; [|auto].
  destruct (fold_mt_put_in _ _ _ H); auto.
Qed.

(* ------------------------------------------------------------------------------------ *)
(* the scan *)

Lemma gc_scan_in d now fid rs : forall i0 idx w,
  In (idx, w) (gc_scan d now fid i0 rs) ->
  exists r, i0 <= idx /\ nth_error rs (N.to_nat (idx - i0)) = Some r /\ w = norm r
            /\ gc_keep d now fid idx r = true.
Proof.
  induction rs as [|r rs IH]; intros i0 idx w; cbn [gc_scan]; [contradiction|].
  destruct (gc_keep d now fid i0 r) eqn:K.
  - intros [[= <- <-]|H].
    + exists r. rewrite N.sub_diag. cbn. repeat split; auto. lia.
    + destruct (IH _ _ _ H) as (r' & A & B & C & D). exists r'. repeat split; auto; try lia.
      replace (N.to_nat (idx - i0)) with (S (N.to_nat (idx - (i0 + 1)))) by lia. exact B.
  - intros H. destruct (IH _ _ _ H) as (r' & A & B & C & D). exists r'. repeat split; auto; try lia.
    replace (N.to_nat (idx - i0)) with (S (N.to_nat (idx - (i0 + 1)))) by lia. exact B.
Qed.

Lemma gc_scan_complete d now fid rs : forall i0 j r,
  nth_error rs j = Some r -> gc_keep d now fid (i0 + N.of_nat j) r = true ->
  In (i0 + N.of_nat j, norm r) (gc_scan d now fid i0 rs).
Proof.
  induction rs as [|r0 rs IH]; intros i0 j r; [destruct j; discriminate|].
  destruct j as [|j]; cbn [nth_error gc_scan].
  - intros [= ->]. replace (i0 + N.of_nat 0) with i0 by lia. intros ->. now left.
  - intros Hn Hk. replace (i0 + N.of_nat (S j)) with ((i0 + 1) + N.of_nat j) in * by lia.
    destruct (gc_keep d now fid i0 r0); [right|]; now apply IH.
Qed.
