(* GcProofs.v — proofs about value placement and value-log GC (model: Gc.v).
   Part 1: meta bits, the value log only grows, dereferencing is stable while a file is not
   deleted, what a memtable Put does to every lookup. *)
From Verif Require Import Bytes BytesProofs Keys C20Proofs Consts Spec Lsm Compact Iter Sys
  LsmProofs CompactProofs GetProofs MergeProofs C12Proofs Gc.
From Coq Require Import ZifyN ZifyNat ZifyBool Sorting.Sorted.
Open Scope N_scope.

(* ------------------------------------------------------------------------------------ *)
(* meta bits *)

Lemma is_ptr_set m k v u x val : is_ptr (mkE k v (set_ptr_meta m) u x val) = true.
Proof.
  unfold is_ptr, has_bit, set_ptr_meta, c_bitValuePointer. cbn [e_meta].
  rewrite N.land_lor_distr_l. change (N.land 2 2) with 2.
  destruct (N.lor (N.land m 2) 2 =? 0) eqn:E; auto. apply N.eqb_eq in E.
  apply N.lor_eq_0_iff in E. destruct E as [_ E]. discriminate.
Qed.

Lemma is_ptr_clr m k v u x val : is_ptr (mkE k v (clr_ptr_meta m) u x val) = false.
Proof.
  unfold is_ptr, has_bit, clr_ptr_meta. cbn [e_meta]. now rewrite N.land_ldiff.
Qed.

Lemma clr_set m : clr_ptr_meta (set_ptr_meta m) = clr_ptr_meta m.
Proof.
  unfold clr_ptr_meta, set_ptr_meta. apply N.bits_inj. intros n.
  rewrite !N.ldiff_spec, N.lor_spec. destruct (N.testbit m n), (N.testbit c_bitValuePointer n); reflexivity.
Qed.

Lemma clr_clr m : clr_ptr_meta (clr_ptr_meta m) = clr_ptr_meta m.
Proof.
  unfold clr_ptr_meta. apply N.bits_inj. intros n.
  rewrite !N.ldiff_spec. destruct (N.testbit m n), (N.testbit c_bitValuePointer n); reflexivity.
Qed.

(* the delete bit is not the pointer bit *)
Lemma land_clr_1 m : N.land (clr_ptr_meta m) 1 = N.land m 1.
Proof.
  unfold clr_ptr_meta, c_bitValuePointer. apply N.bits_inj. intros n.
  rewrite !N.land_spec, N.ldiff_spec.
  destruct n as [|[p|p|]]; cbn; rewrite ?andb_false_r, ?andb_true_r; reflexivity.
Qed.

Lemma land_set_1 m : N.land (set_ptr_meta m) 1 = N.land m 1.
Proof.
  unfold set_ptr_meta, c_bitValuePointer. apply N.bits_inj. intros n.
  rewrite !N.land_spec, N.lor_spec.
  destruct n as [|[p|p|]]; cbn; rewrite ?andb_false_r, ?andb_true_r, ?orb_false_r; reflexivity.
Qed.

Lemma dead_clr e now val :
  deleted_or_expired (with_val e (clr_ptr_meta (e_meta e)) val) now = deleted_or_expired e now.
Proof.
  unfold deleted_or_expired, is_deleted, has_bit, with_val, c_bitDelete. cbn [e_meta e_exp].
  now rewrite land_clr_1.
Qed.

Lemma dead_set e now val :
  deleted_or_expired (with_val e (set_ptr_meta (e_meta e)) val) now = deleted_or_expired e now.
Proof.
  unfold deleted_or_expired, is_deleted, has_bit, with_val, c_bitDelete. cbn [e_meta e_exp].
  now rewrite land_set_1.
Qed.

(* deadness only depends on the cleared meta and the expiry *)
Lemma dead_by_clr a b now :
  clr_ptr_meta (e_meta a) = clr_ptr_meta (e_meta b) -> e_exp a = e_exp b ->
  deleted_or_expired a now = deleted_or_expired b now.
Proof.
  intros Hm Hx. unfold deleted_or_expired, is_deleted, has_bit, c_bitDelete.
  rewrite <- (land_clr_1 (e_meta a)), <- (land_clr_1 (e_meta b)), Hm, Hx. reflexivity.
Qed.

(* ------------------------------------------------------------------------------------ *)
(* the value log only grows *)

Lemma vfind_vset_same vl fid rs : vfind (vset vl fid rs) fid = Some rs.
Proof.
  induction vl as [|[f x] r IH]; cbn.
  - now rewrite N.eqb_refl.
  - destruct (f =? fid) eqn:E; cbn; [now rewrite N.eqb_refl|now rewrite E].
Qed.

Lemma vfind_vset_other vl fid rs g : g <> fid -> vfind (vset vl fid rs) g = vfind vl g.
Proof.
  intros Hne. induction vl as [|[f x] r IH]; cbn.
  - destruct (fid =? g) eqn:E; auto. apply N.eqb_eq in E. congruence.
  - destruct (f =? fid) eqn:E; cbn.
    + apply N.eqb_eq in E. subst f. destruct (fid =? g) eqn:E2; auto. apply N.eqb_eq in E2. congruence.
    + destruct (f =? g); auto.
Qed.

(* every file keeps its records; records are only appended *)
Definition ext (a b : vlog) : Prop :=
  forall fid rs, vfind a fid = Some rs -> exists more, vfind b fid = Some (rs ++ more).

Lemma ext_refl a : ext a a.
Proof. intros fid rs H. exists []. now rewrite app_nil_r. Qed.

Lemma ext_trans a b c : ext a b -> ext b c -> ext a c.
Proof.
  intros H1 H2 fid rs H. destruct (H1 _ _ H) as [m1 A]. destruct (H2 _ _ A) as [m2 B].
  exists (m1 ++ m2). now rewrite app_assoc.
Qed.

Lemma ext_vset_append vl fid more :
  ext vl (vset vl fid ((match vfind vl fid with Some r => r | None => [] end) ++ more)).
Proof.
  intros g rs' Hg. destruct (N.eq_dec g fid) as [->|Hne].
  - rewrite Hg. exists more. apply vfind_vset_same.
  - exists []. rewrite app_nil_r, vfind_vset_other by assumption. exact Hg.
Qed.

Lemma ext_vset_new vl fid : vfind vl fid = None -> ext vl (vset vl fid []).
Proof.
  intros Hn g rs Hg. destruct (N.eq_dec g fid) as [->|Hne]; [congruence|].
  exists []. rewrite app_nil_r, vfind_vset_other by assumption. exact Hg.
Qed.

Lemma place1_ext thr mf vl cnt out e vl' cnt' out' :
  place1 thr mf (vl, cnt, out) e = (vl', cnt', out') -> ext vl vl'.
Proof.
  unfold place1. destruct (to_vlog thr e).
  - intros [= <- _ _]. apply ext_vset_append.
  - intros [= <- _ _]. apply ext_refl.
Qed.

Lemma fold_place1_ext thr mf es vl cnt out vl' cnt' out' :
  fold_left (place1 thr mf) es (vl, cnt, out) = (vl', cnt', out') -> ext vl vl'.
Proof.
  revert vl cnt out. induction es as [|e es IH]; intros vl cnt out; cbn [fold_left].
  - intros [= <- _ _]. apply ext_refl.
  - destruct (place1 thr mf (vl, cnt, out) e) as [[vl1 cnt1] out1] eqn:P.
    intros H. eapply ext_trans; [eapply place1_ext; eauto|eapply IH; eauto].
Qed.

(* vset on a possibly existing file: only used for a fresh file id by write_req; in general
   the previous records of that file are replaced, so `ext` needs the file to be new or empty *)
Definition fresh_next (v : vstate) : Prop := vfind (v_files v) (v_max v + 1) = None.

Lemma vfind_place1_other thr mf vl cnt out e vl' cnt' out' g :
  place1 thr mf (vl, cnt, out) e = (vl', cnt', out') -> g <> mf -> vfind vl' g = vfind vl g.
Proof.
  unfold place1. destruct (to_vlog thr e); intros [= <- _ _] Hne; auto.
  now apply vfind_vset_other.
Qed.

Lemma vfind_fold_place1_other thr mf es vl cnt out vl' cnt' out' g :
  fold_left (place1 thr mf) es (vl, cnt, out) = (vl', cnt', out') -> g <> mf -> vfind vl' g = vfind vl g.
Proof.
  revert vl cnt out. induction es as [|e es IH]; intros vl cnt out; cbn [fold_left].
  - intros [= <- _ _] _. reflexivity.
  - destruct (place1 thr mf (vl, cnt, out) e) as [[vl1 cnt1] out1] eqn:P.
    intros H Hne. rewrite (IH _ _ _ H Hne). eapply vfind_place1_other; eauto.
Qed.

Lemma write_req_ext v es v' out :
  fresh_next v -> write_req v es = (v', out) -> ext (v_files v) (v_files v') /\ v_gone v' = v_gone v.
Proof.
  unfold write_req, fresh_next. intros Hf.
  destruct (fold_left (place1 (v_thr v) (v_max v)) es (v_files v, v_count v, [])) as [[vl cnt] o] eqn:F.
  pose proof (fold_place1_ext _ _ _ _ _ _ _ _ _ F) as He.
  destruct (v_maxent v <? cnt); intros [= <- _]; cbn [v_files v_gone]; split; auto.
  eapply ext_trans; [exact He|]. apply ext_vset_new.
  rewrite (vfind_fold_place1_other _ _ _ _ _ _ _ _ _ (v_max v + 1) F); [exact Hf|lia].
Qed.

(* ------------------------------------------------------------------------------------ *)
(* dereferencing is stable *)

Lemma nth_error_app_l {A} (l m : list A) n x : nth_error l n = Some x -> nth_error (l ++ m) n = Some x.
Proof.
  intros H. rewrite nth_error_app1; auto. apply nth_error_Some. congruence.
Qed.

Lemma read_ptr_stable v v' e r :
  ext (v_files v) (v_files v') -> v_gone v' = v_gone v ->
  read_ptr v e = Some r -> read_ptr v' e = Some r.
Proof.
  unfold read_ptr. intros He Hg. destruct (e_val e) as [|fid [|idx [|? ?]]]; try discriminate.
  rewrite Hg. destruct (gone (v_gone v) fid); [discriminate|].
  destruct (vfind (v_files v) fid) as [rs|] eqn:F; [|discriminate].
  destruct (He _ _ F) as [more ->]. apply nth_error_app_l.
Qed.

Lemma deref_stable v v' e x :
  ext (v_files v) (v_files v') -> v_gone v' = v_gone v ->
  deref v e = Some x -> deref v' e = Some x.
Proof.
  unfold deref. intros He Hg. destruct (is_ptr e); auto.
  destruct (read_ptr v e) as [r|] eqn:R; [|discriminate].
  now rewrite (read_ptr_stable _ _ _ _ He Hg R).
Qed.

(* the ghost view: the value log with no file deleted *)
Definition gv (v : vstate) : vstate := mkV (v_files v) [] (v_max v) (v_count v) (v_thr v) (v_maxent v).
Definition gderef (v : vstate) (e : entry) : option entry := deref (gv v) e.

Definition ptr_fid (e : entry) : option N :=
  if is_ptr e then match e_val e with [fid; _] => Some fid | _ => None end else None.

(* an entry whose file (if any) has not been deleted dereferences as in the ghost view *)
Definition file_live (v : vstate) (e : entry) : Prop :=
  forall fid, ptr_fid e = Some fid -> gone (v_gone v) fid = false.

Lemma deref_live v e : file_live v e -> deref v e = gderef v e.
Proof.
  unfold file_live, gderef, deref, ptr_fid, read_ptr, gv. cbn [v_files v_gone gone existsb].
  destruct (is_ptr e); auto. intros H.
  destruct (e_val e) as [|fid [|idx [|? ?]]]; auto.
  now rewrite (H fid eq_refl).
Qed.

Lemma gderef_stable v v' e x :
  ext (v_files v) (v_files v') -> gderef v e = Some x -> gderef v' e = Some x.
Proof. intros He. apply deref_stable; auto. Qed.

Lemma gderef_gone_irrelevant v fs e : gderef (remove_fids fs v) e = gderef v e.
Proof. reflexivity. Qed.

Lemma view_of_deref v e x : deref v e = Some x -> view v e = x.
Proof. unfold view. now intros ->. Qed.

(* deleting files that e does not point into does not change deref *)
Lemma deref_remove_other v fs e :
  (forall fid, ptr_fid e = Some fid -> ~ In fid fs) -> deref (remove_fids fs v) e = deref v e.
Proof.
  unfold deref, ptr_fid, read_ptr, remove_fids. cbn [v_files v_gone].
  destruct (is_ptr e); auto. intros H.
  destruct (e_val e) as [|fid [|idx [|? ?]]]; auto.
  assert (G: gone (fs ++ v_gone v) fid = gone (v_gone v) fid).
  { unfold gone. rewrite existsb_app.
    destruct (existsb (N.eqb fid) fs) eqn:E; auto.
    apply existsb_exists in E. destruct E as (y & Hy & Ey). apply N.eqb_eq in Ey. subst y.
    exfalso. apply (H fid eq_refl Hy). }
  now rewrite G.
Qed.

(* ------------------------------------------------------------------------------------ *)
(* a memtable Put and the lookups *)

Lemma newest_cons a U k ts :
  newest (a :: U) k ts = better (if cand k ts a then Some a else None) (newest U k ts).
Proof.
  change (a :: U) with ([a] ++ U). rewrite newest_app. unfold newest at 1. cbn [filter].
  destruct (cand k ts a); reflexivity.
Qed.

Definition le_ver (o : option entry) (e : entry) : bool :=
  match o with None => true | Some x => e_ver x <=? e_ver e end.

Lemma cand_same_kv a b k ts : e_key a = e_key b -> e_ver a = e_ver b -> cand k ts a = cand k ts b.
Proof. unfold cand. now intros -> ->. Qed.

Lemma ent_cmp_gt_ver e x k ts :
  ent_cmp e x = Gt -> cand k ts x = true -> cand k ts e = true -> e_ver e < e_ver x.
Proof.
  intros Hc Hx He. apply ent_cmp_gt_lt in Hc. apply lt_ent_same_key in Hc; auto.
  unfold cand in *. apply andb_true_iff in Hx, He. destruct Hx as [Hx _], He as [He _].
  apply bytes_eqb_eq in Hx, He. congruence.
Qed.

Lemma newest_mt_put mt e R k ts :
  newest (mt_put mt e ++ R) k ts =
  if cand k ts e && le_ver (newest (mt ++ R) k ts) e then Some e else newest (mt ++ R) k ts.
Proof.
  induction mt as [|x r IH]; cbn [mt_put app].
  - rewrite newest_cons. destruct (cand k ts e); cbn [andb]; [|now rewrite better_none_l].
    destruct (newest R k ts) as [o|]; cbn; auto.
    destruct (e_ver e <? e_ver o) eqn:E1; destruct (e_ver o <=? e_ver e) eqn:E2; auto; lia.
  - destruct (ent_cmp e x) eqn:C; cbn [app].
    + (* e overwrites x *)
      apply ent_cmp_eq in C. destruct C as [Ck Cv].
      rewrite !newest_cons, (cand_same_kv x e k ts) by congruence.
      destruct (cand k ts e); cbn [andb]; [|reflexivity].
      destruct (newest (r ++ R) k ts) as [o|]; cbn [better le_ver].
      * destruct (e_ver e <? e_ver o) eqn:E1; destruct (e_ver x <? e_ver o) eqn:E3; try lia; cbn [le_ver].
        -- destruct (e_ver o <=? e_ver e) eqn:E2; auto; lia.
        -- destruct (e_ver x <=? e_ver e) eqn:E2; auto; lia.
      * destruct (e_ver x <=? e_ver e) eqn:E2; auto; lia.
    + (* e goes in front *)
      rewrite newest_cons. set (o := newest (x :: r ++ R) k ts).
      destruct (cand k ts e); cbn [andb]; [|now rewrite better_none_l].
      destruct o as [o|]; cbn; auto.
      destruct (e_ver e <? e_ver o) eqn:E1; destruct (e_ver o <=? e_ver e) eqn:E2; auto; lia.
    + (* x stays in front *)
      rewrite !newest_cons, IH. set (o := newest (r ++ R) k ts).
      destruct (cand k ts x) eqn:Cx; [|now rewrite !better_none_l].
      destruct (cand k ts e) eqn:Ce; cbn [andb]; [|reflexivity].
      pose proof (ent_cmp_gt_ver _ _ _ _ C Cx Ce) as Hlt.
      destruct o as [o|]; cbn [le_ver better].
      * destruct (e_ver o <=? e_ver e) eqn:E2; cbn [better].
        -- assert (E3: (e_ver x <? e_ver e) = false) by lia. rewrite E3.
           assert (E4: (e_ver x <? e_ver o) = false) by lia. rewrite E4. cbn [le_ver].
           assert (E5: (e_ver x <=? e_ver e) = false) by lia. now rewrite E5.
        -- destruct (e_ver x <? e_ver o) eqn:E4; cbn [le_ver].
           ++ now rewrite E2.
           ++ assert (E5: (e_ver x <=? e_ver e) = false) by lia. now rewrite E5.
      * assert (E3: (e_ver x <? e_ver e) = false) by lia. rewrite E3.
        assert (E5: (e_ver x <=? e_ver e) = false) by lia. now rewrite E5.
Qed.

(* a Put keeps a memtable sorted *)
Lemma lt_ent_of_cmp a b : ent_cmp a b = Lt -> lt_ent a b.
Proof. auto. Qed.

Lemma mt_put_in s e x : In x (mt_put s e) -> x = e \/ In x s.
Proof.
  induction s as [|y r IH]; cbn; [intros [->|[]]; auto|].
  destruct (ent_cmp e y).
  - intros [->|H]; [now left|right; now right].
  - intros [->|H]; [now left|now right].
  - intros [->|H]; [right; now left|]. destruct (IH H); [now left|right; now right].
Qed.

Lemma lt_ent_eq_l a b c : ent_cmp a b = Eq -> lt_ent b c -> lt_ent a c.
Proof.
  intros E H. apply ent_cmp_eq in E. destruct E as [Ek Ev].
  unfold lt_ent, ent_cmp in *. now rewrite Ek, Ev.
Qed.

Lemma mt_put_sorted s e : sorted s -> sorted (mt_put s e).
Proof.
  induction s as [|y r IH]; intros Hs; cbn.
  - repeat constructor.
  - assert (Hr: sorted r) by now inversion Hs.
    assert (Hall: forall z, In z r -> lt_ent y z) by (intros z Hz; eapply sorted_cons_lt; eauto).
    destruct (ent_cmp e y) eqn:C.
    + constructor; [exact Hr|]. apply Forall_forall. intros z Hz. eapply lt_ent_eq_l; eauto.
    + constructor; [exact Hs|]. apply Forall_forall. intros z [<-|Hz]; [exact C|].
      eapply lt_ent_trans; [exact C|auto].
    + constructor; [now apply IH|]. apply Forall_forall. intros z Hz.
      destruct (mt_put_in _ _ _ Hz) as [->|Hz']; [now apply ent_cmp_gt_lt|auto].
Qed.
