(* ManagedProofs.v — managed mode (C36): commit timestamps are the caller's; the F10 witness *)
From Verif Require Import Bytes BytesProofs Keys Consts Spec Lsm Compact Iter Sys.
From Coq Require Import ZifyN ZifyNat ZifyBool.
Open Scope N_scope.

Lemma stamp_ver_zero ts e : e_ver e = 0 -> e_ver (stamp ts e) = ts.
Proof. unfold stamp. intros ->. reflexivity. Qed.
Lemma stamp_ver_nonzero ts e : e_ver e <> 0 -> stamp ts e = e.
Proof. unfold stamp. intros H. apply N.eqb_neq in H. now rewrite H. Qed.

(* CommitAt c: every entry without its own version is stored at exactly c; entries with an
   explicit version (SetEntryAt / DeleteAt) keep it *)
Theorem managed_commit_ts_exact s t x cts r ts s' :
  s_managed s = true -> txn_commit s t x cts = (r, ts, s') -> r = 0 -> x_pend x <> [] ->
  ts = cts
  /\ s_writes s' = s_writes s ++ commit_entries x cts
  /\ s_next s' = s_next s
  /\ (forall e, In e (commit_entries x cts) ->
        exists e0, (In e0 (x_dups x) \/ In e0 (map snd (x_pend x))) /\ e = stamp cts e0
                   /\ (e_ver e0 = 0 -> e_ver e = cts) /\ (e_ver e0 <> 0 -> e = e0)).
Proof.
  intros Hm H Hr Hp. unfold txn_commit in H. destruct (x_pend x) as [|p0 pr] eqn:Ep; [congruence|].
  destruct (x_done x); [inversion H; subst; discriminate|].
  destruct (s_detect s && has_conflict s x); [inversion H; subst; discriminate|].
  rewrite Hm in H. inversion H; subst. cbn [s_writes s_next]. repeat split; auto.
  intros e He. unfold commit_entries in He. rewrite Ep in *. apply in_app_or in He. destruct He as [He|He].
  - apply in_map_iff in He. destruct He as (e0 & <- & Hin). exists e0.
    repeat split; auto; [apply stamp_ver_zero|apply stamp_ver_nonzero].
  - apply in_map_iff in He. destruct He as (ke & <- & Hin). exists (snd ke).
    repeat split; auto; [right; now apply in_map|apply stamp_ver_zero|apply stamp_ver_nonzero].
Qed.

(* F10 witness: managed mode, a delete at version 7 is flushed and compacted away (discard 7, no
   overlap below), then an OLDER version 5 is written: a read at 9 returns the version-5 value
   although the newest write at or below 9 is the delete at 7 *)
Definition f10_key : bytes := [107].
Definition f10_ops : list op :=
  [ Begin 0 true 0; Modify 0 (mkE f10_key 0 1 0 0 []) 0; Commit 0 7 0;
    Flush 1;
    Compact (mkC 0 1 [1] [] 7 1 [] 0 [] []) [];
    Begin 1 true 0; Modify 1 (mkE f10_key 0 0 0 0 [5]) 0; Commit 1 5 0 ].

Theorem managed_nonmonotonic_refuted :
  let '(bad, s) := exec (init_sys true false 1 2 1) f10_ops 0 in
  bad = None
  /\ db_get (s_db s) f10_key 9 = Some (mkE f10_key 5 0 0 0 [5])
  /\ vis (s_writes s) f10_key 9 0 = None.
Proof. vm_compute. repeat split; reflexivity. Qed.
