(* GetProofs.v — Theorem B: the point lookup coded in db.get / levelsController.get /
   levelHandler.get returns the newest version at or below ts over ALL entries of the tree. *)
From Verif Require Import Bytes BytesProofs Keys C20Proofs Consts Spec Lsm Compact LsmProofs CompactProofs.
From Coq Require Import ZifyN ZifyNat ZifyBool Sorting.Sorted.
Open Scope N_scope.

Lemma fold_better_app l1 l2 b :
  fold_left better (l1 ++ l2) b = fold_left better l2 (fold_left better l1 b).
Proof. apply fold_left_app. Qed.

(* folding a nested maximum = folding the flattened list (first maximum wins in both) *)
Lemma better_assoc b c d : better (better b c) d = better b (better c d).
Proof.
  destruct c as [c|]; [|destruct b, d; reflexivity].
  destruct d as [d|]; [|destruct b as [b|]; cbn; [destruct (e_ver b <? e_ver c)|]; reflexivity].
  destruct b as [b|]; [|cbn; destruct (e_ver c <? e_ver d); reflexivity].
  cbn. destruct (e_ver b <? e_ver c) eqn:E1; destruct (e_ver c <? e_ver d) eqn:E2; cbn;
    rewrite ?E1, ?E2; auto.
  - apply N.ltb_lt in E1, E2. assert (H: (e_ver b <? e_ver d) = true) by (apply N.ltb_lt; lia). now rewrite H.
  - destruct (e_ver b <? e_ver d) eqn:E3; auto. apply N.ltb_lt in E3. apply N.ltb_ge in E1, E2. lia.
Qed.

Lemma fold_better_nested l b :
  fold_left better l b = better b (fold_left better l None).
Proof.
  revert b. induction l as [|c l IH]; intros b; cbn.
  - destruct b; reflexivity.
  - rewrite IH. rewrite (IH (better None c)). rewrite <- better_assoc.
    destruct c; reflexivity.
Qed.

Lemma newest_app U V k ts :
  newest (U ++ V) k ts = better (newest U k ts) (newest V k ts).
Proof.
  unfold newest. rewrite filter_app, map_app, fold_better_app.
  now rewrite fold_better_nested.
Qed.

Lemma newest_nil k ts : newest [] k ts = None.
Proof. reflexivity. Qed.

(* ---- B1: one sorted source ---- *)
Lemma key_le_false_not_cand k ts e : key_le k ts e = false -> cand k ts e = false.
Proof.
  unfold key_le, key_order, cand. destruct (lex_cmp k (e_key e)) eqn:E; try discriminate.
  - apply lex_cmp_eq in E. subst k. rewrite bytes_eqb_refl.
    destruct (e_ver e ?= ts) eqn:C; try discriminate. intros _.
    rewrite N.compare_gt_iff in C. cbn. apply N.leb_gt. lia.
  - intros _. destruct (bytes_eqb (e_key e) k) eqn:B; auto.
    apply bytes_eqb_eq in B. subst k. rewrite lex_cmp_refl in E. discriminate.
Qed.

Lemma newest_skip_noncand x s k ts : cand k ts x = false -> newest (x :: s) k ts = newest s k ts.
Proof. unfold newest. cbn [filter]. now intros ->. Qed.

Lemma sorted_tail x s : sorted (x :: s) -> sorted s.
Proof. intros H. now inversion H. Qed.

(* in a sorted source the first candidate is the newest *)
Lemma newest_sorted_head x s k ts :
  sorted (x :: s) -> cand k ts x = true -> newest (x :: s) k ts = Some x.
Proof.
  intros Hs Hc. unfold newest. cbn [filter]. rewrite Hc. cbn [map fold_left better].
  assert (H: forall y, In y (filter (cand k ts) s) -> e_ver y <= e_ver x).
  { intros y Hy. apply filter_In in Hy. destruct Hy as [Hy Hcy].
    unfold cand in Hc, Hcy. apply andb_true_iff in Hc, Hcy. destruct Hc as [K1 _], Hcy as [K2 _].
    apply bytes_eqb_eq in K1, K2.
    pose proof (sorted_cons_lt x s y Hs Hy) as L. apply lt_ent_same_key in L; [lia|congruence]. }
  revert H. generalize (filter (cand k ts) s). intros l.
  induction l as [|y l IH]; intros H; cbn; auto.
  assert (E: (e_ver x <? e_ver y) = false) by (apply N.ltb_ge; apply H; now left).
  rewrite E. apply IH. intros z Hz. apply H. now right.
Qed.

(* nothing after a larger user key can be a candidate *)
Lemma sorted_no_cand_after x s k ts :
  sorted (x :: s) -> lex_cmp k (e_key x) = Lt -> newest (x :: s) k ts = None.
Proof.
  intros Hs Hlt. unfold newest.
  assert (H: filter (cand k ts) (x :: s) = []).
  { apply (proj1 (Forall_forall (fun e => cand k ts e = false) (x :: s))) in Hlt as _ || idtac.
    assert (A: forall y, In y (x :: s) -> cand k ts y = false).
    { intros y Hy. unfold cand. destruct (bytes_eqb (e_key y) k) eqn:B; auto.
      apply bytes_eqb_eq in B. exfalso. destruct Hy as [->|Hy].
      - rewrite B, lex_cmp_refl in Hlt. discriminate.
      - pose proof (sorted_cons_lt x s y Hs Hy) as L. apply lt_ent_key_le in L.
        rewrite B in L. rewrite lex_cmp_antisym, Hlt in L. cbn in L. congruence. }
    clear -A. induction (x :: s) as [|y l IH]; cbn; auto.
    rewrite (A y (or_introl eq_refl)). apply IH. intros z Hz. apply A. now right. }
  now rewrite H.
Qed.

Lemma src_get_newest s k ts : sorted s -> src_get s k ts = newest s k ts.
Proof.
  intros Hs. unfold src_get. induction s as [|x s IH]; cbn [seek_ge]; auto.
  destruct (key_le k ts x) eqn:E.
  - destruct (bytes_eqb (e_key x) k) eqn:B.
    + symmetry. apply newest_sorted_head; auto. unfold cand. rewrite B. cbn.
      apply bytes_eqb_eq in B. unfold key_le, key_order in E. rewrite <- B, lex_cmp_refl in E.
      destruct (e_ver x ?= ts) eqn:C; try discriminate; apply N.leb_le.
      * apply N.compare_eq_iff in C. lia.
      * rewrite N.compare_lt_iff in C. lia.
    + symmetry. apply sorted_no_cand_after; auto.
      unfold key_le, key_order in E. destruct (lex_cmp k (e_key x)) eqn:L; auto; try discriminate.
      apply lex_cmp_eq in L. subst k. rewrite bytes_eqb_refl in B. discriminate.
  - rewrite newest_skip_noncand by now apply key_le_false_not_cand.
    apply IH. eapply sorted_tail; eauto.
Qed.

(* ---- B2: a list of sources, consulted in order with `better` ---- *)
Lemma first_max_sources (ss : list src) k ts b :
  Forall sorted ss ->
  fold_left better (map (fun s => src_get s k ts) ss) b = better b (newest (concat ss) k ts).
Proof.
  revert b. induction ss as [|s ss IH]; intros b Hall; cbn [map fold_left concat].
  - rewrite newest_nil. destruct b; reflexivity.
  - inversion Hall; subst. rewrite IH by assumption. rewrite newest_app, <- better_assoc.
    now rewrite src_get_newest.
Qed.

(* ---- B3: a level >= 1 behaves as the concatenation of its tables ---- *)
Definition level_ok (ts_ : list table) : Prop :=
  sorted (concat (map t_ents ts_)) /\ Forall (fun t => t_ents t <> []) ts_.

Lemma seek_ge_app_skip a b k ts :
  (forall e, In e a -> key_le k ts e = false) -> seek_ge (a ++ b) k ts = seek_ge b k ts.
Proof.
  induction a as [|x a IH]; intros H; cbn; auto.
  rewrite (H x (or_introl eq_refl)). apply IH. intros e He. apply H. now right.
Qed.

Lemma seek_ge_app_hit a b k ts e :
  In e a -> key_le k ts e = true -> seek_ge (a ++ b) k ts = seek_ge a k ts ++ b.
Proof.
  induction a as [|x a IH]; intros He Hk; [contradiction|]. cbn.
  destruct (key_le k ts x) eqn:E; auto. destruct He as [->|He]; [congruence|]. auto.
Qed.

Lemma last_some_in (l : src) e : last (map Some l) None = Some e -> In e l.
Proof.
  induction l as [|x l IH]; cbn; [discriminate|].
  destruct l as [|y l]; cbn in *.
  - intros [= ->]. now left.
  - intros H. right. apply IH. exact H.
Qed.

Lemma last_some_nonempty (l : src) : l <> [] -> exists e, last (map Some l) None = Some e.
Proof.
  induction l as [|x l IH]; [congruence|]. intros _. destruct l as [|y l].
  - exists x. reflexivity.
  - destruct IH as [e He]; [discriminate|]. exists e. exact He.
Qed.

(* key_le is monotone along a sorted list: once true it stays true *)
Lemma key_le_mono k ts a b : lt_ent a b -> key_le k ts a = true -> key_le k ts b = true.
Proof.
  unfold lt_ent, ent_cmp, key_le, key_order.
  destruct (lex_cmp k (e_key a)) eqn:E1; try discriminate; intros Hab Hk.
  - apply lex_cmp_eq in E1. subst k.
    destruct (lex_cmp (e_key a) (e_key b)) eqn:E2; try discriminate; auto.
    rewrite N.compare_lt_iff in Hab.
    destruct (e_ver a ?= ts) eqn:C; try discriminate.
    + apply N.compare_eq_iff in C. destruct (e_ver b ?= ts) eqn:D; auto. rewrite N.compare_gt_iff in D. lia.
    + rewrite N.compare_lt_iff in C. destruct (e_ver b ?= ts) eqn:D; auto. rewrite N.compare_gt_iff in D. lia.
  - destruct (lex_cmp (e_key a) (e_key b)) eqn:E2; try discriminate.
    + apply lex_cmp_eq in E2. rewrite <- E2, E1. reflexivity.
    + rewrite (lex_cmp_trans_lt _ _ _ E1 E2). reflexivity.
Qed.

Lemma sorted_app_l (a b : src) : sorted (a ++ b) -> sorted a.
Proof.
  induction a as [|y l IHl]; [constructor|]. cbn. intros Hs.
  inversion Hs as [|? ? Hs' Hall]; subst. constructor; [now apply IHl|].
  apply Forall_forall. intros z Hz. rewrite Forall_forall in Hall. apply Hall. apply in_or_app; now left.
Qed.

Lemma sorted_last_max (l : src) b e :
  sorted l -> last (map Some l) None = Some b -> In e l -> e <> b -> lt_ent e b.
Proof.
  induction l as [|y l IHl]; intros Hs Hb He Hne; [contradiction|].
  destruct l as [|z l].
  - cbn in Hb. inversion Hb; subst. destruct He as [->|[]]. congruence.
  - assert (Hb': last (map Some (z :: l)) None = Some b) by exact Hb.
    destruct He as [->|He].
    + apply (sorted_cons_lt _ _ _ Hs). now apply last_some_in.
    + apply IHl; auto. now inversion Hs.
Qed.

Lemma ln_get_concat ts_ k ts :
  level_ok ts_ -> ln_get ts_ k ts = src_get (concat (map t_ents ts_)) k ts.
Proof.
  unfold ln_get, src_get. intros [Hs Hne]. induction ts_ as [|t r IH]; cbn; auto.
  inversion Hne as [|? ? Ht Hr]; subst. cbn [map concat] in Hs.
  destruct (last_some_nonempty (t_ents t) Ht) as [b Hb]. unfold t_biggest. rewrite Hb.
  pose proof (last_some_in _ _ Hb) as Hbin.
  destruct (key_le k ts b) eqn:E.
  - rewrite (seek_ge_app_hit _ _ _ _ b Hbin E).
    destruct (seek_ge (t_ents t) k ts) as [|x q] eqn:S; [|reflexivity].
    exfalso. clear -S Hbin E. induction (t_ents t) as [|y l IHl]; [contradiction|].
    cbn in S. destruct (key_le k ts y) eqn:Ey; [discriminate|].
    destruct Hbin as [->|Hb]; [congruence|auto].
  - assert (Hall: forall e, In e (t_ents t) -> key_le k ts e = false).
    { intros e He. destruct (key_le k ts e) eqn:Ee; auto. exfalso.
      destruct (entry_eq_dec e b) as [->|Hneq]; [congruence|].
      assert (L: lt_ent e b) by (apply (sorted_last_max (t_ents t) b e (sorted_app_l _ _ Hs) Hb He Hneq)).
      rewrite (key_le_mono _ _ _ _ L Ee) in E. discriminate. }
    rewrite (seek_ge_app_skip _ _ _ _ Hall). apply IH; auto.
    eapply sorted_app_r; eauto.
Qed.

(* ---- B4: the whole tree ---- *)
Definition lsm_wf (d : lsm) : Prop :=
  sorted (l_mt d) /\ Forall sorted (l_imm d) /\
  match l_levels d with
  | [] => True
  | l0 :: rest => Forall (fun t => sorted (t_ents t)) l0 /\ Forall level_ok rest
  end.

Definition all_entries (d : lsm) : list entry := concat (all_srcs d).

Lemma l0_get_sources l0 k ts :
  l0_get l0 k ts = fold_left better (map (fun s => src_get s k ts) (map t_ents (rev l0))) None.
Proof.
  unfold l0_get. generalize (rev l0) (@None entry). intros l.
  induction l as [|t l IH]; intros b; cbn; auto.
Qed.

Lemma ver_le_better ts b c : ver_le ts b -> ver_le ts c -> ver_le ts (better b c).
Proof. apply better_ver_le. Qed.

Lemma ver_le_src_get s k ts : ver_le ts (src_get s k ts).
Proof.
  destruct (src_get s k ts) as [e|] eqn:E; cbn; auto. now apply src_get_ver_le in E.
Qed.

Lemma ver_le_fold ts l b : ver_le ts b -> Forall (ver_le ts) l -> ver_le ts (fold_left better l b).
Proof.
  revert b. induction l as [|c l IH]; intros b Hb Hl; cbn; auto.
  inversion Hl; subst. apply IH; auto. now apply ver_le_better.
Qed.

Lemma ver_le_level lvl l k ts : ver_le ts (level_get lvl l k ts).
Proof.
  destruct lvl; cbn.
  - rewrite l0_get_sources. apply ver_le_fold; [exact I|].
    apply Forall_forall. intros c Hc. apply in_map_iff in Hc. destruct Hc as (s & <- & _).
    apply ver_le_src_get.
  - unfold ln_get. destruct (ln_table_for l k ts); [apply ver_le_src_get|exact I].
Qed.

Lemma ver_le_level_cands lvl ls k ts : Forall (ver_le ts) (level_cands lvl ls k ts).
Proof.
  revert lvl. induction ls as [|l r IH]; intros lvl; cbn; constructor; auto. apply ver_le_level.
Qed.

Lemma ver_le_cands d k ts : Forall (ver_le ts) (cands d k ts).
Proof.
  unfold cands, mem_cands. apply Forall_app. split.
  - constructor; [apply ver_le_src_get|]. apply Forall_forall. intros c Hc.
    apply in_map_iff in Hc. destruct Hc as (s & <- & _). apply ver_le_src_get.
  - apply ver_le_level_cands.
Qed.

(* levels >= 1 *)
Lemma deep_levels_newest lvl rest k ts b :
  Forall level_ok rest ->
  fold_left better (level_cands (S lvl) rest k ts) b =
  better b (newest (concat (levels_srcs (S lvl) rest)) k ts).
Proof.
  revert lvl b. induction rest as [|l r IH]; intros lvl b Hok; cbn [level_cands levels_srcs fold_left concat].
  - rewrite newest_nil. destruct b; reflexivity.
  - inversion Hok as [|? ? Hl Hr]; subst. rewrite IH by assumption.
    cbn [level_get level_src app concat]. rewrite ln_get_concat by assumption.
    rewrite newest_app, <- better_assoc. destruct Hl as [Hs _]. now rewrite src_get_newest.
Qed.

Lemma better_none_l c : better None c = c.
Proof. destruct c; reflexivity. Qed.
Lemma better_none_r b : better b None = b.
Proof. destruct b; reflexivity. Qed.

Theorem db_get_newest d k ts : lsm_wf d -> db_get d k ts = newest (all_entries d) k ts.
Proof.
  intros (Hmt & Himm & Hlev). unfold db_get.
  rewrite scan_first_max; [|apply ver_le_cands|exact I|discriminate].
  unfold first_max, cands, mem_cands, all_entries, all_srcs.
  rewrite fold_better_app.
  change (src_get (l_mt d) k ts :: map (fun s => src_get s k ts) (rev (l_imm d)))
    with (map (fun s => src_get s k ts) (l_mt d :: rev (l_imm d))).
  rewrite first_max_sources.
  2:{ constructor; auto. apply Forall_forall. intros s Hs. apply in_rev in Hs.
      rewrite Forall_forall in Himm. auto. }
  rewrite better_none_l.
  change (l_mt d :: rev (l_imm d) ++ levels_srcs 0 (l_levels d))
    with ((l_mt d :: rev (l_imm d)) ++ levels_srcs 0 (l_levels d)).
  rewrite concat_app, newest_app.
  destruct (l_levels d) as [|l0 rest].
  - cbn [level_cands fold_left levels_srcs concat]. now rewrite newest_nil, better_none_r.
  - destruct Hlev as [Hl0 Hrest]. cbn [level_cands fold_left levels_srcs level_src level_get].
    rewrite deep_levels_newest by assumption.
    rewrite concat_app, newest_app, l0_get_sources.
    rewrite (first_max_sources (map t_ents (rev l0)) k ts None).
    2:{ apply Forall_forall. intros s Hs. apply in_map_iff in Hs. destruct Hs as (t & <- & Ht).
        apply in_rev in Ht. rewrite Forall_forall in Hl0. auto. }
    rewrite better_none_l. now rewrite better_assoc.
Qed.
