(* StreamWitness.v — concrete witnesses (finding F7, finding F21) on the system model:
   histories accepted label by label by SysStream.xexec whose Stream / Backup outputs are not
   one snapshot.  The same histories are executed on the real DB by harness/streamwit.go. *)
From Verif Require Import Bytes BytesProofs Keys Consts Spec Lsm Compact Iter Sys Corr Stream SysStream
  StreamProofs StreamProofs2 BackupProofs.
From Coq Require Import ZifyN ZifyNat ZifyBool Sorting.Sorted Permutation.
Open Scope N_scope.

Ltac solve_view := unfold view_ok; repeat (constructor; [|repeat (constructor; [reflexivity|]); constructor]); constructor.

Definition w_a : bytes := [97].
Definition w_b : bytes := [98].
Definition w_v (n : N) : bytes := [n].
(* the split key DB.Ranges produces: the first block key of the flushed table, a@1 as an
   internal key *)
Definition w_split : bytes := key_with_ts w_a 1.
Definition w_set (k v : bytes) : entry := mkE k 0 0 0 0 v.

Definition w_init : xsys := mkX (init_sys false true 1 4 1) [].
(* accounts a = b = 10 committed at ts 1 and flushed *)
Definition w_pre : list xop :=
  [Base (SetNow 100); Base (Begin 0 true 0); Base (Modify 0 (w_set w_a (w_v 10)) 0);
   Base (Modify 0 (w_set w_b (w_v 10)) 0); Base (Commit 0 1 0); Base (Flush 1)].
(* producer 0 creates its transaction (readTs 1); the transfer a=5, b=15 commits at ts 2;
   producer 1 creates its transaction (readTs 2); each producer iterates one range *)
Definition w_transfer : list xop :=
  [Base (Begin 1 true 1); Base (Modify 1 (w_set w_a (w_v 5)) 0); Base (Modify 1 (w_set w_b (w_v 15)) 0);
   Base (Commit 1 2 0)].
Definition w_cfg (kd : ktl_kind) : srun := mkRun [] 0 kd [].
Definition w_run (kd : ktl_kind) (out1 out0 : list entry) : list xop :=
  [ProdBegin 0 1] ++ w_transfer ++
  [ProdBegin 1 2; ProdRange 1 (w_cfg kd) w_split [] out1; ProdRange 0 (w_cfg kd) [] w_split out0].

Definition w_state (ops : list xop) : xsys := snd (xexec w_init ops 0).
Definition w_start : src := Eval vm_compute in merged (s_db (x_sys (w_state w_pre))).
Definition w_final : src := Eval vm_compute in merged (s_db (x_sys (w_state (w_pre ++ w_transfer)))).

Lemma w_start_ok : w_start = merged (s_db (x_sys (w_state w_pre))).
Proof. vm_compute. reflexivity. Qed.
Lemma w_final_ok : w_final = merged (s_db (x_sys (w_state (w_pre ++ w_transfer)))).
Proof. vm_compute. reflexivity. Qed.
Lemma w_final_view : view_ok w_final.
Proof. solve_view. Qed.
Lemma w_final_vers : Forall (fun e => e_ver e <= 2) w_final.
Proof. repeat constructor; cbn; lia. Qed.
Lemma w_splits_ok : splits_ok [] [w_split] = true.
Proof. reflexivity. Qed.

(* ---- F7 / C25: Stream.ToList, NumVersionsToKeep = 1 ---- *)
Definition w_out1 : list entry := [mkE w_b 2 0 0 0 (w_v 15)].
Definition w_out0 : list entry := [mkE w_a 1 0 0 0 (w_v 10)].
Definition w_hist25 : list xop := w_pre ++ w_run (KToList 1) w_out1 w_out0.

Definition one_snapshot (kd : ktl_kind) (since rts : N) (m : src) : list entry :=
  concat (stream_pass [] since 100 (fun _ => false) kd all_keys rts m [w_split]).

Lemma w_hist25_accepted : fst (xexec w_init w_hist25 0) = None.
Proof. vm_compute. reflexivity. Qed.

Lemma w_ranges_perm :
  Permutation (map fst (range_outs (w_run (KToList 1) w_out1 w_out0))) (ranges [w_split]).
Proof. cbn. apply perm_swap. Qed.

(* the delivered KVs, in key-range order: a = 10 (version 1), b = 15 (version 2) *)
Lemma w_delivered_no_snapshot : forall r, w_out0 ++ w_out1 <> one_snapshot (KToList 1) 0 r w_final.
Proof.
  intros r. destruct (N.lt_ge_cases r 2) as [Hlt|Hge].
  - assert (r = 0 \/ r = 1) as [-> | ->] by lia; vm_compute; discriminate.
  - unfold one_snapshot.
    rewrite (stream_pass_above [] 0 100 (fun _ => false) (KToList 1) all_keys 2 r w_final [w_split]
               w_final_view w_splits_ok w_final_vers Hge).
    vm_compute. discriminate.
Qed.

Lemma w_delivered_not_start_snapshot : w_out0 ++ w_out1 <> one_snapshot (KToList 1) 0 1 w_start.
Proof. vm_compute. discriminate. Qed.

(* ---- F7 / C24: the same schedule inside Backup #1; Backup #2 with since = the returned
   version at one snapshot; Load of both ---- *)
Definition w_bk1 : list entry := [mkE w_b 2 0 0 0 (w_v 15); mkE w_b 1 0 0 0 (w_v 10)].
Definition w_bk0 : list entry := [mkE w_a 1 0 0 0 (w_v 10)].
Definition w_ret1 : N := max_ver (w_bk0 ++ w_bk1).
Definition w_hist24 : list xop :=
  w_pre ++ w_run (KBackup 0) w_bk1 w_bk0 ++ [Run (w_cfg (KBackup w_ret1)) 2 [w_split] [] 0].

Lemma w_hist24_accepted : fst (xexec w_init w_hist24 0) = None /\ w_ret1 = 2.
Proof. vm_compute. split; reflexivity. Qed.

Definition w_loaded : sys := load (load (init_sys false false 1 1 1) (w_bk0 ++ w_bk1)) [].

Lemma w_chain_loses_version :
  vis (s_writes w_loaded) w_a 2 100 = Some (mkE w_a 1 0 0 0 (w_v 10))
  /\ vis w_final w_a 2 100 = Some (mkE w_a 2 0 0 0 (w_v 5))
  /\ db_get (s_db w_loaded) w_a 2 = Some (mkE w_a 1 0 0 0 (w_v 10))
  /\ s_next w_loaded = 3.
Proof. vm_compute. repeat split; reflexivity. Qed.

(* ---- F21 / C24: a deletion whose marker was compacted away between two backups ---- *)
Definition g_k : bytes := [107].
Definition g_v1 : entry := mkE g_k 1 0 0 0 (w_v 1).
Definition g_del : entry := mkE g_k 2 c_bitDelete 0 0 [].
Definition g_m1 : src := [g_v1].                (* view of backup #1, snapshot 1 *)
Definition g_all : src := [g_del; g_v1].        (* after the delete at ts 2 *)
(* the compaction to the last level with discardTs = 2, nothing below: both entries dropped *)
Definition g_W : src := compact_filter (mkCP 2 1 false [] 100) g_all.

Lemma g_W_empty : g_W = [].
Proof. vm_compute. reflexivity. Qed.

Lemma g_chain_resurrects :
  vis (chain_of [(g_m1, 1); (g_W, 2)] 0 100) g_k 2 100 = Some g_v1
  /\ vis g_all g_k 2 100 = None /\ vis g_W g_k 2 100 = None.
Proof. vm_compute. repeat split; reflexivity. Qed.

(* every hypothesis of the chain theorem except "nothing the backups saw was garbage-collected" holds *)
Lemma g_chain_hyps : forall mi ri, In (mi, ri) [(g_m1, 1); (g_W, 2)] ->
  view_ok mi /\ no_empty_key mi /\ Forall (fun e => 0 < e_ver e) mi /\ ri <= 2
  /\ (forall e, In e g_W -> e_ver e <= ri -> In e mi).
Proof.
  intros mi ri [[= <- <-]|[[= <- <-]|[]]]; rewrite ?g_W_empty.
  - split; [solve_view|]. split; [repeat constructor; discriminate|].
    split; [repeat constructor|]. split; [lia|]. intros x [].
  - split; [constructor|]. split; [constructor|]. split; [constructor|]. split; [lia|]. intros x [].
Qed.

(* ---- since must be passed unincremented ---- *)
Definition s_m : src := [mkE g_k 2 0 0 0 (w_v 2); mkE g_k 1 0 0 0 (w_v 1)].
Lemma since_plus_one_loses :
  snd (backup_of s_m 1 0 100 []) = 1
  /\ fst (backup_of s_m 2 1 100 []) = [mkE g_k 2 0 0 0 (w_v 2)]
  /\ fst (backup_of s_m 2 (1 + 1) 100 []) = [].
Proof. vm_compute. repeat split; reflexivity. Qed.

(* ---------------------------------------------------------------- packaged refutations *)
Definition rng_eqb (a b : bytes * bytes) : bool := bytes_eqb (fst a) (fst b) && bytes_eqb (snd a) (snd b).
Definition out_of (ro : list ((bytes * bytes) * list entry)) (rng : bytes * bytes) : list entry :=
  match find (fun x => rng_eqb (fst x) rng) ro with Some x => snd x | None => [] end.
(* what a run delivered, put in key-range order *)
Definition in_range_order (ks : list bytes) (ro : list ((bytes * bytes) * list entry)) : list entry :=
  concat (map (out_of ro) (ranges ks)).

Definition end_view (ops : list xop) : src := merged (s_db (x_sys (snd (xexec w_init ops 0)))).

(* the statement that does NOT hold (C25_snapshot): in every accepted history, a run whose
   producers covered the ranges of a legal split delivers the single-snapshot pass at the read
   timestamp current when the run started *)
Definition snapshot_statement : Prop :=
  forall (pre run : list xop) (cfg : srun) (ks : list bytes) (now : N),
    fst (xexec w_init (pre ++ run) 0) = None ->
    splits_ok (r_prefix cfg) ks = true ->
    Permutation (map fst (range_outs run)) (ranges ks) ->
    in_range_order ks (range_outs run)
    = concat (stream_pass (r_prefix cfg) (r_since cfg) now no_ban (r_kind cfg) (choose_of cfg)
                (s_next (x_sys (snd (xexec w_init pre 0))) - 1) (end_view pre) ks).

Lemma snapshot_refuted :
  exists pre run ks,
    fst (xexec w_init (pre ++ run) 0) = None
    /\ splits_ok [] ks = true
    /\ Permutation (map fst (range_outs run)) (ranges ks)
    /\ (forall r, in_range_order ks (range_outs run)
                  <> concat (stream_pass [] 0 100 (fun _ => false) (KToList 1) all_keys r (end_view (pre ++ run)) ks))
    /\ in_range_order ks (range_outs run)
       <> concat (stream_pass [] 0 100 (fun _ => false) (KToList 1) all_keys
                    (s_next (x_sys (snd (xexec w_init pre 0))) - 1) (end_view pre) ks).
Proof.
  exists w_pre, (w_run (KToList 1) w_out1 w_out0), [w_split].
  split; [exact w_hist25_accepted|]. split; [reflexivity|]. split; [exact w_ranges_perm|]. split.
  - intros r.
    replace (end_view (w_pre ++ w_run (KToList 1) w_out1 w_out0)) with w_final by (vm_compute; reflexivity).
    replace (in_range_order [w_split] (range_outs (w_run (KToList 1) w_out1 w_out0))) with (w_out0 ++ w_out1)
      by (vm_compute; reflexivity).
    exact (w_delivered_no_snapshot r).
  - vm_compute. discriminate.
Qed.

(* C24: backup #1 is a run of the system whose producers covered the ranges; backup #2 is a
   quiescent run with since = the version backup #1 returned; the loaded chain shows a = 10
   (version 1) where the source shows a = 5 (version 2) *)
Lemma chain_refuted :
  exists pre run1 ks out1 ret1 out2 ret2 hist,
    hist = pre ++ run1 ++ [Run (w_cfg (KBackup ret1)) 2 ks out2 ret2]
    /\ fst (xexec w_init hist 0) = None
    /\ splits_ok [] ks = true
    /\ Permutation (map fst (range_outs run1)) (ranges ks)
    /\ out1 = in_range_order ks (range_outs run1) /\ ret1 = max_ver out1
    /\ exists k, vis (s_writes (load (load (init_sys false false 1 1 1) out1) (concat out2))) k 2 100
                 <> vis (end_view hist) k 2 100.
Proof.
  exists w_pre, (w_run (KBackup 0) w_bk1 w_bk0), [w_split], (w_bk0 ++ w_bk1), 2, [], 0, w_hist24.
  split; [reflexivity|]. split; [exact (proj1 w_hist24_accepted)|]. split; [reflexivity|].
  split; [cbn; apply perm_swap|]. split; [vm_compute; reflexivity|]. split; [vm_compute; reflexivity|].
  exists w_a. vm_compute. discriminate.
Qed.

(* F21: all hypotheses of the chain theorem but "nothing was garbage-collected", and the
   restored chain shows a key the source deleted *)
Lemma chain_gc_refuted :
  exists (bs : list (src * N)) W r k pre_compaction params,
    W = compact_filter params pre_compaction
    /\ In (W, r) bs /\ view_ok W /\ is_prefix c_badgerPrefix k = false
    /\ (forall mi ri, In (mi, ri) bs ->
          view_ok mi /\ no_empty_key mi /\ Forall (fun e => 0 < e_ver e) mi /\ ri <= r
          /\ (forall e, In e W -> e_ver e <= ri -> In e mi))
    /\ vis pre_compaction k r 100 = vis W k r 100
    /\ vis (chain_of bs 0 100) k r 100 <> vis W k r 100.
Proof.
  exists [(g_m1, 1); (g_W, 2)], g_W, 2, g_k, g_all, (mkCP 2 1 false [] 100).
  split; [reflexivity|]. split; [right; now left|]. split; [rewrite g_W_empty; constructor|].
  split; [reflexivity|]. split; [exact g_chain_hyps|]. split; [vm_compute; reflexivity|].
  vm_compute. discriminate.
Qed.

Lemma snapshot_statement_false : ~ snapshot_statement.
Proof.
  intros H.
  specialize (H w_pre (w_run (KToList 1) w_out1 w_out0) (w_cfg (KToList 1)) [w_split] 100
                w_hist25_accepted eq_refl w_ranges_perm).
  vm_compute in H. discriminate.
Qed.
