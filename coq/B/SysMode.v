(* SysMode.v — the system model with the Options.InMemory flag.

   `Sys` has no files, so it is the common core of both modes.  This wrapper adds exactly what
   the flag changes in the code:
   (a) Txn.modify (txn.go:370): in in-memory mode a value longer than db.valueThreshold() is
       rejected (exceedsSize error);
   (b) value placement (db.go writeToLSM / value.go valueLog.write): on disk a value of
       length >= threshold goes to the value log; in memory valueLog.write returns at once
       (value.go:818), every accepted value is stored inline — and a value of length exactly
       the threshold makes writeToLSM index the empty b.Ptrs slice: a Go panic (finding F17),
       modelled as the explicit result MPanic;
   (c) persistence: every file-touching site is behind an `if InMemory` test
       (memtable.go:106 openMemTable, memtable.go:163 Put, value.go:818 write, value.go:427
       dropAll, db.go:1095 buildL0Table, levels.go:883 compaction outputs, manifest.go:187
       addChanges, table.go Delete on a table without a file).  `evs` below is that test; the
       event lists are the files each label touches in disk mode.
   The threshold `mc_thr` is Options.ValueThreshold as passed by the caller: Open builds
   db.threshold from it (db.go:255) before it overwrites db.opt.ValueThreshold with MaxInt32
   (db.go:318), so db.valueThreshold() keeps the caller's value in in-memory mode. *)
From Verif Require Import Bytes Keys Consts Spec Lsm Compact Iter Sys.
Open Scope N_scope.

Record mcfg := mkMC { mc_inmem : bool; mc_thr : N }.

Definition vlen (e : entry) : N := N.of_nat (length (e_val e)).

(* ---- (b) placement ---- *)
Inductive place := Inline | InVlog.
(* Entry.skipVlogAndSetThreshold(threshold) = len(value) < threshold *)
Definition placement (c : mcfg) (e : entry) : option place :=
  if vlen e <? mc_thr c then Some Inline
  else if mc_inmem c then None          (* b.Ptrs[i] with len(b.Ptrs) = 0: panic *)
  else Some InVlog.

(* ---- (c) persistence events (which file a label creates / writes / syncs / unlinks) ---- *)
Inductive file := FWal (fid : N) | FVlog (fid : N) | FSst (id : N) | FManifest.
Inductive event := Create (f : file) | Write (f : file) | Sync (f : file) | Unlink (f : file).

Definition evs (c : mcfg) (l : list event) : list event := if mc_inmem c then [] else l.

Record msys := mkM {
  m_sys : sys;
  m_wal : N;              (* fid of the active memtable's WAL (db.nextMemFid - 1) *)
  m_vlog : N;             (* fid of the writable value-log file *)
  m_ev : list event }.    (* every event so far, oldest first *)

(* Open of an empty directory: MANIFEST, 00001.mem, 000001.vlog (value.go open: createVlogFile
   with maxFid+1; memtable.go openMemTables: nextMemFid 0 -> 1) *)
Definition open_events : list event :=
  [Create FManifest; Write FManifest; Sync FManifest; Create (FWal 1); Create (FVlog 1)].
Definition init_msys (c : mcfg) (managed detect : bool) (nkeep : N) (nlevels : nat) (next : N) : msys :=
  mkM (init_sys managed detect nkeep nlevels next) 1 1 (evs c open_events).

Inductive xop :=
| Base (o : op)
| DropAll
| Files (ssts mems vlogs : list N).     (* observed directory listing (disk mode) *)

(* entries a Commit label applies (Sys.txn_commit) *)
Definition commit_applies (s : sys) (t cts : N) : list entry :=
  match lookup (s_txns s) t with
  | Some x =>
      let '(r', ts, _) := txn_commit s t x cts in
      if r' =? 0 then match x_pend x with [] => [] | _ => commit_entries x ts end else []
  | None => []
  end.

Definition is_vlog (c : mcfg) (e : entry) : bool :=
  match placement c e with Some InVlog => true | _ => false end.
Definition panics (c : mcfg) (e : entry) : bool :=
  match placement c e with None => true | _ => false end.

(* writeRequests: valueLog.write for the whole request first, then writeToLSM (memTable.Put
   appends to the WAL); one Write per file touched *)
Definition commit_events (c : mcfg) (m : msys) (es : list entry) : list event :=
  match es with
  | [] => []
  | _ => (if existsb (is_vlog c) es then [Write (FVlog (m_vlog m))] else []) ++ [Write (FWal (m_wal m))]
  end.

Definition sst_build (id : N) : list event := [Create (FSst id); Write (FSst id); Sync (FSst id)].

Definition all_ids (ls : list (list table)) : list N := flat_map (map t_id) ls.

(* ---- file set implied by an event list ---- *)
Fixpoint ins_sorted (x : N) (l : list N) : list N :=
  match l with
  | [] => [x]
  | y :: r => if x <? y then x :: l else if x =? y then l else y :: ins_sorted x r
  end.
Definition rm (x : N) (l : list N) : list N := filter (fun y => negb (y =? x)) l.

Record fset := mkFS { fs_sst : list N; fs_wal : list N; fs_vlog : list N }.
Definition fs_step (f : fset) (e : event) : fset :=
  match e with
  | Create (FSst i) => mkFS (ins_sorted i (fs_sst f)) (fs_wal f) (fs_vlog f)
  | Create (FWal i) => mkFS (fs_sst f) (ins_sorted i (fs_wal f)) (fs_vlog f)
  | Create (FVlog i) => mkFS (fs_sst f) (fs_wal f) (ins_sorted i (fs_vlog f))
  | Unlink (FSst i) => mkFS (rm i (fs_sst f)) (fs_wal f) (fs_vlog f)
  | Unlink (FWal i) => mkFS (fs_sst f) (rm i (fs_wal f)) (fs_vlog f)
  | Unlink (FVlog i) => mkFS (fs_sst f) (fs_wal f) (rm i (fs_vlog f))
  | _ => f
  end.
Definition files_of (l : list event) : fset := fold_left fs_step l (mkFS [] [] []).

Fixpoint ns_eqb (a b : list N) : bool :=
  match a, b with
  | [], [] => true
  | x :: a', y :: b' => (x =? y) && ns_eqb a' b'
  | _, _ => false
  end.

(* error code the harness reports for exceedsSize *)
Definition c_errTooBig : N := 7.

(* ---- the step on the mode-independent core state (no files) ---- *)
Inductive sres := SOk (s : sys) | SBad (code : N) | SPanic.
Definition of_result (r : result) : sres := match r with Ok s => SOk s | Bad c => SBad c end.

Definition sstep (c : mcfg) (s : sys) (o : xop) : sres :=
  match o with
  | Base (Modify t e r) =>
      (* txn.go modify: the switch reaches the InMemory case only after the read-only /
         discarded / empty-key / reserved-prefix cases, i.e. when Sys.txn_modify accepts *)
      match lookup (s_txns s) t with
      | Some x =>
          if mc_inmem c && (fst (txn_modify x e) =? 0) && (mc_thr c <? vlen e)
          then (if r =? c_errTooBig then SOk s else SBad 1)
          else of_result (step s (Modify t e r))
      | None => SBad 2
      end
  | Base (Commit t cts r) =>
      match step s (Commit t cts r) with
      | Ok s' => if existsb (panics c) (commit_applies s t cts) then SPanic else SOk s'
      | Bad code => SBad code
      end
  | Base b => of_result (step s b)
  | DropAll =>
      (* db.go dropAll: memtables and every table dropped; the oracle and the open
         transactions are untouched *)
      SOk (set_db s (mkLsm [] [] (map (fun _ => []) (l_levels (s_db s)))))
  | Files _ _ _ => SOk s
  end.

(* ---- disk-mode events of a label, in the pre-state m ---- *)
Definition label_events (c : mcfg) (m : msys) (o : xop) : list event :=
  let s := m_sys m in
  match o with
  | Base (Commit t cts _) => commit_events c m (commit_applies s t cts)
  | Base (Flush id) =>
      (* VerifFlushMemtable = the rotation of ensureRoomForWrite + handleMemTableFlush; an
         empty memtable is left alone *)
      match l_mt (s_db s) with
      | [] => []
      | _ => [Create (FWal (m_wal m + 1))] ++ sst_build id
             ++ [Write FManifest; Sync FManifest; Unlink (FWal (m_wal m))]
      end
  | Base (Compact cp _) =>
      flat_map (fun il => sst_build (fst il)) (c_layout cp) ++ [Write FManifest; Sync FManifest]
      ++ map (fun i => Unlink (FSst i)) (c_top cp ++ c_bot cp)
  | DropAll =>
      (* WALs of all memtables unlinked, a new memtable; dropTree: one MANIFEST change set
         (only when there are tables), tables unlinked; vlog.dropAll: files unlinked, file 1 *)
      let ids := all_ids (l_levels (s_db s)) in
      map (fun i => Unlink (FWal i)) (fs_wal (files_of (m_ev m)))
      ++ [Create (FWal (m_wal m + 1))]
      ++ (match ids with [] => [] | _ => [Write FManifest; Sync FManifest] end)
      ++ map (fun i => Unlink (FSst i)) ids
      ++ map (fun i => Unlink (FVlog i)) (fs_vlog (files_of (m_ev m)))
      ++ [Create (FVlog 1)]
  | _ => []
  end.
Definition next_wal (m : msys) (o : xop) : N :=
  match o with
  | Base (Flush _) => match l_mt (s_db (m_sys m)) with [] => m_wal m | _ => m_wal m + 1 end
  | DropAll => m_wal m + 1
  | _ => m_wal m
  end.
Definition next_vlog (m : msys) (o : xop) : N := match o with DropAll => 1 | _ => m_vlog m end.

Definition files_ok (c : mcfg) (m : msys) (o : xop) : bool :=
  match o with
  | Files ssts mems vlogs =>
      if mc_inmem c then true      (* nothing to list: there is no directory *)
      else let f := files_of (m_ev m) in
           ns_eqb (fs_sst f) ssts && ns_eqb (fs_wal f) mems && ns_eqb (fs_vlog f) vlogs
  | _ => true
  end.

Inductive mresult := MOk (s : msys) | MBad (code : N) | MPanic.

Definition mstep (c : mcfg) (m : msys) (o : xop) : mresult :=
  match sstep c (m_sys m) o with
  | SOk s' =>
      if files_ok c m o
      then MOk (mkM s' (next_wal m o) (next_vlog m o) (m_ev m ++ evs c (label_events c m o)))
      else MBad 4
  | SBad code => MBad code
  | SPanic => MPanic
  end.

(* replay: (index, code) of the first rejected label; code 999 = the implementation panics *)
Fixpoint mexec (c : mcfg) (m : msys) (ops : list xop) (i : N) : option (N * N) * msys :=
  match ops with
  | [] => (None, m)
  | o :: r => match mstep c m o with
              | MOk m' => mexec c m' r (i + 1)
              | MBad code => (Some (i, code), m)
              | MPanic => (Some (i, 999), m)
              end
  end.

(* ---- the observable projection: everything a reader can see; not the placement, not the
   file ids, not the events ---- *)
Definition obs (m : msys) : sys := m_sys m.

(* values of every write label are strictly below the threshold: accepted and panic-free in
   both modes ("values within the in-memory limit") *)
Definition op_within (thr : N) (o : xop) : bool :=
  match o with
  | Base (Modify _ e _) => vlen e <? thr
  | _ => true
  end.
Definition within (thr : N) (ops : list xop) : bool := forallb (op_within thr) ops.

(* ---- calls and observations of labels ----
   two labels are the same CALL when their inputs agree; the observed parts (results, items,
   allocated timestamps in normal mode) are free.  Table ids and compaction picks are the
   implementation's choices and count as inputs of the model. *)
Inductive same_call (managed : bool) : xop -> xop -> Prop :=
| sc_begin t u r r' : (managed = true -> r = r') -> same_call managed (Base (Begin t u r)) (Base (Begin t u r'))
| sc_modify t e r r' : same_call managed (Base (Modify t e r)) (Base (Modify t e r'))
| sc_get t k r r' : same_call managed (Base (Get t k r)) (Base (Get t k r'))
| sc_iter t o sk i i' : same_call managed (Base (Iterate t o sk i)) (Base (Iterate t o sk i'))
| sc_commit t c c' r r' : (managed = true -> c = c') -> same_call managed (Base (Commit t c r)) (Base (Commit t c' r'))
| sc_discard t : same_call managed (Base (Discard t)) (Base (Discard t))
| sc_flush i : same_call managed (Base (Flush i)) (Base (Flush i))
| sc_compact c o o' : same_call managed (Base (Compact c o)) (Base (Compact c o'))
| sc_setdiscard ts : same_call managed (Base (SetDiscard ts)) (Base (SetDiscard ts))
| sc_setnow n : same_call managed (Base (SetNow n)) (Base (SetNow n))
| sc_dump d d' : same_call managed (Base (Dump d)) (Base (Dump d'))
| sc_maxv v v' : same_call managed (Base (MaxVersion v)) (Base (MaxVersion v'))
| sc_dropall : same_call managed DropAll DropAll
| sc_files a b c a' b' c' : same_call managed (Files a b c) (Files a' b' c').

Definition same_obs (a b : xop) : Prop :=
  match a, b with
  | Base (Begin _ _ r), Base (Begin _ _ r') => r = r'
  | Base (Modify _ _ r), Base (Modify _ _ r') => r = r'
  | Base (Get _ _ r), Base (Get _ _ r') => r = r'
  | Base (Iterate _ _ _ i), Base (Iterate _ _ _ i') => i = i'
  | Base (Commit _ _ r), Base (Commit _ _ r') => r = r'
  | Base (Compact _ o), Base (Compact _ o') => o = o'
  | Base (Dump d), Base (Dump d') => d = d'
  | Base (MaxVersion v), Base (MaxVersion v') => v = v'
  | _, _ => True
  end.
