(* Blocking.v — C38: the BLOCKING STRUCTURE of badger as a labelled transition system.

   Only what can make a goroutine wait is modelled: channel occupancy, mutex ownership,
   goroutine control states, closer signals, the counters that guards test.  Data, keys,
   values, files and errors other than ErrBlockedWrites / ErrConflict are abstracted away.

   What each piece stands for (Go source in /repo):
   * writeCh (cap cN = kvWriteChCapacity), writeChLock, blockWrites check and the channel send:
     txn.go commitAndSend, db.go sendToWriteCh;
   * the writer: db.go doWrites (first select, inner select with the 3*cap batch bound cB,
     closedCase drain loop, `pendingCh <- struct{}{}`, the final synchronous writeRequests);
   * pendingCh (cap 1) = "a writeRequests call is running" (job <> JNone);
   * writeRequests: per request ensureRoomForWrite (memtable full -> push to flushChan if it
     has room, else errNoRoom and poll) then writeToLSM; then req.Wg.Done() for the batch;
   * flushChan (cap cM = NumMemtables), flushMemtable / handleMemTableFlush /
     levels.go addLevel0Table (stall loop while L0 >= cS = NumLevelZeroTablesStall);
   * compactors: levels.go runCompactor; worker 0 always tries level 0 when it has at least
     cT = NumLevelZeroTables tables, the others may; a level-0 compaction removes >= 1 table;
     an Li compaction running on Lbase may make L0->Lbase fail until it finishes (blk = true);
   * readers: txn.go oracle.readTs -> y/watermark.go WaitForMark on txnMark, served by the
     WaterMark.process goroutine until oracle.Stop();
   * RunValueLogGC: vlog.garbageCh token, rewrite -> db.batchSet (a sender without writeChLock);
   * DB.Close: db.go close() in code order; DropAll / DropPrefix: blockWrite, prepareToDrop,
     stopMemoryFlush, (DropPrefix only: filterPrefixesToDrop's db.View = a readTs wait, phase
     DView), stopCompactions, the drop, startCompactions, startMemoryFlush, unblockWrite.

   Abstractions (stated again in checks/C38.json):
   * polling loops (time.Sleep + retry: errNoRoom, the L0 stall loop, Close's flushChan push)
     have no transition of their own: the retry is enabled exactly when its guard holds;
   * requests are anonymous: a Commit caller returns when the batch holding a request is
     acknowledged; a reader waits until NO commit timestamp is outstanding (the code waits only
     for those below its read timestamp; waiting for more is the safe direction for a
     no-deadlock claim); the GC caller waits until no request is in the pipeline;
   * errors of the value log / memtable / table builder are not modelled (they make calls return);
   * the publisher (pubCh, subscribers), Flatten, StreamWriter and WriteBatch's throttle are not
     in the LTS (exercised on the real DB by harness/deadlock.go only);
   * Close concurrent with DropAll/DropPrefix is excluded (E_close needs drp = DNone); on the
     real DB that interleaving crashes the process (harness sig c38-close-racing-drop-panics).

   `step strict` : strict = false is the code as written.  strict = true restricts the
   SCHEDULES (not the code) to those excluding the two modelled defects:
     (h1) Close starts only while no sender is between its blockWrites check and its channel
          send (finding F14);
     (h2) Close stops the oracle only while no NewTransaction waits in readTs, and no
          NewTransaction begins afterwards;
     (h3) DropAll/DropPrefix's blockWrite succeeds only while no sender is between its
          blockWrites check and its channel send (DropPrefix reads through db.View before it
          restarts the writer: it would wait for that sender's commit, which waits for the
          writer).                                                                      *)
From Coq Require Import List Arith Bool Lia.
Import ListNotations.

Record cfg := mkCfg {
  cN : nat;  (* cap(db.writeCh) *)
  cB : nat;  (* batch bound of doWrites: 3 * kvWriteChCapacity *)
  cM : nat;  (* cap(db.flushChan) = NumMemtables *)
  cT : nat;  (* NumLevelZeroTables: level 0 is compactable from here *)
  cS : nat;  (* NumLevelZeroTablesStall *)
  cK : nat   (* NumCompactors *)
}.

(* checkAndSetOptions rejects NumCompactors = 1; levels.go asserts Stall > NumLevelZeroTables *)
Definition cfg_ok (c : cfg) : Prop :=
  1 <= cN c /\ 1 <= cB c /\ 1 <= cM c /\ cT c < cS c /\ 2 <= cK c.

Inductive hst := HNone | HLock | HTs | HPassed.
Inductive wst := WIdle | WCollect (k : nat) | WClosed (k : nat) | WTok (k : nat) | WFinal | WExited.
Inductive jst := JNone | JRun (k j : nat).           (* k requests in the batch, j not yet in the memtable *)
Inductive mst := MtEmpty | MtSome | MtFull | MtNil.  (* MtNil: Close pushed db.mt and set it to nil *)
Inductive flst := FIdle | FBuild | FExited.
Inductive cst := CIdle | CL0 | CLi (blk : bool) | CExit.
Inductive gst := GIdle | GRun | GPassed | GWait.
Inductive cph := CNot | CGC | CSigW | CWaitW | CCloseCh | CMt | CStopF | CWaitF | CWaitC | COrc | CDone.
Inductive dph := DNone | DSig | DWaitW | DDrain (k : nat) | DWrite | DStopF | DWaitF | DView | DFlushMt
               | DStopC | DWaitC | DDo | DRestart.

Record st := mkSt {
  lockq : nat;   (* Commit callers waiting for oracle.writeChLock (txn.go commitAndSend) *)
  hold : hst;    (* the goroutine holding writeChLock, by phase *)
  wch : nat;     (* len(db.writeCh) *)
  wclosed : bool;  (* close(db.writeCh) has run (db.go close()) *)
  w : wst;       (* the doWrites goroutine *)
  job : jst;     (* the running writeRequests call (it holds the pendingCh token when started by doWrites) *)
  mt : mst;      (* db.mt, the active memtable *)
  fch : nat;     (* len(db.flushChan) *)
  fclosed : bool;  (* close(db.flushChan) has run (stopMemoryFlush) and the channel was not re-made *)
  fl : flst;     (* the flushMemtable goroutine *)
  l0 : nat;      (* number of level-0 tables *)
  c0 : cst;      (* compactor 0 (always prefers level 0) *)
  oidle : nat;   (* other compactors: idle *)
  ol0 : nat;     (* other compactors: running the level-0 compaction (at most one runs at a time) *)
  oli : nat;     (* other compactors: running a Li->Li+1 compaction that does not conflict with L0->Lbase *)
  olib : nat;    (* other compactors: running a compaction on Lbase that makes L0->Lbase fail meanwhile *)
  oexit : nat;   (* other compactors: exited *)
  csig : bool;   (* closers.compactors signalled *)
  bw : bool;     (* db.blockWrites *)
  sig : bool;    (* closers.writes signalled *)
  stale : bool;  (* a commit timestamp is outstanding that the (stopped) txnMark goroutine will never see done *)
  markalive : bool;  (* the WaterMark.process goroutines run (false after orc.Stop()) *)
  rdwait : nat;  (* NewTransaction callers inside oracle.readTs (txnMark.WaitForMark) *)
  g : gst;       (* the RunValueLogGC caller holding vlog.garbageCh *)
  gctaken : bool;  (* Close's waitOnGC has taken the garbageCh token for good *)
  clo : cph;     (* DB.Close, next action *)
  drp : dph;     (* DropAll/DropPrefix (prepareToDrop ...), next action *)
  dkind : bool;  (* the drop in progress is a DropPrefix (true) or a DropAll (false) *)
  crashed : bool;  (* the process panicked (send on a closed channel, nil memtable) *)
  r_ok : nat;    (* requests acknowledged without error (Commit returned nil) *)
  r_blk : nat;   (* commits returned ErrBlockedWrites *)
  r_rd : nat;    (* NewTransaction calls returned *)
  r_misc : nat;  (* other returns (ErrConflict, GC results) *)
  r_drop : nat;  (* DropAll/DropPrefix returned nil *)
  r_dblk : nat (* DropAll/DropPrefix returned ErrBlockedWrites *)
}.

Definition set_lockq (v : nat) (s : st) : st := mkSt v (hold s) (wch s) (wclosed s) (w s) (job s) (mt s) (fch s) (fclosed s) (fl s) (l0 s) (c0 s) (oidle s) (ol0 s) (oli s) (olib s) (oexit s) (csig s) (bw s) (sig s) (stale s) (markalive s) (rdwait s) (g s) (gctaken s) (clo s) (drp s) (dkind s) (crashed s) (r_ok s) (r_blk s) (r_rd s) (r_misc s) (r_drop s) (r_dblk s).
Definition set_hold (v : hst) (s : st) : st := mkSt (lockq s) v (wch s) (wclosed s) (w s) (job s) (mt s) (fch s) (fclosed s) (fl s) (l0 s) (c0 s) (oidle s) (ol0 s) (oli s) (olib s) (oexit s) (csig s) (bw s) (sig s) (stale s) (markalive s) (rdwait s) (g s) (gctaken s) (clo s) (drp s) (dkind s) (crashed s) (r_ok s) (r_blk s) (r_rd s) (r_misc s) (r_drop s) (r_dblk s).
Definition set_wch (v : nat) (s : st) : st := mkSt (lockq s) (hold s) v (wclosed s) (w s) (job s) (mt s) (fch s) (fclosed s) (fl s) (l0 s) (c0 s) (oidle s) (ol0 s) (oli s) (olib s) (oexit s) (csig s) (bw s) (sig s) (stale s) (markalive s) (rdwait s) (g s) (gctaken s) (clo s) (drp s) (dkind s) (crashed s) (r_ok s) (r_blk s) (r_rd s) (r_misc s) (r_drop s) (r_dblk s).
Definition set_wclosed (v : bool) (s : st) : st := mkSt (lockq s) (hold s) (wch s) v (w s) (job s) (mt s) (fch s) (fclosed s) (fl s) (l0 s) (c0 s) (oidle s) (ol0 s) (oli s) (olib s) (oexit s) (csig s) (bw s) (sig s) (stale s) (markalive s) (rdwait s) (g s) (gctaken s) (clo s) (drp s) (dkind s) (crashed s) (r_ok s) (r_blk s) (r_rd s) (r_misc s) (r_drop s) (r_dblk s).
Definition set_w (v : wst) (s : st) : st := mkSt (lockq s) (hold s) (wch s) (wclosed s) v (job s) (mt s) (fch s) (fclosed s) (fl s) (l0 s) (c0 s) (oidle s) (ol0 s) (oli s) (olib s) (oexit s) (csig s) (bw s) (sig s) (stale s) (markalive s) (rdwait s) (g s) (gctaken s) (clo s) (drp s) (dkind s) (crashed s) (r_ok s) (r_blk s) (r_rd s) (r_misc s) (r_drop s) (r_dblk s).
Definition set_job (v : jst) (s : st) : st := mkSt (lockq s) (hold s) (wch s) (wclosed s) (w s) v (mt s) (fch s) (fclosed s) (fl s) (l0 s) (c0 s) (oidle s) (ol0 s) (oli s) (olib s) (oexit s) (csig s) (bw s) (sig s) (stale s) (markalive s) (rdwait s) (g s) (gctaken s) (clo s) (drp s) (dkind s) (crashed s) (r_ok s) (r_blk s) (r_rd s) (r_misc s) (r_drop s) (r_dblk s).
Definition set_mt (v : mst) (s : st) : st := mkSt (lockq s) (hold s) (wch s) (wclosed s) (w s) (job s) v (fch s) (fclosed s) (fl s) (l0 s) (c0 s) (oidle s) (ol0 s) (oli s) (olib s) (oexit s) (csig s) (bw s) (sig s) (stale s) (markalive s) (rdwait s) (g s) (gctaken s) (clo s) (drp s) (dkind s) (crashed s) (r_ok s) (r_blk s) (r_rd s) (r_misc s) (r_drop s) (r_dblk s).
Definition set_fch (v : nat) (s : st) : st := mkSt (lockq s) (hold s) (wch s) (wclosed s) (w s) (job s) (mt s) v (fclosed s) (fl s) (l0 s) (c0 s) (oidle s) (ol0 s) (oli s) (olib s) (oexit s) (csig s) (bw s) (sig s) (stale s) (markalive s) (rdwait s) (g s) (gctaken s) (clo s) (drp s) (dkind s) (crashed s) (r_ok s) (r_blk s) (r_rd s) (r_misc s) (r_drop s) (r_dblk s).
Definition set_fclosed (v : bool) (s : st) : st := mkSt (lockq s) (hold s) (wch s) (wclosed s) (w s) (job s) (mt s) (fch s) v (fl s) (l0 s) (c0 s) (oidle s) (ol0 s) (oli s) (olib s) (oexit s) (csig s) (bw s) (sig s) (stale s) (markalive s) (rdwait s) (g s) (gctaken s) (clo s) (drp s) (dkind s) (crashed s) (r_ok s) (r_blk s) (r_rd s) (r_misc s) (r_drop s) (r_dblk s).
Definition set_fl (v : flst) (s : st) : st := mkSt (lockq s) (hold s) (wch s) (wclosed s) (w s) (job s) (mt s) (fch s) (fclosed s) v (l0 s) (c0 s) (oidle s) (ol0 s) (oli s) (olib s) (oexit s) (csig s) (bw s) (sig s) (stale s) (markalive s) (rdwait s) (g s) (gctaken s) (clo s) (drp s) (dkind s) (crashed s) (r_ok s) (r_blk s) (r_rd s) (r_misc s) (r_drop s) (r_dblk s).
Definition set_l0 (v : nat) (s : st) : st := mkSt (lockq s) (hold s) (wch s) (wclosed s) (w s) (job s) (mt s) (fch s) (fclosed s) (fl s) v (c0 s) (oidle s) (ol0 s) (oli s) (olib s) (oexit s) (csig s) (bw s) (sig s) (stale s) (markalive s) (rdwait s) (g s) (gctaken s) (clo s) (drp s) (dkind s) (crashed s) (r_ok s) (r_blk s) (r_rd s) (r_misc s) (r_drop s) (r_dblk s).
Definition set_c0 (v : cst) (s : st) : st := mkSt (lockq s) (hold s) (wch s) (wclosed s) (w s) (job s) (mt s) (fch s) (fclosed s) (fl s) (l0 s) v (oidle s) (ol0 s) (oli s) (olib s) (oexit s) (csig s) (bw s) (sig s) (stale s) (markalive s) (rdwait s) (g s) (gctaken s) (clo s) (drp s) (dkind s) (crashed s) (r_ok s) (r_blk s) (r_rd s) (r_misc s) (r_drop s) (r_dblk s).
Definition set_oidle (v : nat) (s : st) : st := mkSt (lockq s) (hold s) (wch s) (wclosed s) (w s) (job s) (mt s) (fch s) (fclosed s) (fl s) (l0 s) (c0 s) v (ol0 s) (oli s) (olib s) (oexit s) (csig s) (bw s) (sig s) (stale s) (markalive s) (rdwait s) (g s) (gctaken s) (clo s) (drp s) (dkind s) (crashed s) (r_ok s) (r_blk s) (r_rd s) (r_misc s) (r_drop s) (r_dblk s).
Definition set_ol0 (v : nat) (s : st) : st := mkSt (lockq s) (hold s) (wch s) (wclosed s) (w s) (job s) (mt s) (fch s) (fclosed s) (fl s) (l0 s) (c0 s) (oidle s) v (oli s) (olib s) (oexit s) (csig s) (bw s) (sig s) (stale s) (markalive s) (rdwait s) (g s) (gctaken s) (clo s) (drp s) (dkind s) (crashed s) (r_ok s) (r_blk s) (r_rd s) (r_misc s) (r_drop s) (r_dblk s).
Definition set_oli (v : nat) (s : st) : st := mkSt (lockq s) (hold s) (wch s) (wclosed s) (w s) (job s) (mt s) (fch s) (fclosed s) (fl s) (l0 s) (c0 s) (oidle s) (ol0 s) v (olib s) (oexit s) (csig s) (bw s) (sig s) (stale s) (markalive s) (rdwait s) (g s) (gctaken s) (clo s) (drp s) (dkind s) (crashed s) (r_ok s) (r_blk s) (r_rd s) (r_misc s) (r_drop s) (r_dblk s).
Definition set_olib (v : nat) (s : st) : st := mkSt (lockq s) (hold s) (wch s) (wclosed s) (w s) (job s) (mt s) (fch s) (fclosed s) (fl s) (l0 s) (c0 s) (oidle s) (ol0 s) (oli s) v (oexit s) (csig s) (bw s) (sig s) (stale s) (markalive s) (rdwait s) (g s) (gctaken s) (clo s) (drp s) (dkind s) (crashed s) (r_ok s) (r_blk s) (r_rd s) (r_misc s) (r_drop s) (r_dblk s).
Definition set_oexit (v : nat) (s : st) : st := mkSt (lockq s) (hold s) (wch s) (wclosed s) (w s) (job s) (mt s) (fch s) (fclosed s) (fl s) (l0 s) (c0 s) (oidle s) (ol0 s) (oli s) (olib s) v (csig s) (bw s) (sig s) (stale s) (markalive s) (rdwait s) (g s) (gctaken s) (clo s) (drp s) (dkind s) (crashed s) (r_ok s) (r_blk s) (r_rd s) (r_misc s) (r_drop s) (r_dblk s).
Definition set_csig (v : bool) (s : st) : st := mkSt (lockq s) (hold s) (wch s) (wclosed s) (w s) (job s) (mt s) (fch s) (fclosed s) (fl s) (l0 s) (c0 s) (oidle s) (ol0 s) (oli s) (olib s) (oexit s) v (bw s) (sig s) (stale s) (markalive s) (rdwait s) (g s) (gctaken s) (clo s) (drp s) (dkind s) (crashed s) (r_ok s) (r_blk s) (r_rd s) (r_misc s) (r_drop s) (r_dblk s).
Definition set_bw (v : bool) (s : st) : st := mkSt (lockq s) (hold s) (wch s) (wclosed s) (w s) (job s) (mt s) (fch s) (fclosed s) (fl s) (l0 s) (c0 s) (oidle s) (ol0 s) (oli s) (olib s) (oexit s) (csig s) v (sig s) (stale s) (markalive s) (rdwait s) (g s) (gctaken s) (clo s) (drp s) (dkind s) (crashed s) (r_ok s) (r_blk s) (r_rd s) (r_misc s) (r_drop s) (r_dblk s).
Definition set_sig (v : bool) (s : st) : st := mkSt (lockq s) (hold s) (wch s) (wclosed s) (w s) (job s) (mt s) (fch s) (fclosed s) (fl s) (l0 s) (c0 s) (oidle s) (ol0 s) (oli s) (olib s) (oexit s) (csig s) (bw s) v (stale s) (markalive s) (rdwait s) (g s) (gctaken s) (clo s) (drp s) (dkind s) (crashed s) (r_ok s) (r_blk s) (r_rd s) (r_misc s) (r_drop s) (r_dblk s).
Definition set_stale (v : bool) (s : st) : st := mkSt (lockq s) (hold s) (wch s) (wclosed s) (w s) (job s) (mt s) (fch s) (fclosed s) (fl s) (l0 s) (c0 s) (oidle s) (ol0 s) (oli s) (olib s) (oexit s) (csig s) (bw s) (sig s) v (markalive s) (rdwait s) (g s) (gctaken s) (clo s) (drp s) (dkind s) (crashed s) (r_ok s) (r_blk s) (r_rd s) (r_misc s) (r_drop s) (r_dblk s).
Definition set_markalive (v : bool) (s : st) : st := mkSt (lockq s) (hold s) (wch s) (wclosed s) (w s) (job s) (mt s) (fch s) (fclosed s) (fl s) (l0 s) (c0 s) (oidle s) (ol0 s) (oli s) (olib s) (oexit s) (csig s) (bw s) (sig s) (stale s) v (rdwait s) (g s) (gctaken s) (clo s) (drp s) (dkind s) (crashed s) (r_ok s) (r_blk s) (r_rd s) (r_misc s) (r_drop s) (r_dblk s).
Definition set_rdwait (v : nat) (s : st) : st := mkSt (lockq s) (hold s) (wch s) (wclosed s) (w s) (job s) (mt s) (fch s) (fclosed s) (fl s) (l0 s) (c0 s) (oidle s) (ol0 s) (oli s) (olib s) (oexit s) (csig s) (bw s) (sig s) (stale s) (markalive s) v (g s) (gctaken s) (clo s) (drp s) (dkind s) (crashed s) (r_ok s) (r_blk s) (r_rd s) (r_misc s) (r_drop s) (r_dblk s).
Definition set_g (v : gst) (s : st) : st := mkSt (lockq s) (hold s) (wch s) (wclosed s) (w s) (job s) (mt s) (fch s) (fclosed s) (fl s) (l0 s) (c0 s) (oidle s) (ol0 s) (oli s) (olib s) (oexit s) (csig s) (bw s) (sig s) (stale s) (markalive s) (rdwait s) v (gctaken s) (clo s) (drp s) (dkind s) (crashed s) (r_ok s) (r_blk s) (r_rd s) (r_misc s) (r_drop s) (r_dblk s).
Definition set_gctaken (v : bool) (s : st) : st := mkSt (lockq s) (hold s) (wch s) (wclosed s) (w s) (job s) (mt s) (fch s) (fclosed s) (fl s) (l0 s) (c0 s) (oidle s) (ol0 s) (oli s) (olib s) (oexit s) (csig s) (bw s) (sig s) (stale s) (markalive s) (rdwait s) (g s) v (clo s) (drp s) (dkind s) (crashed s) (r_ok s) (r_blk s) (r_rd s) (r_misc s) (r_drop s) (r_dblk s).
Definition set_clo (v : cph) (s : st) : st := mkSt (lockq s) (hold s) (wch s) (wclosed s) (w s) (job s) (mt s) (fch s) (fclosed s) (fl s) (l0 s) (c0 s) (oidle s) (ol0 s) (oli s) (olib s) (oexit s) (csig s) (bw s) (sig s) (stale s) (markalive s) (rdwait s) (g s) (gctaken s) v (drp s) (dkind s) (crashed s) (r_ok s) (r_blk s) (r_rd s) (r_misc s) (r_drop s) (r_dblk s).
Definition set_drp (v : dph) (s : st) : st := mkSt (lockq s) (hold s) (wch s) (wclosed s) (w s) (job s) (mt s) (fch s) (fclosed s) (fl s) (l0 s) (c0 s) (oidle s) (ol0 s) (oli s) (olib s) (oexit s) (csig s) (bw s) (sig s) (stale s) (markalive s) (rdwait s) (g s) (gctaken s) (clo s) v (dkind s) (crashed s) (r_ok s) (r_blk s) (r_rd s) (r_misc s) (r_drop s) (r_dblk s).
Definition set_dkind (v : bool) (s : st) : st := mkSt (lockq s) (hold s) (wch s) (wclosed s) (w s) (job s) (mt s) (fch s) (fclosed s) (fl s) (l0 s) (c0 s) (oidle s) (ol0 s) (oli s) (olib s) (oexit s) (csig s) (bw s) (sig s) (stale s) (markalive s) (rdwait s) (g s) (gctaken s) (clo s) (drp s) v (crashed s) (r_ok s) (r_blk s) (r_rd s) (r_misc s) (r_drop s) (r_dblk s).
Definition set_crashed (v : bool) (s : st) : st := mkSt (lockq s) (hold s) (wch s) (wclosed s) (w s) (job s) (mt s) (fch s) (fclosed s) (fl s) (l0 s) (c0 s) (oidle s) (ol0 s) (oli s) (olib s) (oexit s) (csig s) (bw s) (sig s) (stale s) (markalive s) (rdwait s) (g s) (gctaken s) (clo s) (drp s) (dkind s) v (r_ok s) (r_blk s) (r_rd s) (r_misc s) (r_drop s) (r_dblk s).
Definition set_r_ok (v : nat) (s : st) : st := mkSt (lockq s) (hold s) (wch s) (wclosed s) (w s) (job s) (mt s) (fch s) (fclosed s) (fl s) (l0 s) (c0 s) (oidle s) (ol0 s) (oli s) (olib s) (oexit s) (csig s) (bw s) (sig s) (stale s) (markalive s) (rdwait s) (g s) (gctaken s) (clo s) (drp s) (dkind s) (crashed s) v (r_blk s) (r_rd s) (r_misc s) (r_drop s) (r_dblk s).
Definition set_r_blk (v : nat) (s : st) : st := mkSt (lockq s) (hold s) (wch s) (wclosed s) (w s) (job s) (mt s) (fch s) (fclosed s) (fl s) (l0 s) (c0 s) (oidle s) (ol0 s) (oli s) (olib s) (oexit s) (csig s) (bw s) (sig s) (stale s) (markalive s) (rdwait s) (g s) (gctaken s) (clo s) (drp s) (dkind s) (crashed s) (r_ok s) v (r_rd s) (r_misc s) (r_drop s) (r_dblk s).
Definition set_r_rd (v : nat) (s : st) : st := mkSt (lockq s) (hold s) (wch s) (wclosed s) (w s) (job s) (mt s) (fch s) (fclosed s) (fl s) (l0 s) (c0 s) (oidle s) (ol0 s) (oli s) (olib s) (oexit s) (csig s) (bw s) (sig s) (stale s) (markalive s) (rdwait s) (g s) (gctaken s) (clo s) (drp s) (dkind s) (crashed s) (r_ok s) (r_blk s) v (r_misc s) (r_drop s) (r_dblk s).
Definition set_r_misc (v : nat) (s : st) : st := mkSt (lockq s) (hold s) (wch s) (wclosed s) (w s) (job s) (mt s) (fch s) (fclosed s) (fl s) (l0 s) (c0 s) (oidle s) (ol0 s) (oli s) (olib s) (oexit s) (csig s) (bw s) (sig s) (stale s) (markalive s) (rdwait s) (g s) (gctaken s) (clo s) (drp s) (dkind s) (crashed s) (r_ok s) (r_blk s) (r_rd s) v (r_drop s) (r_dblk s).
Definition set_r_drop (v : nat) (s : st) : st := mkSt (lockq s) (hold s) (wch s) (wclosed s) (w s) (job s) (mt s) (fch s) (fclosed s) (fl s) (l0 s) (c0 s) (oidle s) (ol0 s) (oli s) (olib s) (oexit s) (csig s) (bw s) (sig s) (stale s) (markalive s) (rdwait s) (g s) (gctaken s) (clo s) (drp s) (dkind s) (crashed s) (r_ok s) (r_blk s) (r_rd s) (r_misc s) v (r_dblk s).
Definition set_r_dblk (v : nat) (s : st) : st := mkSt (lockq s) (hold s) (wch s) (wclosed s) (w s) (job s) (mt s) (fch s) (fclosed s) (fl s) (l0 s) (c0 s) (oidle s) (ol0 s) (oli s) (olib s) (oexit s) (csig s) (bw s) (sig s) (stale s) (markalive s) (rdwait s) (g s) (gctaken s) (clo s) (drp s) (dkind s) (crashed s) (r_ok s) (r_blk s) (r_rd s) (r_misc s) (r_drop s) v.

Notation "s |> f" := (f s) (at level 50, left associativity, only parsing).

Definition init (c : cfg) : st :=
  mkSt 0 HNone 0 false WIdle JNone MtEmpty 0 false FIdle 0
       (match cK c with 0 => CExit | _ => CIdle end) (cK c - 1) 0 0 0 0
       false false false false true 0 GIdle false CNot DNone false false 0 0 0 0 0 0.

Inductive lab :=
  (* a public call begins *)
  | E_commit | E_read | E_close | E_drop (pfx : bool) | E_gc
  (* Txn.Commit: writeChLock, newCommitTs, sendToWriteCh *)
  | L_acq | H_conflict | H_ts | H_check | H_send
  (* doWrites *)
  | W_recv | W_more | W_push | W_sig | W_drain | W_default | W_final
  (* writeRequests *)
  | J_write (fills : bool) | J_rotate | J_done
  (* flushMemtable *)
  | F_take | F_add | F_exit
  (* compactor 0 / the other compactors *)
  | K0_startL0 | K0_finishL0 (d : nat) | K0_startLi (b : bool) | K0_finishLi | K0_exit
  | KO_startL0 | KO_finishL0 (d : nat) | KO_startLi (b : bool) | KO_finishLi (b : bool) | KO_exit
  (* oracle.readTs *)
  | R_pass
  (* RunValueLogGC *)
  | G_none | G_check | G_send | G_done
  (* DB.close() *)
  | C_gc | C_sig | C_waitw | C_closech | C_mt | C_stopf | C_waitf | C_waitc | C_orc
  (* DropAll / DropPrefix *)
  | D_sig | D_waitw | D_drain | D_default | D_stopf | D_waitf | D_view | D_noview | D_flushmt | D_skipmt
  | D_stopc | D_waitc | D_do (z : nat) | D_restart.

(* "work" = everything except the arrival of a new public call and the optional start of a
   compaction that does not touch level 0 *)
Definition work (l : lab) : bool :=
  match l with
  | E_commit | E_read | E_close | E_drop _ | E_gc | K0_startLi _ | KO_startLi _ => false
  | _ => true
  end.

Definition batchk (x : wst) : nat :=
  match x with WCollect k | WClosed k | WTok k => k | _ => 0 end.
Definition jobk (x : jst) : nat := match x with JRun k _ => k | JNone => 0 end.
Definition draink (x : dph) : nat := match x with DDrain k => k | _ => 0 end.
(* requests somewhere between the channel and their acknowledgement *)
Definition reqs (s : st) : nat := wch s + batchk (w s) + jobk (job s) + draink (drp s).
Definition hts (h : hst) : nat := match h with HTs | HPassed => 1 | _ => 0 end.
(* commit timestamps begun (txnMark.Begin) and not yet done *)
Definition inflight_ts (s : st) : nat := hts (hold s) + reqs s.

Definition is_passed (h : hst) : bool := match h with HPassed => true | _ => false end.
Definition is_gpassed (x : gst) : bool := match x with GPassed => true | _ => false end.
Definition is_cexit (x : cst) : bool := match x with CExit => true | _ => false end.
Definition is_cl0 (x : cst) : bool := match x with CL0 => true | _ => false end.
Definition is_clib (x : cst) : bool := match x with CLi true => true | _ => false end.

Definition all_exited (s : st) : bool :=
  is_cexit (c0 s) && (oidle s =? 0) && (ol0 s =? 0) && (oli s =? 0) && (olib s =? 0).
Definition l0_running (s : st) : bool := is_cl0 (c0 s) || negb (ol0 s =? 0).
Definition l0_blocked (s : st) : bool := is_clib (c0 s) || negb (olib s =? 0).
(* a level-0 compaction can be picked: score >= 1 and there is a table *)
Definition l0_pickable (c : cfg) (s : st) : bool :=
  (cT c <=? l0 s) && (1 <=? l0 s) && negb (l0_running s) && negb (l0_blocked s).

Definition pending (s : st) : bool :=
  negb (lockq s =? 0) || match hold s with HNone => false | _ => true end
  || negb (reqs s =? 0) || negb (rdwait s =? 0)
  || match g s with GIdle => false | _ => true end
  || match clo s with CNot | CDone => false | _ => true end
  || match drp s with DNone => false | _ => true end.

Definition crash (s : st) : option st := Some (set_crashed true s).

Definition step (strict : bool) (c : cfg) (s : st) (l : lab) : option st :=
  if crashed s then None else
  match l with
  (* ---- arrivals ---- *)
  | E_commit => Some (s |> set_lockq (lockq s + 1))
  | E_read => if strict && negb (markalive s) then None else Some (s |> set_rdwait (rdwait s + 1))
  | E_close =>                                   (* db.blockWrites.Store(1); db.isClosed.Store(1) *)
      match clo s, drp s with
      | CNot, DNone =>
          if strict && (is_passed (hold s) || is_gpassed (g s)) then None
          else Some (s |> set_bw true |> set_clo CGC)
      | _, _ => None
      end
  | E_drop pfx =>                                (* blockWrite: CompareAndSwap(0, 1) *)
      if bw s then Some (s |> set_r_dblk (r_dblk s + 1))        (* ErrBlockedWrites *)
      else match drp s with
           | DNone => if strict && (is_passed (hold s) || is_gpassed (g s)) then None
                      else Some (s |> set_bw true |> set_drp DSig |> set_dkind pfx)
           | _ => None
           end
  | E_gc =>                                      (* vlog.runGC: select on garbageCh *)
      match g s with
      | GIdle => if gctaken s then Some (s |> set_r_misc (r_misc s + 1)) else Some (s |> set_g GRun)
      | _ => Some (s |> set_r_misc (r_misc s + 1))       (* ErrRejected *)
      end
  (* ---- Txn.Commit ---- *)
  | L_acq => match hold s with
             | HNone => if lockq s =? 0 then None
                        else Some (s |> set_lockq (lockq s - 1) |> set_hold HLock)
             | _ => None end
  | H_conflict => match hold s with
                  | HLock => Some (s |> set_hold HNone |> set_r_misc (r_misc s + 1))
                  | _ => None end
  | H_ts =>                                      (* newCommitTs: txnMark.Begin(ts) *)
      match hold s with
      | HLock => Some (s |> set_hold HTs |> set_stale (stale s || negb (markalive s)))
      | _ => None end
  | H_check =>                                   (* sendToWriteCh: if db.blockWrites.Load() == 1 *)
      match hold s with
      | HTs => if bw s then Some (s |> set_hold HNone |> set_r_blk (r_blk s + 1))
               else Some (s |> set_hold HPassed)
      | _ => None end
  | H_send =>                                    (* db.writeCh <- req *)
      match hold s with
      | HPassed => if wclosed s then crash s
                   else if wch s <? cN c then Some (s |> set_hold HNone |> set_wch (wch s + 1))
                   else None
      | _ => None end
  (* ---- doWrites ---- *)
  | W_recv => match w s with
              | WIdle => if wch s =? 0 then None
                         else Some (s |> set_wch (wch s - 1) |> set_w (WCollect 1))
              | _ => None end
  | W_more => match w s with
              | WCollect k => if (wch s =? 0) || negb (k <? cB c) then None
                              else Some (s |> set_wch (wch s - 1) |> set_w (WCollect (k + 1)))
              | _ => None end
  | W_push => match w s, job s with               (* pendingCh <- struct{}{}; go writeRequests(reqs) *)
              | WCollect k, JNone => Some (s |> set_job (JRun k k) |> set_w WIdle)
              | _, _ => None end
  | W_sig => if sig s then                        (* case <-lc.HasBeenClosed(): goto closedCase *)
               match w s with
               | WIdle => Some (s |> set_w (WClosed 0))
               | WCollect k => if k <? cB c then Some (s |> set_w (WClosed k)) else None
               | _ => None end
             else None
  | W_drain => match w s with
               | WClosed k => if wch s =? 0 then None
                              else Some (s |> set_wch (wch s - 1) |> set_w (WClosed (k + 1)))
               | _ => None end
  | W_default => match w s with                   (* the LAST look at writeCh *)
                 | WClosed k => if wch s =? 0 then Some (s |> set_w (WTok k)) else None
                 | _ => None end
  | W_final => match w s, job s with              (* pendingCh <- struct{}{}; writeRequests(reqs) *)
               | WTok k, JNone => Some (s |> set_job (JRun k k) |> set_w WFinal)
               | _, _ => None end
  (* ---- writeRequests ---- *)
  | J_write fills =>
      match job s with
      | JRun k (S j) =>
          match mt s with
          | MtEmpty | MtSome => Some (s |> set_job (JRun k j) |> set_mt (if fills then MtFull else MtSome))
          | MtFull => None
          | MtNil => crash s                      (* y.AssertTrue(db.mt != nil) *)
          end
      | _ => None end
  | J_rotate =>                                   (* ensureRoomForWrite: case db.flushChan <- db.mt *)
      match job s with
      | JRun k (S j) =>
          match mt s with
          | MtFull => if fclosed s then crash s
                      else if fch s <? cM c then Some (s |> set_fch (fch s + 1) |> set_mt MtEmpty)
                      else None                   (* errNoRoom: poll *)
          | _ => None end
      | _ => None end
  | J_done =>                                     (* r.Wg.Done() for the batch; <-pendingCh *)
      match job s with
      | JRun k 0 =>
          Some (s |> set_job JNone |> set_r_ok (r_ok s + k)
                  |> set_w (match w s with WFinal => WExited | x => x end)
                  |> set_drp (match drp s with DWrite => DStopF | x => x end))
      | _ => None end
  (* ---- flushMemtable ---- *)
  | F_take => match fl s with
              | FIdle => if fch s =? 0 then None else Some (s |> set_fch (fch s - 1) |> set_fl FBuild)
              | _ => None end
  | F_add => match fl s with                      (* addLevel0Table: tryAddLevel0Table *)
             | FBuild => if l0 s <? cS c then Some (s |> set_l0 (l0 s + 1) |> set_fl FIdle) else None
             | _ => None end
  | F_exit => match fl s with                     (* range over the closed, empty flushChan ends *)
              | FIdle => if (fch s =? 0) && fclosed s then Some (s |> set_fl FExited) else None
              | _ => None end
  (* ---- compactors ---- *)
  | K0_startL0 => match c0 s with
                  | CIdle => if l0_pickable c s then Some (s |> set_c0 CL0) else None
                  | _ => None end
  | K0_finishL0 d => match c0 s with
                     | CL0 => if (1 <=? d) && (d <=? l0 s) then Some (s |> set_l0 (l0 s - d) |> set_c0 CIdle) else None
                     | _ => None end
  | K0_startLi b => match c0 s with CIdle => Some (s |> set_c0 (CLi b)) | _ => None end
  | K0_finishLi => match c0 s with CLi _ => Some (s |> set_c0 CIdle) | _ => None end
  | K0_exit => match c0 s with CIdle => if csig s then Some (s |> set_c0 CExit) else None | _ => None end
  | KO_startL0 => if (oidle s =? 0) || negb (l0_pickable c s) then None
                  else Some (s |> set_oidle (oidle s - 1) |> set_ol0 (ol0 s + 1))
  | KO_finishL0 d => if (ol0 s =? 0) || negb ((1 <=? d) && (d <=? l0 s)) then None
                     else Some (s |> set_ol0 (ol0 s - 1) |> set_oidle (oidle s + 1) |> set_l0 (l0 s - d))
  | KO_startLi b => if oidle s =? 0 then None
                    else if b then Some (s |> set_oidle (oidle s - 1) |> set_olib (olib s + 1))
                    else Some (s |> set_oidle (oidle s - 1) |> set_oli (oli s + 1))
  | KO_finishLi b => if b then (if olib s =? 0 then None
                                else Some (s |> set_olib (olib s - 1) |> set_oidle (oidle s + 1)))
                     else (if oli s =? 0 then None
                           else Some (s |> set_oli (oli s - 1) |> set_oidle (oidle s + 1)))
  | KO_exit => if (oidle s =? 0) || negb (csig s) then None
               else Some (s |> set_oidle (oidle s - 1) |> set_oexit (oexit s + 1))
  (* ---- oracle.readTs ---- *)
  | R_pass => if (rdwait s =? 0) || negb (inflight_ts s =? 0) || stale s then None
              else Some (s |> set_rdwait (rdwait s - 1) |> set_r_rd (r_rd s + 1))
  (* ---- RunValueLogGC ---- *)
  | G_none => match g s with GRun => Some (s |> set_g GIdle |> set_r_misc (r_misc s + 1)) | _ => None end
  | G_check => match g s with
               | GRun => if bw s then Some (s |> set_g GIdle |> set_r_misc (r_misc s + 1))
                         else Some (s |> set_g GPassed)
               | _ => None end
  | G_send => match g s with
              | GPassed => if wclosed s then crash s
                           else if wch s <? cN c then Some (s |> set_g GWait |> set_wch (wch s + 1))
                           else None
              | _ => None end
  | G_done => match g s with
              | GWait => if reqs s =? 0 then Some (s |> set_g GIdle |> set_r_misc (r_misc s + 1)) else None
              | _ => None end
  (* ---- DB.close() ---- *)
  | C_gc => match clo s, g s with                 (* closers.valueGC.SignalAndWait(): waitOnGC takes garbageCh *)
            | CGC, GIdle => Some (s |> set_gctaken true |> set_clo CSigW)
            | _, _ => None end
  | C_sig => match clo s with CSigW => Some (s |> set_sig true |> set_clo CWaitW) | _ => None end
  | C_waitw => match clo s, w s with              (* closers.writes ...AndWait() *)
               | CWaitW, WExited => Some (s |> set_clo CCloseCh)
               | _, _ => None end
  | C_closech => match clo s with CCloseCh => Some (s |> set_wclosed true |> set_clo CMt) | _ => None end
  | C_mt => match clo s with                      (* push db.mt to flushChan unless it is empty *)
            | CMt => match mt s with
                     | MtEmpty => Some (s |> set_clo CStopF)
                     | MtNil => None
                     | _ => if fclosed s then crash s
                            else if fch s <? cM c then Some (s |> set_fch (fch s + 1) |> set_mt MtNil |> set_clo CStopF)
                            else None
                     end
            | _ => None end
  | C_stopf => match clo s with CStopF => Some (s |> set_fclosed true |> set_clo CWaitF) | _ => None end
  | C_waitf => match clo s, fl s with             (* memtable closer done; then signal the compactors *)
               | CWaitF, FExited => Some (s |> set_csig true |> set_clo CWaitC)
               | _, _ => None end
  | C_waitc => match clo s with
               | CWaitC => if all_exited s then Some (s |> set_clo COrc) else None
               | _ => None end
  | C_orc => match clo s with                     (* ... db.orc.Stop() ...; return *)
             | COrc => if strict && negb (rdwait s =? 0) then None
                       else Some (s |> set_markalive false
                                    |> set_stale (stale s || negb (inflight_ts s =? 0)) |> set_clo CDone)
             | _ => None end
  (* ---- DropAll / DropPrefix ---- *)
  | D_sig => match drp s with DSig => Some (s |> set_sig true |> set_drp DWaitW) | _ => None end
  | D_waitw => match drp s, w s with DWaitW, WExited => Some (s |> set_drp (DDrain 0)) | _, _ => None end
  | D_drain => match drp s with
               | DDrain k => if wch s =? 0 then None else Some (s |> set_wch (wch s - 1) |> set_drp (DDrain (k + 1)))
               | _ => None end
  | D_default => match drp s, job s with          (* prepareToDrop: db.writeRequests(reqs) *)
                 | DDrain k, JNone => if wch s =? 0 then Some (s |> set_job (JRun k k) |> set_drp DWrite) else None
                 | _, _ => None end
  | D_stopf => match drp s with DStopF => Some (s |> set_fclosed true |> set_drp DWaitF) | _ => None end
  | D_waitf => match drp s, fl s with DWaitF, FExited => Some (s |> set_drp DView) | _, _ => None end
  | D_view =>                                     (* DropPrefix: filterPrefixesToDrop -> db.View -> readTs *)
      match drp s with
      | DView => if dkind s && (inflight_ts s =? 0) && negb (stale s) then Some (s |> set_drp DFlushMt) else None
      | _ => None end
  | D_noview => match drp s with                  (* DropAll reads nothing *)
                | DView => if dkind s then None else Some (s |> set_drp DFlushMt)
                | _ => None end
  | D_flushmt => match drp s with                 (* DropPrefix: handleMemTableFlush under db.lock *)
                 | DFlushMt => if negb (dkind s) then None else
                               match mt s with
                               | MtEmpty => Some (s |> set_drp DStopC)
                               | MtNil => None
                               | _ => if l0 s <? cS c then Some (s |> set_l0 (l0 s + 1) |> set_mt MtEmpty |> set_drp DStopC)
                                      else None
                               end
                 | _ => None end
  | D_skipmt => match drp s with                  (* DropAll: memtables are thrown away *)
                | DFlushMt => if dkind s then None else
                              match mt s with MtNil => None | _ => Some (s |> set_mt MtEmpty |> set_drp DStopC) end
                | _ => None end
  | D_stopc => match drp s with DStopC => Some (s |> set_csig true |> set_drp DWaitC) | _ => None end
  | D_waitc => match drp s with
               | DWaitC => if all_exited s then Some (s |> set_drp DDo) else None
               | _ => None end
  | D_do z => match drp s with
              | DDo => if z <=? l0 s then Some (s |> set_l0 z |> set_drp DRestart) else None
              | _ => None end
  | D_restart =>                                  (* startCompactions; startMemoryFlush; unblockWrite *)
      match drp s with
      | DRestart =>
          Some (s |> set_c0 (match cK c with 0 => CExit | _ => CIdle end) |> set_oidle (cK c - 1)
                  |> set_oexit 0 |> set_csig false |> set_fl FIdle |> set_fclosed false
                  |> set_w WIdle |> set_sig false |> set_bw false |> set_drp DNone
                  |> set_r_drop (r_drop s + 1))
      | _ => None end
  end.

Fixpoint exec (strict : bool) (c : cfg) (s : st) (ls : list lab) : option st :=
  match ls with
  | [] => Some s
  | l :: r => match step strict c s l with Some s' => exec strict c s' r | None => None end
  end.

Inductive reach (strict : bool) (c : cfg) : st -> Prop :=
  | reach_init : reach strict c (init c)
  | reach_step : forall s l s', reach strict c s -> step strict c s l = Some s' -> reach strict c s'.

(* ---- a scheduler: the first enabled work label among finitely many candidates ---- *)
Definition candidates : list lab :=
  [ K0_finishL0 1; KO_finishL0 1; K0_finishLi; KO_finishLi true; KO_finishLi false;
    F_add; F_take; F_exit; K0_startL0; K0_exit; KO_exit;
    J_done; J_write false; J_rotate;
    W_push; W_final; W_drain; W_default; W_recv; W_sig;
    H_ts; H_check; H_send; L_acq;
    G_check; G_send; G_done; R_pass;
    C_gc; C_sig; C_waitw; C_closech; C_mt; C_stopf; C_waitf; C_waitc; C_orc;
    D_sig; D_waitw; D_drain; D_default; D_stopf; D_waitf; D_view; D_noview; D_flushmt; D_skipmt;
    D_stopc; D_waitc; D_do 0; D_restart ].

Definition enabled (strict : bool) (c : cfg) (s : st) (l : lab) : bool :=
  match step strict c s l with Some _ => true | None => false end.

Definition sched (strict : bool) (c : cfg) (s : st) : option lab :=
  find (enabled strict c s) candidates.

(* run the scheduler for at most n steps *)
Fixpoint run (strict : bool) (c : cfg) (n : nat) (s : st) : st :=
  match n with
  | 0 => s
  | S n' => match sched strict c s with
            | Some l => match step strict c s l with Some s' => run strict c n' s' | None => s end
            | None => s
            end
  end.

(* ---- the progress measure ---- *)
Definition rk_hold (h : hst) : nat := match h with HNone => 0 | HLock => 13 | HTs => 12 | HPassed => 11 end.
Definition rk_w (x : wst) : nat :=
  match x with WIdle | WCollect _ => 4 | WClosed _ => 3 | WTok _ => 2 | WFinal | WExited => 0 end.
Definition rk_job (x : jst) : nat := match x with JNone => 0 | JRun k j => 1 + k + 6 * j end.
Definition rk_mt (x : mst) : nat := match x with MtFull => 5 | _ => 0 end.
Definition rk_fl (x : flst) : nat := match x with FIdle => 1 | FBuild => 4 | FExited => 0 end.
Definition rk_c0 (x : cst) : nat := match x with CIdle => 1 | CL0 => 0 | CLi _ => 2 | CExit => 0 end.
Definition rk_g (x : gst) : nat := match x with GIdle => 0 | GRun => 13 | GPassed => 12 | GWait => 1 end.
Definition rk_clo (x : cph) : nat :=
  match x with
  | CNot => 0 | CGC => 13 | CSigW => 12 | CWaitW => 11 | CCloseCh => 10 | CMt => 9 | CStopF => 4
  | CWaitF => 3 | CWaitC => 2 | COrc => 1 | CDone => 0
  end.
Definition rk_drp (c : cfg) (x : dph) : nat :=
  match x with
  | DNone => 0
  | DRestart => cK c + 10 | DDo => cK c + 11 | DWaitC => cK c + 12 | DStopC => cK c + 13
  | DFlushMt => cK c + 16 | DView => cK c + 17 | DWaitF => cK c + 18 | DStopF => cK c + 19
  | DWrite => cK c + 20 | DDrain _ => cK c + 22 | DWaitW => cK c + 23 | DSig => cK c + 24
  end.

Definition mu (c : cfg) (s : st) : nat :=
  14 * lockq s + rk_hold (hold s) + 10 * wch s + 9 * batchk (w s) + 9 * draink (drp s) + rk_w (w s)
  + rk_job (job s) + rk_mt (mt s) + 4 * fch s + rk_fl (fl s)
  + 2 * l0 s + rk_c0 (c0 s) + oidle s + 2 * oli s + 2 * olib s
  + rdwait s + rk_g (g s) + rk_clo (clo s) + rk_drp c (drp s).

(* ---- what the harness observes of a run ---- *)
Record obs := mkObs {
  o_ok : nat; o_blk : nat; o_rd : nat; o_drop : nat; o_dblk : nat;
  o_closed : bool;        (* Close returned *)
  o_crashed : bool;       (* the process panicked *)
  o_hung_commit : nat;    (* Commit callers that can never return *)
  o_hung_read : nat       (* NewTransaction callers that can never return *)
}.

Definition observe (s : st) : obs :=
  mkObs (r_ok s) (r_blk s) (r_rd s) (r_drop s) (r_dblk s)
        (match clo s with CDone => true | _ => false end) (crashed s)
        (lockq s + hts (hold s) + match hold s with HLock => 1 | _ => 0 end + reqs s) (rdwait s).

(* ---- witness schedules (replayed on the real DB by harness/deadlock.go where a hook exists) ---- *)
Definition cfgW : cfg := mkCfg 2 6 1 1 2 2.

(* Close runs from "writes closer signalled" to the exit of the writer goroutine *)
Definition close_to_writer_exit : list lab :=
  [C_gc; C_sig; W_sig; W_default; W_final; J_done; C_waitw].
(* ... and from close(writeCh) to its return (empty memtable) *)
Definition close_rest : list lab :=
  [C_closech; C_mt; C_stopf; F_exit; C_waitf; K0_exit; KO_exit; C_waitc; C_orc].

(* F14, hang flavour: a commit passes the blockWrites check; Close starts, the writer goroutine
   takes its last look at writeCh and exits; the commit sends (buffered, nobody will receive);
   Close returns nil; req.Wait() blocks for ever.  Hooks: sendToWriteCh.beforeSend parks the
   commit, close.beforeCloseWriteCh parks Close after the writer has exited. *)
Definition sched_f14_hang : list lab :=
  [E_commit; L_acq; H_ts; H_check; E_close] ++ close_to_writer_exit ++ [H_send] ++ close_rest.

(* F14, panic flavour: the send happens after close(db.writeCh) *)
Definition sched_f14_panic : list lab :=
  [E_commit; L_acq; H_ts; H_check; E_close] ++ close_to_writer_exit ++ close_rest ++ [H_send].

(* NewTransaction racing Close: a commit holds a timestamp (txnMark.Begin done), a NewTransaction
   waits for it in readTs; Close runs to the end (orc.Stop() stops the watermark goroutine);
   the commit then fails its blockWrites check and calls doneCommit, which nobody processes. *)
Definition sched_newtxn_hang : list lab :=
  [E_commit; L_acq; H_ts; E_read; E_close] ++ close_to_writer_exit ++ close_rest ++ [H_check].

(* DropPrefix racing a commit: the commit passes the blockWrites check; DropPrefix blocks writes,
   the writer exits, prepareToDrop drains; the commit sends (buffered until unblockWrite);
   DropPrefix's filterPrefixesToDrop opens a View whose readTs waits for that commit: cycle. *)
Definition sched_drop_hang : list lab :=
  [E_commit; L_acq; H_ts; H_check; E_drop true; D_sig; W_sig; W_default; W_final; J_done; D_waitw;
   D_default; J_done; H_send; D_stopf; F_exit; D_waitf].

(* without compactors (NumCompactors = 0 is accepted by Open) a level-0 stall is permanent *)
Definition cfg0 : cfg := mkCfg 2 6 1 0 1 0.
Definition one_commit : list lab := [E_commit; L_acq; H_ts; H_check; H_send; W_recv; W_push].
Definition sched_no_compactors : list lab :=
  one_commit ++ [J_write true; J_done]                       (* memtable 1 full *)
  ++ one_commit ++ [J_rotate; J_write true; J_done; F_take; F_add]   (* L0 = 1 = stall limit *)
  ++ one_commit ++ [J_rotate; J_write true; J_done; F_take]  (* flusher stalled on L0 *)
  ++ one_commit ++ [J_rotate; J_write true; J_done]          (* flushChan full *)
  ++ one_commit.                                             (* memtable full, no room: stuck *)
