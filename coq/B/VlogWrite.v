(* VlogWrite.v — the value-log half of the write path and the read path behind Item.Value:
     value.go   valueLog.write (per-request loop, write closure, toDisk), createVlogFile,
                getFileRLocked, readValueBytes, valueLog.Read
     memtable.go logFile.read
     db.go      writeToLSM (inline value vs value pointer)
     iterator.go Item.yieldItemValue
   A value-log file is modelled by the bytes below its write offset (lf.size); the 20-byte file
   header (key id + base IV) is opaque: hdr_of.  Record bytes are LogRecord.encode_entry.
   Definitions only; proofs in VlogWriteProofs.v *)
From Verif Require Import Bytes Uvarint Keys Codec Crc32c LogRecord Consts.
Open Scope N_scope.

Section Vlog.
  Variable encrypted : bool.
  Variable xs : bytes -> bytes -> bytes.
  Variable iv_of : N -> bytes.          (* base IV of file fid *)
  Variable hdr_of : N -> bytes.         (* the vlogHeaderSize bytes at the start of file fid *)
  Variable file_size max_entries : N.   (* opt.ValueLogFileSize, opt.ValueLogMaxEntries *)

  Record vlog := mkVlog {
    vl_files : list (N * bytes);        (* filesMap: fid -> bytes below lf.size *)
    vl_max : N;                         (* maxFid *)
    vl_woff : N;                        (* writableLogOffset *)
    vl_n : N }.                         (* numEntriesWritten *)

  Fixpoint fget (fs : list (N * bytes)) (fid : N) : option bytes :=
    match fs with
    | [] => None
    | (f, d) :: r => if f =? fid then Some d else fget r fid
    end.

  (* the write closure: copy(curlf.Data[start:], buf) at start = old write offset *)
  Fixpoint fapp (fs : list (N * bytes)) (fid : N) (x : bytes) : list (N * bytes) :=
    match fs with
    | [] => []
    | (f, d) :: r => if f =? fid then (f, d ++ x) :: r else (f, d) :: fapp r fid x
    end.

  (* e.meta &^ (bitTxn | bitFinTxn) *)
  Definition strip_txn (e : entry) : entry :=
    mkEntry (e_key e) (e_value e) (N.ldiff (e_meta e) (c_bitTxn + c_bitFinTxn)) (e_umeta e) (e_expires e).

  Definition zero_ptr : vptr := mkVptr 0 0 0.

  (* one entry that goes to the value log: p.Fid = curlf.fid; p.Offset = vlog.woffset();
     encodeEntry; p.Len = plen; write(buf) *)
  Definition enc_of (st : vlog) (e : entry) : bytes :=
    encode_entry encrypted xs (iv_of (vl_max st)) (strip_txn e) (vl_woff st).
  Definition put1_with (st : vlog) (enc : bytes) : vlog * vptr :=
    (mkVlog (fapp (vl_files st) (vl_max st) enc) (vl_max st)
            (vl_woff st + N.of_nat (length enc)) (vl_n st),
     mkVptr (vl_max st) (N.of_nat (length enc)) (vl_woff st)).
  Definition put1 (st : vlog) (e : entry) : vlog * vptr := put1_with st (enc_of st e).

  (* the loop over b.Entries; the bool is e.skipVlogAndSetThreshold(...) (Threshold.v) *)
  Fixpoint write_req (st : vlog) (es : list (entry * bool)) (written : N) : vlog * list vptr * N :=
    match es with
    | [] => (st, [], written)
    | (e, skip) :: r =>
        if skip then
          let '(st', ps, w) := write_req st r written in (st', zero_ptr :: ps, w)
        else
          let (st1, p) := put1 st e in
          let '(st', ps, w) := write_req st1 r (written + 1) in (st', p :: ps, w)
    end.

  (* toDisk: rotate when the offset passed the file size or too many entries were written;
     createVlogFile: fid = maxFid + 1, offset = vlogHeaderSize, numEntriesWritten = 0 *)
  Definition to_disk (st : vlog) : vlog :=
    if (file_size <? vl_woff st) || (max_entries <? vl_n st) then
      mkVlog (vl_files st ++ [(vl_max st + 1, hdr_of (vl_max st + 1))]) (vl_max st + 1) c_vlogHeaderSize 0
    else st.

  Definition write_one (st : vlog) (es : list (entry * bool)) : vlog * list vptr :=
    let '(st1, ps, w) := write_req st es 0 in
    (to_disk (mkVlog (vl_files st1) (vl_max st1) (vl_woff st1) (vl_n st1 + w)), ps).

  (* valueLog.write(reqs): one call of the writer with a batch of requests *)
  Fixpoint write_reqs (st : vlog) (reqs : list (list (entry * bool))) : vlog * list (list vptr) :=
    match reqs with
    | [] => (st, [])
    | es :: r => let (st1, ps) := write_one st es in
                 let (st2, pss) := write_reqs st1 r in (st2, ps :: pss)
    end.
  Definition write_call (st : vlog) (reqs : list (list (entry * bool))) : vlog * list (list vptr) :=
    let (st1, pss) := write_reqs st reqs in (to_disk st1, pss).

  (* a history of writer calls *)
  Fixpoint write_calls (st : vlog) (calls : list (list (list (entry * bool)))) : vlog * list (list (list vptr)) :=
    match calls with
    | [] => (st, [])
    | c :: r => let (st1, p) := write_call st c in
                let (st2, ps) := write_calls st1 r in (st2, p :: ps)
    end.

  (* valueLog.open on an empty directory: createVlogFile with maxFid = 0 *)
  Definition vlog_init : vlog := mkVlog [(1, hdr_of 1)] 1 c_vlogHeaderSize 0.

  (* ---- reading ---- *)
  (* getFileRLocked + logFile.read: None = error (file gone, offset at or past the write
     offset of the writable file, or the range is not inside the file) *)
  Definition read_bytes (st : vlog) (p : vptr) : option bytes :=
    match fget (vl_files st) (vp_fid p) with
    | None => None
    | Some d =>
        if (vp_fid p =? vl_max st) && (vl_woff st <=? vp_off p) then None
        else if (N.of_nat (length d) <=? vp_off p) || (N.of_nat (length d) <? vp_off p + vp_len p) then None
        else Some (firstn (N.to_nat (vp_len p)) (skipn (N.to_nat (vp_off p)) d))
    end.

  (* valueLog.Read: header decode, decrypt, kv[klen : klen+vlen] *)
  Definition read_value (st : vlog) (p : vptr) : option bytes :=
    match read_bytes st p with
    | None => None
    | Some buf =>
        match decode_entry encrypted xs (iv_of (vp_fid p)) buf (vp_off p) with
        | Some e => Some (e_value e)
        | None => None
        end
    end.

  (* db.writeToLSM: what is put into the memtable for entry e with pointer p *)
  Definition lsm_value (e : entry) (skip : bool) (p : vptr) : value_struct :=
    if skip then mkVS (N.ldiff (e_meta e) c_bitValuePointer) (e_umeta e) (e_expires e) (e_value e)
    else mkVS (N.lor (e_meta e) c_bitValuePointer) (e_umeta e) (e_expires e) (vptr_encode p).

  (* Item.yieldItemValue on the stored value struct *)
  Definition item_value (st : vlog) (vs : value_struct) : option bytes :=
    if N.land (vs_meta vs) c_bitValuePointer =? 0 then Some (vs_value vs)
    else match vptr_decode (vs_value vs) with
         | Some p => read_value st p
         | None => None
         end.
End Vlog.
