(* TxnProofs.v — conflict detection, serializability and commit atomicity over all label
   sequences accepted by the system model (Sys.step) and by its extension with commits
   rejected after timestamp allocation (SysRejected.xstep).  Statements: props/C02.v, props/C03.v. *)
From Verif Require Import Bytes BytesProofs Keys C20Proofs Consts Spec Lsm Compact Iter Sys SysRejected TxnLog.
From Verif Require Import LsmProofs CompactProofs GetProofs MergeProofs C12Proofs SysProofs.
From Coq Require Import ZifyN ZifyNat ZifyBool Sorting.Sorted.
Open Scope N_scope.

(* ---------------------------------------------------------------------------------------- *)
(* association lists                                                                         *)
Lemma lookup_update {A} (l : list (N * A)) t a t' :
  lookup (update l t a) t' = if t =? t' then Some a else lookup l t'.
Proof.
  induction l as [|[j b] l IH]; cbn.
  - destruct (t =? t'); reflexivity.
  - destruct (j =? t) eqn:E; cbn.
    + apply N.eqb_eq in E. subst j. destruct (t =? t'); reflexivity.
    + rewrite IH. destruct (t =? t') eqn:E2; auto.
      apply N.eqb_eq in E2. subst t'. now rewrite E.
Qed.

Definition txns_ok (Q : txn -> Prop) (l : list (N * txn)) : Prop :=
  forall t x, lookup l t = Some x -> Q x.

Lemma txns_ok_update Q l t x : txns_ok Q l -> Q x -> txns_ok Q (update l t x).
Proof.
  intros H Hx t' x'. rewrite lookup_update. destruct (t =? t'); [intros [= <-]; auto|apply H].
Qed.

(* ---------------------------------------------------------------------------------------- *)
(* replay functions: run / xrun / Sys.exec / xexec agree                                     *)
Lemma run_exec s L ops i s' :
  fst (exec s ops i) = None /\ snd (exec s ops i) = s' <-> exists L', run s L ops = Some (s', L').
Proof.
  revert s L i. induction ops as [|o r IH]; intros s L i; cbn [exec run].
  - cbn. split; [intros [_ <-]; eauto|intros (L' & [= <- _]); auto].
  - destruct (step s o) as [s1|c]; [apply IH|].
    cbn. split; [intros [H _]; discriminate|intros (L' & H); discriminate].
Qed.

Lemma exec_run s ops s' :
  exec s ops 0 = (None, s') -> exists L, run s [] ops = Some (s', L).
Proof. intros H. apply (run_exec s [] ops 0 s'). rewrite H. auto. Qed.

Lemma run_history s ops s' L : run s [] ops = Some (s', L) -> history s ops = L.
Proof. unfold history. now intros ->. Qed.

Lemma exec_history s ops s' :
  exec s ops 0 = (None, s') -> run s [] ops = Some (s', history s ops).
Proof. intros H. destruct (exec_run _ _ _ H) as (L & HL). now rewrite (run_history _ _ _ _ HL). Qed.

Lemma xstep_base fx s o :
  xstep fx (mkX s false) (Base o) = lift false (step s o).
Proof. destruct o; reflexivity. Qed.

Lemma xcommit_rec_base fx s o :
  xcommit_rec fx (mkX s false) (Base o) = commit_rec s o.
Proof. destruct o; reflexivity. Qed.

Lemma run_xrun fx s L ops :
  xrun fx (mkX s false) L (map Base ops) =
  match run s L ops with Some (s', L') => Some (mkX s' false, L') | None => None end.
Proof.
  revert s L. induction ops as [|o r IH]; intros s L; cbn [map xrun run]; auto.
  rewrite xstep_base, xcommit_rec_base. destruct (step s o) as [s1|c]; cbn [lift]; auto.
Qed.

Lemma xrun_xexec fx s L ops i s' :
  fst (xexec fx s ops i) = None /\ snd (xexec fx s ops i) = s' <-> exists L', xrun fx s L ops = Some (s', L').
Proof.
  revert s L i. induction ops as [|o r IH]; intros s L i; cbn [xexec xrun].
  - cbn. split; [intros [_ <-]; eauto|intros (L' & [= <- _]); auto].
  - destruct (xstep fx s o) as [s1|c]; [apply IH|].
    cbn. split; [intros [H _]; discriminate|intros (L' & H); discriminate].
Qed.

(* ---------------------------------------------------------------------------------------- *)
(* reachable (state, log) pairs                                                              *)
Inductive xreach (P : xop -> Prop) (fx : bool) (s0 : xsys) : xsys -> list crec -> Prop :=
| xr_init : xreach P fx s0 s0 []
| xr_step s L o s' :
    xreach P fx s0 s L -> P o -> xstep fx s o = XOk s' ->
    xreach P fx s0 s' (L ++ xcommit_rec fx s o).

Lemma xreach_mono (P Q : xop -> Prop) fx s0 s L :
  (forall o, P o -> Q o) -> xreach P fx s0 s L -> xreach Q fx s0 s L.
Proof. intros H R. induction R; econstructor; eauto. Qed.

Lemma xrun_reach P fx s0 s L ops s' L' :
  Forall P ops -> xreach P fx s0 s L -> xrun fx s L ops = Some (s', L') -> xreach P fx s0 s' L'.
Proof.
  intros HF. revert s L. induction HF as [|o r Ho HF IH]; intros s L R; cbn [xrun].
  - intros [= <- <-]. exact R.
  - destruct (xstep fx s o) as [s1|c] eqn:E; [|discriminate]. apply IH. econstructor; eauto.
Qed.

Lemma run_reach P fx s0 ops s L :
  Forall P (map Base ops) -> run s0 [] ops = Some (s, L) ->
  xreach P fx (mkX s0 false) (mkX s false) L.
Proof.
  intros HF H. eapply xrun_reach; [exact HF|constructor|]. rewrite run_xrun, H. reflexivity.
Qed.

Lemma Forall_map_base (P : op -> Prop) (Q : xop -> Prop) ops :
  (forall o, P o -> Q (Base o)) -> Forall P ops -> Forall Q (map Base ops).
Proof. intros H HF. induction HF; cbn; constructor; auto. Qed.

Definition any_xop (o : xop) : Prop := True.
Lemma Forall_any ops : Forall any_xop ops.
Proof. induction ops; constructor; auto. exact I. Qed.

(* ---------------------------------------------------------------------------------------- *)
(* the outcomes of Commit, as a case list                                                    *)
Definition commit_ts (s : sys) (cts : N) : N := if s_managed s then cts else s_next s.
Definition commit_next (s : sys) : N := if s_managed s then s_next s else s_next s + 1.

Definition applied_state (s : sys) (t : N) (x : txn) (cts : N) : sys :=
  let ts := commit_ts s cts in
  mkSys (apply_entries (s_db s) (commit_entries x ts)) (commit_next s)
        (if s_detect s then s_committed s ++ [(ts, map fst (x_pend x))] else s_committed s)
        (update (s_txns s) t (discard_txn x))
        (s_managed s) (s_detect s) (s_nkeep s) (s_discard s) (s_writes s ++ commit_entries x ts) (s_now s).

Definition rejected_state (fx : bool) (s : sys) (t : N) (x : txn) (cts : N) : sys :=
  let ts := commit_ts s cts in
  mkSys (s_db s) (commit_next s)
        (if s_detect s && negb fx then s_committed s ++ [(ts, map fst (x_pend x))] else s_committed s)
        (update (s_txns s) t (discard_txn x))
        (s_managed s) (s_detect s) (s_nkeep s) (s_discard s) (s_writes s) (s_now s).

Lemma txn_commit_cases s t x cts :
  (x_pend x = [] /\ txn_commit s t x cts = (0, 0, set_txn s t (discard_txn x))) \/
  (x_pend x <> [] /\ x_done x = true /\ txn_commit s t x cts = (5, 0, s)) \/
  (x_pend x <> [] /\ x_done x = false /\ (s_detect s && has_conflict s x) = true /\
     txn_commit s t x cts = (1, 0, set_txn s t (discard_txn x))) \/
  (x_pend x <> [] /\ x_done x = false /\ (s_detect s && has_conflict s x) = false /\
     txn_commit s t x cts = (0, commit_ts s cts, applied_state s t x cts)).
Proof.
  unfold txn_commit. destruct (x_pend x) as [|p ps] eqn:Ep.
  - left. split; reflexivity.
  - right. destruct (x_done x).
    + left. repeat split; auto. discriminate.
    + right. destruct (s_detect s && has_conflict s x) eqn:Ec.
      * left. repeat split; auto. discriminate.
      * right. repeat split; auto; try discriminate.
        unfold applied_state, commit_ts, commit_next. rewrite Ep. reflexivity.
Qed.

Lemma rejected_commit_cases fx s t x cts code :
  (x_pend x = [] /\ rejected_commit fx s t x cts code = (0, 0, set_txn s t (discard_txn x))) \/
  (x_pend x <> [] /\ x_done x = true /\ rejected_commit fx s t x cts code = (5, 0, s)) \/
  (x_pend x <> [] /\ x_done x = false /\ (s_detect s && has_conflict s x) = true /\
     rejected_commit fx s t x cts code = (1, 0, set_txn s t (discard_txn x))) \/
  (x_pend x <> [] /\ x_done x = false /\ (s_detect s && has_conflict s x) = false /\
     rejected_commit fx s t x cts code = (code, commit_ts s cts, rejected_state fx s t x cts)).
Proof.
  unfold rejected_commit. destruct (x_pend x) as [|p ps] eqn:Ep.
  - left. split; reflexivity.
  - right. destruct (x_done x).
    + left. repeat split; auto. discriminate.
    + right. destruct (s_detect s && has_conflict s x) eqn:Ec.
      * left. repeat split; auto. discriminate.
      * right. repeat split; auto; try discriminate.
        unfold rejected_state, commit_ts, commit_next. rewrite Ep. reflexivity.
Qed.

Lemma nonempty_true {A} (l : list A) : l <> [] -> nonempty l = true.
Proof. destruct l; [congruence|reflexivity]. Qed.

(* what a label that got a commit timestamp does: the record and the post-state *)
Inductive commit_outcome (fx : bool) (s : xsys) (o : xop) (s' : xsys) : Prop :=
| co_none :                       (* no timestamp handed out *)
    xcommit_rec fx s o = [] ->
    s_committed (x_base s') = s_committed (x_base s) ->
    s_writes (x_base s') = s_writes (x_base s) ->
    s_next (x_base s') = s_next (x_base s) ->
    commit_outcome fx s o s'
| co_some t x cts ap :
    lookup (s_txns (x_base s)) t = Some x -> x_pend x <> [] -> x_done x = false ->
    (s_detect (x_base s) && has_conflict (x_base s) x) = false ->
    xcommit_rec fx s o = [rec_of t x (commit_ts (x_base s) cts) ap] ->
    x_base s' = (if ap then applied_state (x_base s) t x cts else rejected_state fx (x_base s) t x cts) ->
    commit_outcome fx s o s'.

Ltac step_inv H :=
  repeat match type of H with
  | context [match ?e with _ => _ end] => destruct e eqn:?; try discriminate
  end.

Lemma lift_ok b r s' : lift b r = XOk s' -> exists s1, r = Ok s1 /\ s' = mkX s1 b.
Proof. destruct r; cbn; [intros [= <-]; eauto|discriminate]. Qed.

Lemma xstep_outcome fx s o s' : xstep fx s o = XOk s' -> commit_outcome fx s o s'.
Proof.
  intros H. destruct o as [o|on|t cts].
  - destruct o;
    try (unfold xstep in H; apply lift_ok in H; destruct H as (s1 & H & ->); unfold step in H;
         step_inv H; inversion H; subst; apply co_none; reflexivity).
    (* Commit *)
    unfold xstep in H. destruct (x_blocked s) eqn:Eb.
    + destruct (lookup (s_txns (x_base s)) t) as [x|] eqn:El; [|discriminate].
      destruct (rejected_commit_cases fx (x_base s) t x cts c_errBlocked)
        as [(Ep & E)|[(Ep & Ed & E)|[(Ep & Ed & Ec & E)|(Ep & Ed & Ec & E)]]]; rewrite E in H;
        destruct (_ =? r); try discriminate; inversion H; subst.
      * apply co_none; auto. cbn [xcommit_rec]. rewrite Eb. unfold rejected_rec. rewrite El, E, Ep. cbn.
        rewrite ?andb_false_r; reflexivity.
      * apply co_none; auto. cbn [xcommit_rec]. rewrite Eb. unfold rejected_rec. rewrite El, E, Ed.
        rewrite ?andb_false_r; reflexivity.
      * apply co_none; auto. cbn [xcommit_rec]. rewrite Eb. unfold rejected_rec. now rewrite El, E.
      * eapply (co_some fx s _ _ t x cts false); eauto.
        cbn [xcommit_rec]. rewrite Eb. unfold rejected_rec. rewrite El, E, Ed, (nonempty_true _ Ep). reflexivity.
    + apply lift_ok in H. destruct H as (s1 & H & ->). unfold step in H.
      destruct (lookup (s_txns (x_base s)) t) as [x|] eqn:El; [|discriminate].
      destruct (txn_commit_cases (x_base s) t x cts)
        as [(Ep & E)|[(Ep & Ed & E)|[(Ep & Ed & Ec & E)|(Ep & Ed & Ec & E)]]]; rewrite E in H;
        destruct (_ && _) eqn:Ecode in H; try discriminate; inversion H; subst.
      * apply co_none; auto. cbn [xcommit_rec]. rewrite Eb. unfold commit_rec. rewrite El, E, Ep. cbn.
        rewrite ?andb_false_r; reflexivity.
      * apply co_none; auto. cbn [xcommit_rec]. rewrite Eb. unfold commit_rec. now rewrite El, E.
      * apply co_none; auto. cbn [xcommit_rec]. rewrite Eb. unfold commit_rec. now rewrite El, E.
      * eapply (co_some fx s _ _ t x cts true); eauto.
        cbn [xcommit_rec]. rewrite Eb. unfold commit_rec. rewrite El, E, (nonempty_true _ Ep). reflexivity.
  - cbn in H. inversion H; subst. apply co_none; reflexivity.
  - unfold xstep in H.
    destruct (lookup (s_txns (x_base s)) t) as [x|] eqn:El; [|discriminate].
    destruct (rejected_commit_cases fx (x_base s) t x cts c_errTooBig)
      as [(Ep & E)|[(Ep & Ed & E)|[(Ep & Ed & Ec & E)|(Ep & Ed & Ec & E)]]]; rewrite E in H;
      cbn in H; try discriminate; inversion H; subst.
    eapply (co_some fx s _ _ t x cts false); eauto.
    cbn [xcommit_rec]. unfold rejected_rec. rewrite El, E, Ed, (nonempty_true _ Ep). reflexivity.
Qed.

(* every label leaves the mode flags alone *)
Lemma xstep_flags fx s o s' : xstep fx s o = XOk s' ->
  s_managed (x_base s') = s_managed (x_base s) /\ s_detect (x_base s') = s_detect (x_base s).
Proof.
  intros H. destruct o as [o|on|t cts].
  - destruct o;
    try (unfold xstep in H; apply lift_ok in H; destruct H as (s1 & H & ->); unfold step in H;
         step_inv H; inversion H; subst; split; reflexivity).
    unfold xstep in H. destruct (x_blocked s) eqn:Eb.
    + destruct (lookup (s_txns (x_base s)) t) as [x|] eqn:El; [|discriminate].
      destruct (rejected_commit_cases fx (x_base s) t x cts c_errBlocked)
        as [(Ep & E)|[(Ep & Ed & E)|[(Ep & Ed & Ec & E)|(Ep & Ed & Ec & E)]]]; rewrite E in H;
        destruct (_ =? r); try discriminate; inversion H; subst; split; reflexivity.
    + apply lift_ok in H. destruct H as (s1 & H & ->). unfold step in H.
      destruct (lookup (s_txns (x_base s)) t) as [x|] eqn:El; [|discriminate].
      destruct (txn_commit_cases (x_base s) t x cts)
        as [(Ep & E)|[(Ep & Ed & E)|[(Ep & Ed & Ec & E)|(Ep & Ed & Ec & E)]]]; rewrite E in H;
        destruct (_ && _) eqn:Ecode in H; try discriminate; inversion H; subst; split; reflexivity.
  - cbn in H. inversion H; subst. split; reflexivity.
  - unfold xstep in H.
    destruct (lookup (s_txns (x_base s)) t) as [x|] eqn:El; [|discriminate].
    destruct (rejected_commit_cases fx (x_base s) t x cts c_errTooBig)
      as [(Ep & E)|[(Ep & Ed & E)|[(Ep & Ed & Ec & E)|(Ep & Ed & Ec & E)]]]; rewrite E in H;
      cbn in H; try discriminate; inversion H; subst; split; reflexivity.
Qed.

(* how a label changes the transaction table: every transaction of the post-state is an old one,
   a fresh one (Begin), or an old one after Modify / a read being recorded / Discard *)
Inductive txn_evolved (s : xsys) (o : xop) (t : N) (x' : txn) : Prop :=
| te_same : lookup (s_txns (x_base s)) t = Some x' -> txn_evolved s o t x'
| te_begin upd : o = Base (Begin t upd (x_read x')) -> x' = mkTxn (x_read x') upd [] [] [] false ->
    txn_evolved s o t x'
| te_modify x e r : lookup (s_txns (x_base s)) t = Some x -> o = Base (Modify t e r) ->
    x' = snd (txn_modify x e) -> txn_evolved s o t x'
| te_reads x rd : lookup (s_txns (x_base s)) t = Some x ->
    x' = mkTxn (x_read x) (x_update x) rd (x_pend x) (x_dups x) (x_done x) -> txn_evolved s o t x'
| te_discard x : lookup (s_txns (x_base s)) t = Some x -> x' = discard_txn x -> txn_evolved s o t x'.

Lemma txn_get_shape s x k :
  snd (txn_get s x k) = x \/
  snd (txn_get s x k) = mkTxn (x_read x) (x_update x) (k :: x_reads x) (x_pend x) (x_dups x) (x_done x).
Proof.
  unfold txn_get. destruct k as [|b k]; [now left|]. destruct (x_done x); [now left|].
  destruct (if x_update x then klookup (x_pend x) (b :: k) else None) as [e|].
  - destruct (deleted_or_expired e (s_now s)); now left.
  - destruct (x_update x).
    + right. destruct (db_get (s_db s) (b :: k) (x_read x)) as [e|]; [destruct (deleted_or_expired e (s_now s))|]; reflexivity.
    + left. destruct (db_get (s_db s) (b :: k) (x_read x)) as [e|]; [destruct (deleted_or_expired e (s_now s))|]; reflexivity.
Qed.

Lemma set_txn_evolved s0 s t x t' x' (o : xop) :
  lookup (s_txns (set_txn s t x)) t' = Some x' ->
  (t = t' -> x' = x -> txn_evolved s0 o t' x') ->
  (lookup (s_txns s) t' = Some x' -> txn_evolved s0 o t' x') ->
  txn_evolved s0 o t' x'.
Proof.
  cbn [set_txn s_txns]. rewrite lookup_update. destruct (t =? t') eqn:E.
  - apply N.eqb_eq in E. intros [= <-] H _. now apply H.
  - intros H _ H2. now apply H2.
Qed.

Lemma destruct_txn x : x = mkTxn (x_read x) (x_update x) (x_reads x) (x_pend x) (x_dups x) (x_done x).
Proof. destruct x; reflexivity. Qed.

Lemma xstep_txns fx s o s' t' x' :
  xstep fx s o = XOk s' -> lookup (s_txns (x_base s')) t' = Some x' -> txn_evolved s o t' x'.
Proof.
  intros H L'.
  assert (Hdisc: forall t x b, lookup (s_txns (x_base s)) t = Some x -> x_base s' = set_txn b t (discard_txn x) ->
             s_txns b = s_txns (x_base s) -> txn_evolved s o t' x').
  { intros t x b El Es Eb. rewrite Es in L'. eapply set_txn_evolved; [exact L'| |].
    - intros <- ->. eapply te_discard; eauto.
    - rewrite Eb. apply te_same. }
  destruct o as [o|on|t cts].
  - destruct o.
    + (* Begin *)
      unfold xstep in H. apply lift_ok in H. destruct H as (s1 & H & ->). unfold step in H.
      destruct (_ || _); [|discriminate]. inversion H; subst. cbn [x_base] in L'.
      eapply set_txn_evolved; [exact L'| |apply te_same].
      intros <- ->. eapply te_begin; reflexivity.
    + (* Modify *)
      unfold xstep in H. apply lift_ok in H. destruct H as (s1 & H & ->). unfold step in H.
      destruct (lookup (s_txns (x_base s)) t) as [x|] eqn:El; [|discriminate].
      destruct (txn_modify x e) as [r' x1] eqn:Em. destruct (r' =? r); [|discriminate].
      inversion H; subst. cbn [x_base] in L'.
      eapply set_txn_evolved; [exact L'| |apply te_same].
      intros <- ->. eapply te_modify; eauto. now rewrite Em.
    + (* Get *)
      unfold xstep in H. apply lift_ok in H. destruct H as (s1 & H & ->). unfold step in H.
      destruct (lookup (s_txns (x_base s)) t) as [x|] eqn:El; [|discriminate].
      destruct (txn_get (x_base s) x k) as [r' x1] eqn:Eg. destruct (getres_eqb r' r); [|discriminate].
      inversion H; subst. cbn [x_base] in L'.
      eapply set_txn_evolved; [exact L'| |apply te_same].
      intros <- ->. pose proof (txn_get_shape (x_base s) x k) as Sh. rewrite Eg in Sh. cbn [snd] in Sh.
      destruct Sh as [->| ->]; [now apply te_same|eapply te_reads; eauto].
    + (* Iterate *)
      unfold xstep in H. apply lift_ok in H. destruct H as (s1 & H & ->). unfold step in H.
      destruct (lookup (s_txns (x_base s)) t) as [x|] eqn:El; [|discriminate].
      destruct (entries_eqb _ _); [|discriminate].
      inversion H; subst. cbn [x_base] in L'.
      eapply set_txn_evolved; [exact L'| |apply te_same].
      intros <- ->. destruct (x_update x) eqn:Eu; [eapply te_reads; eauto; rewrite Eu; reflexivity|now apply te_same].
    + (* Commit *)
      unfold xstep in H. destruct (x_blocked s) eqn:Eb.
      * destruct (lookup (s_txns (x_base s)) t) as [x|] eqn:El; [|discriminate].
        destruct (rejected_commit_cases fx (x_base s) t x cts c_errBlocked)
          as [(Ep & E)|[(Ep & Ed & E)|[(Ep & Ed & Ec & E)|(Ep & Ed & Ec & E)]]]; rewrite E in H;
          destruct (_ =? r); try discriminate; inversion H; subst; cbn [x_base] in *.
        -- eapply Hdisc; eauto; reflexivity.
        -- now apply te_same.
        -- eapply Hdisc; eauto; reflexivity.
        -- unfold rejected_state in L'. cbn [s_txns] in L'.
           eapply set_txn_evolved with (s:=x_base s); [exact L'| |apply te_same].
           intros <- ->. eapply te_discard; eauto.
      * apply lift_ok in H. destruct H as (s1 & H & ->). unfold step in H.
        destruct (lookup (s_txns (x_base s)) t) as [x|] eqn:El; [|discriminate].
        destruct (txn_commit_cases (x_base s) t x cts)
          as [(Ep & E)|[(Ep & Ed & E)|[(Ep & Ed & Ec & E)|(Ep & Ed & Ec & E)]]]; rewrite E in H;
          destruct (_ && _) eqn:Ecode in H; try discriminate; inversion H; subst; cbn [x_base] in *.
        -- eapply Hdisc; eauto; reflexivity.
        -- now apply te_same.
        -- eapply Hdisc; eauto; reflexivity.
        -- unfold applied_state in L'. cbn [s_txns] in L'.
           eapply set_txn_evolved with (s:=x_base s); [exact L'| |apply te_same].
           intros <- ->. eapply te_discard; eauto.
    + (* Discard *)
      unfold xstep in H. apply lift_ok in H. destruct H as (s1 & H & ->). unfold step in H.
      destruct (lookup (s_txns (x_base s)) t) as [x|] eqn:El; [|discriminate].
      inversion H; subst. cbn [x_base] in L'. eapply Hdisc; eauto; reflexivity.
    + unfold xstep in H. apply lift_ok in H. destruct H as (s1 & H & ->). unfold step in H.
      inversion H; subst. now apply te_same.
    + unfold xstep in H. apply lift_ok in H. destruct H as (s1 & H & ->). unfold step in H.
      step_inv H; inversion H; subst. now apply te_same.
    + unfold xstep in H. apply lift_ok in H. destruct H as (s1 & H & ->). unfold step in H.
      inversion H; subst. now apply te_same.
    + unfold xstep in H. apply lift_ok in H. destruct H as (s1 & H & ->). unfold step in H.
      inversion H; subst. now apply te_same.
    + unfold xstep in H. apply lift_ok in H. destruct H as (s1 & H & ->). unfold step in H.
      step_inv H; inversion H; subst. now apply te_same.
    + unfold xstep in H. apply lift_ok in H. destruct H as (s1 & H & ->). unfold step in H.
      step_inv H; inversion H; subst. now apply te_same.
  - cbn in H. inversion H; subst. now apply te_same.
  - unfold xstep in H.
    destruct (lookup (s_txns (x_base s)) t) as [x|] eqn:El; [|discriminate].
    destruct (rejected_commit_cases fx (x_base s) t x cts c_errTooBig)
      as [(Ep & E)|[(Ep & Ed & E)|[(Ep & Ed & Ec & E)|(Ep & Ed & Ec & E)]]]; rewrite E in H;
      cbn in H; try discriminate; inversion H; subst; cbn [x_base] in *.
    unfold rejected_state in L'. cbn [s_txns] in L'.
    eapply set_txn_evolved with (s:=x_base s); [exact L'| |apply te_same].
    intros <- ->. eapply te_discard; eauto.
Qed.
