(* TxnProofs.v — conflict detection, serializability and commit atomicity over all label
   sequences accepted by the system model (Sys.step) and by its extension with commits
   rejected after timestamp allocation (SysRejected.xstep).  Statements: props/C02.v, props/C03.v. *)
From Verif Require Import Bytes BytesProofs Keys C20Proofs Consts Spec Lsm Compact Iter Sys SysRejected TxnLog.
From Verif Require Import LsmProofs CompactProofs GetProofs MergeProofs C12Proofs SysProofs.
From Coq Require Import ZifyN ZifyNat ZifyBool Sorting.Sorted.
Open Scope N_scope.

(* ---------------------------------------------------------------------------------------- *)
(* association lists                                                                         *)
Lemma lookup_update {A} (l : list (N * A)) t a t' :
  lookup (update l t a) t' = if t =? t' then Some a else lookup l t'.
Proof.
  induction l as [|[j b] l IH]; cbn.
  - destruct (t =? t'); reflexivity.
  - destruct (j =? t) eqn:E; cbn.
    + apply N.eqb_eq in E. subst j. destruct (t =? t'); reflexivity.
    + rewrite IH. destruct (t =? t') eqn:E2; auto.
      apply N.eqb_eq in E2. subst t'. now rewrite E.
Qed.

Definition txns_ok (Q : txn -> Prop) (l : list (N * txn)) : Prop :=
  forall t x, lookup l t = Some x -> Q x.

Lemma txns_ok_update Q l t x : txns_ok Q l -> Q x -> txns_ok Q (update l t x).
Proof.
  intros H Hx t' x'. rewrite lookup_update. destruct (t =? t'); [intros [= <-]; auto|apply H].
Qed.

(* ---------------------------------------------------------------------------------------- *)
(* replay functions: run / xrun / Sys.exec / xexec agree                                     *)
Lemma run_exec s L ops i s' :
  fst (exec s ops i) = None /\ snd (exec s ops i) = s' <-> exists L', run s L ops = Some (s', L').
Proof.
  revert s L i. induction ops as [|o r IH]; intros s L i; cbn [exec run].
  - cbn. split; [intros [_ <-]; eauto|intros (L' & [= <- _]); auto].
  - destruct (step s o) as [s1|c]; [apply IH|].
    cbn. split; [intros [H _]; discriminate|intros (L' & H); discriminate].
Qed.

Lemma exec_run s ops s' :
  exec s ops 0 = (None, s') -> exists L, run s [] ops = Some (s', L).
Proof. intros H. apply (run_exec s [] ops 0 s'). rewrite H. auto. Qed.

Lemma run_history s ops s' L : run s [] ops = Some (s', L) -> history s ops = L.
Proof. unfold history. now intros ->. Qed.

Lemma exec_history s ops s' :
  exec s ops 0 = (None, s') -> run s [] ops = Some (s', history s ops).
Proof. intros H. destruct (exec_run _ _ _ H) as (L & HL). now rewrite (run_history _ _ _ _ HL). Qed.

Lemma xstep_base fx s o :
  xstep fx (mkX s false) (Base o) = lift false (step s o).
Proof. destruct o; reflexivity. Qed.

Lemma xcommit_rec_base fx s o :
  xcommit_rec fx (mkX s false) (Base o) = commit_rec s o.
Proof. destruct o; reflexivity. Qed.

Lemma run_xrun fx s L ops :
  xrun fx (mkX s false) L (map Base ops) =
  match run s L ops with Some (s', L') => Some (mkX s' false, L') | None => None end.
Proof.
  revert s L. induction ops as [|o r IH]; intros s L; cbn [map xrun run]; auto.
  rewrite xstep_base, xcommit_rec_base. destruct (step s o) as [s1|c]; cbn [lift]; auto.
Qed.

Lemma xrun_xexec fx s L ops i s' :
  fst (xexec fx s ops i) = None /\ snd (xexec fx s ops i) = s' <-> exists L', xrun fx s L ops = Some (s', L').
Proof.
  revert s L i. induction ops as [|o r IH]; intros s L i; cbn [xexec xrun].
  - cbn. split; [intros [_ <-]; eauto|intros (L' & [= <- _]); auto].
  - destruct (xstep fx s o) as [s1|c]; [apply IH|].
    cbn. split; [intros [H _]; discriminate|intros (L' & H); discriminate].
Qed.

(* ---------------------------------------------------------------------------------------- *)
(* reachable (state, log) pairs                                                              *)
Inductive xreach (P : xop -> Prop) (fx : bool) (s0 : xsys) : xsys -> list crec -> Prop :=
| xr_init : xreach P fx s0 s0 []
| xr_step s L o s' :
    xreach P fx s0 s L -> P o -> xstep fx s o = XOk s' ->
    xreach P fx s0 s' (L ++ xcommit_rec fx s o).

Lemma xreach_mono (P Q : xop -> Prop) fx s0 s L :
  (forall o, P o -> Q o) -> xreach P fx s0 s L -> xreach Q fx s0 s L.
Proof. intros H R. induction R; econstructor; eauto. Qed.

Lemma xrun_reach P fx s0 s L ops s' L' :
  Forall P ops -> xreach P fx s0 s L -> xrun fx s L ops = Some (s', L') -> xreach P fx s0 s' L'.
Proof.
  intros HF. revert s L. induction HF as [|o r Ho HF IH]; intros s L R; cbn [xrun].
  - intros [= <- <-]. exact R.
  - destruct (xstep fx s o) as [s1|c] eqn:E; [|discriminate]. apply IH. econstructor; eauto.
Qed.

Lemma run_reach P fx s0 ops s L :
  Forall P (map Base ops) -> run s0 [] ops = Some (s, L) ->
  xreach P fx (mkX s0 false) (mkX s false) L.
Proof.
  intros HF H. eapply xrun_reach; [exact HF|constructor|]. rewrite run_xrun, H. reflexivity.
Qed.

Lemma Forall_map_base (P : op -> Prop) (Q : xop -> Prop) ops :
  (forall o, P o -> Q (Base o)) -> Forall P ops -> Forall Q (map Base ops).
Proof. intros H HF. induction HF; cbn; constructor; auto. Qed.

Definition any_xop (o : xop) : Prop := True.
Lemma Forall_any ops : Forall any_xop ops.
Proof. induction ops; constructor; auto. exact I. Qed.

(* ---------------------------------------------------------------------------------------- *)
(* the outcomes of Commit, as a case list                                                    *)
Definition commit_ts (s : sys) (cts : N) : N := if s_managed s then cts else s_next s.
Definition commit_next (s : sys) : N := if s_managed s then s_next s else s_next s + 1.

Definition applied_state (s : sys) (t : N) (x : txn) (cts : N) : sys :=
  let ts := commit_ts s cts in
  mkSys (apply_entries (s_db s) (commit_entries x ts)) (commit_next s)
        (if s_detect s then s_committed s ++ [(ts, map fst (x_pend x))] else s_committed s)
        (update (s_txns s) t (discard_txn x))
        (s_managed s) (s_detect s) (s_nkeep s) (s_discard s) (s_writes s ++ commit_entries x ts) (s_now s).

Definition rejected_state (fx : bool) (s : sys) (t : N) (x : txn) (cts : N) : sys :=
  let ts := commit_ts s cts in
  mkSys (s_db s) (commit_next s)
        (if s_detect s && negb fx then s_committed s ++ [(ts, map fst (x_pend x))] else s_committed s)
        (update (s_txns s) t (discard_txn x))
        (s_managed s) (s_detect s) (s_nkeep s) (s_discard s) (s_writes s) (s_now s).

Lemma txn_commit_cases s t x cts :
  (x_pend x = [] /\ txn_commit s t x cts = (0, 0, set_txn s t (discard_txn x))) \/
  (x_pend x <> [] /\ x_done x = true /\ txn_commit s t x cts = (5, 0, s)) \/
  (x_pend x <> [] /\ x_done x = false /\ (s_detect s && has_conflict s x) = true /\
     txn_commit s t x cts = (1, 0, set_txn s t (discard_txn x))) \/
  (x_pend x <> [] /\ x_done x = false /\ (s_detect s && has_conflict s x) = false /\
     txn_commit s t x cts = (0, commit_ts s cts, applied_state s t x cts)).
Proof.
  unfold txn_commit. destruct (x_pend x) as [|p ps] eqn:Ep.
  - left. split; reflexivity.
  - right. destruct (x_done x).
    + left. repeat split; auto. discriminate.
    + right. destruct (s_detect s && has_conflict s x) eqn:Ec.
      * left. repeat split; auto. discriminate.
      * right. repeat split; auto; try discriminate.
        unfold applied_state, commit_ts, commit_next. rewrite Ep. reflexivity.
Qed.

Lemma rejected_commit_cases fx s t x cts code :
  (x_pend x = [] /\ rejected_commit fx s t x cts code = (0, 0, set_txn s t (discard_txn x))) \/
  (x_pend x <> [] /\ x_done x = true /\ rejected_commit fx s t x cts code = (5, 0, s)) \/
  (x_pend x <> [] /\ x_done x = false /\ (s_detect s && has_conflict s x) = true /\
     rejected_commit fx s t x cts code = (1, 0, set_txn s t (discard_txn x))) \/
  (x_pend x <> [] /\ x_done x = false /\ (s_detect s && has_conflict s x) = false /\
     rejected_commit fx s t x cts code = (code, commit_ts s cts, rejected_state fx s t x cts)).
Proof.
  unfold rejected_commit. destruct (x_pend x) as [|p ps] eqn:Ep.
  - left. split; reflexivity.
  - right. destruct (x_done x).
    + left. repeat split; auto. discriminate.
    + right. destruct (s_detect s && has_conflict s x) eqn:Ec.
      * left. repeat split; auto. discriminate.
      * right. repeat split; auto; try discriminate.
        unfold rejected_state, commit_ts, commit_next. rewrite Ep. reflexivity.
Qed.

Lemma nonempty_true {A} (l : list A) : l <> [] -> nonempty l = true.
Proof. destruct l; [congruence|reflexivity]. Qed.

(* what a label that got a commit timestamp does: the record and the post-state *)
Inductive commit_outcome (fx : bool) (s : xsys) (o : xop) (s' : xsys) : Prop :=
| co_none :                       (* no timestamp handed out *)
    xcommit_rec fx s o = [] ->
    s_committed (x_base s') = s_committed (x_base s) ->
    s_writes (x_base s') = s_writes (x_base s) ->
    s_next (x_base s') = s_next (x_base s) ->
    commit_outcome fx s o s'
| co_some t x cts ap :
    lookup (s_txns (x_base s)) t = Some x -> x_pend x <> [] -> x_done x = false ->
    (s_detect (x_base s) && has_conflict (x_base s) x) = false ->
    xcommit_rec fx s o = [rec_of t x (commit_ts (x_base s) cts) ap] ->
    x_base s' = (if ap then applied_state (x_base s) t x cts else rejected_state fx (x_base s) t x cts) ->
    commit_outcome fx s o s'.

Ltac step_inv H :=
  repeat match type of H with
  | context [match ?e with _ => _ end] => destruct e eqn:?; try discriminate
  end.

Lemma lift_ok b r s' : lift b r = XOk s' -> exists s1, r = Ok s1 /\ s' = mkX s1 b.
Proof. destruct r; cbn; [intros [= <-]; eauto|discriminate]. Qed.

Lemma xstep_outcome fx s o s' : xstep fx s o = XOk s' -> commit_outcome fx s o s'.
Proof.
  intros H. destruct o as [o|on|t cts].
  - destruct o;
    try (unfold xstep in H; apply lift_ok in H; destruct H as (s1 & H & ->); unfold step in H;
         step_inv H; inversion H; subst; apply co_none; reflexivity).
    (* Commit *)
    unfold xstep in H. destruct (x_blocked s) eqn:Eb.
    + destruct (lookup (s_txns (x_base s)) t) as [x|] eqn:El; [|discriminate].
      destruct (rejected_commit_cases fx (x_base s) t x cts c_errBlocked)
        as [(Ep & E)|[(Ep & Ed & E)|[(Ep & Ed & Ec & E)|(Ep & Ed & Ec & E)]]]; rewrite E in H;
        destruct (_ =? r); try discriminate; inversion H; subst.
      * apply co_none; auto. cbn [xcommit_rec]. rewrite Eb. unfold rejected_rec. rewrite El, E, Ep. cbn.
        rewrite ?andb_false_r; reflexivity.
      * apply co_none; auto. cbn [xcommit_rec]. rewrite Eb. unfold rejected_rec. rewrite El, E, Ed.
        rewrite ?andb_false_r; reflexivity.
      * apply co_none; auto. cbn [xcommit_rec]. rewrite Eb. unfold rejected_rec. now rewrite El, E.
      * eapply (co_some fx s _ _ t x cts false); eauto.
        cbn [xcommit_rec]. rewrite Eb. unfold rejected_rec. rewrite El, E, Ed, (nonempty_true _ Ep). reflexivity.
    + apply lift_ok in H. destruct H as (s1 & H & ->). unfold step in H.
      destruct (lookup (s_txns (x_base s)) t) as [x|] eqn:El; [|discriminate].
      destruct (txn_commit_cases (x_base s) t x cts)
        as [(Ep & E)|[(Ep & Ed & E)|[(Ep & Ed & Ec & E)|(Ep & Ed & Ec & E)]]]; rewrite E in H;
        destruct (_ && _) eqn:Ecode in H; try discriminate; inversion H; subst.
      * apply co_none; auto. cbn [xcommit_rec]. rewrite Eb. unfold commit_rec. rewrite El, E, Ep. cbn.
        rewrite ?andb_false_r; reflexivity.
      * apply co_none; auto. cbn [xcommit_rec]. rewrite Eb. unfold commit_rec. now rewrite El, E.
      * apply co_none; auto. cbn [xcommit_rec]. rewrite Eb. unfold commit_rec. now rewrite El, E.
      * eapply (co_some fx s _ _ t x cts true); eauto.
        cbn [xcommit_rec]. rewrite Eb. unfold commit_rec. rewrite El, E, (nonempty_true _ Ep). reflexivity.
  - cbn in H. inversion H; subst. apply co_none; reflexivity.
  - unfold xstep in H.
    destruct (lookup (s_txns (x_base s)) t) as [x|] eqn:El; [|discriminate].
    destruct (rejected_commit_cases fx (x_base s) t x cts c_errTooBig)
      as [(Ep & E)|[(Ep & Ed & E)|[(Ep & Ed & Ec & E)|(Ep & Ed & Ec & E)]]]; rewrite E in H;
      cbn in H; try discriminate; inversion H; subst.
    eapply (co_some fx s _ _ t x cts false); eauto.
    cbn [xcommit_rec]. unfold rejected_rec. rewrite El, E, Ed, (nonempty_true _ Ep). reflexivity.
Qed.

(* every label leaves the mode flags alone *)
Lemma xstep_flags fx s o s' : xstep fx s o = XOk s' ->
  s_managed (x_base s') = s_managed (x_base s) /\ s_detect (x_base s') = s_detect (x_base s).
Proof.
  intros H. destruct o as [o|on|t cts].
  - destruct o;
    try (unfold xstep in H; apply lift_ok in H; destruct H as (s1 & H & ->); unfold step in H;
         step_inv H; inversion H; subst; split; reflexivity).
    unfold xstep in H. destruct (x_blocked s) eqn:Eb.
    + destruct (lookup (s_txns (x_base s)) t) as [x|] eqn:El; [|discriminate].
      destruct (rejected_commit_cases fx (x_base s) t x cts c_errBlocked)
        as [(Ep & E)|[(Ep & Ed & E)|[(Ep & Ed & Ec & E)|(Ep & Ed & Ec & E)]]]; rewrite E in H;
        destruct (_ =? r); try discriminate; inversion H; subst; split; reflexivity.
    + apply lift_ok in H. destruct H as (s1 & H & ->). unfold step in H.
      destruct (lookup (s_txns (x_base s)) t) as [x|] eqn:El; [|discriminate].
      destruct (txn_commit_cases (x_base s) t x cts)
        as [(Ep & E)|[(Ep & Ed & E)|[(Ep & Ed & Ec & E)|(Ep & Ed & Ec & E)]]]; rewrite E in H;
        destruct (_ && _) eqn:Ecode in H; try discriminate; inversion H; subst; split; reflexivity.
  - cbn in H. inversion H; subst. split; reflexivity.
  - unfold xstep in H.
    destruct (lookup (s_txns (x_base s)) t) as [x|] eqn:El; [|discriminate].
    destruct (rejected_commit_cases fx (x_base s) t x cts c_errTooBig)
      as [(Ep & E)|[(Ep & Ed & E)|[(Ep & Ed & Ec & E)|(Ep & Ed & Ec & E)]]]; rewrite E in H;
      cbn in H; try discriminate; inversion H; subst; split; reflexivity.
Qed.

(* how a label changes the transaction table: every transaction of the post-state is an old one,
   a fresh one (Begin), or an old one after Modify / a read being recorded / Discard *)
Inductive txn_evolved (s : xsys) (o : xop) (t : N) (x' : txn) : Prop :=
| te_same : lookup (s_txns (x_base s)) t = Some x' -> txn_evolved s o t x'
| te_begin upd : o = Base (Begin t upd (x_read x')) -> x' = mkTxn (x_read x') upd [] [] [] false ->
    txn_evolved s o t x'
| te_modify x e r : lookup (s_txns (x_base s)) t = Some x -> o = Base (Modify t e r) ->
    x' = snd (txn_modify x e) -> txn_evolved s o t x'
| te_reads x rd : lookup (s_txns (x_base s)) t = Some x ->
    x' = mkTxn (x_read x) (x_update x) rd (x_pend x) (x_dups x) (x_done x) -> txn_evolved s o t x'
| te_discard x : lookup (s_txns (x_base s)) t = Some x -> x' = discard_txn x -> txn_evolved s o t x'.

Lemma txn_get_shape s x k :
  snd (txn_get s x k) = x \/
  snd (txn_get s x k) = mkTxn (x_read x) (x_update x) (k :: x_reads x) (x_pend x) (x_dups x) (x_done x).
Proof.
  unfold txn_get. destruct k as [|b k]; [now left|]. destruct (x_done x); [now left|].
  destruct (if x_update x then klookup (x_pend x) (b :: k) else None) as [e|].
  - destruct (deleted_or_expired e (s_now s)); now left.
  - destruct (x_update x).
    + right. destruct (db_get (s_db s) (b :: k) (x_read x)) as [e|]; [destruct (deleted_or_expired e (s_now s))|]; reflexivity.
    + left. destruct (db_get (s_db s) (b :: k) (x_read x)) as [e|]; [destruct (deleted_or_expired e (s_now s))|]; reflexivity.
Qed.

Lemma set_txn_evolved s0 s t x t' x' (o : xop) :
  lookup (s_txns (set_txn s t x)) t' = Some x' ->
  (t = t' -> x' = x -> txn_evolved s0 o t' x') ->
  (lookup (s_txns s) t' = Some x' -> txn_evolved s0 o t' x') ->
  txn_evolved s0 o t' x'.
Proof.
  cbn [set_txn s_txns]. rewrite lookup_update. destruct (t =? t') eqn:E.
  - apply N.eqb_eq in E. intros [= <-] H _. now apply H.
  - intros H _ H2. now apply H2.
Qed.

Lemma destruct_txn x : x = mkTxn (x_read x) (x_update x) (x_reads x) (x_pend x) (x_dups x) (x_done x).
Proof. destruct x; reflexivity. Qed.

Lemma xstep_txns fx s o s' t' x' :
  xstep fx s o = XOk s' -> lookup (s_txns (x_base s')) t' = Some x' -> txn_evolved s o t' x'.
Proof.
  intros H L'.
  assert (Hdisc: forall t x b, lookup (s_txns (x_base s)) t = Some x -> x_base s' = set_txn b t (discard_txn x) ->
             s_txns b = s_txns (x_base s) -> txn_evolved s o t' x').
  { intros t x b El Es Eb. rewrite Es in L'. eapply set_txn_evolved; [exact L'| |].
    - intros <- ->. eapply te_discard; eauto.
    - rewrite Eb. apply te_same. }
  destruct o as [o|on|t cts].
  - destruct o.
    + (* Begin *)
      unfold xstep in H. apply lift_ok in H. destruct H as (s1 & H & ->). unfold step in H.
      destruct (_ || _); [|discriminate]. inversion H; subst. cbn [x_base] in L'.
      eapply set_txn_evolved; [exact L'| |apply te_same].
      intros <- ->. eapply te_begin; reflexivity.
    + (* Modify *)
      unfold xstep in H. apply lift_ok in H. destruct H as (s1 & H & ->). unfold step in H.
      destruct (lookup (s_txns (x_base s)) t) as [x|] eqn:El; [|discriminate].
      destruct (txn_modify x e) as [r' x1] eqn:Em. destruct (r' =? r); [|discriminate].
      inversion H; subst. cbn [x_base] in L'.
      eapply set_txn_evolved; [exact L'| |apply te_same].
      intros <- ->. eapply te_modify; eauto. now rewrite Em.
    + (* Get *)
      unfold xstep in H. apply lift_ok in H. destruct H as (s1 & H & ->). unfold step in H.
      destruct (lookup (s_txns (x_base s)) t) as [x|] eqn:El; [|discriminate].
      destruct (txn_get (x_base s) x k) as [r' x1] eqn:Eg. destruct (getres_eqb r' r); [|discriminate].
      inversion H; subst. cbn [x_base] in L'.
      eapply set_txn_evolved; [exact L'| |apply te_same].
      intros <- ->. pose proof (txn_get_shape (x_base s) x k) as Sh. rewrite Eg in Sh. cbn [snd] in Sh.
      destruct Sh as [->| ->]; [now apply te_same|eapply te_reads; eauto].
    + (* Iterate *)
      unfold xstep in H. apply lift_ok in H. destruct H as (s1 & H & ->). unfold step in H.
      destruct (lookup (s_txns (x_base s)) t) as [x|] eqn:El; [|discriminate].
      destruct (entries_eqb _ _); [|discriminate].
      inversion H; subst. cbn [x_base] in L'.
      eapply set_txn_evolved; [exact L'| |apply te_same].
      intros <- ->. destruct (x_update x) eqn:Eu; [eapply te_reads; eauto; rewrite Eu; reflexivity|now apply te_same].
    + (* Commit *)
      unfold xstep in H. destruct (x_blocked s) eqn:Eb.
      * destruct (lookup (s_txns (x_base s)) t) as [x|] eqn:El; [|discriminate].
        destruct (rejected_commit_cases fx (x_base s) t x cts c_errBlocked)
          as [(Ep & E)|[(Ep & Ed & E)|[(Ep & Ed & Ec & E)|(Ep & Ed & Ec & E)]]]; rewrite E in H;
          destruct (_ =? r); try discriminate; inversion H; subst; cbn [x_base] in *.
        -- eapply Hdisc; eauto; reflexivity.
        -- now apply te_same.
        -- eapply Hdisc; eauto; reflexivity.
        -- unfold rejected_state in L'. cbn [s_txns] in L'.
           eapply set_txn_evolved with (s:=x_base s); [exact L'| |apply te_same].
           intros <- ->. eapply te_discard; eauto.
      * apply lift_ok in H. destruct H as (s1 & H & ->). unfold step in H.
        destruct (lookup (s_txns (x_base s)) t) as [x|] eqn:El; [|discriminate].
        destruct (txn_commit_cases (x_base s) t x cts)
          as [(Ep & E)|[(Ep & Ed & E)|[(Ep & Ed & Ec & E)|(Ep & Ed & Ec & E)]]]; rewrite E in H;
          destruct (_ && _) eqn:Ecode in H; try discriminate; inversion H; subst; cbn [x_base] in *.
        -- eapply Hdisc; eauto; reflexivity.
        -- now apply te_same.
        -- eapply Hdisc; eauto; reflexivity.
        -- unfold applied_state in L'. cbn [s_txns] in L'.
           eapply set_txn_evolved with (s:=x_base s); [exact L'| |apply te_same].
           intros <- ->. eapply te_discard; eauto.
    + (* Discard *)
      unfold xstep in H. apply lift_ok in H. destruct H as (s1 & H & ->). unfold step in H.
      destruct (lookup (s_txns (x_base s)) t) as [x|] eqn:El; [|discriminate].
      inversion H; subst. cbn [x_base] in L'. eapply Hdisc; eauto; reflexivity.
    + unfold xstep in H. apply lift_ok in H. destruct H as (s1 & H & ->). unfold step in H.
      inversion H; subst. now apply te_same.
    + unfold xstep in H. apply lift_ok in H. destruct H as (s1 & H & ->). unfold step in H.
      step_inv H; inversion H; subst. now apply te_same.
    + unfold xstep in H. apply lift_ok in H. destruct H as (s1 & H & ->). unfold step in H.
      inversion H; subst. now apply te_same.
    + unfold xstep in H. apply lift_ok in H. destruct H as (s1 & H & ->). unfold step in H.
      inversion H; subst. now apply te_same.
    + unfold xstep in H. apply lift_ok in H. destruct H as (s1 & H & ->). unfold step in H.
      step_inv H; inversion H; subst. now apply te_same.
    + unfold xstep in H. apply lift_ok in H. destruct H as (s1 & H & ->). unfold step in H.
      step_inv H; inversion H; subst. now apply te_same.
  - cbn in H. inversion H; subst. now apply te_same.
  - unfold xstep in H.
    destruct (lookup (s_txns (x_base s)) t) as [x|] eqn:El; [|discriminate].
    destruct (rejected_commit_cases fx (x_base s) t x cts c_errTooBig)
      as [(Ep & E)|[(Ep & Ed & E)|[(Ep & Ed & Ec & E)|(Ep & Ed & Ec & E)]]]; rewrite E in H;
      cbn in H; try discriminate; inversion H; subst; cbn [x_base] in *.
    unfold rejected_state in L'. cbn [s_txns] in L'.
    eapply set_txn_evolved with (s:=x_base s); [exact L'| |apply te_same].
    intros <- ->. eapply te_discard; eauto.
Qed.

(* ---------------------------------------------------------------------------------------- *)
(* pending-write map facts                                                                   *)
Lemma klookup_in l k e : klookup l k = Some e -> In (k, e) l.
Proof.
  induction l as [|[j b] l IH]; cbn; [discriminate|].
  destruct (bytes_eqb j k) eqn:E.
  - apply bytes_eqb_eq in E. subst j. intros [= ->]. now left.
  - intros H. right. auto.
Qed.

Lemma kupdate_in l k e k' e' : In (k', e') (kupdate l k e) -> (k', e') = (k, e) \/ In (k', e') l.
Proof.
  induction l as [|[j b] l IH]; cbn.
  - intros [H|[]]. left. now symmetry.
  - destruct (bytes_eqb j k) eqn:E; cbn.
    + intros [H|H]; [left; now symmetry|right; now right].
    + intros [H|H]; [right; now left|]. destruct (IH H); auto.
Qed.

Lemma kupdate_keys_in l k e k' : In k' (map fst (kupdate l k e)) <-> k' = k \/ In k' (map fst l).
Proof.
  induction l as [|[j b] l IH]; cbn.
  - split; [intros [H|[]]; now left|intros [H|[]]; now left].
  - destruct (bytes_eqb j k) eqn:E; cbn.
    + apply bytes_eqb_eq in E. subst j. split; [intros [H|H]; auto|intros [H|[H|H]]; auto].
    + rewrite IH. tauto.
Qed.

Lemma kupdate_nodup l k e : NoDup (map fst l) -> NoDup (map fst (kupdate l k e)).
Proof.
  induction l as [|[j b] l IH]; cbn; intros H.
  - constructor; [intros []|constructor].
  - inversion H as [|? ? Hn Hd]; subst. destruct (bytes_eqb j k) eqn:E; cbn.
    + apply bytes_eqb_eq in E. subst j. now constructor.
    + constructor; auto. rewrite kupdate_keys_in. intros [->|Hin]; auto.
      now rewrite bytes_eqb_refl in E.
Qed.

Definition txn_wf (x : txn) : Prop :=
  (forall k e, In (k, e) (x_pend x) -> e_key e = k) /\
  (forall e, In e (x_dups x) -> In (e_key e) (map fst (x_pend x))) /\
  NoDup (map fst (x_pend x)).

Definition txn_api (x : txn) : Prop :=
  (forall k e, In (k, e) (x_pend x) -> e_ver e = 0) /\ x_dups x = [].

Lemma txn_modify_cases x e :
  snd (txn_modify x e) = x \/
  (fst (txn_modify x e) = 0 /\
   snd (txn_modify x e) =
     mkTxn (x_read x) (x_update x) (x_reads x) (kupdate (x_pend x) (e_key e) e)
       (match klookup (x_pend x) (e_key e) with
        | Some old => if e_ver old =? e_ver e then x_dups x else x_dups x ++ [old]
        | None => x_dups x
        end) (x_done x)).
Proof.
  unfold txn_modify. destruct (negb (x_update x)); [now left|]. destruct (x_done x); [now left|].
  destruct (e_key e) as [|b0 k0] eqn:Ek; [now left|].
  destruct (is_prefix c_badgerPrefix (b0 :: k0)); [now left|]. right. split; reflexivity.
Qed.

Lemma txn_modify_wf x e : txn_wf x -> txn_wf (snd (txn_modify x e)).
Proof.
  intros (W1 & W2 & W3). destruct (txn_modify_cases x e) as [->|[_ ->]]; [now repeat split|].
  unfold txn_wf. cbn [x_pend x_dups]. repeat split.
  - intros k e' H. apply kupdate_in in H. destruct H as [[= -> ->]|H]; auto.
  - intros e' H. apply kupdate_keys_in.
    destruct (klookup (x_pend x) (e_key e)) as [old|] eqn:El.
    + assert (Ho: e_key old = e_key e) by (apply W1; now apply klookup_in).
      destruct (e_ver old =? e_ver e); [right; auto|].
      apply in_app_iff in H. destruct H as [H|[<-|[]]]; [right; auto|now left].
    + right; auto.
  - now apply kupdate_nodup.
Qed.

Lemma txn_modify_api x e : e_ver e = 0 -> txn_api x -> txn_api (snd (txn_modify x e)).
Proof.
  intros Hv (A1 & A2). destruct (txn_modify_cases x e) as [->|[_ ->]]; [now split|].
  unfold txn_api. cbn [x_pend x_dups]. split.
  - intros k e' H. apply kupdate_in in H. destruct H as [[= -> ->]|H]; eauto.
  - destruct (klookup (x_pend x) (e_key e)) as [old|] eqn:El; auto.
    apply klookup_in in El. apply A1 in El. rewrite El, Hv. cbn. exact A2.
Qed.

(* ---------------------------------------------------------------------------------------- *)
(* conflict check                                                                            *)
Lemma has_conflict_true s x :
  has_conflict s x = true <->
  exists cw k, In cw (s_committed s) /\ x_read x < fst cw /\ In k (x_reads x) /\ In k (snd cw).
Proof.
  unfold has_conflict. rewrite existsb_exists. split.
  - intros (cw & Hin & H). apply andb_true_iff in H. destruct H as [Hlt H].
    apply existsb_exists in H. destruct H as (r & Hr & H). apply existsb_exists in H.
    destruct H as (w & Hw & H). apply bytes_eqb_eq in H. subst w.
    exists cw, r. repeat split; auto. now apply N.ltb_lt.
  - intros (cw & k & Hin & Hlt & Hr & Hw). exists cw. split; auto. apply andb_true_iff. split.
    + now apply N.ltb_lt.
    + apply existsb_exists. exists k. split; auto. apply existsb_exists. exists k. split; auto.
      apply bytes_eqb_refl.
Qed.

(* committedTxns may be pruned below the read timestamp without changing the answer: the
   implementation's cleanupCommittedTransactions drops entries with ts <= the read watermark
   (normal mode: readMark.DoneUntil, at most the read timestamp of every transaction that has not
   finished; managed mode: discardTs, at most every live read timestamp by the caller contract),
   the model never prunes *)
Definition set_committed (s : sys) (cm : list (N * list bytes)) : sys :=
  mkSys (s_db s) (s_next s) cm (s_txns s) (s_managed s) (s_detect s) (s_nkeep s) (s_discard s) (s_writes s) (s_now s).

Lemma has_conflict_pruned s x cm :
  (forall cw, In cw cm -> In cw (s_committed s)) ->
  (forall cw, In cw (s_committed s) -> x_read x < fst cw -> In cw cm) ->
  has_conflict (set_committed s cm) x = has_conflict s x.
Proof.
  intros Hsub Hkeep. apply eq_true_iff_eq. rewrite !has_conflict_true. cbn [set_committed s_committed].
  split; intros (cw & k & Hin & Hlt & Hr & Hw); exists cw, k; repeat split; auto.
Qed.

Lemma has_conflict_cleanup s x w :
  w <= x_read x ->
  has_conflict (set_committed s (filter (fun cw => w <? fst cw) (s_committed s))) x = has_conflict s x.
Proof.
  intros Hw. apply has_conflict_pruned.
  - intros cw H. apply filter_In in H. tauto.
  - intros cw H Hlt. apply filter_In. split; auto. apply N.ltb_lt. lia.
Qed.

(* ---------------------------------------------------------------------------------------- *)
(* log algebra                                                                               *)
Lemma log_writes_app L1 L2 : log_writes (L1 ++ L2) = log_writes L1 ++ log_writes L2.
Proof. unfold log_writes. now rewrite filter_app, map_app, concat_app. Qed.

Lemma log_writes_in L e :
  In e (log_writes L) <-> exists c, In c L /\ cr_applied c = true /\ In e (cr_wr c).
Proof.
  unfold log_writes. rewrite in_concat. split.
  - intros (l & Hl & He). apply in_map_iff in Hl. destruct Hl as (c & <- & Hc).
    apply filter_In in Hc. exists c. tauto.
  - intros (c & Hc & Ha & He). exists (cr_wr c). split; auto. apply in_map. apply filter_In. auto.
Qed.

Definition before (L : list crec) (a b : crec) : Prop :=
  exists L1 L2 L3, L = L1 ++ a :: L2 ++ b :: L3.

Lemma before_snoc L c a b :
  before (L ++ [c]) a b -> before L a b \/ (b = c /\ In a L).
Proof.
  intros (L1 & L2 & L3 & E). induction L3 as [|y L3'' _] using rev_ind.
  - right. assert (E': L ++ [c] = (L1 ++ a :: L2) ++ [b]) by (rewrite E, <- app_assoc; reflexivity).
    apply app_inj_tail in E'. destruct E' as [-> ->]. split; auto. apply in_or_app. right. now left.
  - left.
    assert (E': L ++ [c] = (L1 ++ a :: L2 ++ b :: L3'') ++ [y]).
    { rewrite E. rewrite <- app_assoc. cbn. rewrite <- app_assoc. reflexivity. }
    apply app_inj_tail in E'. destruct E' as [-> _]. now exists L1, L2, L3''.
Qed.

Lemma before_in_split L1 c L2 a : In a L1 -> before (L1 ++ c :: L2) a c.
Proof.
  intros H. apply in_split in H. destruct H as (A & B & ->).
  exists A, B, L2. rewrite <- app_assoc. reflexivity.
Qed.

Lemma before_split_after L1 c L2 b : In b L2 -> before (L1 ++ c :: L2) c b.
Proof.
  intros H. apply in_split in H. destruct H as (A & B & ->). now exists L1, A, B.
Qed.

(* commit timestamps n, n+1, n+2, ... along the log *)
Fixpoint consec (n : N) (L : list crec) : Prop :=
  match L with [] => True | c :: r => cr_cts c = n /\ consec (n + 1) r end.

Lemma consec_app n A B : consec n (A ++ B) <-> consec n A /\ consec (n + N.of_nat (length A)) B.
Proof.
  revert n. induction A as [|a A IH]; intros n; cbn [app consec length].
  - rewrite N.add_0_r. tauto.
  - rewrite IH. replace (n + 1 + N.of_nat (length A)) with (n + N.of_nat (S (length A))) by lia. tauto.
Qed.

Lemma consec_before n L a b : consec n L -> before L a b -> cr_cts a < cr_cts b.
Proof.
  intros H (L1 & L2 & L3 & ->). apply consec_app in H. destruct H as [_ H]. cbn [consec] in H.
  destruct H as [Ea H]. apply consec_app in H. destruct H as [_ H]. cbn [consec] in H.
  destruct H as [Eb _]. lia.
Qed.

Lemma consec_in n L c : consec n L -> In c L -> n <= cr_cts c < n + N.of_nat (length L).
Proof.
  revert n. induction L as [|a L IH]; intros n H Hin; [contradiction|]. cbn [consec length] in *.
  destruct H as [Ea H]. destruct Hin as [->|Hin]; [lia|]. specialize (IH _ H Hin). lia.
Qed.

(* ---------------------------------------------------------------------------------------- *)
(* invariants of reachable states                                                            *)
Section Reach.
  Variables (fx m d : bool) (nk : N) (nl : nat) (next0 : N).
  Let s0 := init_xsys m d nk nl next0.

  Lemma reach_flags P s L : xreach P fx s0 s L ->
    s_managed (x_base s) = m /\ s_detect (x_base s) = d.
  Proof.
    induction 1 as [|s L o s' R IH Po St]; [split; reflexivity|].
    apply xstep_flags in St. destruct St as [-> ->]. exact IH.
  Qed.

  (* the conflict log is exactly the logged records; the applied writes are exactly the
     entries of the applied records, in order *)
  Lemma reach_log P s L : xreach P fx s0 s L ->
    s_committed (x_base s) = (if d then map ckey (filter (logged fx) L) else []) /\
    s_writes (x_base s) = log_writes L.
  Proof.
    induction 1 as [|s L o s' R IH Po St]; [destruct d; split; reflexivity|].
    destruct IH as [IHc IHw]. destruct (reach_flags _ _ _ R) as [Fm Fd].
    destruct (xstep_outcome _ _ _ _ St) as [E Ec Ew En|t x cts ap El Ep Ed Ecf E Es].
    - rewrite E, app_nil_r, Ec, Ew. auto.
    - rewrite E, filter_app, map_app, log_writes_app, Es. destruct ap.
      + unfold applied_state. cbn [s_committed s_writes]. rewrite Fd, IHc, IHw.
        unfold log_writes, logged. cbn. rewrite app_nil_r. destruct d; split; reflexivity.
      + unfold rejected_state. cbn [s_committed s_writes]. rewrite Fd, IHc, IHw.
        unfold log_writes, logged. cbn. rewrite app_nil_r. destruct d, fx; cbn; rewrite ?app_nil_r; split; reflexivity.
  Qed.

  Lemma reach_txns (Q : txn -> Prop) (P : xop -> Prop) s L :
    (forall rts upd, Q (mkTxn rts upd [] [] [] false)) ->
    (forall x e t r, P (Base (Modify t e r)) -> Q x -> Q (snd (txn_modify x e))) ->
    (forall x rd, Q x -> Q (mkTxn (x_read x) (x_update x) rd (x_pend x) (x_dups x) (x_done x))) ->
    (forall x, Q x -> Q (discard_txn x)) ->
    xreach P fx s0 s L -> txns_ok Q (s_txns (x_base s)).
  Proof.
    intros Q0 Qm Qr Qd. induction 1 as [|s L o s' R IH Po St]; [intros t x; discriminate|].
    intros t' x' Hl. destruct (xstep_txns _ _ _ _ _ _ St Hl) as [H|upd Eo Ex|x e r H Eo Ex|x rd H Ex|x H Ex].
    - eapply IH; eauto.
    - rewrite Ex. apply Q0.
    - subst. eapply Qm; eauto.
    - subst. eapply Qr; eauto.
    - subst. eapply Qd; eauto.
  Qed.

  Lemma reach_wf P s L : xreach P fx s0 s L -> txns_ok txn_wf (s_txns (x_base s)).
  Proof.
    apply reach_txns.
    - intros rts upd. repeat split; cbn; try contradiction. constructor.
    - intros x e t r _. apply txn_modify_wf.
    - intros x rd H. exact H.
    - intros x H. exact H.
  Qed.

  Lemma reach_api s L : xreach xop_api fx s0 s L -> txns_ok txn_api (s_txns (x_base s)).
  Proof.
    apply reach_txns.
    - intros rts upd. split; cbn; [contradiction|reflexivity].
    - intros x e t r Hp. apply txn_modify_api. exact Hp.
    - intros x rd H. exact H.
    - intros x H. exact H.
  Qed.

  (* ---- records ---- *)
  Definition rec_ok (c : crec) : Prop :=
    (forall e, In e (cr_wr c) -> In (e_key e) (cr_keys c)) /\
    (forall k, In k (cr_keys c) -> exists e, In e (cr_wr c) /\ e_key e = k) /\
    cr_keys c <> [].
  Definition rec_api (c : crec) : Prop :=
    (forall e, In e (cr_wr c) -> e_ver e = cr_cts c) /\ NoDup (map e_key (cr_wr c)).

  Lemma stamp_key ts e : e_key (stamp ts e) = e_key e.
  Proof. unfold stamp. destruct (e_ver e =? 0); reflexivity. Qed.

  Lemma rec_of_ok t x ts ap : txn_wf x -> x_pend x <> [] -> rec_ok (rec_of t x ts ap).
  Proof.
    intros (W1 & W2 & W3) Hne. unfold rec_ok, rec_of, commit_entries. cbn [cr_wr cr_keys]. repeat split.
    - intros e H. apply in_app_iff in H. destruct H as [H|H]; apply in_map_iff in H.
      + destruct H as (e0 & <- & H). rewrite stamp_key. auto.
      + destruct H as ([k e0] & <- & H). cbn [snd]. rewrite stamp_key, (W1 _ _ H).
        apply (in_map fst) in H. exact H.
    - intros k H. apply in_map_iff in H. destruct H as ([k0 e0] & <- & H). cbn [fst].
      exists (stamp ts e0). split.
      + apply in_or_app. right. apply in_map_iff. exists (k0, e0). auto.
      + rewrite stamp_key. eauto.
    - destruct (x_pend x); [congruence|discriminate].
  Qed.

  Lemma rec_of_api t x ts ap : txn_wf x -> txn_api x -> rec_api (rec_of t x ts ap).
  Proof.
    intros (W1 & W2 & W3) (A1 & A2). unfold rec_api, rec_of, commit_entries. cbn [cr_wr cr_cts].
    rewrite A2. cbn [map app]. split.
    - intros e H. apply in_map_iff in H. destruct H as ([k e0] & <- & H). cbn [snd].
      unfold stamp. rewrite (A1 _ _ H). reflexivity.
    - rewrite map_map. erewrite map_ext_in; [exact W3|].
      intros [k e0] H. cbn [snd fst]. rewrite stamp_key. eauto.
  Qed.

  Lemma reach_rec_ok P s L : xreach P fx s0 s L -> Forall rec_ok L.
  Proof.
    induction 1 as [|s L o s' R IH Po St]; [constructor|]. apply Forall_app. split; auto.
    destruct (xstep_outcome _ _ _ _ St) as [E Ec Ew En|t x cts ap El Ep Ed Ecf E Es]; rewrite E; constructor; auto.
    apply rec_of_ok; auto. eapply reach_wf; eauto.
  Qed.

  Lemma reach_rec_api s L : xreach xop_api fx s0 s L -> Forall rec_api L.
  Proof.
    induction 1 as [|s L o s' R IH Po St]; [constructor|]. apply Forall_app. split; auto.
    destruct (xstep_outcome _ _ _ _ St) as [E Ec Ew En|t x cts ap El Ep Ed Ecf E Es]; rewrite E; constructor; auto.
    apply rec_of_api; [eapply reach_wf|eapply reach_api]; eauto.
  Qed.

  (* ---- timestamps (normal mode) ---- *)
  Lemma reach_next_mono P s L : xreach P fx s0 s L -> next0 <= s_next (x_base s).
  Proof.
    induction 1 as [|s L o s' R IH Po St]; [cbn; lia|].
    destruct (xstep_outcome _ _ _ _ St) as [E Ec Ew En|t x cts ap El Ep Ed Ecf E Es].
    - rewrite En. exact IH.
    - rewrite Es. destruct ap; unfold applied_state, rejected_state, commit_next; cbn [s_next];
        destruct (s_managed (x_base s)); lia.
  Qed.

  Lemma reach_ts P s L : m = false -> xreach P fx s0 s L ->
    s_next (x_base s) = next0 + N.of_nat (length L) /\ consec next0 L.
  Proof.
    intros Hm. induction 1 as [|s L o s' R IH Po St]; [cbn; split; [lia|exact I]|].
    destruct IH as [IHn IHc]. destruct (reach_flags _ _ _ R) as [Fm _]. rewrite Hm in Fm.
    destruct (xstep_outcome _ _ _ _ St) as [E Ec Ew En|t x cts ap El Ep Ed Ecf E Es].
    - rewrite E, app_nil_r, En. auto.
    - rewrite E, app_length, Es. split.
      + destruct ap; unfold applied_state, rejected_state, commit_next; cbn [s_next length]; rewrite Fm; lia.
      + apply consec_app. split; auto. cbn [consec rec_of cr_cts]. unfold commit_ts. rewrite Fm. split; [lia|exact I].
  Qed.

  (* every transaction reads strictly below the next timestamp; every record was read strictly
     below its commit timestamp *)
  Lemma reach_read_lt P s L : m = false -> 0 < next0 -> xreach P fx s0 s L ->
    txns_ok (fun x => x_read x < s_next (x_base s)) (s_txns (x_base s)) /\
    Forall (fun c => cr_rts c < cr_cts c) L.
  Proof.
    intros Hm Hn. induction 1 as [|s L o s' R IH Po St]; [split; [intros t x; discriminate|constructor]|].
    destruct IH as [IHt IHl]. destruct (reach_flags _ _ _ R) as [Fm _]. rewrite Hm in Fm.
    pose proof (reach_next_mono _ _ _ R) as Hge.
    assert (Hmono: s_next (x_base s) <= s_next (x_base s')).
    { destruct (xstep_outcome _ _ _ _ St) as [E Ec Ew En|t x cts ap El Ep Ed Ecf E Es].
      - rewrite En. lia.
      - rewrite Es. destruct ap; unfold applied_state, rejected_state, commit_next; cbn [s_next]; rewrite Fm; lia. }
    split.
    - intros t' x' Hl. destruct (xstep_txns _ _ _ _ _ _ St Hl) as [H|upd Eo Ex|x e r H Eo Ex|x rd H Ex|x H Ex].
      + specialize (IHt _ _ H). cbn in IHt. lia.
      + subst o. unfold xstep in St. apply lift_ok in St. destruct St as (s1 & St & ->). unfold step in St.
        rewrite Fm in St. cbn [orb] in St. destruct (x_read x' =? s_next (x_base s) - 1) eqn:E; [|discriminate].
        apply N.eqb_eq in E. inversion St; subst. cbn [x_base set_txn s_next]. lia.
      + specialize (IHt _ _ H). cbn in IHt. subst x'.
        destruct (txn_modify_cases x e) as [->|[_ ->]]; cbn [x_read]; lia.
      + specialize (IHt _ _ H). cbn in IHt. subst x'. cbn [x_read]. lia.
      + specialize (IHt _ _ H). cbn in IHt. subst x'. cbn [discard_txn x_read]. lia.
    - apply Forall_app. split; auto.
      destruct (xstep_outcome _ _ _ _ St) as [E Ec Ew En|t x cts ap El Ep Ed Ecf E Es]; rewrite E; constructor; auto.
      cbn [rec_of cr_rts cr_cts]. unfold commit_ts. rewrite Fm. apply (IHt _ _ El).
  Qed.

  (* ---- the conflict check, read off the log ---- *)
  Inductive ser : list crec -> Prop :=
  | ser_nil : ser []
  | ser_snoc L c : ser L ->
      (forall c' k, In c' L -> logged fx c' = true -> In k (cr_rd c) -> In k (cr_keys c') ->
                    cr_cts c' <= cr_rts c) ->
      ser (L ++ [c]).

  Lemma conflict_log_iff P s L x : d = true -> xreach P fx s0 s L ->
    (has_conflict (x_base s) x = true <->
     exists c k, In c L /\ logged fx c = true /\ x_read x < cr_cts c /\ In k (x_reads x) /\ In k (cr_keys c)).
  Proof.
    intros Hd R. rewrite has_conflict_true. destruct (reach_log _ _ _ R) as [Ec _]. rewrite Ec, Hd. split.
    - intros (cw & k & Hin & Hlt & Hr & Hw). apply in_map_iff in Hin. destruct Hin as (c & <- & Hc).
      apply filter_In in Hc. exists c, k. cbn in *. tauto.
    - intros (c & k & Hc & Hlg & Hlt & Hr & Hw). exists (ckey c), k. repeat split; auto.
      apply in_map. apply filter_In. auto.
  Qed.

  Lemma reach_ser P s L : d = true -> xreach P fx s0 s L -> ser L.
  Proof.
    intros Hd. induction 1 as [|s L o s' R IH Po St]; [constructor|].
    destruct (reach_flags _ _ _ R) as [_ Fd].
    destruct (xstep_outcome _ _ _ _ St) as [E Ec Ew En|t x cts ap El Ep Ed Ecf E Es]; rewrite E.
    - now rewrite app_nil_r.
    - constructor; auto. intros c' k Hc Hlg Hr Hw. cbn [rec_of cr_rd cr_rts] in *.
      rewrite Fd, Hd in Ecf. cbn [andb] in Ecf.
      destruct (N.le_gt_cases (cr_cts c') (x_read x)) as [Hle|Hgt]; auto.
      exfalso. assert (Hc1: has_conflict (x_base s) x = true).
      { eapply conflict_log_iff; eauto. exists c', k. repeat split; auto. }
      congruence.
  Qed.

  Lemma ser_before L : ser L -> forall a b, before L a b -> logged fx a = true ->
    forall k, In k (cr_rd b) -> In k (cr_keys a) -> cr_cts a <= cr_rts b.
  Proof.
    induction 1 as [|L c S IH Hc]; intros a b Hb.
    - destruct Hb as (L1 & L2 & L3 & E). destruct L1; discriminate.
    - apply before_snoc in Hb. destruct Hb as [Hb|[-> Hin]]; [now apply IH|].
      intros Hlg k Hr Hw. eapply Hc; eauto.
  Qed.
End Reach.

(* ---------------------------------------------------------------------------------------- *)
(* the specification's read (Spec.spec_latest) under appends                                 *)
Lemma spec_latest_app A B k ts best :
  spec_latest (A ++ B) k ts best = spec_latest B k ts (spec_latest A k ts best).
Proof. revert best. induction A as [|a A IH]; intros best; cbn [app spec_latest]; auto. Qed.

Lemma spec_latest_skip B k ts best :
  (forall w, In w B -> e_key w = k -> ts < e_ver w) -> spec_latest B k ts best = best.
Proof.
  revert best. induction B as [|w B IH]; intros best H; cbn [spec_latest]; auto.
  rewrite IH by (intros; apply H; auto; now right).
  destruct (bytes_eqb (e_key w) k) eqn:E; cbn [andb]; auto.
  apply bytes_eqb_eq in E. specialize (H w (or_introl eq_refl) E).
  assert (F: (e_ver w <=? ts) = false) by (apply N.leb_gt; lia). now rewrite F.
Qed.

Lemma spec_latest_ts A k ts ts' best :
  (forall w, In w A -> e_key w = k -> e_ver w <= ts /\ e_ver w <= ts') ->
  spec_latest A k ts best = spec_latest A k ts' best.
Proof.
  revert best. induction A as [|w A IH]; intros best H; cbn [spec_latest]; auto.
  destruct (bytes_eqb (e_key w) k) eqn:E; cbn [andb].
  - apply bytes_eqb_eq in E. destruct (H w (or_introl eq_refl) E) as [H1 H2].
    assert (F1: (e_ver w <=? ts) = true) by (apply N.leb_le; lia).
    assert (F2: (e_ver w <=? ts') = true) by (apply N.leb_le; lia).
    rewrite F1, F2. apply IH. intros; apply H; auto; now right.
  - apply IH. intros; apply H; auto; now right.
Qed.

(* ---------------------------------------------------------------------------------------- *)
(* serializability on the specification's history                                            *)
Section Serial.
  Variables (fx : bool).

  (* hypotheses on a log (theorems in normal mode, caller contract in managed mode) *)
  Definition cts_mono (L : list crec) : Prop := forall a b, before L a b -> cr_cts a <= cr_cts b.
  Definition reads_below (L : list crec) : Prop := Forall (fun c => cr_rts c < cr_cts c) L.

  (* no committed write to a key that a committed transaction read has a version strictly between
     its read and its commit timestamp; a write AT its commit timestamp by another transaction
     (managed mode only) comes later in the log *)
  Lemma ser_no_write_between L :
    ser fx L -> cts_mono L -> Forall rec_ok L -> Forall rec_api L ->
    forall c c' k e, In c L -> In c' L -> cr_applied c' = true ->
      In k (cr_rd c) -> In e (cr_wr c') -> e_key e = k ->
      cr_rts c < e_ver e -> e_ver e <= cr_cts c -> c' = c \/ (e_ver e = cr_cts c /\ before L c c').
  Proof.
    intros S Mono Hok Hapi c c' k e Hc Hc' Hap Hr He Hk Hlo Hhi.
    rewrite Forall_forall in Hok, Hapi. destruct (Hapi _ Hc') as [Hv _]. destruct (Hok _ Hc') as [Hkeys _].
    rewrite (Hv _ He) in *. specialize (Hkeys _ He). rewrite Hk in Hkeys.
    apply in_split in Hc. destruct Hc as (L1 & L2 & ->).
    apply in_app_iff in Hc'. destruct Hc' as [Hc'|[<-|Hc']]; auto.
    - exfalso. pose proof (before_in_split L1 c L2 c' Hc') as Hb.
      assert (Hle: cr_cts c' <= cr_rts c).
      { eapply ser_before; eauto. unfold logged. now rewrite Hap. }
      lia.
    - right. pose proof (before_split_after L1 c L2 c' Hc') as Hb. specialize (Mono _ _ Hb). split; auto. lia.
  Qed.

  (* the read a committed transaction made at its read timestamp is the read it makes in the serial
     execution, where it runs alone after every transaction before it in the log and before every
     transaction after it (any timestamp bound `top` at or above its read timestamp) *)
  Theorem serial_read_eq L L1 c L2 k top :
    ser fx L -> cts_mono L -> reads_below L -> Forall rec_ok L -> Forall rec_api L ->
    L = L1 ++ c :: L2 -> In k (cr_rd c) -> cr_rts c <= top ->
    spec_latest (log_writes L) k (cr_rts c) None = spec_latest (log_writes L1) k top None.
  Proof.
    intros S Mono Rb Hok Hapi -> Hr Htop. rewrite log_writes_app, spec_latest_app.
    rewrite Forall_forall in Hok, Hapi. unfold reads_below in Rb. rewrite Forall_forall in Rb.
    rewrite spec_latest_skip.
    - apply spec_latest_ts. intros w Hw Hk. apply log_writes_in in Hw. destruct Hw as (c' & Hc' & Hap & Hw).
      assert (Hin': In c' (L1 ++ c :: L2)) by (apply in_or_app; now left).
      destruct (Hapi _ Hin') as [Hv _]. destruct (Hok _ Hin') as [Hkeys _].
      rewrite (Hv _ Hw). specialize (Hkeys _ Hw). rewrite Hk in Hkeys.
      assert (Hle: cr_cts c' <= cr_rts c).
      { eapply ser_before; eauto; [now apply before_in_split|]. unfold logged. now rewrite Hap. }
      lia.
    - intros w Hw Hk. apply log_writes_in in Hw. destruct Hw as (c' & Hc' & Hap & Hw).
      assert (Hin': In c' (L1 ++ c :: L2)) by (apply in_or_app; now right).
      destruct (Hapi _ Hin') as [Hv _]. rewrite (Hv _ Hw).
      assert (Hc: cr_rts c < cr_cts c) by (apply Rb; apply in_or_app; right; now left).
      destruct Hc' as [<-|Hc']; auto.
      pose proof (Mono _ _ (before_split_after L1 c L2 c' Hc')). lia.
  Qed.

  (* two committed transactions that both read k and both wrote k are not concurrent:
     the later one started after the earlier one's commit timestamp *)
  Lemma ser_no_lost_update L a b k :
    ser fx L -> before L a b -> cr_applied a = true ->
    In k (cr_rd b) -> In k (cr_keys a) -> cr_cts a <= cr_rts b.
  Proof. intros S Hb Hap. apply (ser_before fx L S a b Hb). unfold logged. now rewrite Hap. Qed.

  (* write skew: a reads k2 and writes k1, b reads k1 and writes k2, both commit, neither sees the
     other.  Impossible: the second to commit read a key the first wrote *)
  Lemma ser_no_write_skew L a b k1 :
    ser fx L -> before L a b -> cr_applied a = true ->
    In k1 (cr_keys a) -> In k1 (cr_rd b) -> ~ (cr_rts b < cr_cts a).
  Proof. intros S Hb Hap Hw Hr Hlt. pose proof (ser_no_lost_update L a b k1 S Hb Hap Hr Hw). lia. Qed.
End Serial.

(* ---------------------------------------------------------------------------------------- *)
(* the memtable (skiplist Put)                                                               *)
Lemma ent_cmp_eq_l e x y : ent_cmp e x = Eq -> ent_cmp e y = ent_cmp x y.
Proof. intros H. apply ent_cmp_eq in H. destruct H as [Hk Hv]. unfold ent_cmp. now rewrite Hk, Hv. Qed.

Lemma mt_put_in s e x : In x (mt_put s e) -> x = e \/ In x s.
Proof.
  induction s as [|y s IH]; cbn [mt_put].
  - intros [H|[]]; auto.
  - destruct (ent_cmp e y).
    + intros [H|H]; auto. right. now right.
    + intros [H|H]; auto.
    + intros [H|H]; [right; now left|]. destruct (IH H); auto. right. now right.
Qed.

Lemma mt_put_in_e s e : In e (mt_put s e).
Proof. induction s as [|y s IH]; cbn [mt_put]; [now left|]. destruct (ent_cmp e y); [now left|now left|now right]. Qed.

Definition same_kv (a b : entry) : Prop := e_key a = e_key b /\ e_ver a = e_ver b.

Lemma mt_put_keep s e x : In x s -> ~ same_kv e x -> In x (mt_put s e).
Proof.
  induction s as [|y s IH]; [contradiction|]. intros Hin Hne. cbn [mt_put].
  destruct (ent_cmp e y) eqn:E.
  - destruct Hin as [->|Hin]; [|now right]. apply ent_cmp_eq in E. contradiction.
  - now right.
  - destruct Hin as [->|Hin]; [now left|right; auto].
Qed.

Lemma mt_put_sorted s e : sorted s -> sorted (mt_put s e).
Proof.
  induction s as [|y s IH]; intros Hs; cbn [mt_put].
  - constructor; constructor.
  - inversion Hs as [|? ? Hs' Hall]; subst. destruct (ent_cmp e y) eqn:E.
    + constructor; auto. eapply Forall_impl; [|exact Hall]. intros z Hz. unfold lt_ent in *.
      now rewrite (ent_cmp_eq_l _ _ z E).
    + constructor; auto. constructor; auto.
      eapply Forall_impl; [|exact Hall]. intros z Hz. eapply lt_ent_trans; eauto.
    + constructor; [apply IH; exact Hs'|]. apply Forall_forall. intros z Hz. apply mt_put_in in Hz.
      destruct Hz as [->|Hz]; [now apply ent_cmp_gt_lt|]. rewrite Forall_forall in Hall. auto.
Qed.

Lemma fold_mt_put_sorted es s : sorted s -> sorted (fold_left mt_put es s).
Proof. revert s. induction es as [|e es IH]; intros s H; cbn; auto. apply IH. now apply mt_put_sorted. Qed.

Lemma fold_mt_put_in es s x : In x (fold_left mt_put es s) -> In x es \/ In x s.
Proof.
  revert s. induction es as [|e es IH]; intros s; cbn [fold_left]; auto.
  intros H. destruct (IH _ H) as [H1|H1]; [left; now right|].
  apply mt_put_in in H1. destruct H1 as [->|H1]; [left; now left|now right].
Qed.

Lemma fold_mt_put_keep es s x : In x s -> (forall e, In e es -> ~ same_kv e x) -> In x (fold_left mt_put es s).
Proof.
  revert s. induction es as [|e es IH]; intros s Hin H; cbn [fold_left]; auto.
  apply IH; [|intros; apply H; now right]. apply mt_put_keep; auto. apply H. now left.
Qed.

Lemma fold_mt_put_new es s x :
  NoDup (map e_key es) -> In x es -> In x (fold_left mt_put es s).
Proof.
  revert s. induction es as [|e es IH]; intros s Hnd Hin; [contradiction|]. cbn [fold_left].
  cbn [map] in Hnd. inversion Hnd as [|? ? Hn Hd]; subst. destruct Hin as [->|Hin]; [|auto].
  apply fold_mt_put_keep; [apply mt_put_in_e|]. intros e He [Hk _]. apply Hn. rewrite <- Hk. now apply in_map.
Qed.

(* ---------------------------------------------------------------------------------------- *)
(* the tree holds exactly the applied writes (histories without compactions)                 *)
Lemma destruct_lsm d : d = mkLsm (l_mt d) (l_imm d) (l_levels d).
Proof. destruct d; reflexivity. Qed.

Lemma xstep_db fx s o s' : xstep fx s o = XOk s' -> xop_nocompact o ->
  (s_db (x_base s') = s_db (x_base s) /\ s_writes (x_base s') = s_writes (x_base s) /\
   s_next (x_base s) <= s_next (x_base s'))
  \/ (exists id, s_db (x_base s') = flush_oldest (rotate (s_db (x_base s))) id /\
                 s_writes (x_base s') = s_writes (x_base s) /\ s_next (x_base s') = s_next (x_base s))
  \/ (exists t x cts, lookup (s_txns (x_base s)) t = Some x /\ x_base s' = applied_state (x_base s) t x cts).
Proof.
  intros H Hnc. destruct o as [o|on|t cts].
  - destruct o; try contradiction;
    try (unfold xstep in H; apply lift_ok in H; destruct H as (s1 & H & ->); unfold step in H;
         step_inv H; inversion H; subst; left; cbn; repeat split; lia).
    + (* Commit *)
      unfold xstep in H. destruct (x_blocked s) eqn:Eb.
      * destruct (lookup (s_txns (x_base s)) t) as [x|] eqn:El; [|discriminate].
        destruct (rejected_commit_cases fx (x_base s) t x cts c_errBlocked)
          as [(Ep & E)|[(Ep & Ed & E)|[(Ep & Ed & Ec & E)|(Ep & Ed & Ec & E)]]]; rewrite E in H;
          destruct (_ =? r); try discriminate; inversion H; subst; left; cbn; repeat split; try lia.
        unfold commit_next. destruct (s_managed (x_base s)); lia.
      * apply lift_ok in H. destruct H as (s1 & H & ->). unfold step in H.
        destruct (lookup (s_txns (x_base s)) t) as [x|] eqn:El; [|discriminate].
        destruct (txn_commit_cases (x_base s) t x cts)
          as [(Ep & E)|[(Ep & Ed & E)|[(Ep & Ed & Ec & E)|(Ep & Ed & Ec & E)]]]; rewrite E in H;
          destruct (_ && _) eqn:Ecode in H; try discriminate; inversion H; subst.
        -- left; cbn; repeat split; lia.
        -- left; cbn; repeat split; lia.
        -- left; cbn; repeat split; lia.
        -- right. right. exists t, x, cts. auto.
    + (* Flush *)
      unfold xstep in H. apply lift_ok in H. destruct H as (s1 & H & ->). unfold step in H.
      inversion H; subst. right. left. exists id. cbn. auto.
  - cbn in H. inversion H; subst. left. cbn. repeat split; lia.
  - unfold xstep in H.
    destruct (lookup (s_txns (x_base s)) t) as [x|] eqn:El; [|discriminate].
    destruct (rejected_commit_cases fx (x_base s) t x cts c_errTooBig)
      as [(Ep & E)|[(Ep & Ed & E)|[(Ep & Ed & Ec & E)|(Ep & Ed & Ec & E)]]]; rewrite E in H;
      cbn in H; try discriminate; inversion H; subst. left. cbn. repeat split; auto.
    unfold commit_next. destruct (s_managed (x_base s)); lia.
Qed.

Definition db_inv (b : sys) : Prop :=
  lsm_wf (s_db b) /\ l_levels (s_db b) <> [] /\
  (forall x, In x (all_entries (s_db b)) <-> In x (s_writes b)) /\
  (forall x, In x (s_writes b) -> e_ver x < s_next b) /\
  nodup_kv (s_writes b).

Lemma lsm_wf_flush d id : lsm_wf d -> l_levels d <> [] -> lsm_wf (flush_oldest (rotate d) id).
Proof.
  intros (Hmt & Himm & Hlev) Hne. unfold rotate, flush_oldest. cbn [l_imm l_mt l_levels].
  assert (Hall: Forall sorted (l_imm d ++ [l_mt d])) by (apply Forall_app; split; auto).
  destruct (l_imm d ++ [l_mt d]) as [|mm r] eqn:E; [destruct (l_imm d); discriminate|].
  inversion Hall as [|? ? Hm Hr]; subst. unfold lsm_wf. cbn [l_mt l_imm l_levels].
  split; [constructor|]. split; auto.
  destruct mm as [|e0 mm']; auto.
  destruct (l_levels d) as [|l0 rest]; [congruence|]. cbn [add_l0]. destruct Hlev as [Hl0 Hrest].
  split; auto. apply Forall_app. split; auto.
Qed.

Lemma flush_levels_ne d id : l_levels d <> [] -> l_levels (flush_oldest (rotate d) id) <> [].
Proof.
  intros Hne. unfold rotate, flush_oldest. cbn [l_imm l_mt l_levels].
  destruct (l_imm d ++ [l_mt d]) as [|mm r]; cbn; auto.
  destruct mm; cbn; auto. destruct (l_levels d); [congruence|]. cbn. discriminate.
Qed.

Section ReachDb.
  Variables (fx d : bool) (nk : N) (nl : nat) (next0 : N).
  Let s0 := init_xsys false d nk nl next0.
  Definition xop_api_nc (o : xop) : Prop := xop_api o /\ xop_nocompact o.

  Lemma init_db_inv : (0 < nl)%nat -> db_inv (x_base s0).
  Proof.
    intros Hnl. unfold db_inv, s0, init_xsys, init_sys. cbn [x_base s_db s_writes s_next l_levels].
    destruct nl as [|n]; [lia|]. cbn [repeat]. split; [|split; [|split; [|split]]].
    - unfold lsm_wf. cbn [l_mt l_imm l_levels]. split; [constructor|]. split; [constructor|].
      split; [constructor|]. apply Forall_forall. intros l Hl. apply repeat_spec in Hl. subst l.
      split; constructor.
    - discriminate.
    - intros x. split; [|contradiction]. intros H. apply all_entries_in in H. cbn [l_mt l_imm l_levels] in H.
      destruct H as [[]|[(s & [] & _)|(l & t & Hl & Ht & _)]].
      destruct Hl as [<-|Hl]; [contradiction|]. apply repeat_spec in Hl. subst l. contradiction.
    - contradiction.
    - intros a b [].
  Qed.

  Lemma reach_db_inv s L : (0 < nl)%nat -> xreach xop_api_nc fx s0 s L -> db_inv (x_base s).
  Proof.
    intros Hnl. induction 1 as [|s L o s' R IH [Pa Pn] St]; [now apply init_db_inv|].
    destruct IH as (Hwf & Hne & Hent & Hver & Hnd).
    assert (Rapi: xreach xop_api fx s0 s L) by (eapply xreach_mono; [|exact R]; intros o' [A _]; exact A).
    destruct (reach_flags _ _ _ _ _ _ _ _ _ Rapi) as [Fm _].
    destruct (xstep_db _ _ _ _ St Pn) as [(Ed & Ew & En)|[(id & Ed & Ew & En)|(t & x & cts & El & Es)]].
    - unfold db_inv. rewrite Ed, Ew. split; [|split; [|split; [|split]]]; auto.
      intros y Hy. specialize (Hver _ Hy). lia.
    - unfold db_inv. rewrite Ed, Ew, En. split; [|split; [|split; [|split]]]; auto.
      + now apply lsm_wf_flush.
      + now apply flush_levels_ne.
      + intros y. rewrite flush_same_entries by assumption. apply Hent.
    - pose proof (reach_wf _ _ _ _ _ _ _ _ _ Rapi _ _ El) as W.
      pose proof (reach_api _ _ _ _ _ _ _ _ Rapi _ _ El) as A.
      destruct (rec_of_api t x (commit_ts (x_base s) cts) true W A) as [Rv Rnd]. cbn [rec_of cr_wr cr_cts] in Rv, Rnd.
      set (es := commit_entries x (commit_ts (x_base s) cts)) in *.
      assert (Ets: commit_ts (x_base s) cts = s_next (x_base s)) by (unfold commit_ts; now rewrite Fm).
      rewrite Es. unfold db_inv, applied_state. cbn [s_db s_writes s_next]. fold es.
      unfold commit_next. rewrite Fm. split; [|split; [|split; [|split]]].
      + destruct Hwf as (W1 & W2 & W3). unfold lsm_wf. cbn [apply_entries l_mt l_imm l_levels].
        split; [now apply fold_mt_put_sorted|]. split; auto.
      + exact Hne.
      + intros y. split; intros H.
        * apply in_or_app. apply all_entries_in in H. cbn [apply_entries l_mt l_imm l_levels] in H.
          destruct H as [H|H].
          -- apply fold_mt_put_in in H. destruct H as [H|H]; [now right|]. left. apply Hent. apply all_entries_in. now left.
          -- left. apply Hent. apply all_entries_in. now right.
        * apply all_entries_in. cbn [apply_entries l_mt l_imm l_levels]. apply in_app_iff in H.
          destruct H as [H|H].
          -- apply Hent in H. pose proof H as Hold. apply all_entries_in in H. destruct H as [H|H]; [|now right]. left.
             apply fold_mt_put_keep; auto. intros e He [_ Hv]. rewrite (Rv _ He), Ets in Hv.
             apply Hent in Hold. specialize (Hver _ Hold). lia.
          -- left. now apply fold_mt_put_new.
      + intros y Hy. apply in_app_iff in Hy. destruct Hy as [Hy|Hy].
        * specialize (Hver _ Hy). lia.
        * rewrite (Rv _ Hy), Ets. lia.
      + intros a b Ha Hb Hk Hv. apply in_app_iff in Ha, Hb. destruct Ha as [Ha|Ha], Hb as [Hb|Hb].
        * now apply Hnd.
        * exfalso. specialize (Hver _ Ha). rewrite Hv, (Rv _ Hb), Ets in Hver. lia.
        * exfalso. specialize (Hver _ Hb). rewrite <- Hv, (Rv _ Ha), Ets in Hver. lia.
        * clear -Rnd Ha Hb Hk. induction es as [|e es IH]; [contradiction|].
          cbn [map] in Rnd. inversion Rnd as [|? ? Hn Hd]; subst.
          destruct Ha as [->|Ha], Hb as [->|Hb]; auto.
          -- exfalso. apply Hn. rewrite Hk. now apply in_map.
          -- exfalso. apply Hn. rewrite <- Hk. now apply in_map.
  Qed.

  (* Get at any timestamp = the newest applied write at or below it *)
  Theorem reach_get_newest s L k r : (0 < nl)%nat -> xreach xop_api_nc fx s0 s L ->
    db_get (s_db (x_base s)) k r = newest (s_writes (x_base s)) k r.
  Proof.
    intros Hnl R. destruct (reach_db_inv _ _ Hnl R) as (Hwf & Hne & Hent & Hver & Hnd).
    rewrite db_get_newest by assumption. symmetry. apply newest_ext; auto. intros x. symmetry. apply Hent.
  Qed.
End ReachDb.

(* ---------------------------------------------------------------------------------------- *)
(* version filtering: no lookup ever returns a version above the read timestamp (any tree)   *)
Lemma scan_ver_le cs ts best : Forall (ver_le ts) cs -> ver_le ts best -> ver_le ts (scan cs ts best).
Proof.
  revert best. induction cs as [|c cs IH]; intros best HF Hb; cbn [scan]; auto.
  inversion HF as [|? ? Hc HF']; subst. destruct c as [e|]; auto.
  destruct (e_ver e =? ts) eqn:E; [apply N.eqb_eq in E; cbn; lia|].
  apply IH; auto. now apply better_ver_le.
Qed.

Theorem db_get_ver_le d k ts e : db_get d k ts = Some e -> e_ver e <= ts.
Proof.
  intros H. pose proof (scan_ver_le (cands d k ts) ts None (ver_le_cands d k ts) I) as V.
  unfold db_get in H. rewrite H in V. exact V.
Qed.

(* ---------------------------------------------------------------------------------------- *)
(* base histories (labels of Sys.v only): nothing is ever rejected after timestamp allocation *)
Definition onbase (P : op -> Prop) (o : xop) : Prop :=
  match o with Base o' => P o' | _ => False end.

Lemma reach_base P fx s0 s L : x_blocked s0 = false -> xreach (onbase P) fx s0 s L ->
  x_blocked s = false /\ Forall (fun c => cr_applied c = true) L.
Proof.
  intros Hb. induction 1 as [|s L o s' R IH Po St]; [split; [exact Hb|constructor]|].
  destruct IH as [IHb IHl]. destruct o as [o|on|t cts]; try contradiction.
  destruct s as [b bl]. cbn [x_blocked] in IHb. subst bl. rewrite xstep_base in St. rewrite xcommit_rec_base.
  apply lift_ok in St. destruct St as (s1 & St & ->). split; [reflexivity|]. apply Forall_app. split; auto.
  unfold commit_rec. destruct o; try constructor.
  destruct (lookup (s_txns b) t) as [x|]; [|constructor].
  destruct (txn_commit b t x cts) as [[r' ts] s2]. destruct (_ && _); constructor; auto.
Qed.

Lemma reach_base_init P fx m d nk nl next s L :
  xreach (onbase P) fx (init_xsys m d nk nl next) s L ->
  x_blocked s = false /\ Forall (fun c => cr_applied c = true) L.
Proof. apply reach_base. reflexivity. Qed.

Lemma exec_reach (P : op -> Prop) fx m d nk nl next ops s :
  Forall P ops -> exec (init_sys m d nk nl next) ops 0 = (None, s) ->
  xreach (onbase P) fx (init_xsys m d nk nl next) (mkX s false) (history (init_sys m d nk nl next) ops).
Proof.
  intros HF H. apply exec_history in H. eapply run_reach; [|exact H].
  apply (Forall_map_base P); auto.
Qed.

Definition any_op (o : op) : Prop := True.
Lemma Forall_any_op ops : Forall any_op ops.
Proof. induction ops; constructor; auto. exact I. Qed.

Lemma logged_applied fx c : cr_applied c = true -> logged fx c = true.
Proof. unfold logged. now intros ->. Qed.

Section Main.
  Variables (m : bool) (nk : N) (nl : nat) (next : N).

  (* ---- C02 ---- *)
  (* Commit reports ErrConflict iff a logged commit above the read timestamp wrote a key the
     transaction recorded as read (x-model: any fx, any labels) *)
  Theorem x_conflict_iff fx P s L t x cts :
    xreach P fx (init_xsys m true nk nl next) s L ->
    x_pend x <> [] -> x_done x = false ->
    (fst (fst (txn_commit (x_base s) t x cts)) = 1 <->
     exists c k, In c L /\ logged fx c = true /\ x_read x < cr_cts c /\ In k (x_reads x) /\ In k (cr_keys c)).
  Proof.
    intros R Hp Hd. destruct (reach_flags _ _ _ _ _ _ _ _ _ R) as [_ Fd].
    rewrite <- (conflict_log_iff fx m true nk nl next P s L x eq_refl R).
    destruct (txn_commit_cases (x_base s) t x cts)
      as [(Ep & E)|[(Ep & Ed & E)|[(Ep & Ed & Ec & E)|(Ep & Ed & Ec & E)]]]; rewrite E; cbn [fst];
      try congruence; rewrite Fd in Ec; cbn [andb] in Ec; rewrite Ec; split; congruence.
  Qed.

  Theorem conflict_iff ops s t x cts :
    exec (init_sys m true nk nl next) ops 0 = (None, s) ->
    x_pend x <> [] -> x_done x = false ->
    (fst (fst (txn_commit s t x cts)) = 1 <->
     exists c k, In c (history (init_sys m true nk nl next) ops) /\
                 x_read x < cr_cts c /\ In k (x_reads x) /\ In k (cr_keys c)).
  Proof.
    intros H Hp Hd. pose proof (exec_reach any_op false m true nk nl next ops s (Forall_any_op ops) H) as R.
    destruct (reach_base_init _ _ _ _ _ _ _ _ _ R) as [_ Hap]. rewrite Forall_forall in Hap.
    rewrite (x_conflict_iff false _ _ _ t x cts R Hp Hd). cbn [x_base].
    split; intros (c & k & Hc & A); exists c, k; [tauto|]. split; auto. split; [|tauto]. apply logged_applied; auto.
  Qed.

  (* the log is the history: every record is a successful commit with a non-empty write set, its
     conflict keys are exactly the keys of the entries it wrote, the conflict log holds exactly the
     records (the model never prunes: see has_conflict_cleanup) and the applied writes are exactly
     the records' entries in commit order *)
  Theorem log_is_history ops s :
    exec (init_sys m true nk nl next) ops 0 = (None, s) ->
    let L := history (init_sys m true nk nl next) ops in
    s_committed s = map ckey L /\ s_writes s = log_writes L /\
    Forall (fun c => cr_applied c = true) L /\ Forall rec_ok L.
  Proof.
    intros H L. pose proof (exec_reach any_op false m true nk nl next ops s (Forall_any_op ops) H) as R.
    destruct (reach_base_init _ _ _ _ _ _ _ _ _ R) as [_ Hap].
    destruct (reach_log _ _ _ _ _ _ _ _ _ R) as [Ec Ew]. cbn [x_base] in *. fold L in Ec, Ew, Hap.
    repeat split; auto.
    - rewrite Ec. f_equal. clear -Hap. induction L as [|c L IH]; auto. inversion Hap; subst. cbn [filter].
      rewrite logged_applied by assumption. f_equal. auto.
    - eapply reach_rec_ok; eauto.
  Qed.

  (* a rejected Commit (ErrConflict, or a discarded transaction) changes nothing but the
     transaction's own `discarded` flag *)
  Theorem rejected_no_trace s t x cts :
    fst (fst (txn_commit s t x cts)) <> 0 ->
    let s' := snd (txn_commit s t x cts) in
    s_db s' = s_db s /\ s_next s' = s_next s /\ s_committed s' = s_committed s /\ s_writes s' = s_writes s /\
    s_discard s' = s_discard s /\
    (forall t', t' <> t -> lookup (s_txns s') t' = lookup (s_txns s) t') /\
    (s_txns s' = s_txns s \/ lookup (s_txns s') t = Some (discard_txn x)).
  Proof.
    destruct (txn_commit_cases s t x cts)
      as [(Ep & E)|[(Ep & Ed & E)|[(Ep & Ed & Ec & E)|(Ep & Ed & Ec & E)]]]; rewrite E; cbn [fst snd]; try congruence;
      intros _; repeat split; auto.
    - intros t' Hne. cbn [set_txn s_txns]. rewrite lookup_update. destruct (t =? t') eqn:E2; auto.
      apply N.eqb_eq in E2. congruence.
    - right. cbn [set_txn s_txns]. rewrite lookup_update, N.eqb_refl. reflexivity.
  Qed.

  (* no conflict without a real overlap: a successful commit (its entries are in the applied
     writes) above the read timestamp wrote a key that was read *)
  Theorem x_no_false_conflict fx s L t x cts :
    xreach xop_api fx (init_xsys m true nk nl next) s L ->
    (forall c, In c L -> logged fx c = true -> cr_applied c = true) ->
    x_pend x <> [] -> x_done x = false ->
    fst (fst (txn_commit (x_base s) t x cts)) = 1 ->
    exists c e, In c L /\ cr_applied c = true /\ In e (cr_wr c) /\ In e (s_writes (x_base s)) /\
                In (e_key e) (x_reads x) /\ x_read x < e_ver e.
  Proof.
    intros R Hnr Hp Hd Hc. apply (x_conflict_iff fx _ _ _ t x cts R Hp Hd) in Hc.
    destruct Hc as (c & k & Hin & Hlg & Hlt & Hr & Hw).
    pose proof (reach_rec_ok _ _ _ _ _ _ _ _ _ R) as Hok. pose proof (reach_rec_api _ _ _ _ _ _ _ _ R) as Hapi.
    rewrite Forall_forall in Hok, Hapi. destruct (Hok _ Hin) as (_ & K2 & _). destruct (Hapi _ Hin) as [V _].
    destruct (K2 _ Hw) as (e & He & Hk). exists c, e. specialize (Hnr _ Hin Hlg).
    destruct (reach_log _ _ _ _ _ _ _ _ _ R) as [_ Ew]. repeat split; auto.
    - rewrite Ew. apply log_writes_in. eauto.
    - now rewrite Hk.
    - now rewrite (V _ He).
  Qed.

  Theorem no_false_conflict ops s t x cts :
    Forall op_api ops ->
    exec (init_sys m true nk nl next) ops 0 = (None, s) ->
    x_pend x <> [] -> x_done x = false ->
    fst (fst (txn_commit s t x cts)) = 1 ->
    exists c e, In c (history (init_sys m true nk nl next) ops) /\ In e (cr_wr c) /\ In e (s_writes s) /\
                In (e_key e) (x_reads x) /\ x_read x < e_ver e.
  Proof.
    intros Hapi H Hp Hd Hc. pose proof (exec_reach op_api false m true nk nl next ops s Hapi H) as R.
    destruct (reach_base_init _ _ _ _ _ _ _ _ _ R) as [_ Hap]. rewrite Forall_forall in Hap.
    assert (R': xreach xop_api false (init_xsys m true nk nl next) (mkX s false) (history (init_sys m true nk nl next) ops)).
    { eapply xreach_mono; [|exact R]. intros [o| |]; cbn; auto. }
    destruct (x_no_false_conflict false _ _ t x cts R' (fun c Hc _ => Hap c Hc) Hp Hd Hc) as (c & e & A).
    exists c, e. tauto.
  Qed.
End Main.

Lemma consec_nodup n L : consec n L -> NoDup (map cr_cts L).
Proof.
  revert n. induction L as [|c L IH]; intros n H; cbn [map]; [constructor|].
  cbn [consec] in H. destruct H as [Ec H]. constructor; [|eauto].
  intros Hin. apply in_map_iff in Hin. destruct Hin as (c' & E & Hc').
  pose proof (consec_in _ _ _ H Hc'). lia.
Qed.

Section Main2.
  Variables (nk : N) (nl : nat) (next : N).

  (* everything the normal-mode theorems need about a reachable log *)
  Lemma normal_log_facts fx s L : 0 < next ->
    xreach xop_api fx (init_xsys false true nk nl next) s L ->
    ser fx L /\ cts_mono L /\ reads_below L /\ Forall rec_ok L /\ Forall rec_api L /\
    consec next L /\ s_next (x_base s) = next + N.of_nat (length L).
  Proof.
    intros Hn R.
    destruct (reach_ts _ _ _ _ _ _ _ _ _ eq_refl R) as [En Hc].
    destruct (reach_read_lt _ _ _ _ _ _ _ _ _ eq_refl Hn R) as [_ Hrb].
    repeat split; auto.
    - eapply reach_ser; eauto.
    - intros a b Hb. pose proof (consec_before _ _ _ _ Hc Hb). lia.
    - eapply reach_rec_ok; eauto.
    - eapply reach_rec_api; eauto.
  Qed.

  (* ---- C02: serializability, normal mode ---- *)
  Theorem x_serializable_reads fx s L L1 c L2 k top : 0 < next ->
    xreach xop_api fx (init_xsys false true nk nl next) s L ->
    L = L1 ++ c :: L2 -> In k (cr_rd c) -> cr_rts c <= top ->
    spec_latest (s_writes (x_base s)) k (cr_rts c) None = spec_latest (log_writes L1) k top None.
  Proof.
    intros Hn R E Hr Ht. destruct (normal_log_facts fx s L Hn R) as (S & Mo & Rb & Ok & Api & _).
    destruct (reach_log _ _ _ _ _ _ _ _ _ R) as [_ Ew]. rewrite Ew. eapply serial_read_eq; eauto.
  Qed.

  Lemma api_onbase o : onbase op_api o -> xop_api o.
  Proof. destruct o; cbn; auto. Qed.

  Theorem serializable_reads ops s L1 c L2 k top :
    Forall op_api ops -> 0 < next ->
    exec (init_sys false true nk nl next) ops 0 = (None, s) ->
    history (init_sys false true nk nl next) ops = L1 ++ c :: L2 -> In k (cr_rd c) -> cr_rts c <= top ->
    spec_latest (s_writes s) k (cr_rts c) None = spec_latest (log_writes L1) k top None.
  Proof.
    intros Hapi Hn H E Hr Ht. pose proof (exec_reach op_api false false true nk nl next ops s Hapi H) as R.
    apply (xreach_mono _ xop_api) in R; [|exact api_onbase].
    exact (x_serializable_reads false _ _ L1 c L2 k top Hn R E Hr Ht).
  Qed.

  Theorem no_write_between ops s c c' k e :
    Forall op_api ops -> 0 < next ->
    exec (init_sys false true nk nl next) ops 0 = (None, s) ->
    let L := history (init_sys false true nk nl next) ops in
    In c L -> In c' L -> In k (cr_rd c) -> In e (cr_wr c') -> e_key e = k ->
    ~ (cr_rts c < e_ver e /\ e_ver e < cr_cts c).
  Proof.
    intros Hapi Hn H L Hc Hc' Hr He Hk [Hlo Hhi].
    pose proof (exec_reach op_api false false true nk nl next ops s Hapi H) as R.
    destruct (reach_base_init _ _ _ _ _ _ _ _ _ R) as [_ Hap]. rewrite Forall_forall in Hap.
    apply (xreach_mono _ xop_api) in R; [|exact api_onbase].
    destruct (normal_log_facts false _ _ Hn R) as (S & Mo & Rb & Ok & Api & _).
    destruct (ser_no_write_between false _ S Mo Ok Api c c' k e Hc Hc' (Hap _ Hc') Hr He Hk Hlo) as [->|[E _]]; try lia.
    rewrite Forall_forall in Api. destruct (Api _ Hc) as [V _]. rewrite (V _ He) in Hhi. lia.
  Qed.

  Theorem no_lost_update ops s a b k :
    exec (init_sys false true nk nl next) ops 0 = (None, s) ->
    before (history (init_sys false true nk nl next) ops) a b ->
    In k (cr_rd a) -> In k (cr_keys a) -> In k (cr_rd b) -> In k (cr_keys b) ->
    cr_cts a <= cr_rts b.
  Proof.
    intros H Hb _ Hwa Hrb _.
    pose proof (exec_reach any_op false false true nk nl next ops s (Forall_any_op ops) H) as R.
    destruct (reach_base_init _ _ _ _ _ _ _ _ _ R) as [_ Hap]. rewrite Forall_forall in Hap.
    eapply ser_no_lost_update; eauto.
    - eapply reach_ser; eauto.
    - apply Hap. destruct Hb as (L1 & L2 & L3 & ->). apply in_or_app. right. now left.
  Qed.

  Theorem no_write_skew ops s a b k1 k2 :
    exec (init_sys false true nk nl next) ops 0 = (None, s) ->
    let L := history (init_sys false true nk nl next) ops in
    In a L -> In b L -> a <> b ->
    In k2 (cr_rd a) -> In k1 (cr_keys a) -> In k1 (cr_rd b) -> In k2 (cr_keys b) ->
    ~ (cr_rts b < cr_cts a /\ cr_rts a < cr_cts b).
  Proof.
    intros H L Ha Hb Hne Hra Hwa Hrb Hwb [C1 C2].
    pose proof (exec_reach any_op false false true nk nl next ops s (Forall_any_op ops) H) as R.
    destruct (reach_base_init _ _ _ _ _ _ _ _ _ R) as [_ Hap]. rewrite Forall_forall in Hap.
    pose proof (reach_ser _ _ _ _ _ _ _ _ _ eq_refl R) as S. fold L in S, Hap.
    assert (Hord: before L a b \/ before L b a).
    { apply in_split in Ha. destruct Ha as (L1 & L2 & E). rewrite E in Hb. apply in_app_iff in Hb.
      destruct Hb as [Hb|[Hb|Hb]]; [right|congruence|left]; rewrite E.
      - now apply before_in_split.
      - now apply before_split_after. }
    destruct Hord as [Hab|Hba].
    - eapply (ser_no_write_skew false L a b k1); eauto.
    - eapply (ser_no_write_skew false L b a k2); eauto.
  Qed.

  (* ---- C03 ---- *)
  Theorem x_ts_increasing fx P s L :
    xreach P fx (init_xsys false true nk nl next) s L ->
    consec next L /\ s_next (x_base s) = next + N.of_nat (length L) /\
    (forall a b, before L a b -> cr_cts a < cr_cts b) /\ NoDup (map cr_cts L).
  Proof.
    intros R. destruct (reach_ts _ _ _ _ _ _ _ _ _ eq_refl R) as [En Hc]. repeat split; auto.
    - intros a b. eapply consec_before; eauto.
    - eapply consec_nodup; eauto.
  Qed.

  Theorem ts_unique_increasing d ops s :
    exec (init_sys false d nk nl next) ops 0 = (None, s) ->
    let L := history (init_sys false d nk nl next) ops in
    consec next L /\ s_next s = next + N.of_nat (length L) /\
    (forall a b, before L a b -> cr_cts a < cr_cts b) /\ NoDup (map cr_cts L) /\
    Forall (fun c => cr_applied c = true) L.
  Proof.
    intros H L. pose proof (exec_reach any_op false false d nk nl next ops s (Forall_any_op ops) H) as R.
    destruct (reach_base_init _ _ _ _ _ _ _ _ _ R) as [_ Hap].
    destruct (reach_ts _ _ _ _ _ _ _ _ _ eq_refl R) as [En Hc]. repeat split; auto.
    - intros a b. eapply consec_before; eauto.
    - eapply consec_nodup; eauto.
  Qed.

  (* a transaction begun after a commit reads at or above that commit's timestamp *)
  Theorem begin_after_commit d ops s t upd rts s' c :
    exec (init_sys false d nk nl next) ops 0 = (None, s) ->
    step s (Begin t upd rts) = Ok s' ->
    In c (history (init_sys false d nk nl next) ops) -> cr_cts c <= rts.
  Proof.
    intros H St Hc. pose proof (exec_reach any_op false false d nk nl next ops s (Forall_any_op ops) H) as R.
    destruct (reach_ts _ _ _ _ _ _ _ _ _ eq_refl R) as [En Hcs]. cbn [x_base] in En.
    destruct (reach_flags _ _ _ _ _ _ _ _ _ R) as [Fm _]. cbn [x_base] in Fm.
    pose proof (consec_in _ _ _ Hcs Hc) as B.
    unfold step in St. rewrite Fm in St. cbn [orb] in St. destruct (rts =? s_next s - 1) eqn:E; [|discriminate].
    apply N.eqb_eq in E. lia.
  Qed.

  Lemma api_nc_onbase o : onbase (fun o => op_api o /\ op_nocompact o) o -> xop_api_nc o.
  Proof. destruct o; cbn; auto; intros []. Qed.

  (* ... and Get returns the commit's write, or a newer committed write at or below its read
     timestamp (histories without compaction labels; compactions preserving reads is C12) *)
  Theorem visible_after_commit d ops s c e r :
    (0 < nl)%nat -> Forall (fun o => op_api o /\ op_nocompact o) ops ->
    exec (init_sys false d nk nl next) ops 0 = (None, s) ->
    In c (history (init_sys false d nk nl next) ops) -> In e (cr_wr c) -> cr_cts c <= r ->
    exists e', db_get (s_db s) (e_key e) r = Some e' /\ In e' (s_writes s) /\ e_key e' = e_key e /\
               cr_cts c <= e_ver e' /\ e_ver e' <= r /\
               (forall w, In w (s_writes s) -> e_key w = e_key e -> e_ver w <= r -> e_ver w <= e_ver e') /\
               (e_ver e' = cr_cts c -> e' = e).
  Proof.
    intros Hnl HP H Hc He Hr.
    pose proof (exec_reach _ false false d nk nl next ops s HP H) as R.
    destruct (reach_base_init _ _ _ _ _ _ _ _ _ R) as [_ Hap]. rewrite Forall_forall in Hap.
    apply (xreach_mono _ xop_api_nc) in R; [|exact api_nc_onbase].
    pose proof (reach_get_newest false d nk nl next _ _ (e_key e) r Hnl R) as G. cbn [x_base] in G.
    destruct (reach_db_inv false d nk nl next _ _ Hnl R) as (_ & _ & _ & _ & Hnd). cbn [x_base] in Hnd.
    assert (Rapi: xreach xop_api false (init_xsys false d nk nl next) (mkX s false) (history (init_sys false d nk nl next) ops))
      by (eapply xreach_mono; [|exact R]; intros o' [A _]; exact A).
    pose proof (reach_rec_api _ _ _ _ _ _ _ _ Rapi) as Hapi. rewrite Forall_forall in Hapi.
    destruct (Hapi _ Hc) as [V _].
    destruct (reach_log _ _ _ _ _ _ _ _ _ Rapi) as [_ Ew]. cbn [x_base] in Ew.
    assert (Hin: In e (s_writes s)) by (rewrite Ew; apply log_writes_in; eauto).
    rewrite G. destruct (newest (s_writes s) (e_key e) r) as [e'|] eqn:En.
    - apply newest_some in En. destruct En as (A & B & C & D). exists e'. repeat split; auto.
      + rewrite <- (V _ He). apply D; auto. rewrite (V _ He). exact Hr.
      + intros Ev. apply Hnd; auto. rewrite Ev. symmetry. auto.
    - exfalso. eapply newest_none; eauto. rewrite (V _ He). exact Hr.
  Qed.

  (* atomicity by version filtering: a reader below the commit timestamp sees none of the
     commit's entries (any tree); a reader at or above it finds all of them in the tree *)
  Theorem atomic_none d ops s c k r e' :
    Forall op_api ops ->
    exec (init_sys false d nk nl next) ops 0 = (None, s) ->
    In c (history (init_sys false d nk nl next) ops) -> r < cr_cts c ->
    db_get (s_db s) k r = Some e' -> ~ In e' (cr_wr c).
  Proof.
    intros HP H Hc Hr G Hin. apply db_get_ver_le in G.
    pose proof (exec_reach op_api false false d nk nl next ops s HP H) as R.
    apply (xreach_mono _ xop_api) in R; [|exact api_onbase].
    pose proof (reach_rec_api _ _ _ _ _ _ _ _ R) as Hapi. rewrite Forall_forall in Hapi.
    destruct (Hapi _ Hc) as [V _]. rewrite (V _ Hin) in G. lia.
  Qed.

  Theorem atomic_all d ops s c e r :
    (0 < nl)%nat -> Forall (fun o => op_api o /\ op_nocompact o) ops ->
    exec (init_sys false d nk nl next) ops 0 = (None, s) ->
    In c (history (init_sys false d nk nl next) ops) -> cr_cts c <= r -> In e (cr_wr c) ->
    In e (all_entries (s_db s)) /\ e_ver e <= r.
  Proof.
    intros Hnl HP H Hc Hr He.
    pose proof (exec_reach _ false false d nk nl next ops s HP H) as R.
    destruct (reach_base_init _ _ _ _ _ _ _ _ _ R) as [_ Hap]. rewrite Forall_forall in Hap.
    apply (xreach_mono _ xop_api_nc) in R; [|exact api_nc_onbase].
    destruct (reach_db_inv false d nk nl next _ _ Hnl R) as (_ & _ & Hent & _ & _). cbn [x_base] in Hent.
    assert (Rapi: xreach xop_api false (init_xsys false d nk nl next) (mkX s false) (history (init_sys false d nk nl next) ops))
      by (eapply xreach_mono; [|exact R]; intros o' [A _]; exact A).
    pose proof (reach_rec_api _ _ _ _ _ _ _ _ Rapi) as Hapi. rewrite Forall_forall in Hapi.
    destruct (Hapi _ Hc) as [V _]. destruct (reach_log _ _ _ _ _ _ _ _ _ Rapi) as [_ Ew]. cbn [x_base] in Ew.
    split; [|rewrite (V _ He); exact Hr]. apply Hent. rewrite Ew. apply log_writes_in. eauto.
  Qed.

  (* a commit refused after timestamp allocation writes nothing ... *)
  Theorem x_rejected_writes_nothing fx s t x cts code :
    let s' := snd (rejected_commit fx s t x cts code) in
    s_db s' = s_db s /\ s_writes s' = s_writes s.
  Proof.
    destruct (rejected_commit_cases fx s t x cts code)
      as [(Ep & E)|[(Ep & Ed & E)|[(Ep & Ed & Ec & E)|(Ep & Ed & Ec & E)]]]; rewrite E; cbn; auto.
  Qed.

  (* ... and with the repair (fx = true) leaves the conflict log alone *)
  Theorem x_rejected_no_trace_fixed s t x cts code :
    s_committed (snd (rejected_commit true s t x cts code)) = s_committed s.
  Proof.
    destruct (rejected_commit_cases true s t x cts code)
      as [(Ep & E)|[(Ep & Ed & E)|[(Ep & Ed & Ec & E)|(Ep & Ed & Ec & E)]]]; rewrite E; cbn; auto.
    now rewrite andb_false_r.
  Qed.
End Main2.

(* ---- managed mode: the same serial-read theorem under the caller contract ---- *)
Theorem managed_serializable_reads nk nl next ops s L1 c L2 k top :
  Forall op_api ops ->
  exec (init_sys true true nk nl next) ops 0 = (None, s) ->
  let L := history (init_sys true true nk nl next) ops in
  cts_mono L -> reads_below L ->
  L = L1 ++ c :: L2 -> In k (cr_rd c) -> cr_rts c <= top ->
  spec_latest (s_writes s) k (cr_rts c) None = spec_latest (log_writes L1) k top None.
Proof.
  intros Hapi H L Mo Rb E Hr Ht.
  pose proof (exec_reach op_api false true true nk nl next ops s Hapi H) as R.
  apply (xreach_mono _ xop_api) in R; [|exact api_onbase].
  destruct (reach_log _ _ _ _ _ _ _ _ _ R) as [_ Ew]. cbn [x_base] in Ew. rewrite Ew.
  eapply (serial_read_eq false); eauto.
  - eapply reach_ser; eauto.
  - eapply reach_rec_ok; eauto.
  - eapply reach_rec_api; eauto.
Qed.

(* ---------------------------------------------------------------------------------------- *)
(* finding F12: the witness                                                                  *)
Definition f12_k : bytes := [107].
Definition f12_prefix : list xop :=
  [ Base (Begin 1 true 0); Base (Get 1 f12_k GNotFound);          (* T1 reads k: absent *)
    Base (Begin 2 true 0); Base (Modify 2 (mkE f12_k 0 0 0 0 [1]) 0);
    XTooBig 2 0;                                                  (* T2's Commit: ErrTxnTooBig, nothing written *)
    Base (Modify 1 (mkE [120] 0 0 0 0 [2]) 0) ].
Definition f12_witness : list xop := f12_prefix ++ [Base (Commit 1 0 1)].  (* T1's Commit: ErrConflict *)

Lemma f12_witness_accepted :
  fst (xexec false (init_xsys false true 1 1 1) f12_witness 0) = None /\
  s_writes (x_base (snd (xexec false (init_xsys false true 1 1 1) f12_witness 0))) = [].
Proof. vm_compute. split; reflexivity. Qed.

Lemma f12_witness_fixed_disagrees :
  fst (xexec true (init_xsys false true 1 1 1) f12_witness 0) = Some (6, 1).
Proof. vm_compute. reflexivity. Qed.

Theorem no_false_conflict_refuted :
  exists ops s t x,
    xexec false (init_xsys false true 1 1 1) ops 0 = (None, s) /\
    Forall xop_api ops /\
    lookup (s_txns (x_base s)) t = Some x /\ x_pend x <> [] /\ x_done x = false /\
    fst (fst (txn_commit (x_base s) t x 0)) = 1 /\
    s_writes (x_base s) = [].
Proof.
  exists f12_prefix. eexists. exists 1. eexists. split; [vm_compute; reflexivity|].
  split; [repeat constructor|]. split; [vm_compute; reflexivity|].
  split; [vm_compute; discriminate|]. split; [reflexivity|]. split; vm_compute; reflexivity.
Qed.

Theorem rejected_no_trace_refuted :
  exists ops s t x,
    xexec false (init_xsys false true 1 1 1) ops 0 = (None, s) /\
    lookup (s_txns (x_base s)) t = Some x /\
    let '(code, _, s') := rejected_commit false (x_base s) t x 0 c_errTooBig in
    code = c_errTooBig /\ s_db s' = s_db (x_base s) /\ s_writes s' = s_writes (x_base s) /\
    s_committed s' <> s_committed (x_base s) /\ s_next s' <> s_next (x_base s).
Proof.
  exists (firstn 4 f12_prefix). eexists. exists 2. eexists. split; [vm_compute; reflexivity|].
  split; [vm_compute; reflexivity|]. vm_compute. repeat split; discriminate.
Qed.

(* ---------------------------------------------------------------------------------------- *)
(* the same serial-read statement on `newest` (what db.get computes), and the stability of a Get
   result under everything that happens later: together they say that the value a Get returned
   inside a committed transaction is the value it returns in the serial execution              *)
Lemma newest_no_cand B k ts :
  (forall w, In w B -> e_key w = k -> ts < e_ver w) -> newest B k ts = None.
Proof.
  intros H. destruct (newest B k ts) as [e|] eqn:E; auto.
  apply newest_some in E. destruct E as (A & K & V & _). specialize (H _ A K). lia.
Qed.

Lemma newest_ts A k ts ts' :
  (forall w, In w A -> e_key w = k -> e_ver w <= ts /\ e_ver w <= ts') -> newest A k ts = newest A k ts'.
Proof.
  intros H. unfold newest. f_equal. f_equal. apply filter_ext_in. intros w Hw. unfold cand.
  destruct (bytes_eqb (e_key w) k) eqn:E; cbn [andb]; auto.
  apply bytes_eqb_eq in E. destruct (H _ Hw E) as [H1 H2].
  assert (F1: (e_ver w <=? ts) = true) by (apply N.leb_le; lia).
  assert (F2: (e_ver w <=? ts') = true) by (apply N.leb_le; lia). now rewrite F1, F2.
Qed.

Theorem serial_read_eq_newest fx L L1 c L2 k top :
  ser fx L -> cts_mono L -> reads_below L -> Forall rec_ok L -> Forall rec_api L ->
  L = L1 ++ c :: L2 -> In k (cr_rd c) -> cr_rts c <= top ->
  newest (log_writes L) k (cr_rts c) = newest (log_writes L1) k top.
Proof.
  intros S Mono Rb Hok Hapi -> Hr Htop. rewrite log_writes_app, newest_app.
  rewrite Forall_forall in Hok, Hapi. unfold reads_below in Rb. rewrite Forall_forall in Rb.
  rewrite (newest_no_cand (log_writes (c :: L2))).
  - rewrite better_none_r. apply newest_ts. intros w Hw Hk. apply log_writes_in in Hw. destruct Hw as (c' & Hc' & Hap & Hw).
    assert (Hin': In c' (L1 ++ c :: L2)) by (apply in_or_app; now left).
    destruct (Hapi _ Hin') as [Hv _]. destruct (Hok _ Hin') as [Hkeys _].
    rewrite (Hv _ Hw). specialize (Hkeys _ Hw). rewrite Hk in Hkeys.
    assert (Hle: cr_cts c' <= cr_rts c).
    { eapply ser_before; eauto; [now apply before_in_split|]. unfold logged. now rewrite Hap. }
    lia.
  - intros w Hw Hk. apply log_writes_in in Hw. destruct Hw as (c' & Hc' & Hap & Hw).
    assert (Hin': In c' (L1 ++ c :: L2)) by (apply in_or_app; now right).
    destruct (Hapi _ Hin') as [Hv _]. rewrite (Hv _ Hw).
    assert (Hc: cr_rts c < cr_cts c) by (apply Rb; apply in_or_app; right; now left).
    destruct Hc' as [<-|Hc']; auto.
    pose proof (Mono _ _ (before_split_after L1 c L2 c' Hc')). lia.
Qed.

Lemma run_app s L ops1 ops2 :
  run s L (ops1 ++ ops2) =
  match run s L ops1 with Some (s1, L1) => run s1 L1 ops2 | None => None end.
Proof.
  revert s L. induction ops1 as [|o r IH]; intros s L; cbn [app run]; auto.
  destruct (step s o); auto.
Qed.

Lemma run_log_prefix s L ops s' L' : run s L ops = Some (s', L') -> exists L'', L' = L ++ L''.
Proof.
  revert s L. induction ops as [|o r IH]; intros s L; cbn [run].
  - intros [= <- <-]. exists []. now rewrite app_nil_r.
  - destruct (step s o) as [s1|]; [|discriminate]. intros H. apply IH in H. destruct H as (L2 & ->).
    exists (commit_rec s o ++ L2). now rewrite app_assoc.
Qed.

Section Stable.
  Variables (nk : N) (nl : nat) (next : N) (d : bool).
  Let i0 := init_sys false d nk nl next.

  (* a Get result never changes afterwards: what db.get returns at timestamp r in a state whose
     next timestamp is above r is the newest write at or below r of the FINAL write history *)
  Theorem get_stable ops1 ops2 s1 s2 k r :
    (0 < nl)%nat -> Forall (fun o => op_api o /\ op_nocompact o) (ops1 ++ ops2) ->
    exec i0 ops1 0 = (None, s1) -> exec i0 (ops1 ++ ops2) 0 = (None, s2) ->
    r < s_next s1 ->
    db_get (s_db s1) k r = newest (s_writes s2) k r.
  Proof.
    intros Hnl HP H1 H2 Hr. apply Forall_app in HP as HP'. destruct HP' as [HP1 _].
    pose proof (exec_history _ _ _ H1) as R1. pose proof (exec_history _ _ _ H2) as R2.
    rewrite run_app, R1 in R2. apply run_log_prefix in R2 as Hpre. destruct Hpre as (L2 & E).
    pose proof (exec_reach _ false false d nk nl next _ _ HP1 H1) as X1.
    pose proof (exec_reach _ false false d nk nl next _ _ HP H2) as X2. fold i0 in X1, X2.
    apply (xreach_mono _ xop_api_nc) in X1; [|exact (api_nc_onbase)].
    apply (xreach_mono _ xop_api_nc) in X2; [|exact (api_nc_onbase)].
    pose proof (reach_get_newest false d nk nl next _ _ k r Hnl X1) as G. cbn [x_base] in G. rewrite G.
    assert (A1: xreach xop_api false (init_xsys false d nk nl next) (mkX s1 false) (history i0 ops1))
      by (eapply xreach_mono; [|exact X1]; intros o' [A _]; exact A).
    assert (A2: xreach xop_api false (init_xsys false d nk nl next) (mkX s2 false) (history i0 (ops1 ++ ops2)))
      by (eapply xreach_mono; [|exact X2]; intros o' [A _]; exact A).
    destruct (reach_log _ _ _ _ _ _ _ _ _ A1) as [_ W1]. destruct (reach_log _ _ _ _ _ _ _ _ _ A2) as [_ W2].
    cbn [x_base] in W1, W2. rewrite W2, E, log_writes_app, <- W1, newest_app.
    destruct (reach_ts _ _ _ _ _ _ _ _ _ eq_refl A1) as [N1 _]. cbn [x_base] in N1.
    destruct (reach_ts _ _ _ _ _ _ _ _ _ eq_refl A2) as [_ C2]. rewrite E in C2. apply consec_app in C2. destruct C2 as [_ C2].
    pose proof (reach_rec_api _ _ _ _ _ _ _ _ A2) as Hapi. rewrite E, Forall_app in Hapi. destruct Hapi as [_ Hapi].
    rewrite Forall_forall in Hapi.
    rewrite (newest_no_cand (log_writes L2)); [now rewrite better_none_r|].
    intros w Hw _. apply log_writes_in in Hw. destruct Hw as (c & Hc & _ & Hw).
    destruct (Hapi _ Hc) as [V _]. rewrite (V _ Hw). pose proof (consec_in _ _ _ C2 Hc). lia.
  Qed.
End Stable.

Theorem serializable_reads_newest nk nl next ops s L1 c L2 k top :
  Forall op_api ops -> 0 < next ->
  exec (init_sys false true nk nl next) ops 0 = (None, s) ->
  history (init_sys false true nk nl next) ops = L1 ++ c :: L2 -> In k (cr_rd c) -> cr_rts c <= top ->
  newest (s_writes s) k (cr_rts c) = newest (log_writes L1) k top.
Proof.
  intros Hapi Hn H E Hr Ht. pose proof (exec_reach op_api false false true nk nl next ops s Hapi H) as R.
  apply (xreach_mono _ xop_api) in R; [|exact (api_onbase)].
  destruct (normal_log_facts nk nl next false _ _ Hn R) as (S & Mo & Rb & Ok & Api & _).
  destruct (reach_log _ _ _ _ _ _ _ _ _ R) as [_ Ew]. cbn [x_base] in Ew. rewrite Ew.
  eapply serial_read_eq_newest; eauto.
Qed.

(* forward, non-AllVersions iterators never yield a version above the read timestamp *)
Theorem iterate_fwd_ver_le s x o seek e :
  io_all o = false -> io_reverse o = false -> In e (txn_iterate s x o seek) -> e_ver e <= x_read x.
Proof.
  intros Ha Hr. unfold txn_iterate, iterate. rewrite Hr. intros H.
  apply take_valid_sound in H. destruct H as [H _]. apply fwd_items_sound in H; auto. tauto.
Qed.
