(* SysProofs.v — transaction layer: pending writes, isolation, expiry, iterator soundness *)
From Verif Require Import Bytes BytesProofs Keys Consts Spec Lsm Compact Iter Sys.
From Coq Require Import ZifyN ZifyNat ZifyBool.
Open Scope N_scope.

(* ---- pending-write map ---- *)
Lemma klookup_kupdate_same l k e : klookup (kupdate l k e) k = Some e.
Proof.
  induction l as [|[j b] l IH]; cbn.
  - now rewrite bytes_eqb_refl.
  - destruct (bytes_eqb j k) eqn:E; cbn.
    + now rewrite bytes_eqb_refl.
    + now rewrite E.
Qed.

Lemma klookup_kupdate_other l k k' e : bytes_eqb k k' = false -> klookup (kupdate l k e) k' = klookup l k'.
Proof.
  intros Hne. induction l as [|[j b] l IH]; cbn.
  - now rewrite Hne.
  - destruct (bytes_eqb j k) eqn:E; cbn.
    + apply bytes_eqb_eq in E. subst j. now rewrite Hne.
    + destruct (bytes_eqb j k'); auto.
Qed.

(* the accepted writes of a transaction, in call order *)
Definition accepted (x : txn) (e : entry) : bool := N.eqb (fst (txn_modify x e)) 0.

Fixpoint modifies (x : txn) (es : list entry) : txn :=
  match es with [] => x | e :: r => modifies (snd (txn_modify x e)) r end.

(* last accepted write to k among es (call order), starting from `acc` *)
Fixpoint last_write (x : txn) (es : list entry) (k : bytes) (acc : option entry) : option entry :=
  match es with
  | [] => acc
  | e :: r => let '(c, x') := txn_modify x e in
              last_write x' r k (if (c =? 0) && bytes_eqb (e_key e) k then Some e else acc)
  end.

Lemma txn_modify_pend x e :
  x_pend (snd (txn_modify x e)) =
  if fst (txn_modify x e) =? 0 then kupdate (x_pend x) (e_key e) e else x_pend x.
Proof.
  unfold txn_modify. destruct (x_update x); [|reflexivity]. destruct (x_done x); [reflexivity|].
  destruct (e_key e) as [|b0 k0] eqn:Ek; [reflexivity|].
  destruct (is_prefix c_badgerPrefix (b0 :: k0)); reflexivity.
Qed.

Theorem pending_is_last_write x es k :
  klookup (x_pend (modifies x es)) k = last_write x es k (klookup (x_pend x) k).
Proof.
  revert x. induction es as [|e es IH]; intros x; cbn [modifies last_write]; auto.
  rewrite IH. destruct (txn_modify x e) as [c x'] eqn:E. cbn [snd].
  pose proof (txn_modify_pend x e) as P. rewrite E in P. cbn [fst snd] in P. rewrite P.
  destruct (c =? 0); cbn [andb]; auto.
  destruct (bytes_eqb (e_key e) k) eqn:Ek.
  - apply bytes_eqb_eq in Ek. subst k. now rewrite klookup_kupdate_same.
  - now rewrite klookup_kupdate_other.
Qed.

(* Get inside an update transaction returns the pending write when there is one *)
Theorem get_returns_pending s x k e :
  k <> [] -> x_update x = true -> x_done x = false -> klookup (x_pend x) k = Some e ->
  fst (txn_get s x k) = if deleted_or_expired e (s_now s) then GNotFound else GFound (with_ver e (x_read x)).
Proof.
  intros Hk Hu Hd Hl. unfold txn_get. destruct k; [congruence|].
  rewrite Hd, Hu, Hl. destruct (deleted_or_expired e (s_now s)); reflexivity.
Qed.

(* isolation: what another transaction reads does not depend on this one's pending writes *)
Theorem get_ignores_other_txns s t x' y k :
  fst (txn_get (set_txn s t x') y k) = fst (txn_get s y k).
Proof. unfold txn_get, set_txn. cbn. reflexivity. Qed.

Theorem iterate_ignores_other_txns s t x' y o seek :
  txn_iterate (set_txn s t x') y o seek = txn_iterate s y o seek.
Proof. reflexivity. Qed.

(* ---- expiry is monotone in time ---- *)
Lemma deleted_or_expired_mono e now now' :
  now <= now' -> deleted_or_expired e now = true -> deleted_or_expired e now' = true.
Proof.
  unfold deleted_or_expired. intros H. destruct (is_deleted e); cbn; auto.
  destruct (e_exp e =? 0); cbn; auto. intros E. apply N.leb_le in E. apply N.leb_le. lia.
Qed.

(* ---- iterator soundness: whatever a forward, non-AllVersions iterator yields is a live
   version at or below the read timestamp ---- *)
Lemma fwd_items_sound o rts now banned s last e :
  io_all o = false -> In e (fwd_items o rts now banned s last) ->
  In e s /\ e_ver e <= rts /\ deleted_or_expired e now = false.
Proof.
  intros Ha. revert last. induction s as [|x s IH]; intros last; cbn [fwd_items]; [contradiction|].
  destruct (negb (stream_has_prefix o x)); [contradiction|].
  destruct (skip_common o rts banned x) eqn:Sk.
  { intros H. destruct (IH _ H) as (A & B & C). repeat split; auto. now right. }
  rewrite Ha.
  destruct (match last with Some k => bytes_eqb k (e_key x) | None => false end).
  { intros H. destruct (IH _ H) as (A & B & C). repeat split; auto. now right. }
  destruct (deleted_or_expired x now) eqn:D.
  { intros H. destruct (IH _ H) as (A & B & C). repeat split; auto. now right. }
  intros [->|H].
  - repeat split; auto; [now left|].
    unfold skip_common in Sk. rewrite !orb_false_iff in Sk. destruct Sk as [[[_ S2] _] _].
    apply N.ltb_ge in S2. lia.
  - destruct (IH _ H) as (A & B & C). repeat split; auto. now right.
Qed.

(* take_valid is a prefix and everything it keeps is valid for the iterator's prefix *)
Lemma take_valid_sound o l e : In e (take_valid o l) -> In e l /\ item_valid o e = true.
Proof.
  induction l as [|x l IH]; cbn; [contradiction|].
  destruct (item_valid o x) eqn:V; [|contradiction].
  intros [->|H]; [split; auto; now left|]. destruct (IH H). split; auto; now right.
Qed.
