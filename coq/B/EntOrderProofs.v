(* EntOrderProofs.v — the internal-key order on entries, strictly sorted sources, sub-sequences,
   and the two-way merge of Lsm.v: membership and sortedness.  Used by the C07/C11/C14 proofs. *)
From Verif Require Import Bytes BytesProofs Keys C20Proofs Consts Spec Lsm.
From Coq Require Import ZifyN ZifyNat ZifyBool Sorted Relations.
Open Scope N_scope.

(* ---- user-key order ---- *)
Definition klt (a b : bytes) : Prop := lex_cmp a b = Lt.
Definition kle (a b : bytes) : Prop := lex_cmp a b <> Gt.

Lemma klt_irrefl a : ~ klt a a.
Proof. unfold klt. rewrite lex_cmp_refl. discriminate. Qed.

Lemma klt_trans a b c : klt a b -> klt b c -> klt a c.
Proof. apply lex_cmp_trans_lt. Qed.

Lemma kle_cases a b : kle a b -> a = b \/ klt a b.
Proof.
  unfold kle, klt. destruct (lex_cmp a b) eqn:E; intros H.
  - left. now apply lex_cmp_eq. - now right. - congruence.
Qed.

Lemma klt_kle a b : klt a b -> kle a b.
Proof. unfold klt, kle. intros ->. discriminate. Qed.

Lemma kle_refl a : kle a a.
Proof. unfold kle. rewrite lex_cmp_refl. discriminate. Qed.

Lemma kle_klt_trans a b c : kle a b -> klt b c -> klt a c.
Proof. intros H1 H2. destruct (kle_cases _ _ H1) as [->|H]; auto. eapply klt_trans; eauto. Qed.

Lemma klt_kle_trans a b c : klt a b -> kle b c -> klt a c.
Proof. intros H1 H2. destruct (kle_cases _ _ H2) as [<-|H]; auto. eapply klt_trans; eauto. Qed.

Lemma kle_trans a b c : kle a b -> kle b c -> kle a c.
Proof.
  intros H1 H2. destruct (kle_cases _ _ H1) as [->|H]; auto.
  apply klt_kle. eapply klt_kle_trans; eauto.
Qed.

Lemma klt_not_sym a b : klt a b -> klt b a -> False.
Proof. intros H1 H2. exact (klt_irrefl a (klt_trans _ _ _ H1 H2)). Qed.

Lemma not_kle_klt a b : lex_cmp a b = Gt -> klt b a.
Proof. unfold klt. intros H. rewrite lex_cmp_antisym, H. reflexivity. Qed.

(* ---- internal-key order ---- *)
Definition elt (a b : entry) : Prop := ent_cmp a b = Lt.

Lemma ent_cmp_refl a : ent_cmp a a = Eq.
Proof. unfold ent_cmp, key_order. now rewrite lex_cmp_refl, N.compare_refl. Qed.

Lemma ent_cmp_antisym a b : ent_cmp b a = CompOpp (ent_cmp a b).
Proof.
  unfold ent_cmp, key_order. rewrite (lex_cmp_antisym (e_key a) (e_key b)).
  destruct (lex_cmp (e_key a) (e_key b)); cbn; auto. apply N.compare_antisym.
Qed.

Lemma ent_cmp_eq a b : ent_cmp a b = Eq <-> e_key a = e_key b /\ e_ver a = e_ver b.
Proof. unfold ent_cmp. apply key_order_eq. Qed.

Lemma ent_cmp_eq_l a b c : ent_cmp a b = Eq -> ent_cmp a c = ent_cmp b c.
Proof. intros H. apply ent_cmp_eq in H. destruct H as [Hk Hv]. unfold ent_cmp. now rewrite Hk, Hv. Qed.

Lemma ent_cmp_eq_r a b c : ent_cmp a b = Eq -> ent_cmp c a = ent_cmp c b.
Proof. intros H. apply ent_cmp_eq in H. destruct H as [Hk Hv]. unfold ent_cmp. now rewrite Hk, Hv. Qed.

Lemma elt_irrefl a : ~ elt a a.
Proof. unfold elt. rewrite ent_cmp_refl. discriminate. Qed.

Lemma elt_trans a b c : elt a b -> elt b c -> elt a c.
Proof.
  unfold elt, ent_cmp, key_order.
  destruct (lex_cmp (e_key a) (e_key b)) eqn:E1; try discriminate;
  destruct (lex_cmp (e_key b) (e_key c)) eqn:E2; try discriminate; intros H1 H2.
  - apply lex_cmp_eq in E1, E2. rewrite E1, E2, lex_cmp_refl.
    rewrite N.compare_lt_iff in *. lia.
  - apply lex_cmp_eq in E1. now rewrite E1, E2.
  - apply lex_cmp_eq in E2. now rewrite <- E2, E1.
  - now rewrite (lex_cmp_trans_lt _ _ _ E1 E2).
Qed.

Lemma elt_gt a b : ent_cmp a b = Gt -> elt b a.
Proof. unfold elt. intros H. now rewrite ent_cmp_antisym, H. Qed.

Lemma elt_kle a b : elt a b -> kle (e_key a) (e_key b).
Proof.
  unfold elt, ent_cmp, key_order, kle. destruct (lex_cmp (e_key a) (e_key b)); congruence.
Qed.

Lemma klt_elt a b : klt (e_key a) (e_key b) -> elt a b.
Proof. unfold klt, elt, ent_cmp, key_order. now intros ->. Qed.

Lemma not_gt_kle a b : ent_cmp a b <> Gt -> kle (e_key a) (e_key b).
Proof.
  unfold ent_cmp, key_order, kle. destruct (lex_cmp (e_key a) (e_key b)); congruence.
Qed.

(* ---- strictly sorted sources ---- *)
Definition ssorted (s : src) : Prop := StronglySorted elt s.

Lemma ssorted_nil : ssorted [].
Proof. constructor. Qed.

Lemma ssorted_cons_inv x s : ssorted (x :: s) -> ssorted s /\ Forall (elt x) s.
Proof. intros H. inversion H; subst. auto. Qed.

Lemma ssorted_app a b :
  ssorted a -> ssorted b -> (forall x y, In x a -> In y b -> elt x y) -> ssorted (a ++ b).
Proof.
  induction a as [|x a IH]; intros Ha Hb Hab; cbn; auto.
  apply ssorted_cons_inv in Ha. destruct Ha as [Ha Hx]. constructor.
  - apply IH; auto. intros u v Hu Hv. apply Hab; auto. now right.
  - apply Forall_app. split; auto. apply Forall_forall. intros y Hy. apply Hab; auto. now left.
Qed.

Lemma ssorted_app_inv a b :
  ssorted (a ++ b) -> ssorted a /\ ssorted b /\ (forall x y, In x a -> In y b -> elt x y).
Proof.
  induction a as [|x a IH]; cbn; intros H.
  - repeat split; auto. constructor. intros ? ? [].
  - apply ssorted_cons_inv in H. destruct H as [H Hx]. destruct (IH H) as (Ha & Hb & Hab).
    apply Forall_app in Hx. destruct Hx as [Hxa Hxb]. repeat split; auto.
    + constructor; auto.
    + intros u v [<-|Hu] Hv; auto. rewrite Forall_forall in Hxb. auto.
Qed.

(* sub-sequences *)
Inductive subseq {A} : list A -> list A -> Prop :=
| sub_nil : subseq [] []
| sub_skip x l l' : subseq l l' -> subseq l (x :: l')
| sub_keep x l l' : subseq l l' -> subseq (x :: l) (x :: l').

Lemma subseq_refl {A} (l : list A) : subseq l l.
Proof. induction l; [apply sub_nil|apply sub_keep; auto]. Qed.

Lemma subseq_nil_l {A} (l : list A) : subseq [] l.
Proof. induction l; [apply sub_nil|apply sub_skip; auto]. Qed.

Lemma subseq_in {A} (l l' : list A) x : subseq l l' -> In x l -> In x l'.
Proof.
  induction 1; cbn; auto.
  intros [->|H1]; auto.
Qed.

Lemma subseq_filter {A} (f : A -> bool) l : subseq (filter f l) l.
Proof. induction l as [|x l IH]; cbn; [apply sub_nil|]. destruct (f x); [apply sub_keep|apply sub_skip]; auto. Qed.

Lemma subseq_firstn {A} n (l : list A) : subseq (firstn n l) l.
Proof.
  revert l; induction n as [|n IH]; intros l; cbn; [apply subseq_nil_l|].
  destruct l; [apply sub_nil|apply sub_keep; auto].
Qed.

Lemma subseq_skipn {A} n (l : list A) : subseq (skipn n l) l.
Proof.
  revert l; induction n as [|n IH]; intros l; cbn; [apply subseq_refl|].
  destruct l; [apply sub_nil|apply sub_skip; auto].
Qed.

Lemma subseq_trans {A} (a b c : list A) : subseq a b -> subseq b c -> subseq a c.
Proof.
  intros Hab Hbc. revert a Hab. induction Hbc; intros a Hab.
  - inversion Hab; subst. apply sub_nil.
  - apply sub_skip. auto.
  - inversion Hab; subst; [apply sub_skip|apply sub_keep]; auto.
Qed.

Lemma subseq_map {A B} (f : A -> B) l l' : subseq l l' -> subseq (map f l) (map f l').
Proof. induction 1; cbn; [apply sub_nil|apply sub_skip|apply sub_keep]; auto. Qed.

Lemma subseq_app {A} (a a' b b' : list A) : subseq a a' -> subseq b b' -> subseq (a ++ b) (a' ++ b').
Proof. induction 1; cbn; intros Hb; auto; [apply sub_skip|apply sub_keep]; auto. Qed.

Lemma StronglySorted_subseq {A} (R : A -> A -> Prop) l l' :
  subseq l l' -> StronglySorted R l' -> StronglySorted R l.
Proof.
  induction 1; intros Hs; auto.
  - inversion Hs; subst. auto.
  - inversion Hs as [|? ? Hs' Hx]; subst. constructor; auto.
    apply Forall_forall. intros y Hy. rewrite Forall_forall in Hx. apply Hx.
    eapply subseq_in; eauto.
Qed.

Lemma NoDup_subseq {A} (l l' : list A) : subseq l l' -> NoDup l' -> NoDup l.
Proof.
  induction 1; intros Hn; auto.
  - inversion Hn; subst. auto.
  - inversion Hn as [|? ? Hx Hn']; subst. constructor; auto.
    intros Hin. apply Hx. eapply subseq_in; eauto.
Qed.

Lemma ssorted_subseq s s' : subseq s s' -> ssorted s' -> ssorted s.
Proof. apply StronglySorted_subseq. Qed.

(* in a sorted source: first element smallest, last element biggest *)
Lemma ssorted_hd x s y : ssorted (x :: s) -> In y (x :: s) -> y = x \/ elt x y.
Proof.
  intros H [<-|Hy]; auto. apply ssorted_cons_inv in H. destruct H as [_ H].
  rewrite Forall_forall in H. auto.
Qed.

Lemma last_some_in {A} (s : list A) g : last (map Some s) None = Some g -> In g s.
Proof.
  induction s as [|x s IH]; cbn; [discriminate|].
  destruct s as [|y s']; cbn in *.
  - intros [= ->]. auto.
  - intros H. right. apply IH. exact H.
Qed.

Lemma last_some_ex {A} (s : list A) : s <> [] -> exists g, last (map Some s) None = Some g.
Proof.
  induction s as [|x s IH]; [congruence|]. intros _.
  destruct s as [|y s']; cbn in *; eauto. apply IH. discriminate.
Qed.

Lemma ssorted_last s g y : ssorted s -> last (map Some s) None = Some g -> In y s -> y = g \/ elt y g.
Proof.
  induction s as [|x s IH]; cbn; [discriminate|]. intros Hs Hl Hy.
  destruct s as [|z s']; cbn in *.
  - inversion Hl; subst. destruct Hy as [<-|[]]. auto.
  - apply ssorted_cons_inv in Hs. destruct Hs as [Hs Hx].
    destruct Hy as [<-|Hy].
    + right. rewrite Forall_forall in Hx. apply Hx. apply (last_some_in (z :: s')). exact Hl.
    + apply IH; auto.
Qed.

(* ---- merge2 / merge_all ---- *)
Lemma merge2_nil_l b : merge2 [] b = b.
Proof. destruct b; reflexivity. Qed.

Lemma merge2_nil_r a : merge2 a [] = a.
Proof. destruct a; reflexivity. Qed.

Lemma merge2_cons x a y b :
  merge2 (x :: a) (y :: b) =
  match ent_cmp x y with
  | Lt => x :: merge2 a (y :: b)
  | Eq => x :: merge2 a b
  | Gt => y :: merge2 (x :: a) b
  end.
Proof. reflexivity. Qed.

Lemma merge2_in a b e : In e (merge2 a b) -> In e a \/ In e b.
Proof.
  revert b. induction a as [|x a IHa]; intros b.
  - rewrite merge2_nil_l. auto.
  - induction b as [|y b IHb].
    + rewrite merge2_nil_r. auto.
    + rewrite merge2_cons. destruct (ent_cmp x y).
      * intros [<-|H]; [left; now left|]. destruct (IHa _ H) as [H1|H1]; [left; now right|right; now right].
      * intros [<-|H]; [left; now left|]. destruct (IHa _ H) as [H1|H1]; [left; now right|now right].
      * intros [<-|H]; [right; now left|]. destruct (IHb H) as [H1|H1]; [now left|right; now right].
Qed.

(* nothing is lost up to key@version: an entry of either side has a representative with the
   same key and version in the merge *)
Lemma merge2_covers a b e : In e a \/ In e b -> exists e', In e' (merge2 a b) /\ ent_cmp e' e = Eq.
Proof.
  revert b. induction a as [|x a IHa]; intros b.
  - rewrite merge2_nil_l. intros [[]|H]. exists e. split; auto. apply ent_cmp_refl.
  - induction b as [|y b IHb].
    + rewrite merge2_nil_r. intros [H|[]]. exists e. split; auto. apply ent_cmp_refl.
    + rewrite merge2_cons. destruct (ent_cmp x y) eqn:C; intros H.
      * (* Eq: y is dropped, x represents it *)
        destruct H as [[<-|H]|[<-|H]].
        -- exists x. split; [now left|apply ent_cmp_refl].
        -- destruct (IHa b (or_introl H)) as (e' & H1 & H2). exists e'. split; auto. now right.
        -- exists x. split; [now left|exact C].
        -- destruct (IHa b (or_intror H)) as (e' & H1 & H2). exists e'. split; auto. now right.
      * destruct H as [[<-|H]|H].
        -- exists x. split; [now left|apply ent_cmp_refl].
        -- destruct (IHa (y :: b) (or_introl H)) as (e' & H1 & H2). exists e'. split; auto. now right.
        -- destruct (IHa (y :: b) (or_intror H)) as (e' & H1 & H2). exists e'. split; auto. now right.
      * destruct H as [H|[<-|H]].
        -- destruct (IHb (or_introl H)) as (e' & H1 & H2). exists e'. split; auto. now right.
        -- exists y. split; [now left|apply ent_cmp_refl].
        -- destruct (IHb (or_intror H)) as (e' & H1 & H2). exists e'. split; auto. now right.
Qed.

Lemma merge2_sorted a b : ssorted a -> ssorted b -> ssorted (merge2 a b).
Proof.
  revert b. induction a as [|x a IHa]; intros b Ha Hb.
  - now rewrite merge2_nil_l.
  - induction b as [|y b IHb].
    + now rewrite merge2_nil_r.
    + rewrite merge2_cons.
      destruct (ssorted_cons_inv _ _ Ha) as [Ha' Hxa].
      destruct (ssorted_cons_inv _ _ Hb) as [Hb' Hyb].
      rewrite Forall_forall in Hxa, Hyb.
      destruct (ent_cmp x y) eqn:C.
      * constructor; [apply IHa; auto|]. apply Forall_forall. intros z Hz.
        destruct (merge2_in _ _ _ Hz) as [H|H]; auto.
        unfold elt. rewrite (ent_cmp_eq_l _ _ _ C). apply Hyb; auto.
      * constructor; [apply IHa; auto|]. apply Forall_forall. intros z Hz.
        destruct (merge2_in _ _ _ Hz) as [H|[<-|H]]; auto.
        eapply elt_trans; [exact C|]. apply Hyb; auto.
      * constructor; [apply IHb; auto|]. apply Forall_forall. intros z Hz.
        apply elt_gt in C.
        destruct (merge2_in _ _ _ Hz) as [[<-|H]|H]; auto.
        eapply elt_trans; [exact C|]. apply Hxa; auto.
Qed.

Lemma merge_all_in ss e : In e (merge_all ss) -> exists s, In s ss /\ In e s.
Proof.
  induction ss as [|s ss IH]; cbn; [intros []|]. intros H.
  destruct (merge2_in _ _ _ H) as [H1|H1].
  - exists s. auto.
  - destruct (IH H1) as (s' & A & B). exists s'. auto.
Qed.

Lemma merge_all_covers ss s e : In s ss -> In e s -> exists e', In e' (merge_all ss) /\ ent_cmp e' e = Eq.
Proof.
  induction ss as [|s0 ss IH]; cbn; [intros []|]. intros [->|Hs] He.
  - apply merge2_covers. now left.
  - destruct (IH Hs He) as (e1 & H1 & H2).
    destruct (merge2_covers s0 (merge_all ss) e1 (or_intror H1)) as (e2 & H3 & H4).
    exists e2. split; auto. rewrite (ent_cmp_eq_l _ _ _ H4). exact H2.
Qed.

Lemma merge_all_sorted ss : Forall ssorted ss -> ssorted (merge_all ss).
Proof.
  induction 1; cbn; [constructor|]. apply merge2_sorted; auto.
Qed.
