(* ReopenTsProofs.v — C11: in normal mode the oracle's nextTxnTs is strictly above every version
   stored in the memtables and the levels, in every state reachable through xexec (including
   close + open and DropAll); and the read-only-mode invariant used by C07. *)
From Verif Require Import Bytes BytesProofs Keys C20Proofs Consts Spec Lsm LsmProofs Compact Iter Sys SysReopen EntOrderProofs ReopenReadProofs.
From Coq Require Import ZifyN ZifyNat ZifyBool Permutation.
Open Scope N_scope.

(* every entry the DB stores *)
Definition lv_entries (ls : list (list table)) : list entry := concat (map t_ents (concat ls)).
Definition db_entries (d : lsm) : list entry := l_mt d ++ concat (l_imm d) ++ lv_entries (l_levels d).

Definition below (n : N) (d : lsm) : Prop := forall e, In e (db_entries d) -> e_ver e < n.

Lemma in_lv_entries ls e : In e (lv_entries ls) <-> exists l t, In l ls /\ In t l /\ In e (t_ents t).
Proof.
  unfold lv_entries. rewrite in_concat. split.
  - intros (s & Hs & He). apply in_map_iff in Hs. destruct Hs as (t & <- & Ht).
    apply in_concat in Ht. destruct Ht as (l & Hl & Htl). eauto.
  - intros (l & t & Hl & Ht & He). exists (t_ents t). split; auto. apply in_map.
    apply in_concat. eauto.
Qed.

Lemma in_db_entries d e :
  In e (db_entries d) <-> In e (l_mt d) \/ (exists m, In m (l_imm d) /\ In e m) \/ In e (lv_entries (l_levels d)).
Proof.
  unfold db_entries. rewrite !in_app_iff, in_concat. tauto.
Qed.

(* ---- memtable writes ---- *)
Lemma mt_put_in s e x : In x (mt_put s e) -> x = e \/ In x s.
Proof.
  induction s as [|y s IH]; cbn.
  - intros [<-|[]]; auto.
  - destruct (ent_cmp e y); cbn.
    + intros [<-|H]; auto.
    + intros [<-|H]; auto.
    + intros [<-|H]; auto. destruct (IH H); auto.
Qed.

Lemma fold_mt_put_in es s x : In x (fold_left mt_put es s) -> In x es \/ In x s.
Proof.
  revert s. induction es as [|e es IH]; intros s; cbn; auto.
  intros H. destruct (IH _ H) as [H1|H1]; auto. destruct (mt_put_in _ _ _ H1); auto.
Qed.

(* ---- flush ---- *)
Lemma rotate_entries d e : In e (db_entries (rotate d)) -> In e (db_entries d).
Proof.
  rewrite !in_db_entries. unfold rotate. cbn [l_mt l_imm l_levels].
  intros [[]|[(m & Hm & He)|H]]; auto. apply in_app_iff in Hm. destruct Hm as [Hm|[<-|[]]]; eauto.
Qed.

Lemma add_l0_entries ls t e : In e (lv_entries (add_l0 ls t)) -> In e (t_ents t) \/ In e (lv_entries ls).
Proof.
  rewrite !in_lv_entries. destruct ls as [|l0 r]; cbn [add_l0].
  - intros (l & t' & [<-|[]] & [<-|[]] & He). auto.
  - intros (l & t' & [<-|Hl] & Ht & He).
    + apply in_app_iff in Ht. destruct Ht as [Ht|[<-|[]]]; auto.
      right. exists l0, t'. cbn. auto.
    + right. exists l, t'. cbn. auto.
Qed.

Lemma flush_oldest_entries d id e : In e (db_entries (flush_oldest d id)) -> In e (db_entries d).
Proof.
  unfold flush_oldest. destruct (l_imm d) as [|m r] eqn:Ei; auto.
  rewrite !in_db_entries. cbn [l_mt l_imm l_levels]. rewrite Ei.
  intros [H|[(m' & Hm & He)|H]]; auto.
  - right. left. exists m'. split; auto. now right.
  - destruct m as [|e0 m0]; auto. apply add_l0_entries in H. cbn [t_ents] in H.
    destruct H as [H|H]; auto. right. left. exists (e0 :: m0). split; auto. now left.
Qed.

Lemma flush_all_entries ids d e : In e (db_entries (fold_left flush_oldest ids d)) -> In e (db_entries d).
Proof.
  revert d. induction ids as [|i ids IH]; intros d; cbn [fold_left]; auto.
  intros H. apply IH in H. eapply flush_oldest_entries; eauto.
Qed.

Lemma close_db_entries d ids e : In e (db_entries (close_db d ids)) -> In e (db_entries d).
Proof.
  unfold close_db. intros H. apply flush_all_entries in H.
  destruct (l_mt d); auto. now apply rotate_entries.
Qed.

(* ---- Open ---- *)
Lemma ins_by_id_in t l x : In x (ins_by_id t l) -> x = t \/ In x l.
Proof.
  intros H. apply (Permutation_in _ (ins_by_id_perm t l)) in H. destruct H; auto.
Qed.

Lemma sort_by_id_in l x : In x (sort_by_id l) <-> In x l.
Proof.
  split; intros H.
  - eapply Permutation_in; [apply sort_by_id_perm|auto].
  - eapply Permutation_in; [symmetry; apply sort_by_id_perm|auto].
Qed.

Lemma open_levels_entries ls e : In e (lv_entries (open_levels ls)) -> In e (lv_entries ls).
Proof.
  rewrite !in_lv_entries. destruct ls as [|l0 r]; cbn [open_levels]; auto.
  intros (l & t & [<-|Hl] & Ht & He).
  - exists l0, t. rewrite sort_by_id_in in Ht. cbn. auto.
  - exists l, t. cbn. auto.
Qed.

Lemma open_db_entries d e : In e (db_entries (open_db d)) -> In e (db_entries d).
Proof.
  rewrite !in_db_entries. unfold open_db. cbn [l_mt l_imm l_levels].
  intros [[]|[H|H]]; auto. right. right. now apply open_levels_entries.
Qed.

Lemma reopen_db_entries d ids e : In e (db_entries (reopen_db d ids)) -> In e (db_entries d).
Proof. unfold reopen_db. intros H. apply open_db_entries in H. now apply close_db_entries in H. Qed.

(* ---- max_version bounds every stored version ---- *)
Lemma fold_max_ge l m : m <= fold_left (fun m e => N.max m (e_ver e)) l m.
Proof.
  revert m. induction l as [|x l IH]; intros m; cbn [fold_left]; [lia|].
  specialize (IH (N.max m (e_ver x))). lia.
Qed.

Lemma fold_max_in l m e : In e l -> e_ver e <= fold_left (fun m e => N.max m (e_ver e)) l m.
Proof.
  revert m. induction l as [|x l IH]; intros m; cbn [fold_left]; [intros []|].
  intros [<-|H]; auto. pose proof (fold_max_ge l (N.max m (e_ver x))). lia.
Qed.

Lemma levels_srcs_covers lvl ls l t e :
  In l ls -> In t l -> In e (t_ents t) -> exists s, In s (levels_srcs lvl ls) /\ In e s.
Proof.
  revert lvl. induction ls as [|l1 ls IH]; intros lvl; cbn [levels_srcs]; [intros []|].
  intros [->|Hl] Ht He.
  - destruct lvl; cbn [level_src].
    + exists (t_ents t). split; auto. apply in_or_app. left. apply in_map. now apply -> in_rev.
    + exists (concat (map t_ents l)). split; [apply in_or_app; left; now left|].
      apply in_concat. exists (t_ents t). split; auto. now apply in_map.
  - destruct (IH (S lvl) Hl Ht He) as (s & Hs & Hes). exists s. split; auto. apply in_or_app. now right.
Qed.

Lemma all_srcs_covers d e : In e (db_entries d) -> exists s, In s (all_srcs d) /\ In e s.
Proof.
  rewrite in_db_entries. unfold all_srcs. intros [H|[(m & Hm & He)|H]].
  - exists (l_mt d). split; auto. now left.
  - exists m. split; auto. right. apply in_or_app. left. now apply -> in_rev.
  - apply in_lv_entries in H. destruct H as (l & t & Hl & Ht & He).
    destruct (levels_srcs_covers 0 _ _ _ _ Hl Ht He) as (s & Hs & Hes).
    exists s. split; auto. right. apply in_or_app. now right.
Qed.

Theorem max_version_ge d e : In e (db_entries d) -> e_ver e <= max_version d.
Proof.
  intros H. destruct (all_srcs_covers _ _ H) as (s & Hs & He).
  destruct (merge_all_covers _ _ _ Hs He) as (e' & H1 & H2).
  apply ent_cmp_eq in H2. destruct H2 as [_ Hv]. rewrite <- Hv.
  unfold max_version, merged. now apply fold_max_in.
Qed.

Theorem reopen_next_above d ids : below (max_version (reopen_db d ids) + 1) (reopen_db d ids).
Proof. intros e He. apply max_version_ge in He. lia. Qed.

(* ---- compaction only ever removes entries ---- *)
Lemma filter_run_in p st s e : In e (filter_run p st s) -> In e s.
Proof.
  revert st. induction s as [|x s IH]; intros st; cbn [filter_run]; auto.
  destruct (filter_step p st x) as [st' keep]. destruct keep; cbn.
  - intros [<-|H]; auto. right. eauto.
  - intros H. right. eauto.
Qed.

Lemma split_counts_in s layout t e : In t (split_counts s layout) -> In e (t_ents t) -> In e s.
Proof.
  revert s. induction layout as [|[id n] r IH]; intros s; cbn [split_counts]; [intros []|].
  intros [<-|Ht] He.
  - cbn [t_ents] in He. eapply subseq_in; [apply subseq_firstn|eauto].
  - eapply subseq_in; [apply (subseq_skipn (N.to_nat n))|]. eapply IH; eauto.
Qed.

Lemma reorder_in ids l t : In t (reorder ids l) -> In t l.
Proof.
  induction ids as [|i ids IH]; cbn [reorder]; [intros []|].
  destruct (find (fun t0 => t_id t0 =? i) l) as [t0|] eqn:F; auto.
  intros [<-|H]; auto. apply find_some in F. tauto.
Qed.

Lemma set_level_in ls n l l' : In l' (set_level ls n l) -> l' = l \/ In l' ls.
Proof.
  revert n. induction ls as [|x ls IH]; intros n; cbn [set_level]; [intros []|].
  destruct n; intros [<-|H]; auto.
  - right. now right.
  - right. now left.
  - destruct (IH _ H); auto. right. now right.
Qed.

Lemma nth_in_or_nil {A} n (ls : list (list A)) x : In x (nth n ls []) -> In (nth n ls []) ls.
Proof.
  revert n. induction ls as [|l ls IH]; intros n; destruct n; cbn; try tauto.
  intros H. right. eauto.
Qed.

Lemma level_table_entries ls n t e : In t (nth n ls []) -> In e (t_ents t) -> In e (lv_entries ls).
Proof.
  intros Ht He. apply in_lv_entries. exists (nth n ls []), t. repeat split; auto.
  eapply nth_in_or_nil; eauto.
Qed.

Lemma compaction_inputs_in ls c s e : In s (compaction_inputs ls c) -> In e s -> In e (lv_entries ls).
Proof.
  unfold compaction_inputs. intros Hs He. apply in_app_iff in Hs. destruct Hs as [Hs|[<-|[]]].
  - assert (H: exists t, In t (pick_tables (c_top c) (nth (c_this c) ls [])) /\ s = t_ents t).
    { destruct (c_this c); apply in_map_iff in Hs; destruct Hs as (t & <- & Ht); exists t; split; auto.
      now apply in_rev. }
    destruct H as (t & Ht & ->). unfold pick_tables in Ht. apply filter_In in Ht.
    eapply level_table_entries; [apply Ht|auto].
  - apply in_concat in He. destruct He as (s' & Hs' & He). apply in_map_iff in Hs'.
    destruct Hs' as (t & <- & Ht). apply filter_In in Ht. destruct Ht as [Ht _].
    unfold pick_tables in Ht. apply filter_In in Ht. eapply level_table_entries; [apply Ht|auto].
Qed.

Lemma compaction_output_in ls c e : In e (compaction_output ls c) -> In e (lv_entries ls).
Proof.
  unfold compaction_output, compact_filter. intros H. apply filter_run_in in H.
  apply merge_all_in in H. destruct H as (s & Hs & He). eapply compaction_inputs_in; eauto.
Qed.

Theorem apply_compaction_entries ls c e :
  In e (lv_entries (apply_compaction ls c)) -> In e (lv_entries ls).
Proof.
  unfold apply_compaction.
  set (out := split_counts (compaction_output ls c) (c_layout c)).
  set (nl := drop_tables (c_bot c) (nth (c_next c) ls []) ++ out).
  set (ls1 := set_level ls (c_next c) (reorder (c_order c) nl)).
  assert (Hnl: forall t, In t nl -> forall e, In e (t_ents t) -> In e (lv_entries ls)).
  { intros t Ht e0 He0. unfold nl in Ht. apply in_app_iff in Ht. destruct Ht as [Ht|Ht].
    - unfold drop_tables in Ht. apply filter_In in Ht. eapply level_table_entries; [apply Ht|auto].
    - apply (compaction_output_in ls c). unfold out in Ht. eapply split_counts_in; eauto. }
  assert (H1: forall e0, In e0 (lv_entries ls1) -> In e0 (lv_entries ls)).
  { intros e0 H. apply in_lv_entries in H. destruct H as (l & t & Hl & Ht & He).
    unfold ls1 in Hl. apply set_level_in in Hl. destruct Hl as [->|Hl].
    - apply reorder_in in Ht. eapply Hnl; eauto.
    - apply in_lv_entries. eauto. }
  intros H. apply in_lv_entries in H. destruct H as (l & t & Hl & Ht & He).
  apply set_level_in in Hl. destruct Hl as [->|Hl].
  - unfold drop_tables in Ht. apply filter_In in Ht. apply H1.
    eapply level_table_entries; [apply Ht|auto].
  - apply H1. apply in_lv_entries. eauto.
Qed.

(* ---- transactions: in normal mode nothing pending carries an explicit version ---- *)
Definition txn_unver (x : txn) : Prop :=
  (forall ke, In ke (x_pend x) -> e_ver (snd ke) = 0) /\ (forall e, In e (x_dups x) -> e_ver e = 0).

Definition txns_unver (s : sys) : Prop := Forall (fun tx => txn_unver (snd tx)) (s_txns s).

Lemma update_Forall {A} (P : N * A -> Prop) l i a : Forall P l -> P (i, a) -> Forall P (update l i a).
Proof.
  induction l as [|[j b] l IH]; cbn [update]; intros HF Ha.
  - constructor; auto.
  - inversion HF; subst. destruct (j =? i); constructor; auto.
Qed.

Lemma lookup_in {A} (l : list (N * A)) i a : lookup l i = Some a -> exists j, In (j, a) l.
Proof.
  induction l as [|[j b] l IH]; cbn [lookup]; [discriminate|].
  destruct (j =? i).
  - intros [= ->]. exists j. now left.
  - intros H. destruct (IH H) as (j' & Hj). exists j'. now right.
Qed.

Lemma lookup_Forall {A} (P : N * A -> Prop) (Q : A -> Prop) l i a :
  (forall j b, P (j, b) -> Q b) -> Forall P l -> lookup l i = Some a -> Q a.
Proof.
  intros HPQ HF Hl. destruct (lookup_in _ _ _ Hl) as (j & Hj).
  rewrite Forall_forall in HF. eapply HPQ. apply HF. exact Hj.
Qed.

Lemma kupdate_in l k a ke : In ke (kupdate l k a) -> ke = (k, a) \/ In ke l.
Proof.
  induction l as [|[j b] l IH]; cbn [kupdate].
  - intros [<-|[]]. auto.
  - destruct (bytes_eqb j k); cbn.
    + intros [<-|H]; auto.
    + intros [<-|H]; auto. destruct (IH H); auto.
Qed.

Lemma klookup_in l k a : klookup l k = Some a -> exists j, In (j, a) l.
Proof.
  induction l as [|[j b] l IH]; cbn [klookup]; [discriminate|].
  destruct (bytes_eqb j k).
  - intros [= ->]. exists j. now left.
  - intros H. destruct (IH H) as (j' & Hj). exists j'. now right.
Qed.

Lemma txn_modify_unver x e : txn_unver x -> e_ver e = 0 -> txn_unver (snd (txn_modify x e)).
Proof.
  intros [Hp Hd] He. unfold txn_modify.
  destruct (negb (x_update x)); [split; auto|]. destruct (x_done x); [split; auto|].
  destruct (e_key e) as [|b0 k0] eqn:Ek; [split; auto|].
  destruct (is_prefix c_badgerPrefix (b0 :: k0)); [split; auto|].
  cbn [snd x_pend x_dups]. split.
  - intros ke Hke. apply kupdate_in in Hke. destruct Hke as [->|Hke]; auto.
  - intros e1 He1. destruct (klookup (x_pend x) (b0 :: k0)) as [old|] eqn:K; auto.
    destruct (e_ver old =? e_ver e); auto. apply in_app_iff in He1. destruct He1 as [H|[<-|[]]]; auto.
    destruct (klookup_in _ _ _ K) as (j & Hj). apply (Hp _ Hj).
Qed.

Lemma txn_get_pend s x k : x_pend (snd (txn_get s x k)) = x_pend x /\ x_dups (snd (txn_get s x k)) = x_dups x
  /\ x_update (snd (txn_get s x k)) = x_update x.
Proof.
  unfold txn_get. destruct k; [auto|]. destruct (x_done x); [auto|].
  destruct (if x_update x then klookup (x_pend x) (n :: k) else None).
  - destruct (deleted_or_expired e (s_now s)); auto.
  - destruct (db_get (s_db s) (n :: k) (x_read x)) as [e|]; [destruct (deleted_or_expired e (s_now s))|];
      destruct (x_update x) eqn:U; cbn [snd x_pend x_dups x_update]; auto.
Qed.

(* commit in normal mode stamps every entry with nextTxnTs *)
Lemma commit_entries_ver x ts e :
  txn_unver x -> In e (commit_entries x ts) -> e_ver e = ts.
Proof.
  intros [Hp Hd]. unfold commit_entries. rewrite in_app_iff, !in_map_iff.
  intros [(e0 & <- & He0)|(ke & <- & Hke)]; unfold stamp.
  - rewrite (Hd _ He0). reflexivity.
  - rewrite (Hp _ Hke). reflexivity.
Qed.

(* ---- the invariant ---- *)
Definition c11_inv (s : sys) : Prop :=
  s_managed s = false /\ below (s_next s) (s_db s) /\ txns_unver s.

Definition op_unversioned (o : op) : Prop :=
  match o with Modify _ e _ => e_ver e = 0 | _ => True end.

Lemma below_mono n n' d : n <= n' -> below n d -> below n' d.
Proof. intros Hn H e He. specialize (H e He). lia. Qed.

Lemma discard_unver x : txn_unver x -> txn_unver (discard_txn x).
Proof. intros H. exact H. Qed.

Theorem step_preserves_c11 s o s' :
  c11_inv s -> op_unversioned o -> step s o = Ok s' -> c11_inv s'.
Proof.
  intros (Hm & Hb & Ht) Ho. unfold txns_unver in Ht.
  assert (HL: forall t x, lookup (s_txns s) t = Some x -> txn_unver x).
  { intros t x Hl. eapply (lookup_Forall _ txn_unver); [|exact Ht|exact Hl]. auto. }
  destruct o; cbn [step].
  - (* Begin *)
    destruct (s_managed s || (rts =? s_next s - 1)); [|discriminate]. intros [= <-].
    repeat split; auto. unfold txns_unver, set_txn. cbn [s_txns].
    apply update_Forall; auto. cbn. split; intros ? [].
  - (* Modify *)
    destruct (lookup (s_txns s) t) as [x|] eqn:L; [|discriminate].
    destruct (txn_modify x e) as [r' x'] eqn:M. destruct (r' =? r); [|discriminate]. intros [= <-].
    repeat split; auto. unfold txns_unver, set_txn. cbn [s_txns]. apply update_Forall; auto.
    cbn [snd]. replace x' with (snd (txn_modify x e)) by now rewrite M.
    apply txn_modify_unver; eauto.
  - (* Get *)
    destruct (lookup (s_txns s) t) as [x|] eqn:L; [|discriminate].
    destruct (txn_get s x k) as [r' x'] eqn:G. destruct (getres_eqb r' r); [|discriminate]. intros [= <-].
    repeat split; auto. unfold txns_unver, set_txn. cbn [s_txns]. apply update_Forall; auto.
    cbn [snd]. destruct (txn_get_pend s x k) as (E1 & E2 & _). rewrite G in E1, E2. cbn [snd] in E1, E2.
    unfold txn_unver. rewrite E1, E2. apply (HL _ _ L).
  - (* Iterate *)
    destruct (lookup (s_txns s) t) as [x|] eqn:L; [|discriminate].
    destruct (entries_eqb (txn_iterate s x o seek) items); [|discriminate]. intros [= <-].
    repeat split; auto. unfold txns_unver, set_txn. cbn [s_txns]. apply update_Forall; auto.
    cbn [snd]. destruct (x_update x); [|apply (HL _ _ L)]. apply (HL _ _ L).
  - (* Commit *)
    destruct (lookup (s_txns s) t) as [x|] eqn:L; [|discriminate].
    destruct (txn_commit s t x cts) as [[r' ts] s1] eqn:C.
    destruct ((r' =? r) && (negb (r' =? 0) || (ts =? 0) || (ts =? cts))); [|discriminate]. intros [= <-].
    pose proof (HL _ _ L) as Hx.
    unfold txn_commit in C. destruct (x_pend x) as [|p0 pr] eqn:P.
    + inversion C; subst. repeat split; auto. unfold txns_unver. cbn [s_txns]. apply update_Forall; auto.
    + destruct (x_done x); [inversion C; subst; repeat split; auto|].
      destruct (s_detect s && has_conflict s x).
      * inversion C; subst. repeat split; auto. unfold txns_unver. cbn [s_txns]. apply update_Forall; auto.
      * rewrite Hm in C. inversion C; subst. clear C. repeat split; auto.
        -- intros e He. apply in_db_entries in He. unfold apply_entries in He. cbn [s_db l_mt l_imm l_levels] in He.
           destruct He as [He|He].
           ++ apply fold_mt_put_in in He. destruct He as [He|He].
              ** rewrite (commit_entries_ver _ _ _ Hx He). cbn [s_next]. lia.
              ** cbn [s_next]. assert (e_ver e < s_next s); [|lia]. apply Hb. apply in_db_entries. auto.
           ++ cbn [s_next]. assert (e_ver e < s_next s); [|lia]. apply Hb. apply in_db_entries. auto.
        -- unfold txns_unver. cbn [s_txns]. apply update_Forall; auto.
  - (* Discard *)
    destruct (lookup (s_txns s) t) as [x|] eqn:L; [|discriminate]. intros [= <-].
    repeat split; auto. unfold txns_unver, set_txn. cbn [s_txns]. apply update_Forall; auto.
    apply (HL _ _ L).
  - (* Flush *)
    intros [= <-]. repeat split; auto. unfold set_db. cbn [s_db s_next].
    intros e He. apply Hb. apply flush_oldest_entries in He. now apply rotate_entries.
  - (* Compact *)
    destruct (negb (pick_check (l_levels (s_db s)) c =? 0)); [discriminate|].
    destruct (entries_eqb (compaction_output (l_levels (s_db s)) c) out); [|discriminate].
    match goal with |- (if ?b then _ else _) = _ -> _ => destruct b; [|discriminate] end.
    intros [= <-]. repeat split; auto. unfold set_db. cbn [s_db s_next].
    intros e He. apply Hb. apply in_db_entries in He. cbn [l_mt l_imm l_levels] in He.
    apply in_db_entries. destruct He as [He|[He|He]]; auto.
    right. right. eapply apply_compaction_entries; eauto.
  - (* SetDiscard *) intros [= <-]. repeat split; auto.
  - (* SetNow *) intros [= <-]. repeat split; auto.
  - (* Dump *) destruct (dump_eqb (l_levels (s_db s)) levels); [|discriminate]. intros [= <-]. repeat split; auto.
  - (* MaxVersion *) destruct (max_version (s_db s) =? v); [|discriminate]. intros [= <-]. repeat split; auto.
Qed.


Lemma bad_version_false s b : s_managed s = false -> bad_version s b = false -> op_unversioned b.
Proof.
  intros Hm. destruct b; cbn; auto. rewrite Hm. cbn. intros H.
  apply negb_false_iff in H. now apply N.eqb_eq.
Qed.

Lemma drop_all_entries s e : In e (db_entries (s_db (drop_all_sys s))) -> False.
Proof.
  unfold drop_all_sys. cbn [s_db]. rewrite in_db_entries. cbn [l_mt l_imm l_levels].
  intros [[]|[(m & [] & _)|H]]. apply in_lv_entries in H. destruct H as (l & t & Hl & Ht & _).
  apply repeat_spec in Hl. subst l. destruct Ht.
Qed.

Theorem xstep_preserves_c11 xs o xs' :
  c11_inv (x_sys xs) -> xstep xs o = XOk xs' -> c11_inv (x_sys xs').
Proof.
  intros Hi. pose proof Hi as (Hm & Hb & Ht). destruct o; cbn [xstep].
  - (* Base *)
    destruct (bad_version (x_sys xs) o) eqn:BV; [discriminate|].
    pose proof (bad_version_false _ _ Hm BV) as Ho.
    assert (L: forall ro b, op_unversioned b -> lift ro (step (x_sys xs) b) = XOk xs' -> c11_inv (x_sys xs')).
    { intros ro b Hob. unfold lift. destruct (step (x_sys xs) b) as [s1|] eqn:S; [|discriminate].
      intros [= <-]. cbn [x_sys]. eapply step_preserves_c11; eauto. }
    destruct (x_ro xs).
    + destruct o; try discriminate; try (apply L; exact Ho).
    + destruct o; try (apply L; exact Ho).
      destruct (step (x_sys xs) (Compact c out)) as [s1|] eqn:S; [|discriminate].
      destruct (compact_extra_check (l_levels (s_db (x_sys xs))) c =? 0); [|discriminate].
      intros [= <-]. cbn [x_sys]. eapply step_preserves_c11; eauto.
  - (* Reopen *)
    destruct (l_mt (close_db (s_db (x_sys xs)) ids)); [|discriminate].
    destruct (l_imm (close_db (s_db (x_sys xs)) ids)); [|discriminate].
    destruct (negb (s_next (reopen_sys (x_sys xs) ids) =? next)); [discriminate|].
    destruct (negb (dump_eqb (l_levels (s_db (reopen_sys (x_sys xs) ids))) dump)); [discriminate|].
    intros [= <-]. cbn [x_sys]. unfold reopen_sys. repeat split; auto.
    + cbn [s_db s_next]. apply reopen_next_above.
    + unfold txns_unver. cbn [s_txns]. constructor.
  - (* DropAll *)
    destruct (x_ro xs); [discriminate|].
    destruct (s_next (drop_all_sys (x_sys xs)) =? next); [|discriminate]. intros [= <-]. cbn [x_sys].
    repeat split; auto. intros e He. destruct (drop_all_entries _ _ He).
  - (* GetAt *)
    destruct (txn_get (x_sys xs) (mkTxn ts false [] [] [] false) k) as [r' x'].
    destruct (getres_eqb r' r); [|discriminate]. now intros [= <-].
  - (* CheckWf *)
    destruct (levels_wf (l_levels (s_db (x_sys xs)))); [|discriminate]. now intros [= <-].
Qed.

Lemma init_c11 detect nkeep nlevels next : c11_inv (init_sys false detect nkeep nlevels next).
Proof.
  unfold init_sys. repeat split; auto.
  - intros e He. apply in_db_entries in He. cbn [s_db l_mt l_imm l_levels] in He.
    destruct He as [[]|[(m & [] & _)|H]]. apply in_lv_entries in H. destruct H as (l & t & Hl & Ht & _).
    apply repeat_spec in Hl. subst l. destruct Ht.
  - constructor.
Qed.

Theorem xexec_preserves_c11 ops xs i :
  c11_inv (x_sys xs) -> c11_inv (x_sys (snd (xexec xs ops i))).
Proof.
  revert xs i. induction ops as [|o ops IH]; intros xs i Hi; cbn [xexec snd]; auto.
  destruct (xstep xs o) as [xs1|code] eqn:S; cbn [snd]; auto.
  apply IH. eapply xstep_preserves_c11; eauto.
Qed.

(* C11: every state a normal-mode history reaches has nextTxnTs above every stored version *)
Theorem next_ts_above_versions detect nkeep nlevels next ops :
  let s := x_sys (snd (xexec (init_xsys false detect nkeep nlevels next) ops 0)) in
  forall e, In e (db_entries (s_db s)) -> e_ver e < s_next s.
Proof.
  cbn zeta. intros e He.
  pose proof (xexec_preserves_c11 ops (init_xsys false detect nkeep nlevels next) 0 (init_c11 _ _ _ _)) as (_ & Hb & _).
  now apply Hb.
Qed.

(* ... hence an accepted commit that writes something gets a timestamp above every stored
   version, and its own entries carry exactly that timestamp *)
Theorem commit_ts_above s t x cts ts s' :
  c11_inv s -> lookup (s_txns s) t = Some x -> x_pend x <> [] ->
  txn_commit s t x cts = (0, ts, s') -> x_done x = false ->
  (forall e, In e (db_entries (s_db s)) -> e_ver e < ts) /\
  ts = s_next s /\ s_next s' = ts + 1 /\
  (forall e, In e (commit_entries x ts) -> e_ver e = ts).
Proof.
  intros (Hm & Hb & Ht) L Hp C Hd. unfold txn_commit in C.
  destruct (x_pend x) as [|p0 pr] eqn:P; [congruence|]. rewrite Hd in C.
  destruct (s_detect s && has_conflict s x); [discriminate|].
  rewrite Hm in C. inversion C; subst. repeat split; auto.
  intros e He. eapply commit_entries_ver; eauto.
  eapply (lookup_Forall _ txn_unver); [|exact Ht|exact L]. auto.
Qed.

(* managed mode: the commit timestamp is the caller's, nothing relates it to the stored
   versions; the invariant fails after one commit below an existing version *)
Definition managed_witness : list xop :=
  [Base (Begin 0 true 9); Base (Modify 0 (mkE [1] 0 0 0 0 [7]) 0); Base (Commit 0 9 0);
   Base (Begin 1 true 9); Base (Modify 1 (mkE [1] 0 0 0 0 [8]) 0); Base (Commit 1 5 0)].

Theorem managed_commit_not_above :
  let '(bad, xs) := xexec (init_xsys true false 1 4 1) managed_witness 0 in
  bad = None /\ exists e, In e (db_entries (s_db (x_sys xs))) /\ s_next (x_sys xs) <= e_ver e.
Proof.
  vm_compute. split; [reflexivity|]. eexists. split; [left; reflexivity|]. cbn. discriminate.
Qed.

(* ---- read-only sessions (C07): the state of a read-only DB never changes ---- *)
Definition ro_txn (x : txn) : Prop := x_update x = false /\ x_pend x = [].
Definition ro_inv (xs : xsys) : Prop :=
  x_ro xs = true -> Forall (fun tx => ro_txn (snd tx)) (s_txns (x_sys xs)).

Lemma txn_modify_ro x e : ro_txn x -> txn_modify x e = (3, x).
Proof. intros [Hu _]. now apply ro_modify_rejected. Qed.

Lemma step_ro s b s' :
  Forall (fun tx => ro_txn (snd tx)) (s_txns s) ->
  (match b with Begin _ upd _ => upd = false | Flush _ | Compact _ _ => False | _ => True end) ->
  step s b = Ok s' ->
  s_db s' = s_db s /\ s_next s' = s_next s /\ Forall (fun tx => ro_txn (snd tx)) (s_txns s').
Proof.
  intros Ht Hb.
  assert (HL: forall t x, lookup (s_txns s) t = Some x -> ro_txn x).
  { intros t x Hl. eapply (lookup_Forall _ ro_txn); [|exact Ht|exact Hl]. auto. }
  destruct b; cbn [step]; try contradiction.
  - subst upd. destruct (s_managed s || (rts =? s_next s - 1)); [|discriminate]. intros [= <-].
    repeat split; auto. cbn [s_txns set_txn]. apply update_Forall; auto. split; reflexivity.
  - destruct (lookup (s_txns s) t) as [x|] eqn:L; [|discriminate].
    rewrite (txn_modify_ro x e (HL _ _ L)). destruct (3 =? r); [|discriminate]. intros [= <-].
    repeat split; auto. cbn [s_txns set_txn]. apply update_Forall; auto. apply (HL _ _ L).
  - destruct (lookup (s_txns s) t) as [x|] eqn:L; [|discriminate].
    destruct (txn_get s x k) as [r' x'] eqn:G. destruct (getres_eqb r' r); [|discriminate]. intros [= <-].
    repeat split; auto. cbn [s_txns set_txn]. apply update_Forall; auto. cbn [snd].
    destruct (txn_get_pend s x k) as (E1 & _ & E3). rewrite G in E1, E3. cbn [snd] in E1, E3.
    destruct (HL _ _ L) as [Hu Hp]. split; congruence.
  - destruct (lookup (s_txns s) t) as [x|] eqn:L; [|discriminate].
    destruct (entries_eqb (txn_iterate s x o seek) items); [|discriminate]. intros [= <-].
    repeat split; auto. cbn [s_txns set_txn]. apply update_Forall; auto. cbn [snd].
    destruct (HL _ _ L) as [Hu Hp]. rewrite Hu. split; auto.
  - destruct (lookup (s_txns s) t) as [x|] eqn:L; [|discriminate].
    destruct (HL _ _ L) as [Hu Hp]. unfold txn_commit. rewrite Hp.
    destruct ((0 =? r) && (negb (0 =? 0) || (0 =? 0) || (0 =? cts))); [|discriminate]. intros [= <-].
    repeat split; auto. cbn [s_txns]. apply update_Forall; auto. split; auto.
  - destruct (lookup (s_txns s) t) as [x|] eqn:L; [|discriminate]. intros [= <-].
    repeat split; auto. cbn [s_txns set_txn]. apply update_Forall; auto. apply (HL _ _ L).
  - intros [= <-]. repeat split; auto.
  - intros [= <-]. repeat split; auto.
  - destruct (dump_eqb (l_levels (s_db s)) levels); [|discriminate]. intros [= <-]. repeat split; auto.
  - destruct (max_version (s_db s) =? v); [|discriminate]. intros [= <-]. repeat split; auto.
Qed.

(* in a read-only session no label other than Reopen changes the stored data or the oracle *)
Theorem ro_session_pure xs o xs' :
  ro_inv xs -> x_ro xs = true -> xstep xs o = XOk xs' ->
  (forall ro ids next dump, o <> Reopen ro ids next dump) ->
  s_db (x_sys xs') = s_db (x_sys xs) /\ s_next (x_sys xs') = s_next (x_sys xs) /\ x_ro xs' = true /\ ro_inv xs'.
Proof.
  intros Hi Hro. specialize (Hi Hro). destruct o; cbn [xstep]; rewrite ?Hro.
  - destruct (bad_version (x_sys xs) o); [discriminate|].
    assert (L: forall b, (match b with Begin _ upd _ => upd = false | Flush _ | Compact _ _ => False | _ => True end) ->
               lift true (step (x_sys xs) b) = XOk xs' ->
               s_db (x_sys xs') = s_db (x_sys xs) /\ s_next (x_sys xs') = s_next (x_sys xs) /\ x_ro xs' = true /\ ro_inv xs').
    { intros b Hb. unfold lift. destruct (step (x_sys xs) b) as [s1|] eqn:S; [|discriminate]. intros [= <-].
      cbn [x_sys x_ro]. destruct (step_ro _ _ _ Hi Hb S) as (A & B & C). repeat split; auto. intros _. exact C. }
    intros H _. destruct o; try discriminate; apply L in H; auto.
  - intros _ Hne. exfalso. eapply Hne. reflexivity.
  - discriminate.
  - destruct (txn_get (x_sys xs) (mkTxn ts false [] [] [] false) k) as [r' x'].
    destruct (getres_eqb r' r); [|discriminate]. intros [= <-] _. repeat split; auto. intros _. exact Hi.
  - destruct (levels_wf (l_levels (s_db (x_sys xs)))); [|discriminate]. intros [= <-] _. repeat split; auto.
    intros _. exact Hi.
Qed.

(* the invariant is established by Reopen and kept by every label *)
Theorem xstep_preserves_ro_inv xs o xs' : ro_inv xs -> xstep xs o = XOk xs' -> ro_inv xs'.
Proof.
  intros Hi. destruct (x_ro xs) eqn:Hro.
  - destruct o; try (intros H; eapply ro_session_pure; eauto; congruence).
    cbn [xstep].
    destruct (l_mt (close_db (s_db (x_sys xs)) ids)); [|discriminate].
    destruct (l_imm (close_db (s_db (x_sys xs)) ids)); [|discriminate].
    destruct (negb (s_next (reopen_sys (x_sys xs) ids) =? next)); [discriminate|].
    destruct (negb (dump_eqb (l_levels (s_db (reopen_sys (x_sys xs) ids))) dump)); [discriminate|].
    intros [= <-]. intros _. cbn. constructor.
  - destruct o; cbn [xstep]; rewrite ?Hro.
    + destruct (bad_version (x_sys xs) o); [discriminate|].
      assert (L: forall r, lift false r = XOk xs' -> ro_inv xs').
      { intros r. unfold lift. destruct r; [|discriminate]. intros [= <-]. intros H. discriminate. }
      destruct o; try apply L.
      destruct (step (x_sys xs) (Compact c out)); [|discriminate].
      destruct (compact_extra_check (l_levels (s_db (x_sys xs))) c =? 0); [|discriminate].
      intros [= <-]. intros H. discriminate.
    + destruct (l_mt (close_db (s_db (x_sys xs)) ids)); [|discriminate].
      destruct (l_imm (close_db (s_db (x_sys xs)) ids)); [|discriminate].
      destruct (negb (s_next (reopen_sys (x_sys xs) ids) =? next)); [discriminate|].
      destruct (negb (dump_eqb (l_levels (s_db (reopen_sys (x_sys xs) ids))) dump)); [discriminate|].
      intros [= <-]. intros _. cbn. constructor.
    + destruct (s_next (drop_all_sys (x_sys xs)) =? next); [|discriminate]. intros [= <-]. intros H. discriminate.
    + destruct (txn_get (x_sys xs) (mkTxn ts false [] [] [] false) k) as [r' x'].
      destruct (getres_eqb r' r); [|discriminate]. intros [= <-]. intros H. congruence.
    + destruct (levels_wf (l_levels (s_db (x_sys xs)))); [|discriminate]. intros [= <-]. intros H. congruence.
Qed.
