(* Iter.v — iterator.go: the item sequence a transaction iterator yields, as a function of
   the merged entry stream (parseItem / Next / Seek / prefetch / Valid as coded). *)
From Verif Require Import Bytes Keys Consts Spec Lsm.
Open Scope N_scope.

Record iopts := mkIO {
  io_reverse : bool; io_all : bool; io_prefix : bytes; io_prefix_is_key : bool;
  io_since : N; io_internal : bool }.

Section Iter.
  Variable o : iopts.
  Variable read_ts now : N.
  Variable banned : bytes -> bool.    (* db.isBanned on the user key *)

  Definition is_internal (e : entry) : bool := is_prefix c_badgerPrefix (e_key e).

  (* the checks at the top of parseItem that skip an entry *)
  Definition skip_common (e : entry) : bool :=
    (negb (io_internal o) && is_internal e)
    || (read_ts <? e_ver e)
    || ((0 <? io_since o) && (e_ver e <=? io_since o))
    || (negb (is_internal e) && banned (e_key e)).

  (* hasPrefix(it): only consulted in forward mode with a non-empty prefix *)
  Definition stream_has_prefix (e : entry) : bool :=
    if negb (io_reverse o) && negb (match io_prefix o with [] => true | _ => false end)
    then is_prefix (io_prefix o) (e_key e) else true.

  (* forward: s in ascending internal-key order *)
  Fixpoint fwd_items (s : src) (last : option bytes) : list entry :=
    match s with
    | [] => []
    | e :: r =>
        if negb (stream_has_prefix e) then []
        else if skip_common e then fwd_items r last
        else if io_all o then e :: fwd_items r last
        else if match last with Some k => bytes_eqb k (e_key e) | None => false end then fwd_items r last
        else if deleted_or_expired e now then fwd_items r (Some (e_key e))
        else e :: fwd_items r (Some (e_key e))
    end.

  (* reverse: s in descending internal-key order (per user key: versions ascending).
     cand = the item built by FILL that is waiting to see whether a newer version follows *)
  Fixpoint rev_items (s : src) (cand : option entry) : list entry :=
    match s with
    | [] => match cand with Some c => [c] | None => [] end
    | e :: r =>
        let fresh :=
          if skip_common e then rev_items r None
          else if io_all o then e :: rev_items r None
          else if deleted_or_expired e now then rev_items r None
          else rev_items r (Some e) in
        match cand with
        | Some c =>
            if (e_ver e <=? read_ts) && bytes_eqb (e_key e) (e_key c) then
              (* goto FILL on the newer version *)
              if deleted_or_expired e now then rev_items r None else rev_items r (Some e)
            else c :: fresh
        | None => fresh
        end
    end.

  (* Iterator.Valid on an item *)
  Definition item_valid (e : entry) : bool :=
    if io_prefix_is_key o then bytes_eqb (e_key e) (io_prefix o) else is_prefix (io_prefix o) (e_key e).

  Fixpoint take_valid (l : list entry) : list entry :=
    match l with
    | [] => []
    | e :: r => if item_valid e then e :: take_valid r else []
    end.

  (* positions: Seek(key) with key defaulting to the prefix; empty => Rewind *)
  Fixpoint seek_le_rev (s : src) (k : bytes) : src :=   (* s descending; first entry <= (k, 0) *)
    match s with
    | [] => []
    | e :: r => match key_order (e_key e) (e_ver e) k 0 with Gt => seek_le_rev r k | _ => s end
    end.

  Definition iterate (m : src) (seek : bytes) : list entry :=
    let key := match seek with [] => io_prefix o | _ => seek end in
    if io_reverse o then
      let s := rev m in
      take_valid (rev_items (match key with [] => s | _ => seek_le_rev s key end) None)
    else
      take_valid (fwd_items (match key with [] => m | _ => seek_ge m key read_ts end) None).
End Iter.
