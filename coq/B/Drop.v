(* Drop.v — db.go DropPrefix / DropAll / prepareToDrop / filterPrefixesToDrop,
   levels.go dropPrefixes / containsPrefix / containsAnyPrefixes / dropTree, as coded.

   A drop is replayed against what the implementation did: the label carries the ids of the
   L0 tables the memtable flush created and, for every compaction DropPrefix ran, the
   compaction record (pick, discard ts, table layout, level order) plus its output.  The model
   computes by itself WHICH compactions must run (levels bottom-up, table groups chosen by
   containsAnyPrefixes, all L0 tables together), checks the observed picks against that plan,
   recomputes every output with the shared compaction filter (Compact.v, drop prefixes
   tested against the INTERNAL key) and installs it.

   Definitions only; proofs in DropProofs.v. *)
From Verif Require Import Bytes Keys Consts Spec Lsm Compact Iter Sys.
Open Scope N_scope.

(* the internal key of an entry: user key ++ 8 bytes big-endian (MaxUint64 - version) *)
Definition ikey (e : entry) : bytes := key_with_ts (e_key e) (e_ver e).

Definition bytes_ltb (a b : bytes) : bool := match lex_cmp a b with Lt => true | _ => false end.

(* the requested semantics: the USER key starts with one of the prefixes *)
Definition user_has_prefix (ps : list bytes) (k : bytes) : bool := existsb (fun p => is_prefix p k) ps.

(* levels.go containsPrefix(table, prefix): Smallest()/Biggest() are INTERNAL keys and
   bytes.Compare is the raw byte order; isPresent seeks to prefix@MaxUint64 (CompareKeys
   order) and tests the key found (an exhausted iterator has no key with the prefix) *)
Definition contains_prefix (t : table) (p : bytes) : bool :=
  match t_smallest t, t_biggest t with
  | Some s, Some b =>
      if is_prefix p (ikey s) then true
      else if is_prefix p (ikey b) then true
      else if bytes_ltb (ikey s) p && bytes_ltb p (ikey b) then
        match seek_ge (t_ents t) p max_u64 with
        | e :: _ => is_prefix p (ikey e)
        | [] => false
        end
      else false
  | _, _ => false
  end.

Definition contains_any_prefixes (ps : list bytes) (t : table) : bool := existsb (contains_prefix t) ps.

(* levels.go dropPrefixes, levels >= 1: maximal runs of consecutive tables that
   containsAnyPrefixes; `cur` is the group being built *)
Fixpoint table_groups (ps : list bytes) (l : list table) (cur : list table) : list (list table) :=
  match l with
  | [] => match cur with [] => [] | _ => [cur] end
  | t :: r =>
      if contains_any_prefixes ps t then table_groups ps r (cur ++ [t])
      else match cur with
           | [] => table_groups ps r []
           | _ => cur :: table_groups ps r []
           end
  end.

(* db.go filterPrefixesToDrop: a prefix is kept iff a default (newest-version, forward,
   Prefix = p) iterator of a fresh read-only transaction is ValidForPrefix after Rewind.
   The iterator looks at USER keys and skips deleted / expired / newer-than-readTs items. *)
Definition prefix_exists (d : lsm) (rts now : N) (p : bytes) : bool :=
  match iterate (mkIO false false p false 0 false) rts now (fun _ => false) (merged d) [] with
  | [] => false
  | _ :: _ => true
  end.
Definition filter_prefixes (d : lsm) (rts now : N) (ps : list bytes) : list bytes :=
  filter (prefix_exists d rts now) ps.

(* DropPrefix: db.imm = append(db.imm, db.mt); every non-empty memtable is written out by
   handleMemTableFlush — IN FULL: handleMemTableFlush passes nil to buildL0Table, the drop
   prefixes are not applied here — and becomes the newest L0 table; ids as observed *)
Fixpoint flush_mems (ls : list (list table)) (ms : list src) (ids : list N) : option (list (list table) * list N) :=
  match ms with
  | [] => Some (ls, ids)
  | [] :: r => flush_mems ls r ids
  | m :: r => match ids with
              | [] => None
              | id :: ids' => flush_mems (add_l0 ls (mkT id m)) r ids'
              end
  end.

(* one observed compaction: the record and the entries of the new tables *)
Definition obs := (compaction * list entry)%type.

(* runCompactDef: recompute the output, install it (same as the Compact label of Sys.step
   without the picker check) *)
Definition apply_obs (ls : list (list table)) (c : compaction) (out : list entry) : N * list (list table) :=
  if entries_eqb (compaction_output ls c) out then
    let ls' := apply_compaction ls c in
    if sorted_by_smallest (nth (c_next c) ls' []) || (length (nth (c_next c) ls' []) <=? 1)%nat
    then (0, ls') else (3, ls)
  else (1, ls).

Fixpoint prefixes_eqb (a b : list bytes) : bool :=
  match a, b with
  | [], [] => true
  | x :: a', y :: b' => bytes_eqb x y && prefixes_eqb a' b'
  | _, _ => false
  end.

(* levels >= 1: one same-level compaction (top = nil, bot = the group) per table group *)
Fixpoint run_groups (ps : list bytes) (nkeep : N) (lvl : nat) (groups : list (list table))
         (ls : list (list table)) (os : list obs) : N * list (list table) * list obs :=
  match groups with
  | [] => (0, ls, os)
  | g :: gr =>
      match os with
      | [] => (201, ls, os)                              (* a compaction the code runs is missing *)
      | (c, out) :: os' =>
          if negb ((c_this c =? lvl)%nat && (c_next c =? lvl)%nat) then (202, ls, os)
          else if negb (match c_top c with [] => true | _ => false end) then (203, ls, os)
          else if negb (ids_eqb (ids_of g) (c_bot c)) then (204, ls, os)
          else if negb (prefixes_eqb (c_drop c) ps) then (205, ls, os)
          else if negb (c_nkeep c =? nkeep) then (206, ls, os)
          else let '(code, ls') := apply_obs ls c out in
               if code =? 0 then run_groups ps nkeep lvl gr ls' os' else (code, ls, os)
      end
  end.

(* the levels are visited bottom-up; the groups of a level are computed from the level as
   it is when the loop reaches it *)
Fixpoint run_levels (ps : list bytes) (nkeep : N) (lvls : list nat)
         (ls : list (list table)) (os : list obs) : N * list (list table) * list obs :=
  match lvls with
  | [] => (0, ls, os)
  | lvl :: r =>
      let '(code, ls', os') := run_groups ps nkeep lvl (table_groups ps (nth lvl ls []) []) ls os in
      if code =? 0 then run_levels ps nkeep r ls' os' else (code, ls', os')
  end.

(* level 0: doCompact with the drop prefixes — fillTablesL0ToLbase takes ALL L0 tables and
   the overlapping tables of the base level (the base level is the one observed).  The pick
   is checked with the shared picker relation; reason 2011 (a non-empty level between L0
   and the base level: the layout of finding F11) is what the code does, so it is accepted
   and reported as a tag *)
Definition run_l0 (ps : list bytes) (nkeep : N) (ls : list (list table)) (os : list obs)
  : N * list (list table) * list obs * bool :=
  match nth 0 ls [] with
  | [] => (0, ls, os, false)
  | _ :: _ =>
      match os with
      | [] => (210, ls, os, false)
      | (c, out) :: os' =>
          let pc := pick_check ls c in
          if negb ((pc =? 0) || (pc =? 2011)) then (pc, ls, os, false)
          else if negb ((c_this c =? 0)%nat && negb (c_next c =? 0)%nat) then (212, ls, os, false)
          else if negb (ids_eqb (ids_of (nth 0 ls [])) (c_top c)) then (213, ls, os, false)   (* out = top: ALL L0 tables *)
          else if negb (prefixes_eqb (c_drop c) ps) then (205, ls, os, false)
          else if negb (c_nkeep c =? nkeep) then (206, ls, os, false)
          else let '(code, ls') := apply_obs ls c out in (code, ls', os', pc =? 2011)
      end
  end.

Definition deep_levels (ls : list (list table)) : list nat := rev (seq 1 (length ls - 1)).

(* levels.go dropPrefixes *)
Definition drop_levels (ps : list bytes) (nkeep : N) (ls : list (list table)) (os : list obs)
  : N * list (list table) * bool :=
  let '(code, ls1, os1) := run_levels ps nkeep (deep_levels ls) ls os in
  if negb (code =? 0) then (code, ls, false)
  else let '(code0, ls2, os2, skip) := run_l0 ps nkeep ls1 os1 in
       if negb (code0 =? 0) then (code0, ls, false)
       else match os2 with
            | [] => (0, ls2, skip)
            | _ :: _ => (211, ls, false)                 (* more compactions than the code runs *)
            end.

(* the read timestamp of db.View: normal mode nextTxnTs - 1 (all commits are done: writes
   are blocked and drained), managed mode MaxUint64 *)
Definition view_ts (s : sys) : N := if s_managed s then max_u64 else s_next s - 1.

Definition set_db_writes (s : sys) (d : lsm) (ws : list entry) : sys :=
  mkSys d (s_next s) (s_committed s) (s_txns s) (s_managed s) (s_detect s) (s_nkeep s) (s_discard s) ws (s_now s).

Inductive dres := DOk (s : sys) (tags : list N) | DBad (code : N).

(* db.go DropPrefix.  Tags: 300 no prefixes, 301 nothing to drop (no flush either),
   302 dropped, 303 F11 layout seen by the L0 compaction *)
Definition drop_prefix (s : sys) (ps : list bytes) (l0ids : list N) (os : list obs) : dres :=
  match ps with
  | [] => match l0ids, os with [], [] => DOk s [300] | _, _ => DBad 220 end
  | _ =>
    let d := s_db s in
    let fl := filter_prefixes d (view_ts s) (s_now s) ps in
    match fl with
    | [] => match l0ids, os with [], [] => DOk s [301] | _, _ => DBad 221 end
    | _ =>
      match flush_mems (l_levels d) (l_imm d ++ [l_mt d]) l0ids with
      | None => DBad 222
      | Some (_, _ :: _) => DBad 223
      | Some (ls0, []) =>
          let '(code, ls', skip) := drop_levels fl (s_nkeep s) ls0 os in
          if code =? 0 then
            DOk (set_db_writes s (mkLsm [] [] ls')
                   (filter (fun e => negb (has_any_prefix fl e)) (s_writes s)))
                (302 :: if skip then [303] else [])
          else DBad code
      end
    end
  end.

(* db.go dropAll: memtables released, dropTree deletes every table of every level, the value
   log is emptied; the oracle (nextTxnTs, conflict log) and open transactions are untouched *)
Definition drop_all (s : sys) : sys :=
  set_db_writes s (mkLsm [] [] (map (fun _ => []) (l_levels (s_db s)))) [].

(* Close + Open: Close hands a non-empty memtable to the flusher (new L0 table `id`, 0 when
   the memtable was empty); Open rebuilds the oracle at MaxVersion + 1 (normal mode), forgets
   every transaction, and level_handler.go initTables orders level 0 by table id (the other
   levels by smallest key, which they already are) *)
Fixpoint ins_by_id (t : table) (l : list table) : list table :=
  match l with
  | [] => [t]
  | x :: r => if t_id t <=? t_id x then t :: l else x :: ins_by_id t r
  end.
Definition sort_by_id (l : list table) : list table := fold_right ins_by_id [] l.

Definition reopen (s : sys) (id : N) : sys :=
  let d0 := flush_oldest (rotate (s_db s)) id in
  let d := mkLsm (l_mt d0) (l_imm d0)
                 (match l_levels d0 with [] => [] | l0 :: r => sort_by_id l0 :: r end) in
  mkSys d (if s_managed s then s_next s else max_version d + 1) [] [] (s_managed s) (s_detect s)
        (s_nkeep s) (if s_managed s then 0 else s_discard s) (s_writes s) (s_now s).

(* ---- history labels of the drop histories ---- *)
Inductive xop :=
| Base (o : op)
| DropPrefix (ps : list bytes) (l0ids : list N) (os : list obs) (r : N)
| DropAll (r : N)
| Reopen (id : N) (next : N).

Inductive xres := XOk (s : sys) (tags : list N) | XBad (code : N).

Definition xstep (s : sys) (o : xop) : xres :=
  match o with
  | Base b => match step s b with Ok s' => XOk s' [] | Bad c => XBad c end
  | DropPrefix ps l0ids os r =>
      if negb (r =? 0) then XBad 230                     (* sequential histories: a drop never fails *)
      else match drop_prefix s ps l0ids os with
           | DOk s' tags => XOk s' tags
           | DBad c => XBad c
           end
  | DropAll r => if negb (r =? 0) then XBad 230 else XOk (drop_all s) [310]
  | Reopen id next =>
      let s' := reopen s id in
      if s_managed s || (s_next s' =? next) then XOk s' [if id =? 0 then 320 else 321] else XBad 1
  end.

Fixpoint xexec (s : sys) (ops : list xop) (i : N) (tags : list N) : option (N * N) * sys * list N :=
  match ops with
  | [] => (None, s, tags)
  | o :: r => match xstep s o with
              | XOk s' t => xexec s' r (i + 1) (t ++ tags)
              | XBad code => (Some (i, code), s, tags)
              end
  end.

(* ================= crash model of a drop (persistence events) =================
   Persistent state = what a re-open reads: the memtable WAL files (replayed into memtables)
   and the MANIFEST's table set.  Each event is durable when it returns (unlink / MANIFEST
   append + fsync); a crash cuts the event list after any prefix. *)
Record pstate := mkP { p_wal : list src;               (* .mem files, oldest first *)
                       p_levels : list (list table) }. (* tables the MANIFEST lists *)

Inductive pevent :=
| PUnlinkWals                                   (* memtable DecrRef: every .mem file removed *)
| PNewWal                                       (* newMemTable: an empty .mem file *)
| PManifestDropAll                              (* dropTree: one change set deleting every table *)
| PInstall (ls : list (list table)).            (* a flush / compaction change set: new table set *)

Definition papply (p : pstate) (e : pevent) : pstate :=
  match e with
  | PUnlinkWals => mkP [] (p_levels p)
  | PNewWal => mkP (p_wal p ++ [[]]) (p_levels p)
  | PManifestDropAll => mkP (p_wal p) (map (fun _ => []) (p_levels p))
  | PInstall ls => mkP (p_wal p) ls
  end.

(* Open after a crash: every .mem file becomes a memtable (the last one active) *)
Definition recover (p : pstate) : lsm :=
  match rev (p_wal p) with
  | [] => mkLsm [] [] (p_levels p)
  | m :: older => mkLsm m (rev older) (p_levels p)
  end.

Definition persist_of (d : lsm) : pstate := mkP (l_imm d ++ [l_mt d]) (l_levels d).

(* db.go dropAll, in program order: db.mt.DecrRef() (+ imm), newMemTable, lc.dropTree *)
Definition dropall_events : list pevent := [PUnlinkWals; PNewWal; PManifestDropAll].
(* the reordered variant: MANIFEST first *)
Definition dropall_events_fixed : list pevent := [PManifestDropAll; PUnlinkWals; PNewWal].

Definition crash_after (p : pstate) (evs : list pevent) (n : nat) : lsm :=
  recover (fold_left papply (firstn n evs) p).

(* what a reader sees for key k *)
Definition read_at (d : lsm) (k : bytes) (ts now : N) : option entry :=
  match db_get d k ts with
  | Some e => if deleted_or_expired e now then None else Some e
  | None => None
  end.
