(* CompactProofs.v — the compaction filter never changes a read at or above the discard
   timestamp (union semantics), per-entry drop classification. *)
From Verif Require Import Bytes BytesProofs Keys C20Proofs Consts Spec Lsm Compact LsmProofs.
From Coq Require Import ZifyN ZifyNat ZifyBool Sorting.Sorted.
Open Scope N_scope.

Lemma entry_eq_dec (a b : entry) : {a = b} + {a <> b}.
Proof. decide equality; try apply N.eq_dec; apply (list_eq_dec N.eq_dec). Qed.

Definition lt_ent (a b : entry) : Prop := ent_cmp a b = Lt.
Definition sorted (s : src) : Prop := StronglySorted lt_ent s.

Lemma lt_ent_same_key a b : lt_ent a b -> e_key a = e_key b -> e_ver b < e_ver a.
Proof.
  unfold lt_ent, ent_cmp, key_order. intros H E. rewrite E, lex_cmp_refl in H.
  now apply N.compare_lt_iff in H.
Qed.

Lemma lt_ent_key_le a b : lt_ent a b -> lex_cmp (e_key a) (e_key b) <> Gt.
Proof.
  unfold lt_ent, ent_cmp, key_order. destruct (lex_cmp (e_key a) (e_key b)); congruence.
Qed.

(* in a sorted list, once the user key changes it never comes back *)
Lemma sorted_key_no_return a b c :
  lt_ent a b -> lt_ent b c -> e_key a = e_key c -> e_key a = e_key b.
Proof.
  intros Hab Hbc Hac.
  pose proof (lt_ent_key_le _ _ Hab) as H1. pose proof (lt_ent_key_le _ _ Hbc) as H2.
  rewrite Hac in H1. destruct (lex_cmp (e_key c) (e_key b)) eqn:E1.
  - apply lex_cmp_eq in E1. congruence.
  - rewrite lex_cmp_antisym, E1 in H2. cbn in H2. congruence.
  - congruence.
Qed.

(* ---- candidates and the newest version at or below ts in a bag of entries ---- *)
Definition cand (k : bytes) (ts : N) (e : entry) : bool := bytes_eqb (e_key e) k && (e_ver e <=? ts).
Definition newest (U : list entry) (k : bytes) (ts : N) : option entry :=
  fold_left better (map Some (filter (cand k ts) U)) None.

Definition vis_of (now : N) (o : option entry) : option entry :=
  match o with
  | Some e => if deleted_or_expired e now then None else Some e
  | None => None
  end.

Lemma fold_better_spec l b r :
  fold_left better (map Some l) b = r ->
  match r with
  | None => b = None /\ l = []
  | Some e => (b = Some e \/ In e l)
              /\ (forall x, b = Some x -> e_ver x <= e_ver e)
              /\ (forall x, In x l -> e_ver x <= e_ver e)
  end.
Proof.
  revert b r. induction l as [|y l IH]; intros b r H; cbn in H.
  - subst r. destruct b as [e|]; auto. repeat split; auto.
    + intros x [= ->]. lia.
    + intros x [].
  - apply IH in H. destruct r as [e|].
    + destruct H as (H1 & H2 & H3).
      assert (Hy: e_ver y <= e_ver e /\ (forall x, b = Some x -> e_ver x <= e_ver e)).
      { destruct b as [b0|]; cbn in H2.
        - destruct (e_ver b0 <? e_ver y) eqn:E.
          + specialize (H2 y eq_refl). split; auto. intros x [= ->]. apply N.ltb_lt in E. lia.
          + specialize (H2 b0 eq_refl). apply N.ltb_ge in E. split; [lia|]. intros x [= ->]. lia.
        - specialize (H2 y eq_refl). split; auto. intros x [=]. }
      destruct Hy as [Hy Hb]. repeat split; auto.
      * destruct H1 as [H1|H1]; [|right; now right].
        destruct b as [b0|]; cbn in H1.
        -- destruct (e_ver b0 <? e_ver y); inversion H1; subst; [right; now left|now left].
        -- inversion H1; subst. right; now left.
      * intros x [->|Hx]; auto.
    + destruct H as [H _]. destruct b as [b0|]; cbn in H; [destruct (e_ver b0 <? e_ver y)|]; discriminate.
Qed.

Lemma newest_some U k ts e :
  newest U k ts = Some e ->
  In e U /\ e_key e = k /\ e_ver e <= ts /\
  (forall x, In x U -> e_key x = k -> e_ver x <= ts -> e_ver x <= e_ver e).
Proof.
  unfold newest. intros H. apply fold_better_spec in H. destruct H as (H1 & _ & H3).
  destruct H1 as [H1|H1]; [discriminate|]. apply filter_In in H1. destruct H1 as [Hin Hc].
  unfold cand in Hc. apply andb_true_iff in Hc. destruct Hc as [Hk Hv].
  apply bytes_eqb_eq in Hk. apply N.leb_le in Hv. repeat split; auto.
  intros x Hx Hxk Hxv. apply H3. apply filter_In. split; auto.
  unfold cand. apply andb_true_iff. split; [now apply bytes_eqb_eq|now apply N.leb_le].
Qed.

Lemma newest_none U k ts :
  newest U k ts = None -> forall x, In x U -> e_key x = k -> e_ver x <= ts -> False.
Proof.
  unfold newest. intros H x Hx Hk Hv. apply fold_better_spec in H. destruct H as [_ H].
  assert (Hin: In x (filter (cand k ts) U)).
  { apply filter_In. split; auto. unfold cand. apply andb_true_iff.
    split; [now apply bytes_eqb_eq|now apply N.leb_le]. }
  rewrite H in Hin. contradiction.
Qed.

(* with distinct versions per key, the newest candidate is determined by its properties *)
Definition nodup_kv (U : list entry) : Prop :=
  forall a b, In a U -> In b U -> e_key a = e_key b -> e_ver a = e_ver b -> a = b.

Lemma newest_unique U k ts e :
  nodup_kv U -> In e U -> e_key e = k -> e_ver e <= ts ->
  (forall x, In x U -> e_key x = k -> e_ver x <= ts -> e_ver x <= e_ver e) ->
  newest U k ts = Some e.
Proof.
  intros Hnd Hin Hk Hv Hmax. destruct (newest U k ts) as [e'|] eqn:E.
  - apply newest_some in E. destruct E as (Hin' & Hk' & Hv' & Hmax').
    f_equal. apply Hnd; auto; [congruence|].
    specialize (Hmax e' Hin' Hk' Hv'). specialize (Hmax' e Hin Hk Hv). lia.
  - exfalso. eapply newest_none; eauto.
Qed.

(* ---- the filter: classification of what is dropped ---- *)
Lemma deleted_or_expired_mono_c e now now' :
  now <= now' -> deleted_or_expired e now = true -> deleted_or_expired e now' = true.
Proof.
  unfold deleted_or_expired. intros H. destruct (is_deleted e); cbn; auto.
  destruct (e_exp e =? 0); cbn; auto. intros E. apply N.leb_le in E. apply N.leb_le. lia.
Qed.

Definition dead_marker (p : cparams) (e : entry) : Prop :=
  e_ver e <= cp_discard p /\ is_merge e = false /\ deleted_or_expired e (cp_now p) = true.

(* relation between the filter state and the already processed prefix `pre` *)
Definition st_ok (p : cparams) (pre : src) (st : cstate) : Prop :=
  forall k, cs_skip st = Some k ->
    exists mk, In mk pre /\ e_key mk = k /\ e_ver mk <= cp_discard p.

Lemma opt_key_is_true o k : opt_key_is o k = true <-> o = Some k.
Proof.
  unfold opt_key_is. destruct o as [x|]; [|split; discriminate].
  rewrite bytes_eqb_eq. split; congruence.
Qed.

Section Filter.
  Variable p : cparams.
  Hypothesis no_prefix : cp_drop p = [].

  Lemma has_any_prefix_nil e : has_any_prefix (cp_drop p) e = false.
  Proof. now rewrite no_prefix. Qed.

  (* every entry written out comes from the input *)
  Lemma filter_run_sub st s e : In e (filter_run p st s) -> In e s.
  Proof.
    revert st. induction s as [|x s IH]; intros st; cbn [filter_run]; [contradiction|].
    destruct (filter_step p st x) as [st' keep]. destruct keep.
    - intros [->|H]; [now left|right; eauto].
    - intros H; right; eauto.
  Qed.

  (* one step: what it means to drop x *)
  Lemma filter_step_drop st x st' :
    filter_step p st x = (st', false) ->
    (cs_skip st = Some (e_key x) /\ st' = st)
    \/ (dead_marker p x /\ cp_overlap p = false /\ cs_skip st' = Some (e_key x)).
  Proof.
    unfold filter_step. rewrite has_any_prefix_nil. cbn [cs_last cs_skip cs_nver].
    destruct (opt_key_is (cs_skip st) (e_key x)) eqn:Sk.
    { intros [= <-]. left. apply opt_key_is_true in Sk. auto. }
    destruct ((e_ver x <=? cp_discard p) && negb (is_merge x)) eqn:C.
    2:{ destruct (opt_key_is (cs_last st) (e_key x)); intros [=]. }
    apply andb_true_iff in C. destruct C as [Cv Cm]. apply N.leb_le in Cv.
    apply negb_true_iff in Cm.
    set (st2 := if opt_key_is _ _ then _ else _).
    destruct (deleted_or_expired x (cp_now p)) eqn:D; cbn [orb negb andb].
    - destruct (cp_overlap p) eqn:O; [intros [=]|]. intros [= <-]. right.
      repeat split; auto.
    - destruct (has_discard x || (cs_nver st2 + 1 =? cp_nkeep p)); intros [=].
  Qed.

  (* one step: if x is kept or dropped as a marker, the new skip key (if any) is x's key and
     x qualifies as a marker at or below the discard timestamp *)
  Lemma filter_step_skip st x st' keep k :
    filter_step p st x = (st', keep) -> cs_skip st' = Some k ->
    (cs_skip st = Some k /\ e_key x = k) \/ (e_key x = k /\ e_ver x <= cp_discard p).
  Proof.
    unfold filter_step. rewrite has_any_prefix_nil. cbn [cs_last cs_skip cs_nver].
    destruct (opt_key_is (cs_skip st) (e_key x)) eqn:Sk.
    { intros [= <- <-] H. left. apply opt_key_is_true in Sk. split; congruence. }
    destruct ((e_ver x <=? cp_discard p) && negb (is_merge x)) eqn:C.
    2:{ destruct (opt_key_is (cs_last st) (e_key x)); intros [= <- <-]; cbn; discriminate. }
    apply andb_true_iff in C. destruct C as [Cv Cm]. apply N.leb_le in Cv.
    set (st2 := if opt_key_is _ _ then _ else _).
    destruct (deleted_or_expired x (cp_now p) || (has_discard x || (cs_nver st2 + 1 =? cp_nkeep p))).
    - destruct (negb (deleted_or_expired x (cp_now p)) && (has_discard x || (cs_nver st2 + 1 =? cp_nkeep p)));
        [|destruct (cp_overlap p)]; intros [= <- <-]; cbn; intros [= <-]; right; auto.
    - intros [= <- <-]; cbn; discriminate.
  Qed.

  Lemma sorted_app_lt (a b : src) x y : sorted (a ++ b) -> In x a -> In y b -> lt_ent x y.
  Proof.
    induction a as [|z a IH]; cbn; [contradiction|].
    intros Hs [->|Hx] Hy.
    - inversion Hs as [|? ? _ Hall]; subst. rewrite Forall_forall in Hall. apply Hall.
      apply in_or_app; now right.
    - inversion Hs; subst. auto.
  Qed.

  Lemma sorted_app_r (a b : src) : sorted (a ++ b) -> sorted b.
  Proof. induction a as [|z a IH]; cbn; auto. intros Hs. inversion Hs; subst. auto. Qed.

  Lemma sorted_cons_lt x (s0 : src) y : sorted (x :: s0) -> In y s0 -> lt_ent x y.
  Proof. intros Hs Hy. inversion Hs as [|? ? _ Hall]; subst. rewrite Forall_forall in Hall. auto. Qed.

  (* while the skip key is k, no later entry with user key k is written out *)
  Lemma filter_run_skipped pre st s k :
    sorted (pre ++ s) -> st_ok p pre st -> cs_skip st = Some k ->
    forall y, In y (filter_run p st s) -> e_key y <> k.
  Proof.
    revert pre st. induction s as [|x s IH]; intros pre st Hs Hst Hk y Hy; [contradiction|].
    cbn [filter_run] in Hy. destruct (filter_step p st x) as [st' keep] eqn:Step.
    assert (Hs' : sorted ((pre ++ [x]) ++ s)) by now rewrite <- app_assoc.
    destruct (Hst k Hk) as (mk & Hmk & Hmkk & Hmkv).
    destruct (bytes_eqb (e_key x) k) eqn:Ex.
    - (* same key: x is skipped, the state does not change *)
      apply bytes_eqb_eq in Ex.
      assert (Sk: opt_key_is (cs_skip st) (e_key x) = true) by (apply opt_key_is_true; congruence).
      unfold filter_step in Step. rewrite has_any_prefix_nil, Sk in Step. inversion Step; subst st' keep.
      eapply (IH (pre ++ [x]) st); eauto.
      intros k' Hk'. destruct (Hst k' Hk') as (m' & A & B & C). exists m'. repeat split; auto.
      apply in_or_app; now left.
    - (* different key: key k cannot come back later *)
      assert (Hne: e_key x <> k) by (intros E; apply bytes_eqb_eq in E; congruence).
      assert (Hlater: forall z, In z s -> e_key z <> k).
      { intros z Hz Ez. apply Hne.
        assert (L1: lt_ent mk x) by (apply (sorted_app_lt pre (x :: s) mk x Hs Hmk); now left).
        assert (L2: lt_ent x z).
        { apply sorted_app_r in Hs. apply (sorted_cons_lt x s z Hs Hz). }
        rewrite <- Hmkk. symmetry. eapply sorted_key_no_return; eauto. congruence. }
      assert (Hy': In y (x :: filter_run p st' s)) by (destruct keep; auto; now right).
      destruct Hy' as [->|Hy']; auto.
      apply filter_run_sub in Hy'. auto.
  Qed.

  (* main classification, generalised over the processed prefix *)
  Lemma filter_run_class pre st s :
    sorted (pre ++ s) -> st_ok p pre st ->
    forall e, In e s ->
      In e (filter_run p st s)
      \/ (exists mk, In mk (pre ++ s) /\ e_key mk = e_key e /\ e_ver e < e_ver mk /\ e_ver mk <= cp_discard p)
      \/ (dead_marker p e /\ cp_overlap p = false
          /\ forall y, In y (filter_run p st s) -> e_key y = e_key e -> e_ver e < e_ver y).
  Proof.
    revert pre st. induction s as [|x s IH]; intros pre st Hs Hst e He; [contradiction|].
    cbn [filter_run]. destruct (filter_step p st x) as [st' keep] eqn:Step.
    assert (Hs' : sorted ((pre ++ [x]) ++ s)) by now rewrite <- app_assoc.
    assert (Hst' : st_ok p (pre ++ [x]) st').
    { intros k Hk. destruct (filter_step_skip _ _ _ _ _ Step Hk) as [[H1 H2]|[H1 H2]].
      - destruct (Hst k H1) as (mk & A & B & C). exists mk. repeat split; auto.
        apply in_or_app; now left.
      - exists x. repeat split; auto. apply in_or_app; right; now left. }
    destruct He as [->|He].
    - (* e = x *)
      destruct keep; [left; now left|].
      destruct (filter_step_drop _ _ _ Step) as [[Hsk _]|[Hd [Ho Hsk']]].
      + right; left. destruct (Hst _ Hsk) as (mk & A & B & C). exists mk.
        repeat split; auto; [apply in_or_app; now left|].
        apply lt_ent_same_key; [|congruence]. eapply (sorted_app_lt pre _ mk _ Hs A). now left.
      + right; right. split; [exact Hd|split; [exact Ho|]]. intros y Hy Ey. exfalso.
        eapply (filter_run_skipped (pre ++ [e]) st' s); eauto.
    - (* e further down *)
      destruct (IH (pre ++ [x]) st' Hs' Hst' e He) as [H|[H|H]].
      + left. destruct keep; auto. now right.
      + right; left. destruct H as (mk & A & B). exists mk. split; auto.
        rewrite <- app_assoc in A. exact A.
      + right; right. destruct H as (Hd & Ho & Hall). split; [exact Hd|split; [exact Ho|]].
        intros y Hy Ey. destruct keep; [|auto]. destruct Hy as [->|Hy]; auto.
        apply lt_ent_same_key; [|congruence].
        apply sorted_app_r in Hs. eapply (sorted_cons_lt _ _ _ Hs He).
  Qed.

  Corollary filter_class m :
    sorted m -> forall e, In e m ->
      In e (compact_filter p m)
      \/ (exists mk, In mk m /\ e_key mk = e_key e /\ e_ver e < e_ver mk /\ e_ver mk <= cp_discard p)
      \/ (dead_marker p e /\ cp_overlap p = false
          /\ forall y, In y (compact_filter p m) -> e_key y = e_key e -> e_ver e < e_ver y).
  Proof.
    intros Hs e He. apply (filter_run_class [] cs_init m); auto.
    intros k Hk. cbn in Hk. discriminate.
  Qed.

  (* ---- Theorem A: reads at or above the discard timestamp do not change ---- *)
  Theorem filter_preserves_reads m O k ts now' :
    sorted m ->
    nodup_kv (m ++ O) ->
    (* (R): a dropped marker hides nothing that lives outside the compaction *)
    (forall e, In e m -> dead_marker p e -> cp_overlap p = false ->
       forall o, In o O -> e_key o = e_key e -> e_ver e < e_ver o) ->
    cp_discard p <= ts -> cp_now p <= now' ->
    vis_of now' (newest (compact_filter p m ++ O) k ts) = vis_of now' (newest (m ++ O) k ts).
  Proof.
    intros Hs Hnd HR Hts Hnow.
    assert (Hsub: forall x, In x (compact_filter p m ++ O) -> In x (m ++ O)).
    { intros x Hx. apply in_app_or in Hx. apply in_or_app. destruct Hx as [Hx|Hx]; auto.
      left. eapply filter_run_sub; eauto. }
    assert (Hnd': nodup_kv (compact_filter p m ++ O)).
    { intros a b Ha Hb. apply Hnd; auto. }
    destruct (newest (m ++ O) k ts) as [e|] eqn:Eb.
    - pose proof (newest_some _ _ _ _ Eb) as (Hin & Hk & Hv & Hmax).
      assert (Hcase: In e (compact_filter p m ++ O) \/ (In e m /\ ~ In e (compact_filter p m ++ O))).
      { apply in_app_or in Hin. destruct Hin as [Hin|Hin]; [|left; apply in_or_app; now right].
        destruct (filter_class m Hs e Hin) as [H|H]; [left; apply in_or_app; now left|].
        destruct (in_dec entry_eq_dec e (compact_filter p m ++ O)); auto. }
      destruct Hcase as [Hkeep|[Hm Hgone]].
      + (* the answer survives: it is still the newest *)
        rewrite (newest_unique _ k ts e Hnd' Hkeep Hk Hv); auto.
      + (* the answer was dropped by the filter *)
        destruct (filter_class m Hs e Hm) as [H|[H|H]].
        * exfalso. apply Hgone. apply in_or_app; now left.
        * (* skipped behind a newer marker at or below the discard timestamp: impossible *)
          exfalso. destruct H as (mk & A & B & C & D).
          assert (e_ver mk <= e_ver e).
          { apply Hmax; [apply in_or_app; now left|congruence|lia]. }
          lia.
        * (* a dead marker: nothing older is visible afterwards either *)
          destruct H as (Hd & Ho & Hall).
          assert (Hdead': deleted_or_expired e now' = true).
          { destruct Hd as (_ & _ & Hd). eapply deleted_or_expired_mono_c; eauto. }
          cbn [vis_of]. rewrite Hdead'.
          destruct (newest (compact_filter p m ++ O) k ts) as [x|] eqn:Ea; [|reflexivity].
          exfalso. pose proof (newest_some _ _ _ _ Ea) as (Hxin & Hxk & Hxv & _).
          assert (Hxle: e_ver x <= e_ver e) by (apply Hmax; auto).
          apply in_app_or in Hxin. destruct Hxin as [Hxin|Hxin].
          -- specialize (Hall x Hxin ltac:(congruence)). lia.
          -- specialize (HR e Hm Hd Ho x Hxin ltac:(congruence)). lia.
    - (* nothing visible before: nothing after *)
      destruct (newest (compact_filter p m ++ O) k ts) as [x|] eqn:Ea; [|reflexivity].
      exfalso. pose proof (newest_some _ _ _ _ Ea) as (Hxin & Hxk & Hxv & _).
      eapply newest_none; eauto.
  Qed.
End Filter.
