(* DropConc.v — the handshake between a drop and concurrent committers (db.go blockWrite /
   prepareToDrop / unblockWrite / doWrites / sendToWriteCh, txn.go commitAndSend, oracle
   readTs), as an interleaving model.  One drop thread, any number of committers, the writer
   goroutine (doWrites).

   committer:  Start --newCommitTs (txnMark.Begin)--> Stamped
               Stamped --sendToWriteCh: blockWrites = 1 ? ErrBlockedWrites (doneCommit)--> Rejected
                       --else--> Checked            (verifPoint "sendToWriteCh.beforeSend" sits here)
               Checked --writeCh <- req--> Sent (not served)
               Sent, served --req.Wait returns--> Done
   doWrites (while running): serves one request of writeCh (txnMark.Done)
   drop:  D0 --blockWrites := 1--> Blocked
          Blocked --closers.writes.SignalAndWait: doWrites serves what is in writeCh, exits--> Stopped
          Stopped --prepareToDrop: drains writeCh, writeRequests--> Drained
          Drained --DropPrefix only: filterPrefixesToDrop -> db.View -> readTs -> WaitForMark:
                    enabled only when no commit timestamp is pending--> Viewed
                  (DropAll: no read transaction, no guard)
          Viewed --the drop itself, unblockWrite: doWrites restarted, blockWrites := 0--> Finished
   blockWrites and "doWrites is running" are functions of the drop's program counter. *)
From Coq Require Import List Bool Arith Lia.
Import ListNotations.

Inductive wpc := WStart | WStamped | WChecked | WSent (served : bool) | WDone | WRejected.
Inductive dpc := D0 | DBlocked | DStopped | DDrained | DViewed | DFinished.

Record cstate := mkCS { c_drop : dpc; c_ws : list wpc }.

Definition blocked (d : dpc) : bool := match d with D0 | DFinished => false | _ => true end.
Definition running (d : dpc) : bool := match d with D0 | DBlocked | DFinished => true | _ => false end.

Definition terminal (w : wpc) : bool := match w with WDone | WRejected => true | _ => false end.
(* a commit timestamp whose txnMark is begun and not done *)
Definition pending (w : wpc) : bool :=
  match w with WStamped | WChecked | WSent false => true | _ => false end.
Definition serve (w : wpc) : wpc := match w with WSent false => WSent true | _ => w end.

Definition wstep (d : dpc) (w : wpc) : option wpc :=
  match w with
  | WStart => Some WStamped
  | WStamped => Some (if blocked d then WRejected else WChecked)
  | WChecked => Some (WSent false)
  | WSent true => Some WDone
  | WSent false => None                       (* req.Wait: blocked until served *)
  | WDone | WRejected => None
  end.

(* prefix = true: DropPrefix; false: DropAll *)
Definition dstep (prefix : bool) (s : cstate) : option cstate :=
  match c_drop s with
  | D0 => Some (mkCS DBlocked (c_ws s))
  | DBlocked => Some (mkCS DStopped (map serve (c_ws s)))
  | DStopped => Some (mkCS DDrained (map serve (c_ws s)))
  | DDrained => if prefix && existsb pending (c_ws s) then None else Some (mkCS DViewed (c_ws s))
  | DViewed => Some (mkCS DFinished (c_ws s))
  | DFinished => None
  end.

Fixpoint upd {A} (l : list A) (i : nat) (x : A) : list A :=
  match l, i with
  | [], _ => []
  | _ :: r, O => x :: r
  | y :: r, S j => y :: upd r j x
  end.

Inductive step (prefix : bool) : cstate -> cstate -> Prop :=
| SWriter s i w w' : nth_error (c_ws s) i = Some w -> wstep (c_drop s) w = Some w' ->
                     step prefix s (mkCS (c_drop s) (upd (c_ws s) i w'))
| SServe s i : running (c_drop s) = true -> nth_error (c_ws s) i = Some (WSent false) ->
               step prefix s (mkCS (c_drop s) (upd (c_ws s) i (WSent true)))
| SDrop s s' : dstep prefix s = Some s' -> step prefix s s'.

Inductive steps (prefix : bool) : cstate -> cstate -> Prop :=
| steps_refl s : steps prefix s s
| steps_cons s1 s2 s3 : step prefix s1 s2 -> steps prefix s2 s3 -> steps prefix s1 s3.

Definition final (s : cstate) : bool :=
  match c_drop s with DFinished => forallb terminal (c_ws s) | _ => false end.
Definition init (n : nat) : cstate := mkCS D0 (repeat WStart n).
Definition stuck (prefix : bool) (s : cstate) : Prop := final s = false /\ forall s', ~ step prefix s s'.
