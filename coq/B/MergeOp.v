(* MergeOp.v — merge.go: MergeOperator.Add / Get / iterateAndMerge / compact (the body of the
   background loop runCompactions; Stop runs it one last time).

   Part 1: iterateAndMerge as a function of the items the key iterator yields (all versions of
           the key at or below the read timestamp, newest first).
   Part 2: the per-key abstraction: a key's version list (newest first) and the operations that
           change it — Add (a new merge entry at a new, larger version), the write-back of a merge
           compaction (one entry WITHOUT the merge bit and WITH bitDiscardEarlierVersions at the
           SAME version as the newest operand it read; it replaces that operand in the view because
           the copy written later takes precedence — see "precedence" below), and an LSM
           compaction (subcompact's filter, Compact.filter_step, run over the versions of the key
           that are in the compaction's inputs — any subset — in any filter state a preceding key
           can leave behind), after which an operand that was shadowed by a rewrite of the same
           version can become visible again when the compaction dropped that rewrite (it can only
           have been dropped below a newer rewrite: KResurface).
   Part 3: the operator on the system model Sys (labels, for the correspondence).

   Precedence.  Two copies of key@version exist after a write-back: the operand and the
   rewrite.  Reads and compactions see one of them: the one in the newer source (memtable over
   immutables over L0 newest-first over deeper levels; Lsm.merged / merge2 keep the first).  Part 2
   assumes the rewrite wins; Part 3 does not assume it (Sys carries all sources), and the
   correspondence checks on every run that the view Sys computes equals the Part 2 list. *)
From Verif Require Import Bytes Keys Consts Spec Lsm Compact Iter Sys.
Open Scope N_scope.

Section Merge.
  Variable f : bytes -> bytes -> bytes.      (* MergeFunc(existingVal, newVal) *)

  (* ---------------- Part 1: iterateAndMerge ---------------- *)
  (* the loop `for it.Rewind(); it.Valid(); it.Next()`: nv = numVersions so far *)
  Fixpoint im_run (now : N) (items : list entry) (nv : nat) (newVal : bytes) (latest : N)
    : bytes * N * nat :=
    match items with
    | [] => (newVal, latest, nv)
    | it :: r =>
        if deleted_or_expired it now then (newVal, latest, nv)          (* break *)
        else
          let '(nv', lt') := match nv with
                             | O => (e_val it, e_ver it)                (* the newest version *)
                             | _ => (f (e_val it) newVal, latest)       (* f(oldVal, newVal) *)
                             end in
          if has_discard it then (nv', lt', S nv)                       (* break after it *)
          else im_run now r (S nv) nv' lt'
    end.

  Inductive imres := IMNotFound | IMNoMerge (v : bytes) (latest : N) | IMMerged (v : bytes) (latest : N).

  Definition iterate_and_merge (now : N) (items : list entry) : imres :=
    let '(v, l, n) := im_run now items 0 [] 0 in
    match n with
    | O => IMNotFound
    | S O => IMNoMerge v l
    | _ => IMMerged v l
    end.

  (* MergeOperator.Get: None = ErrKeyNotFound *)
  Definition mget (now : N) (items : list entry) : option bytes :=
    match iterate_and_merge now items with
    | IMNotFound => None
    | IMNoMerge v _ | IMMerged v _ => Some v
    end.

  (* MergeOperator.compact: the entry it writes back, if any *)
  Definition mcompact_entry (key : bytes) (now : N) (items : list entry) : option entry :=
    match iterate_and_merge now items with
    | IMMerged v l => Some (mkE key l c_bitDiscardEarlierVersions 0 0 v)
    | _ => None
    end.

  (* ---------------- Part 2: the per-key version list ---------------- *)
  (* insert by version, newest first; an entry of the same version is replaced (precedence) *)
  Fixpoint kput (l : list entry) (e : entry) : list entry :=
    match l with
    | [] => [e]
    | x :: r =>
        if e_ver x <? e_ver e then e :: l
        else if e_ver x =? e_ver e then e :: r
        else x :: kput r e
    end.

  (* subcompact's filter over the versions of the key that are in the compaction (mask) *)
  Fixpoint lsm_run (p : cparams) (st : cstate) (l : list entry) (mask : list bool) : list entry :=
    match l with
    | [] => []
    | e :: r =>
        let sel := match mask with b :: _ => b | [] => false end in
        if sel then
          let '(st', keep) := filter_step p st e in
          if keep then e :: lsm_run p st' r (tl mask) else lsm_run p st' r (tl mask)
        else e :: lsm_run p st r (tl mask)
    end.

  Record kstate := mkKS {
    k_list : list entry;            (* the key's versions as the key iterator yields them *)
    k_pend : list entry;            (* write-backs computed by compact(), not yet applied *)
    k_adds : list (N * bytes) }.    (* ghost: (version, value) of every Add, newest first *)

  Definition k_init : kstate := mkKS [] [] [].

  Inductive kop :=
  | KAdd (ts : N) (v : bytes)               (* Add: one update transaction, commit timestamp ts *)
  | KMergeRead (now : N)                    (* compact(): iterateAndMerge, request queued *)
  | KMergeWrite (i : nat)                   (* the i-th queued write-back is applied *)
  | KLsm (p : cparams) (st : cstate) (mask : list bool)
  | KResurface (ts : N) (v : bytes).        (* see below *)

  Definition add_entry (key : bytes) (ts : N) (v : bytes) : entry := mkE key ts c_bitMergeEntry 0 0 v.

  Fixpoint remove_nth {A} (n : nat) (l : list A) : list A :=
    match l, n with
    | [], _ => []
    | _ :: r, O => r
    | x :: r, S n' => x :: remove_nth n' r
    end.

  Definition kstep (key : bytes) (s : kstate) (o : kop) : kstate :=
    match o with
    | KAdd ts v => mkKS (kput (k_list s) (add_entry key ts v)) (k_pend s) ((ts, v) :: k_adds s)
    | KMergeRead now =>
        match mcompact_entry key now (k_list s) with
        | Some e => mkKS (k_list s) (k_pend s ++ [e]) (k_adds s)
        | None => s
        end
    | KMergeWrite i =>
        match nth_error (k_pend s) i with
        | Some e => mkKS (kput (k_list s) e) (remove_nth i (k_pend s)) (k_adds s)
        | None => s
        end
    | KLsm p st mask => mkKS (lsm_run p st (k_list s) mask) (k_pend s) (k_adds s)
    | KResurface ts v => mkKS (kput (k_list s) (add_entry key ts v)) (k_pend s) (k_adds s)
    end.

  (* what a history may do: commit timestamps grow; the compaction neither drops the key by
     prefix nor arrives in a filter state that is already skipping this very key *)
  Definition kop_ok (key : bytes) (s : kstate) (o : kop) : Prop :=
    match o with
    | KAdd ts v => forall tv, In tv (k_adds s) -> fst tv < ts
    | KLsm p st mask =>
        opt_key_is (cs_skip st) key = false
        /\ forall e, In e (k_list s) -> has_any_prefix (cp_drop p) e = false
    | KResurface ts v =>
        (* an operand that was added, and whose version is not that of a rewrite in the view (the
           rewrite takes precedence over its operand: precedence) *)
        In (ts, v) (k_adds s)
        /\ forall e, In e (k_list s) -> has_discard e = true -> e_ver e <> ts
    | _ => True
    end.

  (* the same as a computable check (sound: MergeOpProofs.kop_okb_sound); the correspondence
     evaluates it on every abstract step of every history *)
  Definition kop_okb (key : bytes) (s : kstate) (o : kop) : bool :=
    match o with
    | KAdd ts v => forallb (fun tv => fst tv <? ts) (k_adds s)
    | KLsm p st mask =>
        negb (opt_key_is (cs_skip st) key)
        && forallb (fun e => negb (has_any_prefix (cp_drop p) e)) (k_list s)
    | KResurface ts v =>
        existsb (fun tv => (fst tv =? ts) && bytes_eqb (snd tv) v) (k_adds s)
        && forallb (fun e => negb (has_discard e && (e_ver e =? ts))) (k_list s)
    | _ => true
    end.

  Fixpoint krun (key : bytes) (s : kstate) (os : list kop) : kstate :=
    match os with
    | [] => s
    | o :: r => krun key (kstep key s o) r
    end.

  Fixpoint kops_ok (key : bytes) (s : kstate) (os : list kop) : Prop :=
    match os with
    | [] => True
    | o :: r => kop_ok key s o /\ kops_ok key (kstep key s o) r
    end.

  Fixpoint kops_okb (key : bytes) (s : kstate) (os : list kop) : bool :=
    match os with
    | [] => true
    | o :: r => kop_okb key s o && kops_okb key (kstep key s o) r
    end.

  (* the fold of all added values in Add order (oldest first list, non-empty) *)
  Definition mprod (l : list bytes) : bytes :=
    match l with
    | [] => []
    | x :: r => fold_left f r x
    end.
  Definition fold_of_adds (adds : list (N * bytes)) : option bytes :=
    match adds with
    | [] => None
    | _ => Some (mprod (rev (map snd adds)))
    end.

  (* ---------------- Part 3: the operator on Sys ---------------- *)
  (* txn.NewKeyIterator(key, AllVersions) in a read transaction begun now *)
  Definition key_items (s : sys) (key : bytes) : list entry :=
    iterate (mkIO false true key true 0 false) (s_next s - 1) (s_now s) (fun _ => false)
            (merged (s_db s)) [].

  Definition sys_mget (s : sys) (key : bytes) : option bytes := mget (s_now s) (key_items s key).

  (* batchSetAsync of the write-back: straight into the memtable (no transaction, no oracle) *)
  Definition sys_mcompact (s : sys) (key : bytes) : sys * bool :=
    match mcompact_entry key (s_now s) (key_items s key) with
    | Some e =>
        (mkSys (apply_entries (s_db s) [e]) (s_next s) (s_committed s) (s_txns s) (s_managed s)
               (s_detect s) (s_nkeep s) (s_discard s) (s_writes s ++ [e]) (s_now s), true)
    | None => (s, false)
    end.

  (* Add = db.Update(SetEntry(NewEntry(key, val).withMergeBit())) *)
  Definition madd_txn : N := 1000000.
  Definition sys_madd (s : sys) (key v : bytes) : result :=
    match step s (Begin madd_txn true (s_next s - 1)) with
    | Ok s1 =>
        match step s1 (Modify madd_txn (mkE key 0 c_bitMergeEntry 0 0 v) 0) with
        | Ok s2 => step s2 (Commit madd_txn (s_next s2) 0)
        | b => b
        end
    | b => b
    end.

  (* DB.Close (flushes the memtable; no compaction: CompactL0OnClose is off in histories) and
     Open: nextTxnTs = MaxVersion + 1, no open transactions, empty conflict log *)
  Fixpoint ins_by_id (t : table) (l : list table) : list table :=
    match l with
    | [] => [t]
    | x :: r => if t_id t <? t_id x then t :: l else x :: ins_by_id t r
    end.
  Definition sort_l0 (ls : list (list table)) : list (list table) :=
    match ls with
    | [] => []
    | l0 :: r => fold_right ins_by_id [] l0 :: r
    end.

  Definition sys_reopen (s : sys) (id next : N) : result :=
    let d0 := flush_oldest (rotate (s_db s)) id in
    (* level_handler.go initTables: level 0 is ordered by file id again *)
    let d := mkLsm (l_mt d0) (l_imm d0) (sort_l0 (l_levels d0)) in
    if next =? max_version d + 1 then
      Ok (mkSys d next [] [] (s_managed s) (s_detect s) (s_nkeep s) (s_discard s) (s_writes s) (s_now s))
    else Bad 1.

  Inductive xop :=
  | Base (o : op)
  | MAdd (key v : bytes)
  | MGet (key : bytes) (r : option bytes)
  | MCompact (key : bytes)            (* compact() + barrier; also what Stop does *)
  | Reopen (id next : N).

  Definition opt_bytes_eqb (a b : option bytes) : bool :=
    match a, b with
    | None, None => true
    | Some x, Some y => bytes_eqb x y
    | _, _ => false
    end.

  Definition xstep (s : sys) (o : xop) : result :=
    match o with
    | Base b => step s b
    | MAdd key v => sys_madd s key v
    | MGet key r => if opt_bytes_eqb (sys_mget s key) r then Ok s else Bad 1
    | MCompact key => Ok (fst (sys_mcompact s key))
    | Reopen id next => sys_reopen s id next
    end.
End Merge.
