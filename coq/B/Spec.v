(* Spec.v — entries, meta bits, the MVCC-map specification (Layer B spec).
   A history's committed writes are a list of entries in write order; `vis` is what a read at
   timestamp ts must return. *)
From Verif Require Import Bytes Keys Consts.
Open Scope N_scope.

Record entry := mkE { e_key : bytes; e_ver : N; e_meta : N; e_umeta : N; e_exp : N; e_val : bytes }.

Definition has_bit (m b : N) : bool := negb (N.land m b =? 0).
Definition is_deleted (e : entry) : bool := has_bit (e_meta e) c_bitDelete.
Definition is_merge (e : entry) : bool := has_bit (e_meta e) c_bitMergeEntry.
Definition has_discard (e : entry) : bool := has_bit (e_meta e) c_bitDiscardEarlierVersions.

(* iterator.go isDeletedOrExpired(meta, expiresAt) at wall-clock second `now` *)
Definition deleted_or_expired (e : entry) (now : N) : bool :=
  is_deleted e || (negb (e_exp e =? 0) && (e_exp e <=? now)).

(* internal-key order on entries: user key ascending, version descending *)
Definition ent_cmp (a b : entry) : comparison := key_order (e_key a) (e_ver a) (e_key b) (e_ver b).
Definition key_le (k : bytes) (ts : N) (e : entry) : bool :=
  match key_order k ts (e_key e) (e_ver e) with Gt => false | _ => true end.

Definition entry_eqb (a b : entry) : bool :=
  bytes_eqb (e_key a) (e_key b) && (e_ver a =? e_ver b) && (e_meta a =? e_meta b)
  && (e_umeta a =? e_umeta b) && (e_exp a =? e_exp b) && bytes_eqb (e_val a) (e_val b).

(* ---- the specification ---- *)
(* newest write at or below ts; for equal versions the LATER write (later in the list) wins *)
Fixpoint spec_latest (ws : list entry) (k : bytes) (ts : N) (best : option entry) : option entry :=
  match ws with
  | [] => best
  | w :: r =>
      let best' :=
        if bytes_eqb (e_key w) k && (e_ver w <=? ts) then
          match best with
          | None => Some w
          | Some b => if e_ver b <=? e_ver w then Some w else best
          end
        else best in
      spec_latest r k ts best'
  end.

Definition vis (ws : list entry) (k : bytes) (ts now : N) : option entry :=
  match spec_latest ws k ts None with
  | Some e => if deleted_or_expired e now then None else Some e
  | None => None
  end.
