(* GcWitness.v — concrete histories (recorded from the implementation by harness/gcscen.go,
   accepted label by label by the model) that witness the defects of the pinned tree:
   F2 (an item obtained by Txn.Get loses its value when GC deletes the file), F23 (the
   write-back resurrects a key deleted before the rewrite started), F26 (the write-back copy
   sits above a newer tombstone; a compaction after the rewrite resurrects the key).
   DB options of all three: normal mode, NumVersionsToKeep 1, 4 levels, ValueThreshold 32,
   ValueLogMaxEntries 1. *)
From Coq Require Import String.
From Verif Require Import Bytes Keys Consts Spec Lsm Compact Iter Sys Gc.
Open Scope N_scope.
Open Scope string_scope.

Definition w_init : xsys := init_x false false 1 4 1 32 1.

(* F2: up to (and including) GcEnd; the item with handle 0 was obtained by Txn.Get in
   transaction 2, which is still open *)
Definition w_f2 : list xop := [
  (Base (SetNow 1790051220));
  (Base (Begin 0 true 0));
  (Base (Modify 0 (mkE (hx "6b") 0 0 0 0 (hx "76767676767676767676767676767676767676767676767676767676767676767676767676767676")) 0));
  (CommitV 0 1 0 [((hx "6b"), 1)]);
  (Base (Begin 1 true 1));
  (Base (Modify 1 (mkE (hx "70") 0 0 0 0 (hx "70707070707070707070707070707070707070707070707070707070707070707070707070707070")) 0));
  (CommitV 1 2 0 [((hx "70"), 2)]);
  (Base (Begin 2 false 2));
  (GetHold 0 2 (hx "6b") (GFound (mkE (hx "6b") 1 0 0 0 (hx ""))));
  (GetHold 1 2 (hx "70") (GFound (mkE (hx "70") 2 0 0 0 (hx ""))));
  (ItemValue 1 (hx "70707070707070707070707070707070707070707070707070707070707070707070707070707070"));
  (PDump [(mkE (hx "6b") 1 2 0 0 [1; 0]); (mkE (hx "70") 2 2 0 0 [1; 1])] [] [[]; []; []; []] [(1, [(mkE (hx "6b") 1 0 0 0 (hx "76767676767676767676767676767676767676767676767676767676767676767676767676767676")); (mkE (hx "70") 2 0 0 0 (hx "70707070707070707070707070707070707070707070707070707070707070707070707070707070"))]); (2, [])] [] 0 2);
  (Base (MaxVersion 2));
  (GcStart 1 0);
  (GcScan [((hx "6b"), 1); ((hx "70"), 2)]);
  GcWriteBack;
  (GcDelete false);
  GcEnd].

(* F23: everything before the write-back (delete committed before GcStart, flush + last-level
   compaction between scan and write-back) *)
Definition w_f23_before : list xop := [
  (Base (SetNow 1790051228));
  (Base (Begin 0 true 0));
  (Base (Modify 0 (mkE (hx "6b") 0 0 0 0 (hx "76767676767676767676767676767676767676767676767676767676767676767676767676767676")) 0));
  (CommitV 0 1 0 [((hx "6b"), 1)]);
  (Base (Begin 1 true 1));
  (Base (Modify 1 (mkE (hx "70") 0 0 0 0 (hx "70707070707070707070707070707070707070707070707070707070707070707070707070707070")) 0));
  (CommitV 1 2 0 [((hx "70"), 2)]);
  (Base (Begin 2 true 2));
  (Base (Modify 2 (mkE (hx "6b") 0 1 0 0 (hx "")) 0));
  (CommitV 2 3 0 []);
  (Base (Begin 3 false 3));
  (Base (Discard 3));
  (Base (Begin 4 false 3));
  (Base (Discard 4));
  (Base (MaxVersion 3));
  (GcStart 1 0);
  (GcScan [((hx "6b"), 1); ((hx "70"), 2)]);
  (Base (Flush 1));
  (Base (Compact (mkC 0 3 [1] [] 3 1 [] 1790051228 [(2, 1)] [2]) [(mkE (hx "70") 2 0 0 0 (hx "70707070707070707070707070707070707070707070707070707070707070707070707070707070"))]));
  (Base (Dump [[]; []; []; [(2, [(mkE (hx "70") 2 0 0 0 (hx "70707070707070707070707070707070707070707070707070707070707070707070707070707070"))])]]))].

(* F26: everything before the compaction that runs after GcEnd (delete committed and flushed
   between scan and write-back) *)
Definition w_f26_before : list xop := [
  (Base (SetNow 1790051229));
  (Base (Begin 0 true 0));
  (Base (Modify 0 (mkE (hx "6b") 0 0 0 0 (hx "76767676767676767676767676767676767676767676767676767676767676767676767676767676")) 0));
  (CommitV 0 1 0 [((hx "6b"), 1)]);
  (Base (Begin 1 true 1));
  (Base (Modify 1 (mkE (hx "70") 0 0 0 0 (hx "70707070707070707070707070707070707070707070707070707070707070707070707070707070")) 0));
  (CommitV 1 2 0 [((hx "70"), 2)]);
  (Base (Flush 1));
  (Base (MaxVersion 2));
  (GcStart 1 0);
  (GcScan [((hx "6b"), 1); ((hx "70"), 2)]);
  (Base (Begin 2 true 2));
  (Base (Modify 2 (mkE (hx "6b") 0 1 0 0 (hx "")) 0));
  (CommitV 2 3 0 []);
  (Base (Flush 2));
  GcWriteBack;
  (GcDelete false);
  GcEnd;
  (Base (Begin 3 false 3));
  (Base (Discard 3));
  (Base (Begin 4 false 3));
  (Base (Discard 4))].
Definition w_f26_compact : xop := (Base (Compact (mkC 0 3 [1; 2] [] 3 1 [] 1790051229 [(3, 1)] [3]) [(mkE (hx "70") 2 0 0 0 (hx ""))])).
