(* BlockingProofs.v — C38: invariant of the blocking structure, absence of stuck states,
   the progress measure, Close completes; refutation witnesses for the faithful (non-strict)
   transition relation. *)
From Coq Require Import List Arith Bool Lia.
Import ListNotations.
From Verif Require Import Blocking.

Ltac b2p :=
  repeat match goal with
  | H : _ && _ = true |- _ => apply andb_true_iff in H; destruct H
  | H : _ || _ = false |- _ => apply orb_false_iff in H; destruct H
  | H : negb _ = true |- _ => apply negb_true_iff in H
  | H : negb _ = false |- _ => apply negb_false_iff in H
  | H : (_ =? _) = true |- _ => apply Nat.eqb_eq in H
  | H : (_ =? _) = false |- _ => apply Nat.eqb_neq in H
  | H : (_ <? _) = true |- _ => apply Nat.ltb_lt in H
  | H : (_ <? _) = false |- _ => apply Nat.ltb_ge in H
  | H : (_ <=? _) = true |- _ => apply Nat.leb_le in H
  | H : (_ <=? _) = false |- _ => apply Nat.leb_gt in H
  end.

(* ---- phase sets ---- *)
Definition clo_started (p : cph) : bool := match p with CNot => false | _ => true end.
Definition clo_sigd (p : cph) : bool :=
  match p with CNot | CGC | CSigW => false | _ => true end.
Definition clo_wexit (p : cph) : bool :=
  match p with CNot | CGC | CSigW | CWaitW => false | _ => true end.
Definition clo_wclosed (p : cph) : bool :=
  match p with CNot | CGC | CSigW | CWaitW | CCloseCh => false | _ => true end.
Definition clo_mtnil (p : cph) : bool :=
  match p with CStopF | CWaitF | CWaitC | COrc | CDone => true | _ => false end.
Definition clo_fclosed (p : cph) : bool :=
  match p with CWaitF | CWaitC | COrc | CDone => true | _ => false end.
Definition clo_csig (p : cph) : bool :=
  match p with CWaitC | COrc | CDone => true | _ => false end.
Definition clo_allexit (p : cph) : bool :=
  match p with COrc | CDone => true | _ => false end.
Definition clo_gct (p : cph) : bool :=
  match p with CNot | CGC => false | _ => true end.
Definition clo_done (p : cph) : bool := match p with CDone => true | _ => false end.

Definition drp_started (p : dph) : bool := match p with DNone => false | _ => true end.
Definition drp_sigd (p : dph) : bool := match p with DNone | DSig => false | _ => true end.
Definition drp_wexit (p : dph) : bool := match p with DNone | DSig | DWaitW => false | _ => true end.
Definition drp_jobfree (p : dph) : bool :=
  match p with DNone | DSig | DWaitW | DWrite => false | _ => true end.
Definition drp_fclosed (p : dph) : bool :=
  match p with DWaitF | DView | DFlushMt | DStopC | DWaitC | DDo | DRestart => true | _ => false end.
Definition drp_fexit (p : dph) : bool :=
  match p with DView | DFlushMt | DStopC | DWaitC | DDo | DRestart => true | _ => false end.
Definition drp_csig (p : dph) : bool :=
  match p with DWaitC | DDo | DRestart => true | _ => false end.
Definition drp_allexit (p : dph) : bool :=
  match p with DDo | DRestart => true | _ => false end.

Definition drp_pastdrain (p : dph) : bool :=
  match p with DNone | DSig | DWaitW | DDrain _ => false | _ => true end.

Definition w_running (x : wst) : bool := match x with WIdle | WCollect _ => true | _ => false end.
Definition w_past_default (x : wst) : bool := match x with WTok _ | WFinal | WExited => true | _ => false end.
Definition is_jnone (x : jst) : bool := match x with JNone => true | _ => false end.

(* ---- the invariant of the strict transition relation ---- *)
Record inv (c : cfg) (s : st) : Prop := mkInv {
  i_crash : crashed s = false;
  i_wch : wch s <= cN c;
  i_fch : fch s <= cM c;
  i_l0 : l0 s <= cS c;
  i_ol0 : ol0 s <= 1;
  i_l0run : l0_running s = true -> 1 <= l0 s;
  i_l0one : is_cl0 (c0 s) = true -> ol0 s = 0;
  i_wfinal : w s = WFinal -> is_jnone (job s) = false;
  i_wexit : w s = WExited -> is_jnone (job s) = true \/ drp s = DWrite;
  i_dwrite : drp s = DWrite -> w s = WExited /\ is_jnone (job s) = false;
  i_collect : forall k, w s = WCollect k -> 1 <= k;
  i_wsig : w_running (w s) = false -> sig s = true;
  i_wsig2 : w_past_default (w s) = true -> sig s = true;
  i_sig : sig s = clo_sigd (clo s) || drp_sigd (drp s);
  i_bw : bw s = clo_started (clo s) || drp_started (drp s);
  i_excl : clo s = CNot \/ drp s = DNone;
  i_wclosed : wclosed s = clo_wclosed (clo s);
  i_cwexit : clo_wexit (clo s) = true -> w s = WExited /\ is_jnone (job s) = true;
  i_dwexit : drp_wexit (drp s) = true -> w s = WExited;
  i_djob : drp_jobfree (drp s) = true -> is_jnone (job s) = true;
  i_fclosed : fclosed s = clo_fclosed (clo s) || drp_fclosed (drp s);
  i_fexit : fl s = FExited -> fclosed s = true /\ fch s = 0;
  i_cfexit : clo_csig (clo s) = true -> fl s = FExited;
  i_dfexit : drp_fexit (drp s) = true -> fl s = FExited;
  i_csig : csig s = clo_csig (clo s) || drp_csig (drp s);
  i_cexit : 1 <= cK c -> is_cexit (c0 s) = true -> csig s = true;
  i_callex : clo_allexit (clo s) = true -> all_exited s = true;
  i_dallex : drp_allexit (drp s) = true -> all_exited s = true;
  i_mtnil : mt s = MtNil -> clo_mtnil (clo s) = true;
  i_alive : markalive s = negb (clo_done (clo s));
  i_gct : gctaken s = clo_gct (clo s);
  i_nopass : clo_started (clo s) = true -> is_passed (hold s) = false /\ is_gpassed (g s) = false;
  i_noorphan : clo_started (clo s) = true -> w_past_default (w s) = true -> wch s = 0;
  i_dnopass : drp_started (drp s) = true -> is_passed (hold s) = false /\ is_gpassed (g s) = false;
  i_dnoorphan : drp_pastdrain (drp s) = true -> wch s = 0;
  i_rd : markalive s = false -> rdwait s = 0;
  i_stale : stale s = true -> markalive s = false
}.

Lemma inv_init : forall c, inv c (init c).
Proof.
  intros c. constructor; cbn; try tauto; try lia; try discriminate; try reflexivity;
    try (intros; discriminate); try (destruct (cK c); cbn; intros; try discriminate; lia);
    try (unfold l0_running; cbn; destruct (cK c); cbn; discriminate).
Qed.

(* ---- preservation: one lemma per label, solved by the same staged tactic ---- *)

Local Arguments Nat.ltb : simpl never.
Local Arguments Nat.leb : simpl never.
Local Arguments Nat.eqb : simpl never.

Ltac destr_step Hs :=
  repeat (match type of Hs with
    | context [match ?x with _ => _ end] => destruct x eqn:?; cbn in Hs; try discriminate Hs
    end).

Ltac use_hyps :=
  repeat match goal with
  | H : ?P -> _, H' : ?P |- _ => match type of P with Prop => specialize (H H') end
  | H : ?x = ?x -> _ |- _ => specialize (H eq_refl)
  | H : _ /\ _ |- _ => destruct H
  end.

Ltac inj_all :=
  repeat match goal with
  | H : forall k0 : nat, WCollect ?k = WCollect k0 -> _ |- _ => pose proof (H k eq_refl); clear H
  | H : WCollect _ = WCollect _ |- _ => injection H as H; subst
  | H : WClosed _ = WClosed _ |- _ => injection H as H; subst
  | H : WTok _ = WTok _ |- _ => injection H as H; subst
  | H : DDrain _ = DDrain _ |- _ => injection H as H; subst
  end.

Ltac b2p_split :=
  repeat match goal with
  | H : _ || _ = true |- _ => apply orb_true_iff in H; destruct H
  | H : _ && _ = false |- _ => apply andb_false_iff in H; destruct H
  end.

Ltac goal_b2p :=
  rewrite ?andb_true_iff, ?orb_false_iff, ?negb_true_iff, ?negb_false_iff,
          ?Nat.eqb_eq, ?Nat.eqb_neq, ?Nat.ltb_lt, ?Nat.ltb_ge, ?Nat.leb_le, ?Nat.leb_gt.

Ltac destr_preds :=
  repeat match goal with
  | H : context [w_past_default ?x] |- _ => is_var x; destruct x
  | H : context [w_running ?x] |- _ => is_var x; destruct x
  | H : context [is_jnone ?x] |- _ => is_var x; destruct x
  | H : context [is_passed ?x] |- _ => is_var x; destruct x
  | H : context [is_gpassed ?x] |- _ => is_var x; destruct x
  | H : context [is_cexit ?x] |- _ => is_var x; destruct x
  | H : context [is_cl0 ?x] |- _ => is_var x; destruct x
  | |- context [w_past_default ?x] => is_var x; destruct x
  | |- context [w_running ?x] => is_var x; destruct x
  | |- context [is_jnone ?x] => is_var x; destruct x
  | |- context [is_passed ?x] => is_var x; destruct x
  | |- context [is_gpassed ?x] => is_var x; destruct x
  | |- context [is_cexit ?x] => is_var x; destruct x
  | |- context [is_cl0 ?x] => is_var x; destruct x
  | H : context [match ?x with _ => _ end] |- _ => is_var x; destruct x
  | |- context [match ?x with _ => _ end] => is_var x; destruct x
  end.

Ltac leaf := subst; cbn in *; b2p; goal_b2p; try discriminate; try congruence; try lia.

Ltac destr_goal_preds :=
  repeat match goal with
  | |- context [w_past_default ?x] => is_var x; destruct x
  | |- context [w_running ?x] => is_var x; destruct x
  | |- context [is_jnone ?x] => is_var x; destruct x
  | |- context [is_passed ?x] => is_var x; destruct x
  | |- context [is_gpassed ?x] => is_var x; destruct x
  | |- context [is_cexit ?x] => is_var x; destruct x
  | |- context [is_cl0 ?x] => is_var x; destruct x
  | |- context [is_clib ?x] => is_var x; destruct x
  end.

Ltac norm_goal :=
  unfold l0_pickable, l0_running, all_exited, l0_blocked, inflight_ts, reqs; cbn;
  rewrite ?orb_false_r, ?orb_true_r, ?andb_true_r, ?andb_false_r, ?negb_involutive.

Ltac cheap :=
  try assumption; try reflexivity;
  intros; subst; inj_all; try assumption; try discriminate;
  use_hyps; try assumption; try tauto; try congruence;
  b2p; goal_b2p; try tauto; try congruence; try lia.

Ltac fin :=
  norm_goal;
  first
  [ solve [cheap]
  | solve [destr_goal_preds; cbn in *; cheap]
  | solve [cheap; intuition leaf]
  | solve [destr_goal_preds; cbn in *; cheap; intuition leaf]
  | solve [cheap; b2p_split; b2p; intuition leaf]
  | solve [cheap; repeat match goal with x : dph |- _ => destruct x end;
             repeat match goal with x : cph |- _ => destruct x end;
             cbn in *; use_hyps; b2p; goal_b2p; intuition leaf]
  | solve [cheap; destr_preds; cbn in *; use_hyps; b2p; goal_b2p; intuition leaf] ].

Ltac prep c s Hc Hi Hs :=
  unfold step in Hs; rewrite (i_crash _ _ Hi) in Hs;
  destruct Hi; destruct s; unfold cfg_ok in Hc;
  cbn in *; subst;
  unfold crash in Hs; cbn in Hs; destr_step Hs;
  match type of Hs with Some _ = Some _ => injection Hs as <- end;
  match goal with H : _ \/ _ |- _ => destruct H; subst; cbn in * end;
  unfold l0_pickable, l0_running, all_exited, l0_blocked, inflight_ts, reqs in *; cbn in *;
  rewrite ?orb_false_r, ?orb_true_r, ?andb_true_r, ?andb_false_r, ?negb_involutive in *;
  b2p;
  repeat match goal with
  | H : clo_started ?x = false |- _ => is_var x; destruct x; try discriminate H
  | H : drp_started ?x = false |- _ => is_var x; destruct x; try discriminate H
  end; cbn in *.

Lemma inv_step_E_commit : forall c s s', cfg_ok c -> inv c s -> step true c s (E_commit) = Some s' -> inv c s'.
Proof.
  intros c s s' Hc Hi Hs. prep c s Hc Hi Hs.
  all: (constructor; fin).
Qed.

Lemma inv_step_E_read : forall c s s', cfg_ok c -> inv c s -> step true c s (E_read) = Some s' -> inv c s'.
Proof.
  intros c s s' Hc Hi Hs. prep c s Hc Hi Hs.
  all: (constructor; fin).
Qed.

Lemma inv_step_E_close : forall c s s', cfg_ok c -> inv c s -> step true c s (E_close) = Some s' -> inv c s'.
Proof.
  intros c s s' Hc Hi Hs. prep c s Hc Hi Hs.
  all: (constructor; fin).
Qed.

Lemma inv_step_E_drop : forall c s s' b, cfg_ok c -> inv c s -> step true c s (E_drop b) = Some s' -> inv c s'.
Proof.
  intros c s s' b Hc Hi Hs. prep c s Hc Hi Hs.
  all: (constructor; fin).
Qed.

Lemma inv_step_E_gc : forall c s s', cfg_ok c -> inv c s -> step true c s (E_gc) = Some s' -> inv c s'.
Proof.
  intros c s s' Hc Hi Hs. prep c s Hc Hi Hs.
  all: (constructor; fin).
Qed.

Lemma inv_step_L_acq : forall c s s', cfg_ok c -> inv c s -> step true c s (L_acq) = Some s' -> inv c s'.
Proof.
  intros c s s' Hc Hi Hs. prep c s Hc Hi Hs.
  all: (constructor; fin).
Qed.

Lemma inv_step_H_conflict : forall c s s', cfg_ok c -> inv c s -> step true c s (H_conflict) = Some s' -> inv c s'.
Proof.
  intros c s s' Hc Hi Hs. prep c s Hc Hi Hs.
  all: (constructor; fin).
Qed.

Lemma inv_step_H_ts : forall c s s', cfg_ok c -> inv c s -> step true c s (H_ts) = Some s' -> inv c s'.
Proof.
  intros c s s' Hc Hi Hs. prep c s Hc Hi Hs.
  all: (constructor; fin).
Qed.

Lemma inv_step_H_check : forall c s s', cfg_ok c -> inv c s -> step true c s (H_check) = Some s' -> inv c s'.
Proof.
  intros c s s' Hc Hi Hs. prep c s Hc Hi Hs.
  all: (constructor; fin).
Qed.

Lemma inv_step_H_send : forall c s s', cfg_ok c -> inv c s -> step true c s (H_send) = Some s' -> inv c s'.
Proof.
  intros c s s' Hc Hi Hs. prep c s Hc Hi Hs.
  all: (constructor; fin).
Qed.

Lemma inv_step_W_recv : forall c s s', cfg_ok c -> inv c s -> step true c s (W_recv) = Some s' -> inv c s'.
Proof.
  intros c s s' Hc Hi Hs. prep c s Hc Hi Hs.
  all: (constructor; fin).
Qed.

Lemma inv_step_W_more : forall c s s', cfg_ok c -> inv c s -> step true c s (W_more) = Some s' -> inv c s'.
Proof.
  intros c s s' Hc Hi Hs. prep c s Hc Hi Hs.
  all: (constructor; fin).
Qed.

Lemma inv_step_W_push : forall c s s', cfg_ok c -> inv c s -> step true c s (W_push) = Some s' -> inv c s'.
Proof.
  intros c s s' Hc Hi Hs. prep c s Hc Hi Hs.
  all: (constructor; fin).
Qed.

Lemma inv_step_W_sig : forall c s s', cfg_ok c -> inv c s -> step true c s (W_sig) = Some s' -> inv c s'.
Proof.
  intros c s s' Hc Hi Hs. prep c s Hc Hi Hs.
  all: (constructor; fin).
Qed.

Lemma inv_step_W_drain : forall c s s', cfg_ok c -> inv c s -> step true c s (W_drain) = Some s' -> inv c s'.
Proof.
  intros c s s' Hc Hi Hs. prep c s Hc Hi Hs.
  all: (constructor; fin).
Qed.

Lemma inv_step_W_default : forall c s s', cfg_ok c -> inv c s -> step true c s (W_default) = Some s' -> inv c s'.
Proof.
  intros c s s' Hc Hi Hs. prep c s Hc Hi Hs.
  all: (constructor; fin).
Qed.

Lemma inv_step_W_final : forall c s s', cfg_ok c -> inv c s -> step true c s (W_final) = Some s' -> inv c s'.
Proof.
  intros c s s' Hc Hi Hs. prep c s Hc Hi Hs.
  all: (constructor; fin).
Qed.

Lemma inv_step_J_write : forall c s s' b, cfg_ok c -> inv c s -> step true c s (J_write b) = Some s' -> inv c s'.
Proof.
  intros c s s' b Hc Hi Hs. prep c s Hc Hi Hs.
  all: (constructor; fin).
Qed.

Lemma inv_step_J_rotate : forall c s s', cfg_ok c -> inv c s -> step true c s (J_rotate) = Some s' -> inv c s'.
Proof.
  intros c s s' Hc Hi Hs. prep c s Hc Hi Hs.
  all: (constructor; fin).
Qed.

Lemma inv_step_J_done : forall c s s', cfg_ok c -> inv c s -> step true c s (J_done) = Some s' -> inv c s'.
Proof.
  intros c s s' Hc Hi Hs. prep c s Hc Hi Hs.
  all: (constructor; fin).
Qed.

Lemma inv_step_F_take : forall c s s', cfg_ok c -> inv c s -> step true c s (F_take) = Some s' -> inv c s'.
Proof.
  intros c s s' Hc Hi Hs. prep c s Hc Hi Hs.
  all: (constructor; fin).
Qed.

Lemma inv_step_F_add : forall c s s', cfg_ok c -> inv c s -> step true c s (F_add) = Some s' -> inv c s'.
Proof.
  intros c s s' Hc Hi Hs. prep c s Hc Hi Hs.
  all: (constructor; fin).
Qed.

Lemma inv_step_F_exit : forall c s s', cfg_ok c -> inv c s -> step true c s (F_exit) = Some s' -> inv c s'.
Proof.
  intros c s s' Hc Hi Hs. prep c s Hc Hi Hs.
  all: (constructor; fin).
Qed.

Lemma inv_step_K0_startL0 : forall c s s', cfg_ok c -> inv c s -> step true c s (K0_startL0) = Some s' -> inv c s'.
Proof.
  intros c s s' Hc Hi Hs. prep c s Hc Hi Hs.
  all: (constructor; fin).
Qed.

Lemma inv_step_K0_finishL0 : forall c s s' d, cfg_ok c -> inv c s -> step true c s (K0_finishL0 d) = Some s' -> inv c s'.
Proof.
  intros c s s' d Hc Hi Hs. prep c s Hc Hi Hs.
  all: (constructor; fin).
Qed.

Lemma inv_step_K0_startLi : forall c s s' b, cfg_ok c -> inv c s -> step true c s (K0_startLi b) = Some s' -> inv c s'.
Proof.
  intros c s s' b Hc Hi Hs. prep c s Hc Hi Hs.
  all: (constructor; fin).
Qed.

Lemma inv_step_K0_finishLi : forall c s s', cfg_ok c -> inv c s -> step true c s (K0_finishLi) = Some s' -> inv c s'.
Proof.
  intros c s s' Hc Hi Hs. prep c s Hc Hi Hs.
  all: (constructor; fin).
Qed.

Lemma inv_step_K0_exit : forall c s s', cfg_ok c -> inv c s -> step true c s (K0_exit) = Some s' -> inv c s'.
Proof.
  intros c s s' Hc Hi Hs. prep c s Hc Hi Hs.
  all: (constructor; fin).
Qed.

Lemma inv_step_KO_startL0 : forall c s s', cfg_ok c -> inv c s -> step true c s (KO_startL0) = Some s' -> inv c s'.
Proof.
  intros c s s' Hc Hi Hs. prep c s Hc Hi Hs.
  all: (constructor; fin).
Qed.

Lemma inv_step_KO_finishL0 : forall c s s' d, cfg_ok c -> inv c s -> step true c s (KO_finishL0 d) = Some s' -> inv c s'.
Proof.
  intros c s s' d Hc Hi Hs. prep c s Hc Hi Hs.
  all: (constructor; fin).
Qed.

Lemma inv_step_KO_startLi : forall c s s' b, cfg_ok c -> inv c s -> step true c s (KO_startLi b) = Some s' -> inv c s'.
Proof.
  intros c s s' b Hc Hi Hs. prep c s Hc Hi Hs.
  all: (constructor; fin).
Qed.

Lemma inv_step_KO_finishLi : forall c s s' b, cfg_ok c -> inv c s -> step true c s (KO_finishLi b) = Some s' -> inv c s'.
Proof.
  intros c s s' b Hc Hi Hs. prep c s Hc Hi Hs.
  all: (constructor; fin).
Qed.

Lemma inv_step_KO_exit : forall c s s', cfg_ok c -> inv c s -> step true c s (KO_exit) = Some s' -> inv c s'.
Proof.
  intros c s s' Hc Hi Hs. prep c s Hc Hi Hs.
  all: (constructor; fin).
Qed.

Lemma inv_step_R_pass : forall c s s', cfg_ok c -> inv c s -> step true c s (R_pass) = Some s' -> inv c s'.
Proof.
  intros c s s' Hc Hi Hs. prep c s Hc Hi Hs.
  all: (constructor; fin).
Qed.

Lemma inv_step_G_none : forall c s s', cfg_ok c -> inv c s -> step true c s (G_none) = Some s' -> inv c s'.
Proof.
  intros c s s' Hc Hi Hs. prep c s Hc Hi Hs.
  all: (constructor; fin).
Qed.

Lemma inv_step_G_check : forall c s s', cfg_ok c -> inv c s -> step true c s (G_check) = Some s' -> inv c s'.
Proof.
  intros c s s' Hc Hi Hs. prep c s Hc Hi Hs.
  all: (constructor; fin).
Qed.

Lemma inv_step_G_send : forall c s s', cfg_ok c -> inv c s -> step true c s (G_send) = Some s' -> inv c s'.
Proof.
  intros c s s' Hc Hi Hs. prep c s Hc Hi Hs.
  all: (constructor; fin).
Qed.

Lemma inv_step_G_done : forall c s s', cfg_ok c -> inv c s -> step true c s (G_done) = Some s' -> inv c s'.
Proof.
  intros c s s' Hc Hi Hs. prep c s Hc Hi Hs.
  all: (constructor; fin).
Qed.

Lemma inv_step_C_gc : forall c s s', cfg_ok c -> inv c s -> step true c s (C_gc) = Some s' -> inv c s'.
Proof.
  intros c s s' Hc Hi Hs. prep c s Hc Hi Hs.
  all: (constructor; fin).
Qed.

Lemma inv_step_C_sig : forall c s s', cfg_ok c -> inv c s -> step true c s (C_sig) = Some s' -> inv c s'.
Proof.
  intros c s s' Hc Hi Hs. prep c s Hc Hi Hs.
  all: (constructor; fin).
Qed.

Lemma inv_step_C_waitw : forall c s s', cfg_ok c -> inv c s -> step true c s (C_waitw) = Some s' -> inv c s'.
Proof.
  intros c s s' Hc Hi Hs. prep c s Hc Hi Hs.
  all: (constructor; fin).
Qed.

Lemma inv_step_C_closech : forall c s s', cfg_ok c -> inv c s -> step true c s (C_closech) = Some s' -> inv c s'.
Proof.
  intros c s s' Hc Hi Hs. prep c s Hc Hi Hs.
  all: (constructor; fin).
Qed.

Lemma inv_step_C_mt : forall c s s', cfg_ok c -> inv c s -> step true c s (C_mt) = Some s' -> inv c s'.
Proof.
  intros c s s' Hc Hi Hs. prep c s Hc Hi Hs.
  all: (constructor; fin).
Qed.

Lemma inv_step_C_stopf : forall c s s', cfg_ok c -> inv c s -> step true c s (C_stopf) = Some s' -> inv c s'.
Proof.
  intros c s s' Hc Hi Hs. prep c s Hc Hi Hs.
  all: (constructor; fin).
Qed.

Lemma inv_step_C_waitf : forall c s s', cfg_ok c -> inv c s -> step true c s (C_waitf) = Some s' -> inv c s'.
Proof.
  intros c s s' Hc Hi Hs. prep c s Hc Hi Hs.
  all: (constructor; fin).
Qed.

Lemma inv_step_C_waitc : forall c s s', cfg_ok c -> inv c s -> step true c s (C_waitc) = Some s' -> inv c s'.
Proof.
  intros c s s' Hc Hi Hs. prep c s Hc Hi Hs.
  all: (constructor; fin).
Qed.

Lemma inv_step_C_orc : forall c s s', cfg_ok c -> inv c s -> step true c s (C_orc) = Some s' -> inv c s'.
Proof.
  intros c s s' Hc Hi Hs. prep c s Hc Hi Hs.
  all: (constructor; fin).
Qed.

Lemma inv_step_D_sig : forall c s s', cfg_ok c -> inv c s -> step true c s (D_sig) = Some s' -> inv c s'.
Proof.
  intros c s s' Hc Hi Hs. prep c s Hc Hi Hs.
  all: (constructor; fin).
Qed.

Lemma inv_step_D_waitw : forall c s s', cfg_ok c -> inv c s -> step true c s (D_waitw) = Some s' -> inv c s'.
Proof.
  intros c s s' Hc Hi Hs. prep c s Hc Hi Hs.
  all: (constructor; fin).
Qed.

Lemma inv_step_D_drain : forall c s s', cfg_ok c -> inv c s -> step true c s (D_drain) = Some s' -> inv c s'.
Proof.
  intros c s s' Hc Hi Hs. prep c s Hc Hi Hs.
  all: (constructor; fin).
Qed.

Lemma inv_step_D_default : forall c s s', cfg_ok c -> inv c s -> step true c s (D_default) = Some s' -> inv c s'.
Proof.
  intros c s s' Hc Hi Hs. prep c s Hc Hi Hs.
  all: (constructor; fin).
Qed.

Lemma inv_step_D_stopf : forall c s s', cfg_ok c -> inv c s -> step true c s (D_stopf) = Some s' -> inv c s'.
Proof.
  intros c s s' Hc Hi Hs. prep c s Hc Hi Hs.
  all: (constructor; fin).
Qed.

Lemma inv_step_D_waitf : forall c s s', cfg_ok c -> inv c s -> step true c s (D_waitf) = Some s' -> inv c s'.
Proof.
  intros c s s' Hc Hi Hs. prep c s Hc Hi Hs.
  all: (constructor; fin).
Qed.

Lemma inv_step_D_view : forall c s s', cfg_ok c -> inv c s -> step true c s (D_view) = Some s' -> inv c s'.
Proof.
  intros c s s' Hc Hi Hs. prep c s Hc Hi Hs.
  all: (constructor; fin).
Qed.

Lemma inv_step_D_noview : forall c s s', cfg_ok c -> inv c s -> step true c s (D_noview) = Some s' -> inv c s'.
Proof.
  intros c s s' Hc Hi Hs. prep c s Hc Hi Hs.
  all: (constructor; fin).
Qed.

Lemma inv_step_D_flushmt : forall c s s', cfg_ok c -> inv c s -> step true c s (D_flushmt) = Some s' -> inv c s'.
Proof.
  intros c s s' Hc Hi Hs. prep c s Hc Hi Hs.
  all: (constructor; fin).
Qed.

Lemma inv_step_D_skipmt : forall c s s', cfg_ok c -> inv c s -> step true c s (D_skipmt) = Some s' -> inv c s'.
Proof.
  intros c s s' Hc Hi Hs. prep c s Hc Hi Hs.
  all: (constructor; fin).
Qed.

Lemma inv_step_D_stopc : forall c s s', cfg_ok c -> inv c s -> step true c s (D_stopc) = Some s' -> inv c s'.
Proof.
  intros c s s' Hc Hi Hs. prep c s Hc Hi Hs.
  all: (constructor; fin).
Qed.

Lemma inv_step_D_waitc : forall c s s', cfg_ok c -> inv c s -> step true c s (D_waitc) = Some s' -> inv c s'.
Proof.
  intros c s s' Hc Hi Hs. prep c s Hc Hi Hs.
  all: (constructor; fin).
Qed.

Lemma inv_step_D_do : forall c s s' z, cfg_ok c -> inv c s -> step true c s (D_do z) = Some s' -> inv c s'.
Proof.
  intros c s s' z Hc Hi Hs. prep c s Hc Hi Hs.
  all: (constructor; fin).
Qed.

Lemma inv_step_D_restart : forall c s s', cfg_ok c -> inv c s -> step true c s (D_restart) = Some s' -> inv c s'.
Proof.
  intros c s s' Hc Hi Hs. prep c s Hc Hi Hs.
  all: (constructor; fin).
Qed.

Lemma inv_step : forall c s l s', cfg_ok c -> inv c s -> step true c s l = Some s' -> inv c s'.
Proof.
  intros c s l s' Hc Hi Hs. destruct l.
  - eapply inv_step_E_commit; eassumption.
  - eapply inv_step_E_read; eassumption.
  - eapply inv_step_E_close; eassumption.
  - eapply inv_step_E_drop; eassumption.
  - eapply inv_step_E_gc; eassumption.
  - eapply inv_step_L_acq; eassumption.
  - eapply inv_step_H_conflict; eassumption.
  - eapply inv_step_H_ts; eassumption.
  - eapply inv_step_H_check; eassumption.
  - eapply inv_step_H_send; eassumption.
  - eapply inv_step_W_recv; eassumption.
  - eapply inv_step_W_more; eassumption.
  - eapply inv_step_W_push; eassumption.
  - eapply inv_step_W_sig; eassumption.
  - eapply inv_step_W_drain; eassumption.
  - eapply inv_step_W_default; eassumption.
  - eapply inv_step_W_final; eassumption.
  - eapply inv_step_J_write; eassumption.
  - eapply inv_step_J_rotate; eassumption.
  - eapply inv_step_J_done; eassumption.
  - eapply inv_step_F_take; eassumption.
  - eapply inv_step_F_add; eassumption.
  - eapply inv_step_F_exit; eassumption.
  - eapply inv_step_K0_startL0; eassumption.
  - eapply inv_step_K0_finishL0; eassumption.
  - eapply inv_step_K0_startLi; eassumption.
  - eapply inv_step_K0_finishLi; eassumption.
  - eapply inv_step_K0_exit; eassumption.
  - eapply inv_step_KO_startL0; eassumption.
  - eapply inv_step_KO_finishL0; eassumption.
  - eapply inv_step_KO_startLi; eassumption.
  - eapply inv_step_KO_finishLi; eassumption.
  - eapply inv_step_KO_exit; eassumption.
  - eapply inv_step_R_pass; eassumption.
  - eapply inv_step_G_none; eassumption.
  - eapply inv_step_G_check; eassumption.
  - eapply inv_step_G_send; eassumption.
  - eapply inv_step_G_done; eassumption.
  - eapply inv_step_C_gc; eassumption.
  - eapply inv_step_C_sig; eassumption.
  - eapply inv_step_C_waitw; eassumption.
  - eapply inv_step_C_closech; eassumption.
  - eapply inv_step_C_mt; eassumption.
  - eapply inv_step_C_stopf; eassumption.
  - eapply inv_step_C_waitf; eassumption.
  - eapply inv_step_C_waitc; eassumption.
  - eapply inv_step_C_orc; eassumption.
  - eapply inv_step_D_sig; eassumption.
  - eapply inv_step_D_waitw; eassumption.
  - eapply inv_step_D_drain; eassumption.
  - eapply inv_step_D_default; eassumption.
  - eapply inv_step_D_stopf; eassumption.
  - eapply inv_step_D_waitf; eassumption.
  - eapply inv_step_D_view; eassumption.
  - eapply inv_step_D_noview; eassumption.
  - eapply inv_step_D_flushmt; eassumption.
  - eapply inv_step_D_skipmt; eassumption.
  - eapply inv_step_D_stopc; eassumption.
  - eapply inv_step_D_waitc; eassumption.
  - eapply inv_step_D_do; eassumption.
  - eapply inv_step_D_restart; eassumption.
Qed.

Lemma inv_reach : forall c s, cfg_ok c -> reach true c s -> inv c s.
Proof.
  intros c s Hc Hr. induction Hr.
  - apply inv_init.
  - eapply inv_step; eassumption.
Qed.

