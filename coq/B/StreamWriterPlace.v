(* StreamWriterPlace.v — where StreamWriter puts a streamed value (the placement layer that
   StreamWriter.v abstracts: there entries carry their values).

     stream_writer.go StreamWriter.Write:  e := &Entry{...} (valThreshold = 0); sw.db.vlog.write(all)
     value.go         valueLog.write:      e.skipVlogAndSetThreshold(vlog.db.valueThreshold())
                                           -> zero valuePointer (skipped) or a value-log record
     stream_writer.go sortedWriter.handleRequests (process):
                                           e.skipVlogAndSetThreshold(w.db.valueThreshold())
                                           -> ValueStruct{Value: e.Value, Meta: e.meta} or
                                              ValueStruct{Value: req.Ptrs[i].Encode(), Meta: e.meta | bitValuePointer}
     structs.go       Entry.skipVlogAndSetThreshold  (Threshold.skip_vlog)

   One streamed entry is consulted exactly twice, first by valueLog.write and then by the
   sorted writer of its stream (another goroutine, later).  With Options.VLogPercentile > 0 the
   database-wide threshold is recomputed asynchronously (vlogThreshold.listenForValueThresholdUpdate)
   from the very value sizes valueLog.write reports, so the two consultations may see
   different thresholds: t_vlog and t_sorted below are arbitrary.

   Definitions only; proofs in StreamWriterPlaceProofs.v. *)
From Verif Require Import Bytes Codec LogRecord Consts Threshold VlogWrite.
Open Scope Z_scope.

(* the two consultations of one entry, as Threshold.decisions over the thresholds in force;
   the entry is fresh (cached threshold 0) when StreamWriter.Write hands it to valueLog.write *)
Definition sw_decisions (vlen t_vlog t_sorted : Z) : bool * bool :=
  match decisions vlen 0 [t_vlog; t_sorted] with
  | [d1; d2] => (d1, d2)
  | _ => (false, false)
  end.

(* valueLog.write skips the value log for this entry *)
Definition sw_vlog_skip (vlen t_vlog t_sorted : Z) : bool := fst (sw_decisions vlen t_vlog t_sorted).
(* the sorted writer stores the value inline *)
Definition sw_inline (vlen t_vlog t_sorted : Z) : bool := snd (sw_decisions vlen t_vlog t_sorted).

Definition zlen (b : bytes) : Z := Z.of_nat (length b).

(* a streamed entry with the thresholds in force at its two consultations *)
Record sentry := mkSE { se_e : entry; se_tv : Z; se_ts : Z }.

Definition se_skip (c : sentry) : bool := sw_vlog_skip (zlen (e_value (se_e c))) (se_tv c) (se_ts c).
Definition se_inline (c : sentry) : bool := sw_inline (zlen (e_value (se_e c))) (se_tv c) (se_ts c).

(* what valueLog.write sees: the entry and its own decision *)
Definition se_req (c : sentry) : entry * bool := (se_e c, se_skip c).

Open Scope N_scope.

(* sortedWriter.handleRequests, process: the ValueStruct handed to sortedWriter.Add.  Unlike
   db.writeToLSM the inline branch keeps e.meta as it is (no `&^ bitValuePointer`). *)
Definition sw_value (e : entry) (inline : bool) (p : vptr) : value_struct :=
  if inline then mkVS (e_meta e) (e_umeta e) (e_expires e) (e_value e)
  else mkVS (N.lor (e_meta e) c_bitValuePointer) (e_umeta e) (e_expires e) (vptr_encode p).

Section Place.
  Variable encrypted : bool.
  Variable xs : bytes -> bytes -> bytes.
  Variable iv_of hdr_of : N -> bytes.
  Variable file_size max_entries : N.

  (* the value-log side of a sequence of StreamWriter.Write calls: every call is one
     valueLog.write over the requests of its streams (one request per stream id) *)
  Definition sw_vlog_writes (st : vlog) (calls : list (list (list sentry))) : vlog * list (list (list vptr)) :=
    write_calls encrypted xs iv_of hdr_of file_size max_entries st (map (map (map se_req)) calls).

  (* what a read of the stored entry yields (Item.yieldItemValue), in value-log state st *)
  Definition sw_read (st : vlog) (c : sentry) (p : vptr) : option bytes :=
    item_value encrypted xs iv_of st (sw_value (se_e c) (se_inline c) p).
End Place.

(* ---- correspondence: one class of streamed entries as the harness observed it ----
   vlen: len(value); cands: the thresholds that can have been in force when valueLog.write
   consulted the entry (one element when the listener was idle); later: thresholds in force
   afterwards, until Flush (the sorted writer consults under one of them); vrec: a value-log
   record was written for the entry; inl: the table stores the value inline.
   The model must reproduce both observations from ONE cached threshold, whatever the later
   threshold is. *)
Open Scope Z_scope.
Definition place_agrees (vlen : Z) (cands later : list Z) (vrec inl : bool) : bool :=
  existsb (fun t =>
    forallb (fun t2 => let '(d1, d2) := sw_decisions vlen t t2 in
                       Bool.eqb d1 (negb vrec) && Bool.eqb d2 inl) later) cands.

(* branch tags: 601 inline / 602 pointer with one candidate threshold; 603 / 604 the same when
   the candidates disagree about this value; 610 the live threshold later dropped to or below
   an inline value (the sorted writer would decide otherwise without the cache); 611 the live
   threshold later rose above a value-log value; 631 / 632 value length = cached threshold - 1
   / = cached threshold *)
Definition place_tags (vlen : Z) (cands later : list Z) (inl : bool) : list N :=
  let split := existsb (fun t => vlen <? t) cands && existsb (fun t => negb (vlen <? t)) cands in
  let down := inl && existsb (fun t => negb (vlen <? t)) later in
  let up := negb inl && existsb (fun t => vlen <? t) later in
  let bm1 := existsb (fun t => vlen + 1 =? t) cands in
  let b0 := existsb (fun t => vlen =? t) cands in
  [if inl then (if split then 603%N else 601%N) else (if split then 604%N else 602%N);
   if down then 610%N else if up then 611%N else 0%N;
   if bm1 then 631%N else if b0 then 632%N else 0%N].
