(* Loader.v — backup.go KVLoader (NewKVLoader, Set, send, Finish) together with the admission test
   of db.go sendToWriteCh, as a function from the KV sequence of one DB.Load call and the
   limits of the TARGET database to the list of batches handed to the write path.

   Generic in the element type: `est kv` = e.estimateSizeAndSetThreshold(db.valueThreshold())
   of the Entry that Set builds from the KV (the threshold is cached in the entry, so
   sendToWriteCh recomputes the same number), `vlen kv` = len(e.Value).
   Limits: maxc = opt.maxBatchCount, maxs = opt.maxBatchSize (db.go checkAndSetOptions),
   flush = flushThreshold (backup.go, 100 << 20).
   Not modelled: the throttle (y.Throttle: at most maxPendingWrites batches in flight; an error
   of an earlier asynchronous write surfaces in a later send / Finish), write-path errors,
   int64 wrap-around of the size counters (sums of lengths stay far below 2^63). *)
From Coq Require Import ZArith List Bool.
Import ListNotations.
Open Scope Z_scope.

Section Loader.
  Context {A : Type}.
  Variable est : A -> Z.
  Variable vlen : A -> Z.
  Variables maxc maxs flush : Z.

  (* KVLoader: l.entries (a slice: `l_rev` holds its elements newest first, `l_len` is the len
     field of the slice header), l.entriesSize, l.totalSize *)
  Record ldr := mkL { l_rev : list A; l_len : Z; l_esize : Z; l_tsize : Z }.
  Definition ldr0 : ldr := mkL [] 0 0 0.            (* NewKVLoader; the state send leaves *)
  Definition l_ents (l : ldr) : list A := rev (l_rev l).

  Definition blen (b : list A) : Z := Z.of_nat (length b).
  Definition batch_size (b : list A) : Z := fold_right (fun e a => est e + a) 0 b.
  Definition batch_total (b : list A) : Z := fold_right (fun e a => est e + vlen e + a) 0 b.

  (* db.go sendToWriteCh: count >= maxBatchCount || size >= maxBatchSize => ErrTxnTooBig *)
  Definition too_big (b : list A) : bool := (maxc <=? blen b) || (maxs <=? batch_size b).

  (* backup.go KVLoader.Set: the three-armed flush condition *)
  Definition must_flush (l : ldr) (es : Z) : bool :=
    (maxc <=? l_len l + 1) || (maxs <=? l_esize l + es) || (flush <=? l_tsize l).

  (* the loader and the batches the write path accepted so far (newest first) *)
  Definition state : Type := ldr * list (list A).

  (* KVLoader.send: batchSetAsync(l.entries) (inr b = sendToWriteCh rejected b: send returns
     the error before the loader is reset); then entries / entriesSize / totalSize are reset *)
  Definition send (st : state) : state + list A :=
    let b := l_ents (fst st) in
    if too_big b then inr b else inl (ldr0, b :: snd st).

  (* KVLoader.Set *)
  Definition set (st : state) (kv : A) : state + list A :=
    let es := est kv in
    match (if must_flush (fst st) es then send st else inl st) with
    | inr b => inr b                                              (* return err *)
    | inl (l, sent) =>
        inl (mkL (kv :: l_rev l) (l_len l + 1) (l_esize l + es) (l_tsize l + (es + vlen kv)), sent)
    end.

  (* DB.Load: the loop over the KVs; stops at the first error *)
  Fixpoint set_all (st : state) (kvs : list A) : state * option (list A) :=
    match kvs with
    | [] => (st, None)
    | kv :: r => match set st kv with
                 | inl st' => set_all st' r
                 | inr b => (st, Some b)
                 end
    end.

  (* KVLoader.Finish *)
  Definition finish (st : state) : state * option (list A) :=
    if 0 <? l_len (fst st) then
      match send st with inl st' => (st', None) | inr b => (st, Some b) end
    else (st, None).

  (* one DB.Load: the batches accepted by the write path in the order they were sent (an empty
     batch is a request without entries), and the batch sendToWriteCh rejected (None = Load
     returned nil) *)
  Definition loader_run (kvs : list A) : list (list A) * option (list A) :=
    match set_all (ldr0, []) kvs with
    | (st, None) => let '(st', r) := finish st in (rev (snd st'), r)
    | (st, Some b) => (rev (snd st), Some b)
    end.

  (* what a batch must satisfy whatever the admission test does: it respects the count limit
     and the size limit, or it is a single entry (or empty) *)
  Definition batch_ok (b : list A) : Prop :=
    (blen b < maxc \/ blen b <= 1) /\ (batch_size b < maxs \/ blen b <= 1).
End Loader.

(* ---------- the instance the correspondence evaluates ---------- *)
(* a KV projected to (len(y.KeyWithTs(kv.Key, kv.Version)), len(kv.Value)); Set builds a fresh
   Entry (valThreshold = 0), so the estimate is structs.go estimateSizeAndSetThreshold with the
   database's current value threshold `thr` *)
From Verif Require Import Threshold.

Definition kv_est (thr : Z) (kv : Z * Z) : Z := fst (estimate_size (fst kv) (snd kv) 0 thr).
Definition kv_vlen (kv : Z * Z) : Z := snd kv.

(* run-length encoded KV sequences (the harness loads thousands of KVs of few shapes) *)
Fixpoint expand_runs (rs : list (Z * (Z * Z))) : list (Z * Z) :=
  match rs with
  | [] => []
  | (n, kv) :: r => repeat kv (Z.to_nat n) ++ expand_runs r
  end.

(* `flush` = the constant flushThreshold as the harness reads it from the code (100 << 20) *)
Definition kv_loader_run (maxc maxs flush thr : Z) (kvs : list (Z * Z)) :=
  loader_run (kv_est thr) kv_vlen maxc maxs flush kvs.
