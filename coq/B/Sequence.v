(* Sequence.v — db.go: DB.GetSequence, Sequence.Next, Sequence.Release, Sequence.updateLease.

   State: per key the stored lease (the 8-byte big-endian value under the sequence key) and a
   write counter (what SSI conflict detection looks at); per Sequence object (next, leased,
   bandwidth) and the in-flight call, if any.

   Granularity.  Every call holds seq.lock, so an object has at most one call in flight; calls of
   different objects interleave at the two atomic points of the update transaction each call runs:
     *Call : the call up to and including the db.Update closure — the transaction's snapshot
             (its read of the stored lease) is fixed here; updateLease ASSIGNS seq.next AND
             seq.leased INSIDE THE CLOSURE, i.e. before the commit;
     Ret   : txn.Commit (conflict check against every commit of the key since the snapshot, then
             the blocked-writes check), and the rest of the call.
   The sequential API calls are the compositions Call;Ret (a_get / a_next / a_release).

   [fix] is the repair flag (DESIGN §2.5): fix = false is the pinned code; fix = true assigns
   seq.next / seq.leased only after a successful commit.

   The lock itself is made explicit at the end of the file (xstep): next to the calls above, which
   hold seq.lock from Call to Ret, a Release that locks only around its field accesses is modelled
   as separate steps, to show what the lock across the release transaction is needed for.

   Ghost state (does not influence results): st_hist (every number returned, with key and
   object), o_poison (the object's last updateLease failed at commit and left next/leased set —
   only when fix = false), st_misuse (a call was made on a poisoned object), st_wrapped (a lease
   computation wrapped around 2^64). *)
From Coq Require Import List NArith Bool.
Import ListNotations.
Open Scope N_scope.

Definition two64 : N := 18446744073709551616.

Record kstate := mkK { stored : option N; wver : N }.
Definition sval (k : kstate) : N := match stored k with Some n => n | None => 0 end.

Inductive pc :=
| Idle
| Refreshing (snap : N) (rv : N) (take : bool)   (* updateLease in flight; take = called from Next *)
| Releasing (snap : N) (w : bool).               (* Release in flight; w = the closure wrote seq.next *)

Record obj := mkObj { o_key : N; o_next : N; o_leased : N; o_bw : N; o_pc : pc; o_poison : bool }.

Record state := mkS {
  st_store : N -> kstate;
  st_objs : N -> option obj;
  st_nobj : N;                       (* next object id; never reused, also across restarts *)
  st_hist : list (N * N * N);        (* ghost: (key, object, number) returned, newest first *)
  st_wrapped : bool;                 (* ghost *)
  st_misuse : bool                   (* ghost *)
}.

Definition init : state := mkS (fun _ => mkK None 0) (fun _ => None) 0 [] false false.

Definition updN {A} (f : N -> A) (i : N) (x : A) : N -> A := fun j => if j =? i then x else f j.

Inductive label :=
| GetCall (k bw : N)          (* key 0 = the empty key *)
| NextCall (o : N)
| RelCall (o : N)
| Ret (o : N) (blocked : bool)
| Restart.                    (* close + re-open, or crash: objects are gone, the store stays *)

Inductive result :=
| RNum (n : N)
| ROk
| RPending          (* the call is in flight (between its two atomic points) *)
| RErrConflict
| RErrBlocked
| RErrZeroBw
| RErrEmptyKey
| RErrNotFound
| RInvalid.         (* label not enabled: unknown object / call while one is in flight / Ret without call *)

Definition set_obj (s : state) (i : N) (o : obj) : state :=
  mkS (st_store s) (updN (st_objs s) i (Some o)) (st_nobj s) (st_hist s) (st_wrapped s) (st_misuse s).

(* the body of updateLease's closure for an object with key k and bandwidth bw *)
Definition lease_of (rv bw : N) : N := (rv + bw) mod two64.

Definition begin_refresh (fx : bool) (s : state) (i : N) (o : obj) (take : bool) : state :=
  let ks := st_store s (o_key o) in
  let rv := sval ks in
  let o' := if fx then mkObj (o_key o) (o_next o) (o_leased o) (o_bw o) (Refreshing (wver ks) rv take) (o_poison o)
            else mkObj (o_key o) rv (lease_of rv (o_bw o)) (o_bw o) (Refreshing (wver ks) rv take) (o_poison o) in
  mkS (st_store s) (updN (st_objs s) i (Some o')) (st_nobj s) (st_hist s)
      (st_wrapped s || (two64 <=? rv + o_bw o)) (st_misuse s).

(* val := seq.next; seq.next++ *)
Definition take_num (s : state) (i : N) (o : obj) : state * result :=
  (mkS (st_store s) (updN (st_objs s) i (Some (mkObj (o_key o) ((o_next o + 1) mod two64) (o_leased o) (o_bw o) Idle (o_poison o))))
       (st_nobj s) ((o_key o, i, o_next o) :: st_hist s) (st_wrapped s || (two64 <=? o_next o + 1)) (st_misuse s),
   RNum (o_next o)).

Definition note_misuse (s : state) (o : obj) : state :=
  mkS (st_store s) (st_objs s) (st_nobj s) (st_hist s) (st_wrapped s) (st_misuse s || o_poison o).

Definition get_call (fx : bool) (s : state) (k bw : N) : state * result :=
  if k =? 0 then (s, RErrEmptyKey)
  else if bw =? 0 then (s, RErrZeroBw)
  else
    let i := st_nobj s in
    let s1 := mkS (st_store s) (st_objs s) (i + 1) (st_hist s) (st_wrapped s) (st_misuse s) in
    (begin_refresh fx s1 i (mkObj k 0 0 bw Idle false) false, RPending).

Definition next_call (fx : bool) (s : state) (i : N) : state * result :=
  match st_objs s i with
  | Some o =>
      match o_pc o with
      | Idle =>
          let s := note_misuse s o in
          if o_next o <? o_leased o then take_num s i o
          else (begin_refresh fx s i o true, RPending)
      | _ => (s, RInvalid)
      end
  | None => (s, RInvalid)
  end.

Definition rel_call (s : state) (i : N) : state * result :=
  match st_objs s i with
  | Some o =>
      match o_pc o with
      | Idle =>
          let s := note_misuse s o in
          let ks := st_store s (o_key o) in
          match stored ks with
          | None => (s, RErrNotFound)
          | Some num =>
              (set_obj s i (mkObj (o_key o) (o_next o) (o_leased o) (o_bw o)
                                  (Releasing (wver ks) (num =? o_leased o)) (o_poison o)), RPending)
          end
      | _ => (s, RInvalid)
      end
  | None => (s, RInvalid)
  end.

(* txn.Commit of an update transaction that wrote key k after reading it at write-counter snap:
   ErrConflict if the key was committed (or its commit rejected after timestamp allocation, F12)
   since the snapshot; else ErrBlockedWrites if writes are blocked — the rejected commit stays in
   the conflict log (F12): the write counter moves, the value does not; else the value is stored. *)
Inductive commit_res := CDone | CConflict | CBlocked.
Definition commit (s : state) (k snap v : N) (blocked : bool) : state * commit_res :=
  let ks := st_store s k in
  if negb (wver ks =? snap) then (s, CConflict)
  else if blocked then
    (mkS (updN (st_store s) k (mkK (stored ks) (wver ks + 1))) (st_objs s) (st_nobj s) (st_hist s)
         (st_wrapped s) (st_misuse s), CBlocked)
  else
    (mkS (updN (st_store s) k (mkK (Some v) (wver ks + 1))) (st_objs s) (st_nobj s) (st_hist s)
         (st_wrapped s) (st_misuse s), CDone).

Definition err_of (c : commit_res) : result :=
  match c with CConflict => RErrConflict | _ => RErrBlocked end.

Definition ret (fx : bool) (s : state) (i : N) (blocked : bool) : state * result :=
  match st_objs s i with
  | Some o =>
      match o_pc o with
      | Idle => (s, RInvalid)
      | Refreshing snap rv take =>
          let lease := lease_of rv (o_bw o) in
          let '(s1, c) := commit s (o_key o) snap lease blocked in
          match c with
          | CDone =>
              let o1 := mkObj (o_key o) rv lease (o_bw o) Idle (o_poison o) in
              if take then take_num s1 i o1 else (set_obj s1 i o1, ROk)
          | _ =>
              (* Next / GetSequence return the error; seq.next and seq.leased keep what the closure
                 assigned (pinned code) *)
              (set_obj s1 i (mkObj (o_key o) (o_next o) (o_leased o) (o_bw o) Idle (o_poison o || negb fx)),
               err_of c)
          end
      | Releasing snap w =>
          if w then
            let '(s1, c) := commit s (o_key o) snap (o_next o) blocked in
            match c with
            | CDone => (set_obj s1 i (mkObj (o_key o) (o_next o) (o_next o) (o_bw o) Idle (o_poison o)), ROk)
            | _ => (set_obj s1 i (mkObj (o_key o) (o_next o) (o_leased o) (o_bw o) Idle (o_poison o)), err_of c)
            end
          else (* no pending writes: Commit returns nil at once *)
            (set_obj s i (mkObj (o_key o) (o_next o) (o_next o) (o_bw o) Idle (o_poison o)), ROk)
      end
  | None => (s, RInvalid)
  end.

Definition restart (s : state) : state :=
  mkS (st_store s) (fun _ => None) (st_nobj s) (st_hist s) (st_wrapped s) (st_misuse s).

Definition step (fx : bool) (s : state) (l : label) : state * result :=
  match l with
  | GetCall k bw => get_call fx s k bw
  | NextCall o => next_call fx s o
  | RelCall o => rel_call s o
  | Ret o b => ret fx s o b
  | Restart => (restart s, ROk)
  end.

Fixpoint exec (fx : bool) (s : state) (ls : list label) : state * list result :=
  match ls with
  | [] => (s, [])
  | l :: r => let '(s1, x) := step fx s l in let '(s2, xs) := exec fx s1 r in (s2, x :: xs)
  end.

Definition reachable (fx : bool) (s : state) : Prop := exists ls, fst (exec fx init ls) = s.

(* ---- the sequential API calls (what a single goroutine observes) ---- *)
Definition a_get (fx : bool) (s : state) (k bw : N) (blocked : bool) : state * result :=
  let i := st_nobj s in
  match get_call fx s k bw with
  | (s1, RPending) => ret fx s1 i blocked
  | r => r
  end.
Definition a_next (fx : bool) (s : state) (i : N) (blocked : bool) : state * result :=
  match next_call fx s i with
  | (s1, RPending) => ret fx s1 i blocked
  | r => r
  end.
Definition a_release (fx : bool) (s : state) (i : N) (blocked : bool) : state * result :=
  match rel_call s i with
  | (s1, RPending) => ret fx s1 i blocked
  | r => r
  end.

(* numbers returned for key k / by object i, oldest first *)
Definition nums_of_key (s : state) (k : N) : list N :=
  rev (map snd (filter (fun e => fst (fst e) =? k) (st_hist s))).
Definition nums_of_obj (s : state) (i : N) : list N :=
  rev (map snd (filter (fun e => snd (fst e) =? i) (st_hist s))).

(* ==== seq.lock made explicit: Release with and without the lock across its transaction ====

   In [step] the mutex is the program counter: while o_pc <> Idle (between RelCall and Ret, or
   between NextCall and Ret of a lease update) every other call on the object is not enabled
   (RInvalid) — that is Sequence.Release / Sequence.Next holding seq.lock with `defer Unlock`,
   across db.Update.  The labels below model the SPLIT Release — the lock taken only around the
   accesses to the object's fields:

     SRelSnap o   : lock; (next0, leased0) := (seq.next, seq.leased); unlock
     SRelCall o   : the db.Update closure on the snapshot values: num := stored; the transaction's
                    snapshot is fixed here; writes next0 iff num = leased0
     SRelRet o b  : txn.Commit (same [commit] as everywhere else)
     SRelSet o    : lock; seq.leased = seq.next; unlock

   Between these steps the object's lock is free, so [L (NextCall o)] is enabled.  The steps that
   take the lock are enabled only while no locked call of the object is in flight (o_pc = Idle).
   xexec on [map L ls] is exec on ls (SequenceProofs.xexec_L): the theorems about exec are the
   theorems about this machine restricted to the locked Release. *)
Inductive srel :=
| SSnapped (next0 leased0 : N)
| SInTxn (next0 snap : N) (w : bool)
| SCommitted.

Record xstate := mkX { x_s : state; x_rel : N -> option srel }.
Definition xinit : xstate := mkX init (fun _ => None).

Inductive xlabel :=
| L (l : label)
| SRelSnap (o : N)
| SRelCall (o : N)
| SRelRet (o : N) (blocked : bool)
| SRelSet (o : N).

Definition xstep (fx : bool) (x : xstate) (l : xlabel) : xstate * result :=
  let s := x_s x in
  match l with
  | L Restart => (mkX (restart s) (fun _ => None), ROk)
  | L l0 => let '(s1, r) := step fx s l0 in (mkX s1 (x_rel x), r)
  | SRelSnap i =>
      match st_objs s i, x_rel x i with
      | Some o, None =>
          match o_pc o with
          | Idle => (mkX (note_misuse s o) (updN (x_rel x) i (Some (SSnapped (o_next o) (o_leased o)))), RPending)
          | _ => (x, RInvalid)
          end
      | _, _ => (x, RInvalid)
      end
  | SRelCall i =>
      match st_objs s i, x_rel x i with
      | Some o, Some (SSnapped next0 leased0) =>
          let ks := st_store s (o_key o) in
          match stored ks with
          | None => (mkX s (updN (x_rel x) i None), RErrNotFound)
          | Some num => (mkX s (updN (x_rel x) i (Some (SInTxn next0 (wver ks) (num =? leased0)))), RPending)
          end
      | _, _ => (x, RInvalid)
      end
  | SRelRet i blocked =>
      match st_objs s i, x_rel x i with
      | Some o, Some (SInTxn next0 snap w) =>
          if w then
            let '(s1, c) := commit s (o_key o) snap next0 blocked in
            match c with
            | CDone => (mkX s1 (updN (x_rel x) i (Some SCommitted)), RPending)
            | _ => (mkX s1 (updN (x_rel x) i None), err_of c)
            end
          else (mkX s (updN (x_rel x) i (Some SCommitted)), RPending)
      | _, _ => (x, RInvalid)
      end
  | SRelSet i =>
      match st_objs s i, x_rel x i with
      | Some o, Some SCommitted =>
          match o_pc o with
          | Idle => (mkX (set_obj s i (mkObj (o_key o) (o_next o) (o_next o) (o_bw o) Idle (o_poison o)))
                         (updN (x_rel x) i None), ROk)
          | _ => (x, RInvalid)
          end
      | _, _ => (x, RInvalid)
      end
  end.

Fixpoint xexec (fx : bool) (x : xstate) (ls : list xlabel) : xstate * list result :=
  match ls with
  | [] => (x, [])
  | l :: r => let '(x1, y) := xstep fx x l in let '(x2, ys) := xexec fx x1 r in (x2, y :: ys)
  end.

(* an interleaving that never unlocks inside Release *)
Definition locked_only (ls : list xlabel) : Prop := exists ls0, ls = map L ls0.
