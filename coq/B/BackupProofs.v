(* BackupProofs.v — C24: what a backup taken at one snapshot contains, Load, incremental chains. *)
From Verif Require Import Bytes BytesProofs Keys C20Proofs Consts Spec Lsm Compact Iter Sys SysProofs
  Stream StreamProofs StreamProofs2.
From Coq Require Import ZifyN ZifyNat ZifyBool Sorting.Sorted.
Open Scope N_scope.

(* ---------------------------------------------------------------- the MVCC specification *)
Lemma spec_latest_filter ws k ts : forall best,
  spec_latest ws k ts best = spec_latest (filter (key_is k) ws) k ts best.
Proof.
  induction ws as [|w r IH]; intros best; [reflexivity|].
  cbn [spec_latest filter]. unfold key_is at 1.
  destruct (bytes_eqb (e_key w) k) eqn:E; cbn [andb].
  - cbn [spec_latest]. rewrite E. cbn [andb]. apply IH.
  - apply IH.
Qed.

Lemma vis_filter ws k ts now : vis ws k ts now = vis (filter (key_is k) ws) k ts now.
Proof. unfold vis. now rewrite spec_latest_filter. Qed.

Lemma spec_latest_stays r k ts b :
  Forall (fun y => e_ver y < e_ver b) r -> spec_latest r k ts (Some b) = Some b.
Proof.
  induction 1 as [|y r Hy _ IH]; [reflexivity|]. cbn [spec_latest].
  destruct (bytes_eqb (e_key y) k && (e_ver y <=? ts)); auto.
  assert (E: (e_ver b <=? e_ver y) = false) by (apply N.leb_gt; lia). now rewrite E.
Qed.

Lemma spec_latest_some ws k ts : forall best x, spec_latest ws k ts best = Some x ->
  (best = Some x \/ (In x ws /\ e_key x = k /\ e_ver x <= ts))
  /\ (forall y, In y ws -> e_key y = k -> e_ver y <= ts -> e_ver y <= e_ver x)
  /\ (forall b, best = Some b -> e_ver b <= e_ver x).
Proof.
  induction ws as [|w r IH]; intros best x H.
  - cbn in H. subst best. repeat split; auto; try contradiction. intros b [= ->]. lia.
  - cbn [spec_latest] in H.
    destruct (bytes_eqb (e_key w) k && (e_ver w <=? ts)) eqn:Em.
    + apply andb_true_iff in Em. destruct Em as [Ek Ev]. apply bytes_eqb_eq in Ek. apply N.leb_le in Ev.
      destruct best as [b|].
      * destruct (e_ver b <=? e_ver w) eqn:Eb.
        -- apply N.leb_le in Eb. destruct (IH _ _ H) as (H1 & H2 & H3). specialize (H3 w eq_refl).
           repeat split.
           ++ destruct H1 as [[= <-]|(Hin & Hk & Hv)]; right; repeat split; auto; [now left|now right].
           ++ intros y [<-|Hy] Hk Hv; auto.
           ++ intros b' [= <-]. lia.
        -- apply N.leb_gt in Eb. destruct (IH _ _ H) as (H1 & H2 & H3). specialize (H3 b eq_refl).
           repeat split.
           ++ destruct H1 as [H1|(Hin & Hk & Hv)]; [now left|right; repeat split; auto; now right].
           ++ intros y [<-|Hy] Hk Hv; [lia|auto].
           ++ intros b' [= <-]. lia.
      * destruct (IH _ _ H) as (H1 & H2 & H3). specialize (H3 w eq_refl).
        repeat split.
        -- destruct H1 as [[= <-]|(Hin & Hk & Hv)]; right; repeat split; auto; [now left|now right].
        -- intros y [<-|Hy] Hk Hv; auto.
        -- discriminate.
    + destruct (IH _ _ H) as (H1 & H2 & H3). repeat split; auto.
      * destruct H1 as [H1|(Hin & Hk & Hv)]; [now left|right; repeat split; auto; now right].
      * intros y [->|Hy] Hk Hv; auto. exfalso.
        assert (bytes_eqb (e_key y) k && (e_ver y <=? ts) = true).
        { apply andb_true_iff. split; [now apply bytes_eqb_eq|now apply N.leb_le]. }
        congruence.
Qed.

Lemma spec_latest_none ws k ts : forall best, spec_latest ws k ts best = None ->
  best = None /\ forall y, In y ws -> ~ (e_key y = k /\ e_ver y <= ts).
Proof.
  induction ws as [|w r IH]; intros best H.
  - cbn in H. split; auto.
  - cbn [spec_latest] in H.
    destruct (bytes_eqb (e_key w) k && (e_ver w <=? ts)) eqn:Em.
    + destruct best as [b|]; [destruct (e_ver b <=? e_ver w)|]; destruct (IH _ H) as (H1 & _); discriminate.
    + destruct (IH _ H) as (H1 & H2). split; auto. intros y [->|Hy]; auto.
      intros (Hk & Hv).
      assert (bytes_eqb (e_key y) k && (e_ver y <=? ts) = true).
      { apply andb_true_iff. split; [now apply bytes_eqb_eq|now apply N.leb_le]. }
      congruence.
Qed.

(* the unique maximal matching write is the answer *)
Lemma spec_latest_max ws k ts x :
  In x ws -> e_key x = k -> e_ver x <= ts ->
  (forall y, In y ws -> e_key y = k -> e_ver y <= ts -> e_ver y < e_ver x \/ y = x) ->
  spec_latest ws k ts None = Some x.
Proof.
  intros Hin Hk Hv Hmax. destruct (spec_latest ws k ts None) as [x'|] eqn:E.
  - destruct (spec_latest_some _ _ _ _ _ E) as ([H1|(Hin' & Hk' & Hv')] & H2 & _); [discriminate|].
    specialize (H2 x Hin Hk Hv). destruct (Hmax x' Hin' Hk' Hv') as [H|H]; [lia|now subst].
  - destruct (spec_latest_none _ _ _ _ E) as (_ & H). exfalso. apply (H x Hin). auto.
Qed.

(* ---------------------------------------------------------------- Backup's KeyToList, per key *)
Definition desc (a b : entry) : Prop := e_ver b < e_ver a.

Lemma bk_list_expand since now k vs :
  Forall (fun e => key_is k e = true) vs -> Forall (fun e => since <= e_ver e) vs ->
  fst (bk_list since now k vs) = Some (expand now (cut (marker now) vs)).
Proof.
  induction vs as [|e vs IH]; intros Hk Hs; [reflexivity|].
  inversion Hk as [|? ? Hke Hk']; subst. inversion Hs as [|? ? Hse Hs']; subst.
  cbn [bk_list cut]. unfold key_is in Hke. rewrite Hke. cbn [negb].
  assert (E: (e_ver e <? since) = false) by (apply N.ltb_ge; lia). rewrite E.
  unfold marker. destruct (has_discard e) eqn:Ed; cbn [orb].
  - unfold expand. cbn. now rewrite Ed.
  - destruct (deleted_or_expired e now) eqn:Ex.
    + unfold expand. cbn. now rewrite Ed.
    + rewrite fst_let. rewrite (IH Hk' Hs'). unfold expand. cbn [flat_map option_map]. rewrite Ed. reflexivity.
Qed.

Lemma expand_nonempty now vs : vs <> [] -> expand now (cut (marker now) vs) <> [].
Proof. destruct vs as [|e vs]; [congruence|]. intros _. cbn [cut]. destruct (marker now e); cbn; discriminate. Qed.

(* concatenating per-key lists and filtering one key back out *)
Lemma filter_concat_other (ps : list (bytes * list entry)) k :
  (forall k' l', In (k', l') ps -> Forall (fun x => e_key x = k') l') ->
  (forall l, ~ In (k, l) ps) ->
  filter (key_is k) (concat (map snd ps)) = [].
Proof.
  induction ps as [|[k0 l0] ps IH]; intros Hk Hno; [reflexivity|].
  cbn [map snd concat]. rewrite filter_app, IH.
  - rewrite app_nil_r. apply filter_none.
    pose proof (Hk k0 l0 (or_introl eq_refl)) as H0. rewrite Forall_forall in *. intros x Hx.
    apply key_is_false. rewrite (H0 x Hx). intros ->. apply (Hno l0). now left.
  - intros k' l' H. apply Hk. now right.
  - intros l H. apply (Hno l). now right.
Qed.

Lemma filter_concat_pair (ps : list (bytes * list entry)) k l :
  StronglySorted (fun a b => lex_cmp a b = Lt) (map fst ps) ->
  (forall k' l', In (k', l') ps -> Forall (fun x => e_key x = k') l') ->
  In (k, l) ps -> filter (key_is k) (concat (map snd ps)) = l.
Proof.
  induction ps as [|[k0 l0] ps IH]; intros Hs Hk Hin; [contradiction|].
  cbn [map fst] in Hs. inversion Hs as [|? ? Hs' Hx]; subst.
  cbn [map snd concat]. rewrite filter_app.
  destruct Hin as [[= -> ->]|Hin].
  - rewrite (filter_concat_other ps k).
    + rewrite app_nil_r. apply filter_all.
      pose proof (Hk k l (or_introl eq_refl)) as H0. rewrite Forall_forall in *. intros x Hx'.
      apply key_is_true. auto.
    + intros k' l' H. apply Hk. now right.
    + intros l' H. rewrite Forall_forall in Hx.
      assert (In k (map fst ps)) by (change k with (fst (k, l')); now apply in_map).
      specialize (Hx k H0). rewrite lex_cmp_refl in Hx. discriminate.
  - rewrite (IH Hs' (fun k' l' H => Hk k' l' (or_intror H)) Hin).
    replace (filter (key_is k) l0) with (@nil entry); [reflexivity|].
    symmetry. apply filter_none.
    pose proof (Hk k0 l0 (or_introl eq_refl)) as H0. rewrite Forall_forall in *. intros x Hx'.
    apply key_is_false. rewrite (H0 x Hx'). intros ->.
    assert (In k (map fst ps)) by (change k with (fst (k, l)); now apply in_map).
    specialize (Hx k H). rewrite lex_cmp_refl in Hx. discriminate.
Qed.

(* ---------------------------------------------------------------- one backup pass, per key *)
Lemma shown_vers prefix since rts banned e : shown prefix since rts banned e = true ->
  since <= e_ver e /\ e_ver e <= rts /\ (since = 0 \/ since < e_ver e).
Proof.
  unfold shown, skip_common. intros H. apply andb_true_iff in H. destruct H as [_ H].
  apply negb_true_iff in H. rewrite !orb_false_iff in H. destruct H as [[[_ H1] H2] _].
  apply N.ltb_ge in H1. cbn [io_since stream_io] in H2.
  destruct (0 <? since) eqn:E0; cbn [andb] in H2.
  - apply N.leb_gt in H2. lia.
  - apply N.ltb_ge in E0. lia.
Qed.

Lemma desc_of_sorted k l : StronglySorted ent_lt l -> Forall (fun e => key_is k e = true) l ->
  StronglySorted desc l.
Proof.
  induction 1 as [|e r Hs IH Hx]; intros Hk; constructor.
  - apply IH. now inversion Hk.
  - inversion Hk as [|? ? Hke Hk']; subst. rewrite Forall_forall in *. intros y Hy.
    unfold desc. apply ent_lt_same_key; auto.
    apply key_is_true in Hke. specialize (Hk' y Hy). apply key_is_true in Hk'. congruence.
Qed.

Lemma filter_key_is_all k V : Forall (fun e => key_is k e = true) (filter (key_is k) V).
Proof. apply Forall_forall. intros e He. apply filter_In in He. tauto. Qed.

Section BackupPass.
  Variable since now : N.
  Variable banned : bytes -> bool.
  Variable r : N.
  Variable m : src.
  Hypothesis Hm : view_ok m.
  Hypothesis Hne : no_empty_key m.

  Let V := shown_items [] since r banned m.
  Definition backup_pass : list entry :=
    concat (produce_range [] since now banned (KBackup since) all_keys r m ([], [])).

  (* what the backup writes for key k: the shown versions of k down to the first marker *)
  Theorem backup_per_key k :
    filter (key_is k) backup_pass = expand now (cut (marker now) (filter (key_is k) V)).
  Proof.
    unfold backup_pass.
    destruct (pass_key_once [] since now banned (KBackup since) all_keys r m Hm Hne) as (ps & Hout & Hsort & Hiff).
    fold V in Hiff. rewrite Hout.
    assert (Hkeys: forall k' l', In (k', l') ps -> Forall (fun x => e_key x = k') l').
    { intros k' l' Hin. apply Hiff in Hin. destruct Hin as (e & vs & _ & _ & Hf & _).
      exact (ktl_keys _ _ _ _ _ Hf). }
    set (vs := filter (key_is k) V).
    assert (Hvk: Forall (fun e => key_is k e = true) vs) by apply filter_key_is_all.
    assert (Hvs: Forall (fun e => since <= e_ver e) vs).
    { apply Forall_forall. intros e He. apply filter_In in He. destruct He as (He & _).
      apply filter_In in He. destruct He as (_ & He). apply shown_vers in He. tauto. }
    destruct vs as [|e vs'] eqn:Evs.
    - cbn. apply filter_concat_other; auto.
      intros l Hin. apply Hiff in Hin. destruct Hin as (e & vs' & Hf & _). fold vs in Hf. congruence.
    - apply filter_concat_pair; auto. apply Hiff. exists e, vs'. fold vs. rewrite Evs. repeat split; auto.
      + cbn [key_to_list]. apply bk_list_expand; auto.
      + apply expand_nonempty. discriminate.
  Qed.
End BackupPass.

(* ---------------------------------------------------------------- reads on the loaded KVs *)
Lemma deleted_or_expired_bk nowb e now : deleted_or_expired (bk_entry nowb e) now = deleted_or_expired e now.
Proof. reflexivity. Qed.

Lemma bk_entry_live nowb now e : nowb <= now -> deleted_or_expired e now = false -> bk_entry nowb e = e.
Proof.
  intros Hle Hd. unfold bk_entry.
  destruct (deleted_or_expired e nowb) eqn:E.
  - rewrite (deleted_or_expired_mono e nowb now Hle E) in Hd. discriminate.
  - now destruct e.
Qed.

Lemma synth_deleted e now : deleted_or_expired (synth_delete e) now = true.
Proof. reflexivity. Qed.

Lemma ver_pred_lt v : 0 < v -> ver_pred v < v.
Proof. intros H. unfold ver_pred. destruct (v =? 0) eqn:E; [apply N.eqb_eq in E; lia|lia]. Qed.

Lemma expand_cut_vers nowb v vs :
  Forall (fun y => e_ver y < v) vs -> Forall (fun y => 0 < e_ver y) vs ->
  Forall (fun y => e_ver y < v) (expand nowb (cut (marker nowb) vs)).
Proof.
  induction vs as [|e vs IH]; intros H1 H2; [constructor|].
  inversion H1 as [|? ? He H1']; subst. inversion H2 as [|? ? Hp H2']; subst.
  cbn [cut]. destruct (marker nowb e).
  - unfold expand. cbn [flat_map]. rewrite app_nil_r. constructor; [exact He|].
    destruct (has_discard e); constructor; auto. cbn. pose proof (ver_pred_lt _ Hp). lia.
  - unfold expand. cbn [flat_map]. constructor; [exact He|].
    apply Forall_app. split; [|apply IH; auto].
    destruct (has_discard e); constructor; auto. cbn. pose proof (ver_pred_lt _ Hp). lia.
Qed.

Lemma cut_vers {A} (P : A -> Prop) p (vs : list A) : Forall P vs -> Forall P (cut p vs).
Proof. induction 1 as [|e vs He _ IH]; cbn [cut]; [constructor|]. destruct (p e); repeat constructor; auto. Qed.

Lemma vis_expand_cut nowb now k ts vs : nowb <= now ->
  Forall (fun e => key_is k e = true) vs -> StronglySorted desc vs -> Forall (fun y => 0 < e_ver y) vs ->
  vis (expand nowb (cut (marker nowb) vs)) k ts now = vis (cut (marker nowb) vs) k ts now.
Proof.
  intros Hle Hk Hs. induction Hs as [|e vs Hs IH Hx]; intros Hp; [reflexivity|].
  inversion Hk as [|? ? Hke Hk']; subst. inversion Hp as [|? ? Hpe Hp']; subst.
  unfold key_is in Hke.
  assert (Hlive: forall x : unit, (if deleted_or_expired (bk_entry nowb e) now then None else Some (bk_entry nowb e))
                            = if deleted_or_expired e now then @None entry else Some e).
  { intros _. rewrite deleted_or_expired_bk. destruct (deleted_or_expired e now) eqn:E; auto.
    now rewrite (bk_entry_live nowb now e Hle E). }
  cbn [cut]. destruct (marker nowb e) eqn:Em.
  - (* the marker ends the retained versions *)
    unfold expand. cbn [flat_map]. rewrite app_nil_r. unfold vis. cbn [spec_latest].
    replace (e_key (bk_entry nowb e)) with (e_key e) by reflexivity.
    replace (e_ver (bk_entry nowb e)) with (e_ver e) by reflexivity.
    rewrite Hke. cbn [andb].
    destruct (e_ver e <=? ts) eqn:Ev.
    + rewrite spec_latest_stays.
      * apply (Hlive tt).
      * destruct (has_discard e); constructor; auto. cbn. pose proof (ver_pred_lt _ Hpe). lia.
    + destruct (has_discard e); [|reflexivity]. cbn [spec_latest].
      destruct (bytes_eqb (e_key (synth_delete e)) k && (e_ver (synth_delete e) <=? ts)); reflexivity.
  - unfold expand. cbn [flat_map]. fold (expand nowb (cut (marker nowb) vs)).
    assert (Ed: has_discard e = false).
    { unfold marker in Em. apply orb_false_iff in Em. tauto. }
    rewrite Ed. cbn [app]. unfold vis. cbn [spec_latest].
    replace (e_key (bk_entry nowb e)) with (e_key e) by reflexivity.
    replace (e_ver (bk_entry nowb e)) with (e_ver e) by reflexivity.
    rewrite Hke. cbn [andb].
    destruct (e_ver e <=? ts) eqn:Ev.
    + rewrite !spec_latest_stays.
      * apply (Hlive tt).
      * apply cut_vers. exact Hx.
      * apply expand_cut_vers; auto.
    + exact (IH Hk' Hp').
Qed.

(* ---------------------------------------------------------------- C24_full *)
Definition no_ban (k : bytes) : bool := false.

Lemma backup_of_pass m r since now ks : view_ok m -> no_empty_key m -> splits_ok [] ks = true ->
  fst (backup_of m r since now ks) = backup_pass since now (fun _ => false) r m.
Proof.
  intros Hm Hne Hok. unfold backup_of, backup_pass. cbn [fst].
  now rewrite (stream_pass_partition [] since now (fun _ => false) (KBackup since) all_keys r m ks Hm Hne Hok).
Qed.

(* the source versions of k a backup at snapshot r with SinceTs = since is shown *)
Definition shown_versions (m : src) (k : bytes) (since r : N) : list entry :=
  filter (key_is k) (shown_items [] since r (fun _ => false) m).

Lemma shown_versions_ok m k since r : view_ok m -> Forall (fun e => 0 < e_ver e) m ->
  Forall (fun e => key_is k e = true) (shown_versions m k since r)
  /\ StronglySorted desc (shown_versions m k since r)
  /\ Forall (fun e => 0 < e_ver e) (shown_versions m k since r)
  /\ Forall (fun e => e_ver e <= r) (shown_versions m k since r).
Proof.
  intros Hm Hp. unfold shown_versions. repeat split.
  - apply filter_key_is_all.
  - apply (desc_of_sorted k); [|apply filter_key_is_all]. apply sorted_filter, sorted_filter. exact Hm.
  - rewrite Forall_forall in *. intros e He. apply filter_In in He. destruct He as (He & _).
    apply filter_In in He. apply Hp. tauto.
  - apply Forall_forall. intros e He. apply filter_In in He. destruct He as (He & _).
    apply filter_In in He. destruct He as (_ & He). apply shown_vers in He. tauto.
Qed.

Theorem backup_full m r since nowb now ks k ts :
  view_ok m -> no_empty_key m -> Forall (fun e => 0 < e_ver e) m -> splits_ok [] ks = true ->
  nowb <= now ->
  vis (fst (backup_of m r since nowb ks)) k ts now
  = vis (cut (marker nowb) (shown_versions m k since r)) k ts now.
Proof.
  intros Hm Hne Hp Hok Hle. rewrite (backup_of_pass m r since nowb ks Hm Hne Hok).
  rewrite vis_filter. rewrite (backup_per_key since nowb (fun _ => false) r m Hm Hne k).
  fold (shown_versions m k since r).
  destruct (shown_versions_ok m k since r Hm Hp) as (H1 & H2 & H3 & _).
  now apply vis_expand_cut.
Qed.

(* ---- the visible state at and above the snapshot ---- *)
Lemma spec_latest_restrict ws k ts : forall best,
  spec_latest ws k ts best = spec_latest (filter (fun e => key_is k e && (e_ver e <=? ts)) ws) k ts best.
Proof.
  induction ws as [|w r IH]; intros best; [reflexivity|].
  cbn [spec_latest filter]. unfold key_is at 1.
  destruct (bytes_eqb (e_key w) k && (e_ver w <=? ts)) eqn:E.
  - cbn [spec_latest]. rewrite E. apply IH.
  - apply IH.
Qed.

Lemma vis_cut_head (p : entry -> bool) k r ts now vs :
  Forall (fun e => key_is k e = true) vs -> StronglySorted desc vs ->
  Forall (fun e => e_ver e <= r) vs -> r <= ts ->
  vis (cut p vs) k ts now = vis vs k r now.
Proof.
  intros Hk Hs Hr Hle. destruct Hs as [|e vs Hs Hx]; [reflexivity|].
  inversion Hk as [|? ? Hke _]; subst. inversion Hr as [|? ? Hre _]; subst. unfold key_is in Hke.
  assert (E1: (e_ver e <=? ts) = true) by (apply N.leb_le; lia).
  assert (E2: (e_ver e <=? r) = true) by (apply N.leb_le; lia).
  unfold vis. cbn [cut]. destruct (p e); cbn [spec_latest]; rewrite Hke, ?E1, ?E2; cbn [andb];
    rewrite ?spec_latest_stays; auto. apply cut_vers. exact Hx.
Qed.

Theorem backup_full_visible m r nowb now ks k ts :
  view_ok m -> no_empty_key m -> Forall (fun e => 0 < e_ver e) m -> splits_ok [] ks = true ->
  nowb <= now -> r <= ts -> is_prefix c_badgerPrefix k = false ->
  vis (fst (backup_of m r 0 nowb ks)) k ts now = vis m k r now.
Proof.
  intros Hm Hne Hp Hok Hle Hts Hint. rewrite (backup_full m r 0 nowb now ks k ts Hm Hne Hp Hok Hle).
  destruct (shown_versions_ok m k 0 r Hm Hp) as (H1 & H2 & _ & H4).
  rewrite (vis_cut_head _ k r ts now _ H1 H2 H4 Hts).
  unfold vis at 2. rewrite spec_latest_restrict. fold (vis (filter (fun e => key_is k e && (e_ver e <=? r)) m) k r now).
  f_equal. unfold shown_versions, shown_items. rewrite filter_filter. apply filter_ext_in'. intros e _.
  destruct (key_is k e) eqn:Ek; [|now rewrite andb_false_r].
  apply key_is_true in Ek. unfold shown, skip_common, is_internal. rewrite Ek, Hint. cbn.
  rewrite !orb_false_r, andb_true_r. now rewrite N.leb_antisym.
Qed.

(* ---------------------------------------------------------------- membership facts of one backup *)
Lemma cut_incl {A} (p : A -> bool) vs x : In x (cut p vs) -> In x vs.
Proof.
  induction vs as [|e vs IH]; cbn [cut]; [contradiction|].
  destruct (p e).
  - intros [<-|[]]. now left.
  - intros [<-|H]; [now left|right; auto].
Qed.

Lemma max_ver_acc l : forall a, fold_left (fun m e => N.max m (e_ver e)) l a
                                = N.max a (fold_left (fun m e => N.max m (e_ver e)) l 0).
Proof.
  induction l as [|e l IH]; intros a; cbn [fold_left]; [lia|].
  rewrite (IH (N.max a (e_ver e))), (IH (N.max 0 (e_ver e))). lia.
Qed.

Lemma max_ver_ge l x : In x l -> e_ver x <= max_ver l.
Proof.
  unfold max_ver. induction l as [|e l IH]; [contradiction|]. cbn [fold_left]. rewrite max_ver_acc.
  intros [<-|H]; [lia|]. specialize (IH H). lia.
Qed.

Lemma max_ver_le l b : Forall (fun x => e_ver x <= b) l -> max_ver l <= b.
Proof.
  unfold max_ver. induction 1 as [|e l He _ IH]; cbn [fold_left]; [lia|]. rewrite max_ver_acc. lia.
Qed.

Section BackupMembers.
  Variable since now r : N.
  Variable m : src.
  Hypothesis Hm : view_ok m.
  Hypothesis Hne : no_empty_key m.
  Hypothesis Hpos : Forall (fun e => 0 < e_ver e) m.
  Let sh := shown [] since r (fun _ => false).
  Let out := backup_pass since now (fun _ => false) r m.

  Lemma backup_sound x : In x out ->
    exists e, In e m /\ sh e = true /\ (x = bk_entry now e \/ x = synth_delete e).
  Proof.
    intros Hx.
    assert (Hin: In x (filter (key_is (e_key x)) out)).
    { apply filter_In. split; auto. apply key_is_true. reflexivity. }
    unfold out in Hin. rewrite (backup_per_key since now (fun _ => false) r m Hm Hne) in Hin.
    unfold expand in Hin. apply in_flat_map in Hin. destruct Hin as (e & He & Hxe).
    apply cut_incl in He. apply filter_In in He. destruct He as (He & _).
    apply filter_In in He. destruct He as (Hem & Hsh).
    exists e. repeat split; auto.
    destruct Hxe as [<-|Hxe]; [now left|]. destruct (has_discard e); [|contradiction].
    destruct Hxe as [<-|[]]. now right.
  Qed.

  Lemma backup_newest e : In e m -> sh e = true ->
    (forall e', In e' m -> sh e' = true -> e_key e' = e_key e -> e_ver e' <= e_ver e) ->
    In (bk_entry now e) out.
  Proof.
    intros He Hsh Hmax.
    assert (Hin: In (bk_entry now e) (filter (key_is (e_key e)) out)).
    2:{ apply filter_In in Hin. tauto. }
    unfold out. rewrite (backup_per_key since now (fun _ => false) r m Hm Hne).
    set (vs := filter (key_is (e_key e)) (shown_items [] since r (fun _ => false) m)).
    assert (Hev: In e vs).
    { apply filter_In. split; [apply filter_In; auto|apply key_is_true; reflexivity]. }
    assert (Hs: StronglySorted desc vs).
    { apply (desc_of_sorted (e_key e)); [|apply filter_key_is_all]. apply sorted_filter, sorted_filter. exact Hm. }
    destruct vs as [|h vs'] eqn:Evs; [contradiction|].
    assert (Hh: In h (h :: vs')) by now left. rewrite <- Evs in Hh. unfold vs in Hh.
    apply filter_In in Hh. destruct Hh as (Hh & Hhk). apply key_is_true in Hhk.
    apply filter_In in Hh. destruct Hh as (Hhm & Hhs).
    assert (h = e) as ->.
    { destruct Hev as [->|Hev]; auto.
      inversion Hs as [|? ? _ Hx]; subst. rewrite Forall_forall in Hx. specialize (Hx e Hev). unfold desc in Hx.
      specialize (Hmax h Hhm Hhs Hhk). lia. }
    cbn [cut]. destruct (marker now e); unfold expand; cbn [flat_map]; now left.
  Qed.

  Lemma backup_ret_le : max_ver out <= r.
  Proof.
    apply max_ver_le. apply Forall_forall. intros x Hx.
    destruct (backup_sound x Hx) as (e & He & Hsh & [-> | ->]).
    - apply shown_vers in Hsh. cbn. lia.
    - apply shown_vers in Hsh. rewrite Forall_forall in Hpos. specialize (Hpos e He).
      cbn. pose proof (ver_pred_lt _ Hpos). lia.
  Qed.
End BackupMembers.

(* ---------------------------------------------------------------- incremental chains *)
Lemma chain_of_cons m r rest since now :
  chain_of ((m, r) :: rest) since now
  = backup_pass since now (fun _ => false) r m
    ++ chain_of rest (max_ver (backup_pass since now (fun _ => false) r m)) now.
Proof.
  cbn [chain_of]. unfold backup_of, backup_pass, stream_pass, ranges. cbn [ranges_from map concat].
  now rewrite app_nil_r.
Qed.

Section Chain.
  Variable W : src.                 (* the source's final view *)
  Variable r now : N.
  Variable k : bytes.
  Hypothesis HW : view_ok W.
  Hypothesis Hint : is_prefix c_badgerPrefix k = false.

  (* every backup read ONE snapshot (m_i at r_i <= r) of well-formed views, in which every
     commit <= r_i was applied (Happlied) and of which nothing <= r_i was garbage-collected
     before the final view (Hkept) *)
  Definition chain_ok (bs : list (src * N)) : Prop :=
    forall mi ri, In (mi, ri) bs ->
      view_ok mi /\ no_empty_key mi /\ Forall (fun e => 0 < e_ver e) mi /\ ri <= r
      /\ (forall e, In e W -> e_ver e <= ri -> In e mi)
      /\ (forall e, In e mi -> e_ver e <= ri -> In e W).

  Lemma chain_sound bs : chain_ok bs -> forall since x, In x (chain_of bs since now) ->
    exists e, In e W /\ e_ver e <= r /\ 0 < e_ver e /\ (x = bk_entry now e \/ x = synth_delete e).
  Proof.
    induction bs as [|[m1 r1] rest IH]; intros Hok since x Hx; [contradiction|].
    rewrite chain_of_cons in Hx. apply in_app_iff in Hx. destruct Hx as [Hx|Hx].
    - destruct (Hok m1 r1 (or_introl eq_refl)) as (Hm & Hne & Hp & Hr & _ & Hkept).
      destruct (backup_sound since now r1 m1 Hm Hne x Hx) as (e & He & Hsh & Hxe).
      apply shown_vers in Hsh. exists e. repeat split; auto; try lia.
      + apply Hkept; auto. lia.
      + rewrite Forall_forall in Hp. now apply Hp.
    - apply (IH (fun mi ri H => Hok mi ri (or_intror H)) _ x Hx).
  Qed.

  Lemma chain_has_newest bs e : chain_ok bs ->
    In e W -> e_key e = k -> e_ver e <= r ->
    (forall y, In y W -> e_key y = k -> e_ver y <= r -> e_ver y <= e_ver e) ->
    forall since, since < e_ver e -> (exists mi ri, In (mi, ri) bs /\ e_ver e <= ri) ->
    In (bk_entry now e) (chain_of bs since now).
  Proof.
    intros Hok He Hk Hv Hmax. revert Hok. induction bs as [|[m1 r1] rest IH]; intros Hok since Hs Hex.
    - destruct Hex as (mi & ri & Hin & _). contradiction.
    - rewrite chain_of_cons. apply in_app_iff.
      destruct (Hok m1 r1 (or_introl eq_refl)) as (Hm & Hne & Hp & Hr & Happl & Hkept).
      destruct (N.le_gt_cases (e_ver e) r1) as [Hle|Hgt].
      + left. apply (backup_newest since now r1 m1 Hm Hne e).
        * apply Happl; auto.
        * unfold shown, skip_common, is_internal. rewrite Hk, Hint. cbn.
          assert (E1: (r1 <? e_ver e) = false) by (apply N.ltb_ge; lia).
          assert (E2: (e_ver e <=? since) = false) by (apply N.leb_gt; lia).
          rewrite E1, E2. now rewrite andb_false_r.
        * intros e' He' Hsh' Hk'. apply shown_vers in Hsh'. apply Hmax.
          -- apply Hkept; auto. lia.
          -- congruence.
          -- lia.
      + right. apply IH.
        * intros mi ri H. apply Hok. now right.
        * pose proof (backup_ret_le since now r1 m1 Hm Hne Hp). lia.
        * destruct Hex as (mi & ri & [[= -> ->]|Hin] & Hle); [lia|]. exists mi, ri. auto.
  Qed.

  Theorem chain_visible bs now' ts : chain_ok bs -> In (W, r) bs -> now <= now' -> r <= ts ->
    vis (chain_of bs 0 now) k ts now' = vis W k r now'.
  Proof.
    intros Hok Hlast Hnow Hts. unfold vis at 2.
    destruct (spec_latest W k r None) as [e|] eqn:Esl.
    - destruct (spec_latest_some _ _ _ _ _ Esl) as ([H|(He & Hk & Hv)] & Hmax & _); [discriminate|].
      destruct (Hok W r Hlast) as (_ & _ & Hp & _).
      assert (Hpe: 0 < e_ver e) by (rewrite Forall_forall in Hp; now apply Hp).
      assert (Hin: In (bk_entry now e) (chain_of bs 0 now)).
      { apply (chain_has_newest bs e Hok He Hk Hv Hmax 0 Hpe). exists W, r. auto. }
      unfold vis. rewrite (spec_latest_max _ k ts (bk_entry now e) Hin).
      + rewrite deleted_or_expired_bk. destruct (deleted_or_expired e now') eqn:Ed; auto.
        now rewrite (bk_entry_live now now' e Hnow Ed).
      + exact Hk.
      + cbn. lia.
      + intros y Hy Hky _. destruct (chain_sound bs Hok 0 y Hy) as (e' & He' & Hv' & Hp' & [-> | ->]).
        * cbn in Hky. specialize (Hmax e' He' Hky Hv').
          destruct (N.eq_dec (e_ver e') (e_ver e)) as [Eq|Neq].
          -- right. f_equal. apply (view_distinct W); auto. congruence.
          -- left. cbn. lia.
        * cbn in Hky. specialize (Hmax e' He' Hky Hv'). left. cbn. pose proof (ver_pred_lt _ Hp'). lia.
    - destruct (spec_latest_none _ _ _ _ Esl) as (_ & Hno).
      unfold vis. rewrite spec_latest_filter. rewrite filter_none; [reflexivity|].
      apply Forall_forall. intros y Hy. apply key_is_false. intros Hky.
      destruct (chain_sound bs Hok 0 y Hy) as (e' & He' & Hv' & _ & [-> | ->]); cbn in Hky; apply (Hno e' He'); auto.
  Qed.
End Chain.

(* ---------------------------------------------------------------- SinceTs is strict; Load *)
Theorem backup_since_strict m r since now ks :
  view_ok m -> no_empty_key m -> splits_ok [] ks = true ->
  (forall x, In x (fst (backup_of m r since now ks)) ->
     exists e, In e m /\ (x = bk_entry now e \/ x = synth_delete e)
               /\ e_ver e <= r /\ (since = 0 \/ since < e_ver e))
  /\ (forall e, In e m -> is_prefix c_badgerPrefix (e_key e) = false ->
        since < e_ver e -> e_ver e <= r ->
        (forall e', In e' m -> e_key e' = e_key e -> e_ver e' <= r -> e_ver e' <= e_ver e) ->
        In (bk_entry now e) (fst (backup_of m r since now ks))).
Proof.
  intros Hm Hne Hok. rewrite (backup_of_pass m r since now ks Hm Hne Hok). split.
  - intros x Hx. destruct (backup_sound since now r m Hm Hne x Hx) as (e & He & Hsh & Hxe).
    apply shown_vers in Hsh. exists e. repeat split; auto; tauto.
  - intros e He Hint Hs Hr Hmax. apply (backup_newest since now r m Hm Hne e He).
    + unfold shown, skip_common, is_internal. rewrite Hint. cbn.
      assert (E1: (r <? e_ver e) = false) by (apply N.ltb_ge; lia).
      assert (E2: (e_ver e <=? since) = false) by (apply N.leb_gt; lia).
      rewrite E1, E2. now rewrite andb_false_r.
    + intros e' He' Hsh' Hk'. apply shown_vers in Hsh'. apply Hmax; auto. lia.
Qed.

Theorem backup_retained m r since now ks k :
  view_ok m -> no_empty_key m -> splits_ok [] ks = true ->
  filter (key_is k) (fst (backup_of m r since now ks))
  = expand now (cut (marker now) (shown_versions m k since r)).
Proof.
  intros Hm Hne Hok. rewrite (backup_of_pass m r since now ks Hm Hne Hok).
  apply (backup_per_key since now (fun _ => false) r m Hm Hne k).
Qed.

Lemma backup_ret_spec m r since now ks :
  view_ok m -> no_empty_key m -> Forall (fun e => 0 < e_ver e) m -> splits_ok [] ks = true ->
  snd (backup_of m r since now ks) <= r
  /\ forall x, In x (fst (backup_of m r since now ks)) -> e_ver x <= snd (backup_of m r since now ks).
Proof.
  intros Hm Hne Hp Hok. pose proof (backup_of_pass m r since now ks Hm Hne Hok) as E.
  unfold backup_of in *. cbn [fst snd] in *. rewrite E. split.
  - apply backup_ret_le; auto.
  - intros x Hx. now apply max_ver_ge.
Qed.

Lemma load_writes s kvs : s_writes (load s kvs) = s_writes s ++ kvs.
Proof. reflexivity. Qed.

Lemma load_db s kvs : s_db (load s kvs) = apply_entries (s_db s) kvs.
Proof. reflexivity. Qed.

Lemma fold_load_next l : Forall (fun e => e_ver e < max_u64) l -> forall n,
  n <= fold_left load_next l n /\ forall e, In e l -> e_ver e < fold_left load_next l n.
Proof.
  induction 1 as [|e l He _ IH]; intros n; cbn [fold_left]; [split; [lia|contradiction]|].
  assert (Hn: n <= load_next n e /\ e_ver e < load_next n e).
  { unfold load_next. destruct (n <=? e_ver e) eqn:E.
    - apply N.leb_le in E. rewrite N.mod_small; [lia|]. unfold max_u64, two64 in *. lia.
    - apply N.leb_gt in E. lia. }
  destruct (IH (load_next n e)) as (H1 & H2). split; [lia|].
  intros x [<-|Hx]; [lia|auto].
Qed.

Theorem load_next_above s kvs : Forall (fun e => e_ver e < max_u64) kvs ->
  s_next s <= s_next (load s kvs) /\ forall e, In e kvs -> e_ver e < s_next (load s kvs).
Proof. intros H. cbn [load s_next]. now apply fold_load_next. Qed.
