(* MergeOpProofs.v — C31 on the per-key version list of MergeOp.v, for an associative merge
   function: under every interleaving of Add, merge compaction (read / write-back, any number in
   flight), LSM compaction over any subset of the key's versions, and resurfacing of shadowed
   operands, Get returns the fold of all added values in Add order. *)
From Coq Require Import Lia Sorted.
From Coq Require Import ZifyN ZifyNat ZifyBool.
From Verif Require Import Bytes Keys Consts Spec Lsm Compact Iter Sys MergeOp.
From Verif Require BytesProofs.
Open Scope N_scope.

Section P.
  Variable f : bytes -> bytes -> bytes.
  Hypothesis f_assoc : forall a b c, f (f a b) c = f a (f b c).
  Variable key : bytes.

  Notation mprod := (mprod f).
  Definition P (A : list (N * bytes)) : bytes := mprod (rev (map snd A)).
  Definition sumval (A : list (N * bytes)) (t : N) : bytes := P (filter (fun tv => fst tv <=? t) A).

  Definition sum_entry (A : list (N * bytes)) (t : N) : entry :=
    mkE key t c_bitDiscardEarlierVersions 0 0 (sumval A t).

  Definition operand (A : list (N * bytes)) (e : entry) : Prop :=
    exists v, In (e_ver e, v) A /\ e = add_entry key (e_ver e) v.
  Definition summary (A : list (N * bytes)) (e : entry) : Prop :=
    (exists v, In (e_ver e, v) A) /\ e = sum_entry A (e_ver e).
  Definition valid (A : list (N * bytes)) (e : entry) : Prop := operand A e \/ summary A e.

  (* adds, newest first: versions strictly decreasing *)
  Fixpoint adds_sorted (A : list (N * bytes)) : Prop :=
    match A with
    | [] => True
    | tv :: r => (forall x, In x r -> fst x < fst tv) /\ adds_sorted r
    end.

  Fixpoint desc_below (t : N) (L : list entry) : Prop :=
    match L with
    | [] => True
    | e :: r => e_ver e < t /\ desc_below (e_ver e) r
    end.

  (* the view, from the newest version down to the first rewrite, mirrors the adds exactly; below
     the first rewrite anything valid may remain *)
  Inductive covers : list entry -> list (N * bytes) -> Prop :=
  | cov_nil : covers [] []
  | cov_op : forall L A t v, covers L A -> covers (add_entry key t v :: L) ((t, v) :: A)
  | cov_sum : forall L A t v, desc_below t L -> Forall (valid ((t, v) :: A)) L ->
              covers (sum_entry ((t, v) :: A) t :: L) ((t, v) :: A).

  (* ---- meta bits of the two kinds of entries ---- *)
  Lemma op_bits : forall t v now, is_merge (add_entry key t v) = true /\ has_discard (add_entry key t v) = false
    /\ deleted_or_expired (add_entry key t v) now = false.
  Proof. intros. repeat split; reflexivity. Qed.
  Lemma sum_bits : forall A t now, is_merge (sum_entry A t) = false /\ has_discard (sum_entry A t) = true
    /\ deleted_or_expired (sum_entry A t) now = false.
  Proof. intros. repeat split; reflexivity. Qed.

  (* ---- mprod ---- *)
  Lemma mprod_snoc : forall l x, l <> [] -> mprod (l ++ [x]) = f (mprod l) x.
  Proof.
    intros [|a l] x H; [congruence|]. unfold MergeOp.mprod. cbn [app]. rewrite fold_left_app. reflexivity.
  Qed.

  Lemma P_cons : forall t v A, A <> [] -> P ((t, v) :: A) = f (P A) v.
  Proof.
    intros t v A H. unfold P. cbn [map snd rev]. apply mprod_snoc.
    destruct A; [congruence|]. cbn [map rev]. intros E. apply app_eq_nil in E. destruct E; discriminate.
  Qed.
  Lemma P_single : forall t v, P [(t, v)] = v.
  Proof. reflexivity. Qed.

  (* ---- filters over sorted adds ---- *)
  Lemma filter_all : forall (A : list (N * bytes)) t, (forall x, In x A -> fst x <= t) -> filter (fun tv => fst tv <=? t) A = A.
  Proof.
    induction A as [|a A IH]; intros t H; [reflexivity|]. cbn [filter].
    assert (E : (fst a <=? t) = true) by (apply N.leb_le; apply H; left; reflexivity).
    rewrite E. f_equal. apply IH. intros x Hx. apply H. right. exact Hx.
  Qed.

  Lemma sumval_head : forall t v A, adds_sorted ((t, v) :: A) -> sumval ((t, v) :: A) t = P ((t, v) :: A).
  Proof.
    intros t v A [H _]. unfold sumval. rewrite filter_all; [reflexivity|].
    intros x [<-|Hx]; [cbn; lia|]. specialize (H x Hx). cbn in H. lia.
  Qed.

  Lemma sumval_tail : forall t v A t', t' < t -> sumval ((t, v) :: A) t' = sumval A t'.
  Proof.
    intros t v A t' H. unfold sumval. cbn [filter fst]. replace (t <=? t') with false; [reflexivity|].
    symmetry. apply N.leb_gt. exact H.
  Qed.

  Lemma in_sorted_lt : forall t v A x, adds_sorted ((t, v) :: A) -> In x A -> fst x < t.
  Proof. intros t v A x [H _] Hx. exact (H x Hx). Qed.

  (* validity is stable when a newer add arrives *)
  Lemma valid_grow : forall t v A e, (forall x, In x A -> fst x < t) -> valid A e -> valid ((t, v) :: A) e.
  Proof.
    intros t v A e Hs [(w & Hin & E)|((w & Hin) & E)].
    - left. exists w. split; [right; exact Hin|exact E].
    - right. split; [exists w; right; exact Hin|]. rewrite E at 1. unfold sum_entry. f_equal.
      symmetry. apply sumval_tail. exact (Hs _ Hin).
  Qed.

  Lemma desc_below_weaken : forall L t1 t2, t1 <= t2 -> desc_below t1 L -> desc_below t2 L.
  Proof. intros [|e r] t1 t2 H; cbn; [auto|]. intros [A B]. split; [lia|exact B]. Qed.

  (* covers gives the "below" facts for any bound above the newest add *)
  Lemma covers_below : forall L A, covers L A -> adds_sorted A ->
    forall t, (forall x, In x A -> fst x < t) -> desc_below t L /\ Forall (valid A) L.
  Proof.
    induction 1 as [|L A t0 v Hc IH|L A t0 v Hd Hf]; intros Hs t Ht.
    - split; constructor.
    - destruct Hs as [Hs1 Hs2]. destruct (IH Hs2 t0 Hs1) as [D V]. split.
      + cbn. split; [apply (Ht (t0, v)); left; reflexivity|exact D].
      + constructor.
        * left. exists v. split; [left; reflexivity|reflexivity].
        * eapply Forall_impl; [|exact V]. intros e He. apply valid_grow; assumption.
    - split.
      + cbn. split; [apply (Ht (t0, v)); left; reflexivity|exact Hd].
      + constructor; [|exact Hf]. right. split; [exists v; left; reflexivity|reflexivity].
  Qed.

  Lemma covers_nil_r : forall L, covers L [] -> L = [].
  Proof. intros L H. inversion H. reflexivity. Qed.

  (* ---- Get ---- *)
  Lemma im_run_covers : forall now L A, covers L A -> adds_sorted A -> A <> [] ->
    forall n acc lt, exists c, im_run f now L (S n) acc lt = (f (P A) acc, lt, (S n + S c)%nat).
  Proof.
    intros now L A Hc. induction Hc as [|L A t v Hc IH|L A t v Hd Hf]; intros Hs Hne n acc lt; [congruence| |].
    - cbn [im_run]. destruct (op_bits t v now) as (_ & B2 & B3). rewrite B3, B2. cbn [e_val add_entry].
      destruct A as [|a A'].
      + apply covers_nil_r in Hc. subst L. cbn [im_run]. exists O. rewrite P_single. f_equal. lia.
      + destruct Hs as [_ Hs2]. destruct (IH Hs2 ltac:(discriminate) (S n) (f v acc) lt) as [c E].
        rewrite E. exists (S c). rewrite P_cons by discriminate. rewrite f_assoc. f_equal. lia.
    - cbn [im_run]. destruct (sum_bits ((t, v) :: A) t now) as (_ & B2 & B3). rewrite B3, B2.
      cbn [e_val sum_entry]. exists O. rewrite sumval_head by exact Hs. f_equal. lia.
  Qed.

  Lemma im_run0_covers : forall now L A, covers L A -> adds_sorted A -> A <> [] ->
    exists c t, im_run f now L 0 [] 0 = (P A, t, S c) /\ (exists v r, A = (t, v) :: r).
  Proof.
    intros now L A Hc Hs Hne. destruct Hc as [|L A t v Hc|L A t v Hd Hf]; [congruence| |].
    - cbn [im_run]. destruct (op_bits t v now) as (_ & B2 & B3). rewrite B3, B2. cbn [e_val e_ver add_entry].
      destruct A as [|a A'].
      + apply covers_nil_r in Hc. subst L. cbn [im_run]. exists O, t. split; [reflexivity|eauto].
      + destruct Hs as [_ Hs2]. destruct (im_run_covers now L _ Hc Hs2 ltac:(discriminate) O v t) as [c E].
        rewrite E. exists (S c), t. split; [|eauto]. rewrite P_cons by discriminate. reflexivity.
    - cbn [im_run]. destruct (sum_bits ((t, v) :: A) t now) as (_ & B2 & B3). rewrite B3, B2.
      cbn [e_val e_ver sum_entry]. exists O, t. split; [|eauto]. rewrite sumval_head by exact Hs. reflexivity.
  Qed.

  Lemma mget_covers : forall now L A, covers L A -> adds_sorted A -> mget f now L = fold_of_adds f A.
  Proof.
    intros now L A Hc Hs. destruct A as [|a A].
    - apply covers_nil_r in Hc. subst L. reflexivity.
    - destruct (im_run0_covers now L _ Hc Hs ltac:(discriminate)) as (c & t & E & _).
      unfold mget, iterate_and_merge. rewrite E. unfold fold_of_adds. fold (P (a :: A)).
      destruct c; reflexivity.
  Qed.

  (* the write-back computed by compact() is the rewrite of the newest add *)
  Lemma mcompact_summary : forall now L A e, covers L A -> adds_sorted A ->
    mcompact_entry f key now L = Some e -> summary A e.
  Proof.
    intros now L A e Hc Hs H. destruct A as [|a A].
    - apply covers_nil_r in Hc. subst L. discriminate.
    - destruct (im_run0_covers now L _ Hc Hs ltac:(discriminate)) as (c & t & E & (v & r & EA)).
      unfold mcompact_entry, iterate_and_merge in H. rewrite E in H. destruct c as [|c]; [discriminate|].
      injection H as <-. rewrite EA in *. unfold summary. cbn [e_ver]. split; [exists v; left; reflexivity|].
      unfold sum_entry. rewrite sumval_head by exact Hs. reflexivity.
  Qed.

  (* ---- kput ---- *)
  Lemma kput_below : forall L t e, desc_below t L -> e_ver e < t -> desc_below t (kput L e).
  Proof.
    induction L as [|x r IH]; intros t e Hd He; cbn [kput]; [cbn; auto|]. destruct Hd as [D1 D2].
    destruct (e_ver x <? e_ver e) eqn:E1.
    - apply N.ltb_lt in E1. cbn. repeat split; assumption.
    - destruct (e_ver x =? e_ver e) eqn:E2.
      + apply N.eqb_eq in E2. cbn. split; [exact He|]. rewrite <- E2. exact D2.
      + apply N.ltb_ge in E1. apply N.eqb_neq in E2. cbn. split; [exact D1|]. apply IH; [exact D2|lia].
  Qed.

  Lemma kput_forall : forall (Q : entry -> Prop) L e, Forall Q L -> Q e -> Forall Q (kput L e).
  Proof.
    induction L as [|x r IH]; intros e HF He; cbn [kput]; [constructor; [exact He|constructor]|].
    inversion HF; subst. destruct (e_ver x <? e_ver e); [constructor; assumption|].
    destruct (e_ver x =? e_ver e); constructor; auto.
  Qed.

  Lemma in_adds_unique : forall t v w A, adds_sorted ((t, v) :: A) -> In (t, w) ((t, v) :: A) -> w = v.
  Proof.
    intros t v w A Hs [E|Hin]; [congruence|]. pose proof (in_sorted_lt _ _ _ _ Hs Hin) as H. cbn in H. lia.
  Qed.

  Lemma in_adds_le : forall t v A x, adds_sorted ((t, v) :: A) -> In x ((t, v) :: A) -> fst x <= t.
  Proof. intros t v A x Hs [<-|Hin]; [cbn; lia|]. pose proof (in_sorted_lt _ _ _ _ Hs Hin). lia. Qed.

  (* putting a valid entry whose version is among the adds; an operand must not hit a rewrite *)
  Lemma kput_covers : forall L A, covers L A -> adds_sorted A -> forall e,
    (exists w, In (e_ver e, w) A) ->
    (summary A e \/ (operand A e /\ forall x, In x L -> has_discard x = true -> e_ver x <> e_ver e)) ->
    covers (kput L e) A.
  Proof.
    induction 1 as [|L A t v Hc IH|L A t v Hd Hf]; intros Hs e [w Hw] He.
    - destruct Hw.
    - pose proof (in_adds_le _ _ _ _ Hs Hw) as Hle. cbn [fst] in Hle.
      cbn [kput]. change (e_ver (add_entry key t v)) with t.
      destruct (t <? e_ver e) eqn:E1; [apply N.ltb_lt in E1; lia|].
      destruct (t =? e_ver e) eqn:E2.
      + apply N.eqb_eq in E2. destruct He as [[_ E]|[(w' & Hw' & E) _]].
        * rewrite E, <- E2. destruct Hs as [Hs1 Hs2]. destruct (covers_below L A Hc Hs2 t Hs1) as [D V].
          apply cov_sum; [exact D|]. eapply Forall_impl; [|exact V]. intros x Hx. apply valid_grow; assumption.
        * rewrite <- E2 in Hw', E. rewrite (in_adds_unique _ _ _ _ Hs Hw') in E. rewrite E. apply cov_op. exact Hc.
      + apply N.eqb_neq in E2. assert (Hlt : e_ver e < t) by lia.
        assert (Hw2 : In (e_ver e, w) A) by (destruct Hw as [Ew|Hw]; [injection Ew as Ew _; lia|exact Hw]).
        apply cov_op. destruct Hs as [Hs1 Hs2]. apply IH; [exact Hs2|exists w; exact Hw2|].
        destruct He as [[_ E]|[(w' & Hw' & E) Hx]].
        * left. split; [exists w; exact Hw2|]. rewrite E at 1. unfold sum_entry. f_equal. apply sumval_tail. exact Hlt.
        * right. split.
          -- exists w'. split; [|exact E]. destruct Hw' as [Ew|Hw']; [injection Ew as Ew _; lia|exact Hw'].
          -- intros x Hin. apply Hx. right. exact Hin.
    - pose proof (in_adds_le _ _ _ _ Hs Hw) as Hle. cbn [fst] in Hle.
      cbn [kput]. change (e_ver (sum_entry ((t, v) :: A) t)) with t.
      destruct (t <? e_ver e) eqn:E1; [apply N.ltb_lt in E1; lia|].
      destruct (t =? e_ver e) eqn:E2.
      + apply N.eqb_eq in E2. destruct He as [[_ E]|[_ Hx]].
        * rewrite E, <- E2. apply cov_sum; assumption.
        * exfalso. apply (Hx (sum_entry ((t, v) :: A) t)); [left; reflexivity|reflexivity|exact E2].
      + apply N.eqb_neq in E2. assert (Hlt : e_ver e < t) by lia.
        apply cov_sum.
        * apply kput_below; assumption.
        * apply kput_forall; [exact Hf|]. destruct He as [E|[E _]]; [right|left]; exact E.
  Qed.

  (* ---- the LSM compaction filter ---- *)
  Lemma lsm_run_below : forall (Q : entry -> Prop) p L t st mask, desc_below t L -> Forall Q L ->
    desc_below t (lsm_run p st L mask) /\ Forall Q (lsm_run p st L mask).
  Proof.
    induction L as [|e r IH]; intros t st mask Hd HF; cbn [lsm_run]; [split; [exact I|constructor]|].
    destruct Hd as [D1 D2]. inversion HF as [|? ? Q1 Q2]; subst.
    destruct (match mask with b :: _ => b | [] => false end).
    - destruct (filter_step p st e) as [st' keep]. destruct (IH (e_ver e) st' (tl mask) D2 Q2) as [A B].
      destruct keep.
      + split; [cbn; split; assumption|constructor; assumption].
      + split; [eapply desc_below_weaken; [|exact A]; lia|exact B].
    - destruct (IH (e_ver e) st (tl mask) D2 Q2) as [A B].
      split; [cbn; split; assumption|constructor; assumption].
  Qed.

  Definition no_skip (st : cstate) : Prop := opt_key_is (cs_skip st) key = false.

  Lemma filter_step_operand : forall p st t v, no_skip st -> has_any_prefix (cp_drop p) (add_entry key t v) = false ->
    exists st', filter_step p st (add_entry key t v) = (st', true) /\ no_skip st'.
  Proof.
    intros p st t v Hn Hp. unfold filter_step. rewrite Hp. unfold no_skip in Hn.
    change (e_key (add_entry key t v)) with key. rewrite Hn.
    destruct (op_bits t v 0) as (B1 & _ & _). rewrite B1. rewrite andb_false_r.
    eexists. split; [reflexivity|]. unfold no_skip. cbn [cs_last cs_skip].
    destruct (opt_key_is (cs_last st) key); reflexivity.
  Qed.

  Lemma filter_step_summary : forall p st A t, no_skip st -> has_any_prefix (cp_drop p) (sum_entry A t) = false ->
    exists st', filter_step p st (sum_entry A t) = (st', true).
  Proof.
    intros p st A t Hn Hp. unfold filter_step. rewrite Hp. unfold no_skip in Hn.
    change (e_key (sum_entry A t)) with key. rewrite Hn.
    destruct (sum_bits A t (cp_now p)) as (B1 & B2 & B3). rewrite B1, B2, B3. cbn [negb orb andb].
    rewrite andb_true_r. destruct (e_ver (sum_entry A t) <=? cp_discard p); eexists; reflexivity.
  Qed.

  Lemma lsm_run_covers : forall p L A, covers L A ->
    (forall e, In e L -> has_any_prefix (cp_drop p) e = false) ->
    forall st mask, no_skip st -> covers (lsm_run p st L mask) A.
  Proof.
    induction 1 as [|L A t v Hc IH|L A t v Hd Hf]; intros Hp st mask Hn; cbn [lsm_run]; [constructor| |].
    - assert (Hp' : forall e, In e L -> has_any_prefix (cp_drop p) e = false) by (intros; apply Hp; right; assumption).
      destruct (match mask with b :: _ => b | [] => false end).
      + destruct (filter_step_operand p st t v Hn (Hp _ (or_introl eq_refl))) as (st' & E & Hn'). rewrite E.
        apply cov_op. apply IH; assumption.
      + apply cov_op. apply IH; assumption.
    - destruct (match mask with b :: _ => b | [] => false end).
      + destruct (filter_step_summary p st ((t, v) :: A) t Hn (Hp _ (or_introl eq_refl))) as (st' & E). rewrite E.
        destruct (lsm_run_below (valid ((t, v) :: A)) p L t st' (tl mask) Hd Hf). apply cov_sum; assumption.
      + destruct (lsm_run_below (valid ((t, v) :: A)) p L t st (tl mask) Hd Hf). apply cov_sum; assumption.
  Qed.

  (* with every version selected, from the initial filter state: subcompact's filter itself *)
  Lemma lsm_run_all : forall p L st, lsm_run p st L (repeat true (length L)) = filter_run p st L.
  Proof.
    induction L as [|e r IH]; intros st; cbn [lsm_run filter_run length repeat tl]; [reflexivity|].
    destruct (filter_step p st e) as [st' keep]. rewrite IH. reflexivity.
  Qed.

  (* ---- the invariant of the per-key machine ---- *)
  Definition kinv (s : kstate) : Prop :=
    adds_sorted (k_adds s) /\ covers (k_list s) (k_adds s) /\ Forall (summary (k_adds s)) (k_pend s).

  Lemma summary_grow : forall t v A e, (forall x, In x A -> fst x < t) -> summary A e -> summary ((t, v) :: A) e.
  Proof.
    intros t v A e Hs [(w & Hin) E]. split; [exists w; right; exact Hin|]. rewrite E at 1. unfold sum_entry. f_equal.
    symmetry. apply sumval_tail. exact (Hs _ Hin).
  Qed.

  Lemma remove_nth_forall : forall (Q : entry -> Prop) n l, Forall Q l -> Forall Q (remove_nth n l).
  Proof.
    induction n as [|n IH]; intros [|x r] H; cbn; try constructor; inversion H; subst; auto.
  Qed.

  Lemma covers_head_ver : forall L A, covers L A -> forall e, In e L -> forall t v r, A = (t, v) :: r -> adds_sorted A -> e_ver e <= t.
  Proof.
    intros L A Hc e He t v r EA Hs. subst A.
    destruct (covers_below L _ Hc Hs (t + 1)) as [D _].
    { intros x Hx. pose proof (in_adds_le _ _ _ _ Hs Hx). lia. }
    assert (X : forall L0 b, desc_below b L0 -> In e L0 -> e_ver e < b).
    { induction L0 as [|x L0 IH]; intros b Hd Hin; [destruct Hin|]. destruct Hd as [D1 D2].
      destruct Hin as [<-|Hin]; [exact D1|]. specialize (IH _ D2 Hin). lia. }
    specialize (X _ _ D He). lia.
  Qed.

  Lemma kstep_inv : forall s o, kinv s -> kop_ok key s o -> kinv (kstep f key s o).
  Proof.
    intros s o (Hs & Hc & Hp) Hok. destruct o as [ts v|now|i|p st mask|ts v]; cbn [kstep kop_ok] in *.
    - (* Add *)
      unfold kinv. cbn [k_adds k_list k_pend]. split; [|split].
      + cbn. split; [intros x Hx; exact (Hok x Hx)|exact Hs].
      + assert (E : kput (k_list s) (add_entry key ts v) = add_entry key ts v :: k_list s).
        { destruct (k_list s) as [|x r] eqn:EL; [reflexivity|]. cbn [kput]. change (e_ver (add_entry key ts v)) with ts.
          destruct (k_adds s) as [|[t0 v0] A0] eqn:EA; [inversion Hc|].
          assert (e_ver x <= t0).
          { eapply (covers_head_ver _ _ Hc x); [left; reflexivity|reflexivity|exact Hs]. }
          specialize (Hok (t0, v0) (or_introl eq_refl)). cbn in Hok.
          replace (e_ver x <? ts) with true by (symmetry; apply N.ltb_lt; lia). reflexivity. }
        rewrite E. apply cov_op. exact Hc.
      + eapply Forall_impl; [|exact Hp]. intros e He. apply summary_grow; [exact Hok|exact He].
    - (* compact(): read *)
      destruct (mcompact_entry f key now (k_list s)) as [e|] eqn:E; [|split; [|split]; assumption].
      unfold kinv. cbn [k_adds k_list k_pend]. split; [exact Hs|split; [exact Hc|]].
      apply Forall_app. split; [exact Hp|]. constructor; [|constructor].
      eapply mcompact_summary; eassumption.
    - (* the write-back is applied *)
      destruct (nth_error (k_pend s) i) as [e|] eqn:E; [|split; [|split]; assumption].
      unfold kinv. cbn [k_adds k_list k_pend]. split; [exact Hs|split].
      + assert (He : summary (k_adds s) e).
        { apply nth_error_In in E. rewrite Forall_forall in Hp. exact (Hp _ E). }
        apply kput_covers; [exact Hc|exact Hs|exact (proj1 He)|left; exact He].
      + apply remove_nth_forall. exact Hp.
    - (* LSM compaction *)
      destruct Hok as [Hn Hd]. unfold kinv. cbn [k_adds k_list k_pend]. split; [exact Hs|split; [|exact Hp]].
      apply lsm_run_covers; assumption.
    - (* a shadowed operand becomes visible again *)
      destruct Hok as [Hin Hx]. unfold kinv. cbn [k_adds k_list k_pend]. split; [exact Hs|split; [|exact Hp]].
      apply kput_covers; [exact Hc|exact Hs|exists v; exact Hin|].
      right. split; [exists v; split; [exact Hin|reflexivity]|exact Hx].
  Qed.

  Lemma kinv_init : kinv k_init.
  Proof. split; [exact I|split; constructor]. Qed.

  Lemma krun_inv : forall os s, kinv s -> kops_ok f key s os -> kinv (krun f key s os).
  Proof.
    induction os as [|o os IH]; intros s HI Hok; cbn [krun kops_ok] in *; [exact HI|].
    destruct Hok as [H1 H2]. apply IH; [apply kstep_inv; assumption|exact H2].
  Qed.

  Theorem fold_thm : forall os now, kops_ok f key k_init os ->
    let s := krun f key k_init os in mget f now (k_list s) = fold_of_adds f (k_adds s).
  Proof.
    intros os now Hok s. destruct (krun_inv os k_init kinv_init Hok) as (Hs & Hc & _).
    apply mget_covers; assumption.
  Qed.

  (* the computable precondition check is sound *)
  Lemma kop_okb_sound : forall s o, kop_okb key s o = true -> kop_ok key s o.
  Proof.
    intros s [ts v|now|i|p st mask|ts v] H; cbn [kop_okb kop_ok] in *; try exact I.
    - rewrite forallb_forall in H. intros tv Hin. specialize (H tv Hin). apply N.ltb_lt in H. exact H.
    - apply andb_true_iff in H. destruct H as [H1 H2]. split.
      + destruct (opt_key_is (cs_skip st) key); [discriminate|reflexivity].
      + rewrite forallb_forall in H2. intros e He. specialize (H2 e He).
        destruct (has_any_prefix (cp_drop p) e); [discriminate|reflexivity].
    - apply andb_true_iff in H. destruct H as [H1 H2]. split.
      + apply existsb_exists in H1. destruct H1 as ([t w] & Hin & E). apply andb_true_iff in E. destruct E as [E1 E2].
        apply N.eqb_eq in E1. apply BytesProofs.bytes_eqb_eq in E2. cbn in E1, E2. subst. exact Hin.
      + rewrite forallb_forall in H2. intros e He Hd Ev. specialize (H2 e He). rewrite Hd in H2.
        apply N.eqb_eq in Ev. rewrite Ev in H2. discriminate.
  Qed.

  Lemma kops_okb_sound : forall os s, kops_okb f key s os = true -> kops_ok f key s os.
  Proof.
    induction os as [|o os IH]; intros s H; cbn [kops_okb kops_ok] in *; [exact I|].
    apply andb_true_iff in H. destruct H as [H1 H2]. split; [apply kop_okb_sound; exact H1|apply IH; exact H2].
  Qed.

  (* the ghost list is what it should be: the values of the Add labels, in order *)
  Fixpoint adds_of (os : list kop) : list bytes :=
    match os with
    | [] => []
    | KAdd _ v :: r => v :: adds_of r
    | _ :: r => adds_of r
    end.

  Lemma krun_adds : forall os s, rev (map snd (k_adds (krun f key s os))) = rev (map snd (k_adds s)) ++ adds_of os.
  Proof.
    induction os as [|o os IH]; intros s; cbn [krun adds_of]; [rewrite app_nil_r; reflexivity|].
    rewrite IH. destruct o as [ts v|now|i|p st mask|ts v]; cbn [kstep k_adds].
    - cbn [map snd rev]. rewrite <- app_assoc. reflexivity.
    - destruct (mcompact_entry _ _ _ _); reflexivity.
    - destruct (nth_error _ _); reflexivity.
    - reflexivity.
    - reflexivity.
  Qed.

  Theorem fold_thm_labels : forall os now, kops_ok f key k_init os ->
    mget f now (k_list (krun f key k_init os))
    = match adds_of os with [] => None | vs => Some (mprod vs) end.
  Proof.
    intros os now Hok. rewrite (fold_thm os now Hok). pose proof (krun_adds os k_init) as E. cbn [k_init k_adds map rev app] in E.
    unfold fold_of_adds. destruct (k_adds (krun f key k_init os)) as [|a A] eqn:EA.
    - cbn in E. rewrite <- E. reflexivity.
    - rewrite E. destruct (adds_of os) eqn:E2; [|reflexivity].
      exfalso. cbn [map rev] in E. destruct (rev (map snd A)); discriminate.
  Qed.
End P.
