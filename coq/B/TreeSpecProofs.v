(* TreeSpecProofs.v — C01 end to end (normal mode, sequential histories): in every state a
   history reaches, a Get at a read timestamp at or above every discard timestamp used so far
   returns exactly what the MVCC specification Spec.vis says about the list of applied writes. *)
From Verif Require Import Bytes BytesProofs Keys C20Proofs Consts Spec Lsm LsmProofs Compact Iter Sys SysReopen SysTree.
From Verif Require Import EntOrderProofs ReopenReadProofs ReopenTsProofs LevelsWfProofs CompactWfProofs.
From Verif Require GetProofs MergeProofs C12Proofs InstallProofs.
From Verif Require Import CompactProofs TreeInvProofs TreeStepProofs.
From Coq Require Import ZifyN ZifyNat ZifyBool Sorted Permutation.
Open Scope N_scope.

(* ---- the specification's "latest write" is the newest entry of the bag of writes ---- *)
Lemma spec_latest_spec ws k ts best r :
  spec_latest ws k ts best = r ->
  match r with
  | None => best = None /\ forall x, In x ws -> cand k ts x = false
  | Some e => (best = Some e \/ (In e ws /\ cand k ts e = true))
              /\ (forall x, best = Some x -> e_ver x <= e_ver e)
              /\ (forall x, In x ws -> cand k ts x = true -> e_ver x <= e_ver e)
  end.
Proof.
  revert best r. induction ws as [|w ws IH]; intros best r H; cbn [spec_latest] in H.
  - subst r. destruct best as [b|]; [|split; auto; intros x []].
    repeat split; auto; [intros x [= ->]; lia|intros x []].
  - fold (cand k ts w) in H. destruct (cand k ts w) eqn:C.
    + apply IH in H. destruct r as [e|].
      * destruct H as (H1 & H2 & H3).
        assert (Hw: e_ver w <= e_ver e /\ forall x, best = Some x -> e_ver x <= e_ver e).
        { destruct best as [b|].
          - destruct (e_ver b <=? e_ver w) eqn:E.
            + specialize (H2 w eq_refl). split; auto. intros x [= ->]. apply N.leb_le in E. lia.
            + specialize (H2 b eq_refl). apply N.leb_gt in E. split; [lia|]. intros x [= ->]. lia.
          - specialize (H2 w eq_refl). split; auto. intros x [=]. }
        destruct Hw as [Hw Hb]. repeat split; auto.
        -- destruct H1 as [H1|[H1 H1']]; [|right; split; auto; now right].
           destruct best as [b|].
           ++ destruct (e_ver b <=? e_ver w); inversion H1; subst; [right; split; auto; now left|now left].
           ++ inversion H1; subst. right. split; auto. now left.
        -- intros x [<-|Hx] Cx; auto.
      * destruct H as [H _]. destruct best as [b|]; [destruct (e_ver b <=? e_ver w)|]; discriminate.
    + apply IH in H. destruct r as [e|].
      * destruct H as (H1 & H2 & H3). repeat split; auto.
        -- destruct H1 as [H1|[H1 H1']]; auto. right. split; auto. now right.
        -- intros x [<-|Hx] Cx; [congruence|auto].
      * destruct H as [H1 H2]. split; auto. intros x [<-|Hx]; auto.
Qed.

Lemma newest_no_cand U k ts : (forall x, In x U -> cand k ts x = false) -> newest U k ts = None.
Proof. intros H. unfold newest. now rewrite (filter_all_false _ U H). Qed.

Lemma cand_spec k ts e : cand k ts e = true <-> e_key e = k /\ e_ver e <= ts.
Proof. unfold cand. now rewrite andb_true_iff, bytes_eqb_eq, N.leb_le. Qed.

Lemma spec_latest_newest ws k ts : nodup_kv ws -> spec_latest ws k ts None = newest ws k ts.
Proof.
  intros Hn. destruct (spec_latest ws k ts None) as [e|] eqn:E; apply spec_latest_spec in E.
  - destruct E as ([H|[Hin Hc]] & _ & Hmax); [discriminate|]. apply cand_spec in Hc. destruct Hc as [Hk Hv].
    symmetry. apply newest_unique; auto. intros x Hx Hxk Hxv. apply Hmax; auto. now apply cand_spec.
  - destruct E as [_ H]. symmetry. now apply newest_no_cand.
Qed.

Lemma vis_newest ws k ts now : nodup_kv ws -> vis ws k ts now = vis_of now (newest ws k ts).
Proof. intros Hn. unfold vis, vis_of. now rewrite spec_latest_newest. Qed.

(* ---- memtable puts, exactly ---- *)
Lemma mt_put_in_new s e : In e (mt_put s e).
Proof. induction s as [|x s IH]; cbn; [now left|]. destruct (ent_cmp e x); cbn; auto. Qed.

Lemma mt_put_keeps s e x : In x s -> ent_cmp e x <> Eq -> In x (mt_put s e).
Proof.
  induction s as [|y s IH]; cbn; [tauto|]. intros [<-|Hx] Hne.
  - destruct (ent_cmp e y) eqn:C; cbn; auto. congruence.
  - destruct (ent_cmp e y); cbn; auto.
Qed.

Lemma fold_mt_put_exact es mt x :
  NoDup (map e_key es) ->
  (forall e y, In e es -> In y mt -> e_key e = e_key y -> e_ver e <> e_ver y) ->
  (In x (fold_left mt_put es mt) <-> In x es \/ In x mt).
Proof.
  revert mt. induction es as [|e es IH]; intros mt Hnd Hfresh; cbn [fold_left].
  - cbn. tauto.
  - cbn [map] in Hnd. inversion Hnd as [|? ? He Hnd']; subst.
    rewrite IH; auto.
    + split.
      * intros [H|H]; [left; now right|]. apply mt_put_in in H. destruct H as [->|H]; [left; now left|now right].
      * intros [[<-|H]|H]; auto; right; [apply mt_put_in_new|].
        apply mt_put_keeps; auto. intros C. apply EntOrderProofs.ent_cmp_eq in C. destruct C as [Ck Cv].
        apply (Hfresh e x); auto. now left.
    + intros e' y He' Hy Ek. apply mt_put_in in Hy. destruct Hy as [->|Hy].
      * exfalso. apply He. rewrite <- Ek. now apply in_map.
      * apply Hfresh; auto. now right.
Qed.

(* ---- pending writes: one entry per key, keyed by its own key, nothing in duplicateWrites ---- *)
Definition txn_keys_ok (x : txn) : Prop :=
  NoDup (map fst (x_pend x)) /\ x_dups x = [] /\ (forall ke, In ke (x_pend x) -> fst ke = e_key (snd ke)).
Definition txns_keys_ok (s : sys) : Prop := Forall (fun tx => txn_keys_ok (snd tx)) (s_txns s).

Lemma kupdate_keys l k a :
  (In k (map fst l) -> map fst (kupdate l k a) = map fst l) /\
  (~ In k (map fst l) -> map fst (kupdate l k a) = map fst l ++ [k]).
Proof.
  induction l as [|[j b] l [IH1 IH2]]; cbn [kupdate map fst].
  - split; [intros []|reflexivity].
  - destruct (bytes_eqb j k) eqn:E.
    + apply bytes_eqb_eq in E. subst j. split; [reflexivity|]. intros H. exfalso. apply H. now left.
    + assert (j <> k) by (intros ->; rewrite bytes_eqb_refl in E; discriminate). cbn [map fst]. split.
      * intros [->|H']; [congruence|]. now rewrite IH1.
      * intros H'. rewrite IH2; auto. intros Hin. apply H'. now right.
Qed.

Lemma kupdate_nodup l k a : NoDup (map fst l) -> NoDup (map fst (kupdate l k a)).
Proof.
  intros Hn. destruct (kupdate_keys l k a) as [H1 H2].
  destruct (in_dec (list_eq_dec N.eq_dec) k (map fst l)) as [Hin|Hnin].
  - now rewrite H1.
  - rewrite H2; auto. apply NoDup_app_intro; auto; [repeat constructor; auto|].
    intros x Hx [<-|[]]. contradiction.
Qed.

Lemma txn_modify_keys_ok x e :
  txn_unver x -> e_ver e = 0 -> txn_keys_ok x -> txn_keys_ok (snd (txn_modify x e)).
Proof.
  intros [Hp _] He (K1 & K2 & K3). unfold txn_modify.
  destruct (negb (x_update x)); [repeat split; auto|]. destruct (x_done x); [repeat split; auto|].
  destruct (e_key e) as [|b0 k0] eqn:Ek; [repeat split; auto|].
  destruct (is_prefix c_badgerPrefix (b0 :: k0)); [repeat split; auto|].
  cbn [snd x_pend x_dups]. split; [now apply kupdate_nodup|]. split.
  - destruct (klookup (x_pend x) (b0 :: k0)) as [old|] eqn:K; auto.
    destruct (klookup_in _ _ _ K) as (j & Hj). pose proof (Hp _ Hj) as Ho. cbn [snd] in Ho.
    rewrite Ho, He. cbn. exact K2.
  - intros ke Hke. apply kupdate_in in Hke. destruct Hke as [->|Hke]; auto.
Qed.

Theorem step_preserves_txkeys s o s' :
  c11_inv s -> op_unversioned o -> txns_keys_ok s -> step s o = Ok s' -> txns_keys_ok s'.
Proof.
  intros (Hm & _ & Htx) Ho Hk. unfold txns_keys_ok in *.
  assert (HL: forall t x, lookup (s_txns s) t = Some x -> txn_keys_ok x).
  { intros t x Hl. eapply (lookup_Forall _ txn_keys_ok); [|exact Hk|exact Hl]. auto. }
  assert (HU: forall t x, lookup (s_txns s) t = Some x -> txn_unver x).
  { intros t x Hl. eapply (lookup_Forall _ txn_unver); [|exact Htx|exact Hl]. auto. }
  destruct o; cbn [step].
  - destruct (s_managed s || (rts =? s_next s - 1)); [|discriminate]. intros [= <-]. cbn [s_txns set_txn].
    apply update_Forall; auto. cbn. repeat split; auto; [constructor|intros ke []].
  - destruct (lookup (s_txns s) t) as [x|] eqn:L; [|discriminate].
    destruct (txn_modify x e) as [r' x'] eqn:M. destruct (r' =? r); [|discriminate]. intros [= <-].
    cbn [s_txns set_txn]. apply update_Forall; auto. cbn [snd].
    replace x' with (snd (txn_modify x e)) by now rewrite M. apply txn_modify_keys_ok; eauto.
  - destruct (lookup (s_txns s) t) as [x|] eqn:L; [|discriminate].
    destruct (txn_get s x k) as [r' x'] eqn:G. destruct (getres_eqb r' r); [|discriminate]. intros [= <-].
    cbn [s_txns set_txn]. apply update_Forall; auto. cbn [snd].
    destruct (txn_get_pend s x k) as (E1 & E2 & _). rewrite G in E1, E2. cbn [snd] in E1, E2.
    unfold txn_keys_ok. rewrite E1, E2. apply (HL _ _ L).
  - destruct (lookup (s_txns s) t) as [x|] eqn:L; [|discriminate].
    destruct (entries_eqb (txn_iterate s x o seek) items); [|discriminate]. intros [= <-].
    cbn [s_txns set_txn]. apply update_Forall; auto. cbn [snd]. destruct (x_update x); apply (HL _ _ L).
  - destruct (lookup (s_txns s) t) as [x|] eqn:L; [|discriminate].
    destruct (txn_commit s t x cts) as [[r' ts] s1] eqn:C.
    destruct ((r' =? r) && (negb (r' =? 0) || (ts =? 0) || (ts =? cts))); [|discriminate]. intros [= <-].
    unfold txn_commit in C. destruct (x_pend x) eqn:P.
    + inversion C; subst. cbn [s_txns]. apply update_Forall; auto. apply (HL _ _ L).
    + destruct (x_done x); [inversion C; subst; auto|].
      destruct (s_detect s && has_conflict s x); inversion C; subst; cbn [s_txns];
        apply update_Forall; auto; apply (HL _ _ L).
  - destruct (lookup (s_txns s) t) as [x|] eqn:L; [|discriminate]. intros [= <-].
    cbn [s_txns set_txn]. apply update_Forall; auto. apply (HL _ _ L).
  - intros [= <-]. exact Hk.
  - destruct (negb (pick_check (l_levels (s_db s)) c =? 0)); [discriminate|].
    destruct (entries_eqb (compaction_output (l_levels (s_db s)) c) out); [|discriminate].
    match goal with |- (if ?b then _ else _) = _ -> _ => destruct b; [|discriminate] end. intros [= <-]. exact Hk.
  - intros [= <-]. exact Hk.
  - intros [= <-]. exact Hk.
  - destruct (dump_eqb (l_levels (s_db s)) levels); [|discriminate]. intros [= <-]. exact Hk.
  - destruct (max_version (s_db s) =? v); [|discriminate]. intros [= <-]. exact Hk.
Qed.

(* ---- the refinement invariant ---- *)
Definition reads_match (s : sys) (D W : N) : Prop :=
  forall k ts now, D <= ts -> W <= now ->
    vis_of now (db_get (s_db s) k ts) = vis_of now (newest (s_writes s) k ts).

Definition SpecInv (s : sys) (D W : N) : Prop :=
  SysInv s /\ txns_keys_ok s /\ nodup_kv (s_writes s) /\
  (forall w, In w (s_writes s) -> e_ver w < s_next s) /\ reads_match s D W.

Definition op_discard (o : op) : N := match o with Compact c _ => c_discard c | _ => 0 end.
Definition op_now (o : op) : N := match o with Compact c _ => c_now c | _ => 0 end.

Lemma reads_match_mono s D W D' W' : D <= D' -> W <= W' -> reads_match s D W -> reads_match s D' W'.
Proof. intros H1 H2 H k ts now Hts Hnow. apply H; lia. Qed.

Lemma stamp_key ts e : e_key (stamp ts e) = e_key e.
Proof. unfold stamp. destruct (e_ver e =? 0); reflexivity. Qed.

Lemma better_top a b b' now :
  (forall ea, a = Some ea -> (forall eb, b = Some eb -> e_ver eb < e_ver ea) /\
                             (forall eb, b' = Some eb -> e_ver eb < e_ver ea)) ->
  vis_of now b = vis_of now b' -> vis_of now (better a b) = vis_of now (better a b').
Proof.
  intros H E. destruct a as [ea|].
  - destruct (H ea eq_refl) as [H1 H2].
    assert (Q: forall c, (forall eb, c = Some eb -> e_ver eb < e_ver ea) -> better (Some ea) c = Some ea).
    { intros c Hc. destruct c as [eb|]; cbn; auto. specialize (Hc eb eq_refl).
      assert (L: (e_ver ea <? e_ver eb) = false) by (apply N.ltb_ge; lia). now rewrite L. }
    now rewrite (Q b H1), (Q b' H2).
  - now rewrite !GetProofs.better_none_l.
Qed.

Lemma step_frame s o s' :
  step s o = Ok s' -> (forall t cts r, o <> Commit t cts r) ->
  s_writes s' = s_writes s /\ s_next s' = s_next s /\
  ((forall id, o <> Flush id) -> (forall c out, o <> Compact c out) -> s_db s' = s_db s).
Proof.
  intros H Hnc. destruct o; cbn [step] in H; try (exfalso; eapply Hnc; reflexivity).
  - destruct (s_managed s || (rts =? s_next s - 1)); [|discriminate]. inversion H; subst. cbn. auto.
  - destruct (lookup (s_txns s) t); [|discriminate]. destruct (txn_modify t0 e) as [r' x'].
    destruct (r' =? r); [|discriminate]. inversion H; subst. cbn. auto.
  - destruct (lookup (s_txns s) t); [|discriminate]. destruct (txn_get s t0 k) as [r' x'].
    destruct (getres_eqb r' r); [|discriminate]. inversion H; subst. cbn. auto.
  - destruct (lookup (s_txns s) t); [|discriminate].
    destruct (entries_eqb (txn_iterate s t0 o seek) items); [|discriminate]. inversion H; subst. cbn. auto.
  - destruct (lookup (s_txns s) t); [|discriminate]. inversion H; subst. cbn. auto.
  - inversion H; subst. cbn. repeat split; auto. intros Hf. exfalso. eapply Hf. reflexivity.
  - destruct (negb (pick_check (l_levels (s_db s)) c =? 0)); [discriminate|].
    destruct (entries_eqb (compaction_output (l_levels (s_db s)) c) out); [|discriminate].
    match type of H with (if ?b then _ else _) = _ => destruct b; [|discriminate] end.
    inversion H; subst. cbn. repeat split; auto. intros _ Hf. exfalso. eapply Hf. reflexivity.
  - inversion H; subst. cbn. auto.
  - inversion H; subst. cbn. auto.
  - destruct (dump_eqb (l_levels (s_db s)) levels); [|discriminate]. inversion H; subst. auto.
  - destruct (max_version (s_db s) =? v); [|discriminate]. inversion H; subst. auto.
Qed.

(* a successful commit with writes, in normal mode *)
Lemma commit_reads_match s x D W :
  let es := commit_entries x (s_next s) in
  let d' := apply_entries (s_db s) es in
  SysInv s -> TreeInv d' -> txn_unver x -> txn_keys_ok x ->
  nodup_kv (s_writes s) -> (forall w, In w (s_writes s) -> e_ver w < s_next s) ->
  reads_match s D W ->
  nodup_kv (s_writes s ++ es) /\
  (forall k ts now, D <= ts -> W <= now ->
     vis_of now (db_get d' k ts) = vis_of now (newest (s_writes s ++ es) k ts)).
Proof.
  cbn zeta. intros [Hc HT] HT' Hux (K1 & K2 & K3) Hnw Hwb Hrm.
  destruct Hc as (Hm & Hb & _).
  set (es := commit_entries x (s_next s)) in *.
  assert (Hver: forall e, In e es -> e_ver e = s_next s) by (intros e He; eapply commit_entries_ver; eauto).
  assert (Hkeys: map e_key es = map fst (x_pend x)).
  { unfold es, commit_entries. rewrite K2. cbn [map app]. rewrite map_map. apply map_ext_in.
    intros ke Hke. rewrite stamp_key. symmetry. now apply K3. }
  assert (Hesnd: NoDup (map e_key es)) by now rewrite Hkeys.
  assert (Hes_kv: nodup_kv es).
  { intros a b Ha Hb0 Ek _. destruct (In_nth _ _ a Ha) as (i & Hi & Ei). destruct (In_nth _ _ a Hb0) as (j & Hj & Ej).
    assert (i = j).
    { apply (proj1 (NoDup_nth (map e_key es) (e_key a)) Hesnd); rewrite ?map_length; auto.
      rewrite !(map_nth e_key). now rewrite Ei, Ej. }
    subst j. congruence. }
  assert (Hnd': nodup_kv (s_writes s ++ es)).
  { intros a b Ha Hb0 Ek Ev. apply in_app_iff in Ha, Hb0. destruct Ha as [Ha|Ha], Hb0 as [Hb0|Hb0]; auto.
    - exfalso. specialize (Hwb _ Ha). rewrite (Hver _ Hb0) in Ev. lia.
    - exfalso. specialize (Hwb _ Hb0). rewrite (Hver _ Ha) in Ev. lia. }
  split; [exact Hnd'|]. intros k ts now Hts Hnow.
  pose proof HT as (_ & _ & Hdb & _ & Hkv & _). pose proof HT' as (_ & _ & Hdb' & _ & Hkv' & _).
  (* the tree after the commit holds exactly the old entries plus the new ones *)
  assert (Hset: forall y, In y (GetProofs.all_entries (apply_entries (s_db s) es)) <->
                          In y (es ++ GetProofs.all_entries (s_db s))).
  { intros y. rewrite in_app_iff, !C12Proofs.all_entries_in. unfold apply_entries. cbn [l_mt l_imm l_levels].
    rewrite fold_mt_put_exact; [tauto|exact Hesnd|].
    intros e y0 He Hy0 _ Ev. rewrite (Hver _ He) in Ev.
    assert (e_ver y0 < s_next s); [|lia]. apply Hb. apply in_db_entries. now left. }
  rewrite (GetProofs.db_get_newest _ k ts (db_ok_lsm_wf _ Hdb')).
  rewrite (C12Proofs.newest_ext _ _ k ts Hkv' Hset). rewrite GetProofs.newest_app.
  rewrite (C12Proofs.newest_ext (s_writes s ++ es) (es ++ s_writes s) k ts Hnd').
  2:{ intros y. rewrite !in_app_iff. tauto. }
  rewrite GetProofs.newest_app.
  apply better_top.
  - intros ea Ea. apply newest_some in Ea. destruct Ea as (Hin & _). rewrite (Hver _ Hin). split.
    + intros eb Eb. apply newest_some in Eb. destruct Eb as (Hinb & _). apply Hb. now apply all_entries_db_entries.
    + intros eb Eb. apply newest_some in Eb. destruct Eb as (Hinb & _). now apply Hwb.
  - rewrite <- (GetProofs.db_get_newest _ k ts (db_ok_lsm_wf _ Hdb)). now apply Hrm.
Qed.

Theorem step_tree_spec s o s' D W :
  SpecInv s D W -> op_plain o -> step_tree s o = Ok s' ->
  SpecInv s' (N.max D (op_discard o)) (N.max W (op_now o)).
Proof.
  intros (HI & Hk & Hnw & Hwb & Hrm) Ho H.
  pose proof (step_tree_preserves _ _ _ HI Ho H) as HI'.
  pose proof (step_tree_step _ _ _ H) as Hs.
  pose proof HI as [Hc HT]. pose proof Hc as (Hm & Hb & Htx).
  assert (Hk': txns_keys_ok s') by (eapply step_preserves_txkeys; eauto; now apply op_plain_unversioned).
  split; [exact HI'|]. split; [exact Hk'|].
  assert (FRAME: (forall t cts r, o <> Commit t cts r) ->
            (forall k ts now, N.max D (op_discard o) <= ts -> N.max W (op_now o) <= now ->
               vis_of now (db_get (s_db s') k ts) = vis_of now (db_get (s_db s) k ts)) ->
            nodup_kv (s_writes s') /\ (forall w, In w (s_writes s') -> e_ver w < s_next s') /\
            reads_match s' (N.max D (op_discard o)) (N.max W (op_now o))).
  { intros Hnc Hread. destruct (step_frame _ _ _ Hs Hnc) as (E1 & E2 & _). rewrite E1, E2.
    repeat split; auto. intros k ts now Hts Hnow. unfold reads_match in Hrm. rewrite E1.
    rewrite (Hread k ts now Hts Hnow). apply Hrm; lia. }
  assert (SAME: (forall t cts r, o <> Commit t cts r) -> (forall id, o <> Flush id) -> (forall c out, o <> Compact c out) ->
            nodup_kv (s_writes s') /\ (forall w, In w (s_writes s') -> e_ver w < s_next s') /\
            reads_match s' (N.max D (op_discard o)) (N.max W (op_now o))).
  { intros N1 N2 N3. apply FRAME; auto. intros k ts now _ _.
    destruct (step_frame _ _ _ Hs N1) as (_ & _ & E). now rewrite (E N2 N3). }
  destruct o; try (apply SAME; intros; discriminate).
  - (* Commit *)
    cbn [step] in Hs. destruct (lookup (s_txns s) t) as [x|] eqn:L; [|discriminate].
    destruct (txn_commit s t x cts) as [[r' ts0] s1] eqn:C.
    destruct ((r' =? r) && (negb (r' =? 0) || (ts0 =? 0) || (ts0 =? cts))); [|discriminate]. inversion Hs; subst s1.
    cbn [op_discard op_now]. rewrite !N.max_0_r.
    assert (Hux: txn_unver x) by (eapply (lookup_Forall _ txn_unver); [|exact Htx|exact L]; auto).
    assert (Hkx: txn_keys_ok x) by (eapply (lookup_Forall _ txn_keys_ok); [|exact Hk|exact L]; auto).
    unfold txn_commit in C. destruct (x_pend x) as [|p0 pr] eqn:P.
    + inversion C; subst. cbn [s_writes s_next s_db]. repeat split; auto.
    + destruct (x_done x); [inversion C; subst; repeat split; auto|].
      destruct (s_detect s && has_conflict s x).
      * inversion C; subst. cbn [s_writes s_next s_db]. repeat split; auto.
      * rewrite Hm in C. inversion C; subst s'. clear C. cbn [s_writes s_next s_db] in *.
        destruct HI' as [_ HT'].
        destruct (commit_reads_match s x D W HI HT' Hux Hkx Hnw Hwb Hrm) as [A B].
        split; [exact A|]. split.
        -- intros w Hw. apply in_app_iff in Hw. destruct Hw as [Hw|Hw].
           ++ specialize (Hwb _ Hw). lia.
           ++ rewrite (commit_entries_ver _ _ _ Hux Hw). lia.
        -- intros k ts now Hts Hnow. apply B; auto.
  - (* Flush *)
    apply FRAME; [intros; discriminate|]. intros k ts now _ _.
    now rewrite (flush_step_preserves_reads s id s' HI H k ts).
  - (* Compact *)
    apply FRAME; [intros; discriminate|]. intros k ts now Hts Hnow. cbn [op_discard op_now] in *.
    apply (compaction_step_preserves_reads s c out s' HI Ho H); lia.
Qed.

Fixpoint max_discard (ops : list op) : N :=
  match ops with [] => 0 | o :: r => N.max (op_discard o) (max_discard r) end.
Fixpoint max_now (ops : list op) : N :=
  match ops with [] => 0 | o :: r => N.max (op_now o) (max_now r) end.

Lemma SpecInv_mono s D W D' W' : D <= D' -> W <= W' -> SpecInv s D W -> SpecInv s D' W'.
Proof.
  intros H1 H2 (A & B & C & E & F). split; [exact A|]. split; [exact B|]. split; [exact C|]. split; [exact E|].
  eapply reads_match_mono; eauto.
Qed.

Theorem exec_tree_spec ops s i D W :
  Forall op_plain ops -> SpecInv s D W ->
  SpecInv (snd (exec_tree s ops i)) (N.max D (max_discard ops)) (N.max W (max_now ops)).
Proof.
  revert s i D W. induction ops as [|o ops IH]; intros s i D W HF HI; cbn [exec_tree snd max_discard max_now].
  - eapply SpecInv_mono; [| |exact HI]; lia.
  - inversion HF; subst. destruct (step_tree s o) as [s1|code] eqn:S; cbn [snd].
    + eapply SpecInv_mono; [| |apply IH; [assumption|eapply step_tree_spec; eauto]]; lia.
    + eapply SpecInv_mono; [| |exact HI]; lia.
Qed.

Lemma init_spec_inv detect nkeep nlevels next :
  (0 < nlevels)%nat -> SpecInv (init_sys false detect nkeep nlevels next) 0 0.
Proof.
  intros Hn. pose proof (init_sys_inv detect nkeep nlevels next Hn) as HI.
  split; [exact HI|]. destruct HI as [_ (_ & _ & Hdb & _)]. unfold init_sys in *. cbn [s_txns s_writes s_next s_db] in *.
  split; [constructor|]. split; [intros a b []|]. split; [intros w []|].
  intros k ts now _ _. cbn [s_db s_writes].
  rewrite (GetProofs.db_get_newest _ k ts (db_ok_lsm_wf _ Hdb)). rewrite newest_no_cand; [reflexivity|].
  intros x Hx. exfalso. apply C12Proofs.all_entries_in in Hx. cbn [l_mt l_imm l_levels] in Hx.
  destruct Hx as [[]|[(s0 & [] & _)|(l & t & Hl & Ht & _)]]. apply repeat_spec in Hl. subst l. destruct Ht.
Qed.

(* C01: every Get of every reachable state agrees with the MVCC specification *)
Theorem get_equals_spec detect nkeep nlevels next ops :
  (0 < nlevels)%nat -> Forall op_plain ops ->
  let s := snd (exec_tree (init_sys false detect nkeep nlevels next) ops 0) in
  forall k ts now, max_discard ops <= ts -> max_now ops <= now ->
    vis_of now (db_get (s_db s) k ts) = vis (s_writes s) k ts now.
Proof.
  cbn zeta. intros Hn HF k ts now Hts Hnow.
  pose proof (exec_tree_spec ops _ 0 0 0 HF (init_spec_inv detect nkeep nlevels next Hn)) as (_ & _ & Hnw & _ & Hrm).
  rewrite (vis_newest _ k ts now Hnw). apply Hrm; lia.
Qed.
