(* MergeProofs.v — merge2 / merge_all: sortedness and membership (what the merge iterator
   contributes to Layer B; the byte-level iterator itself is C21's). *)
From Verif Require Import Bytes BytesProofs Keys C20Proofs Consts Spec Lsm Compact LsmProofs CompactProofs.
From Coq Require Import ZifyN ZifyNat ZifyBool Sorting.Sorted.
Open Scope N_scope.

Lemma lt_ent_trans a b c : lt_ent a b -> lt_ent b c -> lt_ent a c.
Proof.
  unfold lt_ent, ent_cmp, key_order.
  destruct (lex_cmp (e_key a) (e_key b)) eqn:E1; try discriminate;
  destruct (lex_cmp (e_key b) (e_key c)) eqn:E2; try discriminate; intros H1 H2.
  - apply lex_cmp_eq in E1, E2. rewrite E1, E2, lex_cmp_refl.
    rewrite N.compare_lt_iff in *. lia.
  - apply lex_cmp_eq in E1. rewrite E1, E2. reflexivity.
  - apply lex_cmp_eq in E2. rewrite <- E2, E1. reflexivity.
  - rewrite (lex_cmp_trans_lt _ _ _ E1 E2). reflexivity.
Qed.

Lemma ent_cmp_eq a b : ent_cmp a b = Eq -> e_key a = e_key b /\ e_ver a = e_ver b.
Proof. unfold ent_cmp. intros H. apply key_order_eq in H. tauto. Qed.

Lemma ent_cmp_gt_lt a b : ent_cmp a b = Gt -> lt_ent b a.
Proof.
  unfold lt_ent, ent_cmp, key_order. rewrite (lex_cmp_antisym (e_key a) (e_key b)).
  destruct (lex_cmp (e_key a) (e_key b)); cbn; try discriminate; auto.
  rewrite (N.compare_antisym (e_ver b) (e_ver a)). destruct (e_ver b ?= e_ver a); cbn; congruence.
Qed.

Lemma merge2_in a b x : In x (merge2 a b) -> In x a \/ In x b.
Proof.
  revert b. induction a as [|y a IHa]; intros b; [cbn; destruct b; auto|].
  induction b as [|z b IHb]; [cbn; auto|].
  cbn [merge2]. destruct (ent_cmp y z).
  - intros [->|H]; [left; now left|]. apply IHa in H. destruct H; [left; now right|right; now right].
  - intros [->|H]; [left; now left|]. apply IHa in H. destruct H; [left; now right|auto].
  - intros [->|H]; [right; now left|]. apply IHb in H. destruct H; auto. right; now right.
Qed.

Lemma merge2_in_l a b x : In x a -> In x (merge2 a b).
Proof.
  revert b. induction a as [|y a IHa]; intros b Hx; [contradiction|].
  induction b as [|z b IHb]; [exact Hx|].
  cbn [merge2]. destruct (ent_cmp y z).
  - destruct Hx as [->|Hx]; [now left|right; auto].
  - destruct Hx as [->|Hx]; [now left|right; auto].
  - right. apply IHb.
Qed.

(* an entry of the later source survives unless the earlier source has the same key@version *)
Lemma merge2_in_r a b x :
  In x b -> In x (merge2 a b) \/ exists y, In y a /\ e_key y = e_key x /\ e_ver y = e_ver x.
Proof.
  revert b. induction a as [|y a IHa]; intros b Hx; [left; destruct b; exact Hx|].
  induction b as [|z b IHb]; [contradiction|].
  cbn [merge2]. destruct (ent_cmp y z) eqn:E.
  - destruct Hx as [->|Hx].
    + right. exists y. apply ent_cmp_eq in E. split; [now left|tauto].
    + destruct (IHa b Hx) as [H|(w & A & B)]; [left; now right|right; exists w; split; auto; now right].
  - destruct (IHa (z :: b) Hx) as [H|(w & A & B)]; [left; now right|right; exists w; split; auto; now right].
  - destruct Hx as [->|Hx]; [left; now left|].
    destruct (IHb Hx) as [H|H]; [left; now right|right; exact H].
Qed.

Lemma merge2_sorted a b : sorted a -> sorted b -> sorted (merge2 a b).
Proof.
  revert b. induction a as [|y a IHa]; intros b Ha Hb; [destruct b; exact Hb|].
  induction b as [|z b IHb]; [exact Ha|].
  assert (Ha': sorted a) by now inversion Ha.
  assert (Hb': sorted b) by now inversion Hb.
  cbn [merge2]. destruct (ent_cmp y z) eqn:E.
  - constructor; [apply IHa; auto|]. apply Forall_forall. intros x Hx.
    apply merge2_in in Hx. destruct Hx as [Hx|Hx].
    + eapply sorted_cons_lt; eauto.
    + pose proof (sorted_cons_lt z b x Hb Hx) as L. unfold lt_ent in *.
      unfold ent_cmp in *. apply key_order_eq in E. destruct E as [E1 E2].
      rewrite E1, E2. exact L.
  - constructor; [apply IHa; auto|]. apply Forall_forall. intros x Hx.
    apply merge2_in in Hx. destruct Hx as [Hx|Hx].
    + eapply sorted_cons_lt; eauto.
    + destruct Hx as [->|Hx]; [exact E|].
      eapply lt_ent_trans; [exact E|]. eapply sorted_cons_lt; eauto.
  - constructor; [apply IHb; auto|]. apply Forall_forall. intros x Hx.
    change (In x (merge2 (y :: a) b)) in Hx.
    apply merge2_in in Hx. apply ent_cmp_gt_lt in E. destruct Hx as [Hx|Hx].
    + destruct Hx as [->|Hx]; [exact E|].
      eapply lt_ent_trans; [exact E|]. eapply sorted_cons_lt; eauto.
    + eapply sorted_cons_lt; eauto.
Qed.

Lemma merge_all_sorted ss : Forall sorted ss -> sorted (merge_all ss).
Proof.
  induction ss as [|s ss IH]; intros H; cbn; [constructor|].
  inversion H; subst. apply merge2_sorted; auto.
Qed.

Lemma merge_all_in ss x : In x (merge_all ss) -> In x (concat ss).
Proof.
  induction ss as [|s ss IH]; cbn; auto. intros H. apply merge2_in in H.
  apply in_or_app. destruct H; auto.
Qed.

(* with distinct key@version across the sources nothing is lost by merging *)
Lemma merge_all_complete ss x :
  nodup_kv (concat ss) -> In x (concat ss) -> In x (merge_all ss).
Proof.
  induction ss as [|s ss IH]; cbn; auto. intros Hnd Hx.
  apply in_app_or in Hx. destruct Hx as [Hx|Hx]; [now apply merge2_in_l|].
  assert (Hnd': nodup_kv (concat ss)).
  { intros a b Ha Hb. apply Hnd; apply in_or_app; now right. }
  specialize (IH Hnd' Hx). destruct (merge2_in_r s _ x IH) as [H|(y & A & B & C)]; auto.
  assert (y = x).
  { apply Hnd; auto; [apply in_or_app; now left|apply in_or_app; now right]. }
  subst y. now apply merge2_in_l.
Qed.
