(* C12Proofs.v — compaction preserves every read at or above the discard timestamp:
   Theorem A (filter) + Theorem B (lookup = newest over all entries) combined. *)
From Verif Require Import Bytes BytesProofs Keys C20Proofs Consts Spec Lsm Compact LsmProofs CompactProofs GetProofs MergeProofs.
From Coq Require Import ZifyN ZifyNat ZifyBool Sorting.Sorted.
Open Scope N_scope.

Lemma nodup_kv_ext U V : (forall x, In x U <-> In x V) -> nodup_kv U -> nodup_kv V.
Proof. intros H Hn a b Ha Hb. apply Hn; now apply H. Qed.

(* with distinct versions per key the lookup only depends on the set of entries *)
Lemma newest_ext U V k ts :
  nodup_kv U -> (forall x, In x U <-> In x V) -> newest U k ts = newest V k ts.
Proof.
  intros Hn H. pose proof (nodup_kv_ext _ _ H Hn) as Hn'.
  destruct (newest U k ts) as [e|] eqn:E.
  - apply newest_some in E. destruct E as (A & B & C & D). symmetry.
    apply newest_unique; auto; [now apply H|]. intros x Hx. apply D. now apply H.
  - destruct (newest V k ts) as [e|] eqn:E'; auto. exfalso.
    apply newest_some in E'. destruct E' as (A & B & C & _).
    eapply newest_none; eauto. now apply H.
Qed.

Theorem compaction_preserves_get d d' p inputs O k ts now' :
  lsm_wf d -> lsm_wf d' ->
  Forall sorted inputs ->
  nodup_kv (all_entries d) ->
  (* the tree before = compaction inputs + everything else; after = filtered merge + the same rest *)
  (forall x, In x (all_entries d) <-> In x (concat inputs ++ O)) ->
  (forall x, In x (all_entries d') <-> In x (compact_filter p (merge_all inputs) ++ O)) ->
  cp_drop p = [] ->
  (* (R): a marker dropped for lack of overlap hides nothing outside the compaction *)
  (forall e, In e (concat inputs) -> dead_marker p e -> cp_overlap p = false ->
     forall o, In o O -> e_key o = e_key e -> e_ver e < e_ver o) ->
  cp_discard p <= ts -> cp_now p <= now' ->
  vis_of now' (db_get d' k ts) = vis_of now' (db_get d k ts).
Proof.
  intros Hwf Hwf' Hin Hnd Hbefore Hafter Hdrop HR Hts Hnow.
  rewrite !db_get_newest by assumption.
  set (m := merge_all inputs).
  assert (Hnd1: nodup_kv (concat inputs ++ O)) by (eapply nodup_kv_ext; eauto).
  assert (Hndc: nodup_kv (concat inputs)).
  { intros a b Ha Hb. apply Hnd1; apply in_or_app; now left. }
  assert (Hm: forall x, In x m <-> In x (concat inputs)).
  { intros x. split; [apply merge_all_in|now apply merge_all_complete]. }
  assert (HmO: forall x, In x (m ++ O) <-> In x (concat inputs ++ O)).
  { intros x. rewrite !in_app_iff, Hm. tauto. }
  assert (Hnd2: nodup_kv (m ++ O)).
  { eapply nodup_kv_ext; [|exact Hnd1]. intros x. symmetry. apply HmO. }
  rewrite (newest_ext (all_entries d) (m ++ O)); auto.
  2:{ intros x. rewrite Hbefore. symmetry. apply HmO. }
  assert (Hnd3: nodup_kv (compact_filter p m ++ O)).
  { intros a b Ha Hb. apply Hnd2; apply in_app_or in Ha, Hb; apply in_or_app.
    - destruct Ha as [Ha|Ha]; [left; eapply filter_run_sub; eauto|now right].
    - destruct Hb as [Hb|Hb]; [left; eapply filter_run_sub; eauto|now right]. }
  rewrite (newest_ext (all_entries d') (compact_filter p m ++ O)); auto.
  2:{ eapply nodup_kv_ext; [|exact Hnd3]. intros x. symmetry. apply Hafter. }
  apply filter_preserves_reads; auto.
  - now apply merge_all_sorted.
  - intros e He. apply HR. now apply Hm.
Qed.

(* ---- membership view of the tree ---- *)
Lemma levels_srcs_in lvl ls x :
  In x (concat (levels_srcs lvl ls)) <-> exists l t, In l ls /\ In t l /\ In x (t_ents t).
Proof.
  revert lvl. induction ls as [|l r IH]; intros lvl; cbn [levels_srcs].
  - cbn. split; [contradiction|]. intros (l & t & [] & _).
  - rewrite concat_app, in_app_iff, IH. split.
    + intros [H|(l' & t & A & B & C)].
      * destruct lvl; cbn [level_src] in H.
        -- apply in_concat in H. destruct H as (s & Hs & Hx). apply in_map_iff in Hs.
           destruct Hs as (t & <- & Ht). apply in_rev in Ht. exists l, t. split; [now left|auto].
        -- cbn in H. rewrite app_nil_r in H. apply in_concat in H. destruct H as (s & Hs & Hx).
           apply in_map_iff in Hs. destruct Hs as (t & <- & Ht). exists l, t. split; [now left|auto].
      * exists l', t. split; [now right|auto].
    + intros (l' & t & [<-|A] & B & C).
      * left. destruct lvl; cbn [level_src].
        -- apply in_concat. exists (t_ents t). split; auto. apply in_map. now apply in_rev in B || apply -> in_rev.
        -- cbn. rewrite app_nil_r. apply in_concat. exists (t_ents t). split; auto. now apply in_map.
      * right. exists l', t. auto.
Qed.

Lemma all_entries_in d x :
  In x (all_entries d) <->
  In x (l_mt d) \/ (exists s, In s (l_imm d) /\ In x s)
  \/ (exists l t, In l (l_levels d) /\ In t l /\ In x (t_ents t)).
Proof.
  unfold all_entries, all_srcs. cbn [concat]. rewrite in_app_iff, concat_app, in_app_iff, levels_srcs_in.
  assert (H: In x (concat (rev (l_imm d))) <-> exists s, In s (l_imm d) /\ In x s).
  { rewrite in_concat. split; intros (s & A & B); exists s; split; auto; [apply in_rev; exact A|apply in_rev in A; exact A] || (apply -> in_rev; exact A). }
  rewrite H. tauto.
Qed.

(* flush: the rotated memtable becomes the newest L0 table — same entries *)
Lemma flush_same_entries d id x :
  l_levels d <> [] ->
  In x (all_entries (flush_oldest (rotate d) id)) <-> In x (all_entries d).
Proof.
  intros Hl. rewrite !all_entries_in. unfold rotate, flush_oldest. cbn [l_imm l_mt l_levels].
  destruct (l_imm d) as [|m r] eqn:Ei; cbn [app].
  - (* the memtable itself is flushed *)
    cbn [l_mt l_imm l_levels]. destruct (l_mt d) as [|e0 mt'] eqn:Em.
    + cbn. split; intros [[]|[(s & [] & _)|H]]; auto.
    + destruct (l_levels d) as [|l0 rest] eqn:El; [congruence|]. cbn [add_l0].
      split.
      * intros [[]|[(s & [] & _)|(l & t & A & B & C)]].
        destruct A as [<-|A].
        -- apply in_app_or in B. destruct B as [B|[<-|[]]].
           ++ right; right. exists l0, t. split; [now left|auto].
           ++ left. exact C.
        -- right; right. exists l, t. split; [now right|auto].
      * intros [H|[(s & [] & _)|(l & t & A & B & C)]].
        -- right; right. exists (l0 ++ [mkT id (e0 :: mt')]), (mkT id (e0 :: mt')).
           split; [now left|]. split; [apply in_or_app; right; now left|exact H].
        -- right; right. destruct A as [<-|A].
           ++ exists (l0 ++ [mkT id (e0 :: mt')]), t. split; [now left|]. split; auto. apply in_or_app; now left.
           ++ exists l, t. split; [now right|auto].
  - (* an older immutable memtable is flushed; the rotated one stays immutable *)
    cbn [l_mt l_imm l_levels]. destruct m as [|e0 m'].
    + split.
      * intros [[]|[(s & A & B)|H]]; auto.
        apply in_app_or in A. destruct A as [A|[<-|[]]]; auto.
        right; left. exists s. split; auto. now right.
      * intros [H|[(s & A & B)|H]]; auto.
        -- right; left. exists (l_mt d). split; auto. apply in_or_app; right; now left.
        -- destruct A as [<-|A]; [contradiction|]. right; left. exists s. split; auto. apply in_or_app; now left.
    + destruct (l_levels d) as [|l0 rest] eqn:El; [congruence|]. cbn [add_l0].
      split.
      * intros [[]|[(s & A & B)|(l & t & A & B & C)]].
        -- apply in_app_or in A. destruct A as [A|[<-|[]]]; auto.
           right; left. exists s. split; auto. now right.
        -- destruct A as [<-|A].
           ++ apply in_app_or in B. destruct B as [B|[<-|[]]].
              ** right; right. exists l0, t. split; [now left|auto].
              ** right; left. exists (e0 :: m'). split; [now left|exact C].
           ++ right; right. exists l, t. split; [now right|auto].
      * intros [H|[(s & A & B)|(l & t & A & B & C)]].
        -- right; left. exists (l_mt d). split; auto. apply in_or_app; right; now left.
        -- destruct A as [<-|A].
           ++ right; right. exists (l0 ++ [mkT id (e0 :: m')]), (mkT id (e0 :: m')).
              split; [now left|]. split; [apply in_or_app; right; now left|exact B].
           ++ right; left. exists s. split; auto. apply in_or_app; now left.
        -- right; right. destruct A as [<-|A].
           ++ exists (l0 ++ [mkT id (e0 :: m')]), t. split; [now left|]. split; auto. apply in_or_app; now left.
           ++ exists l, t. split; [now right|auto].
Qed.

Theorem flush_preserves_get d id k ts :
  lsm_wf d -> lsm_wf (flush_oldest (rotate d) id) -> l_levels d <> [] ->
  nodup_kv (all_entries d) ->
  db_get (flush_oldest (rotate d) id) k ts = db_get d k ts.
Proof.
  intros Hwf Hwf' Hl Hnd. rewrite !db_get_newest by assumption. symmetry.
  apply newest_ext; auto. intros x. symmetry. now apply flush_same_entries.
Qed.
