(* StreamWriter.v — stream_writer.go: Prepare / PrepareIncremental / Write / Flush,
   sortedWriter.Add / send / Done / createTable, level_handler.go sortTables, util.go validate,
   as coded.

   A stream-writer run is one history label: it carries the Write calls (lists of KV items
   and done markers, in buffer order), and what the implementation did that the model cannot
   know: the compactions of the Flatten inside PrepareIncremental, the table cuts of every
   stream (sortedWriter cuts when the builder "reached capacity", a byte-size criterion that
   is abstracted: the cut positions are observed, the rule "never between two versions of one
   user key" is checked), the table ids.  The model computes the target level, demultiplexes
   the items, checks the per-stream order, builds the tables, installs and sorts the levels,
   runs validate and rebuilds the oracle.

   Definitions only; proofs in StreamWriterProofs.v. *)
From Verif Require Import Bytes Keys Consts Spec Lsm Compact Iter Sys Drop.
Open Scope N_scope.

Inductive sitem := SKV (sid : N) (e : entry) | SDone (sid : N).

(* ---- Write(buf) ---- *)

(* streamReqs: per stream the entries of this buffer, in buffer order *)
Fixpoint radd (reqs : list (N * list entry)) (sid : N) (e : entry) : list (N * list entry) :=
  match reqs with
  | [] => [(sid, [e])]
  | (j, es) :: r => if j =? sid then (j, es ++ [e]) :: r else (j, es) :: radd r sid e
  end.

Definition mem_n (x : N) (l : list N) : bool := existsb (N.eqb x) l.

(* the SliceIterate pass: None = panic("write performed on closed stream") for a KV that
   follows the done marker of its stream inside one buffer *)
Fixpoint demux (items : list sitem) (closed : list N) (reqs : list (N * list entry)) (maxv : N)
  : option (list N * list (N * list entry) * N) :=
  match items with
  | [] => Some (closed, reqs, maxv)
  | SDone sid :: r => demux r (if mem_n sid closed then closed else closed ++ [sid]) reqs maxv
  | SKV sid e :: r =>
      if mem_n sid closed then None
      else demux r closed (radd reqs sid e) (N.max maxv (e_ver e))
  end.

(* a sortedWriter: the entries added so far (all its tables, cut later) and whether
   sw.writers[id] has been set to nil *)
Record swriter := mkW { w_closed : bool; w_ents : src }.

Fixpoint wlookup (ws : list (N * swriter)) (sid : N) : option swriter :=
  match ws with [] => None | (j, w) :: r => if j =? sid then Some w else wlookup r sid end.
Fixpoint wupdate (ws : list (N * swriter)) (sid : N) (w : swriter) : list (N * swriter) :=
  match ws with
  | [] => [(sid, w)]
  | (j, x) :: r => if j =? sid then (sid, w) :: r else (j, x) :: wupdate r sid w
  end.

(* sortedWriter.Add over a request: every key strictly above the previous one in CompareKeys
   order, else the error that handleRequests turns into a panic *)
Fixpoint add_all (last : option entry) (es : list entry) : bool :=
  match es with
  | [] => true
  | e :: r => match last with
              | Some l => match ent_cmp l e with Lt => add_all (Some e) r | _ => false end
              | None => add_all (Some e) r
              end
  end.

Definition last_ent (s : src) : option entry := last (map Some s) None.

(* the loop over streamReqs (the map order is irrelevant: the writers are independent) *)
Fixpoint send_reqs (ws : list (N * swriter)) (reqs : list (N * list entry)) : option (list (N * swriter)) :=
  match reqs with
  | [] => Some ws
  | (sid, es) :: r =>
      match wlookup ws sid with
      | Some w =>
          if w_closed w then None                                    (* writer == nil: panic *)
          else if add_all (last_ent (w_ents w)) es
               then send_reqs (wupdate ws sid (mkW false (w_ents w ++ es))) r
               else None                                             (* keys not in sorted order: panic *)
      | None =>
          if add_all None es then send_reqs (wupdate ws sid (mkW false es)) r else None
      end
  end.

(* closing: a stream without a writer only logs a warning *)
Fixpoint close_streams (ws : list (N * swriter)) (closed : list N) : list (N * swriter) :=
  match closed with
  | [] => ws
  | sid :: r =>
      match wlookup ws sid with
      | Some w => close_streams (wupdate ws sid (mkW true (w_ents w))) r
      | None => close_streams ws r
      end
  end.

Record sws := mkSWS { sw_writers : list (N * swriter); sw_max : N }.

(* None = the process panics *)
Definition sw_write (st : sws) (items : list sitem) : option sws :=
  match items with
  | [] => Some st                                                     (* empty buffer: nothing *)
  | _ =>
    match demux items [] [] (sw_max st) with
    | None => None
    | Some (closed, reqs, maxv) =>
        match send_reqs (sw_writers st) reqs with
        | None => None
        | Some ws => Some (mkSWS (close_streams ws closed) maxv)
        end
    end
  end.

Fixpoint sw_writes (st : sws) (ws : list (list sitem)) : option sws :=
  match ws with
  | [] => Some st
  | w :: r => match sw_write st w with Some st' => sw_writes st' r | None => None end
  end.

(* ---- the target level ---- *)
Fixpoint first_nonempty (lvl : nat) (ls : list (list table)) : option nat :=
  match ls with
  | [] => None
  | [] :: r => first_nonempty (S lvl) r
  | _ :: _ => Some lvl
  end.

(* newWriter: level = prevLevel - 1.  Prepare: prevLevel is 0 until the first Write sets it
   to len(levels).  PrepareIncremental: prevLevel = first non-empty level of the tree as it
   is BEFORE the Flatten; when that is L0, Flatten runs and prevLevel = len(levels) - 1
   wherever the data ended up; an empty tree leaves prevLevel 0 as in Prepare *)
Definition sw_target (incr : bool) (ls : list (list table)) : nat :=
  if incr then
    match first_nonempty 0 ls with
    | None => length ls - 1
    | Some O => length ls - 2
    | Some (S p) => p
    end
  else length ls - 1.

(* ---- tables of one stream: cut positions as observed, rule checked ---- *)
Fixpoint cut_ok (s : src) (layout : list (N * N)) : bool :=
  match layout with
  | [] => match s with [] => true | _ => false end            (* every entry is in a table *)
  | (_, n) :: r =>
      let a := firstn (N.to_nat n) s in
      let b := skipn (N.to_nat n) s in
      negb (n =? 0) && (length a =? N.to_nat n)%nat &&
      (* "Same keys should go into the same SSTable": a cut only between two user keys *)
      match last_ent a, b with
      | Some x, y :: _ => negb (bytes_eqb (e_key x) (e_key y))
      | _, _ => true
      end && cut_ok b r
  end.

Fixpoint layouts_lookup (ly : list (N * list (N * N))) (sid : N) : list (N * N) :=
  match ly with [] => [] | (j, l) :: r => if j =? sid then l else layouts_lookup r sid end.

Fixpoint build_tables (ws : list (N * swriter)) (ly : list (N * list (N * N))) : option (list table) :=
  match ws with
  | [] => Some []
  | (sid, w) :: r =>
      let l := layouts_lookup ly sid in
      if cut_ok (w_ents w) l then
        match build_tables r ly with
        | Some ts => Some (split_counts (w_ents w) l ++ ts)
        | None => None
        end
      else None
  end.

(* ---- Flush: sortTables on every level, validate ---- *)
Definition smallest_le (a b : table) : bool :=
  match t_smallest a, t_smallest b with
  | Some x, Some y => match ent_cmp x y with Gt => false | _ => true end
  | _, _ => true
  end.
Fixpoint ins_table (t : table) (l : list table) : list table :=
  match l with
  | [] => [t]
  | x :: r => if smallest_le t x then t :: l else x :: ins_table t r
  end.
Definition sort_tables (l : list table) : list table := fold_right ins_table [] l.

(* util.go levelHandler.validate, levels >= 1 *)
Fixpoint level_valid (l : list table) : bool :=
  match l with
  | a :: ((b :: _) as r) =>
      match t_biggest a, t_smallest b, t_biggest b with
      | Some ba, Some sb, Some bb =>
          match ent_cmp ba sb with Lt => true | _ => false end
          && match ent_cmp sb bb with Gt => false | _ => true end
          && level_valid r
      | _, _, _ => false
      end
  | _ => true
  end.
Definition levels_valid (ls : list (list table)) : bool :=
  match ls with [] => true | _ :: deep => forallb level_valid deep end.

Fixpoint orders_match (ls : list (list table)) (orders : list (list N)) : bool :=
  match ls, orders with
  | [], [] => true
  | l :: r, o :: ro => ids_eqb (ids_of l) o && orders_match r ro
  | _, _ => false
  end.

(* Flatten inside PrepareIncremental: the compactions it ran, each checked against the
   picker relation (2011 = the F11 layout, accepted as in Drop.run_l0) and recomputed *)
Fixpoint run_flatten (ls : list (list table)) (os : list obs) : N * list (list table) :=
  match os with
  | [] => (0, ls)
  | (c, out) :: r =>
      let pc := pick_check ls c in
      if negb ((pc =? 0) || (pc =? 2011)) then (pc, ls)
      else let '(code, ls') := apply_obs ls c out in
           if code =? 0 then run_flatten ls' r else (code, ls)
  end.

Definition has_mem_data (d : lsm) : bool :=
  match l_mt d with [] => existsb (fun m => match m with [] => false | _ => true end) (l_imm d) | _ => true end.

Inductive swres := SWOk (s : sys) (tags : list N) | SWBad (code : N).

(* result codes carried by the label: 0 ok, 7 "MemTable has data" (PrepareIncremental),
   8 the validation error of Flush.  Model codes >= 240 = disagreement.
   Tags: 500 Prepare, 501 incremental on an empty tree, 502 incremental below data, 503
   incremental after Flatten, 504 refused (memtable), 505 target level 0, 510 validation
   error, 511 a stream cut into several tables, 512 several streams, 513 done markers *)
Definition stream_write (s : sys) (incr : bool) (flat : list obs) (writes : list (list sitem))
           (layouts : list (N * list (N * N))) (orders : list (list N)) (r next : N) : swres :=
  if incr && has_mem_data (s_db s) then
    (if r =? 7 then SWOk s [504] else SWBad 240)
  else
  let s0 := if incr then set_db s (mkLsm [] [] (l_levels (s_db s))) else drop_all s in
  let ls0 := l_levels (s_db s0) in
  let target := sw_target incr ls0 in
  let needs_flat := incr && match first_nonempty 0 ls0 with Some O => true | _ => false end in
  if negb needs_flat && negb (match flat with [] => true | _ => false end) then SWBad 241
  else
  let '(fc, ls1) := run_flatten ls0 flat in
  if negb (fc =? 0) then SWBad fc
  else if negb (target <? length ls1)%nat then SWBad 242
  else
  match sw_writes (mkSWS [] 0) writes with
  | None => SWBad 243                                    (* the implementation would have panicked *)
  | Some st =>
    match build_tables (sw_writers st) layouts with
    | None => SWBad 244
    | Some newt =>
      let ls2 := set_level ls1 target (nth target ls1 [] ++ newt) in
      let ls3 := map sort_tables ls2 in
      if negb (orders_match ls3 orders) then SWBad 245
      else
      let valid := levels_valid ls3 in
      if negb ((r =? 0) && valid || (r =? 8) && negb valid) then SWBad 246
      else
      (* Flush, normal mode: a new oracle at max(readTs, maxVersion) + 1 — also when validate fails *)
      let next' := if s_managed s then s_next s else N.max (s_next s - 1) (sw_max st) + 1 in
      if negb (s_managed s || (next' =? next)) then SWBad 247
      else
      let ws := (if incr then s_writes s else []) ++ flat_map (fun sw => w_ents (snd sw)) (sw_writers st) in
      SWOk (mkSys (mkLsm [] [] ls3) next' (if s_managed s then s_committed s else []) (s_txns s)
                  (s_managed s) (s_detect s) (s_nkeep s) (s_discard s) ws (s_now s))
           ([if incr then (match first_nonempty 0 ls0 with None => 501 | Some O => 503 | _ => 502 end) else 500;
             (match target with O => 505 | _ => 0 end);
             (if valid then 0 else 510);
             (if existsb (fun l => (1 <? length (snd l))%nat) layouts then 511 else 0);
             (if (1 <? length (sw_writers st))%nat then 512 else 0);
             (if existsb (fun sw => w_closed (snd sw)) (sw_writers st) then 513 else 0)])
    end
  end.

(* ---- history labels ---- *)
Inductive swop :=
| SBase (o : xop)
| StreamWrite (incr : bool) (flat : list obs) (writes : list (list sitem))
              (layouts : list (N * list (N * N))) (orders : list (list N)) (r next : N)
  (* a compaction as the implementation ran it, also when the pick has reason 2011 (a
     non-empty level between L0 and the base level, finding F11): used by the F11 witness *)
| SCompactAny (c : compaction) (out : list entry).

Definition swstep (s : sys) (o : swop) : xres :=
  match o with
  | SBase x => xstep s x
  | StreamWrite incr flat writes layouts orders r next =>
      match stream_write s incr flat writes layouts orders r next with
      | SWOk s' tags => XOk s' tags
      | SWBad c => XBad c
      end
  | SCompactAny c out =>
      let ls := l_levels (s_db s) in
      let pc := pick_check ls c in
      if negb ((pc =? 0) || (pc =? 2011)) then XBad pc
      else let '(code, ls') := apply_obs ls c out in
           if code =? 0 then XOk (set_db s (mkLsm (l_mt (s_db s)) (l_imm (s_db s)) ls')) [if pc =? 2011 then 560 else 0]
           else XBad code
  end.

Fixpoint swexec (s : sys) (ops : list swop) (i : N) (tags : list N) : option (N * N) * sys * list N :=
  match ops with
  | [] => (None, s, tags)
  | o :: r => match swstep s o with
              | XOk s' t => swexec s' r (i + 1) (t ++ tags)
              | XBad code => (Some (i, code), s, tags)
              end
  end.
