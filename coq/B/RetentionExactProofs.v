(* RetentionExactProofs.v — the exact, positive characterisation of what the compaction filter
   (Compact.v filter_step / compact_filter = levels.go subcompact.addKeys, as coded) keeps (C13).

   For every strictly sorted source m and no drop prefixes:
        compact_filter p m = filter (kept_spec p m) m
   where kept_spec is computed from m alone by counting, per user key, the entries at or below
   the discard watermark that are not merge entries ("counted"), newest first. *)
From Verif Require Import Bytes BytesProofs Keys Consts Spec Lsm Compact LsmProofs CompactProofs
  EntOrderProofs.
From Coq Require Import ZifyN ZifyNat ZifyBool Sorting.Sorted.
Open Scope N_scope.

(* ================= specification (functions of the source alone) ================= *)

(* a counted entry: at or below the watermark and not written by the merge operator *)
Definition counted (p : cparams) (e : entry) : bool :=
  (e_ver e <=? cp_discard p) && negb (is_merge e).

(* x is a strictly newer version of e's user key *)
Definition newer_of (e x : entry) : bool :=
  bytes_eqb (e_key x) (e_key e) && (e_ver e <? e_ver x).

(* number of counted entries of e's key that are strictly newer than e *)
Definition rank (p : cparams) (m : src) (e : entry) : N :=
  N.of_nat (length (filter (fun x => newer_of e x && counted p x) m)).

(* the retention-ending condition of a counted entry with n counted entries of its key above it:
   deleted or expired, or bitDiscardEarlierVersions, or it is the NumVersionsToKeep-th one *)
Definition stop_cond (p : cparams) (n : N) (e : entry) : bool :=
  deleted_or_expired e (cp_now p) || (has_discard e || (n + 1 =? cp_nkeep p)).

(* e satisfies the retention-ending condition at its own place *)
Definition stopper (p : cparams) (m : src) (e : entry) : bool :=
  counted p e && stop_cond p (rank p m e) e.

(* some strictly newer entry of e's key satisfies the retention-ending condition *)
Definition behind_stop (p : cparams) (m : src) (e : entry) : bool :=
  existsb (fun x => newer_of e x && stopper p m x) m.

(* THE stop entry of its key: the newest entry satisfying the retention-ending condition *)
Definition stop_entry (p : cparams) (m : src) (e : entry) : bool :=
  stopper p m e && negb (behind_stop p m e).

(* what the filter keeps *)
Definition kept_spec (p : cparams) (m : src) (e : entry) : bool :=
  negb (behind_stop p m e)
  && (negb (stopper p m e) || negb (deleted_or_expired e (cp_now p)) || cp_overlap p).

(* ================= generic list facts ================= *)

Lemma filter_none {A} (f : A -> bool) l : (forall x, In x l -> f x = false) -> filter f l = [].
Proof.
  induction l as [|a l IH]; intros H; cbn [filter]; [reflexivity|].
  rewrite (H a (or_introl eq_refl)). apply IH. intros x Hx. apply H. now right.
Qed.

Lemma existsb_none {A} (f : A -> bool) l : (forall x, In x l -> f x = false) -> existsb f l = false.
Proof.
  induction l as [|a l IH]; intros H; cbn [existsb]; [reflexivity|].
  rewrite (H a (or_introl eq_refl)). apply IH. intros x Hx. apply H. now right.
Qed.

Lemma existsb_ext_in {A} (f g : A -> bool) l :
  (forall x, In x l -> f x = g x) -> existsb f l = existsb g l.
Proof.
  induction l as [|a l IH]; intros H; cbn [existsb]; [reflexivity|].
  rewrite (H a (or_introl eq_refl)). f_equal. apply IH. intros x Hx. apply H. now right.
Qed.

Lemma filter_length_le {A} (f g : A -> bool) l :
  (forall x, In x l -> f x = true -> g x = true) ->
  (length (filter f l) <= length (filter g l))%nat.
Proof.
  induction l as [|a l IH]; intros H; cbn [filter]; [apply le_n|].
  assert (IH' := IH (fun x Hx => H x (or_intror Hx))).
  destruct (f a) eqn:Fa.
  - rewrite (H a (or_introl eq_refl) Fa). cbn [length]. lia.
  - destruct (g a); cbn [length]; lia.
Qed.

Lemma filter_length_lt {A} (f g : A -> bool) l a :
  (forall x, In x l -> f x = true -> g x = true) ->
  In a l -> f a = false -> g a = true ->
  (length (filter f l) < length (filter g l))%nat.
Proof.
  induction l as [|b l IH]; intros H Ha Fa Ga; [contradiction|]. cbn [filter].
  assert (Hl : forall x, In x l -> f x = true -> g x = true) by (intros x Hx; apply H; now right).
  destruct Ha as [->|Ha].
  - rewrite Fa, Ga. cbn [length]. pose proof (filter_length_le f g l Hl). lia.
  - specialize (IH Hl Ha Fa Ga). destruct (f b) eqn:Fb.
    + rewrite (H b (or_introl eq_refl) Fb). cbn [length]. lia.
    + destruct (g b); cbn [length]; lia.
Qed.

Lemma sorted_NoDup (s : src) : sorted s -> NoDup s.
Proof.
  induction s as [|x s IH]; intros Hs; [constructor|].
  inversion Hs as [|? ? Hs' Hall]; subst. constructor; auto.
  intros Hin. rewrite Forall_forall in Hall. specialize (Hall x Hin).
  unfold lt_ent in Hall. rewrite ent_cmp_refl in Hall. discriminate.
Qed.

Lemma sorted_filter (f : entry -> bool) (s : src) : sorted s -> sorted (filter f s).
Proof. intros Hs. exact (ssorted_subseq _ _ (subseq_filter f s) Hs). Qed.

Lemma opt_key_is_none o k : (forall k', o = Some k' -> k' <> k) -> opt_key_is o k = false.
Proof.
  intros H. destruct (opt_key_is o k) eqn:E; [|reflexivity].
  apply opt_key_is_true in E. exfalso. exact (H k E eq_refl).
Qed.

Lemma bytes_eqb_neq a b : a <> b -> bytes_eqb a b = false.
Proof. intros H. destruct (bytes_eqb a b) eqn:E; [|reflexivity]. apply bytes_eqb_eq in E. contradiction. Qed.

(* ================= the specification read in Prop ================= *)
Section Spec.
  Variable p : cparams.

  Lemma newer_of_iff e x : newer_of e x = true <-> e_key x = e_key e /\ e_ver e < e_ver x.
  Proof. unfold newer_of. rewrite andb_true_iff, bytes_eqb_eq, N.ltb_lt. tauto. Qed.

  Lemma counted_iff e : counted p e = true <-> e_ver e <= cp_discard p /\ is_merge e = false.
  Proof. unfold counted. rewrite andb_true_iff, N.leb_le, negb_true_iff. tauto. Qed.

  Lemma stopper_iff m e :
    stopper p m e = true <->
    e_ver e <= cp_discard p /\ is_merge e = false /\
    (deleted_or_expired e (cp_now p) = true \/ has_discard e = true \/ rank p m e + 1 = cp_nkeep p).
  Proof.
    unfold stopper, stop_cond. rewrite andb_true_iff, counted_iff, !orb_true_iff, N.eqb_eq. tauto.
  Qed.

  Lemma behind_stop_iff m e :
    behind_stop p m e = true <->
    exists x, In x m /\ e_key x = e_key e /\ e_ver e < e_ver x /\ stopper p m x = true.
  Proof.
    unfold behind_stop. rewrite existsb_exists. split; intros (x & Hx & H); exists x.
    - apply andb_true_iff in H. destruct H as [H1 H2]. apply newer_of_iff in H1. tauto.
    - split; [tauto|]. apply andb_true_iff. rewrite newer_of_iff. tauto.
  Qed.

  Lemma behind_stop_false m e x :
    behind_stop p m e = false -> In x m -> e_key x = e_key e -> e_ver e < e_ver x ->
    stopper p m x = false.
  Proof.
    intros Hb Hx Hk Hv. destruct (stopper p m x) eqn:S; [|reflexivity].
    assert (behind_stop p m e = true) by (apply behind_stop_iff; eauto). congruence.
  Qed.

  Lemma stop_entry_iff m e :
    stop_entry p m e = true <-> stopper p m e = true /\ behind_stop p m e = false.
  Proof. unfold stop_entry. rewrite andb_true_iff, negb_true_iff. tauto. Qed.

  (* a version above the watermark never ends retention, whatever its meta bits say, ... *)
  Lemma above_watermark_never_stops m x : cp_discard p < e_ver x -> stopper p m x = false.
  Proof.
    intros H. unfold stopper, counted. replace (e_ver x <=? cp_discard p) with false by lia.
    reflexivity.
  Qed.

  (* ... and is itself kept in every case *)
  Lemma kept_spec_above m e : cp_discard p < e_ver e -> kept_spec p m e = true.
  Proof.
    intros H. unfold kept_spec. rewrite (above_watermark_never_stops m e H).
    replace (behind_stop p m e) with false; [reflexivity|].
    symmetry. apply existsb_none. intros x _.
    destruct (newer_of e x) eqn:Nw; [|reflexivity]. apply newer_of_iff in Nw.
    rewrite above_watermark_never_stops; [reflexivity|lia].
  Qed.

  (* a strictly newer counted entry of the same key has a strictly smaller rank *)
  Lemma rank_lt m e x :
    In x m -> newer_of e x = true -> counted p x = true -> rank p m x < rank p m e.
  Proof.
    intros Hx Nw Cx. unfold rank.
    assert (L : (length (filter (fun y => newer_of x y && counted p y) m)
                 < length (filter (fun y => newer_of e y && counted p y) m))%nat).
    { apply (filter_length_lt _ _ m x); auto.
      - intros y _ H. apply andb_true_iff in H. destruct H as [H1 H2]. rewrite H2, andb_true_r.
        apply newer_of_iff in H1. apply newer_of_iff in Nw. apply newer_of_iff.
        destruct H1 as [H1 H1'], Nw as [Nw Nw']. split; [congruence|lia].
      - unfold newer_of. replace (e_ver x <? e_ver x) with false by lia.
        now rewrite andb_false_r.
      - now rewrite Nw, Cx. }
    lia.
  Qed.

  (* the stop entry of a key is unique (by version) *)
  Lemma stop_entry_unique m a b :
    In a m -> In b m -> e_key a = e_key b ->
    stop_entry p m a = true -> stop_entry p m b = true -> e_ver a = e_ver b.
  Proof.
    intros Ha Hb Hk Sa Sb. apply stop_entry_iff in Sa. apply stop_entry_iff in Sb.
    destruct Sa as [Sa Ba], Sb as [Sb Bb].
    destruct (N.lt_trichotomy (e_ver a) (e_ver b)) as [H|[H|H]]; auto; exfalso.
    - assert (behind_stop p m a = true) by (apply behind_stop_iff; exists b; auto). congruence.
    - assert (behind_stop p m b = true) by (apply behind_stop_iff; exists a; auto). congruence.
  Qed.
End Spec.

(* ================= positional reading in a sorted source ================= *)
Section Positional.
  Variable p : cparams.

  Lemma newer_of_pre pre e post x :
    sorted (pre ++ e :: post) -> In x pre -> newer_of e x = bytes_eqb (e_key x) (e_key e).
  Proof.
    intros Hs Hx. unfold newer_of. destruct (bytes_eqb (e_key x) (e_key e)) eqn:K; [|reflexivity].
    apply bytes_eqb_eq in K. cbn [andb].
    assert (L : lt_ent x e) by (apply (sorted_app_lt pre (e :: post) x e Hs Hx); now left).
    pose proof (lt_ent_same_key _ _ L K). lia.
  Qed.

  Lemma newer_of_post pre e post x :
    sorted (pre ++ e :: post) -> In x (e :: post) -> newer_of e x = false.
  Proof.
    intros Hs [<-|Hx]; unfold newer_of.
    - replace (e_ver e <? e_ver e) with false by lia. apply andb_false_r.
    - destruct (bytes_eqb (e_key x) (e_key e)) eqn:K; [|reflexivity]. apply bytes_eqb_eq in K.
      cbn [andb]. apply sorted_app_r in Hs.
      pose proof (lt_ent_same_key _ _ (sorted_cons_lt e post x Hs Hx) (eq_sym K)). lia.
  Qed.

  Lemma rank_pos pre e post :
    sorted (pre ++ e :: post) ->
    rank p (pre ++ e :: post) e
    = N.of_nat (length (filter (fun x => bytes_eqb (e_key x) (e_key e) && counted p x) pre)).
  Proof.
    intros Hs. unfold rank. rewrite filter_app.
    rewrite (filter_none _ (e :: post)).
    2:{ intros x Hx. now rewrite (newer_of_post pre e post x Hs Hx). }
    rewrite app_nil_r. do 2 f_equal. apply filter_ext_in.
    intros x Hx. now rewrite (newer_of_pre pre e post x Hs Hx).
  Qed.

  Lemma behind_pos pre e post :
    sorted (pre ++ e :: post) ->
    behind_stop p (pre ++ e :: post) e
    = existsb (fun x => bytes_eqb (e_key x) (e_key e) && stopper p (pre ++ e :: post) x) pre.
  Proof.
    intros Hs. unfold behind_stop. rewrite existsb_app.
    rewrite (existsb_none _ (e :: post)).
    2:{ intros x Hx. now rewrite (newer_of_post pre e post x Hs Hx). }
    rewrite orb_false_r. apply existsb_ext_in.
    intros x Hx. now rewrite (newer_of_pre pre e post x Hs Hx).
  Qed.

  (* the user key of y does not occur before y once the key has changed *)
  Lemma key_fresh pre x y s z :
    sorted (pre ++ x :: y :: s) -> e_key y <> e_key x -> In z (pre ++ [x]) -> e_key z <> e_key y.
  Proof.
    intros Hs Hne Hz E. apply in_app_or in Hz. destruct Hz as [Hz|[<-|[]]]; [|congruence].
    assert (L1 : lt_ent z x) by (apply (sorted_app_lt pre (x :: y :: s) z x Hs Hz); now left).
    assert (L2 : lt_ent x y).
    { apply sorted_app_r in Hs. apply (sorted_cons_lt x (y :: s) y Hs). now left. }
    pose proof (sorted_key_no_return _ _ _ L1 L2 E). congruence.
  Qed.

  (* recurrences along the source *)
  Lemma rank_first x s : sorted (x :: s) -> rank p (x :: s) x = 0.
  Proof. intros Hs. exact (rank_pos [] x s Hs). Qed.

  Lemma behind_first x s : sorted (x :: s) -> behind_stop p (x :: s) x = false.
  Proof. intros Hs. exact (behind_pos [] x s Hs). Qed.

  Lemma rank_next_same m pre x y s :
    m = pre ++ x :: y :: s -> sorted m -> e_key y = e_key x ->
    rank p m y = rank p m x + (if counted p x then 1 else 0).
  Proof.
    intros -> Hs K.
    assert (Hs' : sorted ((pre ++ [x]) ++ y :: s)) by now rewrite <- app_assoc.
    rewrite (rank_pos pre x (y :: s) Hs).
    replace (pre ++ x :: y :: s) with ((pre ++ [x]) ++ y :: s) by now rewrite <- app_assoc.
    rewrite (rank_pos (pre ++ [x]) y s Hs'). rewrite filter_app, app_length, K.
    cbn [filter]. rewrite bytes_eqb_refl. cbn [andb].
    destruct (counted p x); cbn [length]; lia.
  Qed.

  Lemma behind_next_same m pre x y s :
    m = pre ++ x :: y :: s -> sorted m -> e_key y = e_key x ->
    behind_stop p m y = behind_stop p m x || stopper p m x.
  Proof.
    intros -> Hs K.
    assert (Hs' : sorted ((pre ++ [x]) ++ y :: s)) by now rewrite <- app_assoc.
    rewrite (behind_pos pre x (y :: s) Hs).
    assert (E : pre ++ x :: y :: s = (pre ++ [x]) ++ y :: s) by now rewrite <- app_assoc.
    rewrite E at 1. rewrite (behind_pos (pre ++ [x]) y s Hs'). rewrite <- E.
    rewrite existsb_app, K. cbn [existsb]. rewrite bytes_eqb_refl. cbn [andb].
    now rewrite orb_false_r.
  Qed.

  Lemma rank_next_other m pre x y s :
    m = pre ++ x :: y :: s -> sorted m -> e_key y <> e_key x -> rank p m y = 0.
  Proof.
    intros -> Hs K.
    assert (Hs' : sorted ((pre ++ [x]) ++ y :: s)) by now rewrite <- app_assoc.
    replace (pre ++ x :: y :: s) with ((pre ++ [x]) ++ y :: s) by now rewrite <- app_assoc.
    rewrite (rank_pos (pre ++ [x]) y s Hs'). rewrite filter_none; [reflexivity|].
    intros z Hz. rewrite bytes_eqb_neq; [reflexivity|]. eapply key_fresh; eauto.
  Qed.

  Lemma behind_next_other m pre x y s :
    m = pre ++ x :: y :: s -> sorted m -> e_key y <> e_key x -> behind_stop p m y = false.
  Proof.
    intros -> Hs K.
    assert (Hs' : sorted ((pre ++ [x]) ++ y :: s)) by now rewrite <- app_assoc.
    assert (E : pre ++ x :: y :: s = (pre ++ [x]) ++ y :: s) by now rewrite <- app_assoc.
    rewrite E at 1. rewrite (behind_pos (pre ++ [x]) y s Hs'). apply existsb_none.
    intros z Hz. rewrite bytes_eqb_neq; [reflexivity|]. eapply key_fresh; eauto.
  Qed.
End Positional.

(* ================= the filter, step by step, against the specification ================= *)
Section Exact.
  Variable p : cparams.
  Hypothesis no_prefix : cp_drop p = [].

  (* one iteration of the loop, given what the state says about the entry's key:
     B = "the skip key is this key", R = the version count carried for this key *)
  Lemma filter_step_exact st x B R :
    opt_key_is (cs_skip st) (e_key x) = B ->
    (B = false -> (if opt_key_is (cs_last st) (e_key x) then cs_nver st else 0) = R) ->
    exists st',
      filter_step p st x
      = (st', negb B && (negb (counted p x && stop_cond p R x)
                         || negb (deleted_or_expired x (cp_now p)) || cp_overlap p))
      /\ (B = true -> st' = st)
      /\ (B = false ->
          cs_last st' = Some (e_key x)
          /\ cs_skip st' = (if counted p x && stop_cond p R x then Some (e_key x) else None)
          /\ cs_nver st' = R + (if counted p x then 1 else 0)).
  Proof.
    intros HB HR. unfold filter_step. rewrite (has_any_prefix_nil p no_prefix), HB.
    destruct B.
    { exists st. cbn [negb andb]. split; [reflexivity|]. split; [auto|discriminate]. }
    specialize (HR eq_refl). cbn [cs_last cs_skip cs_nver negb andb].
    set (st2 := if opt_key_is (cs_last st) (e_key x) then _ else _).
    assert (L2 : cs_last st2 = Some (e_key x)).
    { subst st2. destruct (opt_key_is (cs_last st) (e_key x)) eqn:L; cbn [cs_last]; auto.
      now apply opt_key_is_true in L. }
    assert (S2 : cs_skip st2 = None) by (subst st2; destruct (opt_key_is (cs_last st) (e_key x)); reflexivity).
    assert (N2 : cs_nver st2 = R) by (subst st2; destruct (opt_key_is (cs_last st) (e_key x)); exact HR).
    clearbody st2. unfold stop_cond. fold (counted p x). rewrite N2, L2.
    destruct (counted p x); cbn [andb].
    - destruct (deleted_or_expired x (cp_now p)); cbn [orb negb andb].
      + destruct (cp_overlap p); eexists; (split; [reflexivity|]);
          cbn [cs_last cs_skip cs_nver]; (split; [discriminate|]); auto.
      + destruct (has_discard x || (R + 1 =? cp_nkeep p)); cbn [orb negb andb];
          eexists; (split; [reflexivity|]);
          cbn [cs_last cs_skip cs_nver]; (split; [discriminate|]); auto.
    - exists st2. cbn [negb orb]. split; [reflexivity|]. split; [discriminate|].
      intros _. rewrite N.add_0_r. auto.
  Qed.

  (* what the state knows after the prefix pre of m has been consumed and s remains *)
  Definition inv (m pre : src) (st : cstate) (s : src) : Prop :=
    (forall k, cs_last st = Some k -> exists z, In z pre /\ e_key z = k) /\
    (forall k, cs_skip st = Some k -> exists z, In z pre /\ e_key z = k) /\
    (forall x s', s = x :: s' ->
       opt_key_is (cs_skip st) (e_key x) = behind_stop p m x /\
       (behind_stop p m x = false ->
        (if opt_key_is (cs_last st) (e_key x) then cs_nver st else 0) = rank p m x)).

  Lemma filter_run_exact m : sorted m ->
    forall s pre st, m = pre ++ s -> inv m pre st s ->
    filter_run p st s = filter (kept_spec p m) s.
  Proof.
    intros Hs. induction s as [|x s IH]; intros pre st Hm (Il & Is & Ix); [reflexivity|].
    cbn [filter_run filter].
    destruct (Ix x s eq_refl) as [Hb Hr].
    destruct (filter_step_exact st x _ _ Hb Hr) as (st' & Step & Ht & Hf).
    rewrite Step. fold (stopper p m x). fold (kept_spec p m x).
    fold (stopper p m x) in Hf.
    assert (Hinv : inv m (pre ++ [x]) st' s).
    { clear Step IH. remember (behind_stop p m x) as bb eqn:B. symmetry in B.
      assert (Hx : In x (pre ++ [x])) by (apply in_or_app; right; now left).
      assert (Il' : forall k, cs_last st' = Some k -> exists z, In z (pre ++ [x]) /\ e_key z = k).
      { intros k Hk. destruct bb.
        - rewrite (Ht eq_refl) in Hk. destruct (Il k Hk) as (z & Hz & Ez).
          exists z. split; auto. apply in_or_app; now left.
        - destruct (Hf eq_refl) as (L & _ & _). exists x. split; auto. congruence. }
      assert (Is' : forall k, cs_skip st' = Some k -> exists z, In z (pre ++ [x]) /\ e_key z = k).
      { intros k Hk. destruct bb.
        - rewrite (Ht eq_refl) in Hk. destruct (Is k Hk) as (z & Hz & Ez).
          exists z. split; auto. apply in_or_app; now left.
        - destruct (Hf eq_refl) as (_ & S & _). rewrite S in Hk.
          destruct (stopper p m x); [|discriminate]. exists x. split; auto. congruence. }
      split; [exact Il'|]. split; [exact Is'|].
      intros y s'' ->.
      destruct (bytes_eqb (e_key y) (e_key x)) eqn:K.
      - (* the same user key continues *)
        apply bytes_eqb_eq in K.
        rewrite (behind_next_same p m pre x y s'' Hm Hs K), (rank_next_same p m pre x y s'' Hm Hs K), B.
        destruct bb.
        + rewrite (Ht eq_refl), K, Hb. cbn [orb]. split; [reflexivity|discriminate].
        + destruct (Hf eq_refl) as (L & S & Nv). rewrite S, L, Nv, K. cbn [orb].
          split.
          * destruct (stopper p m x); cbn [opt_key_is]; [apply bytes_eqb_refl|reflexivity].
          * intros _. cbn [opt_key_is]. now rewrite bytes_eqb_refl.
      - (* a new user key: it occurs nowhere in the consumed prefix *)
        assert (Kn : e_key y <> e_key x) by (intros E; apply bytes_eqb_eq in E; congruence).
        rewrite (behind_next_other p m pre x y s'' Hm Hs Kn), (rank_next_other p m pre x y s'' Hm Hs Kn).
        assert (Fr : forall z, In z (pre ++ [x]) -> e_key z <> e_key y).
        { intros z Hz. subst m. eapply key_fresh; eauto. }
        split.
        + apply opt_key_is_none. intros k' Hk'. destruct (Is' k' Hk') as (z & Hz & <-). auto.
        + intros _. rewrite opt_key_is_none; [reflexivity|].
          intros k' Hk'. destruct (Il' k' Hk') as (z & Hz & <-). auto. }
    assert (Hm' : m = (pre ++ [x]) ++ s) by now rewrite <- app_assoc.
    rewrite (IH (pre ++ [x]) st' Hm' Hinv). reflexivity.
  Qed.

  (* ---- THE EXACT CHARACTERISATION ---- *)
  Theorem retention_exact m : sorted m -> compact_filter p m = filter (kept_spec p m) m.
  Proof.
    intros Hs. unfold compact_filter. apply (filter_run_exact m Hs m [] cs_init eq_refl).
    split; [intros k Hk; discriminate|]. split; [intros k Hk; discriminate|].
    intros x s' ->. cbn [cs_init cs_skip cs_last opt_key_is].
    rewrite (behind_first p x s' Hs), (rank_first p x s' Hs). auto.
  Qed.
End Exact.

(* ================= corollaries, in the words of the property ================= *)
Lemma last_split {A} (l : list A) : l = [] \/ exists l' a, l = l' ++ [a].
Proof.
  destruct l as [|b l]; [now left|right].
  destruct (@exists_last A (b :: l) ltac:(discriminate)) as (l' & a & E). eauto.
Qed.

Section Corollaries.
  Variable p : cparams.
  Hypothesis no_prefix : cp_drop p = [].

  Lemma kept_iff m e : sorted m ->
    (In e (compact_filter p m) <-> In e m /\ kept_spec p m e = true).
  Proof. intros Hs. rewrite (retention_exact p no_prefix m Hs). apply filter_In. Qed.

  (* the three ways of being kept: (a) above the watermark; (b) before the stop entry of the key
     (and not itself satisfying the retention-ending condition); (c) being the stop entry of the
     key, provided it is live or something below overlaps *)
  Theorem retention_exact_iff m e : sorted m -> In e m ->
    (In e (compact_filter p m) <->
       cp_discard p < e_ver e
       \/ (behind_stop p m e = false /\ stopper p m e = false)
       \/ (stop_entry p m e = true
           /\ (deleted_or_expired e (cp_now p) = false \/ cp_overlap p = true))).
  Proof.
    intros Hs He. rewrite (kept_iff m e Hs). split.
    - intros [_ K]. unfold kept_spec in K. apply andb_true_iff in K. destruct K as [K1 K2].
      apply negb_true_iff in K1. destruct (stopper p m e) eqn:S.
      + right; right. split; [apply stop_entry_iff; auto|].
        cbn [negb orb] in K2. apply orb_true_iff in K2. destruct K2 as [K2|K2]; [left|right; auto].
        now apply negb_true_iff in K2.
      + right; left; auto.
    - intros [H|[[H1 H2]|[H1 H2]]]; (split; [exact He|]).
      + now apply kept_spec_above.
      + unfold kept_spec. now rewrite H1, H2.
      + apply stop_entry_iff in H1. destruct H1 as [S B]. unfold kept_spec. rewrite B, S.
        cbn [negb andb orb]. destruct H2 as [H2|H2]; rewrite H2; [reflexivity|apply orb_true_r].
  Qed.

  (* "keeps the newest NumVersionsToKeep versions": an entry with fewer than NumVersionsToKeep
     counted entries of its key above it, none of which is a delete / expired / discard-earlier
     entry, is kept if it is live itself (counted or merge entry alike) *)
  Theorem keeps_newest_nkeep m e :
    sorted m -> In e m ->
    rank p m e < cp_nkeep p ->
    (forall x, In x m -> e_key x = e_key e -> e_ver e < e_ver x ->
       e_ver x <= cp_discard p -> is_merge x = false ->
       deleted_or_expired x (cp_now p) = false /\ has_discard x = false) ->
    deleted_or_expired e (cp_now p) = false ->
    In e (compact_filter p m).
  Proof.
    intros Hs He Hr Hn Hl. apply kept_iff; auto. split; auto.
    unfold kept_spec. rewrite Hl. cbn [negb]. rewrite orb_true_r. cbn [orb]. rewrite andb_true_r.
    apply negb_true_iff. destruct (behind_stop p m e) eqn:B; auto. exfalso.
    apply behind_stop_iff in B. destruct B as (x & Hx & Kx & Vx & Sx).
    apply stopper_iff in Sx. destruct Sx as (V & M & C).
    destruct (Hn x Hx Kx Vx V M) as [D1 D2].
    assert (Lt : rank p m x < rank p m e).
    { apply rank_lt; auto; [apply newer_of_iff; auto|apply counted_iff; auto]. }
    destruct C as [C|[C|C]]; [congruence|congruence|lia].
  Qed.

  (* "stopping at (and dropping older than)": whatever is older than an entry of its key that
     satisfies the retention-ending condition is dropped, merge entries included *)
  Theorem drops_behind_stopper m s e :
    sorted m -> In s m -> stopper p m s = true ->
    e_key e = e_key s -> e_ver e < e_ver s -> ~ In e (compact_filter p m).
  Proof.
    intros Hs Hsm St Hk Hv Hin. apply kept_iff in Hin; auto. destruct Hin as [_ K].
    assert (B : behind_stop p m e = true) by (apply behind_stop_iff; exists s; auto).
    unfold kept_spec in K. rewrite B in K. discriminate.
  Qed.

  Theorem stops_at_marker m s e :
    sorted m -> In s m -> stop_entry p m s = true ->
    e_key e = e_key s -> e_ver e < e_ver s -> ~ In e (compact_filter p m).
  Proof.
    intros Hs Hsm St. apply stop_entry_iff in St. destruct St as [St _].
    now apply drops_behind_stopper.
  Qed.

  (* ... and everything of the key that is newer than its stop entry is kept *)
  Theorem kept_before_stop m s e :
    sorted m -> In s m -> stop_entry p m s = true ->
    In e m -> e_key e = e_key s -> e_ver s < e_ver e -> In e (compact_filter p m).
  Proof.
    intros Hs Hsm St He Hk Hv. apply stop_entry_iff in St. destruct St as [St Bs].
    apply kept_iff; auto. split; auto. unfold kept_spec.
    assert (Se : stopper p m e = false) by (apply (behind_stop_false p m s e Bs); auto).
    assert (Be : behind_stop p m e = false).
    { destruct (behind_stop p m e) eqn:B; auto. apply behind_stop_iff in B.
      destruct B as (x & Hx & Kx & Vx & Sx).
      rewrite (behind_stop_false p m s x Bs Hx) in Sx; [discriminate|congruence|lia]. }
    now rewrite Be, Se.
  Qed.

  (* a key without any retention-ending entry loses nothing *)
  Theorem keeps_all_without_stop m e :
    sorted m -> In e m ->
    (forall x, In x m -> e_key x = e_key e -> stopper p m x = false) ->
    In e (compact_filter p m).
  Proof.
    intros Hs He Hno. apply kept_iff; auto. split; auto. unfold kept_spec.
    rewrite (Hno e He eq_refl).
    replace (behind_stop p m e) with false; [reflexivity|].
    symmetry. destruct (behind_stop p m e) eqn:B; auto. apply behind_stop_iff in B.
    destruct B as (x & Hx & Kx & _ & Sx). rewrite (Hno x Hx Kx) in Sx. discriminate.
  Qed.

  (* merge-operator entries never count and never stop: at or below the watermark they are kept
     exactly as long as no retention-ending entry of their key precedes them *)
  Theorem merge_entries_kept_until_marker m e :
    sorted m -> In e m -> is_merge e = true ->
    (In e (compact_filter p m) <->
     forall x, In x m -> e_key x = e_key e -> e_ver e < e_ver x -> stopper p m x = false).
  Proof.
    intros Hs He Hm. rewrite (kept_iff m e Hs).
    assert (Se : stopper p m e = false).
    { unfold stopper, counted. rewrite Hm. cbn [negb]. now rewrite andb_false_r. }
    unfold kept_spec. rewrite Se. cbn [negb orb]. rewrite andb_true_r. split.
    - intros [_ B] x Hx Kx Vx. apply negb_true_iff in B. eapply behind_stop_false; eauto.
    - intros H. split; auto. apply negb_true_iff.
      destruct (behind_stop p m e) eqn:B; auto. apply behind_stop_iff in B.
      destruct B as (x & Hx & Kx & Vx & Sx). rewrite (H x Hx Kx Vx) in Sx. discriminate.
  Qed.

  (* an entry that is not behind a retention-ending entry has fewer than NumVersionsToKeep
     counted entries above it (this is where 1 <= NumVersionsToKeep is needed) *)
  Lemma not_behind_rank_lt m : sorted m -> 1 <= cp_nkeep p ->
    forall pre e post, m = pre ++ e :: post -> behind_stop p m e = false ->
    rank p m e < cp_nkeep p.
  Proof.
    intros Hs Hn pre. induction pre as [|x pre IH] using rev_ind; intros e post Hm Hb.
    - cbn [app] in Hm. subst m. rewrite (rank_first p e post Hs). lia.
    - rewrite <- app_assoc in Hm. cbn [app] in Hm.
      destruct (bytes_eqb (e_key e) (e_key x)) eqn:K.
      + apply bytes_eqb_eq in K. rewrite (rank_next_same p m pre x e post Hm Hs K).
        rewrite (behind_next_same p m pre x e post Hm Hs K) in Hb.
        apply orb_false_iff in Hb. destruct Hb as [Hb1 Hb2].
        specialize (IH x (e :: post) Hm Hb1). unfold stopper, stop_cond in Hb2.
        destruct (counted p x); [|lia]. cbn [andb] in Hb2.
        apply orb_false_iff in Hb2. destruct Hb2 as [_ Hb2].
        apply orb_false_iff in Hb2. destruct Hb2 as [_ Hb2]. lia.
      + assert (Kn : e_key e <> e_key x) by (intros E; apply bytes_eqb_eq in E; congruence).
        rewrite (rank_next_other p m pre x e post Hm Hs Kn). lia.
  Qed.

  (* "keeps the newest NumVersionsToKeep versions" as an upper bound: at most NumVersionsToKeep
     counted entries of any key survive *)
  Theorem at_most_nkeep_live_below_watermark m k :
    sorted m -> 1 <= cp_nkeep p ->
    N.of_nat (length (filter (fun e => bytes_eqb (e_key e) k && counted p e) (compact_filter p m)))
    <= cp_nkeep p.
  Proof.
    intros Hs Hn. rewrite (retention_exact p no_prefix m Hs).
    set (K := filter _ (filter _ m)).
    assert (HKs : sorted K) by (apply sorted_filter, sorted_filter, Hs).
    assert (HK : forall z, In z K ->
               In z m /\ e_key z = k /\ counted p z = true /\ kept_spec p m z = true).
    { intros z Hz. apply filter_In in Hz. destruct Hz as [Hz1 Hz2].
      apply filter_In in Hz1. destruct Hz1 as [Hz0 Hz1].
      apply andb_true_iff in Hz2. destruct Hz2 as [A B]. apply bytes_eqb_eq in A. auto. }
    clearbody K. destruct (last_split K) as [->|(L & z & ->)]; [cbn [length]; lia|].
    destruct (HK z) as (Hzm & Hzk & Hzc & Hzs); [apply in_or_app; right; now left|].
    assert (Bz : behind_stop p m z = false).
    { unfold kept_spec in Hzs. apply andb_true_iff in Hzs. destruct Hzs as [Hzs _].
      now apply negb_true_iff in Hzs. }
    destruct (in_split z m Hzm) as (pre & post & Em).
    pose proof (not_behind_rank_lt m Hs Hn pre z post Em Bz) as Rz.
    assert (Hlen : (length L <= length (filter (fun x => newer_of z x && counted p x) m))%nat).
    { apply NoDup_incl_length.
      - pose proof (sorted_NoDup _ HKs) as ND. apply NoDup_remove_1 in ND.
        now rewrite app_nil_r in ND.
      - intros l Hl. destruct (HK l) as (Hlm & Hlk & Hlc & _); [apply in_or_app; now left|].
        apply filter_In. split; auto. rewrite Hlc, andb_true_r. apply newer_of_iff.
        split; [congruence|]. apply lt_ent_same_key; [|congruence].
        apply (sorted_app_lt L [z] l z HKs Hl). now left. }
    rewrite app_length. cbn [length]. unfold rank in Rz. lia.
  Qed.

  (* ---- NumVersionsToKeep = 0 (not rejected by Options): the count rule compares
     numVersions == NumVersionsToKeep after the increment, so it never fires and the setting
     behaves as "keep every version" (badger's own backup command relies on <= 0 meaning all) *)
  Lemma nkeep_zero_count_rule_never_fires n e :
    cp_nkeep p = 0 -> stop_cond p n e = deleted_or_expired e (cp_now p) || has_discard e.
  Proof.
    intros H. unfold stop_cond. rewrite H. replace (n + 1 =? 0) with false by lia.
    now rewrite orb_false_r.
  Qed.

  Theorem nkeep_zero_keeps_every_version m e :
    cp_nkeep p = 0 -> sorted m -> In e m ->
    (forall x, In x m -> e_key x = e_key e -> e_ver e <= e_ver x ->
       deleted_or_expired x (cp_now p) = false /\ has_discard x = false) ->
    In e (compact_filter p m).
  Proof.
    intros H0 Hs He Hn. apply kept_iff; auto. split; auto. unfold kept_spec.
    destruct (Hn e He eq_refl ltac:(lia)) as [De _]. rewrite De. cbn [negb].
    rewrite orb_true_r. cbn [orb]. rewrite andb_true_r. apply negb_true_iff.
    destruct (behind_stop p m e) eqn:B; auto. exfalso. apply behind_stop_iff in B.
    destruct B as (x & Hx & Kx & Vx & Sx). unfold stopper in Sx.
    rewrite (nkeep_zero_count_rule_never_fires _ _ H0) in Sx.
    destruct (Hn x Hx Kx ltac:(lia)) as [D1 D2]. rewrite D1, D2 in Sx.
    now rewrite andb_false_r in Sx.
  Qed.
End Corollaries.

(* the bound of at_most_nkeep_live_below_watermark does not extend to NumVersionsToKeep = 0 *)
Theorem at_most_nkeep_unguarded_refuted :
  exists p m k, cp_drop p = [] /\ sorted m /\
    ~ N.of_nat (length (filter (fun e => bytes_eqb (e_key e) k && counted p e) (compact_filter p m)))
      <= cp_nkeep p.
Proof.
  exists (mkCP 10 0 false [] 0), [mkE [7] 9 0 0 0 [1]], [7].
  split; [reflexivity|]. split; [repeat constructor|]. vm_compute. intros H. now apply H.
Qed.

(* strictness of the order is needed: with a repeated key@version the loop counts the duplicate,
   the specification (strictly newer versions) does not *)
Theorem retention_exact_duplicates_refuted :
  exists p m, cp_drop p = [] /\ compact_filter p m <> filter (kept_spec p m) m.
Proof.
  exists (mkCP 10 2 false [] 0),
         [mkE [7] 9 0 0 0 [1]; mkE [7] 9 0 0 0 [1]; mkE [7] 8 0 0 0 [2]].
  split; [reflexivity|]. vm_compute. discriminate.
Qed.

(* ================= facts about the loop state on ARBITRARY streams ================= *)
(* (no sortedness, drop prefixes allowed): the skip key is always the last key, hence a skip is
   only ever cleared by an entry of another key, and the version count then restarts — a key can
   never "continue counting" after its skip was cleared, and the count never carries over from
   one key to the next *)
Section AnyStream.
  Variable p : cparams.

  Definition skip_is_last (st : cstate) : Prop :=
    forall k, cs_skip st = Some k -> cs_last st = Some k.

  Lemma skip_is_last_init : skip_is_last cs_init.
  Proof. intros k H. discriminate. Qed.

  Lemma skip_is_last_step st x st' b :
    skip_is_last st -> filter_step p st x = (st', b) -> skip_is_last st'.
  Proof.
    unfold filter_step. intros Hi.
    destruct (has_any_prefix (cp_drop p) x); [intros [= <- <-]; exact Hi|].
    destruct (opt_key_is (cs_skip st) (e_key x)); [intros [= <- <-]; exact Hi|].
    cbn [cs_last cs_skip cs_nver].
    set (st2 := if opt_key_is (cs_last st) (e_key x) then _ else _).
    assert (L2 : cs_last st2 = Some (e_key x)).
    { subst st2. destruct (opt_key_is (cs_last st) (e_key x)) eqn:L; cbn [cs_last]; auto.
      now apply opt_key_is_true in L. }
    assert (S2 : cs_skip st2 = None)
      by (subst st2; destruct (opt_key_is (cs_last st) (e_key x)); reflexivity).
    clearbody st2.
    destruct ((e_ver x <=? cp_discard p) && negb (is_merge x)).
    - destruct (deleted_or_expired x (cp_now p) || (has_discard x || (cs_nver st2 + 1 =? cp_nkeep p))).
      + destruct (negb (deleted_or_expired x (cp_now p)) && (has_discard x || (cs_nver st2 + 1 =? cp_nkeep p)));
          [|destruct (cp_overlap p)]; intros [= <- <-] k; cbn [cs_last cs_skip]; congruence.
      + intros [= <- <-] k; cbn [cs_last cs_skip]; discriminate.
    - intros [= <- <-] k. rewrite S2. discriminate.
  Qed.

  (* the entry that clears a skip belongs to another key and restarts the count at zero *)
  Lemma count_restarts_after_skip st x st' b k :
    skip_is_last st -> cs_skip st = Some k -> e_key x <> k ->
    has_any_prefix (cp_drop p) x = false ->
    filter_step p st x = (st', b) ->
    cs_nver st' = (if counted p x then 1 else 0).
  Proof.
    intros Hi Hk Hne Hp. unfold filter_step. rewrite Hp, Hk, (Hi k Hk).
    cbn [opt_key_is cs_last cs_skip cs_nver].
    rewrite (bytes_eqb_neq k (e_key x)) by congruence. cbn [cs_last cs_skip cs_nver].
    fold (counted p x). destruct (counted p x).
    - destruct (deleted_or_expired x (cp_now p) || (has_discard x || (0 + 1 =? cp_nkeep p))).
      + destruct (negb (deleted_or_expired x (cp_now p)) && (has_discard x || (0 + 1 =? cp_nkeep p)));
          [|destruct (cp_overlap p)]; intros [= <- <-]; reflexivity.
      + intros [= <- <-]; reflexivity.
    - intros [= <- <-]; reflexivity.
  Qed.
End AnyStream.
