(* SysModeProofs.v — proofs about SysMode.v: the core step does not depend on the mode for
   values below the threshold; observations are determined by the calls; the in-memory model
   emits no persistence event. *)
From Verif Require Import Bytes BytesProofs Keys Consts Spec Lsm Compact Iter Sys SysMode.
From Coq Require Import ZifyN ZifyNat ZifyBool.
Open Scope N_scope.

(* ---------- boolean equalities reflect Leibniz equality ---------- *)
Lemma entry_eqb_eq a b : entry_eqb a b = true -> a = b.
Proof.
  destruct a as [k v m u x w], b as [k' v' m' u' x' w']. unfold entry_eqb. cbn [e_key e_ver e_meta e_umeta e_exp e_val].
  intros H. repeat (apply andb_prop in H; destruct H as [H ?]).
  apply bytes_eqb_eq in H. apply bytes_eqb_eq in H0.
  apply N.eqb_eq in H1, H2, H3, H4. subst. reflexivity.
Qed.

Lemma entries_eqb_eq a : forall b, entries_eqb a b = true -> a = b.
Proof.
  induction a as [|x a IH]; intros [|y b] H; cbn in H; try discriminate; [reflexivity|].
  apply andb_prop in H. destruct H as [H1 H2]. apply entry_eqb_eq in H1. apply IH in H2. subst. reflexivity.
Qed.

Lemma getres_eqb_eq a b : getres_eqb a b = true -> a = b.
Proof.
  destruct a, b; cbn; intros H; try discriminate; [apply entry_eqb_eq in H | | apply N.eqb_eq in H]; subst; reflexivity.
Qed.

Definition dump_tables_eqb :=
  fix g (x : list table) (y : list (N * list entry)) : bool :=
    match x, y with
    | [], [] => true
    | t :: x', (i, es) :: y' => (t_id t =? i) && entries_eqb (t_ents t) es && g x' y'
    | _, _ => false
    end.

Lemma dump_tables_eqb_eq x : forall y, dump_tables_eqb x y = true -> y = map (fun t => (t_id t, t_ents t)) x.
Proof.
  induction x as [|t x IH]; intros [|[i es] y] H; cbn in H; try discriminate; [reflexivity|].
  apply andb_prop in H. destruct H as [H H3]. apply andb_prop in H. destruct H as [H1 H2].
  apply N.eqb_eq in H1. apply entries_eqb_eq in H2. apply IH in H3. subst. reflexivity.
Qed.

Lemma dump_eqb_eq ls : forall d, dump_eqb ls d = true -> d = map (map (fun t => (t_id t, t_ents t))) ls.
Proof.
  induction ls as [|l ls IH]; intros [|m d] H; cbn in H; try discriminate; [reflexivity|].
  apply andb_prop in H. destruct H as [H1 H2].
  change (dump_tables_eqb l m = true) in H1. apply dump_tables_eqb_eq in H1.
  change (dump_eqb ls d = true) in H2. apply IH in H2. subst. reflexivity.
Qed.

(* ---------- the invariant: pending writes of every transaction are below the threshold ---------- *)
Definition txn_within (thr : N) (x : txn) : bool :=
  forallb (fun ke => vlen (snd ke) <? thr) (x_pend x) && forallb (fun e => vlen e <? thr) (x_dups x).
Definition pend_within (thr : N) (s : sys) : bool :=
  forallb (fun tx => txn_within thr (snd tx)) (s_txns s).

Lemma forallb_update {A} (P : A -> bool) l i a :
  forallb (fun ja => P (snd ja)) l = true -> P a = true ->
  forallb (fun ja : N * A => P (snd ja)) (update l i a) = true.
Proof.
  induction l as [|[j b] l IH]; cbn; intros H Ha.
  - rewrite Ha. reflexivity.
  - apply andb_prop in H. destruct H as [H1 H2]. destruct (j =? i); cbn.
    + rewrite Ha, H2. reflexivity.
    + rewrite H1. cbn. apply IH; assumption.
Qed.

Lemma forallb_lookup {A} (P : A -> bool) l i a :
  forallb (fun ja : N * A => P (snd ja)) l = true -> lookup l i = Some a -> P a = true.
Proof.
  induction l as [|[j b] l IH]; cbn; intros H Hl; [discriminate|].
  apply andb_prop in H. destruct H as [H1 H2]. destruct (j =? i).
  - inversion Hl. subst. exact H1.
  - apply IH; assumption.
Qed.

Lemma forallb_kupdate (P : entry -> bool) l k a :
  forallb (fun ke => P (snd ke)) l = true -> P a = true ->
  forallb (fun ke : bytes * entry => P (snd ke)) (kupdate l k a) = true.
Proof.
  induction l as [|[j b] l IH]; cbn; intros H Ha.
  - rewrite Ha. reflexivity.
  - apply andb_prop in H. destruct H as [H1 H2]. destruct (bytes_eqb j k); cbn.
    + rewrite Ha, H2. reflexivity.
    + rewrite H1. cbn. apply IH; assumption.
Qed.

Lemma forallb_klookup (P : entry -> bool) l k a :
  forallb (fun ke : bytes * entry => P (snd ke)) l = true -> klookup l k = Some a -> P a = true.
Proof.
  induction l as [|[j b] l IH]; cbn; intros H Hl; [discriminate|].
  apply andb_prop in H. destruct H as [H1 H2]. destruct (bytes_eqb j k).
  - inversion Hl. subst. exact H1.
  - apply IH; assumption.
Qed.

Lemma txn_modify_within thr x e :
  txn_within thr x = true -> (vlen e <? thr) = true -> txn_within thr (snd (txn_modify x e)) = true.
Proof.
  intros Hx He. unfold txn_modify.
  destruct (negb (x_update x)); [exact Hx|]. destruct (x_done x); [exact Hx|].
  destruct (e_key e) eqn:Hk; [exact Hx|]. rewrite <- Hk.
  destruct (is_prefix c_badgerPrefix (e_key e)); [exact Hx|].
  unfold txn_within in *. cbn [snd x_pend x_dups]. apply andb_prop in Hx. destruct Hx as [Hp Hd].
  apply andb_true_intro. split.
  - apply (forallb_kupdate (fun e => vlen e <? thr)); assumption.
  - destruct (klookup (x_pend x) (e_key e)) as [old|] eqn:Hl; [|exact Hd].
    destruct (e_ver old =? e_ver e); [exact Hd|].
    rewrite forallb_app, Hd. cbn. rewrite (forallb_klookup (fun e => vlen e <? thr) _ _ _ Hp Hl). reflexivity.
Qed.

Lemma txn_get_within thr s x k : txn_within thr (snd (txn_get s x k)) = txn_within thr x.
Proof.
  unfold txn_get. destruct k; [reflexivity|]. destruct (x_done x); [reflexivity|].
  destruct (if x_update x then klookup (x_pend x) (n :: k) else None).
  - destruct (deleted_or_expired e (s_now s)); reflexivity.
  - destruct (db_get (s_db s) (n :: k) (x_read x)) as [e|]; [destruct (deleted_or_expired e (s_now s))|];
      cbn [snd]; destruct (x_update x); reflexivity.
Qed.

Lemma txn_commit_txns s t x cts :
  s_txns (snd (txn_commit s t x cts)) = s_txns s \/
  s_txns (snd (txn_commit s t x cts)) = update (s_txns s) t (discard_txn x).
Proof.
  unfold txn_commit. destruct (x_pend x); [right; reflexivity|].
  destruct (x_done x); [left; reflexivity|].
  destruct (s_detect s && has_conflict s x); right; reflexivity.
Qed.

Lemma pend_within_set_txn thr s t x :
  pend_within thr s = true -> txn_within thr x = true -> pend_within thr (set_txn s t x) = true.
Proof. intros H Hx. unfold pend_within, set_txn. cbn [s_txns]. apply (forallb_update (txn_within thr)); assumption. Qed.

Lemma step_within thr s b s' :
  pend_within thr s = true -> op_within thr (Base b) = true -> step s b = Ok s' -> pend_within thr s' = true.
Proof.
  intros Hs Hb Hst. destruct b; cbn [step] in Hst.
  - destruct (s_managed s || (rts =? s_next s - 1)); [|discriminate]. inversion Hst. subst.
    apply pend_within_set_txn; [assumption|reflexivity].
  - destruct (lookup (s_txns s) t) as [x|] eqn:Hl; [|discriminate].
    destruct (txn_modify x e) as [r' x'] eqn:Hm. destruct (r' =? r); [|discriminate]. inversion Hst. subst.
    apply pend_within_set_txn; [assumption|].
    replace x' with (snd (txn_modify x e)) by (rewrite Hm; reflexivity).
    apply txn_modify_within; [|exact Hb].
    exact (forallb_lookup (txn_within thr) _ _ _ Hs Hl).
  - destruct (lookup (s_txns s) t) as [x|] eqn:Hl; [|discriminate].
    destruct (txn_get s x k) as [r' x'] eqn:Hm. destruct (getres_eqb r' r); [|discriminate]. inversion Hst. subst.
    apply pend_within_set_txn; [assumption|].
    replace x' with (snd (txn_get s x k)) by (rewrite Hm; reflexivity).
    rewrite txn_get_within. exact (forallb_lookup (txn_within thr) _ _ _ Hs Hl).
  - destruct (lookup (s_txns s) t) as [x|] eqn:Hl; [|discriminate].
    destruct (entries_eqb (txn_iterate s x o seek) items); [|discriminate]. inversion Hst. subst.
    apply pend_within_set_txn; [assumption|].
    pose proof (forallb_lookup (txn_within thr) _ _ _ Hs Hl) as Hx.
    destruct (x_update x); exact Hx.
  - destruct (lookup (s_txns s) t) as [x|] eqn:Hl; [|discriminate].
    destruct (txn_commit s t x cts) as [[r' ts] s1] eqn:Hc.
    destruct ((r' =? r) && (negb (r' =? 0) || (ts =? 0) || (ts =? cts))); [|discriminate]. inversion Hst. subst.
    pose proof (txn_commit_txns s t x cts) as Ht. rewrite Hc in Ht. cbn [snd] in Ht.
    unfold pend_within. destruct Ht as [Ht|Ht]; rewrite Ht; [exact Hs|].
    apply (forallb_update (txn_within thr)); [exact Hs|].
    exact (forallb_lookup (txn_within thr) _ _ _ Hs Hl).
  - destruct (lookup (s_txns s) t) as [x|] eqn:Hl; [|discriminate]. inversion Hst. subst.
    apply pend_within_set_txn; [assumption|].
    exact (forallb_lookup (txn_within thr) _ _ _ Hs Hl).
  - inversion Hst. subst. exact Hs.
  - destruct (negb (pick_check (l_levels (s_db s)) c =? 0)); [discriminate|].
    destruct (entries_eqb _ out); [|discriminate].
    destruct (sorted_by_smallest _ || _); [|discriminate]. inversion Hst. subst. exact Hs.
  - inversion Hst. subst. exact Hs.
  - inversion Hst. subst. exact Hs.
  - destruct (dump_eqb _ _); [|discriminate]. inversion Hst. subst. exact Hs.
  - destruct (max_version _ =? v); [|discriminate]. inversion Hst. subst. exact Hs.
Qed.

(* ---------- the core step: invariant, mode independence ---------- *)
Definition cI (thr : N) : mcfg := mkMC true thr.
Definition cD (thr : N) : mcfg := mkMC false thr.

Lemma sstep_within c thr s o s' :
  pend_within thr s = true -> op_within thr o = true -> sstep c s o = SOk s' -> pend_within thr s' = true.
Proof.
  intros Hs Ho Hst. destruct o as [b| |a b' d]; cbn [sstep] in Hst.
  - destruct b; try (unfold of_result in Hst;
      match type of Hst with context [step ?s ?b] => destruct (step s b) eqn:Hb end; [|discriminate];
      inversion Hst; subst; eapply step_within; eassumption).
    + destruct (lookup (s_txns s) t) as [x|] eqn:Hl; [|discriminate].
      destruct (mc_inmem c && (fst (txn_modify x e) =? 0) && (mc_thr c <? vlen e)).
      * destruct (r =? c_errTooBig); [|discriminate]. inversion Hst. subst. exact Hs.
      * unfold of_result in Hst. destruct (step s (Modify t e r)) eqn:Hb; [|discriminate].
        inversion Hst. subst. eapply step_within; eassumption.
    + destruct (step s (Commit t cts r)) eqn:Hb; [|discriminate].
      destruct (existsb (panics c) (commit_applies s t cts)); [discriminate|].
      inversion Hst. subst. eapply step_within; eassumption.
  - inversion Hst. subst. exact Hs.
  - inversion Hst. subst. exact Hs.
Qed.

Lemma stamp_vlen ts e : vlen (stamp ts e) = vlen e.
Proof. unfold stamp. destruct (e_ver e =? 0); reflexivity. Qed.

Lemma commit_entries_within thr x ts :
  txn_within thr x = true -> forallb (fun e => vlen e <? thr) (commit_entries x ts) = true.
Proof.
  unfold txn_within, commit_entries. intros H. apply andb_prop in H. destruct H as [Hp Hd].
  rewrite forallb_app. apply andb_true_intro. split.
  - clear Hp. induction (x_dups x) as [|e l IH]; [reflexivity|]. cbn in *.
    apply andb_prop in Hd. destruct Hd as [H1 H2]. rewrite stamp_vlen, H1. cbn. apply IH. exact H2.
  - clear Hd. induction (x_pend x) as [|[k e] l IH]; [reflexivity|]. cbn in *.
    apply andb_prop in Hp. destruct Hp as [H1 H2]. rewrite stamp_vlen, H1. cbn. apply IH. exact H2.
Qed.

Lemma commit_applies_within thr s t cts :
  pend_within thr s = true -> forallb (fun e => vlen e <? thr) (commit_applies s t cts) = true.
Proof.
  intros Hs. unfold commit_applies. destruct (lookup (s_txns s) t) as [x|] eqn:Hl; [|reflexivity].
  destruct (txn_commit s t x cts) as [[r' ts] s1]. destruct (r' =? 0); [|reflexivity].
  destruct (x_pend x) eqn:Hp; [reflexivity|]. clear Hp.
  apply commit_entries_within. exact (forallb_lookup (txn_within thr) _ _ _ Hs Hl).
Qed.

Lemma no_panic_inmem thr es :
  forallb (fun e => vlen e <? thr) es = true -> existsb (panics (cI thr)) es = false.
Proof.
  induction es as [|e es IH]; cbn; intros H; [reflexivity|]. apply andb_prop in H. destruct H as [H1 H2].
  rewrite (IH H2). unfold panics, placement. cbn [mc_thr cI]. rewrite H1. reflexivity.
Qed.

Lemma no_panic_disk thr es : existsb (panics (cD thr)) es = false.
Proof.
  induction es as [|e es IH]; cbn; [reflexivity|]. rewrite IH. unfold panics, placement. cbn [mc_thr mc_inmem cD].
  destruct (vlen e <? thr); reflexivity.
Qed.

(* for values below the in-memory limit the two modes take the same step on the core state,
   whatever the on-disk threshold is *)
Lemma sstep_indep thrI thrD s o :
  pend_within thrI s = true -> op_within thrI o = true -> sstep (cI thrI) s o = sstep (cD thrD) s o.
Proof.
  intros Hs Ho. destruct o as [b| |a b' d]; [|reflexivity|reflexivity].
  destruct b; try reflexivity; cbn [sstep].
  - destruct (lookup (s_txns s) t) as [x|]; [|reflexivity]. cbn [mc_inmem mc_thr cI cD andb].
    cbn [op_within] in Ho. replace (thrI <? vlen e) with false by lia. rewrite andb_false_r. reflexivity.
  - destruct (step s (Commit t cts r)); [|reflexivity].
    rewrite no_panic_disk, (no_panic_inmem thrI _ (commit_applies_within thrI s t cts Hs)). reflexivity.
Qed.

Fixpoint sexec (c : mcfg) (s : sys) (ops : list xop) (i : N) : option (N * N) * sys :=
  match ops with
  | [] => (None, s)
  | o :: r => match sstep c s o with
              | SOk s' => sexec c s' r (i + 1)
              | SBad code => (Some (i, code), s)
              | SPanic => (Some (i, 999), s)
              end
  end.

Theorem sexec_indep thrI thrD ops : forall s i,
  pend_within thrI s = true -> within thrI ops = true ->
  sexec (cI thrI) s ops i = sexec (cD thrD) s ops i.
Proof.
  induction ops as [|o ops IH]; intros s i Hs Hw; [reflexivity|].
  cbn in Hw. apply andb_prop in Hw. destruct Hw as [Ho Hw]. cbn [sexec].
  rewrite <- (sstep_indep thrI thrD s o Hs Ho).
  destruct (sstep (cI thrI) s o) eqn:Hst; try reflexivity.
  apply IH; [|exact Hw]. eapply sstep_within; eassumption.
Qed.

(* the full model's replay projects onto the core replay when it accepts *)
Lemma mexec_accept c ops : forall m i,
  fst (mexec c m ops i) = None ->
  sexec c (m_sys m) ops i = (None, m_sys (snd (mexec c m ops i))).
Proof.
  induction ops as [|o ops IH]; intros m i H; [reflexivity|]. cbn [mexec sexec] in *.
  unfold mstep in *. destruct (sstep c (m_sys m) o) eqn:Hst; try discriminate.
  destruct (files_ok c m o); [|discriminate]. exact (IH _ _ H).
Qed.

(* without directory-listing labels the two replays agree on rejections as well *)
Definition no_files (ops : list xop) : bool :=
  forallb (fun o => match o with Files _ _ _ => false | _ => true end) ops.

Lemma mexec_sexec c ops : forall m i, no_files ops = true ->
  fst (mexec c m ops i) = fst (sexec c (m_sys m) ops i) /\
  m_sys (snd (mexec c m ops i)) = snd (sexec c (m_sys m) ops i).
Proof.
  induction ops as [|o ops IH]; intros m i H; [split; reflexivity|]. cbn in H. apply andb_prop in H. destruct H as [Ho H].
  cbn [mexec sexec]. unfold mstep. destruct (sstep c (m_sys m) o) eqn:Hst; try (split; reflexivity).
  replace (files_ok c m o) with true by (destruct o; [reflexivity|reflexivity|discriminate]).
  apply (IH (mkM s (next_wal m o) (next_vlog m o) (m_ev m ++ evs c (label_events c m o))) (i + 1) H).
Qed.

(* ---------- C37_no_events ---------- *)
Theorem inmem_no_events thr ops : forall m i,
  m_ev m = [] -> m_ev (snd (mexec (cI thr) m ops i)) = [].
Proof.
  induction ops as [|o ops IH]; intros m i H; [exact H|]. cbn [mexec]. unfold mstep.
  destruct (sstep (cI thr) (m_sys m) o); try exact H.
  destruct (files_ok (cI thr) m o); [|exact H].
  apply IH. cbn [m_ev evs mc_inmem cI]. rewrite H. reflexivity.
Qed.

Lemma init_inmem_no_events thr managed detect nkeep nlevels next :
  m_ev (init_msys (cI thr) managed detect nkeep nlevels next) = [].
Proof. reflexivity. Qed.

(* ---------- observations are determined by the calls ---------- *)
Lemma txn_commit_unmanaged s t x c c' : s_managed s = false -> txn_commit s t x c = txn_commit s t x c'.
Proof. intros H. unfold txn_commit. rewrite H. reflexivity. Qed.

Lemma step_det s a b s1 s2 :
  same_call (s_managed s) (Base a) (Base b) -> step s a = Ok s1 -> step s b = Ok s2 ->
  s1 = s2 /\ same_obs (Base a) (Base b).
Proof.
  intros Hc H1 H2. inversion Hc; subst; cbn [step same_obs] in *.
  - destruct (s_managed s) eqn:Hm; cbn [orb] in *.
    + match goal with H : true = true -> _ |- _ => rewrite (H eq_refl) in * end.
      rewrite H1 in H2. inversion H2. split; reflexivity.
    + destruct (r =? s_next s - 1) eqn:E1; [|discriminate]. destruct (r' =? s_next s - 1) eqn:E2; [|discriminate].
      apply N.eqb_eq in E1, E2. subst. rewrite H1 in H2. inversion H2. split; reflexivity.
  - destruct (lookup (s_txns s) t) as [x|]; [|discriminate]. destruct (txn_modify x e) as [r0 x'].
    destruct (r0 =? r) eqn:E1; [|discriminate]. destruct (r0 =? r') eqn:E2; [|discriminate].
    apply N.eqb_eq in E1, E2. subst. rewrite H1 in H2. inversion H2. split; reflexivity.
  - destruct (lookup (s_txns s) t) as [x|]; [|discriminate]. destruct (txn_get s x k) as [r0 x'].
    destruct (getres_eqb r0 r) eqn:E1; [|discriminate]. destruct (getres_eqb r0 r') eqn:E2; [|discriminate].
    apply getres_eqb_eq in E1, E2. subst. rewrite H1 in H2. inversion H2. split; reflexivity.
  - destruct (lookup (s_txns s) t) as [x|]; [|discriminate].
    destruct (entries_eqb (txn_iterate s x o sk) i) eqn:E1; [|discriminate].
    destruct (entries_eqb (txn_iterate s x o sk) i') eqn:E2; [|discriminate].
    apply entries_eqb_eq in E1, E2. subst. rewrite H1 in H2. inversion H2. split; reflexivity.
  - destruct (lookup (s_txns s) t) as [x|]; [|discriminate].
    assert (Ht : txn_commit s t x c = txn_commit s t x c').
    { destruct (s_managed s) eqn:Hm; [match goal with H : true = true -> _ |- _ => rewrite (H eq_refl) end; reflexivity | apply txn_commit_unmanaged; exact Hm]. }
    rewrite <- Ht in H2. destruct (txn_commit s t x c) as [[r0 ts] s'].
    destruct ((r0 =? r) && _) eqn:E1; [|discriminate]. destruct ((r0 =? r') && _) eqn:E2; [|discriminate].
    apply andb_prop in E1, E2. destruct E1 as [E1 _]. destruct E2 as [E2 _]. apply N.eqb_eq in E1, E2. subst.
    inversion H1. inversion H2. subst. split; reflexivity.
  - rewrite H1 in H2. inversion H2. split; [reflexivity|exact I].
  - rewrite H1 in H2. inversion H2. split; [reflexivity|exact I].
  - destruct (negb (pick_check (l_levels (s_db s)) c =? 0)); [discriminate|].
    destruct (entries_eqb _ o) eqn:E1; [|discriminate]. destruct (entries_eqb _ o') eqn:E2; [|discriminate].
    apply entries_eqb_eq in E1, E2. subst. rewrite H1 in H2. inversion H2. split; reflexivity.
  - rewrite H1 in H2. inversion H2. split; [reflexivity|exact I].
  - rewrite H1 in H2. inversion H2. split; [reflexivity|exact I].
  - destruct (dump_eqb _ d) eqn:E1; [|discriminate]. destruct (dump_eqb _ d') eqn:E2; [|discriminate].
    apply dump_eqb_eq in E1, E2. subst. inversion H1. inversion H2. subst. split; reflexivity.
  - destruct (max_version _ =? v) eqn:E1; [|discriminate]. destruct (max_version _ =? v') eqn:E2; [|discriminate].
    apply N.eqb_eq in E1, E2. subst. inversion H1. inversion H2. subst. split; reflexivity.
Qed.

Lemma sstep_det c s a b s1 s2 :
  same_call (s_managed s) a b -> sstep c s a = SOk s1 -> sstep c s b = SOk s2 ->
  s1 = s2 /\ same_obs a b.
Proof.
  intros Hc H1 H2.
  assert (Hbase : forall x y, a = Base x -> b = Base y ->
            of_result (step s x) = SOk s1 -> of_result (step s y) = SOk s2 -> s1 = s2 /\ same_obs a b).
  { intros x y -> -> Hx Hy. unfold of_result in *.
    destruct (step s x) eqn:Ex; [|discriminate]. destruct (step s y) eqn:Ey; [|discriminate].
    inversion Hx. inversion Hy. subst. eapply step_det; eassumption. }
  inversion Hc; subst; cbn [sstep] in H1, H2;
    try (eapply Hbase; [reflexivity|reflexivity|exact H1|exact H2]).
  - (* Modify *)
    destruct (lookup (s_txns s) t) as [x|]; [|discriminate].
    destruct (mc_inmem c && (fst (txn_modify x e) =? 0) && (mc_thr c <? vlen e)).
    + destruct (r =? c_errTooBig) eqn:E1; [|discriminate]. destruct (r' =? c_errTooBig) eqn:E2; [|discriminate].
      apply N.eqb_eq in E1, E2. inversion H1. inversion H2. subst. split; reflexivity.
    + eapply Hbase; [reflexivity|reflexivity|exact H1|exact H2].
  - (* Commit *)
    destruct (step s (Commit t c0 r)) eqn:Ex; [|discriminate]. destruct (step s (Commit t c' r')) eqn:Ey; [|discriminate].
    destruct (existsb _ _); [discriminate|]. destruct (existsb _ _); [discriminate|].
    inversion H1. inversion H2. subst. eapply step_det; eassumption.
  - inversion H1. inversion H2. subst. split; [reflexivity|exact I].
  - inversion H1. inversion H2. subst. split; [reflexivity|exact I].
Qed.

Lemma txn_commit_managed s t x cts : s_managed (snd (txn_commit s t x cts)) = s_managed s.
Proof.
  unfold txn_commit. destruct (x_pend x); [reflexivity|]. destruct (x_done x); [reflexivity|].
  destruct (s_detect s && has_conflict s x); reflexivity.
Qed.

Lemma step_managed s b s' : step s b = Ok s' -> s_managed s' = s_managed s.
Proof.
  intros H. destruct b; cbn [step] in H.
  - destruct (_ || _); [|discriminate]. inversion H. reflexivity.
  - destruct (lookup _ _); [|discriminate]. destruct (txn_modify _ _). destruct (_ =? _); [|discriminate]. inversion H. reflexivity.
  - destruct (lookup _ _); [|discriminate]. destruct (txn_get _ _ _). destruct (getres_eqb _ _); [|discriminate]. inversion H. reflexivity.
  - destruct (lookup _ _); [|discriminate]. destruct (entries_eqb _ _); [|discriminate]. inversion H. reflexivity.
  - destruct (lookup (s_txns s) t) as [x|]; [|discriminate].
    pose proof (txn_commit_managed s t x cts) as Hm. destruct (txn_commit s t x cts) as [[r0 ts] s1].
    destruct (_ && _); [|discriminate]. inversion H. subst. exact Hm.
  - destruct (lookup _ _); [|discriminate]. inversion H. reflexivity.
  - inversion H. reflexivity.
  - destruct (negb _); [discriminate|]. destruct (entries_eqb _ _); [|discriminate].
    destruct (_ || _); [|discriminate]. inversion H. reflexivity.
  - inversion H. reflexivity.
  - inversion H. reflexivity.
  - destruct (dump_eqb _ _); [|discriminate]. inversion H. reflexivity.
  - destruct (_ =? _); [|discriminate]. inversion H. reflexivity.
Qed.

Lemma sstep_managed c s o s' : sstep c s o = SOk s' -> s_managed s' = s_managed s.
Proof.
  intros H. destruct o as [b| |x y z]; cbn [sstep] in H; [|inversion H; reflexivity|inversion H; reflexivity].
  assert (Hb : forall b', of_result (step s b') = SOk s' -> s_managed s' = s_managed s).
  { intros b' Hx. unfold of_result in Hx. destruct (step s b') eqn:E; [|discriminate]. inversion Hx. subst. eapply step_managed; eassumption. }
  destruct b; try (eapply Hb; exact H).
  - destruct (lookup _ _); [|discriminate]. destruct (_ && _ && _).
    + destruct (_ =? _); [|discriminate]. inversion H. reflexivity.
    + eapply Hb; exact H.
  - destruct (step s (Commit t cts r)) eqn:E; [|discriminate]. destruct (existsb _ _); [discriminate|].
    inversion H. subst. eapply step_managed; eassumption.
Qed.

Theorem sexec_det c opsA : forall opsB s i j sA sB,
  Forall2 (same_call (s_managed s)) opsA opsB ->
  sexec c s opsA i = (None, sA) -> sexec c s opsB j = (None, sB) ->
  Forall2 same_obs opsA opsB /\ sA = sB.
Proof.
  induction opsA as [|a A IH]; intros opsB s i j sA sB Hc HA HB; inversion Hc; subst.
  - cbn in HA, HB. inversion HA. inversion HB. subst. split; [constructor|reflexivity].
  - cbn [sexec] in HA, HB.
    destruct (sstep c s a) eqn:Ea; try discriminate. destruct (sstep c s y) eqn:Eb; try discriminate.
    destruct (sstep_det c s a y _ _ H1 Ea Eb) as [-> Ho].
    pose proof (sstep_managed _ _ _ _ Eb) as Hm. rewrite <- Hm in H3.
    destruct (IH _ _ _ _ _ _ H3 HA HB) as [Hos ->]. split; [constructor; assumption|reflexivity].
Qed.

Lemma same_call_within thr m a b : same_call m a b -> op_within thr a = op_within thr b.
Proof. intros H. inversion H; reflexivity. Qed.

Lemma same_calls_within thr m A : forall B, Forall2 (same_call m) A B -> within thr A = within thr B.
Proof.
  induction A as [|a A IH]; intros B H; inversion H; subst; [reflexivity|].
  unfold within in *. cbn [forallb]. rewrite (same_call_within thr m a y H2), (IH _ H4). reflexivity.
Qed.

(* ---------- C37_same_obs ---------- *)
Theorem same_obs_two_runs thrD thrI opsD opsI mD mI :
  obs mD = obs mI -> pend_within thrI (obs mI) = true ->
  Forall2 (same_call (s_managed (obs mD))) opsD opsI -> within thrI opsD = true ->
  fst (mexec (cD thrD) mD opsD 0) = None -> fst (mexec (cI thrI) mI opsI 0) = None ->
  Forall2 same_obs opsD opsI /\
  obs (snd (mexec (cD thrD) mD opsD 0)) = obs (snd (mexec (cI thrI) mI opsI 0)).
Proof.
  unfold obs. intros Heq Hp Hc Hw HD HI.
  apply mexec_accept in HD. apply mexec_accept in HI.
  rewrite (same_calls_within thrI _ _ _ Hc) in Hw.
  rewrite (sexec_indep thrI thrD opsI _ 0 Hp Hw) in HI. rewrite <- Heq in HI.
  destruct (sexec_det _ _ _ _ _ _ _ _ Hc HD HI) as [Ho Hs]. split; assumption.
Qed.

(* one label list: the in-memory model and the on-disk model stop at the same label with the
   same code, or both accept and reach the same core state *)
Theorem same_obs_one_run thrD thrI ops mD mI i :
  obs mD = obs mI -> pend_within thrI (obs mI) = true -> within thrI ops = true -> no_files ops = true ->
  fst (mexec (cI thrI) mI ops i) = fst (mexec (cD thrD) mD ops i) /\
  obs (snd (mexec (cI thrI) mI ops i)) = obs (snd (mexec (cD thrD) mD ops i)).
Proof.
  unfold obs. intros Heq Hp Hw Hn.
  destruct (mexec_sexec (cI thrI) ops mI i Hn) as [A1 A2]. destruct (mexec_sexec (cD thrD) ops mD i Hn) as [B1 B2].
  rewrite A1, A2, B1, B2, Heq. rewrite (sexec_indep thrI thrD ops _ i Hp Hw). split; reflexivity.
Qed.

(* the guard `within` is tight *)
Lemma limit_is_tight :
  let v := repeat 7 8 in
  let ops r := [Base (Begin 0 true 0); Base (Modify 0 (mkE [1] 0 0 0 0 v) r); Base (Commit 0 1 0)] in
  fst (mexec (cD 4) (init_msys (cD 4) false true 1 4 1) (ops 0) 0) = None /\
  fst (mexec (cI 8) (init_msys (cI 8) false true 1 4 1) (ops 0) 0) = Some (2, 999) /\
  fst (mexec (cI 7) (init_msys (cI 7) false true 1 4 1) (ops c_errTooBig) 0) = None /\
  fst (mexec (cI 7) (init_msys (cI 7) false true 1 4 1) (ops 0) 0) = Some (1, 1).
Proof. vm_compute. repeat split; reflexivity. Qed.
