(* WalOpen.v — Open of a directory that was NOT closed (crash): the replay of the memtable WALs
   and the value the timestamp oracle restarts with.  Definitions only (proofs: WalOpenProofs.v).

   memtable.go openMemTables():  every NNNNN.mem of the directory, in ascending file id order, is
     opened by openMemTable, which replays it (memTable.UpdateSkipList -> logFile.iterate(true, 0,
     mt.replayFunction(opt))) and truncates it after the last complete transaction; a memtable
     whose skiplist is empty after the replay is dropped, the others are appended to db.imm.
   memtable.go logFile.iterate(): hands the entries of complete transactions (and entries
     without transaction marks: Load, WriteBatch.SetEntryAt, value-log GC rewrites, BanNamespace)
     to the replay function IN FILE ORDER; the end-of-transaction records are not handed over.
     Which records are complete is C10's subject; here the delivered sequence is the input.
   memtable.go replayFunction():
         if ts := y.ParseTs(e.Key); ts > mt.maxVersion { mt.maxVersion = ts }
         mt.sl.Put(e.Key, v)
     i.e. a running maximum folded over the entries in WAL order.  Nothing orders the versions of
     a WAL: managed-mode commits (Txn.CommitAt) and WriteBatch.SetEntryAt carry the caller's
     timestamps, DB.Load writes a backup in key order, the value-log GC writes old versions again,
     BanNamespace writes at version 1.
   table/builder.go addHelper():  `if version > b.maxVersion { b.maxVersion = version }` over the
     keys added; stored in the table index (TableInfo.MaxVersion).
   db.go Open():  openMemTables; a fresh active memtable (maxVersion 0); newLevelsController (level
     0 sorted by file id); the recovered memtables are pushed to the flusher (which turns them
     into L0 tables concurrently: the versions stored do not change);
         db.orc.nextTxnTs = db.MaxVersion(); ...; db.orc.incrementNextTs()
   db.go MaxVersion():  `update := func(a) { if a > maxVersion { maxVersion = a } }` applied to
     db.mt.maxVersion, every db.imm[i].maxVersion, every table's MaxVersion (db.Tables(): level by
     level, tables in level order). *)
From Verif Require Import Bytes Keys Consts Spec Lsm Compact Iter Sys SysReopen.
Open Scope N_scope.

(* `if a > m { m = a }` *)
Definition upd_max (m a : N) : N := if m <? a then a else m.

(* replayFunction folded by logFile.iterate over the delivered entries, in WAL order *)
Definition replay_max (wal : list entry) : N := fold_left (fun m e => upd_max m (e_ver e)) wal 0.
Definition replay_sl (wal : list entry) : src := fold_left mt_put wal [].

(* a recovered memtable: skiplist + maxVersion *)
Record rmem := mkRM { rm_sl : src; rm_max : N }.
Definition replay_wal (wal : list entry) : rmem := mkRM (replay_sl wal) (replay_max wal).

Definition sl_empty (s : src) : bool := match s with [] => true | _ => false end.

(* openMemTables: wals = the delivered entries of each .mem file, ascending file id *)
Definition open_imms (wals : list (list entry)) : list rmem :=
  filter (fun m => negb (sl_empty (rm_sl m))) (map replay_wal wals).

(* table.MaxVersion() *)
Definition table_max (t : table) : N := fold_left (fun m e => upd_max m (e_ver e)) (t_ents t) 0.

(* DB.MaxVersion() *)
Definition db_max_version (mt_max : N) (imms : list rmem) (levels : list (list table)) : N :=
  fold_left upd_max (map table_max (concat levels))
    (fold_left upd_max (map rm_max imms) (upd_max 0 mt_max)).

(* the DB as Open leaves it: no active entries, the recovered memtables (oldest first), the
   tables of the MANIFEST with level 0 ordered by file id *)
Definition crash_open_db (wals : list (list entry)) (levels : list (list table)) : lsm :=
  mkLsm [] (map rm_sl (open_imms wals)) (open_levels levels).

(* nextTxnTs after Open *)
Definition crash_open_next (wals : list (list entry)) (levels : list (list table)) : N :=
  db_max_version 0 (open_imms wals) (open_levels levels) + 1.

(* the system after Open: a new oracle, no transactions *)
Definition crash_open_sys (managed detect : bool) (nkeep now : N)
    (wals : list (list entry)) (levels : list (list table)) : sys :=
  mkSys (crash_open_db wals levels) (crash_open_next wals levels) [] [] managed detect nkeep 0 [] now.

Definition tables_of_dump (d : list (list (N * list entry))) : list (list table) :=
  map (map (fun p => mkT (fst p) (snd p))) d.
