(* StreamWriterProofs.v — proofs about StreamWriter.v: demultiplexing keeps every stream's
   entries in order, the per-stream order check makes every table sorted, table cuts lose
   nothing, sortTables is a permutation, validate implies a sorted and disjoint level, the
   tree after Flush holds exactly the prepared tree plus the streamed entries, the next
   timestamp is above every streamed version. *)
From Verif Require Import Bytes BytesProofs Keys C20Proofs Consts Spec Lsm Compact Iter Sys
     LsmProofs CompactProofs GetProofs MergeProofs C12Proofs Drop DropProofs StreamWriter.
From Coq Require Import ZifyN ZifyNat ZifyBool Sorting.Sorted.
Open Scope N_scope.

(* the entries streamed for stream sid / for all streams, in arrival order *)
Definition stream_ents (sid : N) (items : list sitem) : list entry :=
  flat_map (fun it => match it with SKV j e => if j =? sid then [e] else [] | SDone _ => [] end) items.
Definition all_skv (items : list sitem) : list entry :=
  flat_map (fun it => match it with SKV _ e => [e] | SDone _ => [] end) items.

Fixpoint rents (reqs : list (N * list entry)) (sid : N) : list entry :=
  match reqs with [] => [] | (j, es) :: r => if j =? sid then es else rents r sid end.
Definition wents (ws : list (N * swriter)) (sid : N) : list entry :=
  match wlookup ws sid with Some w => w_ents w | None => [] end.

(* ---- A. demultiplexing ---- *)
Lemma rents_radd reqs sid e j :
  rents (radd reqs sid e) j = if j =? sid then rents reqs sid ++ [e] else rents reqs j.
Proof.
  induction reqs as [|[i es] r IH]; cbn [radd rents].
  - rewrite (N.eqb_sym sid j). destruct (j =? sid); reflexivity.
  - destruct (i =? sid) eqn:E1; cbn [rents].
    + apply N.eqb_eq in E1. subst i. destruct (j =? sid) eqn:E2.
      * apply N.eqb_eq in E2. subst j. now rewrite N.eqb_refl.
      * rewrite (N.eqb_sym sid j), E2. reflexivity.
    + destruct (i =? j) eqn:E3.
      * apply N.eqb_eq in E3. subst j. rewrite E1. reflexivity.
      * exact IH.
Qed.

Lemma radd_keys_nodup reqs sid e : NoDup (map fst reqs) -> NoDup (map fst (radd reqs sid e)).
Proof.
  induction reqs as [|[i es] r IH]; cbn [radd map fst]; intros H.
  - repeat constructor. intros [].
  - destruct (i =? sid) eqn:E; cbn [map fst]; auto.
    inversion H as [|? ? Hn Hr]; subst. constructor; auto.
    intros Hin. apply Hn. clear -Hin E.
    induction r as [|[a b] r IH]; cbn [radd map fst] in *.
    + destruct Hin as [Hin|[]]. subst. rewrite N.eqb_refl in E. discriminate.
    + destruct (a =? sid); cbn [map fst] in *; destruct Hin as [Hin|Hin]; [now left|now right|now left|right; auto].
Qed.

Lemma demux_spec items closed reqs maxv closed' reqs' maxv' :
  demux items closed reqs maxv = Some (closed', reqs', maxv') ->
  (forall sid, rents reqs' sid = rents reqs sid ++ stream_ents sid items)
  /\ (NoDup (map fst reqs) -> NoDup (map fst reqs'))
  /\ maxv <= maxv' /\ (forall e, In e (all_skv items) -> e_ver e <= maxv').
Proof.
  revert closed reqs maxv. induction items as [|it items IH]; intros closed reqs maxv; cbn [demux].
  - intros [= <- <- <-]. repeat split; auto; [intros; now rewrite app_nil_r|lia|intros e []].
  - destruct it as [sid e|sid].
    + destruct (mem_n sid closed); [discriminate|]. intros H. apply IH in H.
      destruct H as (A & B & C & D). repeat split.
      * intros j. rewrite A, rents_radd. unfold stream_ents at 2. cbn [flat_map]. fold (stream_ents j items).
        rewrite (N.eqb_sym sid j). destruct (j =? sid) eqn:Ej.
        -- apply N.eqb_eq in Ej. subst j. now rewrite <- app_assoc.
        -- reflexivity.
      * intros Hn. apply B. now apply radd_keys_nodup.
      * lia.
      * intros x [<-|Hx]; [lia|auto].
    + intros H. apply IH in H. exact H.
Qed.

(* ---- B. the writers ---- *)
Lemma wlookup_wupdate_same ws sid w : wlookup (wupdate ws sid w) sid = Some w.
Proof.
  induction ws as [|[j x] r IH]; cbn [wupdate wlookup]; [now rewrite N.eqb_refl|].
  destruct (j =? sid) eqn:E; cbn [wlookup]; [now rewrite N.eqb_refl|now rewrite E].
Qed.

Lemma wlookup_wupdate_other ws sid w j : j <> sid -> wlookup (wupdate ws sid w) j = wlookup ws j.
Proof.
  intros Hne. induction ws as [|[i x] r IH]; cbn [wupdate wlookup].
  - assert (E: (sid =? j) = false) by (apply N.eqb_neq; congruence). now rewrite E.
  - destruct (i =? sid) eqn:E; cbn [wlookup].
    + apply N.eqb_eq in E. subst i. assert (E2: (sid =? j) = false) by (apply N.eqb_neq; congruence). now rewrite E2.
    + now rewrite IH.
Qed.

Lemma wents_wupdate ws sid w j :
  wents (wupdate ws sid w) j = if j =? sid then w_ents w else wents ws j.
Proof.
  unfold wents. destruct (j =? sid) eqn:E.
  - apply N.eqb_eq in E. subst j. now rewrite wlookup_wupdate_same.
  - apply N.eqb_neq in E. now rewrite wlookup_wupdate_other.
Qed.

Lemma send_reqs_ents ws reqs ws' :
  send_reqs ws reqs = Some ws' -> NoDup (map fst reqs) ->
  forall sid, wents ws' sid = wents ws sid ++ rents reqs sid.
Proof.
  revert ws. induction reqs as [|[j es] r IH]; intros ws; cbn [send_reqs].
  - intros [= <-] _ sid. now rewrite app_nil_r.
  - intros H Hnd sid. inversion Hnd as [|? ? Hn Hr]; subst.
    assert (Hrj: rents r j = []).
    { clear -Hn. induction r as [|[a b] r IH]; cbn [rents map fst] in *; auto.
      destruct (a =? j) eqn:E; [apply N.eqb_eq in E; subst; exfalso; apply Hn; now left|].
      apply IH. intros Hin. apply Hn. now right. }
    destruct (wlookup ws j) as [w|] eqn:Ew.
    + destruct (w_closed w); [discriminate|].
      destruct (add_all (last_ent (w_ents w)) es); [|discriminate].
      rewrite (IH _ H Hr), wents_wupdate. cbn [rents w_ents].
      destruct (j =? sid) eqn:E.
      * apply N.eqb_eq in E. subst sid. rewrite N.eqb_refl, Hrj, app_nil_r.
        unfold wents. now rewrite Ew.
      * rewrite (N.eqb_sym sid j), E. reflexivity.
    + destruct (add_all None es); [|discriminate].
      rewrite (IH _ H Hr), wents_wupdate. cbn [rents w_ents].
      destruct (j =? sid) eqn:E.
      * apply N.eqb_eq in E. subst sid. rewrite N.eqb_refl, Hrj, app_nil_r.
        unfold wents. now rewrite Ew.
      * rewrite (N.eqb_sym sid j), E. reflexivity.
Qed.

Lemma close_streams_ents ws closed sid : wents (close_streams ws closed) sid = wents ws sid.
Proof.
  revert ws. induction closed as [|c r IH]; intros ws; cbn [close_streams]; auto.
  destruct (wlookup ws c) as [w|] eqn:E; rewrite IH; auto.
  rewrite wents_wupdate. destruct (sid =? c) eqn:E2; auto.
  apply N.eqb_eq in E2. subst c. unfold wents. now rewrite E.
Qed.

(* C26, per stream: a Write call appends to every stream exactly its items, in buffer order *)
Theorem sw_write_ents st items st' :
  sw_write st items = Some st' ->
  forall sid, wents (sw_writers st') sid = wents (sw_writers st) sid ++ stream_ents sid items.
Proof.
  unfold sw_write. destruct items as [|it items]; [intros [= <-] sid; now rewrite app_nil_r|].
  destruct (demux (it :: items) [] [] (sw_max st)) as [[[closed reqs] maxv]|] eqn:Ed; [|discriminate].
  destruct (send_reqs (sw_writers st) reqs) as [ws|] eqn:Es; [|discriminate].
  intros [= <-] sid. cbn [sw_writers]. rewrite close_streams_ents.
  apply demux_spec in Ed. destruct Ed as (A & B & _).
  rewrite (send_reqs_ents _ _ _ Es (B (NoDup_nil _))), A. reflexivity.
Qed.

Lemma stream_ents_app sid a b : stream_ents sid (a ++ b) = stream_ents sid a ++ stream_ents sid b.
Proof. unfold stream_ents. apply flat_map_app. Qed.

Theorem sw_writes_ents st writes st' :
  sw_writes st writes = Some st' ->
  forall sid, wents (sw_writers st') sid = wents (sw_writers st) sid ++ stream_ents sid (concat writes).
Proof.
  revert st. induction writes as [|w r IH]; intros st; cbn [sw_writes concat].
  - intros [= <-] sid. now rewrite app_nil_r.
  - destruct (sw_write st w) as [st1|] eqn:E; [|discriminate]. intros H sid.
    rewrite (IH _ H), (sw_write_ents _ _ _ E), stream_ents_app, app_assoc. reflexivity.
Qed.

(* ---- C. order: what the writers hold is strictly increasing ---- *)
Lemma last_ent_app s e : last_ent (s ++ [e]) = Some e.
Proof. unfold last_ent. rewrite map_app. cbn. now rewrite last_last. Qed.

Lemma last_ent_in s l : last_ent s = Some l -> In l s.
Proof. apply last_some_in. Qed.

Lemma sorted_snoc (s : src) e :
  sorted s -> (forall l, last_ent s = Some l -> lt_ent l e) -> sorted (s ++ [e]).
Proof.
  induction s as [|x s IH]; intros Hs Hl; cbn [app].
  - repeat constructor.
  - inversion Hs as [|? ? Hs' Hall]; subst. constructor.
    + apply IH; auto. intros l Hlast. apply Hl. unfold last_ent in *. cbn [map].
      destruct s as [|y s]; [discriminate|]. exact Hlast.
    + rewrite Forall_forall in *. intros y Hy. apply in_app_or in Hy. destruct Hy as [Hy|[<-|[]]]; auto.
      destruct s as [|z s].
      * apply Hl. reflexivity.
      * destruct (last_some_nonempty (z :: s) ltac:(discriminate)) as (l & Hlast).
        assert (Hlx: lt_ent x l) by (apply Hall; now apply last_some_in).
        eapply lt_ent_trans; [exact Hlx|]. apply Hl. unfold last_ent. cbn [map]. exact Hlast.
Qed.

Lemma add_all_sorted s es : sorted s -> add_all (last_ent s) es = true -> sorted (s ++ es).
Proof.
  revert s. induction es as [|e r IH]; intros s Hs H; [now rewrite app_nil_r|].
  cbn [add_all] in H.
  assert (Hse: sorted (s ++ [e]) /\ add_all (Some e) r = true).
  { destruct (last_ent s) as [l|] eqn:El.
    - destruct (ent_cmp l e) eqn:C; try discriminate. split; auto.
      apply sorted_snoc; auto. intros l' Hl'. assert (l' = l) by congruence. subst l'. exact C.
    - split; auto. apply sorted_snoc; auto. intros l' Hl'. congruence. }
  destruct Hse as [Hse Hr]. replace (s ++ e :: r) with ((s ++ [e]) ++ r) by now rewrite <- app_assoc.
  apply IH; auto. now rewrite last_ent_app.
Qed.

Definition writers_sorted (ws : list (N * swriter)) : Prop :=
  Forall (fun sw => sorted (w_ents (snd sw))) ws.

Lemma wlookup_in ws sid w : wlookup ws sid = Some w -> In (sid, w) ws.
Proof.
  induction ws as [|[j x] r IH]; cbn [wlookup]; [discriminate|].
  destruct (j =? sid) eqn:E; [|intros H; right; auto].
  apply N.eqb_eq in E. subst j. intros [= ->]. now left.
Qed.

Lemma wupdate_forall (P : N * swriter -> Prop) ws sid w :
  Forall P ws -> P (sid, w) -> Forall P (wupdate ws sid w).
Proof.
  intros H Hw. induction ws as [|[j x] r IH]; cbn [wupdate]; [repeat constructor; auto|].
  inversion H; subst. destruct (j =? sid); constructor; auto.
Qed.

Lemma send_reqs_sorted ws reqs ws' :
  send_reqs ws reqs = Some ws' -> writers_sorted ws -> writers_sorted ws'.
Proof.
  revert ws. induction reqs as [|[j es] r IH]; intros ws; cbn [send_reqs]; [now intros [= <-]|].
  intros H Hs. destruct (wlookup ws j) as [w|] eqn:Ew.
  - destruct (w_closed w); [discriminate|].
    destruct (add_all (last_ent (w_ents w)) es) eqn:Ea; [|discriminate].
    apply (IH _ H). apply wupdate_forall; auto. cbn [snd w_ents]. apply add_all_sorted; auto.
    apply wlookup_in in Ew. unfold writers_sorted in Hs. rewrite Forall_forall in Hs. apply (Hs _ Ew).
  - destruct (add_all None es) eqn:Ea; [|discriminate].
    apply (IH _ H). apply wupdate_forall; auto. cbn [snd w_ents].
    apply (add_all_sorted [] es); [constructor|exact Ea].
Qed.

Lemma close_streams_sorted ws closed : writers_sorted ws -> writers_sorted (close_streams ws closed).
Proof.
  revert ws. induction closed as [|c r IH]; intros ws Hs; cbn [close_streams]; auto.
  destruct (wlookup ws c) as [w|] eqn:E; apply IH; auto.
  apply wupdate_forall; auto. cbn [snd w_ents].
  apply wlookup_in in E. unfold writers_sorted in Hs. rewrite Forall_forall in Hs. apply (Hs _ E).
Qed.

Theorem sw_writes_sorted st writes st' :
  sw_writes st writes = Some st' -> writers_sorted (sw_writers st) -> writers_sorted (sw_writers st').
Proof.
  revert st. induction writes as [|w r IH]; intros st; cbn [sw_writes]; [now intros [= <-]|].
  destruct (sw_write st w) as [st1|] eqn:E; [|discriminate]. intros H Hs. apply (IH _ H).
  unfold sw_write in E. destruct w as [|it items]; [now inversion E; subst|].
  destruct (demux _ _ _ _) as [[[closed reqs] maxv]|]; [|discriminate].
  destruct (send_reqs _ _) as [ws|] eqn:Es; [|discriminate]. inversion E; subst. cbn [sw_writers].
  apply close_streams_sorted. eapply send_reqs_sorted; eauto.
Qed.

(* ---- D. table cuts ---- *)
Lemma cut_ok_concat s layout : cut_ok s layout = true -> concat (map t_ents (split_counts s layout)) = s.
Proof.
  revert s. induction layout as [|[id n] r IH]; intros s; cbn [cut_ok split_counts map concat].
  - destruct s; [reflexivity|discriminate].
  - intros H. repeat (apply andb_true_iff in H; destruct H as [H ?]).
    cbn [t_ents]. rewrite IH by assumption. apply firstn_skipn.
Qed.

(* a cut never separates two versions of one user key, no table is empty *)
Lemma cut_ok_tables s layout t :
  cut_ok s layout = true -> In t (split_counts s layout) -> t_ents t <> [].
Proof.
  revert s. induction layout as [|[id n] r IH]; intros s; cbn [cut_ok split_counts]; [contradiction|].
  intros H [<-|Ht].
  - repeat (apply andb_true_iff in H; destruct H as [H ?]). cbn [t_ents].
    apply negb_true_iff, N.eqb_neq in H. apply Nat.eqb_eq in H2. intros E. rewrite E in H2. cbn in H2. lia.
  - repeat (apply andb_true_iff in H; destruct H as [H ?]). eapply IH; eauto.
Qed.

Lemma sorted_firstn n (s : src) : sorted s -> sorted (firstn n s).
Proof. intros H. rewrite <- (firstn_skipn n s) in H. now apply sorted_app_l in H. Qed.
Lemma sorted_skipn n (s : src) : sorted s -> sorted (skipn n s).
Proof. intros H. rewrite <- (firstn_skipn n s) in H. now apply sorted_app_r in H. Qed.

Lemma split_counts_sorted s layout t : sorted s -> In t (split_counts s layout) -> sorted (t_ents t).
Proof.
  revert s. induction layout as [|[id n] r IH]; intros s Hs; cbn [split_counts]; [contradiction|].
  intros [<-|Ht]; [cbn; now apply sorted_firstn|]. eapply IH; [|exact Ht]. now apply sorted_skipn.
Qed.

(* ---- E. sortTables is a permutation ---- *)
Lemma ins_table_in t l x : In x (ins_table t l) <-> x = t \/ In x l.
Proof.
  induction l as [|y r IH]; cbn [ins_table]; [cbn; intuition congruence|].
  destruct (smallest_le t y); cbn [In]; [intuition congruence|]. rewrite IH. intuition congruence.
Qed.

Lemma sort_tables_in l x : In x (sort_tables l) <-> In x l.
Proof.
  unfold sort_tables. induction l as [|y r IH]; cbn [fold_right]; [tauto|].
  rewrite ins_table_in, IH. cbn. intuition congruence.
Qed.

(* ---- F. validate implies one sorted run ---- *)
Lemma sorted_app_intro (a b : src) :
  sorted a -> sorted b ->
  (forall x y, last_ent a = Some x -> hd_error b = Some y -> lt_ent x y) ->
  sorted (a ++ b).
Proof.
  revert a. induction b as [|y b IH]; intros a Ha Hb H; [now rewrite app_nil_r|].
  replace (a ++ y :: b) with ((a ++ [y]) ++ b) by now rewrite <- app_assoc.
  inversion Hb as [|? ? Hb' Hall]; subst. apply IH; auto.
  - apply sorted_snoc; [exact Ha|]. intros l Hl. now apply H.
  - intros x z Hx Hz. rewrite last_ent_app in Hx. inversion Hx; subst x.
    rewrite Forall_forall in Hall. apply Hall. destruct b; [discriminate|]. inversion Hz; subst. now left.
Qed.

Lemma level_valid_cons2 a b r :
  level_valid (a :: b :: r) =
  match t_biggest a, t_smallest b, t_biggest b with
  | Some ba, Some sb, Some bb =>
      match ent_cmp ba sb with Lt => true | _ => false end
      && match ent_cmp sb bb with Gt => false | _ => true end
      && level_valid (b :: r)
  | _, _, _ => false
  end.
Proof. reflexivity. Qed.

(* util.go validate on a level whose tables are sorted and non-empty: the level is one
   strictly increasing run (what the lookup of a level >= 1 relies on: GetProofs.level_ok) *)
Theorem level_valid_sorted l :
  Forall (fun t => sorted (t_ents t)) l -> Forall (fun t => t_ents t <> []) l ->
  level_valid l = true -> level_ok l.
Proof.
  intros Hs Hne Hv. split; [|exact Hne].
  induction l as [|a r IH]; cbn [map concat]; [constructor|].
  inversion Hs as [|? ? Hsa Hsr]; subst. inversion Hne as [|? ? Hna Hnr]; subst.
  destruct r as [|b r'].
  - cbn. now rewrite app_nil_r.
  - rewrite level_valid_cons2 in Hv.
    destruct (t_biggest a) as [ba|] eqn:Eba; [|discriminate].
    destruct (t_smallest b) as [sb|] eqn:Esb; [|discriminate].
    destruct (t_biggest b) as [bb|] eqn:Ebb; [|discriminate].
    apply andb_true_iff in Hv. destruct Hv as [Hv Hv3]. apply andb_true_iff in Hv. destruct Hv as [Hv1 _].
    apply sorted_app_intro; [exact Hsa|now apply IH|].
    intros x y Hx Hy. unfold t_biggest in Eba. fold (last_ent (t_ents a)) in Eba.
    assert (x = ba) by congruence. subst x.
    assert (y = sb).
    { unfold t_smallest in Esb. cbn [map concat] in Hy. destruct (t_ents b) as [|e0 eb]; [discriminate|].
      cbn in Hy, Esb. congruence. }
    subst y. unfold lt_ent. destruct (ent_cmp ba sb); try discriminate. reflexivity.
Qed.

(* ---- G. the contents of the tree after Flush ---- *)
Definition entries_of (ws : list (N * swriter)) : list entry := flat_map (fun sw => w_ents (snd sw)) ws.
Definition tables_entries (ts : list table) : list entry := concat (map t_ents ts).
Definition levels_entries (ls : list (list table)) : list entry := concat (levels_srcs 0 ls).

Lemma build_tables_entries ws ly ts :
  build_tables ws ly = Some ts -> tables_entries ts = entries_of ws.
Proof.
  revert ts. induction ws as [|[sid w] r IH]; intros ts; cbn [build_tables entries_of flat_map].
  - intros [= <-]. reflexivity.
  - destruct (cut_ok (w_ents w) (layouts_lookup ly sid)) eqn:Ec; [|discriminate].
    destruct (build_tables r ly) as [ts'|]; [|discriminate]. intros [= <-].
    unfold tables_entries. rewrite map_app, concat_app. cbn [snd].
    rewrite cut_ok_concat by assumption. f_equal. now apply IH.
Qed.

Lemma build_tables_ok ws ly ts :
  build_tables ws ly = Some ts -> writers_sorted ws ->
  Forall (fun t => sorted (t_ents t)) ts /\ Forall (fun t => t_ents t <> []) ts.
Proof.
  revert ts. induction ws as [|[sid w] r IH]; intros ts; cbn [build_tables].
  - intros [= <-] _. split; constructor.
  - destruct (cut_ok (w_ents w) (layouts_lookup ly sid)) eqn:Ec; [|discriminate].
    destruct (build_tables r ly) as [ts'|]; [|discriminate]. intros [= <-] Hs.
    inversion Hs as [|? ? Hw Hr]; subst. destruct (IH ts' eq_refl Hr) as [A B].
    split; apply Forall_app; split; auto; apply Forall_forall; intros t Ht.
    + eapply split_counts_sorted; eauto.
    + eapply cut_ok_tables; eauto.
Qed.

Lemma radd_in reqs sid e x :
  In x (concat (map snd (radd reqs sid e))) <-> In x (concat (map snd reqs)) \/ x = e.
Proof.
  induction reqs as [|[j es] r IH]; cbn [radd map snd concat].
  - cbn. intuition congruence.
  - destruct (j =? sid); cbn [map snd concat]; rewrite !in_app_iff.
    + cbn. intuition congruence.
    + rewrite IH. tauto.
Qed.

Lemma demux_in items closed reqs maxv closed' reqs' maxv' :
  demux items closed reqs maxv = Some (closed', reqs', maxv') ->
  forall x, In x (concat (map snd reqs')) <-> In x (concat (map snd reqs)) \/ In x (all_skv items).
Proof.
  revert closed reqs maxv. induction items as [|it items IH]; intros closed reqs maxv; cbn [demux].
  - intros [= <- <- <-] x. cbn. tauto.
  - destruct it as [sid e|sid].
    + destruct (mem_n sid closed); [discriminate|]. intros H x. rewrite (IH _ _ _ H), radd_in.
      cbn [all_skv flat_map In app]. intuition congruence.
    + intros H x. rewrite (IH _ _ _ H). cbn [all_skv flat_map app]. tauto.
Qed.

Lemma wupdate_entries ws sid w' x :
  (forall w, wlookup ws sid = Some w -> forall y, In y (w_ents w) -> In y (w_ents w')) ->
  In x (entries_of (wupdate ws sid w')) <-> In x (entries_of ws) \/ In x (w_ents w').
Proof.
  induction ws as [|[j w0] r IH]; intros H; cbn [wupdate entries_of flat_map snd wlookup] in *.
  - rewrite app_nil_r. cbn [In]. tauto.
  - destruct (j =? sid) eqn:E; cbn [flat_map snd]; rewrite !in_app_iff.
    + specialize (H w0 eq_refl). fold (entries_of r). intuition.
    + fold (entries_of (wupdate r sid w')) (entries_of r). rewrite IH by exact H. tauto.
Qed.

Lemma send_reqs_in ws reqs ws' :
  send_reqs ws reqs = Some ws' ->
  forall x, In x (entries_of ws') <-> In x (entries_of ws) \/ In x (concat (map snd reqs)).
Proof.
  revert ws. induction reqs as [|[j es] r IH]; intros ws; cbn [send_reqs map snd concat].
  - intros [= <-] x. cbn. tauto.
  - intros H x. rewrite in_app_iff. destruct (wlookup ws j) as [w|] eqn:Ew.
    + destruct (w_closed w); [discriminate|]. destruct (add_all _ es); [|discriminate].
      rewrite (IH _ H), wupdate_entries.
      * cbn [w_ents]. rewrite in_app_iff. apply wlookup_in in Ew.
        assert (Hsub: In x (w_ents w) -> In x (entries_of ws)).
        { intros Hx. unfold entries_of. apply in_flat_map. exists (j, w). split; auto. }
        tauto.
      * intros w1 Hw1 y Hy. rewrite Ew in Hw1. inversion Hw1; subst. cbn. apply in_or_app; now left.
    + destruct (add_all None es); [|discriminate].
      rewrite (IH _ H), wupdate_entries.
      * cbn [w_ents]. tauto.
      * intros w1 Hw1. rewrite Ew in Hw1. discriminate.
Qed.

Lemma close_streams_in ws closed x : In x (entries_of (close_streams ws closed)) <-> In x (entries_of ws).
Proof.
  revert ws. induction closed as [|c r IH]; intros ws; cbn [close_streams]; [tauto|].
  destruct (wlookup ws c) as [w|] eqn:E; rewrite IH; [|tauto].
  rewrite wupdate_entries.
  - cbn [w_ents]. apply wlookup_in in E.
    assert (Hsub: In x (w_ents w) -> In x (entries_of ws)).
    { intros Hx. unfold entries_of. apply in_flat_map. exists (c, w). split; auto. }
    tauto.
  - intros w1 Hw1 y Hy. rewrite E in Hw1. inversion Hw1; subst. exact Hy.
Qed.

Lemma all_skv_app a b : all_skv (a ++ b) = all_skv a ++ all_skv b.
Proof. unfold all_skv. apply flat_map_app. Qed.

(* C26, all streams: the writers hold exactly the streamed entries *)
Theorem sw_writes_in st writes st' :
  sw_writes st writes = Some st' ->
  (forall x, In x (entries_of (sw_writers st')) <-> In x (entries_of (sw_writers st)) \/ In x (all_skv (concat writes)))
  /\ sw_max st <= sw_max st'
  /\ (forall e, In e (all_skv (concat writes)) -> e_ver e <= sw_max st').
Proof.
  revert st. induction writes as [|w r IH]; intros st; cbn [sw_writes concat].
  - intros [= <-]. split; [intros x; cbn; tauto|split; [lia|intros e []]].
  - destruct (sw_write st w) as [st1|] eqn:E; [|discriminate]. intros H.
    destruct (IH _ H) as (A & B & C).
    assert (E1: (forall x, In x (entries_of (sw_writers st1)) <-> In x (entries_of (sw_writers st)) \/ In x (all_skv w))
                /\ sw_max st <= sw_max st1 /\ (forall e, In e (all_skv w) -> e_ver e <= sw_max st1)).
    { unfold sw_write in E. destruct w as [|it items]; [inversion E; subst; split; [intros x; cbn; tauto|split; [lia|intros e []]]|].
      destruct (demux (it :: items) [] [] (sw_max st)) as [[[closed reqs] maxv]|] eqn:Ed; [|discriminate].
      destruct (send_reqs (sw_writers st) reqs) as [ws|] eqn:Es; [|discriminate].
      inversion E; subst st1. cbn [sw_writers sw_max].
      destruct (demux_spec _ _ _ _ _ _ _ Ed) as (_ & _ & M1 & M2).
      split; [|split; auto]. intros x. rewrite close_streams_in, (send_reqs_in _ _ _ Es), (demux_in _ _ _ _ _ _ _ Ed).
      cbn. tauto. }
    destruct E1 as (A1 & B1 & C1). split; [|split].
    + intros x. rewrite A, A1, all_skv_app, in_app_iff. tauto.
    + lia.
    + intros e He. rewrite all_skv_app in He. apply in_app_or in He. destruct He as [He|He]; auto.
      specialize (C1 e He). lia.
Qed.

Lemma set_level_nth_same (ls : list (list table)) n l : (n < length ls)%nat -> nth n (set_level ls n l) [] = l.
Proof.
  revert n. induction ls as [|x r IH]; intros n H; cbn in H; [lia|].
  destruct n as [|n]; cbn [set_level nth]; auto. apply IH. lia.
Qed.

Lemma levels_entries_in ls x :
  In x (levels_entries ls) <-> exists lvl t, In t (nth lvl ls []) /\ In x (t_ents t).
Proof.
  unfold levels_entries. rewrite levels_srcs_in. split.
  - intros (l & t & A & B & C). destruct (In_nth ls l [] A) as (n & _ & Hn). exists n, t. rewrite Hn. auto.
  - intros (lvl & t & A & B). exists (nth lvl ls []), t. split; auto.
    destruct (Nat.lt_ge_cases lvl (length ls)) as [Hl|Hl]; [now apply nth_In|].
    rewrite nth_overflow in A by lia. contradiction.
Qed.

Lemma tables_entries_in ts x : In x (tables_entries ts) <-> exists t, In t ts /\ In x (t_ents t).
Proof.
  unfold tables_entries. rewrite in_concat. split.
  - intros (l & A & B). apply in_map_iff in A. destruct A as (t & <- & Ht). eauto.
  - intros (t & A & B). exists (t_ents t). split; auto. now apply in_map.
Qed.

(* installing the new tables at the target level and sorting every level changes the set of
   stored entries by exactly the new tables' entries *)
Lemma install_entries ls target newt x :
  (target < length ls)%nat ->
  In x (levels_entries (map sort_tables (set_level ls target (nth target ls [] ++ newt))))
  <-> In x (levels_entries ls) \/ In x (tables_entries newt).
Proof.
  intros Ht. rewrite !levels_entries_in, tables_entries_in.
  assert (Hnth: forall lvl, nth lvl (map sort_tables (set_level ls target (nth target ls [] ++ newt))) []
                            = sort_tables (nth lvl (set_level ls target (nth target ls [] ++ newt)) [])).
  { intros lvl. exact (map_nth sort_tables (set_level ls target (nth target ls [] ++ newt)) [] lvl). }
  split.
  - intros (lvl & t & A & B). rewrite Hnth in A. apply (proj1 (sort_tables_in _ _)) in A.
    destruct (Nat.eq_dec lvl target) as [->|Hne].
    + rewrite set_level_nth_same in A by assumption. apply in_app_or in A.
      destruct A as [A|A]; [left; exists target, t; auto|right; exists t; auto].
    + rewrite set_level_nth_other in A by congruence. left. exists lvl, t. auto.
  - intros [(lvl & t & A & B)|(t & A & B)].
    + exists lvl, t. split; auto. rewrite Hnth. apply (proj2 (sort_tables_in _ _)).
      destruct (Nat.eq_dec lvl target) as [->|Hne].
      * rewrite set_level_nth_same by assumption. apply in_or_app; now left.
      * rewrite set_level_nth_other by congruence. exact A.
    + exists target, t. split; auto. rewrite Hnth. apply (proj2 (sort_tables_in _ _)).
      rewrite set_level_nth_same by assumption. apply in_or_app; now right.
Qed.

Lemma mk_lsm_all_entries ls : all_entries (mkLsm [] [] ls) = levels_entries ls.
Proof. reflexivity. Qed.

(* the tree a stream-writer run starts from: emptied by Prepare, untouched by PrepareIncremental *)
Definition sw_start (s : sys) (incr : bool) : list (list table) :=
  if incr then l_levels (s_db s) else map (fun _ => []) (l_levels (s_db s)).

(* C26, whole run (as coded): when the run is accepted, the stored entries are exactly the
   prepared tree's (after the Flatten, if any) plus the streamed ones; Flush returns nil iff
   every level >= 1 passes validate — an invalid level is never accepted silently; in normal
   mode the next timestamp is above every streamed version *)
Theorem stream_write_spec s incr flat writes layouts orders r next s' tags :
  stream_write s incr flat writes layouts orders r next = SWOk s' tags ->
  (incr && has_mem_data (s_db s)) = false ->
  exists ls1 st newt,
    run_flatten (sw_start s incr) flat = (0, ls1) /\
    sw_writes (mkSWS [] 0) writes = Some st /\
    build_tables (sw_writers st) layouts = Some newt /\
    (sw_target incr (sw_start s incr) < length ls1)%nat /\
    l_levels (s_db s') = map sort_tables (set_level ls1 (sw_target incr (sw_start s incr))
                                             (nth (sw_target incr (sw_start s incr)) ls1 [] ++ newt)) /\
    (forall x, In x (all_entries (s_db s')) <-> In x (levels_entries ls1) \/ In x (all_skv (concat writes))) /\
    (r = 0 <-> levels_valid (l_levels (s_db s')) = true) /\
    (r = 0 \/ r = 8) /\
    (s_managed s = false -> forall e, In e (all_skv (concat writes)) -> e_ver e < s_next s').
Proof.
  unfold stream_write. intros H Hm. rewrite Hm in H.
  set (s0 := if incr then set_db s (mkLsm [] [] (l_levels (s_db s))) else drop_all s) in H.
  assert (Hls0: l_levels (s_db s0) = sw_start s incr) by (unfold s0, sw_start; destruct incr; reflexivity).
  rewrite Hls0 in H.
  destruct (negb _ && negb _) in H; [discriminate|].
  destruct (run_flatten (sw_start s incr) flat) as [fc ls1] eqn:Ef.
  destruct (fc =? 0) eqn:Efc; cbn [negb] in H; [|discriminate]. apply N.eqb_eq in Efc. subst fc.
  destruct (sw_target incr (sw_start s incr) <? length ls1)%nat eqn:Et; cbn [negb] in H; [|discriminate].
  apply Nat.ltb_lt in Et.
  destruct (sw_writes (mkSWS [] 0) writes) as [st|] eqn:Ew; [|discriminate].
  destruct (build_tables (sw_writers st) layouts) as [newt|] eqn:Eb; [|discriminate].
  set (ls3 := map sort_tables (set_level ls1 _ _)) in H.
  destruct (orders_match ls3 orders); cbn [negb] in H; [|discriminate].
  destruct ((r =? 0) && levels_valid ls3 || (r =? 8) && negb (levels_valid ls3)) eqn:Er; cbn [negb] in H; [|discriminate].
  destruct (s_managed s || (_ =? next)) eqn:En; cbn [negb] in H; [|discriminate].
  inversion H; subst s' tags. clear H. cbn [s_db l_levels s_next].
  exists ls1, st, newt. split; [reflexivity|split; [reflexivity|split; [exact Eb|split; [exact Et|split; [reflexivity|]]]]].
  destruct (sw_writes_in _ _ _ Ew) as (A & B & C). cbn [sw_writers entries_of flat_map] in A.
  split; [|split; [|split]].
  - intros x. rewrite mk_lsm_all_entries. unfold ls3. rewrite install_entries by assumption.
    rewrite (build_tables_entries _ _ _ Eb), A. cbn. tauto.
  - destruct (levels_valid ls3) eqn:Ev.
    + split; [reflexivity|intros _]. rewrite andb_true_r in Er. cbn [negb] in Er. rewrite andb_false_r, orb_false_r in Er.
      now apply N.eqb_eq in Er.
    + split; [|discriminate]. intros ->. cbn in Er. discriminate.
  - apply orb_true_iff in Er. destruct Er as [Er|Er]; apply andb_true_iff in Er; destruct Er as [Er _];
      apply N.eqb_eq in Er; auto.
  - intros Hman e He. rewrite Hman. specialize (C e He). lia.
Qed.

Lemma levels_valid_nth ls lvl : levels_valid ls = true -> (1 <= lvl)%nat -> level_valid (nth lvl ls []) = true.
Proof.
  destruct ls as [|l0 deep]; cbn [levels_valid]; intros H Hl.
  - destruct lvl; reflexivity.
  - destruct lvl as [|lvl]; [lia|]. cbn [nth]. rewrite forallb_forall in H.
    destruct (Nat.lt_ge_cases lvl (length deep)) as [Hlt|Hge].
    + apply H. now apply nth_In.
    + rewrite nth_overflow by lia. reflexivity.
Qed.

Definition tables_ok (ls : list (list table)) : Prop :=
  forall lvl t, In t (nth lvl ls []) -> sorted (t_ents t) /\ t_ents t <> [].

(* C26_levels_valid: an accepted run (Flush = nil) over a prepared tree with well-formed
   tables leaves every level >= 1 one strictly increasing run of non-empty sorted tables *)
Theorem stream_write_levels_ok s incr flat writes layouts orders r next s' tags ls1 :
  stream_write s incr flat writes layouts orders r next = SWOk s' tags ->
  (incr && has_mem_data (s_db s)) = false ->
  run_flatten (sw_start s incr) flat = (0, ls1) -> tables_ok ls1 ->
  r = 0 -> forall lvl, (1 <= lvl)%nat -> level_ok (nth lvl (l_levels (s_db s')) []).
Proof.
  intros H Hm Hf Hok Hr lvl Hl.
  destruct (stream_write_spec _ _ _ _ _ _ _ _ _ _ H Hm) as (ls1' & st & newt & F & W & Bt & Tl & Lv & _ & V & _).
  rewrite Hf in F. inversion F; subst ls1'. clear F.
  apply (proj1 V) in Hr. pose proof (levels_valid_nth _ lvl Hr Hl) as Hv.
  assert (Hws: writers_sorted (sw_writers st)).
  { eapply sw_writes_sorted; eauto. constructor. }
  destruct (build_tables_ok _ _ _ Bt Hws) as [Ns Nn].
  rewrite Forall_forall in Ns, Nn.
  assert (Hall: forall t, In t (nth lvl (l_levels (s_db s')) []) -> sorted (t_ents t) /\ t_ents t <> []).
  { intros t Ht. rewrite Lv in Ht.
    rewrite (map_nth sort_tables _ [] lvl) in Ht. apply (proj1 (sort_tables_in _ _)) in Ht.
    destruct (Nat.eq_dec lvl (sw_target incr (sw_start s incr))) as [->|Hne].
    - rewrite set_level_nth_same in Ht by assumption. apply in_app_or in Ht.
      destruct Ht as [Ht|Ht]; [eapply Hok; eauto|split; auto].
    - rewrite set_level_nth_other in Ht by congruence. eapply Hok; eauto. }
  apply level_valid_sorted; auto; apply Forall_forall; intros t Ht; apply Hall; exact Ht.
Qed.

(* the rule "Same keys should go into the same SSTable": the entry before a cut and the
   entry after it have different user keys *)
Lemma cut_ok_boundary s id n r x y :
  cut_ok s ((id, n) :: r) = true ->
  last_ent (firstn (N.to_nat n) s) = Some x -> hd_error (skipn (N.to_nat n) s) = Some y ->
  e_key x <> e_key y.
Proof.
  cbn [cut_ok]. intros H Hx Hy. repeat (apply andb_true_iff in H; destruct H as [H ?]).
  rewrite Hx in H1. destruct (skipn (N.to_nat n) s) as [|y0 b]; [discriminate|]. inversion Hy; subst y0.
  apply negb_true_iff in H1. intros E. rewrite E, bytes_eqb_refl in H1. discriminate.
Qed.

Corollary sw_run_ents writes st :
  sw_writes (mkSWS [] 0) writes = Some st ->
  forall sid, wents (sw_writers st) sid = stream_ents sid (concat writes).
Proof. intros H sid. now rewrite (sw_writes_ents _ _ _ H). Qed.

Corollary sw_run_sorted writes st :
  sw_writes (mkSWS [] 0) writes = Some st -> writers_sorted (sw_writers st).
Proof. intros H. eapply sw_writes_sorted; eauto. constructor. Qed.
