(* StreamWriterProofs.v — proofs about StreamWriter.v: demultiplexing keeps every stream's
   entries in order, the per-stream order check makes every table sorted, table cuts lose
   nothing, sortTables is a permutation, validate implies a sorted and disjoint level, the
   tree after Flush holds exactly the prepared tree plus the streamed entries, the next
   timestamp is above every streamed version. *)
From Verif Require Import Bytes BytesProofs Keys C20Proofs Consts Spec Lsm Compact Iter Sys
     LsmProofs CompactProofs GetProofs MergeProofs C12Proofs Drop DropProofs StreamWriter.
From Coq Require Import ZifyN ZifyNat ZifyBool Sorting.Sorted.
Open Scope N_scope.

(* the entries streamed for stream sid / for all streams, in arrival order *)
Definition stream_ents (sid : N) (items : list sitem) : list entry :=
  flat_map (fun it => match it with SKV j e => if j =? sid then [e] else [] | SDone _ => [] end) items.
Definition all_skv (items : list sitem) : list entry :=
  flat_map (fun it => match it with SKV _ e => [e] | SDone _ => [] end) items.

Fixpoint rents (reqs : list (N * list entry)) (sid : N) : list entry :=
  match reqs with [] => [] | (j, es) :: r => if j =? sid then es else rents r sid end.
Definition wents (ws : list (N * swriter)) (sid : N) : list entry :=
  match wlookup ws sid with Some w => w_ents w | None => [] end.

(* ---- A. demultiplexing ---- *)
Lemma rents_radd reqs sid e j :
  rents (radd reqs sid e) j = if j =? sid then rents reqs sid ++ [e] else rents reqs j.
Proof.
  induction reqs as [|[i es] r IH]; cbn [radd rents].
  - rewrite (N.eqb_sym sid j). destruct (j =? sid); reflexivity.
  - destruct (i =? sid) eqn:E1; cbn [rents].
    + apply N.eqb_eq in E1. subst i. destruct (j =? sid) eqn:E2.
      * apply N.eqb_eq in E2. subst j. now rewrite N.eqb_refl.
      * rewrite (N.eqb_sym sid j), E2. reflexivity.
    + destruct (i =? j) eqn:E3.
      * apply N.eqb_eq in E3. subst j. rewrite E1. reflexivity.
      * exact IH.
Qed.

Lemma radd_keys_nodup reqs sid e : NoDup (map fst reqs) -> NoDup (map fst (radd reqs sid e)).
Proof.
  induction reqs as [|[i es] r IH]; cbn [radd map fst]; intros H.
  - repeat constructor. intros [].
  - destruct (i =? sid) eqn:E; cbn [map fst]; auto.
    inversion H as [|? ? Hn Hr]; subst. constructor; auto.
    intros Hin. apply Hn. clear -Hin E.
    induction r as [|[a b] r IH]; cbn [radd map fst] in *.
    + destruct Hin as [Hin|[]]. subst. rewrite N.eqb_refl in E. discriminate.
    + destruct (a =? sid); cbn [map fst] in *; destruct Hin as [Hin|Hin]; [now left|now right|now left|right; auto].
Qed.

Lemma demux_spec items closed reqs maxv closed' reqs' maxv' :
  demux items closed reqs maxv = Some (closed', reqs', maxv') ->
  (forall sid, rents reqs' sid = rents reqs sid ++ stream_ents sid items)
  /\ (NoDup (map fst reqs) -> NoDup (map fst reqs'))
  /\ maxv <= maxv' /\ (forall e, In e (all_skv items) -> e_ver e <= maxv').
Proof.
  revert closed reqs maxv. induction items as [|it items IH]; intros closed reqs maxv; cbn [demux].
  - intros [= <- <- <-]. repeat split; auto; [intros; now rewrite app_nil_r|lia|intros e []].
  - destruct it as [sid e|sid].
    + destruct (mem_n sid closed); [discriminate|]. intros H. apply IH in H.
      destruct H as (A & B & C & D). repeat split.
      * intros j. rewrite A, rents_radd. unfold stream_ents at 2. cbn [flat_map]. fold (stream_ents j items).
        rewrite (N.eqb_sym sid j). destruct (j =? sid) eqn:Ej.
        -- apply N.eqb_eq in Ej. subst j. now rewrite <- app_assoc.
        -- reflexivity.
      * intros Hn. apply B. now apply radd_keys_nodup.
      * lia.
      * intros x [<-|Hx]; [lia|auto].
    + intros H. apply IH in H. exact H.
Qed.

(* ---- B. the writers ---- *)
Lemma wlookup_wupdate_same ws sid w : wlookup (wupdate ws sid w) sid = Some w.
Proof.
  induction ws as [|[j x] r IH]; cbn [wupdate wlookup]; [now rewrite N.eqb_refl|].
  destruct (j =? sid) eqn:E; cbn [wlookup]; [now rewrite N.eqb_refl|now rewrite E].
Qed.

Lemma wlookup_wupdate_other ws sid w j : j <> sid -> wlookup (wupdate ws sid w) j = wlookup ws j.
Proof.
  intros Hne. induction ws as [|[i x] r IH]; cbn [wupdate wlookup].
  - assert (E: (sid =? j) = false) by (apply N.eqb_neq; congruence). now rewrite E.
  - destruct (i =? sid) eqn:E; cbn [wlookup].
    + apply N.eqb_eq in E. subst i. assert (E2: (sid =? j) = false) by (apply N.eqb_neq; congruence). now rewrite E2.
    + now rewrite IH.
Qed.

Lemma wents_wupdate ws sid w j :
  wents (wupdate ws sid w) j = if j =? sid then w_ents w else wents ws j.
Proof.
  unfold wents. destruct (j =? sid) eqn:E.
  - apply N.eqb_eq in E. subst j. now rewrite wlookup_wupdate_same.
  - apply N.eqb_neq in E. now rewrite wlookup_wupdate_other.
Qed.

Lemma send_reqs_ents ws reqs ws' :
  send_reqs ws reqs = Some ws' -> NoDup (map fst reqs) ->
  forall sid, wents ws' sid = wents ws sid ++ rents reqs sid.
Proof.
  revert ws. induction reqs as [|[j es] r IH]; intros ws; cbn [send_reqs].
  - intros [= <-] _ sid. now rewrite app_nil_r.
  - intros H Hnd sid. inversion Hnd as [|? ? Hn Hr]; subst.
    assert (Hrj: rents r j = []).
    { clear -Hn. induction r as [|[a b] r IH]; cbn [rents map fst] in *; auto.
      destruct (a =? j) eqn:E; [apply N.eqb_eq in E; subst; exfalso; apply Hn; now left|].
      apply IH. intros Hin. apply Hn. now right. }
    destruct (wlookup ws j) as [w|] eqn:Ew.
    + destruct (w_closed w); [discriminate|].
      destruct (add_all (last_ent (w_ents w)) es); [|discriminate].
      rewrite (IH _ H Hr), wents_wupdate. cbn [rents w_ents].
      destruct (j =? sid) eqn:E.
      * apply N.eqb_eq in E. subst sid. rewrite N.eqb_refl, Hrj, app_nil_r.
        unfold wents. now rewrite Ew.
      * rewrite (N.eqb_sym sid j), E. reflexivity.
    + destruct (add_all None es); [|discriminate].
      rewrite (IH _ H Hr), wents_wupdate. cbn [rents w_ents].
      destruct (j =? sid) eqn:E.
      * apply N.eqb_eq in E. subst sid. rewrite N.eqb_refl, Hrj, app_nil_r.
        unfold wents. now rewrite Ew.
      * rewrite (N.eqb_sym sid j), E. reflexivity.
Qed.

Lemma close_streams_ents ws closed sid : wents (close_streams ws closed) sid = wents ws sid.
Proof.
  revert ws. induction closed as [|c r IH]; intros ws; cbn [close_streams]; auto.
  destruct (wlookup ws c) as [w|] eqn:E; rewrite IH; auto.
  rewrite wents_wupdate. destruct (sid =? c) eqn:E2; auto.
  apply N.eqb_eq in E2. subst c. unfold wents. now rewrite E.
Qed.

(* C26, per stream: a Write call appends to every stream exactly its items, in buffer order *)
Theorem sw_write_ents st items st' :
  sw_write st items = Some st' ->
  forall sid, wents (sw_writers st') sid = wents (sw_writers st) sid ++ stream_ents sid items.
Proof.
  unfold sw_write. destruct items as [|it items]; [intros [= <-] sid; now rewrite app_nil_r|].
  destruct (demux (it :: items) [] [] (sw_max st)) as [[[closed reqs] maxv]|] eqn:Ed; [|discriminate].
  destruct (send_reqs (sw_writers st) reqs) as [ws|] eqn:Es; [|discriminate].
  intros [= <-] sid. cbn [sw_writers]. rewrite close_streams_ents.
  apply demux_spec in Ed. destruct Ed as (A & B & _).
  rewrite (send_reqs_ents _ _ _ Es (B (NoDup_nil _))), A. reflexivity.
Qed.

Lemma stream_ents_app sid a b : stream_ents sid (a ++ b) = stream_ents sid a ++ stream_ents sid b.
Proof. unfold stream_ents. apply flat_map_app. Qed.

Theorem sw_writes_ents st writes st' :
  sw_writes st writes = Some st' ->
  forall sid, wents (sw_writers st') sid = wents (sw_writers st) sid ++ stream_ents sid (concat writes).
Proof.
  revert st. induction writes as [|w r IH]; intros st; cbn [sw_writes concat].
  - intros [= <-] sid. now rewrite app_nil_r.
  - destruct (sw_write st w) as [st1|] eqn:E; [|discriminate]. intros H sid.
    rewrite (IH _ H), (sw_write_ents _ _ _ E), stream_ents_app, app_assoc. reflexivity.
Qed.

(* ---- C. order: what the writers hold is strictly increasing ---- *)
Lemma last_ent_app s e : last_ent (s ++ [e]) = Some e.
Proof. unfold last_ent. rewrite map_app. cbn. now rewrite last_last. Qed.

Lemma last_ent_in s l : last_ent s = Some l -> In l s.
Proof. apply last_some_in. Qed.

Lemma sorted_snoc (s : src) e :
  sorted s -> (forall l, last_ent s = Some l -> lt_ent l e) -> sorted (s ++ [e]).
Proof.
  induction s as [|x s IH]; intros Hs Hl; cbn [app].
  - repeat constructor.
  - inversion Hs as [|? ? Hs' Hall]; subst. constructor.
    + apply IH; auto. intros l Hlast. apply Hl. unfold last_ent in *. cbn [map].
      destruct s as [|y s]; [discriminate|]. exact Hlast.
    + rewrite Forall_forall in *. intros y Hy. apply in_app_or in Hy. destruct Hy as [Hy|[<-|[]]]; auto.
      destruct s as [|z s].
      * apply Hl. reflexivity.
      * destruct (last_some_nonempty (z :: s) ltac:(discriminate)) as (l & Hlast).
        assert (Hlx: lt_ent x l) by (apply Hall; now apply last_some_in).
        eapply lt_ent_trans; [exact Hlx|]. apply Hl. unfold last_ent. cbn [map]. exact Hlast.
Qed.

Lemma add_all_sorted s es : sorted s -> add_all (last_ent s) es = true -> sorted (s ++ es).
Proof.
  revert s. induction es as [|e r IH]; intros s Hs H; [now rewrite app_nil_r|].
  cbn [add_all] in H.
  assert (Hse: sorted (s ++ [e]) /\ add_all (Some e) r = true).
  { destruct (last_ent s) as [l|] eqn:El.
    - destruct (ent_cmp l e) eqn:C; try discriminate. split; auto.
      apply sorted_snoc; auto. intros l' Hl'. assert (l' = l) by congruence. subst l'. exact C.
    - split; auto. apply sorted_snoc; auto. intros l' Hl'. congruence. }
  destruct Hse as [Hse Hr]. replace (s ++ e :: r) with ((s ++ [e]) ++ r) by now rewrite <- app_assoc.
  apply IH; auto. now rewrite last_ent_app.
Qed.

Definition writers_sorted (ws : list (N * swriter)) : Prop :=
  Forall (fun sw => sorted (w_ents (snd sw))) ws.

Lemma wlookup_in ws sid w : wlookup ws sid = Some w -> In (sid, w) ws.
Proof.
  induction ws as [|[j x] r IH]; cbn [wlookup]; [discriminate|].
  destruct (j =? sid) eqn:E; [|intros H; right; auto].
  apply N.eqb_eq in E. subst j. intros [= ->]. now left.
Qed.

Lemma wupdate_forall (P : N * swriter -> Prop) ws sid w :
  Forall P ws -> P (sid, w) -> Forall P (wupdate ws sid w).
Proof.
  intros H Hw. induction ws as [|[j x] r IH]; cbn [wupdate]; [repeat constructor; auto|].
  inversion H; subst. destruct (j =? sid); constructor; auto.
Qed.

Lemma send_reqs_sorted ws reqs ws' :
  send_reqs ws reqs = Some ws' -> writers_sorted ws -> writers_sorted ws'.
Proof.
  revert ws. induction reqs as [|[j es] r IH]; intros ws; cbn [send_reqs]; [now intros [= <-]|].
  intros H Hs. destruct (wlookup ws j) as [w|] eqn:Ew.
  - destruct (w_closed w); [discriminate|].
    destruct (add_all (last_ent (w_ents w)) es) eqn:Ea; [|discriminate].
    apply (IH _ H). apply wupdate_forall; auto. cbn [snd w_ents]. apply add_all_sorted; auto.
    apply wlookup_in in Ew. unfold writers_sorted in Hs. rewrite Forall_forall in Hs. apply (Hs _ Ew).
  - destruct (add_all None es) eqn:Ea; [|discriminate].
    apply (IH _ H). apply wupdate_forall; auto. cbn [snd w_ents].
    apply (add_all_sorted [] es); [constructor|exact Ea].
Qed.

Lemma close_streams_sorted ws closed : writers_sorted ws -> writers_sorted (close_streams ws closed).
Proof.
  revert ws. induction closed as [|c r IH]; intros ws Hs; cbn [close_streams]; auto.
  destruct (wlookup ws c) as [w|] eqn:E; apply IH; auto.
  apply wupdate_forall; auto. cbn [snd w_ents].
  apply wlookup_in in E. unfold writers_sorted in Hs. rewrite Forall_forall in Hs. apply (Hs _ E).
Qed.

Theorem sw_writes_sorted st writes st' :
  sw_writes st writes = Some st' -> writers_sorted (sw_writers st) -> writers_sorted (sw_writers st').
Proof.
  revert st. induction writes as [|w r IH]; intros st; cbn [sw_writes]; [now intros [= <-]|].
  destruct (sw_write st w) as [st1|] eqn:E; [|discriminate]. intros H Hs. apply (IH _ H).
  unfold sw_write in E. destruct w as [|it items]; [now inversion E; subst|].
  destruct (demux _ _ _ _) as [[[closed reqs] maxv]|]; [|discriminate].
  destruct (send_reqs _ _) as [ws|] eqn:Es; [|discriminate]. inversion E; subst. cbn [sw_writers].
  apply close_streams_sorted. eapply send_reqs_sorted; eauto.
Qed.

(* ---- D. table cuts ---- *)
Lemma cut_ok_concat s layout : cut_ok s layout = true -> concat (map t_ents (split_counts s layout)) = s.
Proof.
  revert s. induction layout as [|[id n] r IH]; intros s; cbn [cut_ok split_counts map concat].
  - destruct s; [reflexivity|discriminate].
  - intros H. repeat (apply andb_true_iff in H; destruct H as [H ?]).
    cbn [t_ents]. rewrite IH by assumption. apply firstn_skipn.
Qed.

(* a cut never separates two versions of one user key, no table is empty *)
Lemma cut_ok_tables s layout t :
  cut_ok s layout = true -> In t (split_counts s layout) -> t_ents t <> [].
Proof.
  revert s. induction layout as [|[id n] r IH]; intros s; cbn [cut_ok split_counts]; [contradiction|].
  intros H [<-|Ht].
  - repeat (apply andb_true_iff in H; destruct H as [H ?]). cbn [t_ents].
    apply negb_true_iff, N.eqb_neq in H. apply Nat.eqb_eq in H2. intros E. rewrite E in H2. cbn in H2. lia.
  - repeat (apply andb_true_iff in H; destruct H as [H ?]). eapply IH; eauto.
Qed.

Lemma sorted_firstn n (s : src) : sorted s -> sorted (firstn n s).
Proof. intros H. rewrite <- (firstn_skipn n s) in H. now apply sorted_app_l in H. Qed.
Lemma sorted_skipn n (s : src) : sorted s -> sorted (skipn n s).
Proof. intros H. rewrite <- (firstn_skipn n s) in H. now apply sorted_app_r in H. Qed.

Lemma split_counts_sorted s layout t : sorted s -> In t (split_counts s layout) -> sorted (t_ents t).
Proof.
  revert s. induction layout as [|[id n] r IH]; intros s Hs; cbn [split_counts]; [contradiction|].
  intros [<-|Ht]; [cbn; now apply sorted_firstn|]. eapply IH; [|exact Ht]. now apply sorted_skipn.
Qed.

(* ---- E. sortTables is a permutation ---- *)
Lemma ins_table_in t l x : In x (ins_table t l) <-> x = t \/ In x l.
Proof.
  induction l as [|y r IH]; cbn [ins_table]; [cbn; intuition congruence|].
  destruct (smallest_le t y); cbn [In]; [intuition congruence|]. rewrite IH. intuition congruence.
Qed.

Lemma sort_tables_in l x : In x (sort_tables l) <-> In x l.
Proof.
  unfold sort_tables. induction l as [|y r IH]; cbn [fold_right]; [tauto|].
  rewrite ins_table_in, IH. cbn. intuition congruence.
Qed.

(* ---- F. validate implies one sorted run ---- *)
Lemma sorted_app_intro (a b : src) :
  sorted a -> sorted b ->
  (forall x y, last_ent a = Some x -> hd_error b = Some y -> lt_ent x y) ->
  sorted (a ++ b).
Proof.
  revert a. induction b as [|y b IH]; intros a Ha Hb H; [now rewrite app_nil_r|].
  replace (a ++ y :: b) with ((a ++ [y]) ++ b) by now rewrite <- app_assoc.
  inversion Hb as [|? ? Hb' Hall]; subst. apply IH; auto.
  - apply sorted_snoc; [exact Ha|]. intros l Hl. now apply H.
  - intros x z Hx Hz. rewrite last_ent_app in Hx. inversion Hx; subst x.
    rewrite Forall_forall in Hall. apply Hall. destruct b; [discriminate|]. inversion Hz; subst. now left.
Qed.

Lemma level_valid_cons2 a b r :
  level_valid (a :: b :: r) =
  match t_biggest a, t_smallest b, t_biggest b with
  | Some ba, Some sb, Some bb =>
      match ent_cmp ba sb with Lt => true | _ => false end
      && match ent_cmp sb bb with Gt => false | _ => true end
      && level_valid (b :: r)
  | _, _, _ => false
  end.
Proof. reflexivity. Qed.

(* util.go validate on a level whose tables are sorted and non-empty: the level is one
   strictly increasing run (what the lookup of a level >= 1 relies on: GetProofs.level_ok) *)
Theorem level_valid_sorted l :
  Forall (fun t => sorted (t_ents t)) l -> Forall (fun t => t_ents t <> []) l ->
  level_valid l = true -> level_ok l.
Proof.
  intros Hs Hne Hv. split; [|exact Hne].
  induction l as [|a r IH]; cbn [map concat]; [constructor|].
  inversion Hs as [|? ? Hsa Hsr]; subst. inversion Hne as [|? ? Hna Hnr]; subst.
  destruct r as [|b r'].
  - cbn. now rewrite app_nil_r.
  - rewrite level_valid_cons2 in Hv.
    destruct (t_biggest a) as [ba|] eqn:Eba; [|discriminate].
    destruct (t_smallest b) as [sb|] eqn:Esb; [|discriminate].
    destruct (t_biggest b) as [bb|] eqn:Ebb; [|discriminate].
    apply andb_true_iff in Hv. destruct Hv as [Hv Hv3]. apply andb_true_iff in Hv. destruct Hv as [Hv1 _].
    apply sorted_app_intro; [exact Hsa|now apply IH|].
    intros x y Hx Hy. unfold t_biggest in Eba. fold (last_ent (t_ents a)) in Eba.
    assert (x = ba) by congruence. subst x.
    assert (y = sb).
    { unfold t_smallest in Esb. cbn [map concat] in Hy. destruct (t_ents b) as [|e0 eb]; [discriminate|].
      cbn in Hy, Esb. congruence. }
    subst y. unfold lt_ent. destruct (ent_cmp ba sb); try discriminate. reflexivity.
Qed.

(* ---- G. the contents of the tree after Flush ---- *)
Definition entries_of (ws : list (N * swriter)) : list entry := flat_map (fun sw => w_ents (snd sw)) ws.
Definition tables_entries (ts : list table) : list entry := concat (map t_ents ts).
Definition levels_entries (ls : list (list table)) : list entry := concat (levels_srcs 0 ls).

Lemma build_tables_entries ws ly ts :
  build_tables ws ly = Some ts -> tables_entries ts = entries_of ws.
Proof.
  revert ts. induction ws as [|[sid w] r IH]; intros ts; cbn [build_tables entries_of flat_map].
  - intros [= <-]. reflexivity.
  - destruct (cut_ok (w_ents w) (layouts_lookup ly sid)) eqn:Ec; [|discriminate].
    destruct (build_tables r ly) as [ts'|]; [|discriminate]. intros [= <-].
    unfold tables_entries. rewrite map_app, concat_app. cbn [snd].
    rewrite cut_ok_concat by assumption. f_equal. now apply IH.
Qed.

Lemma build_tables_ok ws ly ts :
  build_tables ws ly = Some ts -> writers_sorted ws ->
  Forall (fun t => sorted (t_ents t)) ts /\ Forall (fun t => t_ents t <> []) ts.
Proof.
  revert ts. induction ws as [|[sid w] r IH]; intros ts; cbn [build_tables].
  - intros [= <-] _. split; constructor.
  - destruct (cut_ok (w_ents w) (layouts_lookup ly sid)) eqn:Ec; [|discriminate].
    destruct (build_tables r ly) as [ts'|]; [|discriminate]. intros [= <-] Hs.
    inversion Hs as [|? ? Hw Hr]; subst. destruct (IH ts' eq_refl Hr) as [A B].
    split; apply Forall_app; split; auto; apply Forall_forall; intros t Ht.
    + eapply split_counts_sorted; eauto.
    + eapply cut_ok_tables; eauto.
Qed.
