(* StreamWriterProofs.v — proofs about StreamWriter.v: demultiplexing keeps every stream's
   entries in order, the per-stream order check makes every table sorted, table cuts lose
   nothing, sortTables is a permutation, validate implies a sorted and disjoint level, the
   tree after Flush holds exactly the prepared tree plus the streamed entries, the next
   timestamp is above every streamed version. *)
From Verif Require Import Bytes BytesProofs Keys C20Proofs Consts Spec Lsm Compact Iter Sys
     LsmProofs CompactProofs GetProofs MergeProofs C12Proofs Drop DropProofs StreamWriter.
From Coq Require Import ZifyN ZifyNat ZifyBool Sorting.Sorted.
Open Scope N_scope.

(* the entries streamed for stream sid / for all streams, in arrival order *)
Definition stream_ents (sid : N) (items : list sitem) : list entry :=
  flat_map (fun it => match it with SKV j e => if j =? sid then [e] else [] | SDone _ => [] end) items.
Definition all_skv (items : list sitem) : list entry :=
  flat_map (fun it => match it with SKV _ e => [e] | SDone _ => [] end) items.

Fixpoint rents (reqs : list (N * list entry)) (sid : N) : list entry :=
  match reqs with [] => [] | (j, es) :: r => if j =? sid then es else rents r sid end.
Definition wents (ws : list (N * swriter)) (sid : N) : list entry :=
  match wlookup ws sid with Some w => w_ents w | None => [] end.

(* ---- A. demultiplexing ---- *)
Lemma rents_radd reqs sid e j :
  rents (radd reqs sid e) j = if j =? sid then rents reqs sid ++ [e] else rents reqs j.
Proof.
  induction reqs as [|[i es] r IH]; cbn [radd rents].
  - rewrite (N.eqb_sym sid j). destruct (j =? sid); reflexivity.
  - destruct (i =? sid) eqn:E1; cbn [rents].
    + apply N.eqb_eq in E1. subst i. destruct (j =? sid) eqn:E2.
      * apply N.eqb_eq in E2. subst j. now rewrite N.eqb_refl.
      * rewrite (N.eqb_sym sid j), E2. reflexivity.
    + destruct (i =? j) eqn:E3.
      * apply N.eqb_eq in E3. subst j. rewrite E1. reflexivity.
      * exact IH.
Qed.

Lemma radd_keys_nodup reqs sid e : NoDup (map fst reqs) -> NoDup (map fst (radd reqs sid e)).
Proof.
  induction reqs as [|[i es] r IH]; cbn [radd map fst]; intros H.
  - repeat constructor. intros [].
  - destruct (i =? sid) eqn:E; cbn [map fst]; auto.
    inversion H as [|? ? Hn Hr]; subst. constructor; auto.
    intros Hin. apply Hn. clear -Hin E.
    induction r as [|[a b] r IH]; cbn [radd map fst] in *.
    + destruct Hin as [Hin|[]]. subst. rewrite N.eqb_refl in E. discriminate.
    + destruct (a =? sid); cbn [map fst] in *; destruct Hin as [Hin|Hin]; [now left|now right|now left|right; auto].
Qed.

Lemma demux_spec items closed reqs maxv closed' reqs' maxv' :
  demux items closed reqs maxv = Some (closed', reqs', maxv') ->
  (forall sid, rents reqs' sid = rents reqs sid ++ stream_ents sid items)
  /\ (NoDup (map fst reqs) -> NoDup (map fst reqs'))
  /\ maxv <= maxv' /\ (forall e, In e (all_skv items) -> e_ver e <= maxv').
Proof.
  revert closed reqs maxv. induction items as [|it items IH]; intros closed reqs maxv; cbn [demux].
  - intros [= <- <- <-]. repeat split; auto; [intros; now rewrite app_nil_r|lia|intros e []].
  - destruct it as [sid e|sid].
    + destruct (mem_n sid closed); [discriminate|]. intros H. apply IH in H.
      destruct H as (A & B & C & D). repeat split.
      * intros j. rewrite A, rents_radd. unfold stream_ents at 2. cbn [flat_map]. fold (stream_ents j items).
        rewrite (N.eqb_sym sid j). destruct (j =? sid) eqn:Ej.
        -- apply N.eqb_eq in Ej. subst j. now rewrite <- app_assoc.
        -- reflexivity.
      * intros Hn. apply B. now apply radd_keys_nodup.
      * lia.
      * intros x [<-|Hx]; [lia|auto].
    + intros H. apply IH in H. exact H.
Qed.

(* ---- B. the writers ---- *)
Lemma wlookup_wupdate_same ws sid w : wlookup (wupdate ws sid w) sid = Some w.
Proof.
  induction ws as [|[j x] r IH]; cbn [wupdate wlookup]; [now rewrite N.eqb_refl|].
  destruct (j =? sid) eqn:E; cbn [wlookup]; [now rewrite N.eqb_refl|now rewrite E].
Qed.

Lemma wlookup_wupdate_other ws sid w j : j <> sid -> wlookup (wupdate ws sid w) j = wlookup ws j.
Proof.
  intros Hne. induction ws as [|[i x] r IH]; cbn [wupdate wlookup].
  - assert (E: (sid =? j) = false) by (apply N.eqb_neq; congruence). now rewrite E.
  - destruct (i =? sid) eqn:E; cbn [wlookup].
    + apply N.eqb_eq in E. subst i. assert (E2: (sid =? j) = false) by (apply N.eqb_neq; congruence). now rewrite E2.
    + now rewrite IH.
Qed.

Lemma wents_wupdate ws sid w j :
  wents (wupdate ws sid w) j = if j =? sid then w_ents w else wents ws j.
Proof.
  unfold wents. destruct (j =? sid) eqn:E.
  - apply N.eqb_eq in E. subst j. now rewrite wlookup_wupdate_same.
  - apply N.eqb_neq in E. now rewrite wlookup_wupdate_other.
Qed.

Lemma send_reqs_ents ws reqs ws' :
  send_reqs ws reqs = Some ws' -> NoDup (map fst reqs) ->
  forall sid, wents ws' sid = wents ws sid ++ rents reqs sid.
Proof.
  revert ws. induction reqs as [|[j es] r IH]; intros ws; cbn [send_reqs].
  - intros [= <-] _ sid. now rewrite app_nil_r.
  - intros H Hnd sid. inversion Hnd as [|? ? Hn Hr]; subst.
    assert (Hrj: rents r j = []).
    { clear -Hn. induction r as [|[a b] r IH]; cbn [rents map fst] in *; auto.
      destruct (a =? j) eqn:E; [apply N.eqb_eq in E; subst; exfalso; apply Hn; now left|].
      apply IH. intros Hin. apply Hn. now right. }
    destruct (wlookup ws j) as [w|] eqn:Ew.
    + destruct (w_closed w); [discriminate|].
      destruct (add_all (last_ent (w_ents w)) es); [|discriminate].
      rewrite (IH _ H Hr), wents_wupdate. cbn [rents w_ents].
      destruct (j =? sid) eqn:E.
      * apply N.eqb_eq in E. subst sid. rewrite N.eqb_refl, Hrj, app_nil_r.
        unfold wents. now rewrite Ew.
      * rewrite (N.eqb_sym sid j), E. reflexivity.
    + destruct (add_all None es); [|discriminate].
      rewrite (IH _ H Hr), wents_wupdate. cbn [rents w_ents].
      destruct (j =? sid) eqn:E.
      * apply N.eqb_eq in E. subst sid. rewrite N.eqb_refl, Hrj, app_nil_r.
        unfold wents. now rewrite Ew.
      * rewrite (N.eqb_sym sid j), E. reflexivity.
Qed.

Lemma close_streams_ents ws closed sid : wents (close_streams ws closed) sid = wents ws sid.
Proof.
  revert ws. induction closed as [|c r IH]; intros ws; cbn [close_streams]; auto.
  destruct (wlookup ws c) as [w|] eqn:E; rewrite IH; auto.
  rewrite wents_wupdate. destruct (sid =? c) eqn:E2; auto.
  apply N.eqb_eq in E2. subst c. unfold wents. now rewrite E.
Qed.

(* C26, per stream: a Write call appends to every stream exactly its items, in buffer order *)
Theorem sw_write_ents st items st' :
  sw_write st items = Some st' ->
  forall sid, wents (sw_writers st') sid = wents (sw_writers st) sid ++ stream_ents sid items.
Proof.
  unfold sw_write. destruct items as [|it items]; [intros [= <-] sid; now rewrite app_nil_r|].
  destruct (demux (it :: items) [] [] (sw_max st)) as [[[closed reqs] maxv]|] eqn:Ed; [|discriminate].
  destruct (send_reqs (sw_writers st) reqs) as [ws|] eqn:Es; [|discriminate].
  intros [= <-] sid. cbn [sw_writers]. rewrite close_streams_ents.
  apply demux_spec in Ed. destruct Ed as (A & B & _).
  rewrite (send_reqs_ents _ _ _ Es (B (NoDup_nil _))), A. reflexivity.
Qed.

Lemma stream_ents_app sid a b : stream_ents sid (a ++ b) = stream_ents sid a ++ stream_ents sid b.
Proof. unfold stream_ents. apply flat_map_app. Qed.

Theorem sw_writes_ents st writes st' :
  sw_writes st writes = Some st' ->
  forall sid, wents (sw_writers st') sid = wents (sw_writers st) sid ++ stream_ents sid (concat writes).
Proof.
  revert st. induction writes as [|w r IH]; intros st; cbn [sw_writes concat].
  - intros [= <-] sid. now rewrite app_nil_r.
  - destruct (sw_write st w) as [st1|] eqn:E; [|discriminate]. intros H sid.
    rewrite (IH _ H), (sw_write_ents _ _ _ E), stream_ents_app, app_assoc. reflexivity.
Qed.

(* ---- C. order: what the writers hold is strictly increasing ---- *)
Lemma last_ent_app s e : last_ent (s ++ [e]) = Some e.
Proof. unfold last_ent. rewrite map_app. cbn. now rewrite last_last. Qed.

Lemma last_ent_in s l : last_ent s = Some l -> In l s.
Proof. apply last_some_in. Qed.

Lemma sorted_snoc (s : src) e :
  sorted s -> (forall l, last_ent s = Some l -> lt_ent l e) -> sorted (s ++ [e]).
Proof.
  induction s as [|x s IH]; intros Hs Hl; cbn [app].
  - repeat constructor.
  - inversion Hs as [|? ? Hs' Hall]; subst. constructor.
    + apply IH; auto. intros l Hlast. apply Hl. unfold last_ent in *. cbn [map].
      destruct s as [|y s]; [discriminate|]. exact Hlast.
    + rewrite Forall_forall in *. intros y Hy. apply in_app_or in Hy. destruct Hy as [Hy|[<-|[]]]; auto.
      destruct s as [|z s].
      * apply Hl. reflexivity.
      * destruct (last_some_nonempty (z :: s) ltac:(discriminate)) as (l & Hlast).
        assert (Hlx: lt_ent x l) by (apply Hall; now apply last_some_in).
        eapply lt_ent_trans; [exact Hlx|]. apply Hl. unfold last_ent. cbn [map]. exact Hlast.
Qed.

Lemma add_all_sorted s es : sorted s -> add_all (last_ent s) es = true -> sorted (s ++ es).
Proof.
  revert s. induction es as [|e r IH]; intros s Hs H; [now rewrite app_nil_r|].
  cbn [add_all] in H.
  assert (Hse: sorted (s ++ [e]) /\ add_all (Some e) r = true).
  { destruct (last_ent s) as [l|] eqn:El.
    - destruct (ent_cmp l e) eqn:C; try discriminate. split; auto.
      apply sorted_snoc; auto. intros l' Hl'. assert (l' = l) by congruence. subst l'. exact C.
    - split; auto. apply sorted_snoc; auto. intros l' Hl'. congruence. }
  destruct Hse as [Hse Hr]. replace (s ++ e :: r) with ((s ++ [e]) ++ r) by now rewrite <- app_assoc.
  apply IH; auto. now rewrite last_ent_app.
Qed.

Definition writers_sorted (ws : list (N * swriter)) : Prop := forall sid w, wlookup ws sid = Some w -> sorted (w_ents w).

Lemma send_reqs_sorted ws reqs ws' :
  send_reqs ws reqs = Some ws' -> writers_sorted ws -> writers_sorted ws'.
Proof.
  revert ws. induction reqs as [|[j es] r IH]; intros ws; cbn [send_reqs]; [now intros [= <-]|].
  intros H Hs. destruct (wlookup ws j) as [w|] eqn:Ew.
  - destruct (w_closed w); [discriminate|].
    destruct (add_all (last_ent (w_ents w)) es) eqn:Ea; [|discriminate].
    apply (IH _ H). intros sid w' Hw'. destruct (N.eq_dec sid j) as [->|Hne].
    + rewrite wlookup_wupdate_same in Hw'. inversion Hw'; subst. cbn. apply add_all_sorted; eauto.
    + rewrite wlookup_wupdate_other in Hw' by assumption. eauto.
  - destruct (add_all None es) eqn:Ea; [|discriminate].
    apply (IH _ H). intros sid w' Hw'. destruct (N.eq_dec sid j) as [->|Hne].
    + rewrite wlookup_wupdate_same in Hw'. inversion Hw'; subst. cbn.
      apply (add_all_sorted [] es); [constructor|exact Ea].
    + rewrite wlookup_wupdate_other in Hw' by assumption. eauto.
Qed.

Lemma close_streams_sorted ws closed : writers_sorted ws -> writers_sorted (close_streams ws closed).
Proof.
  revert ws. induction closed as [|c r IH]; intros ws Hs; cbn [close_streams]; auto.
  destruct (wlookup ws c) as [w|] eqn:E; apply IH; auto.
  intros sid w' Hw'. destruct (N.eq_dec sid c) as [->|Hne].
  - rewrite wlookup_wupdate_same in Hw'. inversion Hw'; subst. cbn. eauto.
  - rewrite wlookup_wupdate_other in Hw' by assumption. eauto.
Qed.

Theorem sw_writes_sorted st writes st' :
  sw_writes st writes = Some st' -> writers_sorted (sw_writers st) -> writers_sorted (sw_writers st').
Proof.
  revert st. induction writes as [|w r IH]; intros st; cbn [sw_writes]; [now intros [= <-]|].
  destruct (sw_write st w) as [st1|] eqn:E; [|discriminate]. intros H Hs. apply (IH _ H).
  unfold sw_write in E. destruct w as [|it items]; [now inversion E; subst|].
  destruct (demux _ _ _ _) as [[[closed reqs] maxv]|]; [|discriminate].
  destruct (send_reqs _ _) as [ws|] eqn:Es; [|discriminate]. inversion E; subst. cbn [sw_writers].
  apply close_streams_sorted. eapply send_reqs_sorted; eauto.
Qed.
