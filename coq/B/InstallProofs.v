(* InstallProofs.v — bookkeeping of apply_compaction: which entries the tree holds after a
   compaction is installed (replaceTables + deleteTables), in terms of the picked tables,
   the filtered output and everything that was left alone. *)
From Verif Require Import Bytes BytesProofs Keys Consts Spec Lsm Compact Iter Sys LsmProofs CompactProofs GetProofs MergeProofs C12Proofs.
From Coq Require Import ZifyN ZifyNat ZifyBool Sorting.Sorted.
Open Scope N_scope.

(* ---- set_level / nth ---- *)
Lemma set_level_length ls n l : length (set_level ls n l) = length ls.
Proof.
  revert n. induction ls as [|x r IH]; intros n; cbn; auto. destruct n; cbn; auto.
Qed.

Lemma nth_set_level ls n l i : (n < length ls)%nat ->
  nth i (set_level ls n l) [] = if (i =? n)%nat then l else nth i ls [].
Proof.
  revert n i. induction ls as [|x r IH]; intros n i Hn; [cbn in Hn; lia|].
  destruct n; cbn [set_level].
  - destruct i; reflexivity.
  - destruct i; cbn [nth]; [reflexivity|]. rewrite IH by (cbn in Hn; lia). reflexivity.
Qed.

(* membership in some level, by index *)
Lemma in_levels_nth (ls : list (list table)) t :
  (exists l, In l ls /\ In t l) <-> exists i, (i < length ls)%nat /\ In t (nth i ls []).
Proof.
  split.
  - intros (l & Hl & Ht). apply In_nth with (d:=[]) in Hl. destruct Hl as (i & Hi & <-). eauto.
  - intros (i & Hi & Ht). exists (nth i ls []). split; auto. now apply nth_In.
Qed.

(* ---- table selection by id ---- *)
Lemma in_pick_tables ids l t : In t (pick_tables ids l) <-> In t l /\ in_ids ids t = true.
Proof. unfold pick_tables. apply filter_In. Qed.
Lemma in_drop_tables ids l t : In t (drop_tables ids l) <-> In t l /\ in_ids ids t = false.
Proof. unfold drop_tables. rewrite filter_In, negb_true_iff. tauto. Qed.

(* ---- split_counts covers the output exactly ---- *)
Fixpoint layout_sum (layout : list (N * N)) : nat :=
  match layout with [] => O | (_, n) :: r => (N.to_nat n + layout_sum r)%nat end.

Lemma fold_layout_sum layout a :
  fold_left (fun a ic => (a + N.to_nat (snd ic))%nat) layout a = (a + layout_sum layout)%nat.
Proof.
  revert a. induction layout as [|[i n] r IH]; intros a; cbn [fold_left layout_sum snd]; [lia|].
  rewrite IH. lia.
Qed.

Lemma firstn_add {A} (a b : nat) (s : list A) :
  firstn (a + b) s = firstn a s ++ firstn b (skipn a s).
Proof.
  revert s. induction a as [|a IH]; intros s; cbn; auto.
  destruct s as [|x s]; cbn; [now rewrite firstn_nil|]. now rewrite IH.
Qed.

Lemma split_counts_concat s layout :
  concat (map t_ents (split_counts s layout)) = firstn (layout_sum layout) s.
Proof.
  revert s. induction layout as [|[i n] r IH]; intros s; cbn [split_counts map concat layout_sum t_ents].
  - reflexivity.
  - now rewrite IH, firstn_add.
Qed.

Lemma split_counts_entries s layout x :
  layout_sum layout = length s ->
  (exists t, In t (split_counts s layout) /\ In x (t_ents t)) <-> In x s.
Proof.
  intros H. pose proof (split_counts_concat s layout) as E. rewrite H, firstn_all in E.
  split.
  - intros (t & Ht & Hx). rewrite <- E. apply in_concat. exists (t_ents t). split; auto. now apply in_map.
  - intros Hx. rewrite <- E in Hx. apply in_concat in Hx. destruct Hx as (l & Hl & Hx).
    apply in_map_iff in Hl. destruct Hl as (t & <- & Ht). eauto.
Qed.

Lemma split_counts_ids s layout : map t_id (split_counts s layout) = map fst layout.
Proof.
  revert s. induction layout as [|[i n] r IH]; intros s; cbn; auto. now rewrite IH.
Qed.

(* ---- reorder by an id list that covers the level ---- *)
Lemma reorder_sub order l t : In t (reorder order l) -> In t l.
Proof.
  induction order as [|i r IH]; cbn; [contradiction|].
  destruct (find (fun t0 => t_id t0 =? i) l) eqn:F.
  - intros [<-|H]; auto. apply find_some in F. tauto.
  - auto.
Qed.

Definition ids_unique (l : list table) : Prop :=
  forall a b, In a l -> In b l -> t_id a = t_id b -> a = b.

Lemma find_by_id l t : ids_unique l -> In t l -> find (fun t0 => t_id t0 =? t_id t) l = Some t.
Proof.
  intros Hu Ht. destruct (find (fun t0 => t_id t0 =? t_id t) l) as [t'|] eqn:F.
  - apply find_some in F. destruct F as [Hin E]. apply N.eqb_eq in E. f_equal. now apply Hu.
  - exfalso. eapply find_none in F; eauto. cbn in F. rewrite N.eqb_refl in F. discriminate.
Qed.

Lemma reorder_complete order l t :
  ids_unique l -> In t l -> In (t_id t) order -> In t (reorder order l).
Proof.
  intros Hu Ht. induction order as [|i r IH]; cbn; [contradiction|].
  intros [->|Hi].
  - rewrite (find_by_id l t Hu Ht). now left.
  - destruct (find (fun t0 => t_id t0 =? i) l); [right|]; auto.
Qed.

Lemma existsb_eqb_in x l : existsb (N.eqb x) l = true <-> In x l.
Proof.
  rewrite existsb_exists. split.
  - intros (y & Hy & E). apply N.eqb_eq in E. now subst.
  - intros H. exists x. split; auto. apply N.eqb_refl.
Qed.

Lemma order_ok_covers order nl t :
  order_ok order nl = true -> In t nl -> In (t_id t) order.
Proof.
  unfold order_ok. rewrite !andb_true_iff. intros [[_ H] _] Ht.
  rewrite forallb_forall in H. specialize (H t Ht). now apply existsb_eqb_in.
Qed.

(* ---- ids ---- *)
Definition in_levels (ls : list (list table)) (t : table) : Prop :=
  exists i, (i < length ls)%nat /\ In t (nth i ls []).

Lemma in_levels_concat ls t : in_levels ls t <-> In t (concat ls).
Proof.
  rewrite in_concat. split.
  - intros (i & Hi & Ht). exists (nth i ls []). split; auto. now apply nth_In.
  - intros (l & Hl & Ht). apply In_nth with (d:=[]) in Hl. destruct Hl as (i & Hi & <-). exists i. auto.
Qed.

Lemma nodup_ids_unique (l : list table) : NoDup (map t_id l) -> ids_unique l.
Proof.
  induction l as [|x l IH]; intros Hn a b Ha Hb E; [contradiction|].
  cbn in Hn. inversion Hn as [|? ? Hx Hn']; subst.
  destruct Ha as [->|Ha], Hb as [->|Hb]; auto.
  - exfalso. apply Hx. rewrite E. now apply in_map.
  - exfalso. apply Hx. rewrite <- E. now apply in_map.
  - now apply IH.
Qed.

Lemma nodup_app_inv {A} (l1 l2 : list A) :
  NoDup (l1 ++ l2) -> NoDup l1 /\ NoDup l2 /\ forall x, In x l1 -> ~ In x l2.
Proof.
  induction l1 as [|y l1 IH]; cbn; intros H.
  - repeat split; auto. constructor.
  - inversion H as [|? ? Hy Hn]; subst. destruct (IH Hn) as (A1 & A2 & A3).
    repeat split; auto.
    + constructor; auto. intros Hin. apply Hy. apply in_or_app; now left.
    + intros x [->|Hx]; auto. intros Hin. apply Hy. apply in_or_app; now right.
Qed.

(* two different levels never share a table id *)
Lemma nodup_levels_disjoint ls i j a b :
  NoDup (all_ids ls) -> (i < length ls)%nat -> (j < length ls)%nat -> i <> j ->
  In a (nth i ls []) -> In b (nth j ls []) -> t_id a <> t_id b.
Proof.
  unfold all_ids. revert i j. induction ls as [|l r IH]; intros i j Hn Hi Hj Hij Ha Hb E; [cbn in Hi; lia|].
  cbn [concat] in Hn. rewrite map_app in Hn. destruct (nodup_app_inv _ _ Hn) as (N1 & N2 & N3).
  assert (Hin: forall n x, (n < length r)%nat -> In x (nth n r []) -> In (t_id x) (map t_id (concat r))).
  { intros n x Hlt Hx. apply in_map. apply in_concat. exists (nth n r []). split; auto. now apply nth_In. }
  destruct i as [|i], j as [|j]; try lia; cbn [nth] in Ha, Hb.
  - apply (N3 (t_id a)); [now apply in_map|]. rewrite E. eapply Hin; eauto. cbn in Hj. lia.
  - apply (N3 (t_id b)); [now apply in_map|]. rewrite <- E. eapply Hin; eauto. cbn in Hi. lia.
  - eapply (IH i j); eauto; cbn in Hi, Hj; lia.
Qed.

Lemma nodup_level_unique ls i :
  NoDup (all_ids ls) -> (i < length ls)%nat -> ids_unique (nth i ls []).
Proof.
  unfold all_ids. revert i. induction ls as [|l r IH]; intros i Hn Hi; [cbn in Hi; lia|].
  cbn [concat] in Hn. rewrite map_app in Hn. destruct (nodup_app_inv _ _ Hn) as (N1 & N2 & N3).
  destruct i as [|i]; cbn [nth].
  - now apply nodup_ids_unique.
  - apply IH; [assumption|cbn in Hi; lia].
Qed.

(* ---- which tables the tree holds after apply_compaction ---- *)
Definition picked (ls : list (list table)) (c : compaction) (t : table) : Prop :=
  (In t (nth (c_this c) ls []) /\ in_ids (c_top c) t = true)
  \/ (In t (nth (c_next c) ls []) /\ in_ids (c_bot c) t = true).

Definition new_tables (ls : list (list table)) (c : compaction) : list table :=
  split_counts (compaction_output ls c) (c_layout c).

Definition fresh_layout (ls : list (list table)) (c : compaction) : Prop :=
  (forall i, In i (map fst (c_layout c)) -> ~ In i (all_ids ls)) /\ NoDup (map fst (c_layout c)).

Lemma in_ids_spec ids t : in_ids ids t = true <-> In (t_id t) ids.
Proof. unfold in_ids. apply existsb_eqb_in. Qed.

Lemma in_ids_false ids t : in_ids ids t = false <-> ~ In (t_id t) ids.
Proof. rewrite <- in_ids_spec. destruct (in_ids ids t); split; congruence. Qed.

Lemma level_ids_in_all ls i t : (i < length ls)%nat -> In t (nth i ls []) -> In (t_id t) (all_ids ls).
Proof.
  intros Hi Ht. unfold all_ids. apply in_map. apply in_concat. exists (nth i ls []). split; auto.
  now apply nth_In.
Qed.

Lemma nl_ids_unique ls c :
  NoDup (all_ids ls) -> (c_next c < length ls)%nat -> fresh_layout ls c ->
  ids_unique (drop_tables (c_bot c) (nth (c_next c) ls []) ++ new_tables ls c).
Proof.
  intros Hn Hnext [Hfresh Hnd] a b Ha Hb E.
  apply in_app_or in Ha, Hb.
  assert (Hnew: forall t, In t (new_tables ls c) -> In (t_id t) (map fst (c_layout c))).
  { intros t Ht. unfold new_tables in Ht. rewrite <- (split_counts_ids (compaction_output ls c)).
    now apply in_map. }
  destruct Ha as [Ha|Ha], Hb as [Hb|Hb].
  - apply in_drop_tables in Ha, Hb. destruct Ha as [Ha _], Hb as [Hb _].
    eapply (nodup_level_unique ls (c_next c)); eauto.
  - exfalso. apply in_drop_tables in Ha. destruct Ha as [Ha _].
    apply (Hfresh (t_id b)); [now apply Hnew|]. rewrite <- E. eapply level_ids_in_all; eauto.
  - exfalso. apply in_drop_tables in Hb. destruct Hb as [Hb _].
    apply (Hfresh (t_id a)); [now apply Hnew|]. rewrite E. eapply level_ids_in_all; eauto.
  - (* two new tables with the same id *)
    unfold new_tables in *.
    assert (Hu: ids_unique (split_counts (compaction_output ls c) (c_layout c))).
    { apply nodup_ids_unique. now rewrite split_counts_ids. }
    now apply Hu.
Qed.

Theorem apply_compaction_tables ls c t :
  NoDup (all_ids ls) -> (c_this c < length ls)%nat -> (c_next c < length ls)%nat ->
  fresh_layout ls c ->
  (forall i, In i (c_top c) -> In i (map t_id (nth (c_this c) ls []))) ->
  order_ok (c_order c)
    (let nl := drop_tables (c_bot c) (nth (c_next c) ls []) ++ new_tables ls c in
     if (c_this c =? c_next c)%nat then drop_tables (c_top c) nl else nl) = true ->
  in_levels (apply_compaction ls c) t <->
  (in_levels ls t /\ ~ picked ls c t) \/ In t (new_tables ls c).
Proof.
  intros Hn Hthis Hnext Hfresh Htop Hord.
  pose proof (nl_ids_unique ls c Hn Hnext Hfresh) as Hu.
  set (nl := drop_tables (c_bot c) (nth (c_next c) ls []) ++ new_tables ls c) in *.
  unfold apply_compaction. fold (new_tables ls c). fold nl.
  set (ls1 := set_level ls (c_next c) (reorder (c_order c) nl)).
  assert (L1: length ls1 = length ls) by apply set_level_length.
  assert (Hnew_fresh: forall x, In x (new_tables ls c) -> ~ In (t_id x) (all_ids ls)).
  { intros x Hx. destruct Hfresh as [Hf _]. apply Hf. unfold new_tables in Hx.
    rewrite <- (split_counts_ids (compaction_output ls c)). now apply in_map. }
  assert (Hnew_not_top: forall x, In x (new_tables ls c) -> in_ids (c_top c) x = false).
  { intros x Hx. apply in_ids_false. intros Hin. apply (Hnew_fresh x Hx).
    specialize (Htop _ Hin). apply in_map_iff in Htop. destruct Htop as (t0 & E & Ht0).
    rewrite <- E. exact (level_ids_in_all ls (c_this c) t0 Hthis Ht0). }
  unfold in_levels at 1. rewrite set_level_length, L1.
  split.
  - intros (i & Hi & Hti). rewrite nth_set_level in Hti by lia.
    destruct (i =? c_this c)%nat eqn:Ei.
    + apply Nat.eqb_eq in Ei. subst i. apply in_drop_tables in Hti. destruct Hti as [Hti Hnt].
      unfold ls1 in Hti. rewrite nth_set_level in Hti by lia.
      destruct (c_this c =? c_next c)%nat eqn:En.
      * apply Nat.eqb_eq in En. apply reorder_sub in Hti. unfold nl in Hti. apply in_app_or in Hti.
        destruct Hti as [Hti|Hti]; [|now right]. left. apply in_drop_tables in Hti. destruct Hti as [Hl Hnb].
        split; [exists (c_next c); auto|]. intros [[_ P]|[_ P]]; congruence.
      * left. split; [exists (c_this c); auto|]. intros [[_ P]|[Hl P]]; [congruence|].
        apply Nat.eqb_neq in En.
        eapply (nodup_levels_disjoint ls (c_this c) (c_next c) t t); eauto.
    + unfold ls1 in Hti. rewrite nth_set_level in Hti by lia.
      destruct (i =? c_next c)%nat eqn:En.
      * apply Nat.eqb_eq in En. subst i. apply reorder_sub in Hti. unfold nl in Hti. apply in_app_or in Hti.
        destruct Hti as [Hti|Hti]; [|now right]. left. apply in_drop_tables in Hti. destruct Hti as [Hl Hnb].
        split; [exists (c_next c); auto|]. apply Nat.eqb_neq in Ei.
        intros [[Hl' P]|[_ P]]; [|congruence].
        eapply (nodup_levels_disjoint ls (c_next c) (c_this c) t t); eauto.
      * left. apply Nat.eqb_neq in Ei, En. split; [exists i; auto|].
        intros [[Hl' P]|[Hl' P]].
        -- eapply (nodup_levels_disjoint ls i (c_this c) t t); eauto.
        -- eapply (nodup_levels_disjoint ls i (c_next c) t t); eauto.
  - intros [[(i & Hi & Hti) Hnp]|Hnew].
    + (* an old table that was not picked stays in its level *)
      exists i. split; [lia|]. rewrite nth_set_level by lia.
      assert (Hnt: i = c_this c -> in_ids (c_top c) t = false).
      { intros ->. destruct (in_ids (c_top c) t) eqn:P; auto. exfalso. apply Hnp. left. auto. }
      assert (Hnb: i = c_next c -> in_ids (c_bot c) t = false).
      { intros ->. destruct (in_ids (c_bot c) t) eqn:P; auto. exfalso. apply Hnp. right. auto. }
      assert (Hreo: i = c_next c -> In t (reorder (c_order c) nl)).
      { intros ->. apply reorder_complete; auto.
        - unfold nl. apply in_or_app. left. apply in_drop_tables. auto.
        - eapply order_ok_covers; eauto.
          assert (Hin: In t nl) by (unfold nl; apply in_or_app; left; apply in_drop_tables; auto).
          destruct (c_this c =? c_next c)%nat eqn:En; auto.
          apply Nat.eqb_eq in En. apply in_drop_tables. split; auto; try (apply Hnt; lia). }
      destruct (i =? c_this c)%nat eqn:Ei.
      * apply Nat.eqb_eq in Ei. subst i. apply in_drop_tables. split; [|auto].
        unfold ls1. rewrite nth_set_level by lia.
        destruct (c_this c =? c_next c)%nat eqn:En; auto. apply Nat.eqb_eq in En. auto.
      * unfold ls1. rewrite nth_set_level by lia.
        destruct (i =? c_next c)%nat eqn:En; auto. apply Nat.eqb_eq in En. auto.
    + (* a new table lands in the output level *)
      assert (Hin: In t nl) by (unfold nl; apply in_or_app; now right).
      assert (Hreo: In t (reorder (c_order c) nl)).
      { apply reorder_complete; auto. eapply order_ok_covers; eauto.
        destruct (c_this c =? c_next c)%nat; auto. apply in_drop_tables. split; auto. }
      exists (c_next c). split; [lia|]. rewrite nth_set_level by lia.
      destruct (c_next c =? c_this c)%nat eqn:E.
      * apply in_drop_tables. split; [|auto]. unfold ls1. rewrite nth_set_level by lia.
        apply Nat.eqb_eq in E. rewrite <- E, Nat.eqb_refl. exact Hreo.
      * unfold ls1. rewrite nth_set_level by lia. now rewrite Nat.eqb_refl.
Qed.

(* ---- from tables to entries ---- *)
Definition picked_ids (c : compaction) : list N := c_top c ++ c_bot c.
Definition rest_tables (ls : list (list table)) (c : compaction) : list table :=
  filter (fun t => negb (in_ids (picked_ids c) t)) (concat ls).
Definition rest_entries (ls : list (list table)) (c : compaction) : list entry :=
  concat (map t_ents (rest_tables ls c)).

Definition pick_wf (ls : list (list table)) (c : compaction) : Prop :=
  (c_this c < length ls)%nat /\ (c_next c < length ls)%nat
  /\ (forall i, In i (c_top c) -> In i (map t_id (nth (c_this c) ls [])))
  /\ (forall i, In i (c_bot c) -> In i (map t_id (nth (c_next c) ls []))).

Lemma same_id_same_place ls i j a b :
  NoDup (all_ids ls) -> (i < length ls)%nat -> (j < length ls)%nat ->
  In a (nth i ls []) -> In b (nth j ls []) -> t_id a = t_id b -> i = j /\ a = b.
Proof.
  intros Hn Hi Hj Ha Hb E. destruct (Nat.eq_dec i j) as [->|Hne].
  - split; auto. eapply (nodup_level_unique ls j); eauto.
  - exfalso. eapply (nodup_levels_disjoint ls i j a b); eauto.
Qed.

Lemma picked_iff_ids ls c t :
  NoDup (all_ids ls) -> pick_wf ls c -> in_levels ls t ->
  (picked ls c t <-> in_ids (picked_ids c) t = true).
Proof.
  intros Hn (Hthis & Hnext & Htop & Hbot) (i & Hi & Hti). unfold picked, picked_ids.
  rewrite (in_ids_spec (c_top c ++ c_bot c)), in_app_iff. split.
  - intros [[_ P]|[_ P]]; apply in_ids_spec in P; auto.
  - intros [P|P].
    + specialize (Htop _ P). apply in_map_iff in Htop. destruct Htop as (t0 & E & Ht0).
      destruct (same_id_same_place ls i (c_this c) t t0 Hn Hi Hthis Hti Ht0 (eq_sym E)) as [-> ->].
      left. split; auto. now apply in_ids_spec.
    + specialize (Hbot _ P). apply in_map_iff in Hbot. destruct Hbot as (t0 & E & Ht0).
      destruct (same_id_same_place ls i (c_next c) t t0 Hn Hi Hnext Hti Ht0 (eq_sym E)) as [-> ->].
      right. split; auto. now apply in_ids_spec.
Qed.

Lemma keep_table_nil t : keep_table [] t = true.
Proof. reflexivity. Qed.

Lemma filter_keep_nil l : filter (keep_table []) l = l.
Proof. induction l as [|x l IH]; cbn; auto. now rewrite IH. Qed.

(* the compaction reads exactly the entries of the picked tables *)
Lemma inputs_entries ls c x :
  c_drop c = [] ->
  In x (concat (compaction_inputs ls c)) <-> exists t, picked ls c t /\ In x (t_ents t).
Proof.
  intros Hd. unfold compaction_inputs, picked. rewrite Hd, filter_keep_nil.
  rewrite concat_app, in_app_iff. cbn [concat]. rewrite app_nil_r.
  assert (Htop: In x (concat (match c_this c with
                                | O => map t_ents (rev (pick_tables (c_top c) (nth (c_this c) ls [])))
                                | S _ => map t_ents (pick_tables (c_top c) (nth (c_this c) ls []))
                                end))
                <-> exists t, (In t (nth (c_this c) ls []) /\ in_ids (c_top c) t = true) /\ In x (t_ents t)).
  { destruct (c_this c); rewrite in_concat; split.
    - intros (l & Hl & Hx). apply in_map_iff in Hl. destruct Hl as (t & <- & Ht). apply in_rev in Ht.
      apply in_pick_tables in Ht. eauto.
    - intros (t & Ht & Hx). exists (t_ents t). split; auto. apply in_map. apply -> in_rev.
      now apply in_pick_tables.
    - intros (l & Hl & Hx). apply in_map_iff in Hl. destruct Hl as (t & <- & Ht).
      apply in_pick_tables in Ht. eauto.
    - intros (t & Ht & Hx). exists (t_ents t). split; auto. apply in_map. now apply in_pick_tables. }
  rewrite Htop, in_concat. split.
  - intros [(t & Ht & Hx)|(l & Hl & Hx)]; [eauto|].
    apply in_map_iff in Hl. destruct Hl as (t & <- & Ht). apply in_pick_tables in Ht. eauto.
  - intros (t & [Ht|Ht] & Hx); [left; eauto|].
    right. exists (t_ents t). split; auto. apply in_map. now apply in_pick_tables.
Qed.

Lemma rest_entries_in ls c x :
  In x (rest_entries ls c) <->
  exists t, in_levels ls t /\ in_ids (picked_ids c) t = false /\ In x (t_ents t).
Proof.
  unfold rest_entries, rest_tables. rewrite in_concat. split.
  - intros (l & Hl & Hx). apply in_map_iff in Hl. destruct Hl as (t & <- & Ht).
    apply filter_In in Ht. destruct Ht as [Ht Hn]. apply negb_true_iff in Hn.
    exists t. split; [now apply in_levels_concat|auto].
  - intros (t & Ht & Hn & Hx). exists (t_ents t). split; auto. apply in_map. apply filter_In.
    split; [now apply in_levels_concat|now apply negb_true_iff].
Qed.

Lemma levels_entries_before ls c x :
  NoDup (all_ids ls) -> pick_wf ls c -> c_drop c = [] ->
  (exists t, in_levels ls t /\ In x (t_ents t)) <->
  In x (concat (compaction_inputs ls c)) \/ In x (rest_entries ls c).
Proof.
  intros Hn Hwf Hd. rewrite inputs_entries by assumption. rewrite rest_entries_in. split.
  - intros (t & Ht & Hx). destruct (in_ids (picked_ids c) t) eqn:P.
    + left. exists t. split; auto. now apply (picked_iff_ids ls c t Hn Hwf Ht).
    + right. eauto.
  - intros [(t & Hp & Hx)|(t & Ht & _ & Hx)]; [|eauto].
    exists t. split; auto. destruct Hwf as (Hthis & Hnext & _).
    destruct Hp as [[Hl _]|[Hl _]]; [exists (c_this c)|exists (c_next c)]; auto.
Qed.

Lemma levels_entries_after ls c x :
  NoDup (all_ids ls) -> pick_wf ls c -> fresh_layout ls c ->
  layout_sum (c_layout c) = length (compaction_output ls c) ->
  order_ok (c_order c)
    (let nl := drop_tables (c_bot c) (nth (c_next c) ls []) ++ new_tables ls c in
     if (c_this c =? c_next c)%nat then drop_tables (c_top c) nl else nl) = true ->
  (exists t, in_levels (apply_compaction ls c) t /\ In x (t_ents t)) <->
  In x (compaction_output ls c) \/ In x (rest_entries ls c).
Proof.
  intros Hn Hwf Hfresh Hsum Hord. pose proof Hwf as (Hthis & Hnext & Htop & Hbot).
  rewrite rest_entries_in. split.
  - intros (t & Ht & Hx). apply (apply_compaction_tables ls c t Hn Hthis Hnext Hfresh Htop Hord) in Ht.
    destruct Ht as [[Ht Hnp]|Ht].
    + right. exists t. split; auto. split; auto.
      destruct (in_ids (picked_ids c) t) eqn:P; auto. exfalso. apply Hnp.
      now apply (picked_iff_ids ls c t Hn Hwf Ht).
    + left. apply (split_counts_entries _ _ x Hsum). eauto.
  - intros [Hx|(t & Ht & Hnp & Hx)].
    + apply (split_counts_entries _ _ x Hsum) in Hx. destruct Hx as (t & Ht & Hx).
      exists t. split; auto. apply (apply_compaction_tables ls c t Hn Hthis Hnext Hfresh Htop Hord). now right.
    + exists t. split; auto. apply (apply_compaction_tables ls c t Hn Hthis Hnext Hfresh Htop Hord).
      left. split; auto. intros Hp. apply (picked_iff_ids ls c t Hn Hwf Ht) in Hp. congruence.
Qed.

(* ---- Theorem C: an installed compaction preserves every Get at ts >= discard ---- *)
Definition tree_after (d : lsm) (c : compaction) : lsm :=
  mkLsm (l_mt d) (l_imm d) (apply_compaction (l_levels d) c).
Definition outside (d : lsm) (c : compaction) : list entry :=
  l_mt d ++ concat (l_imm d) ++ rest_entries (l_levels d) c.
Definition cparams_of (ls : list (list table)) (c : compaction) : cparams :=
  mkCP (c_discard c) (c_nkeep c) (compaction_overlap ls c) (c_drop c) (c_now c).

Lemma levels_exists_conv (ls : list (list table)) x :
  (exists l t, In l ls /\ In t l /\ In x (t_ents t)) <-> (exists t, in_levels ls t /\ In x (t_ents t)).
Proof.
  split.
  - intros (l & t & Hl & Ht & Hx). exists t. split; auto. apply in_levels_nth. eauto.
  - intros (t & Ht & Hx). apply in_levels_nth in Ht. destruct Ht as (l & Hl & Ht). eauto.
Qed.

Theorem installed_compaction_preserves_get d c k ts now' :
  let ls := l_levels d in
  lsm_wf d -> lsm_wf (tree_after d c) ->
  NoDup (all_ids ls) -> pick_wf ls c -> fresh_layout ls c ->
  layout_sum (c_layout c) = length (compaction_output ls c) ->
  order_ok (c_order c)
    (let nl := drop_tables (c_bot c) (nth (c_next c) ls []) ++ new_tables ls c in
     if (c_this c =? c_next c)%nat then drop_tables (c_top c) nl else nl) = true ->
  c_drop c = [] ->
  nodup_kv (all_entries d) ->
  Forall sorted (compaction_inputs ls c) ->
  (forall e, In e (concat (compaction_inputs ls c)) -> dead_marker (cparams_of ls c) e ->
     compaction_overlap ls c = false ->
     forall o, In o (outside d c) -> e_key o = e_key e -> e_ver e < e_ver o) ->
  c_discard c <= ts -> c_now c <= now' ->
  vis_of now' (db_get (tree_after d c) k ts) = vis_of now' (db_get d k ts).
Proof.
  intros ls Hwf Hwf' Hn Hpw Hfresh Hsum Hord Hdrop Hnd Hsorted HR Hts Hnow.
  apply (compaction_preserves_get d (tree_after d c) (cparams_of ls c)
           (compaction_inputs ls c) (outside d c)); auto.
  - intros x. rewrite all_entries_in, levels_exists_conv. fold ls.
    rewrite (levels_entries_before ls c x Hn Hpw Hdrop).
    unfold outside. rewrite !in_app_iff.
    split.
    + intros [H|[(s0 & A & B)|[H|H]]]; auto.
      right. right. left. apply in_concat. eauto.
    + intros [H|[H|[H|H]]]; auto. apply in_concat in H. destruct H as (s0 & A & B). right. left. eauto.
  - intros x. rewrite all_entries_in, levels_exists_conv. cbn [tree_after l_mt l_imm l_levels]. fold ls.
    rewrite (levels_entries_after ls c x Hn Hpw Hfresh Hsum Hord).
    unfold outside, compaction_output, cparams_of. rewrite !in_app_iff.
    split.
    + intros [H|[(s0 & A & B)|[H|H]]]; auto.
      right. right. left. apply in_concat. eauto.
    + intros [H|[H|[H|H]]]; auto. apply in_concat in H. destruct H as (s0 & A & B). right. left. eauto.
Qed.
