(* InstallProofs.v — bookkeeping of apply_compaction: which entries the tree holds after a
   compaction is installed (replaceTables + deleteTables), in terms of the picked tables,
   the filtered output and everything that was left alone. *)
From Verif Require Import Bytes BytesProofs Keys Consts Spec Lsm Compact Iter Sys LsmProofs CompactProofs GetProofs MergeProofs C12Proofs.
From Coq Require Import ZifyN ZifyNat ZifyBool Sorting.Sorted.
Open Scope N_scope.

(* ---- set_level / nth ---- *)
Lemma set_level_length ls n l : length (set_level ls n l) = length ls.
Proof.
  revert n. induction ls as [|x r IH]; intros n; cbn; auto. destruct n; cbn; auto.
Qed.

Lemma nth_set_level ls n l i : (n < length ls)%nat ->
  nth i (set_level ls n l) [] = if (i =? n)%nat then l else nth i ls [].
Proof.
  revert n i. induction ls as [|x r IH]; intros n i Hn; [cbn in Hn; lia|].
  destruct n; cbn [set_level].
  - destruct i; reflexivity.
  - destruct i; cbn [nth]; [reflexivity|]. rewrite IH by (cbn in Hn; lia). reflexivity.
Qed.

(* membership in some level, by index *)
Lemma in_levels_nth (ls : list (list table)) t :
  (exists l, In l ls /\ In t l) <-> exists i, (i < length ls)%nat /\ In t (nth i ls []).
Proof.
  split.
  - intros (l & Hl & Ht). apply In_nth with (d:=[]) in Hl. destruct Hl as (i & Hi & <-). eauto.
  - intros (i & Hi & Ht). exists (nth i ls []). split; auto. now apply nth_In.
Qed.

(* ---- table selection by id ---- *)
Lemma in_pick_tables ids l t : In t (pick_tables ids l) <-> In t l /\ in_ids ids t = true.
Proof. unfold pick_tables. apply filter_In. Qed.
Lemma in_drop_tables ids l t : In t (drop_tables ids l) <-> In t l /\ in_ids ids t = false.
Proof. unfold drop_tables. rewrite filter_In, negb_true_iff. tauto. Qed.

(* ---- split_counts covers the output exactly ---- *)
Fixpoint layout_sum (layout : list (N * N)) : nat :=
  match layout with [] => O | (_, n) :: r => (N.to_nat n + layout_sum r)%nat end.

Lemma fold_layout_sum layout a :
  fold_left (fun a ic => (a + N.to_nat (snd ic))%nat) layout a = (a + layout_sum layout)%nat.
Proof.
  revert a. induction layout as [|[i n] r IH]; intros a; cbn [fold_left layout_sum snd]; [lia|].
  rewrite IH. lia.
Qed.

Lemma firstn_add {A} (a b : nat) (s : list A) :
  firstn (a + b) s = firstn a s ++ firstn b (skipn a s).
Proof.
  revert s. induction a as [|a IH]; intros s; cbn; auto.
  destruct s as [|x s]; cbn; [now rewrite firstn_nil|]. now rewrite IH.
Qed.

Lemma split_counts_concat s layout :
  concat (map t_ents (split_counts s layout)) = firstn (layout_sum layout) s.
Proof.
  revert s. induction layout as [|[i n] r IH]; intros s; cbn [split_counts map concat layout_sum t_ents].
  - reflexivity.
  - now rewrite IH, firstn_add.
Qed.

Lemma split_counts_entries s layout x :
  layout_sum layout = length s ->
  (exists t, In t (split_counts s layout) /\ In x (t_ents t)) <-> In x s.
Proof.
  intros H. pose proof (split_counts_concat s layout) as E. rewrite H, firstn_all in E.
  split.
  - intros (t & Ht & Hx). rewrite <- E. apply in_concat. exists (t_ents t). split; auto. now apply in_map.
  - intros Hx. rewrite <- E in Hx. apply in_concat in Hx. destruct Hx as (l & Hl & Hx).
    apply in_map_iff in Hl. destruct Hl as (t & <- & Ht). eauto.
Qed.

Lemma split_counts_ids s layout : map t_id (split_counts s layout) = map fst layout.
Proof.
  revert s. induction layout as [|[i n] r IH]; intros s; cbn; auto. now rewrite IH.
Qed.

(* ---- reorder by an id list that covers the level ---- *)
Lemma reorder_sub order l t : In t (reorder order l) -> In t l.
Proof.
  induction order as [|i r IH]; cbn; [contradiction|].
  destruct (find (fun t0 => t_id t0 =? i) l) eqn:F.
  - intros [<-|H]; auto. apply find_some in F. tauto.
  - auto.
Qed.

Definition ids_unique (l : list table) : Prop :=
  forall a b, In a l -> In b l -> t_id a = t_id b -> a = b.

Lemma find_by_id l t : ids_unique l -> In t l -> find (fun t0 => t_id t0 =? t_id t) l = Some t.
Proof.
  intros Hu Ht. destruct (find (fun t0 => t_id t0 =? t_id t) l) as [t'|] eqn:F.
  - apply find_some in F. destruct F as [Hin E]. apply N.eqb_eq in E. f_equal. now apply Hu.
  - exfalso. eapply find_none in F; eauto. cbn in F. rewrite N.eqb_refl in F. discriminate.
Qed.

Lemma reorder_complete order l t :
  ids_unique l -> In t l -> In (t_id t) order -> In t (reorder order l).
Proof.
  intros Hu Ht. induction order as [|i r IH]; cbn; [contradiction|].
  intros [->|Hi].
  - rewrite (find_by_id l t Hu Ht). now left.
  - destruct (find (fun t0 => t_id t0 =? i) l); [right|]; auto.
Qed.

Lemma existsb_eqb_in x l : existsb (N.eqb x) l = true <-> In x l.
Proof.
  rewrite existsb_exists. split.
  - intros (y & Hy & E). apply N.eqb_eq in E. now subst.
  - intros H. exists x. split; auto. apply N.eqb_refl.
Qed.

Lemma order_ok_covers order nl t :
  order_ok order nl = true -> In t nl -> In (t_id t) order.
Proof.
  unfold order_ok. rewrite !andb_true_iff. intros [[_ H] _] Ht.
  rewrite forallb_forall in H. specialize (H t Ht). now apply existsb_eqb_in.
Qed.

(* ---- ids ---- *)
Definition in_levels (ls : list (list table)) (t : table) : Prop :=
  exists i, (i < length ls)%nat /\ In t (nth i ls []).

Lemma in_levels_concat ls t : in_levels ls t <-> In t (concat ls).
Proof.
  rewrite in_concat. split.
  - intros (i & Hi & Ht). exists (nth i ls []). split; auto. now apply nth_In.
  - intros (l & Hl & Ht). apply In_nth with (d:=[]) in Hl. destruct Hl as (i & Hi & <-). exists i. auto.
Qed.

Lemma nodup_ids_unique (l : list table) : NoDup (map t_id l) -> ids_unique l.
Proof.
  induction l as [|x l IH]; intros Hn a b Ha Hb E; [contradiction|].
  cbn in Hn. inversion Hn as [|? ? Hx Hn']; subst.
  destruct Ha as [->|Ha], Hb as [->|Hb]; auto.
  - exfalso. apply Hx. rewrite E. now apply in_map.
  - exfalso. apply Hx. rewrite <- E. now apply in_map.
  - now apply IH.
Qed.

Lemma nodup_app_inv {A} (l1 l2 : list A) :
  NoDup (l1 ++ l2) -> NoDup l1 /\ NoDup l2 /\ forall x, In x l1 -> ~ In x l2.
Proof.
  induction l1 as [|y l1 IH]; cbn; intros H.
  - repeat split; auto. constructor.
  - inversion H as [|? ? Hy Hn]; subst. destruct (IH Hn) as (A1 & A2 & A3).
    repeat split; auto.
    + constructor; auto. intros Hin. apply Hy. apply in_or_app; now left.
    + intros x [->|Hx]; auto. intros Hin. apply Hy. apply in_or_app; now right.
Qed.

(* two different levels never share a table id *)
Lemma nodup_levels_disjoint ls i j a b :
  NoDup (all_ids ls) -> (i < length ls)%nat -> (j < length ls)%nat -> i <> j ->
  In a (nth i ls []) -> In b (nth j ls []) -> t_id a <> t_id b.
Proof.
  unfold all_ids. revert i j. induction ls as [|l r IH]; intros i j Hn Hi Hj Hij Ha Hb E; [cbn in Hi; lia|].
  cbn [concat] in Hn. rewrite map_app in Hn. destruct (nodup_app_inv _ _ Hn) as (N1 & N2 & N3).
  assert (Hin: forall n x, (n < length r)%nat -> In x (nth n r []) -> In (t_id x) (map t_id (concat r))).
  { intros n x Hlt Hx. apply in_map. apply in_concat. exists (nth n r []). split; auto. now apply nth_In. }
  destruct i as [|i], j as [|j]; try lia; cbn [nth] in Ha, Hb.
  - apply (N3 (t_id a)); [now apply in_map|]. rewrite E. eapply Hin; eauto. cbn in Hj. lia.
  - apply (N3 (t_id b)); [now apply in_map|]. rewrite <- E. eapply Hin; eauto. cbn in Hi. lia.
  - eapply (IH i j); eauto; cbn in Hi, Hj; lia.
Qed.

Lemma nodup_level_unique ls i :
  NoDup (all_ids ls) -> (i < length ls)%nat -> ids_unique (nth i ls []).
Proof.
  unfold all_ids. revert i. induction ls as [|l r IH]; intros i Hn Hi; [cbn in Hi; lia|].
  cbn [concat] in Hn. rewrite map_app in Hn. destruct (nodup_app_inv _ _ Hn) as (N1 & N2 & N3).
  destruct i as [|i]; cbn [nth].
  - now apply nodup_ids_unique.
  - apply IH; [assumption|cbn in Hi; lia].
Qed.
