(* TxnLog.v — the commit log of a history: a ghost function of the labels and the pre-states
   the model goes through (definitions only; the theorems of C02/C03 are stated over it).

   One record per Commit that got past the conflict check with a non-empty write set:
   cr_applied = true  : the commit succeeded (entries applied, Commit returned nil)
   cr_applied = false : the commit was refused after newCommitTs (SysRejected.v): nothing applied. *)
From Verif Require Import Bytes Keys Consts Spec Lsm Compact Iter Sys SysRejected.
Open Scope N_scope.

Record crec := mkCR {
  cr_txn : N;
  cr_rts : N;                 (* read timestamp of the transaction *)
  cr_cts : N;                 (* commit timestamp it was given *)
  cr_rd : list bytes;         (* the reads it had recorded (Get misses in pending, iterator items, Seek keys) *)
  cr_keys : list bytes;       (* its conflict keys = keys of pendingWrites *)
  cr_wr : list entry;         (* the entries of its write request, in application order *)
  cr_applied : bool }.

Definition rec_of (t : N) (x : txn) (ts : N) (applied : bool) : crec :=
  mkCR t (x_read x) ts (x_reads x) (map fst (x_pend x)) (commit_entries x ts) applied.

Definition nonempty {A} (l : list A) : bool := match l with [] => false | _ => true end.

(* the record a label adds to the log, computed in the label's pre-state *)
Definition commit_rec (s : sys) (o : op) : list crec :=
  match o with
  | Commit t cts _ =>
      match lookup (s_txns s) t with
      | Some x => let '(r', ts, _) := txn_commit s t x cts in
                  if (r' =? 0) && nonempty (x_pend x) then [rec_of t x ts true] else []
      | None => []
      end
  | _ => []
  end.

Definition rejected_rec (fx : bool) (s : sys) (t cts code : N) : list crec :=
  match lookup (s_txns s) t with
  | Some x => let '(r', ts, _) := rejected_commit fx s t x cts code in
              if (r' =? code) && nonempty (x_pend x) && negb (x_done x) then [rec_of t x ts false] else []
  | None => []
  end.

Definition xcommit_rec (fx : bool) (s : xsys) (o : xop) : list crec :=
  match o with
  | XBlock _ => []
  | XTooBig t cts => rejected_rec fx (x_base s) t cts c_errTooBig
  | Base (Commit t cts r) =>
      if x_blocked s then rejected_rec fx (x_base s) t cts c_errBlocked
      else commit_rec (x_base s) (Commit t cts r)
  | Base o => []
  end.

(* replay with the log; None = some label was not accepted by the model *)
Fixpoint run (s : sys) (L : list crec) (ops : list op) : option (sys * list crec) :=
  match ops with
  | [] => Some (s, L)
  | o :: r => match step s o with
              | Ok s' => run s' (L ++ commit_rec s o) r
              | Bad _ => None
              end
  end.

Fixpoint xrun (fx : bool) (s : xsys) (L : list crec) (ops : list xop) : option (xsys * list crec) :=
  match ops with
  | [] => Some (s, L)
  | o :: r => match xstep fx s o with
              | XOk s' => xrun fx s' (L ++ xcommit_rec fx s o) r
              | XBad _ => None
              end
  end.

(* the log of an accepted base history *)
Definition history (s0 : sys) (ops : list op) : list crec :=
  match run s0 [] ops with Some (_, L) => L | None => [] end.

(* the entries applied by the log, in application order (= the specification's write history) *)
Definition log_writes (L : list crec) : list entry :=
  concat (map cr_wr (filter cr_applied L)).

(* what the conflict log holds for a record *)
Definition ckey (c : crec) : N * list bytes := (cr_cts c, cr_keys c).

(* records that are in committedTxns: the applied ones, and on the pinned tree (fx = false) the
   rejected ones too *)
Definition logged (fx : bool) (c : crec) : bool := cr_applied c || negb fx.

(* labels of the transaction API: Set / SetEntry / Delete cannot choose a version
   (entries with their own version come from WriteBatch.SetEntryAt: C27 / C36) *)
Definition op_api (o : op) : Prop :=
  match o with Modify _ e _ => e_ver e = 0 | _ => True end.
Definition xop_api (o : xop) : Prop :=
  match o with Base o => op_api o | _ => True end.
Definition op_nocompact (o : op) : Prop :=
  match o with Compact _ _ => False | _ => True end.
Definition xop_nocompact (o : xop) : Prop :=
  match o with Base o => op_nocompact o | _ => True end.
