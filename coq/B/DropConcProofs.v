(* DropConcProofs.v — DropAll's handshake always makes progress (every committer ends Done or
   Rejected, the drop finishes); DropPrefix's can deadlock (finding F29), exactly when a
   request is sent into writeCh while doWrites is stopped. *)
From Coq Require Import List Bool Arith Lia.
Import ListNotations.
From Verif Require Import DropConc.

Lemma not_all_terminal ws : forallb terminal ws = false -> exists i w, nth_error ws i = Some w /\ terminal w = false.
Proof.
  induction ws as [|x r IH]; cbn; [discriminate|].
  destruct (terminal x) eqn:E; cbn.
  - intros H. destruct (IH H) as (i & w & A & B). exists (S i), w. auto.
  - intros _. exists O, x. auto.
Qed.

(* the only obstacle to progress: a request in writeCh that nobody will serve, i.e. an unserved
   Sent committer while doWrites is not running *)
Definition orphan_request (s : cstate) : Prop :=
  running (c_drop s) = false /\ exists i, nth_error (c_ws s) i = Some (WSent false).

Lemma progress_or_orphan prefix s :
  final s = false -> (exists s', step prefix s s') \/ (prefix = true /\ c_drop s = DDrained /\ orphan_request s).
Proof.
  intros Hf.
  destruct (dstep prefix s) as [s'|] eqn:Ed; [left; exists s'; now constructor|].
  unfold dstep in Ed. destruct (c_drop s) eqn:Edp; try discriminate.
  - (* Drained, DropPrefix, a timestamp pending *)
    destruct prefix; cbn [andb] in Ed; [|discriminate].
    destruct (existsb pending (c_ws s)) eqn:Ep; [|discriminate].
    apply existsb_exists in Ep. destruct Ep as (w & Hin & Hp).
    destruct (In_nth_error _ _ Hin) as (i & Hi).
    destruct w; try discriminate.
    + left. eexists. eapply (SWriter true s i WStamped); eauto. reflexivity.
    + left. eexists. eapply (SWriter true s i WChecked); eauto. reflexivity.
    + destruct served; [discriminate|]. right. split; auto. split; auto. split; [now rewrite Edp|eauto].
  - (* the drop is finished: some committer is not, and can move or be served *)
    unfold final in Hf. rewrite Edp in Hf.
    destruct (not_all_terminal _ Hf) as (i & w & Hi & Ht). left.
    destruct w; try discriminate.
    + eexists. eapply (SWriter prefix s i WStart); eauto. reflexivity.
    + eexists. eapply (SWriter prefix s i WStamped); eauto. reflexivity.
    + eexists. eapply (SWriter prefix s i WChecked); eauto. reflexivity.
    + destruct served.
      * eexists. eapply (SWriter prefix s i (WSent true)); eauto. reflexivity.
      * eexists. eapply (SServe prefix s i); eauto. now rewrite Edp.
Qed.

(* DropAll: from EVERY state that is not final some step is enabled (no deadlock, any number
   of committers, any interleaving) *)
Theorem dropall_progress s : final s = false -> exists s', step false s s'.
Proof.
  intros Hf. destruct (progress_or_orphan false s Hf) as [H|[H _]]; [exact H|discriminate].
Qed.

(* DropPrefix: progress unless a request was sent into writeCh while doWrites is stopped *)
Theorem dropprefix_progress_partial s :
  final s = false -> ~ orphan_request s -> exists s', step true s s'.
Proof.
  intros Hf Hn. destruct (progress_or_orphan true s Hf) as [H|(_ & _ & H)]; [exact H|contradiction].
Qed.

(* F29: one committer.  It takes its timestamp and passes the blockWrites check; the drop
   blocks writes, stops doWrites, drains writeCh; the committer sends; the drop's View waits
   for the committer's timestamp, the committer waits for doWrites: nothing can move. *)
Definition f29_state : cstate := mkCS DDrained [WSent false].

Theorem dropprefix_deadlock_refuted :
  steps true (init 1) f29_state /\ stuck true f29_state.
Proof.
  split.
  - eapply steps_cons; [apply (SWriter true (init 1) 0 WStart WStamped); reflexivity|].
    eapply steps_cons; [apply (SWriter true (mkCS D0 [WStamped]) 0 WStamped WChecked); reflexivity|].
    eapply steps_cons; [apply (SDrop true (mkCS D0 [WChecked])); reflexivity|].
    eapply steps_cons; [apply (SDrop true (mkCS DBlocked [WChecked])); reflexivity|].
    eapply steps_cons; [apply (SDrop true (mkCS DStopped [WChecked])); reflexivity|].
    eapply steps_cons; [apply (SWriter true (mkCS DDrained [WChecked]) 0 WChecked (WSent false)); reflexivity|].
    apply steps_refl.
  - split; [reflexivity|]. intros s' H. inversion H as [s i w w' Hn Hw|s i Hr Hn|s s0 Hd]; subst.
    + cbn in Hn. destruct i as [|i]; cbn in Hn; [|destruct i; discriminate].
      inversion Hn; subst w. discriminate.
    + discriminate.
    + discriminate.
Qed.

(* the same schedule is harmless for DropAll: the run can always be completed *)
Theorem dropall_same_schedule_completes :
  steps false (init 1) f29_state /\ exists s, steps false f29_state s /\ final s = true.
Proof.
  split.
  - eapply steps_cons; [apply (SWriter false (init 1) 0 WStart WStamped); reflexivity|].
    eapply steps_cons; [apply (SWriter false (mkCS D0 [WStamped]) 0 WStamped WChecked); reflexivity|].
    eapply steps_cons; [apply (SDrop false (mkCS D0 [WChecked])); reflexivity|].
    eapply steps_cons; [apply (SDrop false (mkCS DBlocked [WChecked])); reflexivity|].
    eapply steps_cons; [apply (SDrop false (mkCS DStopped [WChecked])); reflexivity|].
    eapply steps_cons; [apply (SWriter false (mkCS DDrained [WChecked]) 0 WChecked (WSent false)); reflexivity|].
    apply steps_refl.
  - exists (mkCS DFinished [WDone]). split; [|reflexivity].
    eapply steps_cons; [apply (SDrop false f29_state); reflexivity|].
    eapply steps_cons; [apply (SDrop false (mkCS DViewed [WSent false])); reflexivity|].
    eapply steps_cons; [apply (SServe false (mkCS DFinished [WSent false]) 0); reflexivity|].
    eapply steps_cons; [apply (SWriter false (mkCS DFinished [WSent true]) 0 (WSent true) WDone); reflexivity|].
    apply steps_refl.
Qed.
