(* IterOrderProofs.v — C05 core: what Iter.fwd_items / Iter.rev_items yield on a stream that is
   strictly sorted by ent_cmp (user key ascending, version descending), as an equation with an
   order-free specification:
     emit m e  :=  e is not skipped by the parseItem checks, and (AllVersions, or: no non-skipped
                   newer version of e's key exists in m, and e is neither deleted nor expired)
     fwd_items m None        = filter (emit m) (cut m)        cut = longest prefix inside Prefix
     rev_items (rev m) None  = rev (filter (emit m) m)
   plus: strictly increasing / decreasing keys, the "first non-skipped entry of its key"
   reading, completeness. *)
From Verif Require Import Bytes BytesProofs Keys C20Proofs Consts Spec Lsm LsmProofs Compact CompactProofs EntOrderProofs Iter.
From Coq Require Import ZifyN ZifyNat ZifyBool Sorting.Sorted.
Open Scope N_scope.

(* ---------- generic list facts ---------- *)
Fixpoint take_while {A} (f : A -> bool) (l : list A) : list A :=
  match l with [] => [] | x :: r => if f x then x :: take_while f r else [] end.

Lemma take_while_split {A} (f : A -> bool) l : exists post, l = take_while f l ++ post.
Proof.
  induction l as [|x l [post IH]]; cbn; [now exists []|].
  destruct (f x); [exists post; cbn; now f_equal|now exists (x :: l)].
Qed.

Lemma take_while_all {A} (f : A -> bool) l x : In x (take_while f l) -> f x = true.
Proof.
  induction l as [|y l IH]; cbn; [contradiction|]. destruct (f y) eqn:E; [|contradiction].
  intros [<-|H]; auto.
Qed.

Lemma take_while_in {A} (f : A -> bool) l x : In x (take_while f l) -> In x l.
Proof.
  induction l as [|y l IH]; cbn; [contradiction|]. destruct (f y); [|contradiction].
  intros [<-|H]; auto.
Qed.

Lemma take_while_subseq {A} (f : A -> bool) l : subseq (take_while f l) l.
Proof.
  induction l as [|y l IH]; cbn; [constructor|]. destruct (f y); [now apply sub_keep|].
  apply sub_skip. apply subseq_nil_l.
Qed.

Lemma take_while_id {A} (f : A -> bool) l : (forall x, In x l -> f x = true) -> take_while f l = l.
Proof.
  induction l as [|y l IH]; intros H; cbn; auto. rewrite (H y (or_introl eq_refl)). f_equal.
  apply IH. intros x Hx. apply H. now right.
Qed.

(* e is kept by take_while iff everything up to and including e satisfies f *)
Lemma take_while_in_iff {A} (f : A -> bool) l x :
  In x (take_while f l) <-> exists pre post, l = pre ++ x :: post /\ (forall y, In y (pre ++ [x]) -> f y = true).
Proof.
  split.
  - induction l as [|y l IH]; cbn; [contradiction|]. destruct (f y) eqn:E; [|contradiction].
    intros [<-|H].
    + exists [], l. split; auto. intros z [<-|[]]. exact E.
    + destruct (IH H) as (pre & post & -> & Hall). exists (y :: pre), post. split; auto.
      intros z [<-|Hz]; auto.
  - intros (pre & post & -> & Hall). induction pre as [|y pre IH]; cbn.
    + rewrite (Hall x (or_introl eq_refl)). now left.
    + rewrite (Hall y (or_introl eq_refl)). right. apply IH. intros z Hz. apply Hall. now right.
Qed.

Lemma filter_none {A} (f : A -> bool) l : (forall x, In x l -> f x = false) -> filter f l = [].
Proof.
  induction l as [|y l IH]; intros H; cbn; auto. rewrite (H y (or_introl eq_refl)).
  apply IH. intros x Hx. apply H. now right.
Qed.

Lemma filter_rev' {A} (f : A -> bool) l : filter f (rev l) = rev (filter f l).
Proof.
  induction l as [|x l IH]; cbn; auto. rewrite filter_app, IH. cbn.
  destruct (f x); cbn; auto. now rewrite app_nil_r.
Qed.

Lemma existsb_rev' {A} (f : A -> bool) l : existsb f (rev l) = existsb f l.
Proof.
  induction l as [|x l IH]; cbn; auto. rewrite existsb_app, IH. cbn. rewrite orb_false_r. apply orb_comm.
Qed.

Lemma existsb_false {A} (f : A -> bool) l : (forall x, In x l -> f x = false) -> existsb f l = false.
Proof.
  intros H. destruct (existsb f l) eqn:E; auto. apply existsb_exists in E. destruct E as (x & Hx & Fx).
  rewrite (H x Hx) in Fx. discriminate.
Qed.

Lemma StronglySorted_snoc' {A} (R : A -> A -> Prop) t x :
  StronglySorted R t -> (forall y, In y t -> R y x) -> StronglySorted R (t ++ [x]).
Proof.
  induction t as [|y t IH]; intros Hs Hx; cbn; [constructor; constructor|].
  inversion Hs as [|? ? Hs' Hy]; subst. constructor.
  - apply IH; auto. intros z Hz. apply Hx. now right.
  - apply Forall_app. split; auto. constructor; [|constructor]. apply Hx. now left.
Qed.

Lemma StronglySorted_rev {A} (R : A -> A -> Prop) l :
  StronglySorted R l -> StronglySorted (fun a b => R b a) (rev l).
Proof.
  induction l as [|x l IH]; intros Hs; cbn; [constructor|].
  inversion Hs as [|? ? Hs' Hx]; subst. rewrite Forall_forall in Hx.
  apply StronglySorted_snoc'; auto. intros y Hy. apply Hx. now apply in_rev.
Qed.

Lemma find_split {A} (f : A -> bool) l x :
  find f l = Some x -> exists pre post, l = pre ++ x :: post /\ f x = true /\ (forall y, In y pre -> f y = false).
Proof.
  induction l as [|y l IH]; cbn; [discriminate|]. destruct (f y) eqn:E.
  - intros [= ->]. exists [], l. repeat split; auto. intros ? [].
  - intros H. destruct (IH H) as (pre & post & -> & Fx & Hp). exists (y :: pre), post. repeat split; auto.
    intros z [<-|Hz]; auto.
Qed.

Lemma find_first {A} (f : A -> bool) pre x post :
  f x = true -> (forall y, In y pre -> f y = false) -> find f (pre ++ x :: post) = Some x.
Proof.
  intros Fx. induction pre as [|y pre IH]; intros Hp; cbn.
  - now rewrite Fx.
  - rewrite (Hp y (or_introl eq_refl)). apply IH. intros z Hz. apply Hp. now right.
Qed.

(* when the elements satisfying f form an initial segment w.r.t. a sorting relation,
   cutting at the first failure = filtering *)
Lemma take_while_filter_sorted {A} (R : A -> A -> Prop) (f : A -> bool) l :
  StronglySorted R l -> (forall a b, In a l -> In b l -> R a b -> f b = true -> f a = true) ->
  take_while f l = filter f l.
Proof.
  induction l as [|x l IH]; intros Hs Hc; cbn; auto.
  inversion Hs as [|? ? Hs' Hx]; subst. rewrite Forall_forall in Hx.
  destruct (f x) eqn:E.
  - f_equal. apply IH; auto. intros a b Ha Hb. apply Hc; now right.
  - symmetry. apply filter_none. intros b Hb. destruct (f b) eqn:Eb; auto.
    rewrite (Hc x b (or_introl eq_refl) (or_intror Hb) (Hx b Hb) Eb) in E. discriminate.
Qed.

(* ---------- order facts ---------- *)
Lemma kle_antisym a b : kle a b -> kle b a -> a = b.
Proof.
  unfold kle. intros H1 H2. rewrite (lex_cmp_antisym a b) in H2.
  destruct (lex_cmp a b) eqn:E; cbn in H2; try congruence. now apply lex_cmp_eq.
Qed.

Lemma elt_same_key a b : elt a b -> e_key a = e_key b -> e_ver b < e_ver a.
Proof. apply lt_ent_same_key. Qed.

Lemma ssorted_in_app_lt a b x y : ssorted (a ++ b) -> In x a -> In y b -> elt x y.
Proof. intros H. apply ssorted_app_inv in H. destruct H as (_ & _ & H). apply H. Qed.

Lemma ssorted_nodup s : ssorted s -> nodup_kv s.
Proof.
  induction s as [|x s IH]; intros Hs a b Ha Hb Ek Ev; [destruct Ha|].
  apply ssorted_cons_inv in Hs. destruct Hs as [Hs Hx]. rewrite Forall_forall in Hx.
  assert (Q: forall u v, e_key u = e_key v -> e_ver u = e_ver v -> ~ elt u v).
  { intros u v E1 E2 L. apply elt_same_key in L; auto. lia. }
  destruct Ha as [<-|Ha], Hb as [<-|Hb]; auto.
  - exfalso. apply (Q x b Ek Ev). auto.
  - exfalso. apply (Q x a (eq_sym Ek) (eq_sym Ev)). auto.
  - now apply IH.
Qed.

(* keys of a sorted stream in which no key repeats are strictly increasing *)
Lemma ssorted_distinct_keys_klt l :
  ssorted l -> (forall a b, In a l -> In b l -> e_key a = e_key b -> a = b) ->
  StronglySorted klt (map e_key l).
Proof.
  induction l as [|x l IH]; intros Hs Hd; cbn; [constructor|].
  apply ssorted_cons_inv in Hs. destruct Hs as [Hs Hx]. rewrite Forall_forall in Hx. constructor.
  - apply IH; auto. intros a b Ha Hb. apply Hd; now right.
  - apply Forall_forall. intros k Hk. apply in_map_iff in Hk. destruct Hk as (y & <- & Hy).
    pose proof (Hx y Hy) as L. destruct (kle_cases _ _ (elt_kle _ _ L)) as [E|E]; auto.
    exfalso. assert (x = y) by (apply Hd; auto; [now left|now right]). subst y. now apply elt_irrefl in L.
Qed.

Definition dsorted (t : src) : Prop := StronglySorted (fun a b => elt b a) t.

Lemma ssorted_rev_dsorted m : ssorted m -> dsorted (rev m).
Proof. apply StronglySorted_rev. Qed.

Lemma dsorted_cons_inv x t : dsorted (x :: t) -> dsorted t /\ (forall y, In y t -> elt y x).
Proof. intros H. inversion H as [|? ? Ht Hx]; subst. rewrite Forall_forall in Hx. auto. Qed.

(* ---------- the iterator ---------- *)
Definition newer_same (e e' : entry) : bool := bytes_eqb (e_key e') (e_key e) && (e_ver e <? e_ver e').

Section IterOrder.
  Variable o : iopts.
  Variables rts now : N.
  Variable banned : bytes -> bool.
  Notation skip := (skip_common o rts banned).
  Notation fwd := (fwd_items o rts now banned).
  Notation rvs := (rev_items o rts now banned).

  (* some non-skipped newer version of e's key exists in m *)
  Definition hidden (m : src) (e : entry) : bool :=
    existsb (fun e' => newer_same e e' && negb (skip e')) m.
  Definition emit (m : src) (e : entry) : bool :=
    negb (skip e) && (io_all o || (negb (hidden m e) && negb (deleted_or_expired e now))).
  (* the part of the stream the forward iterator looks at: up to the first entry outside Prefix *)
  Definition cut (m : src) : src := take_while (stream_has_prefix o) m.
  Definition spec_scan (m : src) : list entry := filter (emit m) (cut m).

  Lemma hidden_true m e e' :
    In e' m -> e_key e' = e_key e -> e_ver e < e_ver e' -> skip e' = false -> hidden m e = true.
  Proof.
    intros Hin Hk Hv Hs. apply existsb_exists. exists e'. split; auto.
    unfold newer_same. rewrite Hk, bytes_eqb_refl, Hs. cbn [negb andb]. rewrite andb_true_r. apply N.ltb_lt. exact Hv.
  Qed.

  Lemma hidden_false m e :
    (forall e', In e' m -> e_key e' = e_key e -> e_ver e < e_ver e' -> skip e' = false -> False) ->
    hidden m e = false.
  Proof.
    intros H. apply existsb_false. intros e' Hin.
    destruct (newer_same e e' && negb (skip e')) eqn:E; auto. exfalso.
    apply andb_true_iff in E. destruct E as [E1 E2]. unfold newer_same in E1.
    apply andb_true_iff in E1. destruct E1 as [Ek Ev]. apply bytes_eqb_eq in Ek. apply N.ltb_lt in Ev.
    apply negb_true_iff in E2. eapply H; eauto.
  Qed.

  Lemma hidden_false_inv m e e' :
    hidden m e = false -> In e' m -> e_key e' = e_key e -> e_ver e < e_ver e' -> skip e' = true.
  Proof.
    intros H Hin Hk Hv. destruct (skip e') eqn:S; auto.
    rewrite (hidden_true m e e' Hin Hk Hv S) in H. discriminate.
  Qed.

  (* skip_common depends on the key, and on the version only through the two timestamp tests *)
  Lemma skip_newer_same_key c e :
    skip c = false -> e_key e = e_key c -> e_ver c < e_ver e -> e_ver e <= rts -> skip e = false.
  Proof.
    unfold skip_common, is_internal. intros H Hk Hv Hr. rewrite Hk.
    rewrite !orb_false_iff in H. destruct H as [[[H1 H2] H3] H4].
    rewrite H1, H4. cbn [orb].
    assert (A: (rts <? e_ver e) = false) by (apply N.ltb_ge; lia). rewrite A. cbn [orb].
    rewrite orb_false_r.
    destruct (0 <? io_since o) eqn:S; cbn [andb] in *; auto.
    apply N.leb_gt in H3. apply N.leb_gt. lia.
  Qed.

  Lemma skip_false_ver e : skip e = false -> e_ver e <= rts.
  Proof.
    unfold skip_common. intros H. rewrite !orb_false_iff in H. destruct H as [[[_ H] _] _].
    apply N.ltb_ge in H. exact H.
  Qed.

  (* ---------- forward ---------- *)
  Lemma fwd_cut s last : fwd s last = fwd (cut s) last.
  Proof.
    revert last. induction s as [|e r IH]; intros last; [reflexivity|].
    unfold cut. cbn [take_while fwd_items]. destruct (stream_has_prefix o e) eqn:P; cbn [negb]; [|reflexivity].
    cbn [fwd_items]. rewrite P. cbn [negb]. fold (cut r).
    destruct (skip e); [apply IH|]. destruct (io_all o); [f_equal; apply IH|].
    destruct (match last with Some k => bytes_eqb k (e_key e) | None => false end); [apply IH|].
    destruct (deleted_or_expired e now); [apply IH|f_equal; apply IH].
  Qed.

  (* B. AllVersions: every non-skipped entry of the stream, in stream order *)
  Lemma fwd_all s last :
    io_all o = true -> fwd s last = filter (fun e => negb (skip e)) (cut s).
  Proof.
    intros Ha. revert last. induction s as [|e r IH]; intros last; [reflexivity|].
    unfold cut. cbn [take_while fwd_items]. destruct (stream_has_prefix o e) eqn:P; cbn [negb]; [|reflexivity].
    cbn [filter]. fold (cut r). destruct (skip e); cbn [negb]; [apply IH|]. rewrite Ha. f_equal. apply IH.
  Qed.

  (* A. the state `last` of the forward scan after the entries `pre` *)
  Definition last_inv (pre : src) (last : option bytes) : Prop :=
    (forall k, last = Some k -> exists e', In e' pre /\ skip e' = false /\ e_key e' = k) /\
    (forall e', In e' pre -> skip e' = false -> exists k, last = Some k /\ kle (e_key e') k).

  Lemma fwd_nonall_gen s : forall pre last,
    io_all o = false -> ssorted (pre ++ s) -> last_inv pre last ->
    fwd s last = filter (emit (pre ++ s)) (cut s).
  Proof.
    induction s as [|e r IH]; intros pre last Ha Hs [Ia Ib]; [reflexivity|].
    unfold cut. cbn [take_while fwd_items]. destruct (stream_has_prefix o e) eqn:P; cbn [negb]; [|reflexivity].
    fold (cut r). cbn [filter].
    assert (App: pre ++ e :: r = (pre ++ [e]) ++ r) by (rewrite <- app_assoc; reflexivity).
    assert (Hpre: forall x, In x pre -> elt x e).
    { intros x Hx. eapply ssorted_in_app_lt; eauto. now left. }
    destruct (skip e) eqn:Sk.
    { (* skipped *)
      unfold emit at 1. rewrite Sk. cbn [negb andb]. rewrite App. apply IH; auto; [now rewrite <- App|].
      split.
      - intros k Hk. destruct (Ia k Hk) as (e' & A & B). exists e'. split; auto. apply in_or_app. now left.
      - intros e' He' Hs'. apply in_app_or in He'. destruct He' as [He'|[<-|[]]]; [auto|congruence]. }
    rewrite Ha.
    destruct (match last with Some k => bytes_eqb k (e_key e) | None => false end) eqn:L.
    { (* same key as the previous non-skipped entry: an older version, hidden *)
      destruct last as [k|]; [|discriminate]. apply bytes_eqb_eq in L. subst k.
      destruct (Ia _ eq_refl) as (e' & He' & Se' & Ke').
      assert (Hh: hidden (pre ++ e :: r) e = true).
      { apply (hidden_true _ e e'); auto; [apply in_or_app; now left|].
        apply elt_same_key; auto. }
      unfold emit at 1. rewrite Sk, Ha, Hh. cbn [negb andb orb]. rewrite App. apply IH; auto; [now rewrite <- App|].
      split.
      - intros k Hk. exists e'. inversion Hk; subst. split; auto. apply in_or_app. now left.
      - intros x Hx Sx. exists (e_key e). split; auto. apply in_app_or in Hx. destruct Hx as [Hx|[<-|[]]].
        + apply elt_kle. auto.
        + apply kle_refl. }
    (* first non-skipped entry of its key *)
    assert (Hh: hidden (pre ++ e :: r) e = false).
    { apply hidden_false. intros e' He' Ke' Ve' Se'. apply in_app_or in He'. destruct He' as [He'|[<-|He']].
      - destruct (Ib e' He' Se') as (k & -> & Hk). destruct (Ia k eq_refl) as (e'' & He'' & _ & Ke'').
        assert (k = e_key e).
        { apply kle_antisym; [|rewrite <- Ke'; exact Hk]. rewrite <- Ke''. apply elt_kle. auto. }
        rewrite H, bytes_eqb_refl in L. discriminate.
      - lia.
      - assert (Le: elt e e').
        { apply ssorted_app_inv in Hs. destruct Hs as (_ & Hs & _). apply ssorted_cons_inv in Hs.
          destruct Hs as [_ Hs]. rewrite Forall_forall in Hs. auto. }
        apply elt_same_key in Le; auto. lia. }
    assert (Inv': last_inv (pre ++ [e]) (Some (e_key e))).
    { split.
      - intros k [= <-]. exists e. split; auto. apply in_or_app. right. now left.
      - intros x Hx Sx. exists (e_key e). split; auto. apply in_app_or in Hx. destruct Hx as [Hx|[<-|[]]].
        + apply elt_kle. auto.
        + apply kle_refl. }
    unfold emit at 1. rewrite Sk, Ha, Hh. cbn [negb andb orb].
    destruct (deleted_or_expired e now); cbn [negb]; rewrite App.
    - apply IH; auto. now rewrite <- App.
    - f_equal. apply IH; auto. now rewrite <- App.
  Qed.

  Lemma emit_all m e : io_all o = true -> emit m e = negb (skip e).
  Proof. intros Ha. unfold emit. rewrite Ha. cbn. apply andb_true_r. Qed.

  (* A.2 / B, as one equation *)
  Theorem fwd_items_spec m : ssorted m -> fwd m None = spec_scan m.
  Proof.
    intros Hs. unfold spec_scan. destruct (io_all o) eqn:Ha.
    - rewrite fwd_all by assumption. apply filter_ext. intros e. now rewrite emit_all.
    - apply (fwd_nonall_gen m [] None Ha Hs). split; [discriminate|intros ? []].
  Qed.

  (* ---- consequences ---- *)
  Lemma cut_subseq m : subseq (cut m) m.
  Proof. apply take_while_subseq. Qed.

  Lemma spec_scan_subseq m : subseq (spec_scan m) m.
  Proof. eapply subseq_trans; [apply subseq_filter|apply cut_subseq]. Qed.

  (* the result is a sub-sequence of the stream: stream order is kept (both modes) *)
  Theorem fwd_items_sorted m : ssorted m -> ssorted (fwd m None).
  Proof. intros Hs. rewrite fwd_items_spec by assumption. eapply ssorted_subseq; [apply spec_scan_subseq|exact Hs]. Qed.

  Lemma emit_nonall_inv m e :
    io_all o = false -> emit m e = true ->
    skip e = false /\ hidden m e = false /\ deleted_or_expired e now = false.
  Proof.
    unfold emit. intros Ha H. rewrite Ha in H. cbn [orb] in H.
    apply andb_true_iff in H. destruct H as [H1 H2]. apply andb_true_iff in H2. destruct H2 as [H2 H3].
    apply negb_true_iff in H1, H2, H3. auto.
  Qed.

  (* two emitted entries of the same key are the same entry *)
  Lemma emit_same_key m a b :
    io_all o = false -> nodup_kv m -> In a m -> In b m -> emit m a = true -> emit m b = true ->
    e_key a = e_key b -> a = b.
  Proof.
    intros Ha Hnd Hina Hinb Ea Eb Hk.
    destruct (emit_nonall_inv _ _ Ha Ea) as (Sa & Ha' & _). destruct (emit_nonall_inv _ _ Ha Eb) as (Sb & Hb' & _).
    apply Hnd; auto.
    destruct (N.lt_trichotomy (e_ver a) (e_ver b)) as [L|[L|L]]; auto; exfalso.
    - rewrite (hidden_true m a b) in Ha'; auto; discriminate.
    - rewrite (hidden_true m b a) in Hb'; auto; discriminate.
  Qed.

  (* A.1: strictly increasing keys, hence every key at most once *)
  Theorem fwd_items_keys_increasing m :
    io_all o = false -> ssorted m -> StronglySorted klt (map e_key (fwd m None)).
  Proof.
    intros Ha Hs. apply ssorted_distinct_keys_klt; [now apply fwd_items_sorted|].
    rewrite fwd_items_spec by assumption. unfold spec_scan. intros a b Hina Hinb.
    apply filter_In in Hina, Hinb. destruct Hina as [Hina Ea], Hinb as [Hinb Eb].
    apply (emit_same_key m); auto; [now apply ssorted_nodup| |]; eapply subseq_in; eauto; apply cut_subseq.
  Qed.

  (* A.2 as a membership statement *)
  Theorem fwd_items_in_iff m e :
    io_all o = false -> ssorted m ->
    (In e (fwd m None) <->
     In e (cut m) /\ skip e = false /\ hidden m e = false /\ deleted_or_expired e now = false).
  Proof.
    intros Ha Hs. rewrite fwd_items_spec by assumption. unfold spec_scan. rewrite filter_In. split.
    - intros [Hin E]. split; auto. now apply emit_nonall_inv.
    - intros (Hin & S & H & D). split; auto. unfold emit. now rewrite S, Ha, H, D.
  Qed.

  (* "not hidden" = "the first non-skipped entry of its key in the stream" *)
  Lemma hidden_false_first pre e post :
    ssorted (pre ++ e :: post) ->
    (hidden (pre ++ e :: post) e = false <-> forall e', In e' pre -> e_key e' = e_key e -> skip e' = true).
  Proof.
    intros Hs. split.
    - intros H e' He' Ke'. apply (hidden_false_inv _ _ _ H); auto; [apply in_or_app; now left|].
      apply elt_same_key; auto. eapply ssorted_in_app_lt; eauto. now left.
    - intros H. apply hidden_false. intros e' He' Ke' Ve' Se'. apply in_app_or in He'. destruct He' as [He'|[<-|He']].
      + rewrite (H e' He' Ke') in Se'. discriminate.
      + lia.
      + assert (L: elt e e').
        { apply ssorted_app_inv in Hs. destruct Hs as (_ & Hs & _). apply ssorted_cons_inv in Hs.
          destruct Hs as [_ Hs]. rewrite Forall_forall in Hs. auto. }
        apply elt_same_key in L; auto. lia.
  Qed.

  (* the point lookup a forward scan performs on key k *)
  Definition first_nonskip (m : src) (k : bytes) : option entry :=
    find (fun e => bytes_eqb (e_key e) k && negb (skip e)) m.

  Lemma first_nonskip_not_hidden m k e :
    ssorted m -> first_nonskip m k = Some e ->
    In e m /\ e_key e = k /\ skip e = false /\ hidden m e = false.
  Proof.
    intros Hs H. apply find_split in H. destruct H as (pre & post & -> & Fe & Hpre).
    apply andb_true_iff in Fe. destruct Fe as [Ke Se]. apply bytes_eqb_eq in Ke. apply negb_true_iff in Se.
    split; [apply in_or_app; right; now left|]. split; auto. split; auto.
    apply hidden_false_first; auto. intros e' He' Ke'. specialize (Hpre e' He').
    rewrite Ke', Ke, bytes_eqb_refl in Hpre. cbn in Hpre. now apply negb_false_iff in Hpre.
  Qed.

  Lemma not_hidden_first_nonskip m e :
    ssorted m -> In e m -> skip e = false -> hidden m e = false -> first_nonskip m (e_key e) = Some e.
  Proof.
    intros Hs Hin Se Hh. apply in_split in Hin. destruct Hin as (pre & post & ->).
    apply find_first; [rewrite bytes_eqb_refl, Se; reflexivity|].
    intros y Hy. destruct (bytes_eqb (e_key y) (e_key e)) eqn:K; auto. apply bytes_eqb_eq in K.
    rewrite (proj1 (hidden_false_first pre e post Hs) Hh y Hy K). reflexivity.
  Qed.

  Lemma first_nonskip_none m k e : first_nonskip m k = None -> In e m -> e_key e = k -> skip e = true.
  Proof.
    intros H Hin Hk. pose proof (find_none _ _ H e Hin) as F. cbn in F. rewrite Hk, bytes_eqb_refl in F.
    cbn in F. now apply negb_false_iff in F.
  Qed.

  (* A.2, soundness and completeness per key, without Prefix: e is yielded iff it is the first
     non-skipped entry of its key and is live; in particular every key whose newest non-skipped
     version is live appears (with exactly that version) *)
  Theorem fwd_items_in_iff_first m e :
    io_all o = false -> ssorted m -> cut m = m ->
    (In e (fwd m None) <-> first_nonskip m (e_key e) = Some e /\ deleted_or_expired e now = false).
  Proof.
    intros Ha Hs Hc. rewrite fwd_items_in_iff by assumption. rewrite Hc. split.
    - intros (Hin & S & H & D). split; auto. now apply not_hidden_first_nonskip.
    - intros (F & D). destruct (first_nonskip_not_hidden _ _ _ Hs F) as (Hin & _ & S & H). auto.
  Qed.

  Theorem fwd_items_complete m k e :
    io_all o = false -> ssorted m -> cut m = m ->
    first_nonskip m k = Some e -> deleted_or_expired e now = false -> In e (fwd m None).
  Proof.
    intros Ha Hs Hc F D. pose proof (first_nonskip_not_hidden _ _ _ Hs F) as (_ & Hk & _). subst k.
    apply fwd_items_in_iff_first; auto.
  Qed.

  (* the item for key k, as a lookup: exactly what the point read of the stream gives *)
  Theorem fwd_items_lookup m k :
    io_all o = false -> ssorted m -> cut m = m ->
    find (fun e => bytes_eqb (e_key e) k) (fwd m None) =
    match first_nonskip m k with
    | Some e => if deleted_or_expired e now then None else Some e
    | None => None
    end.
  Proof.
    intros Ha Hs Hc.
    destruct (find (fun e => bytes_eqb (e_key e) k) (fwd m None)) as [x|] eqn:F.
    - apply find_some in F. destruct F as [Hin Kx]. apply bytes_eqb_eq in Kx.
      apply fwd_items_in_iff_first in Hin; auto. destruct Hin as [F D]. rewrite Kx in F. now rewrite F, D.
    - destruct (first_nonskip m k) as [e|] eqn:Fn; auto. destruct (deleted_or_expired e now) eqn:D; auto.
      pose proof (fwd_items_complete m k e Ha Hs Hc Fn D) as Hin.
      pose proof (find_none _ _ F e Hin) as C. cbn in C.
      apply first_nonskip_not_hidden in Fn; auto. destruct Fn as (_ & Hk & _).
      rewrite Hk, bytes_eqb_refl in C. discriminate.
  Qed.

  (* B. AllVersions, forward: the non-skipped entries of the stream up to the Prefix cut, in
     stream order (per key newest first), delete markers and expired entries included *)
  Theorem fwd_items_all m :
    io_all o = true -> fwd m None = filter (fun e => negb (skip e)) (cut m).
  Proof. intros Ha. now apply fwd_all. Qed.

  Theorem fwd_items_all_in_iff m e :
    io_all o = true -> (In e (fwd m None) <-> In e (cut m) /\ skip e = false).
  Proof.
    intros Ha. rewrite fwd_items_all by assumption. rewrite filter_In.
    split; intros [A B]; split; auto; [now apply negb_true_iff in B|now apply negb_true_iff].
  Qed.

  (* ---------- reverse ---------- *)
  Lemma rvs_cons_some e r c :
    rvs (e :: r) (Some c) =
    if (e_ver e <=? rts) && bytes_eqb (e_key e) (e_key c)
    then (if deleted_or_expired e now then rvs r None else rvs r (Some e))
    else c :: rvs (e :: r) None.
  Proof. reflexivity. Qed.

  Lemma rvs_cons_none e r :
    rvs (e :: r) None =
    if skip e then rvs r None
    else if io_all o then e :: rvs r None
    else if deleted_or_expired e now then rvs r None
    else rvs r (Some e).
  Proof. reflexivity. Qed.

  (* in a descending stream an earlier entry never hides a later one *)
  Lemma emit_dcons e r x : dsorted (e :: r) -> In x r -> emit (e :: r) x = emit r x.
  Proof.
    intros Hd Hx. apply dsorted_cons_inv in Hd. destruct Hd as [_ Hd].
    unfold emit, hidden. cbn [existsb].
    assert (N: newer_same x e = false).
    { unfold newer_same. destruct (bytes_eqb (e_key e) (e_key x)) eqn:K; auto. apply bytes_eqb_eq in K.
      cbn. apply N.ltb_ge. pose proof (elt_same_key _ _ (Hd x Hx) (eq_sym K)). lia. }
    rewrite N. reflexivity.
  Qed.

  Lemma newer_same_irrefl e : newer_same e e = false.
  Proof. unfold newer_same. rewrite N.ltb_irrefl. apply andb_false_r. Qed.

  Lemma rvs_some_step s c :
    io_all o = false -> dsorted (c :: s) -> skip c = false -> deleted_or_expired c now = false ->
    rvs s None = filter (emit s) s ->
    rvs s (Some c) = (if hidden s c then [] else [c]) ++ filter (emit s) s.
  Proof.
    intros Ha Hd Sc Dc R. destruct s as [|e r]; [reflexivity|].
    pose proof (dsorted_cons_inv _ _ Hd) as [Hd' Hc].
    rewrite rvs_cons_some.
    destruct ((e_ver e <=? rts) && bytes_eqb (e_key e) (e_key c)) eqn:C.
    - apply andb_true_iff in C. destruct C as [Cv Ck]. apply N.leb_le in Cv. apply bytes_eqb_eq in Ck.
      assert (Vc: e_ver c < e_ver e) by (apply elt_same_key; auto; apply Hc; now left).
      assert (Se: skip e = false) by (apply (skip_newer_same_key c); auto).
      rewrite (hidden_true (e :: r) c e); auto; [|now left]. cbn [app]. rewrite <- R.
      rewrite rvs_cons_none, Se, Ha. reflexivity.
    - rewrite R. rewrite hidden_false; [reflexivity|].
      intros x Hx Kx Vx Sx. apply skip_false_ver in Sx.
      assert (Ke: e_key e = e_key c).
      { destruct Hx as [<-|Hx]; auto.
        apply dsorted_cons_inv in Hd'. destruct Hd' as [_ He].
        rewrite <- Kx. symmetry.
        apply (sorted_key_no_return x e c); auto; [apply He; auto|apply Hc; now left]. }
      assert (Ve: e_ver e <= rts).
      { destruct Hx as [<-|Hx]; auto.
        apply dsorted_cons_inv in Hd'. destruct Hd' as [_ He].
        pose proof (elt_same_key _ _ (He x Hx)) as Q. rewrite Kx, Ke in Q. specialize (Q eq_refl). lia. }
      apply andb_false_iff in C. destruct C as [C|C].
      + apply N.leb_gt in C. lia.
      + rewrite Ke, bytes_eqb_refl in C. discriminate.
  Qed.

  (* C. reverse, both modes: on a strictly descending stream the reverse scan yields exactly the
     emitted entries, in stream order *)
  Theorem rev_items_spec_d t : dsorted t -> rvs t None = filter (emit t) t.
  Proof.
    induction t as [|e r IH]; intros Hd; [reflexivity|].
    pose proof (dsorted_cons_inv _ _ Hd) as [Hd' He]. specialize (IH Hd').
    assert (Ext: filter (emit (e :: r)) r = filter (emit r) r).
    { apply filter_ext_in. intros x Hx. now apply emit_dcons. }
    rewrite rvs_cons_none. cbn [filter]. rewrite Ext.
    assert (Hh: hidden (e :: r) e = hidden r e).
    { unfold hidden. cbn [existsb]. now rewrite newer_same_irrefl. }
    unfold emit at 1. rewrite Hh.
    destruct (skip e) eqn:Se; cbn [negb andb]; auto.
    destruct (io_all o) eqn:Ha; cbn [orb]; [now rewrite IH|].
    destruct (deleted_or_expired e now) eqn:De; cbn [negb]; [now rewrite andb_false_r|].
    rewrite andb_true_r. rewrite (rvs_some_step r e Ha Hd Se De IH).
    destruct (hidden r e); reflexivity.
  Qed.

  Lemma hidden_rev m e : hidden (rev m) e = hidden m e.
  Proof. apply existsb_rev'. Qed.
  Lemma emit_rev m e : emit (rev m) e = emit m e.
  Proof. unfold emit. now rewrite hidden_rev. Qed.

  Theorem rev_items_spec m : ssorted m -> rvs (rev m) None = rev (filter (emit m) m).
  Proof.
    intros Hs. rewrite rev_items_spec_d by now apply ssorted_rev_dsorted.
    rewrite filter_rev'. f_equal. apply filter_ext. intros e. apply emit_rev.
  Qed.

  (* reverse = the forward result backwards, whenever the forward scan is not cut by Prefix *)
  Theorem rev_items_rev_fwd m : ssorted m -> cut m = m -> rvs (rev m) None = rev (fwd m None).
  Proof. intros Hs Hc. rewrite rev_items_spec, fwd_items_spec by assumption. unfold spec_scan. now rewrite Hc. Qed.

  (* AllVersions in reverse: all non-skipped entries, the stream backwards (per key oldest first) *)
  Theorem rev_items_all m :
    io_all o = true -> ssorted m -> rvs (rev m) None = rev (filter (fun e => negb (skip e)) m).
  Proof.
    intros Ha Hs. rewrite rev_items_spec by assumption. f_equal. apply filter_ext. intros e. now apply emit_all.
  Qed.

  Lemma cut_id_reverse m : io_reverse o = true -> cut m = m.
  Proof. intros Hr. apply take_while_id. intros x _. unfold stream_has_prefix. now rewrite Hr. Qed.
  Lemma cut_id_noprefix m : io_prefix o = [] -> cut m = m.
  Proof. intros Hp. apply take_while_id. intros x _. unfold stream_has_prefix. rewrite Hp. now rewrite andb_false_r. Qed.
End IterOrder.
