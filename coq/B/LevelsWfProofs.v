(* LevelsWfProofs.v — C14: the structural well-formedness of the levels (SysReopen.levels_wf) in
   Prop form, its consequences (validate succeeds, one table per user key), and its
   preservation by memtable writes, flush, close/open, DropAll.  The compaction step is in
   CompactWfProofs.v. *)
From Verif Require Import Bytes BytesProofs Keys C20Proofs Consts Spec Lsm LsmProofs Compact Iter Sys SysReopen EntOrderProofs ReopenReadProofs ReopenTsProofs.
From Coq Require Import ZifyN ZifyNat ZifyBool Sorted Permutation.
Open Scope N_scope.

(* ---- strictly sorted sources, bool <-> Prop ---- *)
Lemma src_sorted_iff s : src_sorted s = true <-> ssorted s.
Proof.
  induction s as [|a s IH]; [split; [constructor|reflexivity]|].
  destruct s as [|b r].
  - split; [intros _; repeat constructor|reflexivity].
  - cbn [src_sorted]. split.
    + destruct (ent_cmp a b) eqn:C; try discriminate. intros H. apply IH in H.
      constructor; auto. constructor; auto.
      apply ssorted_cons_inv in H. destruct H as [_ H]. rewrite Forall_forall in *.
      intros z Hz. eapply elt_trans; [exact C|auto].
    + intros H. apply ssorted_cons_inv in H. destruct H as [H1 H2]. inversion H2 as [|? ? Hab _]; subst.
      unfold elt in Hab. rewrite Hab. now apply IH.
Qed.

Definition tbl_ok (t : table) : Prop := t_ents t <> [] /\ ssorted (t_ents t).

Lemma table_ok_iff t : table_ok t = true <-> tbl_ok t.
Proof.
  unfold table_ok, tbl_ok. destruct (t_ents t) as [|e r] eqn:E.
  - split; [discriminate|intros [H _]; congruence].
  - rewrite src_sorted_iff. split; [intros H; split; [discriminate|auto]|tauto].
Qed.

Lemma forallb_table_ok l : forallb table_ok l = true <-> Forall tbl_ok l.
Proof.
  rewrite forallb_forall, Forall_forall. split; intros H t Ht; apply table_ok_iff; auto.
Qed.

(* ---- tables of a level >= 1: user-key ranges strictly ordered ---- *)
Definition tkeys_lt (a b : table) : Prop :=
  forall x y, In x (t_ents a) -> In y (t_ents b) -> klt (e_key x) (e_key y).
Definition tlt (a b : table) : Prop := t_ents a <> [] /\ t_ents b <> [] /\ tkeys_lt a b.

Lemma tlt_trans a b c : tlt a b -> tlt b c -> tlt a c.
Proof.
  unfold tlt, tkeys_lt. intros (Ha & Hb & Hab) (_ & Hc & Hbc). repeat split; auto.
  intros x z Hx Hz. destruct (t_ents b) as [|y r] eqn:E; [congruence|].
  eapply klt_trans; [apply (Hab x y)|apply (Hbc y z)]; auto; now left.
Qed.

Lemma tlt_irrefl a : ~ tlt a a.
Proof.
  unfold tlt, tkeys_lt. intros (Ha & _ & H). destruct (t_ents a) as [|x r] eqn:E; [congruence|].
  apply (klt_irrefl (e_key x)). apply H; now left.
Qed.

Lemma tlt_not_sym a b : tlt a b -> tlt b a -> False.
Proof. intros H1 H2. exact (tlt_irrefl a (tlt_trans _ _ _ H1 H2)). Qed.

Lemma smallest_in t y : t_smallest t = Some y -> In y (t_ents t).
Proof. unfold t_smallest. destruct (t_ents t); cbn; [discriminate|]. intros [= ->]. now left. Qed.

Lemma biggest_in t x : t_biggest t = Some x -> In x (t_ents t).
Proof. unfold t_biggest. apply last_some_in. Qed.

Lemma tbl_ok_smallest t : tbl_ok t -> exists y, t_smallest t = Some y.
Proof. unfold tbl_ok. intros [H _]. unfold t_smallest. destruct (t_ents t); [congruence|]. cbn. eauto. Qed.

Lemma tbl_ok_biggest t : tbl_ok t -> exists x, t_biggest t = Some x.
Proof. unfold tbl_ok. intros [H _]. unfold t_biggest. now apply last_some_ex. Qed.

(* every entry lies between the smallest and the biggest one, in user-key order *)
Lemma smallest_kle t y v : tbl_ok t -> t_smallest t = Some y -> In v (t_ents t) -> kle (e_key y) (e_key v).
Proof.
  unfold tbl_ok. intros [_ Hs] Hy Hv. unfold t_smallest in Hy. destruct (t_ents t) as [|y0 r]; [discriminate|].
  cbn in Hy. inversion Hy; subst. destruct (ssorted_hd _ _ _ Hs Hv) as [->|H].
  - apply kle_refl. - now apply elt_kle.
Qed.

Lemma biggest_kle t x u : tbl_ok t -> t_biggest t = Some x -> In u (t_ents t) -> kle (e_key u) (e_key x).
Proof.
  unfold tbl_ok. intros [_ Hs] Hx Hu. unfold t_biggest in Hx. destruct (ssorted_last _ _ _ Hs Hx Hu) as [->|H].
  - apply kle_refl. - now apply elt_kle.
Qed.

Lemma chain_tlt a b x y :
  tbl_ok a -> tbl_ok b -> t_biggest a = Some x -> t_smallest b = Some y ->
  ent_cmp x y = Lt -> bytes_eqb (e_key x) (e_key y) = false -> tlt a b.
Proof.
  intros Ha Hb Hx Hy C Hne. split; [apply Ha|]. split; [apply Hb|].
  intros u v Hu Hv.
  assert (K: klt (e_key x) (e_key y)).
  { destruct (kle_cases _ _ (elt_kle _ _ C)) as [E|K]; auto.
    apply bytes_eqb_eq in E. congruence. }
  apply (kle_klt_trans _ (e_key x)); [apply (biggest_kle a x u); auto|].
  apply (klt_kle_trans _ (e_key y)); [exact K|apply (smallest_kle b y v); auto].
Qed.

Lemma tlt_chain a b x y :
  tlt a b -> t_biggest a = Some x -> t_smallest b = Some y ->
  ent_cmp x y = Lt /\ bytes_eqb (e_key x) (e_key y) = false.
Proof.
  unfold tlt, tkeys_lt. intros (_ & _ & H) Hx Hy. apply biggest_in in Hx. apply smallest_in in Hy.
  specialize (H _ _ Hx Hy). split; [now apply klt_elt|].
  destruct (bytes_eqb (e_key x) (e_key y)) eqn:E; auto.
  apply bytes_eqb_eq in E. rewrite E in H. destruct (klt_irrefl _ H).
Qed.

Lemma nodup_ids_iff l : nodup_ids l = true <-> NoDup l.
Proof.
  induction l as [|x l IH]; cbn [nodup_ids]; [split; [constructor|auto]|].
  rewrite andb_true_iff, negb_true_iff, IH. split.
  - intros [H1 H2]. constructor; auto. intros Hin.
    assert (existsb (N.eqb x) l = true); [|congruence].
    apply existsb_exists. exists x. split; auto. apply N.eqb_refl.
  - intros H. inversion H as [|? ? Hx Hn]; subst. split; auto.
    destruct (existsb (N.eqb x) l) eqn:E; auto. apply existsb_exists in E.
    destruct E as (y & Hy & Hxy). apply N.eqb_eq in Hxy. subst y. contradiction.
Qed.

Definition level_ok (l : list table) : Prop :=
  Forall tbl_ok l /\ StronglySorted tlt l /\ NoDup (map t_id l).

Lemma tlt_Transitive : Relations_1.Transitive tlt.
Proof. intros a b c. apply tlt_trans. Qed.

Lemma level_chain_sorted l : Forall tbl_ok l -> level_chain l = true -> Sorted tlt l.
Proof.
  induction l as [|a l IH]; [constructor|]. intros HF Hc. inversion HF as [|? ? Ha HF']; subst.
  destruct l as [|b r]; [repeat constructor|].
  cbn [level_chain] in Hc. inversion HF' as [|? ? Hb _]; subst.
  destruct (t_biggest a) as [x|] eqn:Bx; [|discriminate].
  destruct (t_smallest b) as [y|] eqn:Sy; [|discriminate].
  destruct (ent_cmp x y) eqn:C; try discriminate. apply andb_true_iff in Hc. destruct Hc as [Hne Hc].
  apply negb_true_iff in Hne. constructor; [apply IH; auto|]. constructor. eapply chain_tlt; eauto.
Qed.

Lemma sorted_level_chain l : Forall tbl_ok l -> Sorted tlt l -> level_chain l = true.
Proof.
  induction l as [|a l IH]; [reflexivity|]. intros HF Hs. inversion HF as [|? ? Ha HF']; subst.
  inversion Hs as [|? ? Hs' Hh]; subst. destruct l as [|b r]; [reflexivity|].
  cbn [level_chain]. inversion HF' as [|? ? Hb _]; subst. inversion Hh as [|? ? Hab]; subst.
  destruct (tbl_ok_biggest _ Ha) as (x & Bx). destruct (tbl_ok_smallest _ Hb) as (y & Sy).
  rewrite Bx, Sy. destruct (tlt_chain _ _ _ _ Hab Bx Sy) as [C Hne]. rewrite C, Hne. cbn. now apply IH.
Qed.

Lemma level_wf_iff l : level_wf l = true <-> level_ok l.
Proof.
  unfold level_wf, level_ok. rewrite !andb_true_iff, forallb_table_ok, nodup_ids_iff. split.
  - intros [[H1 H2] H3]. repeat split; auto. apply Sorted_StronglySorted; [apply tlt_Transitive|].
    now apply level_chain_sorted.
  - intros (H1 & H2 & H3). repeat split; auto. apply sorted_level_chain; auto.
    now apply StronglySorted_Sorted.
Qed.

(* level n of a tree *)
Definition lvl_ok (n : nat) (l : list table) : Prop :=
  match n with O => Forall tbl_ok l | S _ => level_ok l end.
Definition levels_ok (ls : list (list table)) : Prop := forall n, lvl_ok n (nth n ls []).

Lemma level_ok_nil : level_ok [].
Proof. repeat split; constructor. Qed.

Lemma lvl_ok_nil n : lvl_ok n [].
Proof. destruct n; cbn; [constructor|apply level_ok_nil]. Qed.

Lemma lvl_ok_tbl n l : lvl_ok n l -> Forall tbl_ok l.
Proof. destruct n; cbn; auto. intros H. apply H. Qed.

Lemma levels_wf_iff ls : levels_wf ls = true <-> levels_ok ls.
Proof.
  unfold levels_wf, levels_ok. destruct ls as [|l0 r].
  - split; auto. intros _ n. destruct n; apply lvl_ok_nil.
  - rewrite andb_true_iff, forallb_table_ok, forallb_forall. split.
    + intros [H0 Hr] n. destruct n as [|n]; cbn [nth lvl_ok]; auto.
      destruct (nth_in_or_default n r []) as [Hin|E].
      * apply level_wf_iff. auto.
      * rewrite E. apply level_ok_nil.
    + intros H. split; [apply (H O)|]. intros l Hl. apply level_wf_iff.
      destruct (In_nth _ _ [] Hl) as (i & _ & <-). apply (H (S i)).
Qed.

(* ---- consequences ---- *)
(* Open's levelHandler.validate succeeds on every level *)
Lemma validate_level_cons a b r :
  validate_level (a :: b :: r) =
  match t_biggest a, t_smallest b, t_biggest b with
  | Some x, Some y, Some z =>
      match ent_cmp x y with
      | Lt => match ent_cmp y z with Gt => false | _ => validate_level (b :: r) end
      | _ => false
      end
  | _, _, _ => false
  end.
Proof. reflexivity. Qed.

Lemma level_ok_validate l : level_ok l -> validate_level l = true.
Proof.
  unfold level_ok. intros (HF & Hs & _). apply StronglySorted_Sorted in Hs.
  induction l as [|a l IH]; [reflexivity|]. inversion HF as [|? ? Ha HF']; subst.
  inversion Hs as [|? ? Hs' Hh]; subst. destruct l as [|b r]; [reflexivity|].
  rewrite validate_level_cons. inversion HF' as [|? ? Hb _]; subst. inversion Hh as [|? ? Hab]; subst.
  destruct (tbl_ok_biggest _ Ha) as (x & Bx). destruct (tbl_ok_smallest _ Hb) as (y & Sy).
  destruct (tbl_ok_biggest _ Hb) as (z & Bz).
  rewrite Bx, Sy, Bz. destruct (tlt_chain _ _ _ _ Hab Bx Sy) as [C _]. rewrite C.
  assert (Hyz: ent_cmp y z <> Gt).
  { destruct Hb as [_ Hsb]. unfold t_biggest in Bz.
    destruct (ssorted_last _ _ y Hsb Bz (smallest_in _ _ Sy)) as [->|E].
    - rewrite ent_cmp_refl. discriminate. - unfold elt in E. rewrite E. discriminate. }
  destruct (ent_cmp y z); try congruence; now apply IH.
Qed.

Theorem levels_wf_validate ls : levels_wf ls = true -> validate_levels ls = true.
Proof.
  intros H. apply levels_wf_iff in H. unfold validate_levels. destruct ls as [|l0 r]; auto.
  apply forallb_forall. intros l Hl. apply level_ok_validate.
  destruct (In_nth _ _ [] Hl) as (i & _ & <-). apply (H (S i)).
Qed.

Lemma StronglySorted_pair {A} (R : A -> A -> Prop) l a b :
  StronglySorted R l -> In a l -> In b l -> a = b \/ R a b \/ R b a.
Proof.
  induction 1 as [|x l Hs IH Hx]; [intros []|]. rewrite Forall_forall in Hx.
  intros [<-|Ha] [<-|Hb]; auto.
Qed.

(* all versions of a user key on a level >= 1 live in one table *)
Theorem level_ok_one_table l a b x y :
  level_ok l -> In a l -> In b l -> In x (t_ents a) -> In y (t_ents b) -> e_key x = e_key y -> a = b.
Proof.
  unfold level_ok. intros (_ & Hs & _) Ha Hb Hx Hy E. unfold tlt in Hs.
  destruct (StronglySorted_pair _ _ _ _ Hs Ha Hb) as [H|[(_ & _ & H)|(_ & _ & H)]]; auto; exfalso.
  - specialize (H _ _ Hx Hy). rewrite E in H. exact (klt_irrefl _ H).
  - specialize (H _ _ Hy Hx). rewrite E in H. exact (klt_irrefl _ H).
Qed.

(* the tables of a well-formed level, concatenated, are one strictly sorted run
   (table.ConcatIterator relies on it) *)
Lemma level_concat_sorted l : Forall tbl_ok l -> StronglySorted tlt l -> ssorted (concat (map t_ents l)).
Proof.
  induction l as [|a l IH]; intros HF Hs; cbn; [constructor|].
  inversion HF as [|? ? Ha HF']; subst. inversion Hs as [|? ? Hs' Hal]; subst.
  apply ssorted_app; auto; [apply Ha|].
  intros x y Hx Hy. apply in_concat in Hy. destruct Hy as (s & Hs0 & Hy).
  apply in_map_iff in Hs0. destruct Hs0 as (t & <- & Ht). rewrite Forall_forall in Hal.
  destruct (Hal _ Ht) as (_ & _ & K). apply klt_elt. auto.
Qed.

(* ---- memtable ---- *)
Lemma mt_put_sorted s e : ssorted s -> ssorted (mt_put s e).
Proof.
  induction s as [|x s IH]; intros Hs; cbn [mt_put]; [repeat constructor|].
  apply ssorted_cons_inv in Hs. destruct Hs as [Hs Hx]. rewrite Forall_forall in Hx.
  destruct (ent_cmp e x) eqn:C.
  - constructor; auto. apply Forall_forall. intros z Hz. unfold elt. rewrite (ent_cmp_eq_l _ _ _ C). now apply Hx.
  - constructor; [constructor; auto; now apply Forall_forall|]. constructor; auto.
    apply Forall_forall. intros z Hz. eapply elt_trans; [exact C|auto].
  - constructor; [apply IH; auto|]. apply Forall_forall. intros z Hz. apply mt_put_in in Hz. destruct Hz as [->|Hz]; auto.
    now apply elt_gt.
Qed.

Lemma fold_mt_put_sorted es s : ssorted s -> ssorted (fold_left mt_put es s).
Proof. revert s. induction es as [|e es IH]; intros s Hs; cbn [fold_left]; auto. apply IH. now apply mt_put_sorted. Qed.

(* ---- the invariant on a whole DB ---- *)
Definition db_ok (d : lsm) : Prop :=
  ssorted (l_mt d) /\ Forall ssorted (l_imm d) /\ levels_ok (l_levels d).

Lemma rotate_ok d : db_ok d -> db_ok (rotate d).
Proof.
  unfold db_ok. intros (H1 & H2 & H3). unfold rotate. repeat split; cbn [l_mt l_imm l_levels]; auto.
  - constructor.
  - apply Forall_app. split; auto.
Qed.

Lemma add_l0_ok ls t : levels_ok ls -> tbl_ok t -> levels_ok (add_l0 ls t).
Proof.
  intros H Ht n. destruct ls as [|l0 r]; cbn [add_l0].
  - destruct n as [|[|n]]; cbn; [constructor; [exact Ht|constructor]|apply level_ok_nil|apply level_ok_nil].
  - destruct n as [|n]; cbn [nth lvl_ok].
    + apply Forall_app. split; [apply (H O)|constructor; [exact Ht|constructor]].
    + apply (H (S n)).
Qed.

Lemma flush_oldest_ok d id : db_ok d -> db_ok (flush_oldest d id).
Proof.
  unfold db_ok. intros (H1 & H2 & H3). unfold flush_oldest. destruct (l_imm d) as [|m r] eqn:E; [repeat split; auto; now rewrite E|].
  inversion H2 as [|? ? Hm Hr]; subst. repeat split; cbn [l_mt l_imm l_levels]; auto.
  destruct m as [|e0 m0]; auto. apply add_l0_ok; auto. split; cbn [t_ents]; [discriminate|auto].
Qed.

Lemma close_db_ok d ids : db_ok d -> db_ok (close_db d ids).
Proof.
  intros H. unfold close_db.
  assert (G: forall d0, db_ok d0 -> db_ok (fold_left flush_oldest ids d0)).
  { induction ids as [|i ids IH]; intros d0 H0; cbn [fold_left]; auto. apply IH. now apply flush_oldest_ok. }
  apply G. destruct (l_mt d); auto. now apply rotate_ok.
Qed.

Lemma open_db_ok d : db_ok d -> db_ok (open_db d).
Proof.
  unfold db_ok. intros (H1 & H2 & H3). unfold open_db. repeat split; cbn [l_mt l_imm l_levels]; auto; [constructor|].
  intros n. unfold open_levels. destruct (l_levels d) as [|l0 r] eqn:E; [destruct n; apply lvl_ok_nil|].
  destruct n as [|n]; cbn [nth lvl_ok].
  - specialize (H3 O). cbn in H3. rewrite Forall_forall in *. intros t Ht.
    apply H3. now apply sort_by_id_in.
  - exact (H3 (S n)).
Qed.

Lemma repeat_nil_ok n : levels_ok (repeat [] n).
Proof.
  intros m. destruct (nth_in_or_default m (repeat (@nil table) n) []) as [H|E].
  - apply repeat_spec in H. rewrite H. apply lvl_ok_nil.
  - rewrite E. apply lvl_ok_nil.
Qed.
