(* SkiplistInstProofs.v — CompareKeys is a strict total order on internal keys; the generic
   skiplist theorems instantiated with it. *)
From Verif Require Import Bytes BytesProofs Keys Codec Skiplist SkiplistProofs SkiplistInst.
From Coq Require Import Lia Sorted.
Open Scope nat_scope.

Definition key_pair (k : bytes) : bytes * bytes := (dropn_end 8 k, lastn 8 k).
Definition pair_cmp (p q : bytes * bytes) : comparison :=
  match lex_cmp (fst p) (fst q) with Eq => lex_cmp (snd p) (snd q) | c => c end.

Lemma ckeys_pair : forall a b, wf_ikey a -> wf_ikey b -> ckeys a b = pair_cmp (key_pair a) (key_pair b).
Proof.
  intros a b Ha Hb. unfold ckeys, compare_keys, wf_ikey in *.
  assert (E1 : (length a <? 8) = false) by (apply Nat.ltb_ge; exact Ha).
  assert (E2 : (length b <? 8) = false) by (apply Nat.ltb_ge; exact Hb).
  rewrite E1, E2. reflexivity.
Qed.

Lemma pair_cmp_antisym : forall p q, pair_cmp q p = CompOpp (pair_cmp p q).
Proof.
  intros p q. unfold pair_cmp. rewrite (lex_cmp_antisym (fst p) (fst q)).
  destruct (lex_cmp (fst p) (fst q)); cbn; auto. apply lex_cmp_antisym.
Qed.

Lemma pair_cmp_trans : forall p q r, pair_cmp p q = Lt -> pair_cmp q r = Lt -> pair_cmp p r = Lt.
Proof.
  intros p q r. unfold pair_cmp.
  destruct (lex_cmp (fst p) (fst q)) eqn:E1; destruct (lex_cmp (fst q) (fst r)) eqn:E2; intros H1 H2; try discriminate.
  - apply lex_cmp_eq in E1. apply lex_cmp_eq in E2. rewrite E1, E2, lex_cmp_refl.
    apply (lex_cmp_trans_lt _ _ _ H1 H2).
  - apply lex_cmp_eq in E1. rewrite E1, E2. reflexivity.
  - apply lex_cmp_eq in E2. rewrite <- E2, E1. reflexivity.
  - rewrite (lex_cmp_trans_lt _ _ _ E1 E2). reflexivity.
Qed.

Lemma pair_cmp_eq : forall p q, pair_cmp p q = Eq -> p = q.
Proof.
  intros [p1 p2] [q1 q2]. unfold pair_cmp. cbn [fst snd].
  destruct (lex_cmp p1 q1) eqn:E1; intros H; try discriminate.
  apply lex_cmp_eq in E1. apply lex_cmp_eq in H. subst. reflexivity.
Qed.

Lemma ckeys_antisym : forall a b, wf_ikey a -> wf_ikey b -> ckeys b a = CompOpp (ckeys a b).
Proof. intros a b Ha Hb. rewrite !ckeys_pair by assumption. apply pair_cmp_antisym. Qed.

Lemma ckeys_trans : forall a b c, wf_ikey a -> wf_ikey b -> wf_ikey c ->
  ckeys a b = Lt -> ckeys b c = Lt -> ckeys a c = Lt.
Proof. intros a b c Ha Hb Hc. rewrite !ckeys_pair by assumption. apply pair_cmp_trans. Qed.

Lemma ckeys_eq_compat : forall a b c, wf_ikey a -> wf_ikey b -> wf_ikey c ->
  ckeys a b = Eq -> ckeys a c = ckeys b c.
Proof.
  intros a b c Ha Hb Hc. rewrite !ckeys_pair by assumption. intros H. apply pair_cmp_eq in H. rewrite H. reflexivity.
Qed.

(* equal under CompareKeys = the same byte string *)
Lemma ckeys_eq : forall a b, wf_ikey a -> wf_ikey b -> ckeys a b = Eq -> a = b.
Proof.
  intros a b Ha Hb. rewrite ckeys_pair by assumption. intros H. apply pair_cmp_eq in H.
  unfold key_pair in H. inversion H as [[H1 H2]]. unfold dropn_end, lastn in *.
  rewrite <- (firstn_skipn (length a - 8) a), <- (firstn_skipn (length b - 8) b). rewrite H1, H2. reflexivity.
Qed.

Definition ok_puts (ps : list (bytes * value_struct * nat)) : Prop :=
  forall k v h, In (k, v, h) ps -> wf_ikey k /\ 1 <= h <= max_height.

(* each generic theorem is generalised over the order laws its proof uses *)
Ltac inst t :=
  first [ let x := constr:(t ckeys_antisym ckeys_trans ckeys_eq_compat) in exact x
        | let x := constr:(t ckeys_antisym ckeys_trans) in exact x
        | let x := constr:(t ckeys_antisym ckeys_eq_compat) in exact x
        | let x := constr:(t ckeys_trans ckeys_eq_compat) in exact x
        | let x := constr:(t ckeys_antisym) in exact x
        | let x := constr:(t ckeys_trans) in exact x
        | let x := constr:(t ckeys_eq_compat) in exact x
        | exact t ].
Definition I_total := ltac:(inst (G_total bytes value_struct ckeys same_key [] zero_vs wf_ikey)).
Definition I_contents := ltac:(inst (G_contents bytes value_struct ckeys same_key [] zero_vs wf_ikey)).
Definition I_levels := ltac:(inst (G_levels bytes value_struct ckeys same_key [] zero_vs wf_ikey)).
Definition I_get := ltac:(inst (G_get bytes value_struct ckeys same_key [] zero_vs wf_ikey)).
Definition I_find_near := ltac:(inst (G_find_near bytes value_struct ckeys same_key [] zero_vs wf_ikey)).
Definition I_seek := ltac:(inst (G_seek bytes value_struct ckeys same_key [] zero_vs wf_ikey)).
Definition I_first_last := ltac:(inst (G_first_last bytes value_struct ckeys same_key [] zero_vs wf_ikey)).
Definition I_next_prev := ltac:(inst (G_next_prev bytes value_struct ckeys same_key [] zero_vs wf_ikey)).
Definition I_iterate := ltac:(inst (G_iterate bytes value_struct ckeys same_key [] zero_vs wf_ikey)).
Definition I_cexec_structure := ltac:(inst (cexec_structure bytes value_struct ckeys same_key [] zero_vs wf_ikey)).
Definition I_cexec_lin := ltac:(inst (cexec_linearization bytes value_struct ckeys same_key [] zero_vs wf_ikey)).
Definition I_cexec_inv := ltac:(inst (cexec_inv bytes value_struct ckeys same_key [] zero_vs wf_ikey)).
Definition I_stable := ltac:(inst (stable_step bytes value_struct ckeys same_key [] zero_vs wf_ikey)).
Definition I_read_next := ltac:(inst (read_next_spec bytes value_struct ckeys same_key [] zero_vs wf_ikey)).

Definition c_exec := cexec bytes value_struct ckeys [] zero_vs wf_ikey.
Definition c_guard := cguard bytes value_struct ckeys [] zero_vs wf_ikey.
Definition c_apply := capply bytes value_struct [] zero_vs.
Definition c_abs := cabs bytes value_struct ckeys [] zero_vs.
Definition c_linked_at := linked_at bytes value_struct [] zero_vs.

Definition c_reader_fwd := reader_fwd bytes value_struct ckeys [] zero_vs wf_ikey.
Definition I_reader_gen := ltac:(inst (reader_fwd_sorted bytes value_struct ckeys same_key [] zero_vs wf_ikey)).

(* the reader starts in any reachable state, before the first entry (SeekToFirst) *)
Lemma I_reader : forall tr s ns s2, c_exec s_new tr s -> c_reader_fwd s head ns s2 ->
  (forall n, In n ns -> In n (s_level_nodes s2 0)) /\
  StronglySorted (fun a b => ckeys (s_kof s2 a) (s_kof s2 b) = Lt) ns.
Proof.
  intros tr s ns s2 Hex Hr. destruct (I_cexec_inv tr s Hex) as [lv H].
  destruct (I_reader_gen s head ns s2 Hr lv H (or_introl eq_refl)) as [A [B _]]. split; assumption.
Qed.

Lemma I_stable_reach : forall tr s a, c_exec s_new tr s -> c_guard a s ->
  (forall y, y < length (nodes _ _ s) ->
     s_kof (c_apply a s) y = s_kof s y /\
     length (n_tower _ _ (node_at _ _ [] zero_vs (c_apply a s) y)) =
     length (n_tower _ _ (node_at _ _ [] zero_vs s y))) /\
  length (nodes _ _ s) <= length (nodes _ _ (c_apply a s)) /\
  height _ _ s <= height _ _ (c_apply a s) /\
  (forall i y, i < max_height -> In y (s_level_nodes s i) -> In y (s_level_nodes (c_apply a s) i)).
Proof.
  intros tr s a Hex G. destruct (I_cexec_inv tr s Hex) as [lv H]. apply (I_stable s lv a H G).
Qed.

Lemma I_read_reach : forall tr s i p n, c_exec s_new tr s -> i < max_height ->
  c_linked_at s i p -> get_next _ _ [] zero_vs s p i = n -> n <> 0 ->
  In n (s_level_nodes s i) /\ (p = head \/ ckeys (s_kof s p) (s_kof s n) = Lt).
Proof.
  intros tr s i p n Hex Hi Hp Hg Hn. destruct (I_cexec_inv tr s Hex) as [lv H].
  apply (I_read_next s lv i p n H Hi Hp Hg Hn).
Qed.
