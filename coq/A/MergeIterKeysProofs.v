(* MergeIterKeysProofs.v — CompareKeys is a total order where it does not panic; the theorems of
   MergeIterProofs.v instantiated with the real key functions of MergeIterKeys.v; the byte-key
   form of the specification (b_merged, b_first_wins, b_skip, b_spec_run). *)
From Verif Require Import Bytes BytesProofs Keys MergeIter MergeIterKeys MergeIterProofs.
From Coq Require Import Sorted ZifyNat.
Local Open Scope nat_scope.

Lemma compare_keys_good a b : good_key a -> good_key b -> compare_keys a b = Some (ckeys a b).
Proof.
  unfold good_key, compare_keys, ckeys. intros Ha Hb.
  assert (E1 : (length a <? 8) = false) by (apply Nat.ltb_ge; lia).
  assert (E2 : (length b <? 8) = false) by (apply Nat.ltb_ge; lia).
  rewrite E1, E2. reflexivity.
Qed.

(* compare_keys panics exactly on short keys *)
Lemma compare_keys_none a b : compare_keys a b = None <-> ~ (good_key a /\ good_key b).
Proof.
  unfold good_key, compare_keys.
  destruct (Nat.ltb_spec (length a) 8) as [Ha|Ha]; destruct (Nat.ltb_spec (length b) 8) as [Hb|Hb];
    cbn [orb]; split; intros H; try reflexivity; try discriminate; try lia.
Qed.

Lemma split8 (a : bytes) : dropn_end 8 a ++ lastn 8 a = a.
Proof. unfold dropn_end, lastn. apply firstn_skipn. Qed.

Lemma ckeys_eq a b : ckeys a b = Eq <-> a = b.
Proof.
  unfold ckeys. split.
  - destruct (lex_cmp (dropn_end 8 a) (dropn_end 8 b)) eqn:E; try discriminate.
    intros E2. apply lex_cmp_eq in E. apply lex_cmp_eq in E2.
    rewrite <- (split8 a), <- (split8 b), E, E2. reflexivity.
  - intros ->. rewrite !lex_cmp_refl. reflexivity.
Qed.

Lemma ckeys_anti a b : ckeys b a = CompOpp (ckeys a b).
Proof.
  unfold ckeys. rewrite (lex_cmp_antisym (dropn_end 8 a) (dropn_end 8 b)).
  destruct (lex_cmp (dropn_end 8 a) (dropn_end 8 b)); cbn; auto.
  apply lex_cmp_antisym.
Qed.

Lemma ckeys_trans a b c : ckeys a b = Lt -> ckeys b c = Lt -> ckeys a c = Lt.
Proof.
  unfold ckeys.
  destruct (lex_cmp (dropn_end 8 a) (dropn_end 8 b)) eqn:E1; try discriminate;
  destruct (lex_cmp (dropn_end 8 b) (dropn_end 8 c)) eqn:E2; try discriminate; intros H1 H2.
  - apply lex_cmp_eq in E1. apply lex_cmp_eq in E2. rewrite E1, E2, lex_cmp_refl.
    eapply lex_cmp_trans_lt; eauto.
  - apply lex_cmp_eq in E1. rewrite E1, E2. reflexivity.
  - apply lex_cmp_eq in E2. rewrite <- E2, E1. reflexivity.
  - rewrite (lex_cmp_trans_lt _ _ _ E1 E2). reflexivity.
Qed.

Lemma bytes_eqb_spec a b : bytes_eqb a b = true <-> a = b.
Proof. apply bytes_eqb_eq. Qed.

Section WithValues.
Variable V : Type.

Local Notation bentry := (bentry V).
Local Notation biter := (biter V).
Local Notation b_new_merge := (b_new_merge V).
Local Notation b_run_ops := (b_run_ops V).
Local Notation b_next := (b_next V).
Local Notation b_rewind := (b_rewind V).
Local Notation b_seek := (b_seek V).
Local Notation b_drain_all := (b_drain_all V).
Local Notation b_valid := (b_valid V).
Local Notation b_key := (b_key V).
Local Notation b_value := (b_value V).
Local Notation keys_good := (keys_good V).
Local Notation keys_sorted := (keys_sorted V).

(* the specification side *)
Definition b_dcmp (rv : bool) (a b : bytes) : comparison := if rv then ckeys b a else ckeys a b.
Definition b_sorted (rv : bool) (l : list bentry) : Prop :=
  StronglySorted (fun a b => b_dcmp rv (fst a) (fst b) = Lt) l.
Definition b_merged (rv : bool) (inputs : list (list bentry)) : list bentry :=
  merged bytes V ckeys rv inputs.
Definition b_first_wins : list (list bentry) -> bytes -> V -> Prop := first_wins bytes V.
Definition b_skip (rv : bool) (k : bytes) (l : list bentry) : list bentry :=
  skipb bytes V (dcmp bytes ckeys rv) k l.
Definition b_spec_run (rv : bool) (M : list bentry) (ops : list (op bytes)) (s : list bentry) :=
  spec_run bytes V ckeys rv M ops s.
(* the calls respect the children's contract (Next on a bare child only while it is valid):
   automatic with two or more inputs; with a single input NewMergeIterator returns the child itself *)
Definition b_ops_safe (rv : bool) (M : list bentry) (ops : list (op bytes)) (s : list bentry) : Prop :=
  ops_safe bytes V ckeys rv M ops s.
Definition b_calls_ok (rv : bool) (inputs : list (list bentry)) (ops : list (op bytes)) : Prop :=
  2 <= length inputs \/ b_ops_safe rv (b_merged rv inputs) ops [].

Lemma keys_sorted_sorted l : keys_good l -> keys_sorted l -> sorted bytes V ckeys l.
Proof.
  unfold keys_good, keys_sorted, sorted. intros Hg Hs.
  induction Hs as [|a l Hs IH Ha]; [constructor|].
  inversion Hg as [|? ? Ga Gl]; subst. constructor; [apply IH; exact Gl|].
  rewrite Forall_forall in *. intros x Hx. unfold lt_e.
  specialize (Ha x Hx). rewrite (compare_keys_good _ _ Ga (Gl x Hx)) in Ha. congruence.
Qed.

Lemma inputs_sorted inputs :
  Forall keys_good inputs -> Forall keys_sorted inputs -> Forall (sorted bytes V ckeys) inputs.
Proof.
  intros Hg Hs. rewrite Forall_forall in *. intros l Hl. apply keys_sorted_sorted; auto.
Qed.

Lemma seeks_good_op ops : seeks_good ops -> Forall (op_good bytes good_key) ops.
Proof. unfold seeks_good. apply Forall_impl. intros [| |k]; auto. Qed.

Lemma b_sorted_iff rv l : b_sorted rv l <-> sorted bytes V (dcmp bytes ckeys rv) l.
Proof. unfold b_sorted, sorted, lt_e, b_dcmp, dcmp. tauto. Qed.

(* ---- instantiated theorems ---- *)
Theorem b_merge_refines rv inputs ops :
  inputs <> [] -> Forall keys_good inputs -> Forall keys_sorted inputs -> seeks_good ops ->
  b_calls_ok rv inputs ops ->
  exists it0 it,
    b_new_merge rv inputs = Some it0 /\ b_run_ops ops it0 = Ok it /\
    let rest := b_spec_run rv (b_merged rv inputs) ops [] in
    b_drain_all it = Ok rest /\
    b_valid it = (match rest with [] => false | _ => true end) /\
    (forall e s, rest = e :: s -> b_key it = fst e /\ b_value it = Some (snd e)).
Proof.
  intros Hne Hg Hs Ho Hc.
  exact (merge_refines bytes V compare_keys bytes_eqb [] ckeys good_key ckeys_eq ckeys_anti ckeys_trans
           compare_keys_good bytes_eqb_spec rv inputs ops Hne (inputs_sorted inputs Hg Hs) Hg (seeks_good_op ops Ho) Hc).
Qed.

Theorem b_merge_rewind rv inputs ops :
  inputs <> [] -> Forall keys_good inputs -> Forall keys_sorted inputs -> seeks_good ops ->
  b_calls_ok rv inputs ops ->
  exists it0 it it',
    b_new_merge rv inputs = Some it0 /\ b_run_ops ops it0 = Ok it /\
    b_rewind it = Ok it' /\ b_drain_all it' = Ok (b_merged rv inputs).
Proof.
  intros Hne Hg Hs Ho Hc.
  exact (merge_rewind_drain bytes V compare_keys bytes_eqb [] ckeys good_key ckeys_eq ckeys_anti ckeys_trans
           compare_keys_good bytes_eqb_spec rv inputs ops Hne (inputs_sorted inputs Hg Hs) Hg (seeks_good_op ops Ho) Hc).
Qed.

Theorem b_merge_seek rv inputs ops k :
  inputs <> [] -> Forall keys_good inputs -> Forall keys_sorted inputs -> seeks_good ops ->
  b_calls_ok rv inputs ops -> good_key k ->
  exists it0 it it',
    b_new_merge rv inputs = Some it0 /\ b_run_ops ops it0 = Ok it /\
    b_seek k it = Ok it' /\ b_drain_all it' = Ok (b_skip rv k (b_merged rv inputs)).
Proof.
  intros Hne Hg Hs Ho Hc Gk.
  exact (merge_seek_drain bytes V compare_keys bytes_eqb [] ckeys good_key ckeys_eq ckeys_anti ckeys_trans
           compare_keys_good bytes_eqb_spec rv inputs ops k Hne (inputs_sorted inputs Hg Hs) Hg (seeks_good_op ops Ho) Hc Gk).
Qed.

(* the sorted union: strictly sorted in iteration order; holds exactly the copy of the earliest
   input for each key; and these two facts determine it *)
Theorem b_merged_spec rv inputs :
  Forall keys_good inputs -> Forall keys_sorted inputs ->
  b_sorted rv (b_merged rv inputs) /\
  (forall k v, In (k, v) (b_merged rv inputs) <-> b_first_wins inputs k v) /\
  (forall out, b_sorted rv out -> (forall k v, In (k, v) out <-> b_first_wins inputs k v) ->
               out = b_merged rv inputs).
Proof.
  intros Hg Hs. pose proof (inputs_sorted inputs Hg Hs) as Hs'.
  destruct (merged_char bytes V ckeys ckeys_eq ckeys_anti ckeys_trans rv inputs Hs') as [S C].
  split; [apply b_sorted_iff; exact S|]. split; [exact C|].
  intros out So Co. apply (merged_unique bytes V ckeys ckeys_eq ckeys_anti ckeys_trans); auto.
Qed.

Theorem b_first_wins_index inputs k v :
  b_first_wins inputs k v <->
  exists i l, nth_error inputs i = Some l /\ In (k, v) l /\
              forall j l', j < i -> nth_error inputs j = Some l' -> ~ In k (map fst l').
Proof.
  exact (first_wins_nth bytes V compare_keys bytes_eqb ckeys good_key ckeys_eq ckeys_anti ckeys_trans
           compare_keys_good bytes_eqb_spec inputs k v).
Qed.

(* Seek's landing: exactly the union's entries at or after the target (at or before it when
   reversed), in iteration order *)
Theorem b_skip_spec rv inputs k :
  Forall keys_good inputs -> Forall keys_sorted inputs ->
  b_sorted rv (b_skip rv k (b_merged rv inputs)) /\
  forall e, In e (b_skip rv k (b_merged rv inputs)) <->
            In e (b_merged rv inputs) /\ b_dcmp rv (fst e) k <> Lt.
Proof.
  intros Hg Hs. pose proof (inputs_sorted inputs Hg Hs) as Hs'.
  destruct (seek_spec_char bytes V ckeys ckeys_eq ckeys_anti ckeys_trans rv inputs k Hs') as [S C].
  split; [apply b_sorted_iff; exact S|exact C].
Qed.

Theorem b_new_merge_nil rv : b_new_merge rv [] = None.
Proof. reflexivity. Qed.

End WithValues.
