From Verif Require Import Bytes BytesProofs Uvarint UvarintProofs Keys Codec.
From Coq Require Import ZifyN ZifyNat ZifyBool.
Open Scope N_scope.

Lemma be8_len x : length (be_enc 8 x) = 8%nat.
Proof. apply be_enc_length. Qed.

Lemma dropn_end8 k x : dropn_end 8 (k ++ be_enc 8 x) = k.
Proof. pose proof (dropn_end_app k (be_enc 8 x)) as H. now rewrite be8_len in H. Qed.
Lemma lastn8 k x : lastn 8 (k ++ be_enc 8 x) = be_enc 8 x.
Proof. pose proof (lastn_app k (be_enc 8 x)) as H. now rewrite be8_len in H. Qed.

Lemma parse_key_key_with_ts k ts : parse_key (key_with_ts k ts) = k.
Proof.
  unfold parse_key, key_with_ts. rewrite app_length, be8_len.
  assert (H: (length k + 8 <? 8)%nat = false) by (apply Nat.ltb_ge; lia). rewrite H.
  apply dropn_end8.
Qed.

Lemma parse_ts_key_with_ts k ts : k <> [] -> ts < two64 -> parse_ts (key_with_ts k ts) = ts.
Proof.
  intros Hk Hts. unfold parse_ts, key_with_ts. rewrite app_length, be8_len.
  assert (H: (length k + 8 <=? 8)%nat = false).
  { apply Nat.leb_gt. destruct k; [congruence|cbn; lia]. }
  rewrite H. rewrite lastn8.
  rewrite be_dec_enc_small; unfold max_u64, two64 in *; [lia|].
  change (256 ^ N.of_nat 8) with 18446744073709551616. lia.
Qed.

(* with an empty user key ParseTs answers 0: the reason the property says "non-empty" *)
Lemma parse_ts_empty_key ts : parse_ts (key_with_ts [] ts) = 0.
Proof. reflexivity. Qed.

Lemma compare_keys_spec k1 t1 k2 t2 : t1 < two64 -> t2 < two64 ->
  compare_keys (key_with_ts k1 t1) (key_with_ts k2 t2) = Some (key_order k1 t1 k2 t2).
Proof.
  intros H1 H2. unfold compare_keys, key_with_ts, key_order.
  rewrite !app_length, !be8_len.
  assert (E: ((length k1 + 8 <? 8) || (length k2 + 8 <? 8))%nat = false) by lia.
  rewrite E. f_equal.
  rewrite !dropn_end8, !lastn8.
  destruct (lex_cmp k1 k2); auto.
  rewrite be_enc_cmp.
  - unfold max_u64, two64 in *.
    destruct (t2 ?= t1) eqn:E2.
    + apply N.compare_eq_iff in E2. subst. apply N.compare_refl.
    + rewrite N.compare_lt_iff in *. lia.
    + rewrite N.compare_gt_iff in *. lia.
  - change (256 ^ N.of_nat 8) with 18446744073709551616. unfold max_u64. lia.
  - change (256 ^ N.of_nat 8) with 18446744073709551616. unfold max_u64. lia.
Qed.

Lemma same_key_spec k1 t1 k2 t2 :
  same_key (key_with_ts k1 t1) (key_with_ts k2 t2) = bytes_eqb k1 k2.
Proof.
  unfold same_key. rewrite !parse_key_key_with_ts. unfold key_with_ts.
  rewrite !app_length, !be8_len.
  destruct (bytes_eqb k1 k2) eqn:E.
  - apply bytes_eqb_eq in E. subst. now rewrite Nat.eqb_refl.
  - apply andb_false_r.
Qed.

(* key_order is a strict total order on (wf key, version) pairs *)
Lemma key_order_eq k1 t1 k2 t2 : key_order k1 t1 k2 t2 = Eq <-> k1 = k2 /\ t1 = t2.
Proof.
  unfold key_order. destruct (lex_cmp k1 k2) eqn:E.
  - apply lex_cmp_eq in E. subst. rewrite N.compare_eq_iff. split; [intros ->; auto|intros [_ ->]; auto].
  - split; [discriminate|]. intros [-> _]. rewrite lex_cmp_refl in E. discriminate.
  - split; [discriminate|]. intros [-> _]. rewrite lex_cmp_refl in E. discriminate.
Qed.

Lemma key_order_antisym k1 t1 k2 t2 : key_order k2 t2 k1 t1 = CompOpp (key_order k1 t1 k2 t2).
Proof.
  unfold key_order. rewrite (lex_cmp_antisym k1 k2).
  destruct (lex_cmp k1 k2); cbn; try reflexivity. apply N.compare_antisym.
Qed.

Lemma key_order_trans_lt k1 t1 k2 t2 k3 t3 :
  key_order k1 t1 k2 t2 = Lt -> key_order k2 t2 k3 t3 = Lt -> key_order k1 t1 k3 t3 = Lt.
Proof.
  unfold key_order.
  destruct (lex_cmp k1 k2) eqn:E1; try discriminate;
  destruct (lex_cmp k2 k3) eqn:E2; try discriminate; intros H1 H2.
  - apply lex_cmp_eq in E1, E2. subst. rewrite lex_cmp_refl.
    rewrite N.compare_lt_iff in *. lia.
  - apply lex_cmp_eq in E1. subst. now rewrite E2.
  - apply lex_cmp_eq in E2. subst. now rewrite E1.
  - now rewrite (lex_cmp_trans_lt _ _ _ E1 E2).
Qed.

(* the encoding is injective: distinct (key, version) pairs never share an internal key *)
Lemma key_with_ts_inj k1 t1 k2 t2 : t1 < two64 -> t2 < two64 ->
  key_with_ts k1 t1 = key_with_ts k2 t2 -> k1 = k2 /\ t1 = t2.
Proof.
  intros H1 H2 E.
  pose proof (compare_keys_spec k1 t1 k2 t2 H1 H2) as C. rewrite E in C.
  pose proof (compare_keys_spec k2 t2 k2 t2 H2 H2) as C2. rewrite C2 in C.
  injection C as C. apply (proj1 (key_order_eq k1 t1 k2 t2)). rewrite <- C.
  apply key_order_eq. split; reflexivity.
Qed.

(* ---- header ---- *)
Lemma header_roundtrip h rest :
  h_klen h < two32 -> h_vlen h < two32 -> h_expires h < two64 ->
  header_decode (header_encode h ++ rest) = Some (h, Z.of_nat (length (header_encode h))).
Proof.
  destruct h as [kl vl ex m u]. cbn [h_klen h_vlen h_expires h_meta h_umeta]. intros Hk Hv He.
  unfold header_encode. cbn [h_klen h_vlen h_expires h_meta h_umeta].
  cbn [app]. unfold header_decode.
  set (A := put_uvarint kl). set (B := put_uvarint vl). set (C := put_uvarint ex).
  replace (m :: u :: (A ++ B ++ C) ++ rest) with ([m; u] ++ (A ++ B ++ C ++ rest))
    by (cbn; now rewrite <- !app_assoc).
  change 2%Z with (Z.of_nat (length [m; u])). rewrite slice_from_app.
  unfold A at 1. rewrite uvarint_put by (unfold two32, two64 in *; lia). fold A.
  replace ([m; u] ++ A ++ B ++ C ++ rest) with (([m; u] ++ A) ++ B ++ C ++ rest)
    by now rewrite <- app_assoc.
  replace (Z.of_nat (length [m; u]) + Z.of_nat (length A))%Z with (Z.of_nat (length ([m; u] ++ A)))
    by (rewrite app_length; lia).
  rewrite slice_from_app.
  unfold B at 1. rewrite uvarint_put by (unfold two32, two64 in *; lia). fold B.
  replace (([m; u] ++ A) ++ B ++ C ++ rest) with ((([m; u] ++ A) ++ B) ++ C ++ rest)
    by now rewrite <- !app_assoc.
  replace (Z.of_nat (length ([m; u] ++ A)) + Z.of_nat (length B))%Z
    with (Z.of_nat (length (([m; u] ++ A) ++ B))) by (rewrite !app_length; lia).
  rewrite slice_from_app.
  unfold C at 1. rewrite uvarint_put by assumption. fold C.
  rewrite !N.mod_small by assumption.
  f_equal. f_equal. cbn [length app]. rewrite !app_length. cbn [length]. lia.
Qed.

Lemma put_uvarint_u32_len x : x < two32 -> (length (put_uvarint x) <= 5)%nat.
Proof.
  intros H. unfold put_uvarint. unfold two32 in H.
  cbn [put_uvarint_f].
  destruct (x <? 128) eqn:E1; [cbn; lia|].
  destruct (x / 128 <? 128) eqn:E2; [cbn; lia|].
  destruct (x / 128 / 128 <? 128) eqn:E3; [cbn; lia|].
  destruct (x / 128 / 128 / 128 <? 128) eqn:E4; [cbn; lia|].
  assert (x / 128 / 128 / 128 / 128 < 128).
  { rewrite !N.div_div by lia. apply N.div_lt_upper_bound; lia. }
  assert (E5: (x / 128 / 128 / 128 / 128 <? 128) = true) by (apply N.ltb_lt; assumption).
  rewrite E5. cbn. lia.
Qed.

Lemma header_encode_len_max h : h_klen h < two32 -> h_vlen h < two32 ->
  (length (header_encode h) <= 22)%nat.
Proof.
  intros Hk Hv. unfold header_encode. rewrite !app_length. cbn [length].
  pose proof (put_uvarint_u32_len _ Hk). pose proof (put_uvarint_u32_len _ Hv).
  pose proof (put_uvarint_len_le (h_expires h)). lia.
Qed.

(* ---- value struct ---- *)
Lemma vs_roundtrip v : vs_expires v < two64 -> vs_decode (vs_encode v) = Some v.
Proof.
  destruct v as [m u ex val]. cbn [vs_expires]. intros He.
  unfold vs_encode, vs_decode. cbn [vs_meta vs_umeta vs_expires vs_value app].
  rewrite uvarint_put by assumption.
  replace (m :: u :: put_uvarint ex ++ val) with (([m; u] ++ put_uvarint ex) ++ val)
    by (cbn; reflexivity).
  replace (2 + Z.of_nat (length (put_uvarint ex)))%Z
    with (Z.of_nat (length ([m; u] ++ put_uvarint ex))) by (rewrite app_length; cbn [length]; lia).
  now rewrite slice_from_app.
Qed.

Lemma vs_encoded_size_spec v :
  N.of_nat (length (vs_encode v)) < two32 ->
  vs_encoded_size v = N.of_nat (length (vs_encode v)).
Proof.
  intros H. unfold vs_encoded_size, vs_encode in *. rewrite !app_length in *. cbn [length] in *.
  rewrite size_varint_put in *. rewrite N.mod_small; [f_equal; lia|].
  eapply N.le_lt_trans; [|exact H]. lia.
Qed.

(* ---- value pointer ---- *)
Lemma firstn_len_app {A} (a b : list A) n : length a = n -> firstn n (a ++ b) = a.
Proof. intros <-. rewrite firstn_app, Nat.sub_diag, firstn_all. cbn. apply app_nil_r. Qed.
Lemma skipn_len_app {A} (a b : list A) n : length a = n -> skipn n (a ++ b) = b.
Proof. intros <-. rewrite skipn_app, Nat.sub_diag, skipn_all. reflexivity. Qed.

Lemma vptr_roundtrip p : vp_fid p < two32 -> vp_len p < two32 -> vp_off p < two32 ->
  vptr_decode (vptr_encode p) = Some p /\ length (vptr_encode p) = 12%nat.
Proof.
  destruct p as [f l o]. cbn [vp_fid vp_len vp_off]. intros Hf Hl Ho.
  unfold vptr_encode, vptr_decode. cbn [vp_fid vp_len vp_off].
  rewrite !app_length, !le_enc_length. cbn [Nat.ltb Nat.leb Nat.add]. split; [|reflexivity].
  f_equal.
  rewrite (firstn_len_app (le_enc 4 f)) by apply le_enc_length.
  rewrite (skipn_len_app (le_enc 4 f) _ 4) by apply le_enc_length.
  rewrite (firstn_len_app (le_enc 4 l)) by apply le_enc_length.
  rewrite app_assoc.
  rewrite (skipn_len_app (le_enc 4 f ++ le_enc 4 l) _ 8) by (rewrite app_length, !le_enc_length; reflexivity).
  rewrite <- (app_nil_r (le_enc 4 o)).
  rewrite (firstn_len_app (le_enc 4 o)) by apply le_enc_length.
  rewrite !le_dec_enc_small by (change (256 ^ N.of_nat 4) with 4294967296; unfold two32 in *; lia).
  reflexivity.
Qed.

(* ---- valuePointer.Less: a strict total order on (fid, offset, len) ---- *)
Lemma vptr_less_irrefl p : vptr_less p p = false.
Proof. unfold vptr_less. rewrite !N.eqb_refl. cbn. apply N.ltb_irrefl. Qed.

Lemma vptr_less_trans p q r : vptr_less p q = true -> vptr_less q r = true -> vptr_less p r = true.
Proof.
  unfold vptr_less.
  destruct (vp_fid p =? vp_fid q) eqn:F1; destruct (vp_fid q =? vp_fid r) eqn:F2;
  destruct (vp_fid p =? vp_fid r) eqn:F3; cbn;
  destruct (vp_off p =? vp_off q) eqn:O1; destruct (vp_off q =? vp_off r) eqn:O2;
  destruct (vp_off p =? vp_off r) eqn:O3; cbn; lia.
Qed.

Lemma vptr_less_total p q : vptr_less p q = false -> vptr_less q p = false -> p = q.
Proof.
  unfold vptr_less. destruct p as [f1 l1 o1], q as [f2 l2 o2]; cbn.
  destruct (f1 =? f2) eqn:F1; destruct (f2 =? f1) eqn:F2; cbn;
  destruct (o1 =? o2) eqn:O1; destruct (o2 =? o1) eqn:O2; cbn; intros H1 H2; try lia.
  f_equal; lia.
Qed.

(* ---- decode-then-encode ---- *)
Lemma be_dec_lt l : wf_bytes l = true -> be_dec l < 256 ^ N.of_nat (length l).
Proof.
  induction l as [|b l IH] using rev_ind; intros W.
  - cbn. lia.
  - rewrite wf_bytes_app in W. apply andb_true_iff in W as [W1 W2].
    cbn in W2. rewrite andb_true_r in W2. unfold wf_byte in W2. apply N.ltb_lt in W2.
    specialize (IH W1). unfold be_dec in *. rewrite fold_left_app. cbn [fold_left].
    rewrite app_length. cbn [length]. rewrite Nat.add_1_r, pow256_succ. nia.
Qed.

Lemma be_enc_dec l : wf_bytes l = true -> be_enc (length l) (be_dec l) = l.
Proof.
  induction l as [|b l IH]; intros W; [reflexivity|].
  cbn [wf_bytes forallb] in W. apply andb_true_iff in W as [Wb W].
  unfold wf_byte in Wb. apply N.ltb_lt in Wb. fold (wf_bytes l) in W.
  cbn [length be_enc]. unfold be_dec at 1 2. cbn [fold_left].
  rewrite be_dec_acc. pose proof (be_dec_lt l W) as L. pose proof (pow256_pos (length l)) as P.
  replace ((0 * 256 + b) * 256 ^ N.of_nat (length l) + be_dec l)
    with (be_dec l + b * 256 ^ N.of_nat (length l)) by lia.
  rewrite N.div_add by lia. rewrite N.mod_add by lia.
  rewrite (N.div_small (be_dec l)) by lia. rewrite (N.mod_small (be_dec l)) by lia.
  rewrite N.add_0_l, (N.mod_small b) by lia. now rewrite IH.
Qed.

(* decode-then-encode: every well-formed internal key longer than 8 bytes is the encoding of
   its parsed user key and version *)
Lemma key_with_ts_parse ik : wf_bytes ik = true -> (8 < length ik)%nat ->
  key_with_ts (parse_key ik) (parse_ts ik) = ik /\ parse_ts ik < two64 /\ parse_key ik <> [].
Proof.
  intros W L. unfold key_with_ts, parse_key, parse_ts.
  destruct (length ik <? 8)%nat eqn:E1; [lia|]. destruct (length ik <=? 8)%nat eqn:E2; [lia|].
  unfold dropn_end, lastn.
  assert (W8 : wf_bytes (skipn (length ik - 8) ik) = true).
  { rewrite <- (firstn_skipn (length ik - 8) ik), wf_bytes_app in W. now apply andb_true_iff in W as [_ W]. }
  assert (L8 : length (skipn (length ik - 8) ik) = 8%nat) by (rewrite skipn_length; lia).
  pose proof (be_dec_lt _ W8) as B. rewrite L8 in B. change (256 ^ N.of_nat 8) with two64 in B.
  split; [|split].
  - replace (max_u64 - (max_u64 - be_dec (skipn (length ik - 8) ik))) with (be_dec (skipn (length ik - 8) ik))
      by (unfold max_u64, two64 in *; lia).
    rewrite <- L8 at 2. rewrite (be_enc_dec _ W8). apply firstn_skipn.
  - unfold max_u64, two64 in *. lia.
  - intros H. apply (f_equal (@length N)) in H. rewrite firstn_length in H. cbn in H. lia.
Qed.

(* hence CompareKeys on ANY two well-formed stored keys orders them by (parsed key, parsed version) *)
Lemma compare_keys_raw a b : wf_bytes a = true -> wf_bytes b = true ->
  (8 < length a)%nat -> (8 < length b)%nat ->
  compare_keys a b = Some (key_order (parse_key a) (parse_ts a) (parse_key b) (parse_ts b)).
Proof.
  intros Wa Wb La Lb.
  destruct (key_with_ts_parse a Wa La) as (Ea & Ta & _).
  destruct (key_with_ts_parse b Wb Lb) as (Eb & Tb & _).
  rewrite <- Ea at 1. rewrite <- Eb at 1. now apply compare_keys_spec.
Qed.

(* ---- binary.Uvarint on arbitrary buffers ---- *)
Lemma uvarint_f_bounds buf : forall i x s, (i <= 10)%nat -> s = 7 * N.of_nat i -> x < 2 ^ s ->
  let r := uvarint_f buf i x s in
  ((0 < snd r)%Z -> (Z.of_nat i < snd r <= Z.of_nat i + Z.of_nat (length buf))%Z /\ (snd r <= 10)%Z /\ fst r < two64)
  /\ ((snd r <= 0)%Z -> fst r = 0 /\ (-11 <= snd r)%Z).
Proof.
  induction buf as [|b r IH]; intros i x s Hi Hs Hx; cbn [uvarint_f].
  - cbn. split; intros; lia.
  - destruct (Nat.eqb i 10) eqn:E10; [cbn [fst snd]; split; intros; lia|].
    destruct (b <? 128) eqn:Eb.
    + destruct (Nat.eqb i 9 && (1 <? b)) eqn:E9; cbn [fst snd length]; [split; intros; lia|].
      split; [|intros; lia]. intros _. split; [lia|]. split; [lia|].
      assert (P : 2 ^ s * 2 ^ (63 - s) = 2 ^ 63) by (rewrite <- N.pow_add_r; f_equal; lia).
      destruct (Nat.eqb i 9) eqn:E9'.
      * assert (s = 63) by lia. subst s. change two64 with (2 ^ 63 * 2). assert (b <= 1) by lia. nia.
      * assert (Q : 2 ^ (s + 7) * 2 ^ (56 - s) = 2 ^ 63) by (rewrite <- N.pow_add_r; f_equal; lia).
        rewrite N.pow_add_r in Q. change (2 ^ 7) with 128 in Q.
        assert (0 < 2 ^ (56 - s)) by (apply N.neq_0_lt_0, N.pow_nonzero; lia).
        change two64 with (2 ^ 63 * 2). nia.
    + assert (Hi' : (S i <= 10)%nat) by lia.
      assert (M : b mod 128 < 128) by (apply N.mod_lt; lia).
      assert (Hx' : x + b mod 128 * 2 ^ s < 2 ^ (s + 7)).
      { rewrite N.pow_add_r. change (2 ^ 7) with 128. nia. }
      specialize (IH (S i) (x + b mod 128 * 2 ^ s) (s + 7) Hi' ltac:(lia) Hx').
      cbn zeta in IH. destruct IH as [I1 I2]. cbn [length]. split; intros H.
      * specialize (I1 H). lia.
      * specialize (I2 H). lia.
Qed.

(* binary.Uvarint on ANY buffer: a positive count is at most 10 and at most the buffer length and the
   value fits 64 bits; a non-positive count (short buffer / overflow) comes with value 0 *)
Lemma uvarint_bounds buf :
  let r := uvarint buf in
  ((0 < snd r)%Z -> (snd r <= Z.of_nat (length buf))%Z /\ (snd r <= 10)%Z /\ fst r < two64)
  /\ ((snd r <= 0)%Z -> fst r = 0 /\ (-11 <= snd r)%Z).
Proof.
  pose proof (uvarint_f_bounds buf 0%nat 0 0 ltac:(lia) ltac:(lia) ltac:(cbn; lia)) as H.
  cbn zeta in *. unfold uvarint. destruct H as [H1 H2]. split; intros H; [specialize (H1 H)|specialize (H2 H)]; lia.
Qed.

(* ---- header.Decode on arbitrary buffers ---- *)
Lemma slice_from_some buf i b : slice_from buf i = Some b ->
  (0 <= i <= Z.of_nat (length buf))%Z /\ Z.of_nat (length b) = (Z.of_nat (length buf) - i)%Z.
Proof.
  unfold slice_from. destruct ((i <? 0)%Z || (Z.of_nat (length buf) <? i)%Z) eqn:E; [discriminate|].
  intros [= <-]. rewrite skipn_length. lia.
Qed.

Lemma uvarint_cnt_le buf : (snd (uvarint buf) <= Z.of_nat (length buf))%Z /\ fst (uvarint buf) < two64.
Proof.
  pose proof (uvarint_bounds buf) as [H1 H2]. cbn zeta in *.
  destruct (Z.ltb_spec 0 (snd (uvarint buf))) as [P|P].
  - specialize (H1 P). lia.
  - specialize (H2 P). unfold two64. lia.
Qed.

(* header.Decode on ANY buffer: when it does not panic, the count it reports never exceeds the buffer
   and every field is in its Go type's range *)
Lemma header_decode_bounds buf h n : header_decode buf = Some (h, n) ->
  (n <= Z.of_nat (length buf))%Z /\ h_klen h < two32 /\ h_vlen h < two32 /\ h_expires h < two64.
Proof.
  unfold header_decode. destruct buf as [|m [|u rest]]; try discriminate.
  set (buf := m :: u :: rest).
  destruct (slice_from buf 2) as [b1|] eqn:S1; [|discriminate].
  destruct (uvarint b1) as [klen c1] eqn:U1.
  destruct (slice_from buf (2 + c1)) as [b2|] eqn:S2; [|discriminate].
  destruct (uvarint b2) as [vlen c2] eqn:U2.
  destruct (slice_from buf (2 + c1 + c2)) as [b3|] eqn:S3; [|discriminate].
  destruct (uvarint b3) as [ex c3] eqn:U3.
  intros E. injection E as Eh En. subst h. rewrite <- En. clear En. unfold h_klen, h_vlen, h_expires.
  apply slice_from_some in S3 as [R3 L3].
  pose proof (uvarint_cnt_le b3) as [C3 X3]. rewrite U3 in C3, X3. cbn [fst snd] in *.
  split; [change (2 + c1 + c2 + c3 <= Z.of_nat (length buf))%Z; lia|]. split; [apply N.mod_lt; discriminate|]. split; [apply N.mod_lt; discriminate|exact X3].
Qed.

(* ---- ValueStruct.Decode on arbitrary buffers ---- *)
(* ValueStruct.Decode on ANY buffer: when it does not panic the value is a suffix of the buffer
   (nothing is invented), the meta bytes are the first two bytes and the expiry fits 64 bits *)
Lemma vs_decode_bounds b v : vs_decode b = Some v ->
  (exists p, b = p ++ vs_value v) /\ vs_expires v < two64 /\ firstn 2 b = [vs_meta v; vs_umeta v].
Proof.
  unfold vs_decode. destruct b as [|m [|u r]]; try discriminate.
  destruct (uvarint r) as [ex sz] eqn:U.
  destruct (slice_from (m :: u :: r) (2 + sz)) as [val|] eqn:S; [|discriminate].
  intros [= <-]. cbn [vs_value vs_expires vs_meta vs_umeta].
  split; [|split; [|reflexivity]].
  - unfold slice_from in S.
    destruct ((2 + sz <? 0)%Z || (Z.of_nat (length (m :: u :: r)) <? 2 + sz)%Z); [discriminate|].
    injection S as <-. exists (firstn (Z.to_nat (2 + sz)) (m :: u :: r)). symmetry. apply firstn_skipn.
  - pose proof (uvarint_cnt_le r) as [_ X]. now rewrite U in X.
Qed.
