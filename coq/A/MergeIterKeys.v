(* MergeIterKeys.v — the model of MergeIter.v instantiated with the real key functions
   (definitions only): keys are byte strings, the comparison is Keys.compare_keys (y.CompareKeys,
   panic = None on keys shorter than 8 bytes), key equality is bytes_eqb (bytes.Equal), nil = [].
   These are the functions corr/CorrC21.v evaluates and props/C21.v states theorems about.
   [ckeys] is compare_keys without the length guard (a total order on all byte strings, equal to
   compare_keys wherever that does not panic: MergeIterKeysProofs.v). *)
From Verif Require Import Bytes Keys MergeIter.
From Coq Require Import Sorted.
Local Open Scope nat_scope.

Definition ckeys (a b : bytes) : comparison :=
  match lex_cmp (dropn_end 8 a) (dropn_end 8 b) with
  | Eq => lex_cmp (lastn 8 a) (lastn 8 b)
  | c => c
  end.

Definition good_key (a : bytes) : Prop := 8 <= length a.

Definition seeks_good (ops : list (op bytes)) : Prop :=
  Forall (fun o => match o with OpSeek k => good_key k | _ => True end) ops.

Section WithValues.
Variable V : Type.

Definition bentry : Type := bytes * V.
Definition biter : Type := iter bytes V.

(* the model functions with the real key functions plugged in *)
Definition b_new_merge (rv : bool) (inputs : list (list bentry)) : option biter :=
  new_merge_inputs bytes V [] rv inputs.
Definition b_run_ops : list (op bytes) -> biter -> res biter :=
  run_ops bytes V compare_keys bytes_eqb [].
Definition b_apply_op : op bytes -> biter -> res biter := apply_op bytes V compare_keys bytes_eqb [].
Definition b_next : biter -> res biter := it_next bytes V compare_keys bytes_eqb [].
Definition b_rewind : biter -> res biter := it_rewind bytes V compare_keys bytes_eqb [].
Definition b_seek : bytes -> biter -> res biter := it_seek bytes V compare_keys bytes_eqb [].
Definition b_drain_all : biter -> res (list bentry) := drain_all bytes V compare_keys bytes_eqb [].
Definition b_valid : biter -> bool := it_valid bytes V.
Definition b_key : biter -> bytes := it_key bytes V [].
Definition b_value : biter -> option V := it_value bytes V.

(* hypotheses on the inputs, in terms of y.CompareKeys itself *)
Definition keys_good (l : list bentry) : Prop := Forall (fun e => good_key (fst e)) l.
Definition keys_sorted (l : list bentry) : Prop :=
  StronglySorted (fun a b => compare_keys (fst a) (fst b) = Some Lt) l.

End WithValues.
