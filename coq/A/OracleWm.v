(* OracleWm.v — txn.go: the timestamp oracle in normal (non-managed) mode, as far as it drives
   the two watermarks: readTs (locked section + WaitForMark on txnMark), newCommitTs (no-conflict
   path: doneRead, ts := nextTxnTs, nextTxnTs++, txnMark.Begin(ts), all under o.Lock),
   doneCommit, doneRead (Discard), plus db.go Open (txnMark.Done(n0), readMark.Done(n0),
   nextTxnTs = n0+1).  One label = one atomic step of one goroutine; the two `process`
   goroutines are the labels OProcTxn / OProcRead.  Conflict detection (committedTxns) is not
   part of this model (C02).  g_txn / g_read are history variables (the WaterMark calls made so
   far); nothing reads them. *)
From Verif Require Import Bytes Watermark.
Open Scope N_scope.

(* phase: 0 inside readTs, before WaitForMark's check/send; 1 waiter mark sent, blocked on waitCh;
   2 readTs returned (transaction running); 3 commit ts assigned, writes being applied;
   4 doneCommit called *)
Record txn := mkTxn { t_read_ts : N; t_phase : N; t_commit_ts : N; t_done_read : bool }.

Record orc := mkOrc {
  next_ts : N;
  txn_mark : wm; read_mark : wm;
  txns : list txn;
  g_txn : list label; g_read : list label }.

Definition tm_do (l : label) (s : orc) : orc :=
  mkOrc (next_ts s) (wm_apply l (txn_mark s)) (read_mark s) (txns s) (g_txn s ++ [l]) (g_read s).
Definition rm_do (l : label) (s : orc) : orc :=
  mkOrc (next_ts s) (txn_mark s) (wm_apply l (read_mark s)) (txns s) (g_txn s) (g_read s ++ [l]).
Definition set_txns (ts : list txn) (s : orc) : orc :=
  mkOrc (next_ts s) (txn_mark s) (read_mark s) ts (g_txn s) (g_read s).
Definition set_next (n : N) (s : orc) : orc :=
  mkOrc n (txn_mark s) (read_mark s) (txns s) (g_txn s) (g_read s).

Fixpoint upd {A} (n : nat) (x : A) (l : list A) : list A :=
  match l, n with
  | [], _ => []
  | _ :: r, O => x :: r
  | y :: r, S n' => y :: upd n' x r
  end.

(* Open: db.orc.nextTxnTs = n0; txnMark.Done(n0); readMark.Done(n0); incrementNextTs() *)
Definition orc_init (n0 : N) : orc :=
  tm_do (LDone n0) (rm_do (LDone n0) (mkOrc (n0 + 1) (wm_init 0) (wm_init 0) [] [] [])).

Inductive olabel :=
| OBeginRead            (* readTs: o.Lock; readTs = nextTxnTs-1; readMark.Begin(readTs); o.Unlock *)
| OFast (t : nat)       (* WaitForMark: txnMark.DoneUntil() >= readTs, return *)
| OWaitSend (t : nat)   (* WaitForMark: send the (readTs, waitCh) mark *)
| OWake (t : nat)       (* WaitForMark: <-waitCh *)
| OCommit (t : nat)     (* newCommitTs, no conflict: doneRead; ts = nextTxnTs; nextTxnTs++; txnMark.Begin(ts) *)
| OAck (t : nat)        (* doneCommit(commitTs): txnMark.Done *)
| ODoneRead (t : nat)   (* Discard -> doneRead: readMark.Done(readTs) once *)
| OProcTxn | OProcRead. (* the process goroutine of txnMark / readMark handles one mark *)

Definition waiter_id (t : nat) : N := N.of_nat t.

Definition orc_apply (l : olabel) (s : orc) : orc :=
  match l with
  | OBeginRead =>
      let rts := next_ts s - 1 in
      set_txns (txns s ++ [mkTxn rts 0 0 false]) (rm_do (LBegin rts) s)
  | OFast t =>
      match nth_error (txns s) t with
      | Some x => if (t_phase x =? 0) && (t_read_ts x <=? done_until (ps (txn_mark s)))
                  then set_txns (upd t (mkTxn (t_read_ts x) 2 0 (t_done_read x)) (txns s)) s else s
      | None => s
      end
  | OWaitSend t =>
      match nth_error (txns s) t with
      | Some x => if t_phase x =? 0
                  then set_txns (upd t (mkTxn (t_read_ts x) 1 0 (t_done_read x)) (txns s))
                         (tm_do (LWait (t_read_ts x) (waiter_id t)) s) else s
      | None => s
      end
  | OWake t =>
      match nth_error (txns s) t with
      | Some x => if (t_phase x =? 1) && released (waiter_id t) (txn_mark s)
                  then set_txns (upd t (mkTxn (t_read_ts x) 2 0 (t_done_read x)) (txns s)) s else s
      | None => s
      end
  | OCommit t =>
      match nth_error (txns s) t with
      | Some x => if t_phase x =? 2 then
                    let s1 := if t_done_read x then s else rm_do (LDone (t_read_ts x)) s in
                    let ts := next_ts s in
                    set_txns (upd t (mkTxn (t_read_ts x) 3 ts true) (txns s))
                      (tm_do (LBegin ts) (set_next (ts + 1) s1))
                  else s
      | None => s
      end
  | OAck t =>
      match nth_error (txns s) t with
      | Some x => if t_phase x =? 3
                  then set_txns (upd t (mkTxn (t_read_ts x) 4 (t_commit_ts x) (t_done_read x)) (txns s))
                         (tm_do (LDone (t_commit_ts x)) s) else s
      | None => s
      end
  | ODoneRead t =>
      match nth_error (txns s) t with
      | Some x => if (2 <=? t_phase x) && negb (t_done_read x)
                  then set_txns (upd t (mkTxn (t_read_ts x) (t_phase x) (t_commit_ts x) true) (txns s))
                         (rm_do (LDone (t_read_ts x)) s) else s
      | None => s
      end
  | OProcTxn => tm_do LProcess s
  | OProcRead => rm_do LProcess s
  end.

Definition orc_run (tr : list olabel) (s : orc) : orc := fold_left (fun s l => orc_apply l s) tr s.

(* both process goroutines run until their channels are empty *)
Definition orc_quiesce (s : orc) : orc :=
  orc_run (repeat OProcTxn (length (queue (txn_mark s))) ++
           repeat OProcRead (length (queue (read_mark s)))) s.
