(* Trie.v — trie/trie.go: node, parseIgnoreBytes (on parsed ranges), fix (set / del),
   Add / AddMatch, Get / get, removeEmpty, Delete / DeleteMatch, numNodes.
   Definitions only (executable, total); proofs in TrieProofs.v. *)
From Verif Require Import Bytes.
Open Scope N_scope.

(* type node struct { children map[byte]*node; ignore *node; ids []uint64 }
   children: association list with one binding per byte (invariant wf in TrieProofs.v) *)
Inductive node := Node (ids : list N) (ign : option node) (children : list (N * node)).

Definition n_ids (n : node) : list N := match n with Node i _ _ => i end.
Definition n_ign (n : node) : option node := match n with Node _ g _ => g end.
Definition n_children (n : node) : list (N * node) := match n with Node _ _ c => c end.

Definition empty_node : node := Node [] None [].   (* newNode() *)

Fixpoint child_get (b : N) (l : list (N * node)) : option node :=
  match l with
  | [] => None
  | (b', c) :: r => if b' =? b then Some c else child_get b r
  end.

Fixpoint child_set (b : N) (c : node) (l : list (N * node)) : list (N * node) :=
  match l with
  | [] => [(b, c)]
  | (b', c') :: r => if b' =? b then (b, c) :: r else (b', c') :: child_set b c r
  end.

(* ---- parseIgnoreBytes, on the parsed comma-separated items: (start, Some end) for "s-e",
   (start, None) for "s".  (strconv.Atoi of the pieces and the error paths of the string syntax
   are exercised through the harness only.)
     for start >= len(out) { out = append(out, false) };  for end >= len(out) { … }
     end == -1: out[start] = true;  else for i := start; i <= end; i++ { out[i] = true } *)
Definition pad_to (l : list bool) (n : nat) : list bool := l ++ repeat false (S n - length l).

Fixpoint set_true (l : list bool) (i : nat) : list bool :=
  match l, i with
  | [], _ => []
  | _ :: r, O => true :: r
  | x :: r, S i' => x :: set_true r i'
  end.

Fixpoint set_range (l : list bool) (start count : nat) : list bool :=
  match count with
  | O => l
  | S c => set_range (set_true l start) (S start) c
  end.

Definition apply_range (out : list bool) (r : nat * option nat) : list bool :=
  let '(s, e) := r in
  let out1 := pad_to out s in
  match e with
  | None => set_true out1 s
  | Some e' => set_range (pad_to out1 e') s (S e' - s)
  end.

Definition parse_ignore_ranges (rs : list (nat * option nat)) : list bool :=
  fold_left apply_range rs [].

(* ---- fix(m, id, set): walk / create the path of the prefix, append id at the last node.
   `for len(ignore) < len(m.Prefix) { ignore = append(ignore, false) }`: a missing position is
   not ignored. *)
Definition ig_head (ignore : list bool) : bool := match ignore with [] => false | b :: _ => b end.

Definition or_empty (o : option node) : node := match o with Some c => c | None => empty_node end.

Fixpoint fix_set (n : node) (prefix : bytes) (ignore : list bool) (id : N) : node :=
  match n with Node ids ign ch =>
    match prefix with
    | [] => Node (ids ++ [id]) ign ch
    | byt :: rest =>
        if ig_head ignore
        then Node ids (Some (fix_set (or_empty ign) rest (tl ignore) id)) ch
        else Node ids ign (child_set byt (fix_set (or_empty (child_get byt ch)) rest (tl ignore) id) ch)
    end
  end.

(* ---- fix(m, id, del): a missing node on the path returns immediately (nothing changes);
   at the last node every occurrence of id is removed *)
Fixpoint fix_del (n : node) (prefix : bytes) (ignore : list bool) (id : N) : node :=
  match n with Node ids ign ch =>
    match prefix with
    | [] => Node (filter (fun c => negb (c =? id)) ids) ign ch
    | byt :: rest =>
        if ig_head ignore
        then match ign with
             | None => n
             | Some c => Node ids (Some (fix_del c rest (tl ignore) id)) ch
             end
        else match child_get byt ch with
             | None => n
             | Some c => Node ids ign (child_set byt (fix_del c rest (tl ignore) id) ch)
             end
    end
  end.

(* ---- get(curNode, key): ids of the node, then (key non-empty) the ignore branch, then the
   child for key[0].  The Go function returns a set (map[uint64]struct{}); get_ids is the
   traversal as a list (an id may occur several times), get its sorted duplicate-free form. *)
Fixpoint get_ids (key : bytes) (n : node) : list N :=
  match n with Node ids ign ch =>
    ids ++
    match key with
    | [] => []
    | b :: r =>
        (match ign with Some c => get_ids r c | None => [] end) ++
        (match child_get b ch with Some c => get_ids r c | None => [] end)
    end
  end.

Fixpoint insert_sorted (x : N) (l : list N) : list N :=
  match l with
  | [] => [x]
  | y :: r => if x <? y then x :: l else if x =? y then l else y :: insert_sorted x r
  end.

Definition norm_ids (l : list N) : list N := fold_right insert_sorted [] l.

Definition get (key : bytes) (t : node) : list N := norm_ids (get_ids key t).

(* ---- removeEmpty: depth first; drop an ignore child / a children entry whose subtree became
   empty; report whether this node is empty *)
Definition is_empty (n : node) : bool :=
  match n with
  | Node [] None [] => true
  | _ => false
  end.

Fixpoint remove_empty (n : node) : node * bool :=
  match n with Node ids ign ch =>
    let ign' := match ign with
                | Some c => let '(c', e) := remove_empty c in if e then None else Some c'
                | None => None
                end in
    let ch' := (fix go (l : list (N * node)) : list (N * node) :=
                  match l with
                  | [] => []
                  | (b, c) :: r => let '(c', e) := remove_empty c in
                                   if e then go r else (b, c') :: go r
                  end) ch in
    let n' := Node ids ign' ch' in
    (n', is_empty n')
  end.

(* Trie{root}: Add / AddMatch, Delete / DeleteMatch ("Do not remove the t.root even if its empty") *)
Definition add_match (t : node) (prefix : bytes) (ignore : list bool) (id : N) : node :=
  fix_set t prefix ignore id.

Definition delete_match (t : node) (prefix : bytes) (ignore : list bool) (id : N) : node :=
  fst (remove_empty (fix_del t prefix ignore id)).

Fixpoint num_nodes (n : node) : nat :=
  match n with Node _ ign ch =>
    S ((match ign with Some c => num_nodes c | None => O end) +
       (fix go (l : list (N * node)) : nat :=
          match l with [] => O | (_, c) :: r => (num_nodes c + go r)%nat end) ch)
  end.

(* ---- operation sequences and the specification vocabulary ---- *)
Inductive top :=
| TAdd (prefix : bytes) (ignore : list bool) (id : N)
| TDel (prefix : bytes) (ignore : list bool) (id : N).

Definition apply_top (t : node) (o : top) : node :=
  match o with
  | TAdd p ig id => add_match t p ig id
  | TDel p ig id => delete_match t p ig id
  end.

Definition run_tops (t : node) (ops : list top) : node := fold_left apply_top ops t.

(* a pattern as the trie sees it: one slot per prefix byte, None = ignored position *)
Definition path := list (option N).

Fixpoint mk_path (prefix : bytes) (ignore : list bool) : path :=
  match prefix with
  | [] => []
  | b :: r => (if ig_head ignore then None else Some b) :: mk_path r (tl ignore)
  end.

(* a pattern matches a key iff it is no longer than the key and agrees with it on every
   non-ignored position *)
Fixpoint matches (p : path) (key : bytes) : bool :=
  match p, key with
  | [], _ => true
  | _ :: _, [] => false
  | None :: p', _ :: k' => matches p' k'
  | Some b :: p', b' :: k' => (b =? b') && matches p' k'
  end.
