(* LogProofs.v — record level: ReadUvarint / header.DecodeFrom / safeRead.Entry against
   encodeEntry: round trip, framing (what a successful read says about the bytes), monotonicity
   under extension of the input, strict prefixes stop, checksum rejects altered key/value bytes. *)
From Verif Require Import Bytes BytesProofs Uvarint UvarintProofs Keys Codec C20Proofs Crc32c Crc32cProofs LogRecord.
From Coq Require Import ZifyN ZifyNat ZifyBool.
Open Scope N_scope.

Lemma firstn_length_app {A} (a b : list A) : firstn (length a) (a ++ b) = a.
Proof. rewrite firstn_app, Nat.sub_diag, firstn_all. cbn [firstn]. apply app_nil_r. Qed.

(* ---------- split_at ---------- *)
Lemma split_at_0 buf : split_at buf 0 = Some ([], buf).
Proof. destruct buf; reflexivity. Qed.

Lemma split_at_app a : forall t, split_at (a ++ t) (N.of_nat (length a)) = Some (a, t).
Proof.
  induction a as [|x a IH]; intros t.
  - cbn [length app]. apply split_at_0.
  - cbn [length app split_at].
    assert (E: (N.of_nat (S (length a)) =? 0) = false) by (apply N.eqb_neq; lia). rewrite E.
    replace (N.of_nat (S (length a)) - 1) with (N.of_nat (length a)) by lia.
    now rewrite IH.
Qed.

Lemma split_at_some buf : forall n a r, split_at buf n = Some (a, r) ->
  buf = a ++ r /\ N.of_nat (length a) = n.
Proof.
  induction buf as [|x buf IH]; intros n a r H; cbn [split_at] in H.
  - destruct (n =? 0) eqn:E; [|discriminate]. apply N.eqb_eq in E. inversion H; subst. auto.
  - destruct (n =? 0) eqn:E.
    + apply N.eqb_eq in E. inversion H; subst. auto.
    + apply N.eqb_neq in E.
      destruct (split_at buf (n - 1)) as [[a' c]|] eqn:S; [|discriminate].
      inversion H; subst. apply IH in S. destruct S as [-> L]. split; [reflexivity|].
      cbn [length]. lia.
Qed.

Lemma split_at_none buf : forall n, split_at buf n = None -> N.of_nat (length buf) < n.
Proof.
  induction buf as [|x buf IH]; intros n H; cbn [split_at] in H.
  - destruct (n =? 0) eqn:E; [discriminate|]. apply N.eqb_neq in E. cbn. lia.
  - destruct (n =? 0) eqn:E; [discriminate|]. apply N.eqb_neq in E.
    destruct (split_at buf (n - 1)) as [[a' c]|] eqn:S; [discriminate|].
    apply IH in S. cbn [length]. lia.
Qed.

Lemma split_at_mono buf n a r t : split_at buf n = Some (a, r) -> split_at (buf ++ t) n = Some (a, r ++ t).
Proof.
  intros H. apply split_at_some in H. destruct H as [-> <-].
  rewrite <- app_assoc. apply split_at_app.
Qed.

Lemma split_at_short buf n : N.of_nat (length buf) < n -> split_at buf n = None.
Proof.
  intros H. destruct (split_at buf n) as [[a r]|] eqn:S; auto.
  apply split_at_some in S. destruct S as [-> <-]. rewrite app_length in H. lia.
Qed.

(* ---------- ReadUvarint ---------- *)
Lemma read_uvarint_f_put f i x acc rest :
  (i + f = 10)%nat -> (0 < f)%nat -> x * 2 ^ (7 * N.of_nat i) < two64 ->
  read_uvarint_f f (put_uvarint_f f x ++ rest) i acc (7 * N.of_nat i) =
  UvOk (acc + x * 2 ^ (7 * N.of_nat i)) (i + length (put_uvarint_f f x)) rest.
Proof.
  revert i x acc; induction f as [|f IH]; intros i x acc Hif Hf Hx; [lia|].
  cbn [put_uvarint_f].
  destruct (x <? 128) eqn:E.
  - cbn [app read_uvarint_f length]. rewrite E.
    destruct (Nat.eqb i 9) eqn:E9.
    + apply Nat.eqb_eq in E9. subst i.
      assert (x < 2).
      { change (7 * N.of_nat 9) with 63 in Hx. unfold two64 in Hx.
        change (2 ^ 63) with 9223372036854775808 in Hx. lia. }
      assert (H1: (1 <? x) = false) by (apply N.ltb_ge; lia). rewrite H1. cbn [andb].
      f_equal; lia.
    + cbn [andb]. f_equal; lia.
  - apply N.ltb_ge in E.
    assert (f <> 0)%nat.
    { intros ->. assert (i = 9)%nat by lia. subst i.
      change (7 * N.of_nat 9) with 63 in Hx. unfold two64 in Hx.
      change (2 ^ 63) with 9223372036854775808 in Hx. lia. }
    cbn [app read_uvarint_f length].
    assert (Hb: (x mod 128 + 128 <? 128) = false) by (apply N.ltb_ge; lia). rewrite Hb.
    replace ((x mod 128 + 128) mod 128) with (x mod 128).
    2:{ rewrite <- (N.mul_1_l 128) at 3. rewrite N.mod_add by lia. now rewrite N.mod_mod by lia. }
    replace (7 * N.of_nat i + 7) with (7 * N.of_nat (S i)) by lia.
    rewrite IH; try lia.
    + f_equal; [|lia].
      replace (7 * N.of_nat (S i)) with (7 * N.of_nat i + 7) by lia.
      rewrite N.pow_add_r. change (2 ^ 7) with 128.
      pose proof (N.div_mod' x 128). nia.
    + replace (7 * N.of_nat (S i)) with (7 * N.of_nat i + 7) by lia.
      rewrite N.pow_add_r. change (2 ^ 7) with 128.
      pose proof (N.div_mod' x 128). pose proof (N.mod_lt x 128).
      assert (x / 128 * 128 <= x) by lia.
      assert (0 < 2 ^ (7 * N.of_nat i)) by (apply N.neq_0_lt_0, N.pow_nonzero; lia).
      nia.
Qed.

Theorem read_uvarint_put x rest : x < two64 ->
  read_uvarint (put_uvarint x ++ rest) = UvOk x (length (put_uvarint x)) rest.
Proof.
  intros Hx. unfold read_uvarint, put_uvarint.
  pose proof (read_uvarint_f_put 10 0 x 0 rest) as H. cbn [N.of_nat N.mul] in H.
  change (2 ^ 0) with 1 in H. rewrite N.mul_1_r in H. rewrite H by lia.
  f_equal.
Qed.

(* a successful read consumed exactly n - i bytes, a non-empty prefix of the input *)
Lemma read_uvarint_f_ok f : forall buf i x s v n r,
  read_uvarint_f f buf i x s = UvOk v n r ->
  exists pb, buf = pb ++ r /\ (i + length pb = n)%nat /\ pb <> [].
Proof.
  induction f as [|f IH]; intros buf i x s v n r H; cbn [read_uvarint_f] in H; [discriminate|].
  destruct buf as [|b buf]; [destruct (Nat.eqb i 0); discriminate|].
  destruct (b <? 128).
  - destruct (Nat.eqb i 9 && (1 <? b)); [discriminate|]. inversion H; subst.
    exists [b]. cbn. repeat split; try lia. discriminate.
  - apply IH in H. destruct H as (pb & -> & L & _). exists (b :: pb). cbn [length app].
    repeat split; try lia. discriminate.
Qed.

(* results other than "ran out of input" do not change when more input is appended *)
Lemma read_uvarint_f_mono f : forall buf i x s t,
  match read_uvarint_f f buf i x s with
  | UvOk v n r => read_uvarint_f f (buf ++ t) i x s = UvOk v n (r ++ t)
  | UvOverflow => read_uvarint_f f (buf ++ t) i x s = UvOverflow
  | _ => True
  end.
Proof.
  induction f as [|f IH]; intros buf i x s t; cbn [read_uvarint_f]; [reflexivity|].
  destruct buf as [|b buf].
  - destruct (Nat.eqb i 0); exact I.
  - cbn [app]. destruct (b <? 128).
    + destruct (Nat.eqb i 9 && (1 <? b)); reflexivity.
    + apply IH.
Qed.

(* ---------- header.DecodeFrom ---------- *)
Lemma header_read_encode h rest :
  h_klen h < two32 -> h_vlen h < two32 -> h_expires h < two64 ->
  header_read (header_encode h ++ rest) = HOk h (length (header_encode h)) rest.
Proof.
  intros Hk Hv He. destruct h as [kl vl ex m u]. cbn [h_klen h_vlen h_expires] in *.
  unfold header_encode, header_read. cbn [h_klen h_vlen h_expires h_meta h_umeta app].
  rewrite <- !app_assoc.
  rewrite read_uvarint_put by (unfold two32, two64 in *; lia).
  rewrite read_uvarint_put by (unfold two32, two64 in *; lia).
  rewrite read_uvarint_put by exact He.
  rewrite !N.mod_small by assumption.
  f_equal. cbn [length]. rewrite !app_length. lia.
Qed.

Lemma header_read_ok buf h hl r : header_read buf = HOk h hl r ->
  exists hb, buf = hb ++ r /\ length hb = hl /\ (5 <= hl)%nat.
Proof.
  unfold header_read. intros H.
  destruct buf as [|m [|u b2]]; try discriminate.
  destruct (read_uvarint b2) as [k n1 b3| | |] eqn:R1; try discriminate.
  destruct (read_uvarint b3) as [v n2 b4| | |] eqn:R2; try discriminate.
  destruct (read_uvarint b4) as [e n3 b5| | |] eqn:R3; try discriminate.
  inversion H; subst.
  apply read_uvarint_f_ok in R1, R2, R3.
  destruct R1 as (p1 & -> & L1 & N1), R2 as (p2 & -> & L2 & N2), R3 as (p3 & -> & L3 & N3).
  exists (m :: u :: p1 ++ p2 ++ p3). cbn [app length]. rewrite <- !app_assoc, !app_length.
  destruct p1; [congruence|]. destruct p2; [congruence|]. destruct p3; [congruence|].
  cbn [length] in *. repeat split; lia.
Qed.

Lemma header_read_mono buf t :
  match header_read buf with
  | HOk h hl r => header_read (buf ++ t) = HOk h hl (r ++ t)
  | HOverflow => header_read (buf ++ t) = HOverflow
  | _ => True
  end.
Proof.
  unfold header_read. destruct buf as [|m [|u b2]]; try exact I. cbn [app].
  pose proof (read_uvarint_f_mono 10 b2 0 0 0 t) as M1. fold (read_uvarint b2) in M1. fold (read_uvarint (b2 ++ t)) in M1.
  destruct (read_uvarint b2) as [k n1 b3| | |]; try exact I; rewrite M1; [|reflexivity].
  pose proof (read_uvarint_f_mono 10 b3 0 0 0 t) as M2. fold (read_uvarint b3) in M2. fold (read_uvarint (b3 ++ t)) in M2.
  destruct (read_uvarint b3) as [v n2 b4| | |]; try exact I; rewrite M2; [|reflexivity].
  pose proof (read_uvarint_f_mono 10 b4 0 0 0 t) as M3. fold (read_uvarint b4) in M3. fold (read_uvarint (b4 ++ t)) in M3.
  destruct (read_uvarint b4) as [e n3 b5| | |]; try exact I; rewrite M3; reflexivity.
Qed.

Lemma header_encode_wf h : h_meta h < 256 -> h_umeta h < 256 -> wf_bytes (header_encode h) = true.
Proof.
  intros Hm Hu. unfold header_encode. rewrite !wf_bytes_app, !put_uvarint_wf.
  cbn. unfold wf_byte. apply N.ltb_lt in Hm, Hu. now rewrite Hm, Hu.
Qed.

(* ---------- safeRead.Entry / encodeEntry ---------- *)
Definition wf_entry (e : entry) : Prop :=
  N.of_nat (length (e_key e)) <= 65536 /\
  N.of_nat (length (e_key e)) + N.of_nat (length (e_value e)) < two32 /\
  e_expires e < two64 /\ e_meta e < 256 /\ e_umeta e < 256 /\
  wf_bytes (e_key e) = true /\ wf_bytes (e_value e) = true.

Section LogP.
  Variable encrypted : bool.
  Variable xs : bytes -> bytes -> bytes.
  Variable base_iv : bytes.
  (* XOR with a keystream *)
  Hypothesis xs_len : forall iv d, length (xs iv d) = length d.
  Hypothesis xs_invol : forall iv d, xs iv (xs iv d) = d.
  Hypothesis xs_wf : forall iv d, wf_bytes d = true -> wf_bytes (xs iv d) = true.
  Set Default Proof Using "All".

  Notation crypt := (crypt encrypted xs base_iv).
  Notation encode_entry := (encode_entry encrypted xs base_iv).
  Notation safe_read := (safe_read encrypted xs base_iv).

  Lemma crypt_len off d : length (crypt off d) = length d.
  Proof. unfold LogRecord.crypt. destruct encrypted; auto. Qed.
  Lemma crypt_invol off d : crypt off (crypt off d) = d.
  Proof. unfold LogRecord.crypt. destruct encrypted; auto. Qed.
  Lemma crypt_wf off d : wf_bytes d = true -> wf_bytes (crypt off d) = true.
  Proof. unfold LogRecord.crypt. destruct encrypted; auto. Qed.

  Definition hdr_len (e : entry) : nat := length (header_encode (entry_header e)).

  Lemma encode_entry_length e off :
    length (encode_entry e off) = (hdr_len e + length (e_key e) + length (e_value e) + 4)%nat.
  Proof.
    unfold LogRecord.encode_entry, hdr_len. rewrite !app_length, crypt_len, app_length, be_enc_length. lia.
  Qed.

  Lemma entry_header_fields e : wf_entry e ->
    h_klen (entry_header e) = N.of_nat (length (e_key e)) /\
    h_vlen (entry_header e) = N.of_nat (length (e_value e)).
  Proof.
    intros (Hk & Hs & _). unfold entry_header. cbn [h_klen h_vlen].
    rewrite !N.mod_small; auto; lia.
  Qed.

  Lemma encode_entry_wf e off : wf_entry e -> wf_bytes (encode_entry e off) = true.
  Proof.
    intros (Hk & Hs & He & Hm & Hu & Wk & Wv). unfold LogRecord.encode_entry.
    rewrite !wf_bytes_app, header_encode_wf, crypt_wf, wf_bytes_be_enc; auto.
    rewrite wf_bytes_app, Wk, Wv. reflexivity.
  Qed.

  (* C16: a record decodes back to exactly what was encoded, at any offset, whatever follows *)
  Theorem safe_read_encode e off rest : wf_entry e ->
    safe_read (encode_entry e off ++ rest) off = RdOk e (hdr_len e) rest.
  Proof.
    intros W. pose proof (entry_header_fields e W) as [Fk Fv].
    destruct W as (Hk & Hs & He & Hm & Hu & Wk & Wv).
    unfold LogRecord.safe_read, LogRecord.encode_entry.
    set (h := entry_header e) in *.
    set (kv := crypt off (e_key e ++ e_value e)).
    rewrite <- !app_assoc.
    rewrite header_read_encode; [| rewrite Fk; lia | rewrite Fv; lia | exact He ].
    set (hb := header_encode h).
    rewrite Fk, Fv.
    assert (E1: (65536 <? N.of_nat (length (e_key e))) = false) by (apply N.ltb_ge; lia). rewrite E1.
    rewrite N.mod_small by exact Hs.
    assert (Lkv: N.of_nat (length (e_key e)) + N.of_nat (length (e_value e)) = N.of_nat (length kv)).
    { unfold kv. rewrite crypt_len, app_length. lia. }
    rewrite Lkv, split_at_app.
    unfold kv at 1. rewrite crypt_invol, split_at_app.
    pose proof (split_at_app (be_enc 4 (crc32c (hb ++ kv))) rest) as S4.
    rewrite be_enc_length in S4. change (N.of_nat 4) with 4 in S4. rewrite S4.
    unfold hdr_len. fold h. fold hb. rewrite firstn_length_app.
    rewrite be_dec_enc_small.
    2:{ rewrite <- two32_pow. apply crc32c_lt32. rewrite wf_bytes_app. unfold hb.
        rewrite header_encode_wf by assumption. unfold kv. rewrite crypt_wf; auto.
        rewrite wf_bytes_app, Wk, Wv. reflexivity. }
    rewrite N.eqb_refl. destruct e; reflexivity.
  Qed.

  (* what a successful read says about the input: header bytes, stored key|value bytes,
     stored checksum, and the rest; the checksum of header and stored key|value matches *)
  Theorem safe_read_ok_inv buf off e hl rest : safe_read buf off = RdOk e hl rest ->
    exists hb kv crcb,
      buf = hb ++ kv ++ crcb ++ rest /\ length hb = hl /\ (5 <= hl)%nat /\ length crcb = 4%nat /\
      be_dec crcb = crc32c (hb ++ kv) /\ crypt off kv = e_key e ++ e_value e /\
      N.of_nat (length (e_key e)) <= 65536.
  Proof.
    unfold LogRecord.safe_read. intros H.
    destruct (header_read buf) as [h hl' b5| | |] eqn:HR; try discriminate.
    destruct (65536 <? h_klen h) eqn:EK; [discriminate|]. apply N.ltb_ge in EK.
    destruct (split_at b5 ((h_klen h + h_vlen h) mod two32)) as [[kv b6]|] eqn:S1;
      [|destruct b5; discriminate].
    destruct (split_at (crypt off kv) (h_klen h)) as [[k v]|] eqn:S2; [|discriminate].
    destruct (split_at b6 4) as [[crcb b7]|] eqn:S3; [|destruct b6; discriminate].
    destruct (be_dec crcb =? crc32c (firstn hl' buf ++ kv)) eqn:EC; [|discriminate].
    inversion H; subst. clear H. apply N.eqb_eq in EC.
    apply header_read_ok in HR. destruct HR as (hb & -> & Lhb & H5).
    apply split_at_some in S1, S2, S3.
    destruct S1 as [-> L1], S2 as [E2 L2], S3 as [-> L3].
    exists hb, kv, crcb. cbn [e_key e_value].
    rewrite <- Lhb in EC. rewrite firstn_length_app in EC.
    repeat split; auto; lia.
  Qed.

  (* results other than "input exhausted" are stable when more input is appended *)
  Theorem safe_read_mono buf off t :
    match safe_read buf off with
    | RdOk e hl r => safe_read (buf ++ t) off = RdOk e hl (r ++ t)
    | RdErr => safe_read (buf ++ t) off = RdErr
    | RdPanic => safe_read (buf ++ t) off = RdPanic
    | _ => True
    end.
  Proof.
    unfold LogRecord.safe_read.
    pose proof (header_read_mono buf t) as HM.
    destruct (header_read buf) as [h hl b5| | |] eqn:HR; try exact I; rewrite HM; [|reflexivity].
    destruct (65536 <? h_klen h); [exact I|].
    destruct (split_at b5 ((h_klen h + h_vlen h) mod two32)) as [[kv b6]|] eqn:S1; [|destruct b5; exact I].
    rewrite (split_at_mono _ _ _ _ t S1).
    destruct (split_at (crypt off kv) (h_klen h)) as [[k v]|] eqn:S2; [|reflexivity].
    destruct (split_at b6 4) as [[crcb b7]|] eqn:S3; [|destruct b6; exact I].
    rewrite (split_at_mono _ _ _ _ t S3).
    apply header_read_ok in HR. destruct HR as (hb & -> & Lhb & _).
    rewrite <- Lhb. rewrite <- app_assoc. rewrite !firstn_length_app.
    destruct (be_dec crcb =? crc32c (hb ++ kv)); [reflexivity|exact I].
  Qed.

  (* C09: a strict prefix of a record (rest missing) makes the reader stop *)
  Theorem safe_read_strict_prefix e off p s : wf_entry e -> encode_entry e off = p ++ s -> s <> [] ->
    rd_is_stop (safe_read p off) = true.
  Proof.
    intros W E Hs.
    pose proof (safe_read_encode e off [] W) as R. rewrite app_nil_r, E in R.
    pose proof (safe_read_mono p off s) as M.
    destruct (safe_read p off) as [e' hl r| | | | |]; try reflexivity; rewrite M in R; try discriminate.
    inversion R. destruct r; destruct s; try discriminate. congruence.
  Qed.

  (* C16: altering bytes of the stored key|value region inside a window of at most 32
     consecutive bits (in particular any single byte) is rejected by the checksum *)
  Theorem safe_read_kv_burst e off rest w w' pre post t v : wf_entry e ->
    crypt off (e_key e ++ e_value e) = pre ++ w ++ post ->
    length w = length w' -> wf_bytes w' = true ->
    N.lxor (le_dec w) (le_dec w') = 2 ^ t * v -> v <> 0 -> v < two32 ->
    let hb := header_encode (entry_header e) in
    safe_read (hb ++ (pre ++ w' ++ post) ++ be_enc 4 (crc32c (hb ++ pre ++ w ++ post)) ++ rest) off
    = RdTruncate.
  Proof.
    intros W Ekv Hlen Ww' HD Hv0 Hv32 hb. pose proof (entry_header_fields e W) as [Fk Fv].
    destruct W as (Hk & Hs & He & Hm & Hu & Wk & Wv).
    assert (Wkv: wf_bytes (pre ++ w ++ post) = true).
    { rewrite <- Ekv. apply crypt_wf. rewrite wf_bytes_app, Wk, Wv. reflexivity. }
    rewrite !wf_bytes_app in Wkv. apply andb_true_iff in Wkv. destruct Wkv as [Wpre Wkv].
    apply andb_true_iff in Wkv. destruct Wkv as [Ww Wpost].
    assert (Lkv: N.of_nat (length (e_key e)) + N.of_nat (length (e_value e)) = N.of_nat (length (pre ++ w' ++ post))).
    { pose proof (f_equal (@length N) Ekv) as L. rewrite crypt_len in L.
      rewrite !app_length in *. lia. }
    unfold LogRecord.safe_read. unfold hb. set (h := entry_header e) in *.
    rewrite <- !app_assoc.
    rewrite header_read_encode; [| rewrite Fk; lia | rewrite Fv; lia | exact He ].
    rewrite Fk, Fv.
    assert (E1: (65536 <? N.of_nat (length (e_key e))) = false) by (apply N.ltb_ge; lia). rewrite E1.
    rewrite N.mod_small by exact Hs. rewrite Lkv.
    replace (pre ++ w' ++ post ++ be_enc 4 (crc32c (header_encode h ++ pre ++ w ++ post)) ++ rest)
      with ((pre ++ w' ++ post) ++ be_enc 4 (crc32c (header_encode h ++ pre ++ w ++ post)) ++ rest)
      by (now rewrite <- !app_assoc).
    rewrite split_at_app.
    destruct (split_at (crypt off (pre ++ w' ++ post)) (N.of_nat (length (e_key e)))) as [[k v']|] eqn:S2.
    2:{ apply split_at_none in S2. rewrite crypt_len in S2. lia. }
    pose proof (split_at_app (be_enc 4 (crc32c (header_encode h ++ pre ++ w ++ post))) rest) as S4.
    rewrite be_enc_length in S4. change (N.of_nat 4) with 4 in S4. rewrite S4.
    rewrite firstn_length_app.
    rewrite be_dec_enc_small.
    2:{ rewrite <- two32_pow. apply crc32c_lt32. rewrite !wf_bytes_app.
        rewrite header_encode_wf, Wpre, Ww, Wpost by assumption. reflexivity. }
    assert (NE: crc32c (header_encode h ++ pre ++ w ++ post) <> crc32c (header_encode h ++ pre ++ w' ++ post)).
    { rewrite !(app_assoc (header_encode h) pre).
      apply (crc_burst32_detected _ w w' post t v); auto.
      rewrite wf_bytes_app, Wpre, header_encode_wf by assumption. reflexivity. }
    apply N.eqb_neq in NE. rewrite NE. reflexivity.
  Qed.

  Corollary safe_read_kv_single_byte e off rest pre x x' post : wf_entry e ->
    crypt off (e_key e ++ e_value e) = pre ++ x :: post -> x' < 256 -> x' <> x ->
    let hb := header_encode (entry_header e) in
    safe_read (hb ++ (pre ++ x' :: post) ++ be_enc 4 (crc32c (hb ++ pre ++ x :: post)) ++ rest) off
    = RdTruncate.
  Proof.
    intros W Ekv Hx' Hne hb.
    assert (Hx: x < 256).
    { destruct W as (_ & _ & _ & _ & _ & Wk & Wv).
      assert (Wkv: wf_bytes (pre ++ x :: post) = true).
      { rewrite <- Ekv. apply crypt_wf. rewrite wf_bytes_app, Wk, Wv. reflexivity. }
      rewrite wf_bytes_app in Wkv. apply andb_true_iff in Wkv. destruct Wkv as [_ Wkv].
      cbn [wf_bytes forallb] in Wkv. apply andb_true_iff in Wkv. apply wf_byte_lt. tauto. }
    apply (safe_read_kv_burst e off rest [x] [x'] pre post 0 (N.lxor x x')); auto.
    - cbn. unfold wf_byte. rewrite andb_true_r. now apply N.ltb_lt.
    - cbn [le_dec]. change (2 ^ 0) with 1. now rewrite !N.mul_0_r, !N.add_0_r, N.mul_1_l.
    - intros E. apply N.lxor_eq in E. congruence.
    - apply lxor_lt32; unfold two32; lia.
  Qed.
End LogP.

(* ---------- logFile.decodeEntry on the exact record (value-log read through a value pointer) ---------- *)
Section LogDec.
  Variable encrypted : bool.
  Variable xs : bytes -> bytes -> bytes.
  Variable base_iv : bytes.
  Hypothesis xs_len : forall iv d, length (xs iv d) = length d.
  Hypothesis xs_invol : forall iv d, xs iv (xs iv d) = d.
  (* a stream cipher: the keystream applied to a prefix does not depend on what follows
     (decodeEntry decrypts buf[hlen:], which still contains the 4 checksum bytes) *)
  Hypothesis xs_stream : forall iv a b, firstn (length a) (xs iv (a ++ b)) = xs iv a.

  Theorem decode_entry_encode e off : wf_entry e ->
    decode_entry encrypted xs base_iv (encode_entry encrypted xs base_iv e off) off = Some e.
  Proof using All.
    intros W.
    assert (Fk: h_klen (entry_header e) = N.of_nat (length (e_key e)) /\
                h_vlen (entry_header e) = N.of_nat (length (e_value e))).
    { destruct W as (Hk & Hs & _). unfold entry_header. cbn [h_klen h_vlen].
      rewrite !N.mod_small; auto; lia. }
    destruct Fk as [Fk Fv]. destruct W as (Hk & Hs & He & Hm & Hu & Wk & Wv).
    unfold decode_entry, encode_entry.
    set (h := entry_header e) in *. set (kvs := crypt encrypted xs base_iv off (e_key e ++ e_value e)).
    rewrite header_roundtrip; [| rewrite Fk; lia | rewrite Fv; lia | exact He].
    rewrite slice_from_app.
    set (crcb := be_enc 4 (crc32c (header_encode h ++ kvs))).
    assert (D: exists c, crypt encrypted xs base_iv off (kvs ++ crcb) = (e_key e ++ e_value e) ++ c).
    { unfold kvs, crypt. destruct encrypted.
      - set (iv := generate_iv base_iv off). set (a := xs iv (e_key e ++ e_value e)).
        exists (skipn (length a) (xs iv (a ++ crcb))).
        rewrite <- (firstn_skipn (length a) (xs iv (a ++ crcb))) at 1.
        rewrite xs_stream. unfold a. now rewrite xs_invol.
      - exists crcb. reflexivity. }
    destruct D as [c D]. rewrite D. rewrite Fk, Fv, N.mod_small by exact Hs.
    rewrite <- app_assoc, split_at_app.
    assert (E: (N.of_nat (length (e_key e)) + N.of_nat (length (e_value e)) <? N.of_nat (length (e_key e))) = false)
      by (apply N.ltb_ge; lia).
    rewrite E.
    replace (N.of_nat (length (e_key e)) + N.of_nat (length (e_value e)) - N.of_nat (length (e_key e)))
      with (N.of_nat (length (e_value e))) by lia.
    rewrite split_at_app. destruct e; reflexivity.
  Qed.
End LogDec.

(* ---------- the hypotheses on the keystream are satisfiable ---------- *)
Definition keystream_ok (xs : bytes -> bytes -> bytes) : Prop :=
  (forall iv d, length (xs iv d) = length d) /\
  (forall iv d, xs iv (xs iv d) = d) /\
  (forall iv d, wf_bytes d = true -> wf_bytes (xs iv d) = true).
Definition keystream_prefix (xs : bytes -> bytes -> bytes) : Prop :=
  forall iv a b, firstn (length a) (xs iv (a ++ b)) = xs iv a.

Lemma xs_id_ok : keystream_ok xs_id /\ keystream_prefix xs_id.
Proof.
  unfold keystream_ok, keystream_prefix, xs_id. repeat split; auto.
  intros _ a b. apply firstn_length_app.
Qed.

(* a toy counter-mode keystream (byte i is xored with (sum of iv + i) mod 256): not the identity *)
Fixpoint xor_from (k : N) (d : bytes) : bytes :=
  match d with
  | [] => []
  | b :: r => N.lxor b (k mod 256) :: xor_from (k + 1) r
  end.
Definition xs_toy (iv d : bytes) : bytes := xor_from (fold_left N.add iv 0) d.

Lemma xor_from_len d : forall k, length (xor_from k d) = length d.
Proof. induction d as [|b r IH]; intros k; cbn [xor_from length]; auto. Qed.
Lemma xor_from_invol d : forall k, xor_from k (xor_from k d) = d.
Proof.
  induction d as [|b r IH]; intros k; cbn [xor_from]; auto. rewrite IH. f_equal.
  rewrite N.lxor_assoc, N.lxor_nilpotent. apply N.lxor_0_r.
Qed.
Lemma xor_from_wf d : forall k, wf_bytes d = true -> wf_bytes (xor_from k d) = true.
Proof.
  induction d as [|b r IH]; intros k H; cbn [xor_from wf_bytes forallb] in *; auto.
  apply andb_true_iff in H. destruct H as [Hb Hr]. apply andb_true_iff. split; [|now apply IH].
  apply wf_byte_lt in Hb. unfold wf_byte. apply N.ltb_lt.
  change 256 with (2 ^ 8). apply lxor_lt_pow2; change (2 ^ 8) with 256; [exact Hb|].
  apply N.mod_lt. lia.
Qed.
Lemma xor_from_prefix a : forall k b, firstn (length a) (xor_from k (a ++ b)) = xor_from k a.
Proof. induction a as [|x a IH]; intros k b; cbn [app xor_from length firstn]; auto. now rewrite IH. Qed.

Lemma xs_toy_ok : keystream_ok xs_toy /\ keystream_prefix xs_toy.
Proof.
  unfold keystream_ok, keystream_prefix, xs_toy. repeat split; intros.
  - apply xor_from_len.
  - apply xor_from_invol.
  - now apply xor_from_wf.
  - apply xor_from_prefix.
Qed.

(* ---------- torn images: a prefix of a record followed by zeros never makes the reader fail
   with an error other than EOF / truncate, and never panics ---------- *)
Definition uv_short (r : uv_result) : Prop := r = UvEof \/ r = UvUnexpected.

(* the cut falls inside a varint: with nothing after it the read runs out of input *)
Lemma read_uvarint_f_cut f : forall j i x acc s,
  (j < length (put_uvarint_f f x))%nat ->
  uv_short (read_uvarint_f f (firstn j (put_uvarint_f f x)) i acc s).
Proof.
  induction f as [|f IH]; intros j i x acc s Hj; cbn [put_uvarint_f length] in Hj; [lia|].
  assert (Z: forall b l, uv_short (read_uvarint_f (S f) (firstn 0 (b :: l)) i acc s)).
  { intros b l. cbn [firstn read_uvarint_f]. destruct (Nat.eqb i 0); [left|right]; reflexivity. }
  cbn [put_uvarint_f] in *. destruct (x <? 128) eqn:E.
  - cbn [length] in Hj. assert (j = 0)%nat by lia. subst j. apply Z.
  - destruct j as [|j]; [apply Z|]. cbn [length] in Hj.
    cbn [firstn read_uvarint_f].
    assert (Hb: (x mod 128 + 128 <? 128) = false) by (apply N.ltb_ge; lia). rewrite Hb.
    apply IH. lia.
Qed.

(* ... and with a zero byte after it the varint ends there, with a value not above the original *)
Lemma read_uvarint_f_torn f : forall j i x acc r,
  (j < length (put_uvarint_f f x))%nat ->
  exists v, v <= x /\
    read_uvarint_f f (firstn j (put_uvarint_f f x) ++ 0 :: r) i acc (7 * N.of_nat i)
    = UvOk (acc + v * 2 ^ (7 * N.of_nat i)) (i + j + 1) r.
Proof.
  induction f as [|f IH]; intros j i x acc r Hj; cbn [put_uvarint_f length] in Hj; [lia|].
  assert (Z: forall b l, exists v, v <= x /\
             read_uvarint_f (S f) (firstn 0 (b :: l) ++ 0 :: r) i acc (7 * N.of_nat i)
             = UvOk (acc + v * 2 ^ (7 * N.of_nat i)) (i + 0 + 1) r).
  { intros b l. exists 0. split; [lia|]. cbn [firstn app read_uvarint_f].
    change (0 <? 128) with true. change (1 <? 0) with false. rewrite andb_false_r.
    f_equal; lia. }
  cbn [put_uvarint_f] in *. destruct (x <? 128) eqn:E.
  - cbn [length] in Hj. assert (j = 0)%nat by lia. subst j. apply Z.
  - destruct j as [|j]; [apply Z|]. cbn [length] in Hj. apply N.ltb_ge in E.
    cbn [firstn app read_uvarint_f].
    assert (Hb: (x mod 128 + 128 <? 128) = false) by (apply N.ltb_ge; lia). rewrite Hb.
    replace ((x mod 128 + 128) mod 128) with (x mod 128).
    2:{ rewrite <- (N.mul_1_l 128) at 3. rewrite N.mod_add by lia. now rewrite N.mod_mod by lia. }
    replace (7 * N.of_nat i + 7) with (7 * N.of_nat (S i)) by lia.
    destruct (IH j (S i) (x / 128) (acc + x mod 128 * 2 ^ (7 * N.of_nat i)) r ltac:(lia)) as (v & Hv & R).
    exists (x mod 128 + 128 * v). split.
    + pose proof (N.div_mod' x 128). lia.
    + rewrite R. f_equal; [|lia].
      replace (7 * N.of_nat (S i)) with (7 * N.of_nat i + 7) by lia.
      rewrite N.pow_add_r. change (2 ^ 7) with 128. lia.
Qed.

Lemma read_uvarint_zeros k :
  read_uvarint (repeat 0 k) = UvEof \/ exists k', read_uvarint (repeat 0 k) = UvOk 0 1 (repeat 0 k').
Proof. destruct k as [|k]; [left; reflexivity | right; exists k; reflexivity]. Qed.

(* one varint of the header in a torn image: intact, or cut (short / ended by the zero fill) *)
Lemma read_uvarint_torn_stage x cont j n : x < two64 ->
  let V := put_uvarint x in
  let B := firstn j (V ++ cont) ++ repeat 0 n in
  (read_uvarint B = UvOk x (length V) (firstn (j - length V) cont ++ repeat 0 n))
  \/ uv_short (read_uvarint B)
  \/ (exists v c k, v <= x /\ read_uvarint B = UvOk v c (repeat 0 k)).
Proof.
  intros Hx V B. unfold B. rewrite firstn_app.
  destruct (le_lt_dec (length V) j) as [L|L].
  - left. rewrite firstn_all2 by exact L. rewrite <- app_assoc. unfold V. now apply read_uvarint_put.
  - right. replace (j - length V)%nat with 0%nat by lia. cbn [firstn]. rewrite app_nil_r.
    destruct n as [|n].
    + left. cbn [repeat]. rewrite app_nil_r. apply read_uvarint_f_cut. exact L.
    + right. cbn [repeat].
      destruct (read_uvarint_f_torn 10 j 0 x 0 (repeat 0 n) L) as (v & Hv & R).
      exists v, (0 + j + 1)%nat, n. split; [exact Hv|].
      unfold read_uvarint, V, put_uvarint. change (7 * N.of_nat 0) with 0 in R. rewrite R.
      f_equal. change (2 ^ 0) with 1. lia.
Qed.

Definition hdr_torn_ok (r : hdr_result) (kl vl : N) : Prop :=
  match r with
  | HOk h _ _ => h_klen h <= kl /\ h_vlen h <= vl
  | HOverflow => False
  | _ => True
  end.

(* header_read when the key length has been read and only zeros follow *)
Lemma header_read_zeros_after_klen m u b2 v c k kl vl :
  read_uvarint b2 = UvOk v c (repeat 0 k) -> v mod two32 <= kl ->
  hdr_torn_ok (header_read (m :: u :: b2)) kl vl.
Proof.
  intros R Hv. unfold header_read. rewrite R.
  destruct (read_uvarint_zeros k) as [E|[k1 E]]; rewrite E; [exact I|].
  destruct (read_uvarint_zeros k1) as [E1|[k2 E1]]; rewrite E1; [exact I|].
  cbn [hdr_torn_ok h_klen h_vlen]. split; [exact Hv|]. rewrite N.mod_0_l by (unfold two32; lia). lia.
Qed.

Lemma header_read_torn h body j n :
  h_klen h < two32 -> h_vlen h < two32 -> h_expires h < two64 ->
  hdr_torn_ok (header_read (firstn j (header_encode h ++ body) ++ repeat 0 n)) (h_klen h) (h_vlen h).
Proof.
  intros Hk Hv He. destruct h as [kl vl ex m u]. cbn [h_klen h_vlen h_expires] in *.
  unfold header_encode. cbn [h_klen h_vlen h_expires h_meta h_umeta app].
  assert (Z0: forall k, read_uvarint (repeat 0 k) = UvEof \/ exists k', read_uvarint (repeat 0 k) = UvOk 0 1 (repeat 0 k'))
    by apply read_uvarint_zeros.
  assert (ZZ: forall a b k, hdr_torn_ok (header_read (a :: b :: repeat 0 k)) kl vl).
  { intros a b k. destruct (Z0 k) as [E|[k1 E]].
    - unfold header_read. rewrite E. exact I.
    - eapply header_read_zeros_after_klen; [exact E|]. rewrite N.mod_0_l by (unfold two32; lia). lia. }
  destruct j as [|[|j]].
  - (* nothing of the record *) cbn [firstn app].
    destruct n as [|[|n]]; cbn [repeat]; try exact I. apply ZZ.
  - (* only meta *) cbn [firstn app].
    destruct n as [|n]; cbn [repeat]; [exact I|]. apply ZZ.
  - (* meta, userMeta and j bytes of the varints / body *)
    cbn [firstn app]. rewrite <- !app_assoc.
    assert (Hk64: kl < two64) by (unfold two32, two64 in *; lia).
    assert (Hv64: vl < two64) by (unfold two32, two64 in *; lia).
    destruct (read_uvarint_torn_stage kl (put_uvarint vl ++ put_uvarint ex ++ body) j n Hk64) as [R1|[R1|R1]]; cbv zeta in R1.
    2:{ unfold header_read. destruct R1 as [R1|R1]; rewrite R1; exact I. }
    2:{ destruct R1 as (v & c & k & Hle & R1). eapply header_read_zeros_after_klen; [exact R1|].
        pose proof (N.mod_le v two32 ltac:(unfold two32; lia)). lia. }
    unfold header_read. rewrite R1.
    destruct (read_uvarint_torn_stage vl (put_uvarint ex ++ body) (j - length (put_uvarint kl)) n Hv64) as [R2|[R2|R2]]; cbv zeta in R2.
    2:{ destruct R2 as [R2|R2]; rewrite R2; exact I. }
    2:{ destruct R2 as (v & c & k & Hle & R2). rewrite R2.
        destruct (Z0 k) as [E|[k1 E]]; rewrite E; [exact I|].
        cbn [hdr_torn_ok h_klen h_vlen]. rewrite N.mod_small by exact Hk. split; [lia|].
        pose proof (N.mod_le v two32 ltac:(unfold two32; lia)). lia. }
    rewrite R2.
    destruct (read_uvarint_torn_stage ex body (j - length (put_uvarint kl) - length (put_uvarint vl)) n He) as [R3|[R3|R3]]; cbv zeta in R3.
    + rewrite R3. cbn [hdr_torn_ok h_klen h_vlen]. rewrite !N.mod_small by assumption. lia.
    + destruct R3 as [R3|R3]; rewrite R3; exact I.
    + destruct R3 as (v & c & k & Hle & R3). rewrite R3.
      cbn [hdr_torn_ok h_klen h_vlen]. rewrite !N.mod_small by assumption. lia.
Qed.

Section LogTorn.
  Variable encrypted : bool.
  Variable xs : bytes -> bytes -> bytes.
  Variable base_iv : bytes.
  Hypothesis xs_len : forall iv d, length (xs iv d) = length d.

  (* C09: on a prefix of a record followed by zeros the reader returns neither an error that
     logFile.iterate would pass on (Open fails) nor panics *)
  Theorem safe_read_torn_no_error e off j n : wf_entry e ->
    let r := safe_read encrypted xs base_iv (firstn j (encode_entry encrypted xs base_iv e off) ++ repeat 0 n) off in
    r <> RdErr /\ r <> RdPanic.
  Proof using xs_len.
    intros W r. subst r.
    assert (F: h_klen (entry_header e) = N.of_nat (length (e_key e)) /\
               h_vlen (entry_header e) = N.of_nat (length (e_value e))).
    { destruct W as (Hk & Hs & _). unfold entry_header. cbn [h_klen h_vlen].
      rewrite !N.mod_small; auto; lia. }
    destruct F as [Fk Fv]. destruct W as (Hk & Hs & He & _).
    unfold safe_read, encode_entry.
    set (img := firstn j _ ++ repeat 0 n).
    pose proof (header_read_torn (entry_header e)
                  (crypt encrypted xs base_iv off (e_key e ++ e_value e) ++
                   be_enc 4 (crc32c (header_encode (entry_header e) ++ crypt encrypted xs base_iv off (e_key e ++ e_value e))))
                  j n) as T.
    fold img in T. rewrite Fk, Fv in T. specialize (T ltac:(lia) ltac:(lia) He).
    destruct (header_read img) as [h hl b5| | |]; try (split; discriminate); [|contradiction].
    cbn [hdr_torn_ok] in T. destruct T as [Tk Tv].
    destruct (65536 <? h_klen h); [split; discriminate|].
    rewrite N.mod_small by lia.
    destruct (split_at b5 (h_klen h + h_vlen h)) as [[kv b6]|] eqn:S1; [|destruct b5; split; discriminate].
    apply split_at_some in S1. destruct S1 as [_ L1].
    destruct (split_at (crypt encrypted xs base_iv off kv) (h_klen h)) as [[k v]|] eqn:S2.
    2:{ apply split_at_none in S2. unfold crypt in S2. destruct encrypted; [rewrite xs_len in S2|]; lia. }
    destruct (split_at b6 4) as [[crcb b7]|]; [|destruct b6; split; discriminate].
    destruct (be_dec crcb =? _); split; discriminate.
  Qed.
End LogTorn.
