(* BloomProofs.v — no false negatives for y/bloom.go as modelled in Bloom.v *)
From Verif Require Import Bytes Keys Bloom.
From Coq Require Import ZifyN ZifyNat ZifyBool.
Open Scope N_scope.

(* ---- single bits ---- *)
Lemma land_pow2_test x i : (N.land x (N.shiftl 1 i) =? 0) = negb (N.testbit x i).
Proof.
  rewrite N.shiftl_1_l. destruct (N.testbit x i) eqn:E; cbn [negb].
  - apply N.eqb_neq. intro H0.
    assert (Hb : N.testbit (N.land x (2 ^ i)) i = true)
      by (rewrite N.land_spec, E, N.pow2_bits_true; reflexivity).
    rewrite H0 in Hb. rewrite N.bits_0 in Hb. discriminate.
  - apply N.eqb_eq. apply N.bits_inj. intro j. rewrite N.land_spec, N.bits_0.
    destruct (N.eq_dec i j) as [->|Hne].
    + rewrite E. reflexivity.
    + rewrite (N.pow2_bits_false i j Hne). apply andb_false_r.
Qed.

Lemma bit_test_spec f p :
  bit_test f p = N.testbit (nth (N.to_nat (p / 8)) f 0) (p mod 8).
Proof. unfold bit_test. rewrite land_pow2_test. apply negb_involutive. Qed.

Lemma upd_nth_length {A} n (g : A -> A) l : length (upd_nth n g l) = length l.
Proof. revert n; induction l as [|x l IH]; intros [|n]; cbn; auto. Qed.

Lemma nth_upd_nth_same {A} n (g : A -> A) l d : (n < length l)%nat ->
  nth n (upd_nth n g l) d = g (nth n l d).
Proof.
  revert n; induction l as [|x l IH]; intros [|n] Hn; cbn in *; try lia; auto.
  apply IH. lia.
Qed.

Lemma nth_upd_nth_other {A} n m (g : A -> A) l d : n <> m ->
  nth m (upd_nth n g l) d = nth m l d.
Proof.
  revert n m; induction l as [|x l IH]; intros [|n] [|m] Hne; cbn; auto; try congruence.
Qed.

Lemma set_bit_length f p : length (set_bit f p) = length f.
Proof. apply upd_nth_length. Qed.

Lemma set_bit_same f p : p / 8 < N.of_nat (length f) -> bit_test (set_bit f p) p = true.
Proof.
  intros Hp. rewrite bit_test_spec. unfold set_bit.
  rewrite nth_upd_nth_same by lia.
  rewrite N.lor_spec, N.shiftl_1_l, N.pow2_bits_true. apply orb_true_r.
Qed.

Lemma set_bit_mono f p q : bit_test f q = true -> bit_test (set_bit f p) q = true.
Proof.
  rewrite !bit_test_spec. unfold set_bit. intros Hq.
  destruct (Nat.eq_dec (N.to_nat (p / 8)) (N.to_nat (q / 8))) as [He|Hne].
  - destruct (Nat.lt_ge_cases (N.to_nat (q / 8)) (length f)) as [Hlt|Hge].
    + rewrite He, nth_upd_nth_same by assumption. rewrite N.lor_spec, Hq. reflexivity.
    + rewrite nth_overflow in Hq by assumption. rewrite N.bits_0 in Hq. discriminate.
  - rewrite nth_upd_nth_other by assumption. exact Hq.
Qed.

(* ---- the two loops ---- *)
Lemma add_probes_length j h d n f : length (add_probes j h d n f) = length f.
Proof.
  revert h f; induction j as [|j IH]; intros h f; cbn [add_probes]; auto.
  rewrite IH. apply set_bit_length.
Qed.

Lemma add_probes_mono j h d n f q :
  bit_test f q = true -> bit_test (add_probes j h d n f) q = true.
Proof.
  revert h f; induction j as [|j IH]; intros h f Hq; cbn [add_probes]; auto.
  apply IH. apply set_bit_mono. exact Hq.
Qed.

Lemma check_probes_mono j h d n f g :
  (forall q, bit_test f q = true -> bit_test g q = true) ->
  check_probes j h d n f = Some true -> check_probes j h d n g = Some true.
Proof.
  intros Hsub. revert h; induction j as [|j IH]; intros h; cbn [check_probes]; auto.
  destruct (n =? 0); [discriminate|].
  destruct (bit_test f (h mod n)) eqn:Ef; [|discriminate].
  rewrite (Hsub _ Ef). apply IH.
Qed.

Lemma add_then_check j h d n f :
  n <> 0 -> n <= 8 * N.of_nat (length f) ->
  check_probes j h d n (add_probes j h d n f) = Some true.
Proof.
  intros Hn Hlen. revert h f Hlen; induction j as [|j IH]; intros h f Hlen; cbn [check_probes add_probes]; auto.
  destruct (n =? 0) eqn:En; [apply N.eqb_eq in En; contradiction|].
  assert (Hp : h mod n < n) by (apply N.mod_lt; assumption).
  assert (Hbyte : h mod n / 8 < N.of_nat (length f)).
  { apply N.div_lt_upper_bound; lia. }
  rewrite (add_probes_mono j _ d n (set_bit f (h mod n)) (h mod n) (set_bit_same f _ Hbyte)).
  apply IH. rewrite set_bit_length. exact Hlen.
Qed.

Lemma add_hash_length k n f h : length (add_hash k n f h) = length f.
Proof. apply add_probes_length. Qed.

Lemma fold_add_hash_length k n hs f : length (fold_left (add_hash k n) hs f) = length f.
Proof.
  revert f; induction hs as [|x hs IH]; intros f; cbn [fold_left]; auto.
  rewrite IH. apply add_hash_length.
Qed.

Lemma fold_add_hash_mono k n hs f q :
  bit_test f q = true -> bit_test (fold_left (add_hash k n) hs f) q = true.
Proof.
  revert f; induction hs as [|x hs IH]; intros f Hq; cbn [fold_left]; auto.
  apply IH. apply add_probes_mono. exact Hq.
Qed.

Lemma fold_then_check k n hs f h :
  n <> 0 -> n <= 8 * N.of_nat (length f) -> In h hs ->
  check_probes (N.to_nat k) h (delta_of h) n (fold_left (add_hash k n) hs f) = Some true.
Proof.
  intros Hn. revert f; induction hs as [|x hs IH]; intros f Hlen Hin; [destruct Hin|].
  cbn [fold_left]. destruct Hin as [->|Hin].
  - eapply check_probes_mono; [|apply (add_then_check (N.to_nat k) h (delta_of h) n f Hn Hlen)].
    intros q Hq. apply fold_add_hash_mono. exact Hq.
  - apply IH; [rewrite add_hash_length; exact Hlen | exact Hin].
Qed.

(* the probes only look at the first n/8 bytes: the trailing k byte is irrelevant *)
Lemma bit_test_app f t p : p / 8 < N.of_nat (length f) -> bit_test (f ++ t) p = bit_test f p.
Proof. intros Hp. unfold bit_test. rewrite app_nth1 by lia. reflexivity. Qed.

Lemma check_probes_app j h d n f t :
  n <> 0 -> n <= 8 * N.of_nat (length f) ->
  check_probes j h d n (f ++ t) = check_probes j h d n f.
Proof.
  intros Hn Hlen. revert h; induction j as [|j IH]; intros h; cbn [check_probes]; auto.
  destruct (n =? 0); auto.
  assert (Hp : h mod n < n) by (apply N.mod_lt; assumption).
  rewrite bit_test_app by (apply N.div_lt_upper_bound; lia).
  rewrite IH. reflexivity.
Qed.

(* ---- shape of the filter ---- *)
Lemma k_of_bits_range b : 1 <= k_of_bits b <= 30.
Proof.
  unfold k_of_bits. destruct (Z.to_N b <? 44) eqn:E.
  - destruct (Z.to_N b * 69 / 100 <? 1) eqn:E1; [lia|].
    destruct (30 <? Z.to_N b * 69 / 100) eqn:E2; lia.
  - cbn. lia.
Qed.

Lemma last_app1 {A} (l : list A) x d : last (l ++ [x]) d = x.
Proof. induction l as [|y l IH]; cbn; auto. destruct (l ++ [x]) eqn:E; [destruct l; discriminate|exact IH]. Qed.

Lemma append_filter_k_shape hs k nbytes f :
  append_filter_k hs k nbytes = Some f ->
  length f = S (N.to_nat nbytes) /\ last f 0 = k mod 256.
Proof.
  unfold append_filter_k. destruct (_ && _ && _); [discriminate|]. intros [= <-].
  split; [|apply last_app1].
  rewrite app_length, fold_add_hash_length, repeat_length. cbn. lia.
Qed.

Lemma append_filter_k_none hs k nbytes :
  append_filter_k hs k nbytes = None <-> (nbytes * 8) mod two32 = 0 /\ 0 < k /\ hs <> [].
Proof.
  unfold append_filter_k, u32. split.
  - destruct ((nbytes * 8) mod two32 =? 0) eqn:E1; cbn [andb]; [|discriminate].
    destruct (0 <? k) eqn:E2; cbn [andb]; [|discriminate].
    destruct hs; cbn [negb]; [discriminate|]. intros _. repeat split; try lia. discriminate.
  - intros (H1 & H2 & H3). destruct hs; [contradiction|].
    apply N.eqb_eq in H1. apply N.ltb_lt in H2. rewrite H1, H2. reflexivity.
Qed.

(* ---- main lemma, arbitrary k < 256 and byte count ---- *)
Lemma no_false_negative_k hs k nbytes f h :
  k < 256 -> 1 <= nbytes -> append_filter_k hs k nbytes = Some f -> In h hs -> may_contain f h = Some true.
Proof.
  intros Hk Hnb1 Hf Hin.
  destruct (append_filter_k_shape _ _ _ _ Hf) as [Hlen Hlast].
  unfold append_filter_k in Hf.
  destruct ((u32 (nbytes * 8) =? 0) && (0 <? k) && _) eqn:Eg; [discriminate|].
  injection Hf as Hf.
  unfold may_contain. rewrite Hlast, (N.mod_small k 256 Hk).
  destruct (length f <? 2)%nat eqn:El; [apply Nat.ltb_lt in El; lia|].
  destruct (30 <? k) eqn:E30; [reflexivity|].
  assert (Hnb : u32 (8 * (N.of_nat (length f) - 1)) = u32 (nbytes * 8)).
  { f_equal. rewrite Hlen. lia. }
  rewrite Hnb.
  destruct (N.eq_dec k 0) as [->|Hk0]; [reflexivity|].
  assert (Hnz : u32 (nbytes * 8) <> 0).
  { intro Hz. rewrite Hz in Eg. cbn in Eg.
    assert (Hkp : (0 <? k) = true) by (apply N.ltb_lt; lia). rewrite Hkp in Eg.
    destruct hs; [destruct Hin|discriminate]. }
  assert (Hle : u32 (nbytes * 8) <= 8 * N.of_nat (length (fold_left (add_hash k (u32 (nbytes * 8))) hs (repeat 0 (N.to_nat nbytes))))).
  { rewrite fold_add_hash_length, repeat_length. unfold u32.
    pose proof (N.mod_le (nbytes * 8) two32). assert (two32 <> 0) by (unfold two32; lia). lia. }
  rewrite <- Hf. rewrite check_probes_app by assumption.
  apply fold_then_check; try assumption.
  rewrite fold_add_hash_length in Hle. exact Hle.
Qed.

(* ---- NewFilter ---- *)
Lemma nbytes_of_ge8 n b : 8 <= nbytes_of n b.
Proof.
  unfold nbytes_of. destruct (N.of_nat n * Z.to_N b <? 64) eqn:E.
  - change ((64 + 7) / 8) with 8. lia.
  - apply N.ltb_ge in E. apply N.div_le_lower_bound; lia.
Qed.

Lemma no_false_negative hs bitsPerKey f h :
  new_filter hs bitsPerKey = Some f -> In h hs -> may_contain f h = Some true.
Proof.
  unfold new_filter. intros Hf Hin. eapply no_false_negative_k; eauto.
  - pose proof (k_of_bits_range bitsPerKey). lia.
  - pose proof (nbytes_of_ge8 (length hs) bitsPerKey). lia.
Qed.

Lemma new_filter_shape hs bitsPerKey f :
  new_filter hs bitsPerKey = Some f ->
  length f = S (N.to_nat (nbytes_of (length hs) bitsPerKey))
  /\ last f 0 = k_of_bits bitsPerKey
  /\ 1 <= last f 0 <= 30
  /\ (9 <= length f)%nat.
Proof.
  unfold new_filter. intros Hf. destruct (append_filter_k_shape _ _ _ _ Hf) as [Hl Hk].
  pose proof (k_of_bits_range bitsPerKey) as Hr.
  rewrite N.mod_small in Hk by lia.
  pose proof (nbytes_of_ge8 (length hs) bitsPerKey).
  repeat split; try lia.
Qed.

(* NewFilter panics (h % 0) exactly when there is a key and the bit count wraps to 0 in uint32 *)
Lemma new_filter_none hs bitsPerKey :
  new_filter hs bitsPerKey = None <->
  (nbytes_of (length hs) bitsPerKey * 8) mod two32 = 0 /\ hs <> [].
Proof.
  unfold new_filter. rewrite append_filter_k_none.
  pose proof (k_of_bits_range bitsPerKey). intuition lia.
Qed.

(* below 2^32 bits (512 MiB of filter) NewFilter never panics *)
Lemma new_filter_some hs bitsPerKey :
  nbytes_of (length hs) bitsPerKey * 8 < two32 -> exists f, new_filter hs bitsPerKey = Some f.
Proof.
  intros Hlt. destruct (new_filter hs bitsPerKey) eqn:E; [eauto|].
  apply new_filter_none in E. destruct E as [E _].
  rewrite N.mod_small in E by assumption.
  pose proof (nbytes_of_ge8 (length hs) bitsPerKey). lia.
Qed.

Lemma no_false_negative_key keys bitsPerKey f key :
  new_filter (map hash keys) bitsPerKey = Some f -> In key keys ->
  may_contain_key f key = Some true.
Proof.
  intros Hf Hin. unfold may_contain_key. eapply no_false_negative; eauto.
  apply in_map. exact Hin.
Qed.

(* ---- table level ---- *)
Lemma does_not_have_added ikeys fp_pos bitsPerKey bf ik :
  build_bloom ikeys fp_pos bitsPerKey = Some bf -> In ik ikeys ->
  does_not_have bf (hash (parse_key ik)) = Some false.
Proof.
  unfold build_bloom, does_not_have. intros Hb Hin. destruct fp_pos.
  - destruct (length bf =? 0)%nat; [reflexivity|].
    erewrite no_false_negative; eauto.
    unfold key_hashes. apply (in_map (fun ik => hash (parse_key ik))). exact Hin.
  - injection Hb as <-. reflexivity.
Qed.

(* Get for any version of a user key present in the table does not skip the table *)
Lemma get_never_skips ikeys fp_pos bitsPerKey bf ik key :
  build_bloom ikeys fp_pos bitsPerKey = Some bf -> In ik ikeys ->
  parse_key key = parse_key ik ->
  get_skips_table bf key = Some false.
Proof.
  intros Hb Hin Hk. unfold get_skips_table. rewrite Hk. eapply does_not_have_added; eauto.
Qed.

(* a key iterator (prefixIsKey, Prefix = user key) does not skip a table holding a version of it *)
Lemma pick_never_skips ikeys fp_pos bitsPerKey bf ik prefix :
  build_bloom ikeys fp_pos bitsPerKey = Some bf -> In ik ikeys ->
  parse_key ik = prefix ->
  pick_skips_table bf prefix = Some false.
Proof.
  intros Hb Hin Hk. unfold pick_skips_table. rewrite <- Hk. eapply does_not_have_added; eauto.
Qed.

(* MayContain on garbage: short filters reject, reserved k accepts *)
Lemma may_contain_short f h : (length f < 2)%nat -> may_contain f h = Some false.
Proof. intros H. unfold may_contain. apply Nat.ltb_lt in H. rewrite H. reflexivity. Qed.

Lemma may_contain_reserved f h : (2 <= length f)%nat -> 30 < last f 0 -> may_contain f h = Some true.
Proof.
  intros H1 H2. unfold may_contain.
  destruct (length f <? 2)%nat eqn:E; [apply Nat.ltb_lt in E; lia|].
  apply N.ltb_lt in H2. rewrite H2. reflexivity.
Qed.

(* ---- Hash stays in uint32 ---- *)
Lemma lxor_lt_pow2 a b n : a < 2 ^ n -> b < 2 ^ n -> N.lxor a b < 2 ^ n.
Proof.
  intros Ha Hb. destruct (N.eq_dec (N.lxor a b) 0) as [->|Hne]; [lia|].
  apply N.log2_lt_pow2; [lia|].
  pose proof (N.log2_lxor a b) as Hl.
  assert (Hla : a = 0 \/ N.log2 a < n) by (destruct (N.eq_dec a 0); [auto|right; apply N.log2_lt_pow2; lia]).
  assert (Hlb : b = 0 \/ N.log2 b < n) by (destruct (N.eq_dec b 0); [auto|right; apply N.log2_lt_pow2; lia]).
  destruct Hla as [->|Hla], Hlb as [->|Hlb].
  - rewrite N.lxor_0_l in Hne. contradiction.
  - rewrite N.lxor_0_l in *. lia.
  - rewrite N.lxor_0_r in *. lia.
  - lia.
Qed.

Lemma two32_pow2 : two32 = 2 ^ 32. Proof. reflexivity. Qed.

Lemma hash_mix_lt h s : hash_mix h s < two32.
Proof.
  unfold hash_mix, u32. rewrite two32_pow2.
  assert (H : (h * hash_m) mod 2 ^ 32 < 2 ^ 32) by (apply N.mod_lt; lia).
  apply lxor_lt_pow2; [exact H|].
  rewrite N.shiftr_div_pow2.
  eapply N.le_lt_trans; [|exact H]. apply N.div_le_upper_bound; [lia|].
  assert (1 <= 2 ^ s) by (pose proof (N.pow_nonzero 2 s); lia). nia.
Qed.

Lemma hash_loop_lt n : forall b h, (length b <= n)%nat -> h < two32 -> hash_loop b h < two32.
Proof.
  induction n as [|n IH]; intros b h Hl Hh.
  - destruct b; [exact Hh|cbn in Hl; lia].
  - destruct b as [|b0 [|b1 [|b2 [|b3 rest]]]]; cbn [hash_loop]; try exact Hh; try apply hash_mix_lt.
    apply IH; [cbn in Hl; lia|apply hash_mix_lt].
Qed.

Lemma hash_lt b : hash b < two32.
Proof.
  unfold hash. apply (hash_loop_lt (length b)); [lia|].
  rewrite two32_pow2. apply lxor_lt_pow2; [reflexivity|].
  unfold u32. apply N.mod_lt. discriminate.
Qed.

(* name used by DESIGN.md 3.3b for the Layer A -> Layer B lemma: neither Get nor a key iterator
   skips a table that holds a version of the user key *)
Lemma bloom_skip_sound ikeys fp_pos bitsPerKey bf ik :
  build_bloom ikeys fp_pos bitsPerKey = Some bf -> In ik ikeys ->
  (forall key, parse_key key = parse_key ik -> get_skips_table bf key = Some false) /\
  pick_skips_table bf (parse_key ik) = Some false.
Proof.
  intros Hb Hin. split.
  - intros key Hk. eapply get_never_skips; eauto.
  - eapply pick_never_skips; eauto.
Qed.

(* ---- Add and AddStaleKey: the flag is irrelevant for the filter ---- *)
Lemma builder_hashes_acc adds hs0 :
  fold_left (fun hs a => add_helper hs (fst a) (snd a)) adds hs0 = hs0 ++ key_hashes (map snd adds).
Proof.
  revert hs0; induction adds as [|a adds IH]; intros hs0; cbn [fold_left map key_hashes].
  - rewrite app_nil_r. reflexivity.
  - rewrite IH. unfold add_helper, key_hashes. rewrite <- app_assoc. reflexivity.
Qed.

Lemma builder_hashes_flag_irrelevant adds : builder_hashes adds = key_hashes (map snd adds).
Proof. unfold builder_hashes. rewrite builder_hashes_acc. reflexivity. Qed.

Lemma build_bloom_adds_eq adds fp_pos bitsPerKey :
  build_bloom_adds adds fp_pos bitsPerKey = build_bloom (map snd adds) fp_pos bitsPerKey.
Proof. unfold build_bloom_adds, build_bloom. rewrite builder_hashes_flag_irrelevant. reflexivity. Qed.

(* every key added through Add or AddStaleKey is reported present *)
Lemma does_not_have_added_either adds fp_pos bitsPerKey bf is_stale ik :
  build_bloom_adds adds fp_pos bitsPerKey = Some bf -> In (is_stale, ik) adds ->
  does_not_have bf (hash (parse_key ik)) = Some false.
Proof.
  rewrite build_bloom_adds_eq. intros Hb Hin. eapply does_not_have_added; eauto.
  apply (in_map snd) in Hin. exact Hin.
Qed.

Lemma skips_never_either adds fp_pos bitsPerKey bf is_stale ik :
  build_bloom_adds adds fp_pos bitsPerKey = Some bf -> In (is_stale, ik) adds ->
  (forall key, parse_key key = parse_key ik -> get_skips_table bf key = Some false) /\
  pick_skips_table bf (parse_key ik) = Some false /\
  (bf <> [] -> may_contain_key bf (parse_key ik) = Some true).
Proof.
  rewrite build_bloom_adds_eq. intros Hb Hin. apply (in_map snd) in Hin. cbn [snd] in Hin.
  destruct (bloom_skip_sound _ _ _ _ _ Hb Hin) as [H1 H2]. split; [exact H1|]. split; [exact H2|].
  intros Hne. unfold pick_skips_table, does_not_have in H2.
  destruct (length bf =? 0)%nat eqn:E; [destruct bf; [contradiction|discriminate]|].
  unfold may_contain_key. destruct (may_contain bf (hash (parse_key ik))) as [[|]|]; cbn in H2; congruence.
Qed.
