(* LogIterProofs.v — logFile.iterate: replay of encoded units in write order, torn tails,
   dropped partial transactions, only checksum-valid images are delivered, transactional
   entries are delivered only in groups closed by a matching end marker (all byte strings). *)
From Verif Require Import Bytes BytesProofs Uvarint UvarintProofs Keys Codec C20Proofs Crc32c Crc32cProofs
  Consts LogRecord LogProofs LogIter.
From Coq Require Import ZifyN ZifyNat ZifyBool.
Open Scope N_scope.

(* ---------- units as the writer produces them ---------- *)
Inductive lunit :=
| UPlain (e : entry)                              (* an entry written outside a transaction *)
| UTxn (ts : N) (es : list entry) (m : entry).    (* txn entries, then the end marker *)

Definition txn_bit (e : entry) : bool := has_bit (e_meta e) c_bitTxn.
Definition fin_bit (e : entry) : bool := has_bit (e_meta e) c_bitFinTxn.

Definition wf_plain (e : entry) : Prop :=
  wf_entry e /\ e_key e <> [] /\ txn_bit e = false /\ fin_bit e = false.
Definition wf_txn_entry (ts : N) (e : entry) : Prop :=
  wf_entry e /\ e_key e <> [] /\ txn_bit e = true /\ parse_ts (e_key e) = ts.
Definition wf_marker (ts : N) (m : entry) : Prop :=
  wf_entry m /\ e_key m <> [] /\ txn_bit m = false /\ fin_bit m = true /\
  parse_uint_dec (e_value m) = Some ts.
Definition wf_unit (u : lunit) : Prop :=
  match u with
  | UPlain e => wf_plain e
  | UTxn ts es m => ts <> 0 /\ es <> [] /\ Forall (wf_txn_entry ts) es /\ wf_marker ts m
  end.

Definition unit_records (u : lunit) : list entry :=
  match u with UPlain e => [e] | UTxn _ es m => es ++ [m] end.
(* what the callback must receive for the unit: everything but the marker *)
Definition unit_payload (u : lunit) : list entry :=
  match u with UPlain e => [e] | UTxn _ es _ => es end.

Section IterP.
  Variable encrypted : bool.
  Variable xs : bytes -> bytes -> bytes.
  Variable base_iv : bytes.
  Hypothesis xs_len : forall iv d, length (xs iv d) = length d.
  Hypothesis xs_invol : forall iv d, xs iv (xs iv d) = d.
  Hypothesis xs_wf : forall iv d, wf_bytes d = true -> wf_bytes (xs iv d) = true.
  Set Default Proof Using "All".

  Notation crypt := (crypt encrypted xs base_iv).
  Notation encode_entry := (encode_entry encrypted xs base_iv).
  Notation safe_read := (safe_read encrypted xs base_iv).
  Notation iterate_f := (iterate_f encrypted xs base_iv).
  Notation iterate := (iterate encrypted xs base_iv).

  (* size of a record on disk (does not depend on the offset) *)
  Definition rec_size (e : entry) : N :=
    N.of_nat (hdr_len e + length (e_key e) + length (e_value e) + 4).

  Fixpoint encode_entries (es : list entry) (off : N) : bytes :=
    match es with
    | [] => []
    | e :: r => encode_entry e off ++ encode_entries r (off + rec_size e)
    end.
  Fixpoint dels (es : list entry) (off : N) : list delivered :=
    match es with
    | [] => []
    | e :: r => mkDel e off (rec_size e) :: dels r (off + rec_size e)
    end.
  Fixpoint entries_size (es : list entry) : N :=
    match es with [] => 0 | e :: r => rec_size e + entries_size r end.

  Definition unit_size (u : lunit) : N := entries_size (unit_records u).
  Fixpoint encode_units (us : list lunit) (off : N) : bytes :=
    match us with
    | [] => []
    | u :: r => encode_entries (unit_records u) off ++ encode_units r (off + unit_size u)
    end.
  Fixpoint unit_dels (us : list lunit) (off : N) : list delivered :=
    match us with
    | [] => []
    | u :: r => dels (unit_payload u) off ++ unit_dels r (off + unit_size u)
    end.
  Fixpoint units_size (us : list lunit) : N :=
    match us with [] => 0 | u :: r => unit_size u + units_size r end.

  Lemma encode_entry_size e off : N.of_nat (length (encode_entry e off)) = rec_size e.
  Proof. unfold rec_size. now rewrite (encode_entry_length encrypted xs base_iv xs_len xs_invol xs_wf). Qed.

  Lemma encode_entries_size es : forall off, N.of_nat (length (encode_entries es off)) = entries_size es.
  Proof.
    induction es as [|e r IH]; intros off; cbn [encode_entries entries_size length]; auto.
    rewrite app_length, Nat2N.inj_add, encode_entry_size, IH. reflexivity.
  Qed.

  Lemma encode_units_size us : forall off, N.of_nat (length (encode_units us off)) = units_size us.
  Proof.
    induction us as [|u r IH]; intros off; cbn [encode_units units_size length]; auto.
    rewrite app_length, Nat2N.inj_add, encode_entries_size, IH. reflexivity.
  Qed.

  Lemma encode_entries_app a : forall b off,
    encode_entries (a ++ b) off = encode_entries a off ++ encode_entries b (off + entries_size a).
  Proof.
    induction a as [|e a IH]; intros b off; cbn [app encode_entries entries_size].
    - now rewrite N.add_0_r.
    - rewrite IH, <- app_assoc. do 3 f_equal. lia.
  Qed.

  Lemma entries_size_app a b : entries_size (a ++ b) = entries_size a + entries_size b.
  Proof. induction a as [|e a IH]; cbn [app entries_size]; lia. Qed.

  (* ---------- the loop, one round ---------- *)
  Definition after_read (k : N -> N -> list delivered -> N -> list delivered * outcome)
             (e : entry) (hlen : nat) (off last_commit : N) (pend : list delivered) (vend : N)
    : list delivered * outcome :=
    let len := record_len hlen e in
    let off' := (off + len) mod two32 in
    let d := mkDel e off len in
    if has_bit (e_meta e) c_bitTxn then
      let ts := parse_ts (e_key e) in
      let lc := if last_commit =? 0 then ts else last_commit in
      if negb (lc =? ts) then ([], Done vend)
      else k off' lc (d :: pend) vend
    else if has_bit (e_meta e) c_bitFinTxn then
      match parse_uint_dec (e_value e) with
      | None => ([], Done vend)
      | Some ts =>
          if negb (last_commit =? ts) then ([], Done vend)
          else let '(o, oc) := k off' 0 [] off' in (rev pend ++ o, oc)
      end
    else
      if negb (last_commit =? 0) then ([], Done vend)
      else let '(o, oc) := k off' last_commit pend off' in (d :: o, oc).

  Lemma iterate_f_S f buf off lc pend vend :
    iterate_f (S f) buf off lc pend vend =
    match safe_read buf off with
    | RdOk e hlen rest =>
        match e_key e with
        | [] => ([], Done vend)
        | _ :: _ => after_read (iterate_f f rest) e hlen off lc pend vend
        end
    | RdErr => ([], Err)
    | RdPanic => ([], Panic)
    | _ => ([], Done vend)
    end.
  Proof. reflexivity. Qed.

  Lemma after_read_ext k1 k2 e hlen off lc pend vend :
    (forall a b c d, k1 a b c d = k2 a b c d) ->
    after_read k1 e hlen off lc pend vend = after_read k2 e hlen off lc pend vend.
  Proof.
    intros H. unfold after_read.
    destruct (has_bit (e_meta e) c_bitTxn).
    - destruct (negb _); auto.
    - destruct (has_bit (e_meta e) c_bitFinTxn).
      + destruct (parse_uint_dec (e_value e)); auto. destruct (negb _); auto. now rewrite H.
      + destruct (negb _); auto. now rewrite H.
  Qed.

  Lemma safe_read_consumes buf off e hl rest :
    safe_read buf off = RdOk e hl rest -> (length rest < length buf)%nat.
  Proof.
    intros H. apply (safe_read_ok_inv encrypted xs base_iv xs_len xs_invol xs_wf) in H.
    destruct H as (hb & kv & crcb & -> & L & H5 & _). rewrite !app_length. lia.
  Qed.

  (* any fuel above the input length gives the same result *)
  Lemma iterate_f_fuel f1 : forall f2 buf off lc pend vend,
    (length buf < f1)%nat -> (length buf < f2)%nat ->
    iterate_f f1 buf off lc pend vend = iterate_f f2 buf off lc pend vend.
  Proof.
    induction f1 as [|f1 IH]; intros f2 buf off lc pend vend H1 H2; [lia|].
    destruct f2 as [|f2]; [lia|]. rewrite !iterate_f_S.
    destruct (safe_read buf off) as [e hl rest| | | | |] eqn:R; auto.
    destruct (e_key e); auto.
    apply safe_read_consumes in R.
    apply after_read_ext. intros a0 b0 c0 d0. apply IH; lia.
  Qed.

  Definition iter (buf : bytes) (off lc : N) (pend : list delivered) (vend : N) :=
    iterate_f (S (length buf)) buf off lc pend vend.

  Lemma iterate_iter buf off : iterate buf off = iter buf off 0 [] off.
  Proof. reflexivity. Qed.

  Lemma iter_eq buf off lc pend vend :
    iter buf off lc pend vend =
    match safe_read buf off with
    | RdOk e hlen rest =>
        match e_key e with
        | [] => ([], Done vend)
        | _ :: _ => after_read (iter rest) e hlen off lc pend vend
        end
    | RdErr => ([], Err)
    | RdPanic => ([], Panic)
    | _ => ([], Done vend)
    end.
  Proof.
    unfold iter at 1. rewrite iterate_f_S.
    destruct (safe_read buf off) as [e hl rest| | | | |] eqn:R; auto.
    destruct (e_key e); auto.
    apply safe_read_consumes in R.
    apply after_read_ext. intros a0 b0 c0 d0. unfold iter. apply iterate_f_fuel; lia.
  Qed.

  (* input whose first read is rejected: EOF / short read / errTruncate / the zero entry *)
  Definition tail_rejected (t : bytes) (off : N) : bool :=
    match safe_read t off with
    | RdOk e _ _ => match e_key e with [] => true | _ => false end
    | r => rd_is_stop r
    end.

  Lemma iter_rejected t off lc pend vend :
    tail_rejected t off = true -> iter t off lc pend vend = ([], Done vend).
  Proof.
    unfold tail_rejected. intros H. rewrite iter_eq.
    destruct (safe_read t off) as [e hl rest| | | | |]; try reflexivity; try discriminate.
    destruct (e_key e); [reflexivity|discriminate].
  Qed.

  Lemma tail_rejected_nil off : tail_rejected [] off = true.
  Proof. reflexivity. Qed.

  (* ---------- one encoded record ---------- *)
  Lemma record_len_encoded e : rec_size e < two32 -> record_len (hdr_len e) e = rec_size e.
  Proof.
    intros H. unfold record_len, rec_size in *.
    replace (N.of_nat (hdr_len e) + N.of_nat (length (e_key e)) + N.of_nat (length (e_value e)) + 4)
      with (N.of_nat (hdr_len e + length (e_key e) + length (e_value e) + 4)) by lia.
    now apply N.mod_small.
  Qed.

  Lemma iter_encoded e off t lc pend vend :
    wf_entry e -> e_key e <> [] -> off + rec_size e < two32 ->
    iter (encode_entry e off ++ t) off lc pend vend =
    after_read (iter t) e (hdr_len e) off lc pend vend.
  Proof.
    intros W K B. rewrite iter_eq.
    rewrite (safe_read_encode encrypted xs base_iv xs_len xs_invol xs_wf) by exact W.
    destruct (e_key e); [congruence|reflexivity].
  Qed.

  Lemma after_read_offsets k e off lc pend vend :
    off + rec_size e < two32 ->
    after_read k e (hdr_len e) off lc pend vend =
    let off' := off + rec_size e in
    let d := mkDel e off (rec_size e) in
    if txn_bit e then
      let ts := parse_ts (e_key e) in
      let lc' := if lc =? 0 then ts else lc in
      if negb (lc' =? ts) then ([], Done vend) else k off' lc' (d :: pend) vend
    else if fin_bit e then
      match parse_uint_dec (e_value e) with
      | None => ([], Done vend)
      | Some ts => if negb (lc =? ts) then ([], Done vend)
                   else let '(o, oc) := k off' 0 [] off' in (rev pend ++ o, oc)
      end
    else if negb (lc =? 0) then ([], Done vend)
         else let '(o, oc) := k off' lc pend off' in (d :: o, oc).
  Proof.
    intros B. unfold after_read, txn_bit, fin_bit.
    rewrite record_len_encoded by lia. rewrite (N.mod_small (off + rec_size e)) by exact B.
    reflexivity.
  Qed.

  Lemma iter_plain e off t pend vend :
    wf_plain e -> off + rec_size e < two32 ->
    iter (encode_entry e off ++ t) off 0 pend vend =
    let '(o, oc) := iter t (off + rec_size e) 0 pend (off + rec_size e) in
    (mkDel e off (rec_size e) :: o, oc).
  Proof.
    intros (W & K & T & F) B. rewrite iter_encoded, after_read_offsets by assumption.
    cbv zeta. rewrite T, F. reflexivity.
  Qed.

  Lemma iter_txn_entry ts e off t lc pend vend :
    wf_txn_entry ts e -> (lc = 0 \/ lc = ts) -> off + rec_size e < two32 ->
    iter (encode_entry e off ++ t) off lc pend vend =
    iter t (off + rec_size e) ts (mkDel e off (rec_size e) :: pend) vend.
  Proof.
    intros (W & K & T & P) L B. rewrite iter_encoded, after_read_offsets by assumption.
    cbv zeta. rewrite T, P.
    assert (E: (if lc =? 0 then ts else lc) = ts).
    { destruct L as [->| ->]; [reflexivity|]. destruct (ts =? 0); reflexivity. }
    rewrite E, N.eqb_refl. reflexivity.
  Qed.

  Lemma iter_marker ts m off t pend vend :
    wf_marker ts m -> off + rec_size m < two32 ->
    iter (encode_entry m off ++ t) off ts pend vend =
    let '(o, oc) := iter t (off + rec_size m) 0 [] (off + rec_size m) in (rev pend ++ o, oc).
  Proof.
    intros (W & K & T & F & P) B. rewrite iter_encoded, after_read_offsets by assumption.
    cbv zeta. rewrite T, F, P, N.eqb_refl. reflexivity.
  Qed.

  (* ---------- runs of transactional entries, units, logs ---------- *)
  Lemma iter_txn_entries ts es : forall off t lc pend vend,
    Forall (wf_txn_entry ts) es -> (lc = 0 \/ lc = ts) -> off + entries_size es < two32 ->
    iter (encode_entries es off ++ t) off lc pend vend =
    iter t (off + entries_size es) (match es with [] => lc | _ => ts end) (rev (dels es off) ++ pend) vend.
  Proof.
    induction es as [|e r IH]; intros off t lc pend vend HF L B.
    - cbn [encode_entries entries_size dels rev app]. now rewrite N.add_0_r.
    - inversion HF as [|? ? He Hr]; subst. cbn [encode_entries entries_size dels] in *.
      rewrite <- app_assoc. rewrite (iter_txn_entry ts) by (auto; lia).
      rewrite IH by (auto; lia).
      replace (off + rec_size e + entries_size r) with (off + (rec_size e + entries_size r)) by lia.
      cbn [rev]. rewrite <- app_assoc. cbn [app].
      destruct r; reflexivity.
  Qed.

  Lemma iter_unit u off t vend :
    wf_unit u -> off + unit_size u < two32 ->
    iter (encode_entries (unit_records u) off ++ t) off 0 [] vend =
    let '(o, oc) := iter t (off + unit_size u) 0 [] (off + unit_size u) in
    (dels (unit_payload u) off ++ o, oc).
  Proof.
    destruct u as [e|ts es m]; cbn [wf_unit unit_records unit_payload]; unfold unit_size; cbn [unit_records].
    - intros W B. cbn [encode_entries entries_size dels] in *. rewrite N.add_0_r in *.
      rewrite app_nil_r. rewrite iter_plain by assumption. reflexivity.
    - intros (Hts & Hne & HF & HM) B. rewrite entries_size_app in B. cbn [entries_size] in B.
      rewrite encode_entries_app. cbn [encode_entries]. rewrite app_nil_r, <- app_assoc.
      rewrite (iter_txn_entries ts) by (auto; lia).
      destruct es as [|e0 es0]; [congruence|].
      rewrite (iter_marker ts) by (auto; lia).
      rewrite entries_size_app. cbn [entries_size]. rewrite N.add_0_r.
      replace (off + (rec_size e0 + entries_size es0) + rec_size m)
        with (off + (rec_size e0 + entries_size es0 + rec_size m)) by lia.
      destruct (iter t _ 0 [] _) as [o oc]. rewrite app_nil_r, rev_involutive. reflexivity.
  Qed.

  Lemma iter_units us : forall off t vend,
    Forall wf_unit us -> off + units_size us < two32 ->
    iter (encode_units us off ++ t) off 0 [] vend =
    let '(o, oc) := iter t (off + units_size us) 0 []
                         (match us with [] => vend | _ => off + units_size us end) in
    (unit_dels us off ++ o, oc).
  Proof.
    induction us as [|u r IH]; intros off t vend HF B.
    - cbn [encode_units units_size unit_dels app]. rewrite N.add_0_r. destruct (iter t off 0 [] vend); reflexivity.
    - inversion HF as [|? ? Hu Hr]; subst. cbn [encode_units units_size unit_dels] in *.
      rewrite <- app_assoc. rewrite iter_unit by (auto; lia).
      rewrite IH by (auto; lia).
      replace (off + unit_size u + units_size r) with (off + (unit_size u + units_size r)) by lia.
      assert (E: match r with [] => off + unit_size u | _ => off + (unit_size u + units_size r) end
                 = off + (unit_size u + units_size r)).
      { destruct r; cbn [units_size]; lia. }
      rewrite E.
      destruct (iter t _ 0 [] _) as [o oc]. now rewrite app_assoc.
  Qed.

  (* ---------- C16: write order ---------- *)
  Theorem iterate_units us off : Forall wf_unit us -> off + units_size us < two32 ->
    iterate (encode_units us off) off = (unit_dels us off, Done (off + units_size us)).
  Proof.
    intros HF B. rewrite iterate_iter. rewrite <- (app_nil_r (encode_units us off)).
    rewrite iter_units by assumption.
    rewrite iter_rejected by apply tail_rejected_nil. rewrite app_nil_r.
    destruct us; cbn [units_size]; [now rewrite N.add_0_r|reflexivity].
  Qed.

  (* ---------- C09: whatever follows a well-formed log, if its first read is rejected ---------- *)
  Theorem iterate_units_rejected_tail us off t : Forall wf_unit us -> off + units_size us < two32 ->
    tail_rejected t (off + units_size us) = true ->
    iterate (encode_units us off ++ t) off = (unit_dels us off, Done (off + units_size us)).
  Proof.
    intros HF B R. rewrite iterate_iter, iter_units by assumption.
    rewrite iter_rejected by exact R. rewrite app_nil_r.
    destruct us; cbn [units_size]; [now rewrite N.add_0_r|reflexivity].
  Qed.

  (* a strict prefix of a further record: rejected *)
  Lemma strict_prefix_rejected e off p s : wf_entry e -> encode_entry e off = p ++ s -> s <> [] ->
    tail_rejected p off = true.
  Proof.
    intros W E Hs. unfold tail_rejected.
    pose proof (safe_read_strict_prefix encrypted xs base_iv xs_len xs_invol xs_wf e off p s W E Hs) as H.
    destruct (safe_read p off); try discriminate; auto.
  Qed.

  (* a transaction whose end marker is not intact is dropped: complete transactional entries
     followed by anything whose first read is rejected deliver nothing *)
  Theorem iterate_partial_txn us off ts es t : Forall wf_unit us -> Forall (wf_txn_entry ts) es -> ts <> 0 ->
    off + units_size us + entries_size es < two32 ->
    tail_rejected t (off + units_size us + entries_size es) = true ->
    iterate (encode_units us off ++ encode_entries es (off + units_size us) ++ t) off
    = (unit_dels us off, Done (off + units_size us)).
  Proof.
    intros HF HE Hts B R. rewrite iterate_iter, iter_units by (auto; lia).
    rewrite (iter_txn_entries ts) by (auto; lia).
    rewrite iter_rejected by exact R. rewrite app_nil_r.
    destruct us; cbn [units_size]; [now rewrite N.add_0_r|reflexivity].
  Qed.

  (* ---------- zero-filled tails ---------- *)
  (* when the header read from the image has key length 0 the image is rejected whatever its
     checksum: either the checksum mismatches or the entry is the zero entry *)
  Lemma klen0_rejected img off :
    match header_read img with
    | HOk h _ _ => h_klen h = 0
    | HOverflow => False
    | _ => True
    end -> tail_rejected img off = true.
  Proof.
    unfold tail_rejected, LogRecord.safe_read.
    destruct (header_read img) as [h hl b5| | |]; try reflexivity; [|contradiction].
    intros ->. cbn [N.ltb N.compare]. rewrite N.add_0_l.
    destruct (split_at b5 (h_vlen h mod two32)) as [[kv b6]|]; [|destruct b5; reflexivity].
    rewrite split_at_0.
    destruct (split_at b6 4) as [[crcb b7]|]; [|destruct b6; reflexivity].
    destruct (be_dec crcb =? _); reflexivity.
  Qed.

  Lemma read_uvarint_zero r : read_uvarint (0 :: r) = UvOk 0 1 r.
  Proof. reflexivity. Qed.

  (* meta, userMeta and then only zeros: key length 0 (or the input ends inside the header) *)
  Lemma header_read_mu_zeros m u n :
    match header_read (m :: u :: repeat 0 n) with
    | HOk h _ _ => h_klen h = 0
    | HOverflow => False
    | _ => True
    end.
  Proof.
    unfold header_read.
    destruct n as [|n]; cbn [repeat]; [exact I|]. rewrite read_uvarint_zero.
    destruct n as [|n]; cbn [repeat]; [exact I|]. rewrite read_uvarint_zero.
    destruct n as [|n]; cbn [repeat]; [exact I|]. rewrite read_uvarint_zero.
    reflexivity.
  Qed.

  (* cut at a record boundary: the zero fill alone *)
  Theorem zeros_rejected n off : tail_rejected (repeat 0 n) off = true.
  Proof.
    apply klen0_rejected.
    destruct n as [|[|n]]; cbn [repeat]; try exact I. apply header_read_mu_zeros.
  Qed.

  (* cut inside the first two bytes of a record *)
  Theorem short_cut_rejected e off j n : (j <= 2)%nat ->
    tail_rejected (firstn j (encode_entry e off) ++ repeat 0 n) off = true.
  Proof.
    intros Hj. apply klen0_rejected.
    unfold LogRecord.encode_entry, header_encode. cbn [app].
    destruct j as [|[|[|j]]]; [| | |lia]; cbn [firstn app].
    - destruct n as [|[|n]]; cbn [repeat]; try exact I. apply header_read_mu_zeros.
    - destruct n as [|n]; cbn [repeat]; [exact I|]. apply header_read_mu_zeros.
    - apply header_read_mu_zeros.
  Qed.

  (* ---------- C09: only checksum-valid images are ever delivered ---------- *)
  (* d was read at byte position |pre| of buf: header bytes hb, stored key|value kv whose
     decryption is the delivered key|value, stored checksum crcb = crc32c(hb|kv) *)
  Definition valid_image (buf : bytes) (off0 : N) (d : delivered) : Prop :=
    exists pre hb kv crcb post,
      buf = pre ++ hb ++ kv ++ crcb ++ post /\
      d_off d = (off0 + N.of_nat (length pre)) mod two32 /\
      length crcb = 4%nat /\ be_dec crcb = crc32c (hb ++ kv) /\
      crypt (d_off d) kv = e_key (d_entry d) ++ e_value (d_entry d).

  Lemma delivered_valid_gen buf0 off0 f : forall pre buf off lc pend vend,
    buf0 = pre ++ buf -> off = (off0 + N.of_nat (length pre)) mod two32 ->
    Forall (valid_image buf0 off0) pend ->
    Forall (valid_image buf0 off0) (fst (iterate_f f buf off lc pend vend)).
  Proof.
    induction f as [|f IH]; intros pre buf off lc pend vend Hb Ho HP; [constructor|].
    rewrite iterate_f_S.
    destruct (safe_read buf off) as [e hl rest| | | | |] eqn:R; try constructor.
    destruct (e_key e) as [|k0 kr] eqn:K; [constructor|].
    pose proof (safe_read_ok_inv encrypted xs base_iv xs_len xs_invol xs_wf buf off e hl rest R)
      as (hb & kv & crcb & Ebuf & Lhb & H5 & Lc & Hcrc & Hkv & _).
    assert (Vd: valid_image buf0 off0 (mkDel e off (record_len hl e))).
    { exists pre, hb, kv, crcb, rest. cbn [d_off d_entry]. subst buf. auto. }
    assert (Hoff': (off + record_len hl e) mod two32
                   = (off0 + N.of_nat (length (pre ++ hb ++ kv ++ crcb))) mod two32).
    { unfold record_len. rewrite Ho. rewrite N.add_mod_idemp_l, N.add_mod_idemp_r by (unfold two32; lia).
      f_equal. pose proof (f_equal (@length N) Hkv) as L.
      rewrite (crypt_len encrypted xs base_iv xs_len xs_invol xs_wf), app_length in L.
      rewrite !app_length, Lhb, Lc, L. lia. }
    assert (Hbuf': buf0 = (pre ++ hb ++ kv ++ crcb) ++ rest).
    { rewrite Hb, Ebuf. now rewrite <- !app_assoc. }
    unfold after_read.
    destruct (has_bit (e_meta e) c_bitTxn).
    - destruct (negb _); [constructor|]. eapply IH; eauto.
    - destruct (has_bit (e_meta e) c_bitFinTxn).
      + destruct (parse_uint_dec (e_value e)); [|constructor]. destruct (negb _); [constructor|].
        specialize (IH (pre ++ hb ++ kv ++ crcb) rest _ 0 [] ((off + record_len hl e) mod two32) Hbuf' Hoff' (Forall_nil _)).
        destruct (iterate_f f rest _ 0 [] _) as [o oc]. cbn [fst] in *.
        apply Forall_app. split; [|exact IH]. now apply Forall_rev.
      + destruct (negb _); [constructor|].
        specialize (IH (pre ++ hb ++ kv ++ crcb) rest _ lc pend ((off + record_len hl e) mod two32) Hbuf' Hoff' HP).
        destruct (iterate_f f rest _ lc pend _) as [o oc]. cbn [fst] in *.
        constructor; assumption.
  Qed.

  Theorem delivered_valid buf off d : off < two32 ->
    In d (fst (iterate buf off)) -> valid_image buf off d.
  Proof.
    intros Ho H.
    pose proof (delivered_valid_gen buf off (S (length buf)) [] buf off 0 [] off eq_refl) as G.
    cbn [length app] in G. rewrite N.add_0_r, N.mod_small in G by exact Ho.
    specialize (G eq_refl (Forall_nil _)). rewrite Forall_forall in G. now apply G.
  Qed.

  (* ---------- C16: transaction units, for every byte string ---------- *)
  Definition next_off (off : N) (hl : nat) (e : entry) : N := (off + record_len hl e) mod two32.

  (* successive successful reads (non-zero entries) from (buf, off) to (buf', off') *)
  Inductive reads : bytes -> N -> list delivered -> bytes -> N -> Prop :=
  | reads_nil buf off : reads buf off [] buf off
  | reads_cons buf off e hl rest ds buf' off' :
      safe_read buf off = RdOk e hl rest -> e_key e <> [] ->
      reads rest (next_off off hl e) ds buf' off' ->
      reads buf off (mkDel e off (record_len hl e) :: ds) buf' off'.

  Definition is_txn (ts : N) (d : delivered) : Prop :=
    txn_bit (d_entry d) = true /\ parse_ts (e_key (d_entry d)) = ts.

  (* the deliveries are a sequence of whole units read from the input: a plain entry, or all the
     transactional entries of one version ts read back to back and immediately followed by an
     end marker (end bit, no txn bit) whose value is the decimal ts *)
  Inductive units_parse : bytes -> N -> list delivered -> Prop :=
  | up_stop buf off : units_parse buf off []
  | up_plain buf off e hl rest out :
      safe_read buf off = RdOk e hl rest -> e_key e <> [] ->
      txn_bit e = false -> fin_bit e = false ->
      units_parse rest (next_off off hl e) out ->
      units_parse buf off (mkDel e off (record_len hl e) :: out)
  | up_txn buf off ds b1 o1 m hl rest ts out :
      reads buf off ds b1 o1 -> Forall (is_txn ts) ds ->
      safe_read b1 o1 = RdOk m hl rest -> e_key m <> [] ->
      txn_bit m = false -> fin_bit m = true -> parse_uint_dec (e_value m) = Some ts ->
      units_parse rest (next_off o1 hl m) out ->
      units_parse buf off (ds ++ out).

  (* the writer never produces a transactional entry of version 0 (txn.go commitAndSend:
     y.AssertTrue(commitTs != 0)); on the reader's side 0 doubles as "no transaction open" *)
  Definition no_zero_ts (buf : bytes) (off : N) : Prop :=
    forall ds b o, reads buf off ds b o ->
      Forall (fun d => txn_bit (d_entry d) = true -> parse_ts (e_key (d_entry d)) <> 0) ds.

  Lemma reads_app a o d1 b o1 d2 c o2 :
    reads a o d1 b o1 -> reads b o1 d2 c o2 -> reads a o (d1 ++ d2) c o2.
  Proof. induction 1; intros H2; cbn [app]; auto. econstructor; eauto. Qed.

  Lemma reads_snoc a o ds b o1 e hl rest :
    reads a o ds b o1 -> safe_read b o1 = RdOk e hl rest -> e_key e <> [] ->
    reads a o (ds ++ [mkDel e o1 (record_len hl e)]) rest (next_off o1 hl e).
  Proof.
    intros H R K. eapply reads_app; eauto. econstructor; eauto. constructor.
  Qed.

  Lemma no_zero_ts_after a o ds b o1 : no_zero_ts a o -> reads a o ds b o1 -> no_zero_ts b o1.
  Proof.
    intros G H ds2 c o2 H2. specialize (G _ _ _ (reads_app _ _ _ _ _ _ _ _ H H2)).
    apply Forall_app in G. tauto.
  Qed.

  Lemma txn_units_gen f : forall bg og ds buf off lc vend,
    no_zero_ts bg og -> reads bg og ds buf off -> Forall (is_txn lc) ds -> (lc = 0 -> ds = []) ->
    units_parse bg og (fst (iterate_f f buf off lc (rev ds) vend)).
  Proof.
    induction f as [|f IH]; intros bg og ds buf off lc vend G HR HT HZ; [constructor|].
    rewrite iterate_f_S.
    destruct (safe_read buf off) as [e hl rest| | | | |] eqn:R; try constructor.
    destruct (e_key e) as [|k0 kr] eqn:K; [constructor|].
    assert (Kne: e_key e <> []) by (rewrite K; discriminate).
    pose proof (reads_snoc _ _ _ _ _ _ _ _ HR R Kne) as HR'.
    unfold after_read. fold (next_off off hl e). fold (txn_bit e). fold (fin_bit e).
    destruct (txn_bit e) eqn:T.
    - (* transactional entry *)
      set (ts := parse_ts (e_key e)).
      assert (Hts: ts <> 0).
      { specialize (G _ _ _ HR'). apply Forall_app in G. destruct G as [_ G].
        inversion G as [|? ? Hd _]; subst. apply Hd. exact T. }
      destruct (negb ((if lc =? 0 then ts else lc) =? ts)) eqn:E; [constructor|].
      apply negb_false_iff, N.eqb_eq in E.
      replace (mkDel e off (record_len hl e) :: rev ds) with (rev (ds ++ [mkDel e off (record_len hl e)]))
        by (rewrite rev_app_distr; reflexivity).
      apply IH; auto.
      + rewrite E. apply Forall_app. split.
        * destruct (lc =? 0) eqn:Z; [apply N.eqb_eq in Z; rewrite (HZ Z); constructor | now rewrite <- E].
        * constructor; [|constructor]. split; [exact T|reflexivity].
      + rewrite E. intros; contradiction.
    - destruct (fin_bit e) eqn:F.
      + (* end marker *)
        destruct (parse_uint_dec (e_value e)) as [ts|] eqn:P; [|constructor].
        destruct (negb (lc =? ts)) eqn:E; [constructor|].
        apply negb_false_iff, N.eqb_eq in E. subst ts.
        pose proof (no_zero_ts_after _ _ _ _ _ G HR') as G'.
        specialize (IH rest (next_off off hl e) [] rest (next_off off hl e) 0 (next_off off hl e) G'
                       (reads_nil _ _) (Forall_nil _) (fun _ => eq_refl)).
        cbn [rev] in IH.
        destruct (iterate_f f rest (next_off off hl e) 0 [] (next_off off hl e)) as [o oc].
        cbn [fst] in *. rewrite rev_involutive.
        eapply up_txn; eauto.
      + (* plain entry *)
        destruct (negb (lc =? 0)) eqn:E; [constructor|].
        apply negb_false_iff, N.eqb_eq in E. specialize (HZ E). subst ds lc.
        inversion HR; subst.
        pose proof (no_zero_ts_after _ _ _ _ _ G HR') as G'.
        specialize (IH rest (next_off off hl e) [] rest (next_off off hl e) 0 (next_off off hl e) G'
                       (reads_nil _ _) (Forall_nil _) (fun _ => eq_refl)).
        cbn [rev] in *.
        destruct (iterate_f f rest (next_off off hl e) 0 [] (next_off off hl e)) as [o oc].
        cbn [fst] in *. eapply up_plain; eauto.
  Qed.

  Theorem iterate_txn_units buf off : no_zero_ts buf off -> units_parse buf off (fst (iterate buf off)).
  Proof.
    intros G. unfold LogIter.iterate.
    apply (txn_units_gen (S (length buf)) buf off [] buf off 0 off G (reads_nil _ _) (Forall_nil _)).
    reflexivity.
  Qed.
End IterP.

(* ---------- logFile.iterate(readOnly, offset, fn) on a file image ---------- *)
Lemma drop_N_app pre : forall buf, drop_N (pre ++ buf) (N.of_nat (length pre)) = buf.
Proof.
  induction pre as [|x pre IH]; intros buf.
  - cbn [app length]. destruct buf; reflexivity.
  - cbn [app length drop_N].
    assert (E: (N.of_nat (S (length pre)) =? 0) = false) by (apply N.eqb_neq; lia). rewrite E.
    replace (N.of_nat (S (length pre)) - 1) with (N.of_nat (length pre)) by lia. apply IH.
Qed.

(* offset 0 = start after the 20-byte file header; any other offset = start there *)
Lemma iterate_file_spec encrypted xs base_iv pre buf offset :
  N.of_nat (length pre) = (if offset =? 0 then c_vlogHeaderSize else offset) ->
  iterate_file encrypted xs base_iv (pre ++ buf) offset
  = iterate encrypted xs base_iv buf (N.of_nat (length pre)).
Proof. intros H. unfold iterate_file. rewrite <- H. now rewrite drop_N_app. Qed.

(* ---------- concrete material for the Examples in props/C16.v, props/C09.v ---------- *)
Definition ex_plain : entry := mkEntry (key_with_ts [107; 49] 5) [118] 0 7 0.
Definition ex_t1 : entry := mkEntry (key_with_ts [97] 9) [1; 2] 64 0 0.
Definition ex_t2 : entry := mkEntry (key_with_ts [98] 9) [] 66 3 100.
Definition ex_marker : entry := mkEntry (key_with_ts c_txnKey 9) [57] 128 0 0.   (* value "9" *)
Definition ex_units : list lunit := [UPlain ex_plain; UTxn 9 [ex_t1; ex_t2] ex_marker].

Ltac wf_entry_tac := unfold wf_entry; repeat split; vm_compute; congruence.

Lemma ex_units_wf : Forall wf_unit ex_units.
Proof.
  repeat constructor; try wf_entry_tac; try (vm_compute; congruence).
Qed.

(* version-0 transactional entries: 0 doubles as "no transaction open" in logFile.iterate *)
Definition ex_z0 : entry := mkEntry (key_with_ts [97] 0) [1] 64 0 0.
Definition ex_z7 : entry := mkEntry (key_with_ts [98] 7) [2] 64 0 0.
Definition ex_zm : entry := mkEntry (key_with_ts c_txnKey 7) [55] 128 0 0.       (* value "7" *)

Lemma zero_ts_witness :
  let buf := encode_entries false xs_id [] [ex_z0; ex_z7; ex_zm] 20 in
  txn_bit ex_z0 = true /\ parse_ts (e_key ex_z0) = 0 /\ parse_uint_dec (e_value ex_zm) = Some 7 /\
  fst (iterate false xs_id [] buf 20) = dels [ex_z0; ex_z7] 20.
Proof. vm_compute. repeat split; reflexivity. Qed.

(* ---------- zero-filled torn images: rejected unless accepted with a matching checksum ---------- *)
Section TornP.
  Variable encrypted : bool.
  Variable xs : bytes -> bytes -> bytes.
  Variable base_iv : bytes.
  Hypothesis xs_len : forall iv d, length (xs iv d) = length d.

  (* the image is read back as a record (non-empty key, matching CRC-32C) *)
  Definition crc_accepts (img : bytes) (off : N) : bool :=
    match safe_read encrypted xs base_iv img off with
    | RdOk e _ _ => match e_key e with [] => false | _ => true end
    | _ => false
    end.

  Lemma torn_rejected_unless_accepted e off j n : wf_entry e ->
    let img := firstn j (encode_entry encrypted xs base_iv e off) ++ repeat 0 n in
    crc_accepts img off = false -> tail_rejected encrypted xs base_iv img off = true.
  Proof using xs_len.
    intros W img. unfold crc_accepts, tail_rejected.
    pose proof (safe_read_torn_no_error encrypted xs base_iv xs_len e off j n W) as [NE NP].
    fold img in NE, NP.
    destruct (safe_read encrypted xs base_iv img off) as [e' hl r| | | | |]; try reflexivity; try congruence.
    destruct (e_key e'); [reflexivity|discriminate].
  Qed.
End TornP.

(* one flipped bit in the header of an intact record makes the reader panic: value length 50
   becomes a varint that runs on into the 5-byte expiry 0x65FFFFFF; truncated to uint32 it is
   2^32 - 128 + 50, klen + vlen wraps to 22 < klen = 100 and  e.Key = buf[:h.klen]  is out of range *)
Definition ex_hdr : entry := mkEntry (key_with_ts (repeat 107 92) 7) (repeat 118 50) 0 0 1711276031.
Definition flip_bit7 (l : bytes) (i : nat) : bytes :=
  firstn i l ++ N.lxor (nth i l 0) 128 :: skipn (S i) l.

Lemma header_bitflip_panic_witness :
  wf_plain ex_hdr /\
  iterate false xs_id [] (encode_entry false xs_id [] ex_hdr 20) 20 = ([mkDel ex_hdr 20 (rec_size ex_hdr)], Done (20 + rec_size ex_hdr)) /\
  iterate false xs_id [] (flip_bit7 (encode_entry false xs_id [] ex_hdr 20) 3) 20 = ([], Panic).
Proof.
  split; [|split; vm_compute; reflexivity].
  unfold wf_plain. split; [wf_entry_tac|]. repeat split; vm_compute; congruence.
Qed.
